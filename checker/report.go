package main

import (
	"encoding/json"
	"fmt"
	"os"
	"path/filepath"
	"sort"
	"strings"
	"time"
)

type Ob struct {
	Rule   string `json:"rule"`
	Key    string `json:"key"` // rule @ function # construct (never a line number)
	Where  string `json:"where"`
	Detail string `json:"detail"`
	Status string `json:"status"` // ok | violation | known
}

type Result struct {
	ID          string
	P           *Prog
	Obs         []*Ob
	Broken      []string
	Funcs       map[string]bool
	Rules       map[string]string // rule id -> one-line statement
	Assumptions []string
	Explanation string
	NotDecided  string
	Info        map[string]any
}

func NewResult(id string, P *Prog) *Result {
	return &Result{ID: id, P: P, Funcs: map[string]bool{}, Rules: map[string]string{}, Info: map[string]any{}}
}

func (r *Result) rule(id, text string) { r.Rules[id] = text }

func (r *Result) add(rule, construct, where, detail string, ok bool) *Ob {
	key := rule + " @ " + construct
	// ordinal for duplicates
	n := 0
	for _, o := range r.Obs {
		if o.Key == key || strings.HasPrefix(o.Key, key+" [") {
			n++
		}
	}
	if n > 0 {
		key = fmt.Sprintf("%s [%d]", key, n+1)
	}
	st := "ok"
	if !ok {
		st = "violation"
	}
	o := &Ob{Rule: rule, Key: key, Where: where, Detail: detail, Status: st}
	r.Obs = append(r.Obs, o)
	return o
}

func (r *Result) ok(rule, construct, where, detail string) {
	r.add(rule, construct, where, detail, true)
}
func (r *Result) bad(rule, construct, where, detail string) {
	r.add(rule, construct, where, detail, false)
}
func (r *Result) check(cond bool, rule, construct, where, detail string) {
	r.add(rule, construct, where, detail, cond)
}
func (r *Result) broken(format string, a ...any) {
	r.Broken = append(r.Broken, fmt.Sprintf(format, a...))
}
func (r *Result) fn(name string) { r.Funcs[name] = true }

// minCount fails the check (broken) when a rule matched fewer instances than confirmed by hand.
func (r *Result) minCount(rule string, min int) {
	n := 0
	for _, o := range r.Obs {
		if o.Rule == rule {
			n++
		}
	}
	if n < min {
		r.broken("rule %s produced %d obligations, fewer than the %d confirmed by hand: the rule would pass vacuously", rule, n, min)
	}
}

type Finding struct {
	Property string `json:"property"`
	Key      string `json:"key"`
	Status   string `json:"status"` // known | fixed
	Commit   string `json:"commit,omitempty"`
	What     string `json:"what"`
}

func loadFindings(verifDir string) ([]Finding, error) {
	b, err := os.ReadFile(filepath.Join(verifDir, "known_findings.json"))
	if err != nil {
		if os.IsNotExist(err) {
			return nil, nil
		}
		return nil, err
	}
	var f struct {
		Findings []Finding `json:"findings"`
	}
	if err := json.Unmarshal(b, &f); err != nil {
		return nil, err
	}
	return f.Findings, nil
}

// Finish applies known findings, writes evidence and replay files, prints the verdict, returns the exit code.
func (r *Result) Finish(verifDir, tier string, seed int, t0 time.Time, extra map[string]any) int {
	findings, err := loadFindings(verifDir)
	if err != nil {
		r.broken("known_findings.json unreadable: %v", err)
	}
	known := map[string]Finding{}
	for _, f := range findings {
		if f.Property == r.ID && f.Status == "known" {
			known[f.Key] = f
		}
	}
	sort.SliceStable(r.Obs, func(i, j int) bool { return r.Obs[i].Key < r.Obs[j].Key })
	var viol, knownObs []*Ob
	okN := 0
	for _, o := range r.Obs {
		switch o.Status {
		case "ok":
			okN++
		case "violation":
			if f, ok := known[o.Key]; ok {
				o.Status = "known"
				knownObs = append(knownObs, o)
				fmt.Printf("KNOWN-FINDING: property=%s %s [%s at %s]\n", r.ID, f.What, o.Key, o.Where)
			} else {
				viol = append(viol, o)
			}
		}
	}
	evDir := filepath.Join(verifDir, "evidence")
	os.MkdirAll(evDir, 0o755)
	// stale replay files of this property are removed
	old, _ := filepath.Glob(filepath.Join(evDir, r.ID+".violation-*.json"))
	for _, f := range old {
		os.Remove(f)
	}
	for i, o := range viol {
		path := filepath.Join(evDir, fmt.Sprintf("%s.violation-%d.json", r.ID, i+1))
		b, _ := json.MarshalIndent(map[string]any{"property": r.ID, "obligation": o, "rule_text": r.Rules[o.Rule]}, "", " ")
		os.WriteFile(path, b, 0o644)
		fmt.Printf("VIOLATION property=%s replay=%s\n", r.ID, path)
		fmt.Printf("  rule %s: %s\n  at %s\n  %s\n", o.Rule, r.Rules[o.Rule], o.Where, o.Detail)
	}
	for _, b := range r.Broken {
		fmt.Printf("CHECK-BROKEN property=%s %s\n", r.ID, b)
	}
	// evidence
	var funcs []string
	for f := range r.Funcs {
		funcs = append(funcs, f)
	}
	sort.Strings(funcs)
	var ruleIDs []string
	for id := range r.Rules {
		ruleIDs = append(ruleIDs, id)
	}
	sort.Strings(ruleIDs)
	perRule := map[string]int{}
	for _, o := range r.Obs {
		perRule[o.Rule]++
	}
	var ruleList []map[string]any
	for _, id := range ruleIDs {
		ruleList = append(ruleList, map[string]any{"id": id, "statement": r.Rules[id], "obligations": perRule[id]})
	}
	samples := []any{}
	for _, o := range r.Obs {
		samples = append(samples, o)
	}
	cov := map[string]any{
		"explanation":        r.Explanation,
		"not_decided":        r.NotDecided,
		"obligations":        len(r.Obs),
		"discharged":         okN,
		"known_findings":     len(knownObs),
		"rules":              ruleList,
		"functions_analysed": funcs,
		"functions_count":    len(funcs),
		"repo_packages":      len(r.P.RepoPkgs),
		"repo_functions":     len(r.P.RepoFuncs),
		"packages_loaded":    r.P.AllPkgs,
		"samples":            samples,
		"exhaustive":         true,
		"checker_cmd":        fmt.Sprintf("./check %s %s", r.ID, tier),
		"trusted_base":       []string{"go/types, go/ssa (golang.org/x/tools v0.29.0)", "Cosmos SDK bank/staking/collections, CometBFT, go-ethereum behave as documented"},
		"broken":             r.Broken,
	}
	for k, v := range r.Info {
		cov[k] = v
	}
	for k, v := range extra {
		cov[k] = v
	}
	ev := map[string]any{
		"property_id": r.ID,
		"tier":        tier,
		"seed":        seed,
		"level":       "other",
		"coverage":    cov,
		"assumptions": r.Assumptions,
		"wall_s":      time.Since(t0).Seconds(),
		"violations":  len(viol),
	}
	b, _ := json.MarshalIndent(ev, "", " ")
	if err := os.WriteFile(filepath.Join(evDir, r.ID+".json"), b, 0o644); err != nil {
		fmt.Printf("CHECK-BROKEN cannot write evidence: %v\n", err)
		return 2
	}
	fmt.Printf("%s %s: %d obligations, %d discharged, %d known findings, %d violations, %d functions analysed, %.1fs\n",
		r.ID, tier, len(r.Obs), okN, len(knownObs), len(viol), len(funcs), time.Since(t0).Seconds())
	if len(viol) > 0 {
		return 1
	}
	if len(r.Broken) > 0 {
		return 2
	}
	return 0
}
