package main

// CENSUS (call-site enumeration with resolved descriptors) and FACTS/ORDER
// (path-state analysis over the SSA control-flow graph).

import (
	"fmt"
	"go/constant"
	"go/token"
	"os"
	"sort"
	"strings"

	"golang.org/x/tools/go/ssa"
)

type CallSite struct {
	Fn     *ssa.Function
	Instr  ssa.CallInstruction
	Callee string // canonical callee (CalleeName)
	Recv   string // "pkg.Struct.Field" when the receiver / first arg is a struct field (collections), else ""
	Method string // last component of Callee
}

func (c *CallSite) Pos() token.Pos { return c.Instr.Pos() }

// Desc: "coll:x/oracle/keeper.Keeper.Aggregates.Set" for collection calls, else Callee.
func (c *CallSite) Desc() string {
	if c.Recv != "" && strings.Contains(c.Callee, "cosmossdk.io/collections") {
		return "coll:" + c.Recv + "." + c.Method
	}
	return c.Callee
}

func (P *Prog) CallSitesIn(fn *ssa.Function) []*CallSite {
	out := P.callSitesInOwn(fn)
	// a block of fn that was given a name (see extractedInto) still belongs to fn: its call sites are listed with fn's, the
	// values in them are rendered in fn's terms (termer: parameters of an extracted helper are the caller's arguments), and
	// path facts for them are the facts at the helper's call site (PathStates.At)
	if fn.Parent() == nil {
		seen := map[*ssa.Function]bool{fn: true}
		for k := 0; k < len(out) && len(seen) < 6; k++ {
			if h := out[k].Instr.Common().StaticCallee(); h != nil && !seen[h] && extractedInto(h) == out[k].Fn {
				seen[h] = true
				out = append(out, P.callSitesInOwn(h)...)
			}
		}
	}
	return out
}

func (P *Prog) callSitesInOwn(fn *ssa.Function) []*CallSite {
	var out []*CallSite
	for _, b := range fn.Blocks {
		for _, in := range b.Instrs {
			c, ok := in.(ssa.CallInstruction)
			if !ok {
				continue
			}
			cc := c.Common()
			name := CalleeName(cc)
			cs := &CallSite{Fn: fn, Instr: c, Callee: name}
			if i := strings.LastIndex(name, "."); i >= 0 {
				cs.Method = name[i+1:]
			}
			if cc.IsInvoke() {
				cs.Recv = RecvField(cc.Value)
			} else if len(cc.Args) > 0 && cc.Signature().Recv() != nil {
				cs.Recv = RecvField(cc.Args[0])
			}
			out = append(out, cs)
		}
	}
	return out
}

var allSitesCache []*CallSite

// AllCallSites lists every call instruction in REPO functions.
func (P *Prog) AllCallSites() []*CallSite {
	if allSitesCache != nil {
		return allSitesCache
	}
	for _, fn := range P.RepoFuncs {
		allSitesCache = append(allSitesCache, P.CallSitesIn(fn)...)
	}
	return allSitesCache
}

// Sites returns the call sites whose descriptor satisfies pred.
func (P *Prog) Sites(pred func(*CallSite) bool) []*CallSite {
	var out []*CallSite
	for _, c := range P.AllCallSites() {
		if pred(c) {
			out = append(out, c)
		}
	}
	return out
}

// TopFunc returns the enclosing declared function of a (possibly anonymous) function.
func TopFunc(fn *ssa.Function) *ssa.Function {
	for fn.Parent() != nil {
		fn = fn.Parent()
	}
	// A function that did not exist on the reviewed tree, is unexported and is called from one function only is a
	// block of that function which somebody gave a name: constructs inside it are attributed to its caller, so that
	// tables keyed by the reviewed functions keep deciding the same code after an "extract helper" refactoring.
	for depth := 0; depth < 3; depth++ {
		o := extractedInto(fn)
		if o == nil {
			break
		}
		fn = o
	}
	return fn
}

// TopFunc2 is TopFunc without the climb through extracted helpers: the named function an instruction is written in.
func TopFunc2(fn *ssa.Function) *ssa.Function {
	for fn != nil && fn.Parent() != nil {
		fn = fn.Parent()
	}
	return fn
}

// extractedInto returns the single caller of a new unexported helper, nil when fn is a reviewed function or has no
// unique caller.
func extractedInto(fn *ssa.Function) *ssa.Function {
	if curProg == nil || len(reviewedFuncs) == 0 || fn == nil || fn.Parent() != nil || isReviewedFunc(FuncName(fn)) || !curProg.isRepoFunc(fn) {
		return nil
	}
	if n := fn.Name(); n == "" || (n[0] >= 'A' && n[0] <= 'Z') || n == "init" {
		return nil
	}
	var owner *ssa.Function
	for _, c := range curProg.callers[fn] {
		for c.Parent() != nil {
			c = c.Parent()
		}
		if c == fn {
			continue
		}
		if owner != nil && owner != c {
			return nil
		}
		owner = c
	}
	return owner
}

// Multiplicity is the number of times a construct inside fn counts for its TopFunc: 1, or for an extracted helper the number
// of its call sites in the caller (a block used three times and extracted is still used three times).
func Multiplicity(fn *ssa.Function) int {
	for fn.Parent() != nil {
		fn = fn.Parent()
	}
	m := 1
	for depth := 0; depth < 3; depth++ {
		o := extractedInto(fn)
		if o == nil {
			break
		}
		n := 0
		for _, f := range append([]*ssa.Function{o}, o.AnonFuncs...) {
			for _, b := range f.Blocks {
				for _, in := range b.Instrs {
					if c, ok := in.(ssa.CallInstruction); ok && c.Common().StaticCallee() == fn {
						n++
					}
				}
			}
		}
		if n > 1 {
			m *= n
		}
		fn = o
	}
	return m
}

// ConstArg returns the constant string/int rendering of argument i (after the receiver), "" if not constant.
func ConstArg(c ssa.CallInstruction, i int) string {
	cc := c.Common()
	args := cc.Args
	if !cc.IsInvoke() && cc.Signature().Recv() != nil {
		args = args[1:]
	}
	if i >= len(args) {
		return ""
	}
	t := NewTermer().Of(args[i])
	if strings.HasPrefix(t.Op, "const:") {
		return strings.TrimPrefix(t.Op, "const:")
	}
	return ""
}

// Arg returns argument i (after the receiver).
func Arg(c ssa.CallInstruction, i int) ssa.Value {
	cc := c.Common()
	args := cc.Args
	if !cc.IsInvoke() && cc.Signature().Recv() != nil {
		args = args[1:]
	}
	if i >= len(args) {
		return nil
	}
	return args[i]
}

// ---------------------------------------------------------------------------
// Path-state analysis.
//
// An Atom is a named boolean that is set along control-flow paths either by a
// branch (the If's normalised condition matches Cond) or by an event (an
// instruction matches Event). The analysis computes, for every program point of
// interest, the set of atom valuations over all paths reaching it (a may-set,
// fixpoint over the CFG including loops; later settings override earlier ones).

const (
	U int8 = 0 // unknown / not set on this path
	T int8 = 1
	F int8 = 2
)

type Atom struct {
	Name string
	// Cond: rel is the positive normalised relation of an If condition. Return
	// match and whether rel being true means the atom is true.
	Cond func(rel *Term) (match bool, atomTrueWhenRel bool)
	// Event: an instruction that sets the atom to val (T, F or U=reset).
	Event func(in ssa.Instruction) (match bool, val int8)
	// Stable: every condition this atom matches tests the same immutable SSA value (e.g. the error result
	// of one call), so a path that already knows the atom cannot take the edge that contradicts it
	// (prunes the infeasible paths of `if err != nil && ..` followed by `if err == nil && ..`).
	Stable bool
	// Exact: the Cond interprets (and may record) the relation in the form it is written; the engine then does not
	// offer it the negated rendering of an inverted guard (a <= b as !(b < a)).
	Exact bool
}

type State string // one byte per atom

func (s State) set(i int, v int8) State {
	b := []byte(s)
	b[i] = byte(v)
	return State(b)
}

// curProg is the loaded program (set by Load); the path-state engine uses it to summarise guard helpers.
var curProg *Prog

// guardFact: a normalised condition of a helper and the truth value it has on every success return.
type guardFact struct {
	rel   *Term
	truth bool
}

var guardFactsMemo = map[*ssa.Function][]guardFact{}
var guardFactsBusy = map[*ssa.Function]bool{}

// guardFacts summarises a helper that returns an error: the branch conditions whose value is the same
// (known) on every success return. `if err := k.requireX(a); err != nil { return err }` then establishes
// those facts, with the helper's parameters replaced by the caller's arguments.
func guardFacts(fn *ssa.Function) []guardFact {
	if f, ok := guardFactsMemo[fn]; ok {
		return f
	}
	if guardFactsBusy[fn] || fn == nil || len(fn.Blocks) == 0 || len(fn.Blocks) > 40 || errorResultIndex(fn) < 0 {
		return nil
	}
	guardFactsBusy[fn] = true
	defer func() { guardFactsBusy[fn] = false }()
	prevFrame := curFrame
	curFrame = TopFunc2(fn)
	defer func() { curFrame = prevFrame }()
	tm := NewTermer()
	var rels []*Term
	seen := map[string]bool{}
	for _, b := range fn.Blocks {
		if len(b.Instrs) == 0 {
			continue
		}
		if iff, ok := b.Instrs[len(b.Instrs)-1].(*ssa.If); ok {
			rel, _ := Cond(tm.Of(iff.Cond))
			if k := rel.String(); !seen[k] && len(rels) < 10 {
				seen[k] = true
				rels = append(rels, rel)
			}
		}
	}
	var atoms []Atom
	for i, rel := range rels {
		key := rel.String()
		atoms = append(atoms, Atom{Name: fmt.Sprintf("g%d", i), Cond: func(r *Term) (bool, bool) { return r.String() == key, true }})
	}
	var out []guardFact
	if len(atoms) > 0 {
		ps := analyzePaths(fn, atoms, false)
		rets := SuccessReturns(fn)
		for i, rel := range rels {
			val := int8(-1)
			okAll := len(rets) > 0
			for _, ret := range rets {
				for _, st := range ps.At(ret) {
					v := int8(st[i])
					if v == U || (val != -1 && v != val) {
						okAll = false
					}
					val = v
				}
			}
			if okAll && (val == T || val == F) {
				out = append(out, guardFact{rel, val == T})
			}
		}
	}
	guardFactsMemo[fn] = out
	return out
}

var boolFactsMemo = map[*ssa.Function][2][]guardFact{}

// boolFacts summarises a predicate helper (single bool result): the branch conditions that have one
// known value on every return of `true` ([1]) and on every return of `false` ([0]). A return of a
// condition value itself (`return v.IsBonded()`) contributes that condition with the matching truth.
func boolFacts(fn *ssa.Function) (out [2][]guardFact) {
	if f, ok := boolFactsMemo[fn]; ok {
		return f
	}
	if guardFactsBusy[fn] || fn == nil || len(fn.Blocks) == 0 || len(fn.Blocks) > 40 {
		return
	}
	res := fn.Signature.Results()
	if res.Len() != 1 || res.At(0).Type().String() != "bool" {
		return
	}
	guardFactsBusy[fn] = true
	defer func() { guardFactsBusy[fn] = false }()
	prevFrame := curFrame
	curFrame = TopFunc2(fn)
	defer func() { curFrame = prevFrame }()
	tm := NewTermer()
	var rels []*Term
	seen := map[string]bool{}
	addRel := func(rel *Term) {
		if k := rel.String(); !seen[k] && len(rels) < 10 {
			seen[k] = true
			rels = append(rels, rel)
		}
	}
	for _, b := range fn.Blocks {
		if len(b.Instrs) == 0 {
			continue
		}
		if iff, ok := b.Instrs[len(b.Instrs)-1].(*ssa.If); ok {
			rel, _ := Cond(tm.Of(iff.Cond))
			addRel(rel)
		}
	}
	var atoms []Atom
	for i, rel := range rels {
		key := rel.String()
		atoms = append(atoms, Atom{Name: fmt.Sprintf("g%d", i), Cond: func(r *Term) (bool, bool) { return r.String() == key, true }})
	}
	var ps *PathStates
	if len(atoms) > 0 {
		ps = analyzePaths(fn, atoms, false)
	}
	type bucket struct {
		n    int
		vals []int8 // per rel: -1 unset, -2 conflicting/unknown
	}
	bk := [2]*bucket{{vals: make([]int8, len(rels))}, {vals: make([]int8, len(rels))}}
	for _, b := range bk {
		for i := range b.vals {
			b.vals[i] = -1
		}
	}
	var direct [2][]guardFact
	undecided := false
	for _, b := range fn.Blocks {
		for _, in := range b.Instrs {
			ret, ok := in.(*ssa.Return)
			if !ok || len(ret.Results) != 1 {
				continue
			}
			t := tm.Of(ret.Results[0])
			which := -1
			switch t.Op {
			case "const:true":
				which = 1
			case "const:false":
				which = 0
			}
			if which < 0 {
				// the result is a condition value: result true <=> rel (with polarity)
				rel, pol := Cond(t)
				if rel.Op == "phi" {
					undecided = true
					continue
				}
				direct[1] = append(direct[1], guardFact{rel, pol})
				direct[0] = append(direct[0], guardFact{rel, !pol})
				if len(fn.Blocks) > 1 {
					undecided = true // mixed forms: keep only what single-return predicates give
				}
				continue
			}
			bk[which].n++
			if ps != nil {
				for _, st := range ps.At(ret) {
					for i := range rels {
						v := int8(st[i])
						cur := bk[which].vals[i]
						switch {
						case v == U:
							bk[which].vals[i] = -2
						case cur == -1:
							bk[which].vals[i] = v
						case cur != v:
							bk[which].vals[i] = -2
						}
					}
				}
			}
		}
	}
	if !undecided || len(fn.Blocks) == 1 {
		for w := 0; w < 2; w++ {
			out[w] = append(out[w], direct[w]...)
		}
	}
	if !undecided {
		for w := 0; w < 2; w++ {
			if bk[w].n == 0 {
				continue
			}
			for i, rel := range rels {
				if v := bk[w].vals[i]; v == T || v == F {
					out[w] = append(out[w], guardFact{rel, v == T})
				}
			}
		}
	}
	boolFactsMemo[fn] = out
	return
}

// substParams replaces the helper's parameters in t by the caller's argument terms.
func substParams(t *Term, args []*Term) *Term {
	if strings.HasPrefix(t.Op, "param:") {
		var n int
		if _, err := fmt.Sscanf(t.Op, "param:%d:", &n); err == nil && n < len(args) {
			return args[n]
		}
	}
	if len(t.Args) == 0 {
		return t
	}
	c := &Term{Op: t.Op, V: t.V}
	for _, a := range t.Args {
		c.Args = append(c.Args, substParams(a, args))
	}
	return c
}

type PathStates struct {
	Fn    *ssa.Function
	Atoms []Atom
	tm    *termer
	// in[b] = set of states at block entry
	in map[*ssa.BasicBlock]map[State]bool
	// matched branch atoms, for evidence
	Matched map[string][]string
	// edge[{from,to}] = set of states carried along the CFG edge (branch facts of from's If applied)
	edge map[[2]*ssa.BasicBlock]map[State]bool
}

// RequireOnEdge checks that every valuation carried along the edge from -> to satisfies phi (unknown atoms
// are tried both ways); it returns the failing valuations rendered.
func (ps *PathStates) RequireOnEdge(from, to *ssa.BasicBlock, phi func(val map[string]bool) bool) []string {
	var bad []string
	var states []State
	for s := range ps.edge[[2]*ssa.BasicBlock{from, to}] {
		states = append(states, s)
	}
	sort.Slice(states, func(i, j int) bool { return states[i] < states[j] })
	for _, s := range states {
		var unk []int
		for i := range ps.Atoms {
			if int8(s[i]) == U {
				unk = append(unk, i)
			}
		}
		ok := true
		for mask := 0; mask < 1<<len(unk) && ok; mask++ {
			val := map[string]bool{}
			for i, a := range ps.Atoms {
				val[a.Name] = int8(s[i]) == T
			}
			for k, i := range unk {
				val[ps.Atoms[i].Name] = mask&(1<<k) != 0
			}
			if !phi(val) {
				ok = false
			}
		}
		if !ok {
			bad = append(bad, ps.Render(s))
		}
	}
	return bad
}

func AnalyzePaths(fn *ssa.Function, atoms []Atom) *PathStates { return analyzePaths(fn, atoms, true) }

// curFrame is the function being analysed in its own terms: its parameters are rendered as parameters even when it is a
// helper extracted from another function (guard-helper summaries and gate helpers reason about the helper itself).
var curFrame *ssa.Function

func analyzePaths(fn *ssa.Function, atoms []Atom, helpers bool) *PathStates {
	prevFrame := curFrame
	curFrame = TopFunc2(fn)
	defer func() { curFrame = prevFrame }()
	ps := &PathStates{Fn: fn, Atoms: atoms, tm: NewTermer(), in: map[*ssa.BasicBlock]map[State]bool{}, Matched: map[string][]string{}, edge: map[[2]*ssa.BasicBlock]map[State]bool{}}
	if len(fn.Blocks) == 0 {
		return ps
	}
	ib := make([]byte, len(atoms))
	for i, a := range atoms {
		if a.Event != nil && a.Cond == nil {
			ib[i] = byte(F) // an event that has not happened yet
		}
	}
	init := State(ib)
	ps.in[fn.Blocks[0]] = map[State]bool{init: true}
	work := []*ssa.BasicBlock{fn.Blocks[0]}
	inWork := map[*ssa.BasicBlock]bool{fn.Blocks[0]: true}
	// pre-compute branch matches
	type bm struct {
		atom int
		pol  bool
		// one-sided entries come from a guard helper: only the success edge (succIdx) sets the atom to val
		oneSided bool
		pre      [][2]int // prerequisites (atom, value): the one-sided fact applies only to states that satisfy them
		succIdx  int
		val      int8
	}
	branch := map[*ssa.BasicBlock][]bm{}
	for _, b := range fn.Blocks {
		if len(b.Instrs) == 0 {
			continue
		}
		if iff, ok := b.Instrs[len(b.Instrs)-1].(*ssa.If); ok {
			rel, pol := Cond(ps.tm.Of(iff.Cond))
			for i, a := range atoms {
				if a.Cond == nil {
					continue
				}
				if m, atw := a.Cond(rel); m {
					branch[b] = append(branch[b], bm{atom: i, pol: pol == atw})
					ps.Matched[a.Name] = append(ps.Matched[a.Name], rel.String())
				} else if alt := flippedRel(rel); alt != nil && !a.Exact {
					// a <= b is the negation of b < a (and the reverse): an inverted guard states the same fact
					if m, atw := a.Cond(alt); m {
						branch[b] = append(branch[b], bm{atom: i, pol: (!pol) == atw})
						ps.Matched[a.Name] = append(ps.Matched[a.Name], "!"+alt.String())
					}
				}
			}
			// `switch { case a && b: }` and `v := a && b; if v`: the condition is evaluated as a value, the If tests a phi whose
			// edges are the constant false of each short-circuit exit and the value of the last operand. The phi is true only if
			// every operand was true (for ||: false only if every operand was false): one-sided facts on that successor.
			if phi, isPhi := iff.Cond.(*ssa.Phi); isPhi && len(phi.Edges) == len(phi.Block().Preds) {
				allFalse, allTrue, nconst := true, true, 0
				for _, e := range phi.Edges {
					if c, ok := e.(*ssa.Const); ok && c.Value != nil && c.Value.Kind() == constant.Bool {
						nconst++
						if constant.BoolVal(c.Value) {
							allFalse = false
						} else {
							allTrue = false
						}
					}
				}
				if nconst > 0 && nconst < len(phi.Edges) && (allFalse || allTrue) {
					succIdx, want := 0, true // && form: facts on the true successor, every operand true
					if allTrue && !allFalse {
						succIdx, want = 1, false // || form: facts on the false successor, every operand false
					}
					addFact := func(cond ssa.Value, holds bool) {
						orel, opol := Cond(ps.tm.Of(cond))
						for i, a := range atoms {
							if a.Cond == nil {
								continue
							}
							try := func(r *Term, p bool) bool {
								if m, atw := a.Cond(r); m {
									v := F
									if (p == atw) == holds {
										v = T
									}
									branch[b] = append(branch[b], bm{atom: i, oneSided: true, succIdx: succIdx, val: v})
									ps.Matched[a.Name] = append(ps.Matched[a.Name], "operand of a short-circuit value: "+r.String())
									return true
								}
								return false
							}
							if !try(orel, opol) && !a.Exact {
								if alt := flippedRel(orel); alt != nil {
									try(alt, !opol)
								}
							}
						}
					}
					var lastOperand ssa.Value
					var earlier []ssa.Value
					for k, e := range phi.Edges {
						if _, isConst := e.(*ssa.Const); !isConst {
							addFact(e, want)
							lastOperand = e
							continue
						}
						// the short-circuit exit: the pred's own If decided this operand the other way
						pred := phi.Block().Preds[k]
						if len(pred.Instrs) > 0 {
							if pif, ok := pred.Instrs[len(pred.Instrs)-1].(*ssa.If); ok {
								addFact(pif.Cond, want)
								earlier = append(earlier, pif.Cond)
								continue
							}
						}
						earlier = append(earlier, nil)
					}
					// the converse on the other successor: a state in which every earlier operand is known to have held (it came
					// through the last operand's block) and the phi is false (for ||: true) has the last operand false (true)
					if lastOperand != nil && nconst == len(phi.Edges)-1 {
						atomOf := func(cond ssa.Value, holds bool) [][2]int {
							var out [][2]int
							if cond == nil {
								return nil
							}
							orel, opol := Cond(ps.tm.Of(cond))
							for i, a := range atoms {
								if a.Cond == nil || !a.Stable {
									continue
								}
								for _, c := range []struct {
									r *Term
									p bool
								}{{orel, opol}, {flippedRel(orel), !opol}} {
									if c.r == nil || (c.r != orel && a.Exact) {
										continue
									}
									if m, atw := a.Cond(c.r); m {
										v := int(F)
										if (c.p == atw) == holds {
											v = int(T)
										}
										out = append(out, [2]int{i, v})
										break
									}
								}
							}
							return out
						}
						var pre [][2]int
						okPre := true
						for _, c := range earlier {
							p := atomOf(c, want)
							if len(p) == 0 {
								okPre = false
							}
							pre = append(pre, p...)
						}
						if okPre {
							for _, f := range atomOf(lastOperand, !want) {
								branch[b] = append(branch[b], bm{atom: f[0], oneSided: true, succIdx: 1 - succIdx, val: int8(f[1]), pre: pre})
							}
						}
					}
				}
			}
			// `if helper(args)` with a predicate helper: the facts it guarantees per result, in the caller's terms
			if helpers && curProg != nil && strings.HasPrefix(rel.Op, "call:") {
				if hf := curProg.Func(strings.TrimPrefix(rel.Op, "call:")); hf != nil && hf != fn {
					bf := boolFacts(hf)
					for w := 0; w < 2; w++ {
						// result true: the If's true edge when pol, else its false edge
						succIdx := 0
						if (w == 1) != pol {
							succIdx = 1
						}
						for _, f := range bf[w] {
							frel := substParams(f.rel, rel.Args)
							for i, a := range atoms {
								if a.Cond == nil {
									continue
								}
								if m, atw := a.Cond(frel); m {
									v := F
									if f.truth == atw {
										v = T
									}
									branch[b] = append(branch[b], bm{atom: i, oneSided: true, succIdx: succIdx, val: v})
									ps.Matched[a.Name] = append(ps.Matched[a.Name], "via "+FuncName(hf)+": "+frel.String())
								}
							}
						}
					}
				}
			}
			// `helper(args) == nil`: the facts the helper guarantees on success, in the caller's terms
			if helpers && curProg != nil && rel.Op == "==" && len(rel.Args) == 2 {
				for _, pair := range [][2]*Term{{rel.Args[0], rel.Args[1]}, {rel.Args[1], rel.Args[0]}} {
					call, other := pair[0], pair[1]
					if other.Op != "const:nil" {
						continue
					}
					if strings.HasPrefix(call.Op, "ext:") && len(call.Args) == 1 {
						call = call.Args[0]
					}
					if !strings.HasPrefix(call.Op, "call:") {
						continue
					}
					hf := curProg.Func(strings.TrimPrefix(call.Op, "call:"))
					if hf == nil || hf == fn {
						continue
					}
					succIdx := 1
					if pol {
						succIdx = 0
					}
					for _, f := range guardFacts(hf) {
						frel := substParams(f.rel, call.Args)
						for i, a := range atoms {
							if a.Cond == nil {
								continue
							}
							if m, atw := a.Cond(frel); m {
								v := F
								if f.truth == atw {
									v = T
								}
								branch[b] = append(branch[b], bm{atom: i, oneSided: true, succIdx: succIdx, val: v})
								ps.Matched[a.Name] = append(ps.Matched[a.Name], "via "+FuncName(hf)+": "+frel.String())
							}
						}
					}
				}
			}
		}
	}
	for len(work) > 0 {
		b := work[0]
		work = work[1:]
		inWork[b] = false
		outs := map[State]bool{}
		for s := range ps.in[b] {
			outs[ps.through(b, s, len(b.Instrs))] = true
		}
		for si, succ := range b.Succs {
			for s := range outs {
				ns := s
				infeasible := false
				for _, m := range branch[b] {
					if m.oneSided {
						if si == m.succIdx {
							holds := true
							for _, p := range m.pre {
								if int(int8(s[p[0]])) != p[1] {
									holds = false
								}
							}
							if !holds {
								continue
							}
							if atoms[m.atom].Stable && int8(s[m.atom]) != U && int8(s[m.atom]) != m.val {
								infeasible = true
							}
							ns = ns.set(m.atom, m.val)
						}
						continue
					}
					val := F
					if (si == 0) == m.pol {
						val = T
					}
					if atoms[m.atom].Stable && int8(s[m.atom]) != U && int8(s[m.atom]) != val {
						infeasible = true
					}
					ns = ns.set(m.atom, val)
				}
				if infeasible {
					continue
				}
				if ps.in[succ] == nil {
					ps.in[succ] = map[State]bool{}
				}
				ek := [2]*ssa.BasicBlock{b, succ}
				if ps.edge[ek] == nil {
					ps.edge[ek] = map[State]bool{}
				}
				ps.edge[ek][ns] = true
				if !ps.in[succ][ns] {
					ps.in[succ][ns] = true
					if !inWork[succ] {
						inWork[succ] = true
						work = append(work, succ)
					}
				}
			}
		}
	}
	return ps
}

// through applies the events of b.Instrs[0:upto] to state s.
func (ps *PathStates) through(b *ssa.BasicBlock, s State, upto int) State {
	for k := 0; k < upto && k < len(b.Instrs); k++ {
		for i, a := range ps.Atoms {
			if a.Event == nil {
				continue
			}
			if m, v := a.Event(b.Instrs[k]); m {
				s = s.set(i, v)
			}
		}
	}
	return s
}

// At returns the valuations possible immediately before instruction in.
func (ps *PathStates) At(in ssa.Instruction) []State {
	if h := TopFunc2(in.Parent()); h != TopFunc2(ps.Fn) && ps.Fn.Parent() == nil {
		// an instruction inside a helper extracted from ps.Fn: the facts that hold at the helper's call sites
		set := map[State]bool{}
		for depth := 0; depth < 3 && h != nil && h != ps.Fn; depth++ {
			o := extractedInto(h)
			if o == ps.Fn {
				for _, b := range ps.Fn.Blocks {
					for _, x := range b.Instrs {
						if c, ok := x.(ssa.CallInstruction); ok && c.Common().StaticCallee() == h {
							for _, st := range ps.At(x) {
								set[st] = true
							}
						}
					}
				}
			}
			h = o
		}
		var out []State
		for st := range set {
			out = append(out, st)
		}
		sort.Slice(out, func(i, j int) bool { return out[i] < out[j] })
		return out
	}
	b := in.Block()
	idx := -1
	for k, x := range b.Instrs {
		if x == in {
			idx = k
		}
	}
	set := map[State]bool{}
	for s := range ps.in[b] {
		set[ps.through(b, s, idx)] = true
	}
	var out []State
	for s := range set {
		out = append(out, s)
	}
	sort.Slice(out, func(i, j int) bool { return out[i] < out[j] })
	return out
}

// Reachable reports whether the instruction is reachable at all.
func (ps *PathStates) Reachable(in ssa.Instruction) bool { return len(ps.in[in.Block()]) > 0 }

func (ps *PathStates) Render(s State) string {
	var parts []string
	for i, a := range ps.Atoms {
		switch int8(s[i]) {
		case T:
			parts = append(parts, a.Name)
		case F:
			parts = append(parts, "!"+a.Name)
		default:
			parts = append(parts, "?"+a.Name)
		}
	}
	return strings.Join(parts, " ")
}

// Require checks that every valuation reaching `in` satisfies phi; unknown atoms
// are tried both ways. It returns the failing valuations rendered.
func (ps *PathStates) Require(in ssa.Instruction, phi func(val map[string]bool) bool) []string {
	var bad []string
	for _, s := range ps.At(in) {
		var unk []int
		for i := range ps.Atoms {
			if int8(s[i]) == U {
				unk = append(unk, i)
			}
		}
		ok := true
		for mask := 0; mask < 1<<len(unk) && ok; mask++ {
			val := map[string]bool{}
			for i, a := range ps.Atoms {
				val[a.Name] = int8(s[i]) == T
			}
			for k, i := range unk {
				val[ps.Atoms[i].Name] = mask&(1<<k) != 0
			}
			if !phi(val) {
				ok = false
			}
		}
		if !ok {
			bad = append(bad, ps.Render(s))
		}
	}
	return bad
}

// ---------------------------------------------------------------------------
// Return classification.

// errorOperand returns the index of the error-typed result of fn, -1 if none.
func errorResultIndex(fn *ssa.Function) int {
	res := fn.Signature.Results()
	for i := res.Len() - 1; i >= 0; i-- {
		if res.At(i).Type().String() == "error" {
			return i
		}
	}
	return -1
}

// DefinitelyFails reports whether the return instruction returns a non-nil error
// on every execution: a freshly built error, a sentinel, or a value that a
// dominating branch established to be non-nil.
func DefinitelyFails(ret *ssa.Return) bool {
	fn := ret.Parent()
	ei := errorResultIndex(fn)
	if ei < 0 || ei >= len(ret.Results) {
		return false
	}
	return nonNilError(unspill(ret.Results[ei], ret), ret.Block(), 0)
}

// unspill resolves a result that go/ssa spilled to a stack slot because the
// function has a defer: "*r = v; rundefers; t = *r; return t" yields v.
func unspill(v ssa.Value, at ssa.Instruction) ssa.Value {
	ld, ok := v.(*ssa.UnOp)
	if !ok || ld.Op != token.MUL {
		return v
	}
	al, ok := ld.X.(*ssa.Alloc)
	if !ok {
		return v
	}
	b := at.Block()
	var last ssa.Value
	for _, in := range b.Instrs {
		if in == at {
			break
		}
		if st, ok := in.(*ssa.Store); ok && st.Addr == al {
			last = st.Val
		}
	}
	if last != nil {
		return last
	}
	return v
}

// ResultOf returns result i of a return instruction, seen through defer spilling.
func ResultOf(ret *ssa.Return, i int) ssa.Value {
	if i >= len(ret.Results) {
		return nil
	}
	return unspill(ret.Results[i], ret)
}

func nonNilError(v ssa.Value, at *ssa.BasicBlock, depth int) bool {
	if depth > 4 {
		return false
	}
	switch x := v.(type) {
	case *ssa.Const:
		return false
	case *ssa.MakeInterface:
		return true // concrete value boxed into error
	case *ssa.ChangeInterface:
		return nonNilError(x.X, at, depth+1)
	case *ssa.UnOp:
		if x.Op == token.MUL {
			if g, ok := x.X.(*ssa.Global); ok && (strings.HasPrefix(g.Name(), "Err") || strings.HasPrefix(g.Name(), "err")) {
				return true
			}
		}
	case *ssa.Call:
		name := CalleeName(x.Common())
		for _, p := range []string{"errors.New", "fmt.Errorf", "cosmossdk.io/errors.Wrap", "cosmossdk.io/errors.Wrapf", "google.golang.org/grpc/status.Error", "google.golang.org/grpc/status.Errorf", "(*cosmossdk.io/errors.Error).Wrap", "(*cosmossdk.io/errors.Error).Wrapf", "cosmossdk.io/errors.Register"} {
			if name == p {
				if strings.HasPrefix(p, "cosmossdk.io/errors.Wrap") {
					// Wrap(nil, ..) is nil: only non-nil if the wrapped operand is
					if len(x.Common().Args) > 0 {
						return nonNilError(x.Common().Args[0], at, depth+1)
					}
					return false
				}
				return true
			}
		}
	case *ssa.Phi:
		all := len(x.Edges) > 0
		for _, e := range x.Edges {
			if !nonNilError(e, at, depth+1) {
				all = false
				break
			}
		}
		if all {
			return true
		}
		// else: the merged value may still be tested by a dominating `v != nil`
	}
	// dominating `v != nil` true edge
	for b := at; b != nil; b = b.Idom() {
		d := b.Idom()
		if d == nil || len(d.Instrs) == 0 {
			continue
		}
		iff, ok := d.Instrs[len(d.Instrs)-1].(*ssa.If)
		if !ok {
			continue
		}
		bin, ok := iff.Cond.(*ssa.BinOp)
		if !ok {
			continue
		}
		isNil := func(z ssa.Value) bool { c, ok := z.(*ssa.Const); return ok && c.Value == nil }
		var other ssa.Value
		if isNil(bin.Y) {
			other = bin.X
		} else if isNil(bin.X) {
			other = bin.Y
		} else {
			continue
		}
		if other != v && !sameLoad(other, v) {
			continue
		}
		// which successor are we in?
		if bin.Op == token.NEQ && d.Succs[0] == b && len(b.Preds) == 1 {
			return true
		}
		if bin.Op == token.EQL && d.Succs[1] == b && len(b.Preds) == 1 {
			return true
		}
	}
	return false
}

// SuccessReturns lists the return instructions that may return a nil error.
func SuccessReturns(fn *ssa.Function) []*ssa.Return {
	var out []*ssa.Return
	for _, b := range fn.Blocks {
		if len(b.Instrs) == 0 {
			continue
		}
		if r, ok := b.Instrs[len(b.Instrs)-1].(*ssa.Return); ok {
			if b == fn.Recover {
				continue
			}
			if !DefinitelyFails(r) {
				out = append(out, r)
			}
		}
	}
	return out
}

// ---------------------------------------------------------------------------
// helpers for atoms

// CallEvent builds an Event that fires on a call whose site descriptor satisfies pred.
//
// A positive event (val == T, "it happened") also fires on a call to a repository function that
// performs a matching call on every one of its success paths (a wrapper that always does X counts
// as X; bounded to helpers of helpers). Negative / resetting events are matched at the site only.
func (P *Prog) CallEvent(pred func(*CallSite) bool, val int8) func(ssa.Instruction) (bool, int8) {
	memo := map[*ssa.Function]bool{}
	var always func(fn *ssa.Function, depth int) bool
	always = func(fn *ssa.Function, depth int) bool {
		if v, ok := memo[fn]; ok {
			return v
		}
		memo[fn] = false // recursion guard
		if fn == nil || len(fn.Blocks) == 0 || !P.isRepoFunc(fn) {
			return false
		}
		ps := AnalyzePaths(fn, []Atom{{Name: "done", Event: func(in ssa.Instruction) (bool, int8) {
			c, ok := in.(ssa.CallInstruction)
			if !ok {
				return false, U
			}
			if _, isGo := in.(*ssa.Go); isGo {
				return false, U
			}
			if _, isDefer := in.(*ssa.Defer); isDefer {
				return false, U
			}
			if cs := P.siteOf(c); cs != nil && pred(cs) {
				return true, T
			}
			if depth < 2 {
				if callees := P.CalleesOfCall(c); len(callees) == 1 && always(callees[0], depth+1) {
					return true, T
				}
			}
			return false, U
		}}})
		rets := SuccessReturns(fn)
		ok := len(rets) > 0
		for _, ret := range rets {
			if bad := ps.Require(ret, func(v map[string]bool) bool { return v["done"] }); len(bad) > 0 {
				ok = false
			}
		}
		memo[fn] = ok
		return ok
	}
	return func(in ssa.Instruction) (bool, int8) {
		c, ok := in.(ssa.CallInstruction)
		if !ok {
			return false, U
		}
		cs := P.siteOf(c)
		if cs != nil && pred(cs) {
			return true, val
		}
		if val == T {
			if _, isGo := in.(*ssa.Go); isGo {
				return false, U
			}
			if _, isDefer := in.(*ssa.Defer); isDefer {
				return false, U
			}
			if callees := P.CalleesOfCall(c); len(callees) == 1 && always(callees[0], 0) {
				return true, val
			}
		}
		return false, U
	}
}

// InstrEvent is CallEvent for arbitrary instructions: an instruction matches when pred holds for it, or (for val
// T) when it is a call to a single repository function every success path of which passes a matching instruction
// (depth <= 2). It lets a rule about "the status is set to X" survive the extraction of that step into a helper.
func (P *Prog) InstrEvent(pred func(ssa.Instruction) bool, val int8) func(ssa.Instruction) (bool, int8) {
	memo := map[*ssa.Function]bool{}
	var always func(fn *ssa.Function, depth int) bool
	always = func(fn *ssa.Function, depth int) bool {
		if v, ok := memo[fn]; ok {
			return v
		}
		memo[fn] = false
		if fn == nil || len(fn.Blocks) == 0 || !P.isRepoFunc(fn) {
			return false
		}
		ps := analyzePaths(fn, []Atom{{Name: "done", Event: func(in ssa.Instruction) (bool, int8) {
			if pred(in) {
				return true, T
			}
			c, ok := in.(*ssa.Call)
			if ok && depth < 2 {
				if callees := P.CalleesOfCall(c); len(callees) == 1 && always(callees[0], depth+1) {
					return true, T
				}
			}
			return false, U
		}}}, false)
		rets := SuccessReturns(fn)
		ok := len(rets) > 0
		if fn.Signature.Results().Len() == 0 {
			// no error result: every return counts
			rets = nil
			for _, b := range fn.Blocks {
				if ret, isRet := b.Instrs[len(b.Instrs)-1].(*ssa.Return); isRet {
					rets = append(rets, ret)
				}
			}
			ok = len(rets) > 0
		}
		for _, ret := range rets {
			if bad := ps.Require(ret, func(v map[string]bool) bool { return v["done"] }); len(bad) > 0 {
				ok = false
			}
		}
		memo[fn] = ok
		return ok
	}
	return func(in ssa.Instruction) (bool, int8) {
		if pred(in) {
			return true, val
		}
		if val == T {
			if c, ok := in.(*ssa.Call); ok {
				if callees := P.CalleesOfCall(c); len(callees) == 1 && always(callees[0], 0) {
					return true, val
				}
			}
		}
		return false, U
	}
}

var siteIndex map[ssa.CallInstruction]*CallSite

func (P *Prog) siteOf(c ssa.CallInstruction) *CallSite {
	if siteIndex == nil {
		siteIndex = map[ssa.CallInstruction]*CallSite{}
		for _, s := range P.AllCallSites() {
			siteIndex[s.Instr] = s
		}
	}
	if s, ok := siteIndex[c]; ok {
		return s
	}
	// call in a function outside the index (e.g. wrapper): describe on the fly
	for _, s := range P.CallSitesIn(c.Parent()) {
		if s.Instr == c {
			return s
		}
	}
	return nil
}

func descIs(d string) func(*CallSite) bool { return func(c *CallSite) bool { return c.Desc() == d } }

func fmtSite(P *Prog, c *CallSite) string {
	return fmt.Sprintf("%s in %s (%s)", c.Desc(), FuncName(c.Fn), P.Pos(c.Pos()))
}

// sameLoad: both values are loads of the same address (e.g. a captured error variable tested and then returned).
func sameLoad(a, b ssa.Value) bool {
	la, ok1 := a.(*ssa.UnOp)
	lb, ok2 := b.(*ssa.UnOp)
	return ok1 && ok2 && la.Op == token.MUL && lb.Op == token.MUL && la.X == lb.X
}

// HookErrorsPropagate: in the module-level block hooks (functions of the x/<module> packages reachable from
// BeginBlock / EndBlock) a call to a state-writing repository function whose error is non-nil never leads to a success
// return or to the next loop iteration: block hooks run on the block's state without a cache, so going on after a
// partial write commits it. It returns one line per call site: "ok|bad <function> # <callee> @ <pos>".
func (P *Prog) HookErrorsPropagate(want func(callee *ssa.Function) bool) (oks, bads []string) {
	S := P.Scopes()
	reach := P.Reachable(S.Block, nil)
	writes := map[*ssa.Function]bool{}
	writesState := func(g *ssa.Function) bool {
		if v, ok := writes[g]; ok {
			return v
		}
		w := false
		for f := range P.Reachable([]*ssa.Function{g}, nil) {
			for _, cs := range P.CallSitesIn(f) {
				d := cs.Desc()
				if strings.HasPrefix(d, "coll:") && (cs.Method == "Set" || cs.Method == "Remove" || cs.Method == "Clear") {
					w = true
				}
				if strings.Contains(cs.Callee, "BankKeeper.") || strings.Contains(cs.Callee, "StakingKeeper.Delegate") || strings.Contains(cs.Callee, "StakingKeeper.Unbond") {
					w = true
				}
			}
		}
		writes[g] = w
		return w
	}
	var fns []*ssa.Function
	for fn := range reach {
		if fn.Pkg == nil || fn.Parent() != nil {
			continue
		}
		p := fn.Pkg.Pkg.Path()
		if strings.HasPrefix(p, modPath+"/x/") && strings.Count(strings.TrimPrefix(p, modPath+"/x/"), "/") == 0 {
			fns = append(fns, fn)
		}
	}
	sort.Slice(fns, func(i, j int) bool { return FuncName(fns[i]) < FuncName(fns[j]) })
	tm := NewTermer()
	for _, fn := range fns {
		for _, cs := range P.CallSitesIn(fn) {
			callees := P.CalleesOfCall(cs.Instr)
			if len(callees) != 1 || !P.isRepoFunc(callees[0]) || errorResultIndex(callees[0]) < 0 || !writesState(callees[0]) || (want != nil && !want(callees[0])) {
				continue
			}
			v, isVal := cs.Instr.(ssa.Value)
			if !isVal {
				continue
			}
			// the error value of the call: the call itself, or the extract of its error result
			var errVals []ssa.Value
			if callees[0].Signature.Results().Len() == 1 {
				errVals = append(errVals, v)
			} else if refs := v.Referrers(); refs != nil {
				for _, ref := range *refs {
					if ex, ok := ref.(*ssa.Extract); ok && ex.Index == errorResultIndex(callees[0]) {
						errVals = append(errVals, ex)
					}
				}
			}
			returned, tested := false, false
			for _, ev := range errVals {
				if refs := ev.Referrers(); refs != nil {
					for _, ref := range *refs {
						switch x := ref.(type) {
						case *ssa.Return:
							returned = true
						case *ssa.Store:
							// a function with defers spills its results: `return f()` stores into the result cell that the
							// return instruction loads
							if cell, ok := x.Addr.(*ssa.Alloc); ok && x.Val == ev {
								if crefs := cell.Referrers(); crefs != nil {
									for _, cr := range *crefs {
										if ld, ok := cr.(*ssa.UnOp); ok && ld.Op == token.MUL {
											if lrefs := ld.Referrers(); lrefs != nil {
												for _, lr := range *lrefs {
													if _, isRet := lr.(*ssa.Return); isRet {
														returned = true
													}
												}
											}
										}
									}
								}
							}
						case *ssa.BinOp:
							if x.Op == token.NEQ || x.Op == token.EQL {
								tested = true
							}
						case *ssa.Phi:
							// merged into the function's error result (`err = f()` in branches, returned later)
							if prefs := x.Referrers(); prefs != nil {
								for _, pr := range *prefs {
									if _, isRet := pr.(*ssa.Return); isRet {
										returned = true
									}
									if bo, isBo := pr.(*ssa.BinOp); isBo && (bo.Op == token.NEQ || bo.Op == token.EQL) {
										tested = true
									}
								}
							}
						}
					}
				}
			}
			ok := returned || tested
			if tested {
				key := tm.Of(v).String()
				entry := fn.Blocks[0].Instrs[0]
				callIn := cs.Instr.(ssa.Instruction)
				ps := AnalyzePaths(fn, []Atom{{Name: "failed", Event: func(in ssa.Instruction) (bool, int8) {
					// not failed before the call was made (function entry, and each time the call is reached again)
					if in == entry || in == callIn {
						return true, F
					}
					return false, U
				}, Cond: func(rel *Term) (bool, bool) {
					if rel.Op == "==" && len(rel.Args) == 2 && rel.Args[1].Op == "const:nil" {
						a := rel.Args[0]
						if strings.HasPrefix(a.Op, "ext:") && len(a.Args) == 1 {
							a = a.Args[0]
						}
						if a.V == v || a.String() == key {
							return true, false
						}
						if a.Op == "phi" { // `err = f()` merged with other assignments before the test
							hit := false
							a.Walk(func(x *Term) bool {
								if x.V == v {
									hit = true
								}
								return !hit
							})
							if hit {
								return true, false
							}
						}
					}
					return false, false
				}}})
				if len(ps.Matched["failed"]) == 0 {
					ok = false
				}
				if os.Getenv("VERIF_DEBUG") != "" {
					fmt.Fprintln(os.Stderr, "HOOK", FuncName(fn), short(FuncName(callees[0])), "matched", len(ps.Matched["failed"]), "returned", returned, "tested", tested)
				}
				phi := func(v map[string]bool) bool { return !v["failed"] }
				for _, ret := range SuccessReturns(fn) {
					if bad := ps.Require(ret, phi); len(bad) > 0 {
						// a return that hands the (on this path non-nil) error back is not a success
						if ei := errorResultIndex(fn); ei >= 0 && ResultOf(ret, ei) != nil {
							if e := tm.Of(ResultOf(ret, ei)); e.Op != "const:nil" {
								continue
							}
						}
						ok = false
					}
				}
				for _, h := range loopHeaders(fn) {
					for _, p := range h.Preds {
						if h.Dominates(p) {
							if bad := ps.RequireOnEdge(p, h, phi); len(bad) > 0 {
								ok = false
							}
						}
					}
				}
			}
			line := FuncName(fn) + " # a failure of " + short(FuncName(callees[0])) + " aborts the hook"
			if ok {
				oks = append(oks, line+" @ "+P.Pos(cs.Pos()))
			} else {
				bads = append(bads, line+" @ "+P.Pos(cs.Pos()))
			}
		}
	}
	return
}

// flippedRel returns the relation whose negation rel is: a <= b for b < a, a < b for b <= a; nil for other relations.
func flippedRel(rel *Term) *Term {
	if rel == nil || len(rel.Args) != 2 {
		return nil
	}
	switch rel.Op {
	case "<=":
		return &Term{Op: "<", Args: []*Term{rel.Args[1], rel.Args[0]}}
	case "<":
		return &Term{Op: "<=", Args: []*Term{rel.Args[1], rel.Args[0]}}
	}
	return nil
}

// condValues lists the values a function branches on: the condition of every If and, where an If tests the phi of a
// short-circuit expression evaluated as a value (`switch { case a && b: }`), the operands that phi merges.
func condValues(fn *ssa.Function) []ssa.Value {
	var out []ssa.Value
	for _, b := range fn.Blocks {
		if len(b.Instrs) == 0 {
			continue
		}
		iff, ok := b.Instrs[len(b.Instrs)-1].(*ssa.If)
		if !ok {
			continue
		}
		if phi, isPhi := iff.Cond.(*ssa.Phi); isPhi {
			for _, e := range phi.Edges {
				if _, isConst := e.(*ssa.Const); !isConst {
					out = append(out, e)
				}
			}
			continue
		}
		out = append(out, iff.Cond)
	}
	return out
}

func isReviewedFunc(name string) bool { _, ok := reviewedFuncs[name]; return ok }
