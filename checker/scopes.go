package main

import (
	"fmt"
	"go/types"
	"os"
	"sort"
	"strings"

	"golang.org/x/tools/go/ssa"
)

// Scopes: entry-point sets discovered by type, and the functions reachable from them.
type Scopes struct {
	Msg      []*ssa.Function // rpc handlers (methods of REPO types implementing a generated MsgServer)
	Block    []*ssa.Function // BeginBlock/EndBlock of REPO AppModules + PreBlocker
	Ante     []*ssa.Function
	Hooks    []*ssa.Function
	Genesis  []*ssa.Function
	Proposal []*ssa.Function // ProcessProposal, PreBlocker, VerifyVoteExtension
	VoteExt  []*ssa.Function // + ExtendVote, PrepareProposal
	MsgIface map[*ssa.Function]string
}

var scopesCache *Scopes

func (P *Prog) Scopes() *Scopes {
	if scopesCache != nil {
		return scopesCache
	}
	S := &Scopes{MsgIface: map[*ssa.Function]string{}}
	// MsgServer interfaces
	type ifc struct {
		name string
		it   *types.Interface
	}
	var msgIfaces []ifc
	for _, sp := range P.RepoPkgs {
		if m, ok := sp.Members["MsgServer"]; ok {
			if it, ok := m.Type().Underlying().(*types.Interface); ok {
				msgIfaces = append(msgIfaces, ifc{short(sp.Pkg.Path()) + ".MsgServer", it})
			}
		}
	}
	seen := map[*ssa.Function]bool{}
	for _, named := range P.repoNamed {
		if types.IsInterface(named) {
			continue
		}
		if strings.HasPrefix(named.Obj().Name(), "Unimplemented") {
			continue
		}
		for _, T := range []types.Type{named, types.NewPointer(named)} {
			for _, mi := range msgIfaces {
				if !types.Implements(T, mi.it) {
					continue
				}
				for i := 0; i < mi.it.NumMethods(); i++ {
					m := mi.it.Method(i)
					sel := P.SSA.MethodSets.MethodSet(T).Lookup(m.Pkg(), m.Name())
					if sel == nil {
						continue
					}
					fn := P.unwrap(P.SSA.MethodValue(sel))
					if P.isRepoFunc(fn) && !seen[fn] {
						seen[fn] = true
						S.Msg = append(S.Msg, fn)
						S.MsgIface[fn] = mi.name
					}
				}
			}
		}
	}
	for _, fn := range P.RepoFuncs {
		if fn.Parent() != nil || fn.Signature.Recv() == nil {
			if fn.Parent() == nil && (fn.Name() == "InitGenesis") {
				S.Genesis = append(S.Genesis, fn)
			}
			continue
		}
		name := FuncName(fn)
		recv := typeShort(fn.Signature.Recv().Type())
		switch fn.Name() {
		case "BeginBlock", "EndBlock":
			if strings.HasSuffix(recv, ".AppModule") {
				S.Block = append(S.Block, fn)
			}
		case "PreBlocker":
			if strings.HasSuffix(recv, "ProposalHandler") {
				S.Block = append(S.Block, fn)
				S.Proposal = append(S.Proposal, fn)
			}
		case "AnteHandle":
			S.Ante = append(S.Ante, fn)
		case "InitGenesis":
			S.Genesis = append(S.Genesis, fn)
		case "ProcessProposalHandler", "VerifyVoteExtensionHandler":
			S.Proposal = append(S.Proposal, fn)
		case "ExtendVoteHandler", "PrepareProposalHandler":
			S.VoteExt = append(S.VoteExt, fn)
		}
		if strings.HasSuffix(recv, ".Hooks") && strings.Contains(name, "/keeper.") {
			S.Hooks = append(S.Hooks, fn)
		}
	}
	S.VoteExt = append(S.VoteExt, S.Proposal...)
	for _, l := range []*[]*ssa.Function{&S.Msg, &S.Block, &S.Ante, &S.Hooks, &S.Genesis, &S.Proposal, &S.VoteExt} {
		sort.Slice(*l, func(i, j int) bool { return FuncName((*l)[i]) < FuncName((*l)[j]) })
	}
	scopesCache = S
	return S
}

// Consensus returns the functions reachable from all state-machine entry points.
func (P *Prog) Consensus() map[*ssa.Function]*ssa.Function {
	S := P.Scopes()
	var roots []*ssa.Function
	roots = append(roots, S.Block...)
	roots = append(roots, S.Msg...)
	roots = append(roots, S.Ante...)
	roots = append(roots, S.Hooks...)
	roots = append(roots, S.Genesis...)
	roots = append(roots, S.Proposal...)
	return P.Reachable(roots, nil)
}

func names(fs []*ssa.Function) []string {
	var out []string
	for _, f := range fs {
		out = append(out, FuncName(f))
	}
	return out
}

func init() {
	register("DUMP", func(r *Result) {
		P := r.P
		S := P.Scopes()
		fmt.Println("MSG", len(S.Msg), names(S.Msg))
		fmt.Println("BLOCK", names(S.Block))
		fmt.Println("ANTE", names(S.Ante))
		fmt.Println("HOOKS", names(S.Hooks))
		fmt.Println("GENESIS", names(S.Genesis))
		fmt.Println("PROPOSAL", names(S.Proposal))
		fmt.Println("VOTEEXT", names(S.VoteExt))
		fmt.Println("consensus funcs", len(P.Consensus()), "block-reachable", len(P.Reachable(S.Block, nil)))
		if os.Getenv("DUMP_FUNCS") != "" {
			// the named functions of the reviewed tree (tools/gen_counts.py freezes them into funcs_table.go)
			for _, fn := range P.RepoFuncs {
				if fn.Parent() == nil {
					fmt.Printf("FUNC %s\t%s\n", FuncName(fn), short(fn.Signature.String()))
				}
			}
		}
		if f := os.Getenv("DUMP_FN"); f != "" {
			for _, fn := range P.RepoFuncs {
				if strings.Contains(FuncName(fn), f) {
					fmt.Println("==", FuncName(fn))
					tm := NewTermer()
					for _, b := range fn.Blocks {
						for _, in := range b.Instrs {
							switch x := in.(type) {
							case *ssa.If:
								rel, pol := Cond(tm.Of(x.Cond))
								fmt.Printf("  b%d IF pol=%v %s\n", b.Index, pol, rel)
							case ssa.CallInstruction:
								cs := P.siteOf(x)
								fmt.Printf("  b%d CALL %s\n", b.Index, cs.Desc())
							case *ssa.Return:
								fmt.Printf("  b%d RETURN fails=%v\n", b.Index, DefinitelyFails(x))
							}
						}
					}
				}
			}
		}
	})
}
