package main

// C15 — bridge byte encodings agree with what the EVM contracts compute and verify
// (cross-language agreement of ABI type lists, operand roles and constants).

import (
	"encoding/hex"
	"fmt"
	"go/types"
	"path/filepath"
	"sort"
	"strings"

	"golang.org/x/tools/go/ssa"
)

func init() { register("C15", checkC15) }

// goArgList: an abi.Arguments literal in a Go function: ordered ABI type strings.
type goArgList struct {
	alloc *ssa.Alloc
	types []string
}

// goAbiLists finds the abi.Arguments composite literals of fn (arrays of abi.Argument with a Type store per element).
func goAbiLists(fn *ssa.Function) []*goArgList {
	var out []*goArgList
	tm := NewTermer()
	for _, b := range fn.Blocks {
		for _, in := range b.Instrs {
			al, ok := in.(*ssa.Alloc)
			if !ok {
				continue
			}
			pt, ok := al.Type().Underlying().(*types.Pointer)
			if !ok {
				continue
			}
			arr, ok := pt.Elem().Underlying().(*types.Array)
			if !ok || !strings.HasSuffix(arr.Elem().String(), "accounts/abi.Argument") {
				continue
			}
			l := &goArgList{alloc: al, types: make([]string, arr.Len())}
			for _, r := range *al.Referrers() {
				ia, ok := r.(*ssa.IndexAddr)
				if !ok {
					continue
				}
				c, ok := ia.Index.(*ssa.Const)
				if !ok {
					continue
				}
				for _, rr := range *ia.Referrers() {
					fa, ok := rr.(*ssa.FieldAddr)
					if !ok || !strings.HasSuffix(fieldName(fa.X.Type(), fa.Field), "abi.Argument.Type") {
						continue
					}
					for _, r3 := range *fa.Referrers() {
						if st, ok := r3.(*ssa.Store); ok && st.Addr == fa {
							t := tm.Of(st.Val)
							nt := t.Find(func(x *Term) bool { return x.Op == "call:github.com/ethereum/go-ethereum/accounts/abi.NewType" })
							if nt != nil && len(nt.Args) > 0 && strings.HasPrefix(nt.Args[0].Op, "const:") {
								l.types[int(c.Int64())] = strings.TrimPrefix(nt.Args[0].Op, "const:")
							}
						}
					}
				}
			}
			out = append(out, l)
		}
	}
	return out
}

// listOfRecv resolves the receiver of a Pack/Unpack call to one of the literals.
func listOfRecv(v ssa.Value, lists []*goArgList) *goArgList {
	for i := 0; i < 4; i++ {
		switch x := v.(type) {
		case *ssa.Slice:
			if al, ok := x.X.(*ssa.Alloc); ok {
				for _, l := range lists {
					if l.alloc == al {
						return l
					}
				}
			}
			return nil
		case *ssa.ChangeType:
			v = x.X
		case *ssa.UnOp:
			if al, ok := x.X.(*ssa.Alloc); ok {
				if s := singleStore(al); s != nil {
					v = s
					continue
				}
			}
			return nil
		default:
			return nil
		}
	}
	return nil
}

// operandSource describes where a packed operand comes from: "param:<name>", "const:<...>", or a brief term.
func operandSource(fn *ssa.Function, v ssa.Value) string {
	tm := NewTermer()
	if mi, ok := v.(*ssa.MakeInterface); ok {
		v = mi.X
	}
	paramName := func(t *Term) string {
		if strings.HasPrefix(t.Op, "param:") {
			if p, ok := t.V.(*ssa.Parameter); ok {
				return "param:" + p.Name()
			}
		}
		return ""
	}
	describe := func(t *Term) string {
		// peel conversions that keep identity
		for i := 0; i < 6; i++ {
			if p := paramName(t); p != "" {
				return p
			}
			if strings.HasPrefix(t.Op, "const:") {
				return t.Op
			}
			switch {
			case strings.HasPrefix(t.Op, "call:") && len(t.Args) >= 1 && (strings.HasSuffix(t.Op, ".SetUint64") || strings.HasSuffix(t.Op, "common.BytesToAddress") || strings.HasSuffix(t.Op, "big.NewInt") || strings.HasSuffix(t.Op, ".Uint64") || strings.HasSuffix(t.Op, "AccAddress).String") || strings.HasSuffix(t.Op, "hex.DecodeString") || strings.HasSuffix(t.Op, ".Remove0xPrefix")):
				t = t.Args[len(t.Args)-1]
				if strings.HasSuffix(t.Op, "AccAddress).String") {
					t = t.Args[0]
				}
				continue
			case t.Op == "ext:0" && len(t.Args) == 1:
				t = t.Args[0]
				continue
			case t.Op == "ref" && len(t.Args) == 1:
				t = t.Args[0]
				continue
			case strings.HasPrefix(t.Op, "field:") && len(t.Args) == 1:
				inner := t.Args[0]
				if p := paramName(inner); p != "" {
					return p + "." + t.Op[strings.LastIndex(t.Op, ".")+1:]
				}
				return t.Brief()
			}
			break
		}
		return t.Brief()
	}
	switch x := v.(type) {
	case *ssa.UnOp: // load of a fixed-size array filled by copy(arr[:], src)
		if al, ok := x.X.(*ssa.Alloc); ok {
			for _, r := range *al.Referrers() {
				if sl, ok := r.(*ssa.Slice); ok {
					for _, rr := range *sl.Referrers() {
						if c, ok := rr.(*ssa.Call); ok {
							if bi, ok := c.Call.Value.(*ssa.Builtin); ok && bi.Name() == "copy" && c.Call.Args[0] == ssa.Value(sl) {
								return describe(tm.Of(c.Call.Args[1]))
							}
						}
					}
				}
			}
		}
	case *ssa.Alloc: // new(big.Int) later filled by SetUint64
		for _, r := range *x.Referrers() {
			if c, ok := r.(*ssa.Call); ok && strings.HasSuffix(CalleeName(c.Common()), ".SetUint64") && len(c.Call.Args) == 2 && c.Call.Args[0] == ssa.Value(x) {
				return describe(tm.Of(c.Call.Args[1]))
			}
		}
	}
	return describe(tm.Of(v))
}

type goPack struct {
	kind     string // Pack | Unpack
	types    []string
	operands []string
	pos      ssa.Instruction
}

func goPacks(fn *ssa.Function) []*goPack {
	lists := goAbiLists(fn)
	var out []*goPack
	for _, b := range fn.Blocks {
		for _, in := range b.Instrs {
			c, ok := in.(*ssa.Call)
			if !ok {
				continue
			}
			name := CalleeName(c.Common())
			if name != "(github.com/ethereum/go-ethereum/accounts/abi.Arguments).Pack" && name != "(github.com/ethereum/go-ethereum/accounts/abi.Arguments).Unpack" {
				continue
			}
			l := listOfRecv(c.Call.Args[0], lists)
			p := &goPack{kind: name[strings.LastIndex(name, ".")+1:], pos: in}
			if l != nil {
				p.types = l.types
			}
			if p.kind == "Pack" {
				for _, e := range variadicElemValues(c.Call.Args[1]) {
					p.operands = append(p.operands, operandSource(fn, e))
				}
			}
			out = append(out, p)
		}
	}
	return out
}

func typesEq(a, b []string) bool { return strings.Join(a, ",") == strings.Join(b, ",") }

func checkC15(r *Result) {
	P := r.P
	r.Explanation = "Cross-language signature agreement between the Go encoders and the Solidity contracts, both read from source: on the Go side every abi.Arguments literal (the constant type strings of the abi.NewType calls feeding it), the order and provenance of the Pack operands and the constant domain separators are extracted from SSA; on the Solidity side a purpose-built tokenizer/parser extracts structs, constants, state variables and, for each function, the static type list and argument expressions of every abi.encode / abi.decode; the pairs named by the property are then compared as ordered type lists with operand roles (Go parameter names / proto fields against Solidity member paths) and byte-equal constants. Also: the power threshold is floor(2*total/3) (multiply before divide), and the contract hashes the digest exactly once with sha256 before ecrecover."
	r.NotDecided = "that go-ethereum's ABI packer and solc produce the same bytes for the same type list (both implement the ABI specification); values out of range (uint64 narrowing); signature validity"
	r.Assumptions = []string{"go-ethereum accounts/abi and the Solidity compiler implement the contract ABI specification", "the Solidity subset parser fails closed: an unparsed construct breaks the check instead of passing it"}
	r.rule("ABI-TYPES", "the ordered ABI type list of a Go encoder equals that of the Solidity expression that recomputes or decodes it")
	r.rule("ABI-ROLES", "operand k of the Go Pack call plays the role of argument k of the Solidity expression")
	r.rule("ABI-CONST", "domain separators and literal constants are byte-equal on both sides")
	r.rule("ABI-VALUES", "numeric operands collected in a loop are distinct values, not one reused big.Int")
	r.rule("THRESHOLD", "power threshold = 2 * total power / 3, multiplication first")
	r.rule("SIG-HASH", "the contract hashes the signed digest once with sha256 before ecrecover")

	sol, err := parseSolidity(filepath.Join(P.RepoDir, "evm/contracts/bridge/Constants.sol"), filepath.Join(P.RepoDir, "evm/contracts/bridge/BlobstreamO.sol"), filepath.Join(P.RepoDir, "evm/contracts/token-bridge/TokenBridge.sol"))
	if err != nil {
		r.broken("Solidity sources not understood: %v", err)
		return
	}
	r.Info["solidity_functions_parsed"] = len(sol.Funcs)
	r.Info["solidity_structs"] = len(sol.Structs)
	solEnc := func(fn, kind string, n int) *solEncode {
		f := sol.Funcs[fn]
		if f == nil {
			return nil
		}
		k := 0
		for i := range f.Encodes {
			if f.Encodes[i].Kind == kind {
				if k == n {
					return &f.Encodes[i]
				}
				k++
			}
		}
		return nil
	}
	need := func(name string) *ssa.Function {
		f := P.Func(name)
		if f == nil {
			r.broken("anchor %s does not resolve", name)
		} else {
			r.fn(name)
		}
		return f
	}
	where := func(in ssa.Instruction) string { return P.Pos(in.Pos()) }

	// ---- 1. validator set hash: keccak256(abi.encode(Validator[]))
	if fn := need("(x/bridge/keeper.Keeper).EncodeAndHashValidatorSet"); fn != nil {
		packs := goPacks(fn)
		direct := false
		vs := sol.Structs["Validator"]
		var want []string
		var roles []string
		for _, f := range vs {
			want = append(want, sol.abiType(f.Type))
			roles = append(roles, f.Name)
		}
		ok := len(packs) == 1 && typesEq(packs[0].types, want)
		if len(packs) == 1 {
			r.check(ok, "ABI-TYPES", "EncodeAndHashValidatorSet element tuple == struct Validator", where(packs[0].pos), fmt.Sprintf("Go %v ; Solidity struct Validator %v", packs[0].types, want))
			// roles: Addr from EthereumAddress, Power from Power
			tm := NewTermer()
			var srcs []string
			if c, ok := packs[0].pos.(*ssa.Call); ok {
				for _, e := range variadicElemValues(c.Call.Args[1]) {
					srcs = append(srcs, tm.Of(e).String())
				}
			}
			// through the local Validator struct, or straight from the bridge validator's fields
			direct = len(srcs) == 2 && strings.Contains(srcs[0], "BridgeValidator.EthereumAddress") && strings.Contains(srcs[1], "BridgeValidator.Power")
			okRoles := len(srcs) == 2 && (direct || (strings.Contains(srcs[0], "Validator.Addr") && strings.Contains(srcs[1], "Validator.Power"))) && len(roles) == 2 && roles[0] == "addr" && roles[1] == "power"
			r.check(okRoles, "ABI-ROLES", "EncodeAndHashValidatorSet packs (address, power) in the struct's member order", where(packs[0].pos), fmt.Sprintf("Solidity members %v", roles))
		} else {
			r.bad("ABI-TYPES", "EncodeAndHashValidatorSet element tuple == struct Validator", P.Pos(fn.Pos()), fmt.Sprintf("%d Pack calls found", len(packs)))
		}
		// local Validator struct fields are filled from the bridge validator's address and power
		tm := NewTermer()
		okFill := 0
		for _, b := range fn.Blocks {
			for _, in := range b.Instrs {
				if st, ok := in.(*ssa.Store); ok {
					if fa, ok := st.Addr.(*ssa.FieldAddr); ok {
						fnm := fieldName(fa.X.Type(), fa.Field)
						v := tm.Of(st.Val)
						if strings.HasSuffix(fnm, "Validator.Addr") && v.Contains("BridgeValidator.EthereumAddress") {
							okFill++
						}
						if strings.HasSuffix(fnm, "Validator.Power") && v.Contains("BridgeValidator.Power") {
							okFill++
						}
					}
				}
			}
		}
		r.check(okFill == 2 || direct, "ABI-ROLES", "EncodeAndHashValidatorSet fills (addr, power) from (EthereumAddress, Power)", P.Pos(fn.Pos()), fmt.Sprintf("%d of 2 field fills recognised", okFill))
		// hand-rolled dynamic-array head: offset constant 32, length word = len(validators)
		off, ln := false, false
		for _, cs := range P.CallSitesIn(fn) {
			if strings.HasSuffix(cs.Callee, "bigEndian).PutUint64") {
				a := tm.Of(cs.Instr.Common().Args[len(cs.Instr.Common().Args)-1])
				if a.Op == "const:32" {
					off = true
				}
				if a.Op == "call:builtin:len" {
					ln = true
				}
			}
		}
		r.check(off && ln, "ABI-TYPES", "EncodeAndHashValidatorSet dynamic-array head: offset word 32, length word len(validators)", P.Pos(fn.Pos()), fmt.Sprintf("offset constant 32: %v ; length word from len(): %v", off, ln))
		// the bytes hashed are head ++ elements in this order: offset word, length word, then one packed element per
		// validator in the order of the set
		{
			words := map[ssa.Value]string{} // 32-byte slice -> what PutUint64 wrote into its last 8 bytes
			for _, cs := range P.CallSitesIn(fn) {
				if strings.HasSuffix(cs.Callee, "bigEndian).PutUint64") {
					args := cs.Instr.Common().Args
					if sl, ok := args[len(args)-2].(*ssa.Slice); ok {
						if lo, ok := sl.Low.(*ssa.Const); ok && lo.Int64() == 24 && sl.High == nil {
							a := tm.Of(args[len(args)-1])
							switch {
							case a.Op == "const:32":
								words[sl.X] = "offset"
							case a.Op == "call:builtin:len" || (strings.HasPrefix(a.Op, "convert:") && len(a.Args) == 1 && a.Args[0].Op == "call:builtin:len"):
								words[sl.X] = "length"
							}
						}
					}
				}
			}
			appendOf := func(v ssa.Value) (ssa.Value, ssa.Value, bool) {
				c, ok := v.(*ssa.Call)
				if !ok {
					return nil, nil, false
				}
				if b, ok := c.Call.Value.(*ssa.Builtin); !ok || b.Name() != "append" || len(c.Call.Args) != 2 {
					return nil, nil, false
				}
				return c.Call.Args[0], c.Call.Args[1], true
			}
			// elems: the accumulator of the packing loop, nil extended by each Pack result at its end
			isElems := func(v ssa.Value) bool {
				phi, ok := v.(*ssa.Phi)
				if !ok || len(phi.Edges) != 2 {
					return false
				}
				grown, seeded := false, false
				for _, e := range phi.Edges {
					if c, ok := e.(*ssa.Const); ok && c.IsNil() {
						seeded = true
						continue
					}
					if base, tail, ok := appendOf(e); ok && base == ssa.Value(phi) {
						if ex, ok := tail.(*ssa.Extract); ok && ex.Index == 0 {
							if pc, ok := ex.Tuple.(*ssa.Call); ok && strings.HasSuffix(CalleeName(pc.Common()), "abi.Arguments).Pack") {
								grown = true
							}
						}
					}
				}
				return grown && seeded
			}
			hashed := 0
			for _, cs := range P.CallSitesIn(fn) {
				if !strings.HasSuffix(cs.Callee, "crypto.Keccak256") {
					continue
				}
				hashed++
				got := "not a single concatenation"
				ok := false
				if els := variadicElemValues(cs.Instr.Common().Args[0]); len(els) == 1 && els[0] != nil {
					if head, elems, isApp := appendOf(els[0]); isApp {
						if w0, w1, isApp2 := appendOf(head); isApp2 {
							got = fmt.Sprintf("%s ++ %s ++ elements:%v", orDash(words[w0]), orDash(words[w1]), isElems(elems))
							ok = words[w0] == "offset" && words[w1] == "length" && isElems(elems)
						}
					}
					// the encoding handed back is the value that was hashed
					for _, ret := range allReturns(fn) {
						if len(ret.Results) == 3 && !DefinitelyFails(ret) {
							r.check(unspill(ret.Results[0], ret) == els[0], "ABI-ROLES", "EncodeAndHashValidatorSet returns the bytes it hashed", P.Pos(ret.Pos()), "returned: "+tm.Of(ret.Results[0]).Brief())
						}
					}
				}
				r.check(ok, "ABI-ROLES", "EncodeAndHashValidatorSet hashes offset word ++ length word ++ packed elements in set order", where(cs.Instr), got)
			}
			r.check(hashed == 1, "ABI-ROLES", "EncodeAndHashValidatorSet hashes once", P.Pos(fn.Pos()), fmt.Sprintf("%d Keccak256 calls", hashed))
		}
		se := solEnc("verifyOracleData", "encode", 0)
		r.check(se != nil && typesEq(se.Types, []string{"(address,uint256)[]"}) && se.Outer == "keccak256", "ABI-TYPES", "Solidity hashes abi.encode(Validator[]) with keccak256", "evm/contracts/bridge/BlobstreamO.sol", fmt.Sprintf("%+v", se))
	}
	// ---- 2. checkpoint
	if fn := need("(x/bridge/keeper.Keeper).CalculateValidatorSetCheckpoint"); fn != nil {
		packs := goPacks(fn)
		se := solEnc("_domainSeparateValidatorSetHash", "encode", 0)
		if len(packs) != 1 || se == nil {
			r.bad("ABI-TYPES", "CalculateValidatorSetCheckpoint == _domainSeparateValidatorSetHash", P.Pos(fn.Pos()), fmt.Sprintf("%d Pack calls, Solidity encode found: %v", len(packs), se != nil))
		} else {
			r.check(typesEq(packs[0].types, se.Types), "ABI-TYPES", "CalculateValidatorSetCheckpoint == _domainSeparateValidatorSetHash", where(packs[0].pos), fmt.Sprintf("Go %v ; Solidity %v", packs[0].types, se.Types))
			wantRoles := []string{"const:checkpoint", "param:powerThreshold", "param:validatorTimestamp", "param:validatorSetHash"}
			solRoles := []string{"VALIDATOR_SET_HASH_DOMAIN_SEPARATOR", "_powerThreshold", "_validatorTimestamp", "_validatorSetHash"}
			r.check(typesEq(packs[0].operands, wantRoles) && typesEq(se.Exprs, solRoles), "ABI-ROLES", "CalculateValidatorSetCheckpoint operand order (separator, threshold, timestamp, set hash)", where(packs[0].pos), fmt.Sprintf("Go operands %v ; Solidity arguments %v", packs[0].operands, se.Exprs))
			c := sol.Consts["VALIDATOR_SET_HASH_DOMAIN_SEPARATOR"]
			wantHex := "0x" + hex.EncodeToString(append([]byte("checkpoint"), make([]byte, 22)...))
			goConst := ""
			if len(packs[0].operands) > 0 {
				goConst = strings.TrimPrefix(packs[0].operands[0], "const:")
			}
			goHex := "0x" + hex.EncodeToString(append([]byte(goConst), make([]byte, 32-len(goConst)%33)...))
			if len(goConst) <= 32 {
				goHex = "0x" + hex.EncodeToString(append([]byte(goConst), make([]byte, 32-len(goConst))...))
			}
			r.check(c.Type == "bytes32" && strings.EqualFold(c.Name, goHex) && goHex == wantHex, "ABI-CONST", "validator-set domain separator: Go \"checkpoint\" right-padded == Solidity constant", "evm/contracts/bridge/Constants.sol", fmt.Sprintf("Go %s ; Solidity %s", goHex, c.Name))
		}
	}
	// ---- 3. oracle attestation
	if fn := need("(x/bridge/keeper.Keeper).EncodeOracleAttestationData"); fn != nil {
		packs := goPacks(fn)
		se := solEnc("verifyOracleData", "encode", 1)
		if len(packs) != 1 || se == nil {
			r.bad("ABI-TYPES", "EncodeOracleAttestationData == verifyOracleData digest", P.Pos(fn.Pos()), fmt.Sprintf("%d Pack calls, Solidity encode found: %v", len(packs), se != nil))
		} else {
			r.check(typesEq(packs[0].types, se.Types), "ABI-TYPES", "EncodeOracleAttestationData == verifyOracleData digest", where(packs[0].pos), fmt.Sprintf("Go %v ; Solidity %v", packs[0].types, se.Types))
			// role correspondence: Go parameter name <-> Solidity member path leaf
			roleOf := map[string]string{"param:queryId": "_attestData.queryId", "param:value": "_attestData.report.value", "param:timestamp": "_attestData.report.timestamp",
				"param:aggregatePower": "_attestData.report.aggregatePower", "param:previousTimestamp": "_attestData.report.previousTimestamp", "param:nextTimestamp": "_attestData.report.nextTimestamp",
				"param:valsetCheckpoint": "lastValidatorSetCheckpoint", "param:attestationTimestamp": "_attestData.attestationTimestamp"}
			okRoles := len(packs[0].operands) == len(se.Exprs)
			var mism []string
			for i := range packs[0].operands {
				if i >= len(se.Exprs) {
					break
				}
				g, s := packs[0].operands[i], se.Exprs[i]
				if i == 0 {
					if s != "NEW_REPORT_ATTESTATION_DOMAIN_SEPARATOR" || !strings.HasPrefix(g, "const:") {
						okRoles = false
						mism = append(mism, fmt.Sprintf("#0 %s vs %s", g, s))
					}
					continue
				}
				if roleOf[g] != s {
					okRoles = false
					mism = append(mism, fmt.Sprintf("#%d %s vs %s", i, g, s))
				}
			}
			r.check(okRoles, "ABI-ROLES", "EncodeOracleAttestationData operand k == verifyOracleData argument k", where(packs[0].pos), fmt.Sprintf("Go operands %v ; Solidity arguments %v ; mismatches %v", packs[0].operands, se.Exprs, mism))
			c := sol.Consts["NEW_REPORT_ATTESTATION_DOMAIN_SEPARATOR"]
			goConst := ""
			if len(packs[0].operands) > 0 {
				goConst = strings.TrimPrefix(packs[0].operands[0], "const:")
			}
			r.check(c.Type == "bytes32" && strings.EqualFold(c.Name, "0x"+goConst), "ABI-CONST", "attestation domain separator equal on both sides", "evm/contracts/bridge/Constants.sol", fmt.Sprintf("Go 0x%s ; Solidity %s", goConst, c.Name))
			r.check(se.Outer == "keccak256", "ABI-TYPES", "verifyOracleData hashes the encoding with keccak256", "evm/contracts/bridge/BlobstreamO.sol", se.Outer)
		}
		// the Go side hashes with Keccak256 where the checkpoint/snapshot is formed: checked at the caller of Pack result? (crypto.Keccak256 on the packed bytes)
	}
	// ---- 4. query ids
	wf := sol.Funcs["withdrawFromLayer"]
	var outer, inner *solEncode
	if wf != nil {
		for i := range wf.Encodes {
			e := &wf.Encodes[i]
			if e.Kind == "encode" && len(e.Types) == 2 && e.Types[0] == "string" {
				outer = e
			}
			if e.Kind == "encode" && len(e.Types) == 2 && e.Types[0] == "bool" {
				inner = e
			}
		}
	}
	if outer == nil || inner == nil {
		r.broken("withdrawFromLayer query-id encoding not found in TokenBridge.sol")
	} else {
		r.check(outer.Exprs[0] == "\"TRBBridge\"" && inner.Exprs[0] == "false", "ABI-CONST", "TokenBridge.withdrawFromLayer query id = keccak256(abi.encode(\"TRBBridge\", abi.encode(false, id)))", "evm/contracts/token-bridge/TokenBridge.sol", fmt.Sprintf("outer %v %v ; inner %v %v", outer.Types, outer.Exprs, inner.Types, inner.Exprs))
		for _, spec := range []struct {
			fn      string
			toLayer string
		}{{"(x/bridge/keeper.Keeper).GetDepositQueryId", "const:true"}, {"(x/bridge/keeper.Keeper).GetWithdrawalQueryId", "const:false"}} {
			fn := need(spec.fn)
			if fn == nil {
				continue
			}
			packs := goPacks(fn)
			var po, pi *goPack
			for _, p := range packs {
				if len(p.types) == 2 && p.types[0] == "string" {
					po = p
				}
				if len(p.types) == 2 && p.types[0] == "bool" {
					pi = p
				}
			}
			if po == nil || pi == nil {
				r.bad("ABI-TYPES", spec.fn+" # nested (string, bytes) / (bool, uint256) encoding", P.Pos(fn.Pos()), fmt.Sprintf("%d Pack calls", len(packs)))
				continue
			}
			r.check(typesEq(po.types, outer.Types) && typesEq(pi.types, inner.Types), "ABI-TYPES", spec.fn+" == abi.encode(string, abi.encode(bool, uint256))", where(po.pos), fmt.Sprintf("Go outer %v inner %v ; Solidity outer %v inner %v", po.types, pi.types, outer.Types, inner.Types))
			okC := len(po.operands) == 2 && po.operands[0] == "const:TRBBridge" && len(pi.operands) == 2 && pi.operands[0] == spec.toLayer && strings.HasPrefix(pi.operands[1], "param:")
			r.check(okC, "ABI-CONST", spec.fn+" # \"TRBBridge\", direction flag and id", where(pi.pos), fmt.Sprintf("outer operands %v ; inner operands %v", po.operands, pi.operands))
		}
	}
	if pb := need("(x/oracle/keeper.Keeper).PreventBridgeWithdrawalReport"); pb != nil && outer != nil && inner != nil {
		packs := goPacks(pb)
		var lists [][]string
		for _, p := range packs {
			if p.kind == "Unpack" {
				lists = append(lists, p.types)
			}
		}
		sort.Slice(lists, func(i, j int) bool { return strings.Join(lists[i], ",") < strings.Join(lists[j], ",") })
		r.check(len(lists) == 2 && typesEq(lists[0], inner.Types) && typesEq(lists[1], outer.Types), "ABI-TYPES", "PreventBridgeWithdrawalReport decodes (string, bytes) then (bool, uint256)", P.Pos(pb.Pos()), fmt.Sprintf("Go %v ; Solidity outer %v inner %v", lists, outer.Types, inner.Types))
	}
	// ---- 5. report values
	var dec *solEncode
	if wf != nil {
		for i := range wf.Encodes {
			if wf.Encodes[i].Kind == "decode" {
				dec = &wf.Encodes[i]
			}
		}
	}
	if dec == nil {
		r.broken("abi.decode of the withdrawal report value not found in TokenBridge.sol")
	} else {
		if fn := need("(x/bridge/keeper.Keeper).GetWithdrawalReportValue"); fn != nil {
			packs := goPacks(fn)
			ok := len(packs) == 1 && typesEq(packs[0].types, dec.Types)
			r.check(ok, "ABI-TYPES", "GetWithdrawalReportValue == abi.decode(value, (address,string,uint256,uint256))", P.Pos(fn.Pos()), fmt.Sprintf("Solidity %v", dec.Types))
			if len(packs) == 1 {
				want := []string{"param:recipient", "param:sender", "param:amount.Amount", "const:0"}
				r.check(typesEq(packs[0].operands, want), "ABI-ROLES", "GetWithdrawalReportValue packs (recipient, sender, amount, 0)", where(packs[0].pos), fmt.Sprintf("Go operands %v", packs[0].operands))
			}
			r.check(dec.Exprs[0] == "_attestData.report.value", "ABI-ROLES", "TokenBridge decodes the attested report value", "evm/contracts/token-bridge/TokenBridge.sol", dec.Exprs[0])
		}
		dd := sol.Structs["DepositDetails"]
		var dtypes []string
		for i, f := range dd {
			if i < 4 {
				dtypes = append(dtypes, sol.abiType(f.Type))
			}
		}
		if fn := need("(x/bridge/keeper.Keeper).DecodeDepositReportValue"); fn != nil {
			packs := goPacks(fn)
			ok := len(packs) == 1 && packs[0].kind == "Unpack" && typesEq(packs[0].types, dtypes)
			names := []string{}
			for i, f := range dd {
				if i < 4 {
					names = append(names, f.Name)
				}
			}
			r.check(ok && typesEq(names, []string{"sender", "recipient", "amount", "tip"}), "ABI-TYPES", "DecodeDepositReportValue == DepositDetails(sender, recipient, amount, tip)", P.Pos(fn.Pos()), fmt.Sprintf("Solidity %v %v", dtypes, names))
			// which decoded positions are used for what
			tm := NewTermer()
			use := map[string]string{}
			for _, b := range fn.Blocks {
				for _, in := range b.Instrs {
					if ta, ok := in.(*ssa.TypeAssert); ok {
						t := tm.Of(ta.X)
						if t.Op == "index" && len(t.Args) == 2 {
							use[t.Args[1].Op] = typeShort(ta.AssertedType)
						}
					}
				}
			}
			r.check(use["const:1"] == "string" && use["const:2"] == "*math/big.Int" && use["const:3"] == "*math/big.Int", "ABI-ROLES", "DecodeDepositReportValue reads recipient at 1, amount at 2, tip at 3", P.Pos(fn.Pos()), fmt.Sprint(use))
		}
	}
	// ---- THRESHOLD
	if fn := need("(x/bridge/keeper.Keeper).SetBridgeValidatorParams"); fn != nil {
		tm := NewTermer()
		found := false
		for _, cs := range P.CallSitesIn(fn) {
			if cs.Callee == "(x/bridge/keeper.Keeper).CalculateValidatorSetCheckpoint" {
				t := tm.Of(Arg(cs.Instr, 1))
				found = true
				ok := t.Op == "/" && len(t.Args) == 2 && t.Args[1].Op == "const:3" && t.Args[0].Op == "*" && len(t.Args[0].Args) == 2 &&
					((t.Args[0].Args[1].Op == "const:2" && t.Args[0].Args[0].Op == "phi") || (t.Args[0].Args[0].Op == "const:2" && t.Args[0].Args[1].Op == "phi"))
				r.check(ok, "THRESHOLD", "(x/bridge/keeper.Keeper).SetBridgeValidatorParams # powerThreshold = totalPower * 2 / 3", P.Pos(cs.Pos()), "threshold expression: "+clip(t.String(), 160)+" (dividing first truncates early: floor(t/3)*2 < floor(2t/3) when t mod 3 == 2)")
			}
		}
		if !found {
			r.bad("THRESHOLD", "(x/bridge/keeper.Keeper).SetBridgeValidatorParams # threshold passed to the checkpoint", P.Pos(fn.Pos()), "call not found")
		}
		// total power sums every validator's power
		n, bad := everyIterationPassesInstr(fn, func(in ssa.Instruction) bool {
			bo, ok := in.(*ssa.BinOp)
			return ok && bo.Op.String() == "+" && NewTermer().Of(bo.Y).Contains("BridgeValidator")
		})
		r.check(n >= 1 && bad == "", "THRESHOLD", "(x/bridge/keeper.Keeper).SetBridgeValidatorParams # total power adds every validator", P.Pos(fn.Pos()), fmt.Sprintf("%d loops; %s", n, bad))
	}
	// ---- SIG-HASH
	if vs := sol.Funcs["_verifySig"]; vs == nil {
		r.broken("_verifySig not found in BlobstreamO.sol")
	} else {
		n, total := 0, 0
		for _, e := range vs.Encodes {
			if e.Outer == "sha256" {
				total++
			}
			if e.Kind == "encodePacked" && e.Outer == "sha256" && len(e.Exprs) == 1 && e.Exprs[0] == "_digest" {
				n++
			}
		}
		if total != 1 {
			n = total
		}
		body := joinToks(vs.Body)
		r.check(n == 1 && strings.Contains(body, "ecrecover(_digest,_sig.v,_sig.r,_sig.s)"), "SIG-HASH", "BlobstreamO._verifySig # sha256 once, then ecrecover(v, r, s)", "evm/contracts/bridge/BlobstreamO.sol", fmt.Sprintf("%d sha256(abi.encodePacked(_digest)) wrappers", n))
	}
	// the contract checks cumulative power >= threshold
	if cv := sol.Funcs["_checkValidatorSignatures"]; cv != nil {
		body := joinToks(cv.Body)
		r.check(strings.Contains(body, "if(_cumulativePower<_powerThreshold){revertInsufficientVotingPower();}"), "THRESHOLD", "BlobstreamO._checkValidatorSignatures # reverts when cumulative power < threshold", "evm/contracts/bridge/BlobstreamO.sol", "final comparison present")
	}
	// ---- ABI-ROLES at the snapshot call site: which value reaches which positional parameter of the encoder
	if cs0 := P.Func("(x/bridge/keeper.Keeper).CreateSnapshot"); cs0 == nil {
		r.broken("anchor CreateSnapshot does not resolve")
	} else {
		r.fn("(x/bridge/keeper.Keeper).CreateSnapshot")
		tmC := NewTermer()
		n := 0
		for _, cs := range P.CallSitesIn(cs0) {
			if cs.Callee != "(x/bridge/keeper.Keeper).EncodeOracleAttestationData" {
				continue
			}
			n++
			want := []struct {
				role string
				ok   func(t *Term) bool
			}{
				{"queryId = the snapshot's query id", func(t *Term) bool { return strings.HasPrefix(t.Op, "param:2:") }},
				{"value = the aggregate's value", func(t *Term) bool { return strings.HasSuffix(t.Op, "Aggregate.AggregateValue") }},
				{"timestamp = the report's timestamp", func(t *Term) bool {
					return t.Op == "call:(time.Time).UnixMilli" && len(t.Args) == 1 && strings.HasPrefix(t.Args[0].Op, "param:3:")
				}},
				{"aggregatePower = the aggregate's reporter power", func(t *Term) bool { return strings.HasSuffix(t.Op, "Aggregate.ReporterPower") }},
				{"previousTimestamp = timestamp before", func(t *Term) bool {
					return t.Op == "call:(time.Time).UnixMilli" && t.Contains("GetTimestampBefore") && !t.Contains("GetTimestampAfter")
				}},
				{"nextTimestamp = timestamp after", func(t *Term) bool {
					return t.Op == "call:(time.Time).UnixMilli" && t.Contains("GetTimestampAfter") && !t.Contains("GetTimestampBefore")
				}},
				{"valsetCheckpoint = the current checkpoint", func(t *Term) bool { return strings.HasSuffix(t.Op, "ValidatorCheckpoint.Checkpoint") }},
				{"attestationTimestamp = the block time", func(t *Term) bool {
					return t.Op == "call:(time.Time).UnixMilli" && len(t.Args) == 1 && t.Args[0].Op == "call:(github.com/cosmos/cosmos-sdk/types.Context).BlockTime"
				}},
			}
			for i, w := range want {
				a := tmC.Of(Arg(cs.Instr, i))
				// a value passed through a field of a freshly built struct is that value
				for strings.HasPrefix(a.Op, "field:") && len(a.Args) == 1 && a.Args[0].Op == "ref" && len(a.Args[0].Args) == 1 {
					a = a.Args[0].Args[0]
				}
				r.check(w.ok(a), "ABI-ROLES", fmt.Sprintf("(x/bridge/keeper.Keeper).CreateSnapshot # encoder argument %d: %s", i, w.role), P.Pos(cs.Pos()), clip(a.String(), 140))
			}
		}
		r.check(n == 1, "ABI-ROLES", "(x/bridge/keeper.Keeper).CreateSnapshot # one call of the attestation encoder", P.Pos(cs0.Pos()), fmt.Sprint(n))
	}
	// ---- ABI-VALUES: a *big.Int put into an element that is collected in a loop must be a value of that
	// iteration; big.Int methods return their receiver, so a scratch value reused across iterations makes
	// every collected element point at the last one
	{
		sites := bigIntLoopSites(P, func(fn *ssa.Function) bool {
			return fn.Pkg != nil && strings.HasSuffix(fn.Pkg.Pkg.Path(), "/x/bridge/keeper")
		})
		for _, s := range sites {
			r.check(s.fresh, "ABI-VALUES", s.fn+" # a *big.Int stored into a collected element is allocated in the same iteration", s.pos, "origin: "+s.origin+fmt.Sprintf(" ; in this iteration: %v", s.fresh))
		}
		r.check(len(sites) >= 1, "ABI-VALUES", "sites where a *big.Int is stored inside a loop of the bridge keeper", "-", fmt.Sprint(len(sites)))
	}
	// the encoders are functions of their arguments: the bridge keeper package holds no package-level state (a shared
	// hasher or buffer is reached from the block executor and from query / simulation goroutines at the same time)
	{
		var state []string
		for _, sp := range P.RepoPkgs {
			if sp.Pkg.Path() != modPath+"/x/bridge/keeper" {
				continue
			}
			for name, m := range sp.Members {
				g, ok := m.(*ssa.Global)
				if !ok || name == "_" || strings.HasPrefix(name, "init$") {
					continue
				}
				// interface-satisfaction assertions (`var _ I = T{}`) have the blank name; anything else is state
				referenced := false
				for _, fn := range P.RepoFuncs {
					if fn.Pkg != sp {
						continue
					}
					for _, b := range fn.Blocks {
						for _, in := range b.Instrs {
							for _, op := range in.Operands(nil) {
								if *op == ssa.Value(g) {
									referenced = true
								}
							}
						}
					}
				}
				if referenced {
					state = append(state, name+" "+typeShort(g.Type()))
				}
			}
		}
		sort.Strings(state)
		r.check(len(state) == 0, "ABI-VALUES", "x/bridge/keeper holds no package-level variable that its functions use (encoders share nothing between goroutines)", "-", fmt.Sprint(state))
	}
	r.minCount("ABI-VALUES", 2)
	r.minCount("ABI-TYPES", 9)
	r.minCount("ABI-ROLES", 6)
	r.minCount("ABI-CONST", 4)
}

// everyIterationPassesInstr: every loop iteration of fn passes an instruction matched by pred.
func everyIterationPassesInstr(fn *ssa.Function, pred func(ssa.Instruction) bool) (int, string) {
	n := 0
	for _, h := range loopHeaders(fn) {
		if len(h.Instrs) == 0 {
			continue
		}
		n++
		first := h.Instrs[0]
		ps := AnalyzePaths(fn, []Atom{{Name: "passed", Event: func(in ssa.Instruction) (bool, int8) {
			if in == first {
				return true, F
			}
			if pred(in) {
				return true, T
			}
			return false, U
		}}})
		for _, p := range h.Preds {
			if !h.Dominates(p) {
				continue
			}
			for _, s := range ps.At(p.Instrs[len(p.Instrs)-1]) {
				if int8(s[0]) != T {
					return n, fmt.Sprintf("an iteration reaches the back edge (block %d) without it", p.Index)
				}
			}
		}
	}
	return n, ""
}

type bigIntSite struct {
	fn, pos, origin string
	fresh           bool
}

// bigIntLoopSites lists the stores of a *big.Int into a struct field or slice element inside a loop, with
// whether the pointer stored was allocated in the same iteration (big.Int methods return their receiver).
func bigIntLoopSites(P *Prog, want func(*ssa.Function) bool) []bigIntSite {
	var out []bigIntSite
	for _, fn := range P.RepoFuncs {
		if !want(fn) {
			continue
		}
		for _, b := range fn.Blocks {
			if !inLoop(fn, b) {
				continue
			}
			for _, in := range b.Instrs {
				st, ok := in.(*ssa.Store)
				if !ok || st.Val.Type().String() != "*math/big.Int" {
					continue
				}
				if _, isField := st.Addr.(*ssa.FieldAddr); !isField {
					if _, isIdx := st.Addr.(*ssa.IndexAddr); !isIdx {
						continue
					}
				}
				// trace the pointer to its allocation through receiver-returning big.Int methods
				v := st.Val
				origin := ""
				var at *ssa.BasicBlock
				for i := 0; i < 8 && v != nil; i++ {
					switch x := v.(type) {
					case *ssa.Call:
						name := CalleeName(x.Common())
						switch {
						case name == "math/big.NewInt":
							origin, at, v = "big.NewInt", x.Block(), nil
						case strings.HasPrefix(name, "(*math/big.Int)."):
							v = x.Call.Args[0]
						default:
							origin, at, v = "call "+short(name), x.Block(), nil
						}
					case *ssa.Alloc:
						origin, at, v = "new(big.Int)", x.Block(), nil
					case *ssa.Extract:
						v = x.Tuple
					case *ssa.Phi:
						origin, at, v = "phi", x.Block(), nil
					default:
						origin, v = fmt.Sprintf("%T", x), nil
					}
				}
				var h *ssa.BasicBlock
				for _, hh := range loopHeaders(fn) {
					if hh.Dominates(b) && (h == nil || h.Dominates(hh)) {
						h = hh
					}
				}
				fresh := at != nil && h != nil && h.Dominates(at) && inLoop(fn, at) && origin != "phi"
				out = append(out, bigIntSite{FuncName(TopFunc(fn)), P.Pos(st.Pos()), origin, fresh})
			}
		}
	}
	return out
}

func orDash(s string) string {
	if s == "" {
		return "-"
	}
	return s
}
