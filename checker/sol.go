package main

// A tokenizer and a small parser for the subset of Solidity used by the bridge
// contracts: file-level / contract-level constants, structs, state variables,
// function headers and bodies, and inside bodies the argument lists of
// abi.encode / abi.encodePacked / abi.decode with their static types. It fails
// (returns an error) on anything it needs but does not understand.

import (
	"fmt"
	"strings"
)

type solTok struct {
	kind string // id, num, str, punct
	text string
}

func solTokenize(src string) []solTok {
	var out []solTok
	i := 0
	isIdStart := func(c byte) bool { return c == '_' || c == '$' || (c >= 'a' && c <= 'z') || (c >= 'A' && c <= 'Z') }
	isId := func(c byte) bool { return isIdStart(c) || (c >= '0' && c <= '9') }
	for i < len(src) {
		c := src[i]
		switch {
		case c == ' ' || c == '\t' || c == '\n' || c == '\r':
			i++
		case c == '/' && i+1 < len(src) && src[i+1] == '/':
			for i < len(src) && src[i] != '\n' {
				i++
			}
		case c == '/' && i+1 < len(src) && src[i+1] == '*':
			j := strings.Index(src[i+2:], "*/")
			if j < 0 {
				i = len(src)
			} else {
				i += j + 4
			}
		case c == '"' || c == '\'':
			j := i + 1
			for j < len(src) && src[j] != c {
				if src[j] == '\\' {
					j++
				}
				j++
			}
			out = append(out, solTok{"str", src[i+1 : j]})
			i = j + 1
		case isIdStart(c):
			j := i
			for j < len(src) && isId(src[j]) {
				j++
			}
			out = append(out, solTok{"id", src[i:j]})
			i = j
		case c >= '0' && c <= '9':
			j := i
			for j < len(src) && (isId(src[j]) || src[j] == '.') {
				j++
			}
			out = append(out, solTok{"num", src[i:j]})
			i = j
		default:
			out = append(out, solTok{"punct", string(c)})
			i++
		}
	}
	return out
}

type solField struct{ Type, Name string }

type solEncode struct {
	Kind  string   // encode | encodePacked | decode
	Types []string // static types of the arguments (encode) or the decoded tuple (decode)
	Exprs []string // source text of each argument
	Outer string   // enclosing call: keccak256 / sha256 / "" (immediate wrapper)
}

type solFunc struct {
	Name    string
	Params  []solField
	Encodes []solEncode
	Body    []solTok
}

type solFile struct {
	Consts  map[string]solField // name -> {Type, Value}
	Structs map[string][]solField
	State   map[string]string // state variable -> type
	Funcs   map[string]*solFunc
}

var solElementary = map[string]bool{"address": true, "bool": true, "string": true, "bytes": true}

func isSolType(s string, f *solFile) bool {
	if solElementary[s] {
		return true
	}
	if strings.HasPrefix(s, "uint") || strings.HasPrefix(s, "int") || (strings.HasPrefix(s, "bytes") && len(s) > 5) {
		return true
	}
	_, ok := f.Structs[s]
	return ok
}

func parseSolidity(paths ...string) (*solFile, error) {
	f := &solFile{Consts: map[string]solField{}, Structs: map[string][]solField{}, State: map[string]string{}, Funcs: map[string]*solFunc{}}
	var all [][]solTok
	for _, p := range paths {
		b, err := readRepoFile(p)
		if err != nil {
			return nil, err
		}
		all = append(all, solTokenize(string(b)))
	}
	// pass 1: structs (needed to recognise types)
	for _, toks := range all {
		for i := 0; i+2 < len(toks); i++ {
			if toks[i].kind == "id" && toks[i].text == "struct" && toks[i+1].kind == "id" && toks[i+2].text == "{" {
				name := toks[i+1].text
				j := i + 3
				var fields []solField
				for j < len(toks) && toks[j].text != "}" {
					// Type [ '[' ']' ] name ;
					ty := toks[j].text
					j++
					for j < len(toks) && (toks[j].text == "[" || toks[j].text == "]") {
						ty += toks[j].text
						j++
					}
					if j >= len(toks) || toks[j].kind != "id" {
						return nil, fmt.Errorf("struct %s: cannot parse field near %q", name, ty)
					}
					fields = append(fields, solField{ty, toks[j].text})
					j++
					if j < len(toks) && toks[j].text == ";" {
						j++
					}
				}
				f.Structs[name] = fields
			}
		}
	}
	// pass 2: constants, state variables, functions
	for _, toks := range all {
		depth := 0
		for i := 0; i < len(toks); i++ {
			t := toks[i]
			if t.text == "{" {
				depth++
				continue
			}
			if t.text == "}" {
				depth--
				continue
			}
			if t.kind != "id" {
				continue
			}
			// constant:  Type constant NAME = value ;   /  Type public constant NAME = ...
			if isSolType(t.text, f) && depth <= 1 {
				j := i + 1
				isConst := false
				for j < len(toks) && toks[j].kind == "id" && (toks[j].text == "constant" || toks[j].text == "public" || toks[j].text == "private" || toks[j].text == "internal" || toks[j].text == "immutable") {
					if toks[j].text == "constant" {
						isConst = true
					}
					j++
				}
				if j+1 < len(toks) && toks[j].kind == "id" && (toks[j+1].text == "=" || toks[j+1].text == ";") && depth <= 1 && (i == 0 || toks[i-1].text == ";" || toks[i-1].text == "{" || toks[i-1].text == "}") {
					name := toks[j].text
					if isConst && toks[j+1].text == "=" {
						val := ""
						k := j + 2
						for k < len(toks) && toks[k].text != ";" {
							val += toks[k].text
							k++
						}
						f.Consts[name] = solField{t.text, val}
					} else if depth == 1 {
						f.State[name] = t.text
					}
				}
			}
			if t.text == "function" && i+2 < len(toks) && toks[i+1].kind == "id" && toks[i+2].text == "(" {
				fn := &solFunc{Name: toks[i+1].text}
				j := i + 3
				// params
				for j < len(toks) && toks[j].text != ")" {
					ty := toks[j].text
					j++
					for j < len(toks) && (toks[j].text == "[" || toks[j].text == "]") {
						ty += toks[j].text
						j++
					}
					for j < len(toks) && toks[j].kind == "id" && (toks[j].text == "calldata" || toks[j].text == "memory" || toks[j].text == "storage") {
						j++
					}
					if j < len(toks) && toks[j].kind == "id" {
						fn.Params = append(fn.Params, solField{ty, toks[j].text})
						j++
					}
					if j < len(toks) && toks[j].text == "," {
						j++
					}
				}
				// skip to body
				for j < len(toks) && toks[j].text != "{" && toks[j].text != ";" {
					j++
				}
				if j < len(toks) && toks[j].text == "{" {
					d := 0
					k := j
					for ; k < len(toks); k++ {
						if toks[k].text == "{" {
							d++
						}
						if toks[k].text == "}" {
							d--
							if d == 0 {
								break
							}
						}
					}
					fn.Body = toks[j+1 : k]
					i = k
				}
				f.Funcs[fn.Name] = fn
			}
		}
	}
	for _, fn := range f.Funcs {
		if err := f.analyseBody(fn); err != nil {
			return nil, fmt.Errorf("function %s: %v", fn.Name, err)
		}
	}
	return f, nil
}

func joinToks(ts []solTok) string {
	var sb strings.Builder
	for _, t := range ts {
		if t.kind == "str" {
			sb.WriteString("\"" + t.text + "\"")
		} else {
			sb.WriteString(t.text)
		}
	}
	return sb.String()
}

// canonical ABI type of a Solidity type name (structs expand to tuples)
func (f *solFile) abiType(ty string) string {
	arr := ""
	for strings.HasSuffix(ty, "[]") {
		arr += "[]"
		ty = strings.TrimSuffix(ty, "[]")
	}
	if fs, ok := f.Structs[ty]; ok {
		var parts []string
		for _, x := range fs {
			parts = append(parts, f.abiType(x.Type))
		}
		return "(" + strings.Join(parts, ",") + ")" + arr
	}
	if ty == "uint" {
		ty = "uint256"
	}
	return ty + arr
}

func (f *solFile) analyseBody(fn *solFunc) error {
	// local declarations
	locals := map[string]string{}
	for _, p := range fn.Params {
		locals[p.Name] = p.Type
	}
	b := fn.Body
	for i := 0; i+1 < len(b); i++ {
		if b[i].kind == "id" && isSolType(b[i].text, f) {
			j := i + 1
			ty := b[i].text
			for j < len(b) && (b[j].text == "[" || b[j].text == "]") {
				ty += b[j].text
				j++
			}
			for j < len(b) && b[j].kind == "id" && (b[j].text == "memory" || b[j].text == "calldata" || b[j].text == "storage") {
				j++
			}
			if j+1 < len(b) && b[j].kind == "id" && (b[j+1].text == "=" || b[j+1].text == ";" || b[j+1].text == "," || b[j+1].text == ")") {
				if _, dup := locals[b[j].text]; !dup {
					locals[b[j].text] = ty
				}
			}
		}
	}
	typeOf := func(expr []solTok) (string, error) {
		if len(expr) == 0 {
			return "", fmt.Errorf("empty argument")
		}
		if len(expr) == 1 {
			switch expr[0].kind {
			case "str":
				return "string", nil
			case "num":
				return "uint256", nil
			case "id":
				if expr[0].text == "true" || expr[0].text == "false" {
					return "bool", nil
				}
			}
		}
		if expr[0].text == "abi" {
			return "bytes", nil
		}
		if expr[0].text == "keccak256" || expr[0].text == "sha256" {
			return "bytes32", nil
		}
		// member path a.b.c
		if expr[0].kind == "id" {
			ty := ""
			name := expr[0].text
			if t, ok := locals[name]; ok {
				ty = t
			} else if t, ok := f.State[name]; ok {
				ty = t
			} else if c, ok := f.Consts[name]; ok {
				ty = c.Type
			} else {
				return "", fmt.Errorf("unknown identifier %s", name)
			}
			for k := 1; k+1 < len(expr); k += 2 {
				if expr[k].text != "." {
					return "", fmt.Errorf("unsupported expression %s", joinToks(expr))
				}
				fs, ok := f.Structs[ty]
				if !ok {
					return "", fmt.Errorf("%s is not a struct in %s", ty, joinToks(expr))
				}
				found := false
				for _, x := range fs {
					if x.Name == expr[k+1].text {
						ty, found = x.Type, true
					}
				}
				if !found {
					return "", fmt.Errorf("no field %s in %s", expr[k+1].text, ty)
				}
			}
			return f.abiType(ty), nil
		}
		return "", fmt.Errorf("unsupported expression %s", joinToks(expr))
	}
	for i := 0; i+3 < len(b); i++ {
		if !(b[i].text == "abi" && b[i+1].text == "." && b[i+3].text == "(") {
			continue
		}
		kind := b[i+2].text
		if kind != "encode" && kind != "encodePacked" && kind != "decode" {
			continue
		}
		// arguments
		d := 0
		start := i + 4
		var args [][]solTok
		cur := start
		k := start
		for ; k < len(b); k++ {
			if b[k].text == "(" {
				d++
			}
			if b[k].text == ")" {
				if d == 0 {
					break
				}
				d--
			}
			if b[k].text == "," && d == 0 {
				args = append(args, b[cur:k])
				cur = k + 1
			}
		}
		args = append(args, b[cur:k])
		enc := solEncode{Kind: kind}
		if i >= 2 && b[i-1].text == "(" && b[i-2].kind == "id" {
			enc.Outer = b[i-2].text
		}
		if kind == "decode" {
			if len(args) != 2 {
				return fmt.Errorf("abi.decode with %d arguments", len(args))
			}
			enc.Exprs = []string{joinToks(args[0])}
			tup := args[1]
			if len(tup) < 2 || tup[0].text != "(" {
				return fmt.Errorf("abi.decode type tuple not understood: %s", joinToks(tup))
			}
			var cur []solTok
			for _, t := range tup[1 : len(tup)-1] {
				if t.text == "," {
					if len(cur) > 0 {
						enc.Types = append(enc.Types, f.abiType(cur[0].text))
					}
					cur = nil
					continue
				}
				cur = append(cur, t)
			}
			if len(cur) > 0 {
				enc.Types = append(enc.Types, f.abiType(cur[0].text))
			}
		} else {
			for _, a := range args {
				ty, err := typeOf(a)
				if err != nil {
					return err
				}
				enc.Types = append(enc.Types, ty)
				enc.Exprs = append(enc.Exprs, joinToks(a))
			}
		}
		fn.Encodes = append(fn.Encodes, enc)
	}
	return nil
}
