package main

// LIN — algebraic normal forms. A value descriptor (Term) over integer /
// math.Int / LegacyDec / Coin arithmetic is evaluated to a rational function
// Σ coef·monomial over opaque atoms (fields, parameters, results of unknown
// calls). Constants are folded exactly (big.Rat). Truncation/rounding is not
// modelled (flagged). A divisor that is a sum is atomised. No paths are
// explored and no solver is used: this is abstract evaluation of straight-line
// dataflow.

import (
	"fmt"
	"golang.org/x/tools/go/ssa"
	"math/big"
	"sort"
	"strings"
)

type Mono map[string]int // atom -> exponent (may be negative)

func (m Mono) key() string {
	var ks []string
	for k, e := range m {
		if e != 0 {
			ks = append(ks, fmt.Sprintf("%s^%d", k, e))
		}
	}
	sort.Strings(ks)
	return strings.Join(ks, " * ")
}

type Poly struct {
	terms map[string]*big.Rat
	monos map[string]Mono
	Trunc bool // some integer division / truncation occurred on the way
	// Div: a non-constant value was divided (and thereby rounded to the type's precision) on the way.
	// Hazard: such a quotient was multiplied by a non-constant afterwards -- equal as a rational, but the rounding
	// error of the quotient is scaled up by the factor (a/c*b instead of a*b/c). String() shows it, so that no
	// expected normal form matches.
	Div    bool
	Hazard string
}

func (p *Poly) inherit(qs ...*Poly) {
	for _, q := range qs {
		p.Trunc = p.Trunc || q.Trunc
		p.Div = p.Div || q.Div
		if p.Hazard == "" {
			p.Hazard = q.Hazard
		}
	}
}

func newPoly() *Poly { return &Poly{terms: map[string]*big.Rat{}, monos: map[string]Mono{}} }

func constPoly(r *big.Rat) *Poly {
	p := newPoly()
	if r.Sign() != 0 {
		p.terms[""] = new(big.Rat).Set(r)
		p.monos[""] = Mono{}
	}
	return p
}

func atomPoly(name string) *Poly {
	p := newPoly()
	m := Mono{name: 1}
	p.terms[m.key()] = big.NewRat(1, 1)
	p.monos[m.key()] = m
	return p
}

func (p *Poly) addTerm(m Mono, c *big.Rat) {
	k := m.key()
	if old, ok := p.terms[k]; ok {
		old.Add(old, c)
		if old.Sign() == 0 {
			delete(p.terms, k)
			delete(p.monos, k)
		}
		return
	}
	if c.Sign() == 0 {
		return
	}
	p.terms[k] = new(big.Rat).Set(c)
	cm := Mono{}
	for a, e := range m {
		if e != 0 {
			cm[a] = e
		}
	}
	p.monos[k] = cm
}

func (p *Poly) Add(q *Poly) *Poly {
	r := newPoly()
	r.inherit(p, q)
	for k, c := range p.terms {
		r.addTerm(p.monos[k], c)
	}
	for k, c := range q.terms {
		r.addTerm(q.monos[k], c)
	}
	return r
}

func (p *Poly) Neg() *Poly {
	r := newPoly()
	r.inherit(p)
	for k, c := range p.terms {
		r.addTerm(p.monos[k], new(big.Rat).Neg(c))
	}
	return r
}

func (p *Poly) Sub(q *Poly) *Poly { return p.Add(q.Neg()) }

func (p *Poly) Mul(q *Poly) *Poly {
	r := newPoly()
	r.inherit(p, q)
	if _, pc := p.Const(); !pc {
		if _, qc := q.Const(); !qc && r.Hazard == "" {
			if p.Div {
				r.Hazard = "quotient (" + p.plain() + ") multiplied by (" + q.plain() + ")"
			} else if q.Div {
				r.Hazard = "quotient (" + q.plain() + ") multiplied by (" + p.plain() + ")"
			}
		}
	}
	for k1, c1 := range p.terms {
		for k2, c2 := range q.terms {
			m := Mono{}
			for a, e := range p.monos[k1] {
				m[a] += e
			}
			for a, e := range q.monos[k2] {
				m[a] += e
			}
			r.addTerm(m, new(big.Rat).Mul(c1, c2))
		}
	}
	return r
}

func (p *Poly) IsZero() bool { return len(p.terms) == 0 }

// Quo divides by q; a multi-term divisor is atomised as {q}.
func (p *Poly) Quo(q *Poly) *Poly {
	if len(q.terms) == 0 {
		return atomPoly("div-by-zero")
	}
	inv := newPoly()
	if len(q.terms) == 1 {
		for k, c := range q.terms {
			m := Mono{}
			for a, e := range q.monos[k] {
				m[a] = -e
			}
			inv.addTerm(m, new(big.Rat).Inv(c))
		}
	} else {
		inv.addTerm(Mono{"{" + q.String() + "}": -1}, big.NewRat(1, 1))
	}
	hz := p.Hazard
	if hz == "" {
		hz = q.Hazard
	}
	pd, qd := p.Div, q.Div
	p2 := *p
	p2.Div, p2.Hazard = false, ""
	r := p2.Mul(inv)
	r.Trunc = p.Trunc || q.Trunc
	r.Hazard = hz
	_, pconst := p.Const()
	one := false
	if c, ok := q.Const(); ok && c.IsInt() && c.Num().IsInt64() && (c.Num().Int64() == 1 || c.Num().Int64() == -1) {
		one = true
	}
	r.Div = pd || qd || (!pconst && !one)
	return r
}

func (p *Poly) String() string {
	if p.Hazard != "" {
		return p.plain() + " [precision: " + p.Hazard + "]"
	}
	return p.plain()
}

func (p *Poly) plain() string {
	var ks []string
	for k := range p.terms {
		ks = append(ks, k)
	}
	sort.Strings(ks)
	var parts []string
	for _, k := range ks {
		c := p.terms[k].RatString()
		if k == "" {
			parts = append(parts, c)
		} else if c == "1" {
			parts = append(parts, k)
		} else {
			parts = append(parts, c+" * "+k)
		}
	}
	if len(parts) == 0 {
		return "0"
	}
	return strings.Join(parts, " + ")
}

func (p *Poly) Equal(q *Poly) bool { return p.Sub(q).IsZero() }

// Single returns the coefficient and monomial when p has exactly one term.
func (p *Poly) Single() (*big.Rat, Mono, bool) {
	if len(p.terms) != 1 {
		return nil, nil, false
	}
	for k, c := range p.terms {
		return c, p.monos[k], true
	}
	return nil, nil, false
}

// Const returns the constant value when p has no atoms.
func (p *Poly) Const() (*big.Rat, bool) {
	if len(p.terms) == 0 {
		return new(big.Rat), true
	}
	if c, ok := p.terms[""]; ok && len(p.terms) == 1 {
		return c, true
	}
	return nil, false
}

// Atoms lists the atom names occurring in p.
func (p *Poly) Atoms() []string {
	set := map[string]bool{}
	for _, m := range p.monos {
		for a := range m {
			set[a] = true
		}
	}
	var out []string
	for a := range set {
		out = append(out, a)
	}
	sort.Strings(out)
	return out
}

// ---------------------------------------------------------------------------

type linEval struct {
	// Atomise lets a rule name an atom for a term (return "" to fall through).
	Atomise func(t *Term) string
	depth   int
}

var linTransparent = map[string]bool{
	"cosmossdk.io/math.NewInt": true, "cosmossdk.io/math.NewIntFromUint64": true, "cosmossdk.io/math.NewIntFromBigInt": true,
	"cosmossdk.io/math.LegacyNewDec": true, "cosmossdk.io/math.LegacyNewDecFromInt": true, "cosmossdk.io/math.LegacyNewDecFromBigInt": true,
	"cosmossdk.io/math.NewUint":           true,
	"(cosmossdk.io/math.Int).ToLegacyDec": true, "(cosmossdk.io/math.Int).Int64": true, "(cosmossdk.io/math.Int).Uint64": true, "(cosmossdk.io/math.Int).BigInt": true,
	"(cosmossdk.io/math.LegacyDec).BigInt":      true,
	"github.com/cosmos/cosmos-sdk/types.NewInt": true, "github.com/cosmos/cosmos-sdk/types.NewIntFromUint64": true,
	"(*math/big.Int).Int64": true, "(*math/big.Int).Uint64": true,
}
var linTrunc = map[string]bool{
	"(cosmossdk.io/math.LegacyDec).TruncateInt": true, "(cosmossdk.io/math.LegacyDec).RoundInt": true, "(cosmossdk.io/math.LegacyDec).TruncateInt64": true,
	"(cosmossdk.io/math.LegacyDec).RoundInt64": true, "(cosmossdk.io/math.LegacyDec).TruncateDec": true, "(cosmossdk.io/math.LegacyDec).Ceil": true,
}
var linBin = map[string]string{
	"Add": "+", "Sub": "-", "Mul": "*", "Quo": "/", "AddRaw": "+", "SubRaw": "-", "MulRaw": "*", "QuoRaw": "/",
	"MulInt": "*", "QuoInt": "/", "MulInt64": "*", "QuoInt64": "/", "MulTruncate": "*", "QuoTruncate": "/", "QuoRoundUp": "/", "MulRoundUp": "*",
	"SafeSub": "-", "SafeAdd": "+",
}

func isMathRecv(name string) bool {
	for _, p := range []string{"(cosmossdk.io/math.Int).", "(cosmossdk.io/math.LegacyDec).", "(cosmossdk.io/math.Uint)."} {
		if strings.HasPrefix(name, p) {
			return true
		}
	}
	return false
}

func (le *linEval) Eval(t *Term) *Poly {
	if t == nil {
		return atomPoly("?")
	}
	if le.Atomise != nil {
		if a := le.Atomise(t); a != "" {
			return atomPoly(a)
		}
	}
	le.depth++
	defer func() { le.depth-- }()
	if le.depth > 40 {
		return atomPoly("deep")
	}
	op := t.Op
	switch {
	case strings.HasPrefix(op, "const:"):
		s := strings.TrimPrefix(op, "const:")
		if r, ok := new(big.Rat).SetString(s); ok {
			return constPoly(r)
		}
		return atomPoly(op)
	case op == "+" && len(t.Args) == 2:
		return le.Eval(t.Args[0]).Add(le.Eval(t.Args[1]))
	case op == "-" && len(t.Args) == 2:
		return le.Eval(t.Args[0]).Sub(le.Eval(t.Args[1]))
	case op == "*" && len(t.Args) == 2:
		return le.Eval(t.Args[0]).Mul(le.Eval(t.Args[1]))
	case op == "/" && len(t.Args) == 2:
		r := le.Eval(t.Args[0]).Quo(le.Eval(t.Args[1]))
		r.Trunc = true
		return r
	case op == "neg" && len(t.Args) == 1:
		return le.Eval(t.Args[0]).Neg()
	case op == "ref" && len(t.Args) == 1:
		return le.Eval(t.Args[0])
	case strings.HasPrefix(op, "field:github.com/cosmos/cosmos-sdk/types.Coin.Amount") && len(t.Args) == 1:
		return le.Eval(t.Args[0])
	case strings.HasPrefix(op, "call:"):
		name := strings.TrimPrefix(op, "call:")
		if linTransparent[name] && len(t.Args) >= 1 {
			return le.Eval(t.Args[0])
		}
		if linTrunc[name] && len(t.Args) == 1 {
			r := le.Eval(t.Args[0])
			r2 := r.Add(newPoly())
			r2.Trunc = true
			return r2
		}
		switch name {
		case "cosmossdk.io/math.ZeroInt", "cosmossdk.io/math.LegacyZeroDec", "cosmossdk.io/math.ZeroUint":
			return constPoly(new(big.Rat))
		case "cosmossdk.io/math.OneInt", "cosmossdk.io/math.LegacyOneDec", "cosmossdk.io/math.OneUint":
			return constPoly(big.NewRat(1, 1))
		case "cosmossdk.io/math.LegacyNewDecWithPrec":
			if len(t.Args) == 2 {
				if prec, ok := le.Eval(t.Args[1]).Const(); ok && prec.IsInt() && prec.Num().IsInt64() && prec.Num().Int64() >= 0 && prec.Num().Int64() < 40 {
					d := new(big.Int).Exp(big.NewInt(10), prec.Num(), nil)
					return le.Eval(t.Args[0]).Quo(constPoly(new(big.Rat).SetInt(d)))
				}
			}
		case "github.com/cosmos/cosmos-sdk/types.NewCoin", "github.com/cosmos/cosmos-sdk/types.NewInt64Coin":
			if len(t.Args) == 2 {
				return le.Eval(t.Args[1])
			}
		case "(github.com/cosmos/cosmos-sdk/types.Coins).AmountOf":
			if len(t.Args) == 2 {
				return le.Eval(t.Args[0])
			}
		case "(github.com/cosmos/cosmos-sdk/types.Coin).Sub", "(github.com/cosmos/cosmos-sdk/types.Coin).SubAmount":
			if len(t.Args) == 2 {
				return le.Eval(t.Args[0]).Sub(le.Eval(t.Args[1]))
			}
		case "(github.com/cosmos/cosmos-sdk/types.Coin).Add", "(github.com/cosmos/cosmos-sdk/types.Coin).AddAmount":
			if len(t.Args) == 2 {
				return le.Eval(t.Args[0]).Add(le.Eval(t.Args[1]))
			}
		case "github.com/cosmos/cosmos-sdk/types.NewCoins":
			// variadic: a slice literal of coins; single-coin case only
			if len(t.Args) == 1 {
				if el := sliceLiteralElems(t.Args[0]); len(el) == 1 {
					return le.Eval(el[0])
				}
			}
		case "(time.Duration).Milliseconds":
			if len(t.Args) == 1 {
				return atomPoly("ms(" + t.Args[0].String() + ")")
			}
		}
		if isMathRecv(name) {
			m := name[strings.LastIndex(name, ".")+1:]
			if bop, ok := linBin[m]; ok && len(t.Args) == 2 {
				a, b := le.Eval(t.Args[0]), le.Eval(t.Args[1])
				switch bop {
				case "+":
					return a.Add(b)
				case "-":
					return a.Sub(b)
				case "*":
					return a.Mul(b)
				case "/":
					r := a.Quo(b)
					if strings.HasPrefix(name, "(cosmossdk.io/math.Int).") || strings.HasPrefix(name, "(cosmossdk.io/math.Uint).") {
						r.Trunc = true
					}
					return r
				}
			}
			if m == "Neg" && len(t.Args) == 1 {
				return le.Eval(t.Args[0]).Neg()
			}
		}
	}
	// an otherwise opaque call of a straight-line repository helper (one basic block, one result) is
	// evaluated through its body with the caller's arguments: `shareOf(net, amount, total)` has the normal
	// form of its return expression. Atomise hooks ran first, so a rule that names a call keeps its atom.
	if strings.HasPrefix(op, "call:") && curProg != nil && le.depth < 30 {
		if fn := curProg.Func(strings.TrimPrefix(op, "call:")); fn != nil && len(fn.Blocks) == 1 && fn.Signature.Results().Len() == 1 {
			if ret, ok := fn.Blocks[0].Instrs[len(fn.Blocks[0].Instrs)-1].(*ssa.Return); ok && len(ret.Results) == 1 {
				body := NewTermer().Of(ret.Results[0])
				return le.Eval(substParams(body, t.Args))
			}
		}
	}
	return atomPoly(t.String())
}

// sliceLiteralElems recognises the SSA shape of a variadic slice literal
// (slice(ref-less alloc with index stores)) — the termer renders it as
// "slice(alloc...)"; elements are recovered from the stores by the caller when
// needed. Here only the V-based recovery is implemented.
func sliceLiteralElems(t *Term) []*Term {
	if t == nil || t.V == nil {
		return nil
	}
	return variadicElems(t.V)
}

func ratOf(a, b int64) *big.Rat { return big.NewRat(a, b) }
