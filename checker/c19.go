package main

// C19 — privileged changes need governance; messages touch only the signer's assets.

import (
	"fmt"
	"go/token"
	"go/types"
	"path/filepath"
	"regexp"
	"sort"
	"strings"

	"golang.org/x/tools/go/ssa"
)

func init() { register("C19", checkC19) }

type msgInfo struct {
	Module, Name, Signer, SignerGo string
}

func camel(s string) string {
	parts := strings.Split(s, "_")
	for i, p := range parts {
		if p != "" {
			parts[i] = strings.ToUpper(p[:1]) + p[1:]
		}
	}
	return strings.Join(parts, "")
}

// parseTxProtos reads proto/layer/*/tx.proto: the rpc list of service Msg and the signer option of every message.
func parseTxProtos(repo string) (map[string]*msgInfo, map[string][]string, error) {
	files, _ := filepath.Glob(filepath.Join(repo, "proto", "layer", "*", "tx.proto"))
	if len(files) == 0 {
		return nil, nil, fmt.Errorf("no tx.proto found")
	}
	msgs := map[string]*msgInfo{}
	rpcs := map[string][]string{}
	reMsg := regexp.MustCompile(`^message\s+(\w+)\s*\{`)
	reSigner := regexp.MustCompile(`option\s*\(cosmos\.msg\.v1\.signer\)\s*=\s*"(\w+)"`)
	reRPC := regexp.MustCompile(`^\s*rpc\s+(\w+)\s*\(\s*(\w+)\s*\)`)
	for _, f := range files {
		mod := filepath.Base(filepath.Dir(f))
		b, err := readRepoFile(f)
		if err != nil {
			return nil, nil, err
		}
		cur := ""
		for _, line := range strings.Split(string(b), "\n") {
			if m := reRPC.FindStringSubmatch(line); m != nil {
				rpcs[mod] = append(rpcs[mod], m[1]+":"+m[2])
			}
			if m := reMsg.FindStringSubmatch(line); m != nil {
				cur = m[1]
			}
			if m := reSigner.FindStringSubmatch(line); m != nil && cur != "" {
				msgs[mod+"."+cur] = &msgInfo{Module: mod, Name: cur, Signer: m[1], SignerGo: camel(m[1])}
			}
		}
	}
	return msgs, rpcs, nil
}

// requestType returns module and message type name of a handler's request parameter.
func requestType(fn *ssa.Function) (string, string) {
	if len(fn.Params) < 3 {
		return "", ""
	}
	t := fn.Params[2].Type()
	if p, ok := t.(*types.Pointer); ok {
		t = p.Elem()
	}
	n, ok := t.(*types.Named)
	if !ok {
		return "", ""
	}
	path := n.Obj().Pkg().Path() // .../x/<mod>/types
	parts := strings.Split(path, "/")
	mod := ""
	for i, p := range parts {
		if p == "x" && i+1 < len(parts) {
			mod = parts[i+1]
		}
	}
	return mod, n.Obj().Name()
}

var c19NonEffect = map[string]bool{
	"cosmossdk.io/errors.Wrapf": true, "cosmossdk.io/errors.Wrap": true, "fmt.Sprintf": true, "fmt.Errorf": true, "errors.New": true,
	"github.com/cosmos/cosmos-sdk/types.UnwrapSDKContext": true, "(*cosmossdk.io/errors.Error).Wrapf": true, "(*cosmossdk.io/errors.Error).Wrap": true,
}

func isGetAuthority(name string) bool { return strings.HasSuffix(name, ".GetAuthority") }

// c19Pure: calls that change nothing a privileged message could be abused for -- logging, reading the context, formatting.
// A handler may make them before (or without) the authority comparison.
func c19Pure(name string) bool {
	if strings.HasPrefix(name, "iface:cosmossdk.io/log.Logger.") || strings.HasSuffix(name, "Keeper).Logger") || strings.HasSuffix(name, "Keeper).Logger") {
		return true
	}
	for _, p := range []string{"(github.com/cosmos/cosmos-sdk/types.Context).BlockHeight", "(github.com/cosmos/cosmos-sdk/types.Context).BlockTime",
		"(github.com/cosmos/cosmos-sdk/types.Context).ChainID", "(github.com/cosmos/cosmos-sdk/types.Context).Logger",
		"strings.", "strconv.", "fmt.Sprint", "encoding/hex.", "bytes.Equal", "bytes.Compare"} {
		if strings.HasPrefix(name, p) {
			return true
		}
	}
	return false
}

func checkC19(r *Result) {
	P := r.P
	defer checkLostUpdates(r, "C19")
	S := P.Scopes()
	r.Explanation = "Authority and signer-frame rules decided on the resolved program. From proto/layer/*/tx.proto the signer field of each of the Msg rpcs is read. For every message signed by `authority`, the handler's comparison of that field with the keeper's authority must hold on every path to any effectful call (path-state analysis); UpdateTeam likewise against the stored team address; collections owned by governance are written only from authority handlers or genesis; in app.New each keeper's authority argument is the gov module address. For every other handler, at each debit sink reachable from it (the `from` account of SendCoinsFromAccountToModule, the delegator of Unbond, the key of Selectors/Reporters/SelectorTips writes) the account is traced backwards interprocedurally (context-sensitive over call sites) to its sources, which must all be the message's signer field or one of the exceptions the property names. RegisterSpec may write only a key that the existence test examined, with guard, write and read applying the same key normalisation."
	r.NotDecided = "indirect effects over all reachable states (e.g. share-price changes); sinks outside the listed set"
	r.Assumptions = []string{"the SDK routes a Msg only when the field named by cosmos.msg.v1.signer signed the transaction", "x/gov is the only holder of the gov module address"}
	r.rule("AUTH-GATE", "a handler of an authority-signed message performs no effectful call before, and none without, the authority comparison having succeeded")
	r.rule("AUTH-TEAM", "UpdateTeam writes only after the signer equals the stored team address")
	r.rule("AUTH-COUNT", "the rpc handlers found by type equal the rpcs declared in tx.proto, and every message declares a signer")
	r.rule("GOV-WRITERS", "governance-owned collections are written only from authority handlers and genesis")
	r.rule("AUTH-WIRING", "in app.New the authority passed to each keeper constructor is the gov module address")
	r.rule("SIGNER-FRAME", "the account debited or re-keyed at a sink derives only from the message's signer field (or a named exception)")
	r.rule("REMOVE-LICENCE", "RemoveSelector's licence, HasMin, adds up all bonded delegations of the account before comparing with the minimum")
	r.rule("MSG-ASSIGN", "registry handlers assign a field of the message they process only before its first read")
	r.rule("NO-REREGISTER", "RegisterSpec writes a spec only under 'not yet registered', and guard, write and read normalise the key identically")

	msgs, rpcs, err := parseTxProtos(P.RepoDir)
	if err != nil {
		r.broken("tx.proto: %v", err)
		return
	}
	// AUTH-COUNT
	nrpc := 0
	for _, l := range rpcs {
		nrpc += len(l)
	}
	r.check(nrpc == len(S.Msg) && nrpc > 0, "AUTH-COUNT", "rpc handlers == rpcs in tx.proto", "proto/layer/*/tx.proto", fmt.Sprintf("%d rpcs declared, %d handlers found by type", nrpc, len(S.Msg)))
	handlerInfo := map[*ssa.Function]*msgInfo{}
	for _, h := range S.Msg {
		mod, name := requestType(h)
		mi := msgs[mod+"."+name]
		if mi == nil {
			r.bad("AUTH-COUNT", FuncName(h)+" # request message declares a signer", P.Pos(h.Pos()), "no cosmos.msg.v1.signer option found for "+mod+"."+name)
			continue
		}
		handlerInfo[h] = mi
		r.fn(FuncName(h))
	}

	// AUTH-GATE
	// gateHelper recognises the common helper form of the check: a repository function that compares the
	// keeper's authority with one of its string parameters and succeeds only under equality. Returns the
	// index of that parameter (receiver = 0).
	gateMemo := map[string]int{}
	gateHelper := func(name string) (int, bool) {
		if v, ok := gateMemo[name]; ok {
			return v, v >= 0
		}
		gateMemo[name] = -1
		fn := P.Func(name)
		if fn == nil || len(fn.Blocks) == 0 {
			return -1, false
		}
		idx := -1
		ps := AnalyzePaths(fn, []Atom{{Name: "authorized", Cond: func(rel *Term) (bool, bool) {
			if rel.Op != "==" || len(rel.Args) != 2 {
				return false, false
			}
			a, b := rel.Args[0], rel.Args[1]
			isAuth := func(t *Term) bool {
				return strings.HasPrefix(t.Op, "call:") && isGetAuthority(strings.TrimPrefix(t.Op, "call:"))
			}
			par := func(t *Term) int {
				var n int
				if strings.HasPrefix(t.Op, "param:") && strings.HasSuffix(t.Op, ":string") {
					if _, err := fmt.Sscanf(t.Op, "param:%d:", &n); err == nil {
						return n
					}
				}
				return -1
			}
			switch {
			case isAuth(a) && par(b) >= 0:
				idx = par(b)
				return true, true
			case isAuth(b) && par(a) >= 0:
				idx = par(a)
				return true, true
			}
			return false, false
		}}})
		rets := SuccessReturns(fn)
		ok := idx >= 0 && len(rets) > 0 && errorResultIndex(fn) >= 0
		for _, ret := range rets {
			if bad := ps.Require(ret, func(v map[string]bool) bool { return v["authorized"] }); len(bad) > 0 {
				ok = false
			}
		}
		if ok {
			gateMemo[name] = idx
		}
		return idx, ok
	}
	authHandlers := map[*ssa.Function]bool{}
	for _, h := range S.Msg {
		mi := handlerInfo[h]
		if mi == nil || mi.Signer != "authority" {
			continue
		}
		authHandlers[h] = true
		field := "field:x/" + mi.Module + "/types." + mi.Name + ".Authority"
		authEq := func(rel *Term) (bool, bool) {
			if rel.Op != "==" || len(rel.Args) != 2 {
				return false, false
			}
			a, b := rel.Args[0], rel.Args[1]
			isAuth := func(t *Term) bool {
				return strings.HasPrefix(t.Op, "call:") && isGetAuthority(strings.TrimPrefix(t.Op, "call:"))
			}
			isFld := func(t *Term) bool { return strings.HasPrefix(t.Op, field) }
			if (isAuth(a) && isFld(b)) || (isAuth(b) && isFld(a)) {
				return true, true
			}
			// helper(msg.Authority) == nil
			for _, pair := range [][2]*Term{{a, b}, {b, a}} {
				call, other := pair[0], pair[1]
				if other.Op != "const:nil" || !strings.HasPrefix(call.Op, "call:") {
					continue
				}
				if idx, ok := gateHelper(strings.TrimPrefix(call.Op, "call:")); ok && idx < len(call.Args) && isFld(call.Args[idx]) {
					return true, true
				}
			}
			return false, false
		}
		ps := AnalyzePaths(h, []Atom{{Name: "authorized", Cond: authEq}})
		n, bad := 0, 0
		firstBad := ""
		var badPos token.Pos
		for _, cs := range P.CallSitesIn(h) {
			if c19NonEffect[cs.Callee] || c19Pure(cs.Callee) || isGetAuthority(cs.Callee) || strings.HasPrefix(cs.Callee, "builtin:") {
				continue
			}
			if _, isGate := gateHelper(cs.Callee); isGate {
				continue
			}
			// calls on the error path (reachable only when not authorized and returning) are fine: require authorized at every other call
			n++
			if b := ps.Require(cs.Instr, func(v map[string]bool) bool { return v["authorized"] }); len(b) > 0 {
				// allowed if this block can only reach failing returns and the call is an error constructor / logger
				bad++
				if firstBad == "" {
					firstBad = cs.Desc() + " with " + fmt.Sprint(b)
					badPos = cs.Pos()
				}
			}
		}
		if len(ps.Matched["authorized"]) == 0 {
			r.bad("AUTH-GATE", FuncName(h)+" # authority comparison present", P.Pos(h.Pos()), "handler of an authority-signed message never compares msg.Authority with the keeper's authority")
			continue
		}
		if bad > 0 {
			r.bad("AUTH-GATE", FuncName(h)+" # every effect under authority == msg.Authority", P.Pos(badPos), fmt.Sprintf("%d of %d calls are reachable without the authority check having succeeded, e.g. %s", bad, n, firstBad))
		} else {
			r.ok("AUTH-GATE", FuncName(h)+" # every effect under authority == msg.Authority", P.Pos(h.Pos()), fmt.Sprintf("%d effectful calls, all dominated by the successful comparison %v", n, ps.Matched["authorized"]))
		}
	}
	r.check(len(authHandlers) == 6, "AUTH-COUNT", "six authority-signed messages", "proto/layer/*/tx.proto", fmt.Sprintf("%d messages with signer `authority`", len(authHandlers)))

	// AUTH-TEAM
	if ut := P.Func("(x/dispute/keeper.msgServer).UpdateTeam"); ut == nil {
		r.broken("anchor UpdateTeam does not resolve")
	} else {
		teamEq := func(rel *Term) (bool, bool) {
			if rel.Op == "call:bytes.Equal" && len(rel.Args) == 2 {
				a, b := rel.Args[0], rel.Args[1]
				has := func(t *Term, p string) bool { return t.Has(p) }
				if (has(a, "field:x/dispute/types.Params.TeamAddress") && has(b, "field:x/dispute/types.MsgUpdateTeam.CurrentTeamAddress")) || (has(b, "field:x/dispute/types.Params.TeamAddress") && has(a, "field:x/dispute/types.MsgUpdateTeam.CurrentTeamAddress")) {
					return true, true
				}
			}
			return false, false
		}
		ps := AnalyzePaths(ut, []Atom{{Name: "isTeam", Cond: teamEq}})
		n := 0
		for _, cs := range P.CallSitesIn(ut) {
			if cs.Desc() == "coll:x/dispute/keeper.Keeper.Params.Set" {
				n++
				bad := ps.Require(cs.Instr, func(v map[string]bool) bool { return v["isTeam"] })
				r.check(len(bad) == 0, "AUTH-TEAM", "(x/dispute/keeper.msgServer).UpdateTeam # Params.Set under signer == stored team address", P.Pos(cs.Pos()), fmt.Sprintf("valuations: %v", statesStr(ps, cs.Instr)))
			}
		}
		r.check(n == 1, "AUTH-TEAM", "(x/dispute/keeper.msgServer).UpdateTeam # writes the params once", P.Pos(ut.Pos()), fmt.Sprintf("%d Params.Set sites", n))
	}

	// GOV-WRITERS
	govOwned := []string{
		"coll:x/oracle/keeper.Keeper.Params.Set", "coll:x/reporter/keeper.Keeper.Params.Set", "coll:x/registry/keeper.Keeper.Params.Set", "coll:x/bridge/keeper.Keeper.Params.Set", "coll:x/dispute/keeper.Keeper.Params.Set",
		"coll:x/oracle/keeper.Keeper.Cyclelist.Clear", "coll:x/oracle/keeper.Keeper.Cyclelist.Set", "coll:x/oracle/keeper.Keeper.Cyclelist.Remove",
		"coll:x/bridge/keeper.Keeper.SnapshotLimit.Set",
	}
	gen := P.Reachable(S.Genesis, nil)
	for _, h := range S.Msg {
		if authHandlers[h] || FuncName(h) == "(x/dispute/keeper.msgServer).UpdateTeam" {
			continue
		}
		reach := P.Reachable([]*ssa.Function{h}, nil)
		for _, d := range govOwned {
			for _, s := range P.Sites(descIs(d)) {
				if _, ok := reach[TopFunc(s.Fn)]; ok {
					r.bad("GOV-WRITERS", FuncName(h)+" # reaches "+d, P.Pos(s.Pos()), "a message that is not signed by the authority can write a governance-owned collection via "+PathTo(reach, TopFunc(s.Fn)))
				}
			}
		}
	}
	nGov := 0
	for _, d := range govOwned {
		for _, s := range P.Sites(descIs(d)) {
			nGov++
			owner := ""
			for h := range authHandlers {
				if _, ok := P.Reachable([]*ssa.Function{h}, nil)[TopFunc(s.Fn)]; ok {
					owner = FuncName(h)
				}
			}
			if owner == "" {
				if _, ok := gen[TopFunc(s.Fn)]; ok {
					owner = "genesis"
				}
			}
			if owner == "" && FuncName(TopFunc(s.Fn)) == "(x/dispute/keeper.msgServer).UpdateTeam" {
				owner = "UpdateTeam (team-gated)"
			}
			if owner == "" {
				// unreachable from any handler: report for review only if reachable from some non-genesis entry
				cons := P.Consensus()
				if _, ok := cons[TopFunc(s.Fn)]; ok {
					r.bad("GOV-WRITERS", d+" in "+FuncName(TopFunc(s.Fn)), P.Pos(s.Pos()), "governance-owned collection written from consensus code that is neither an authority handler nor genesis")
					continue
				}
				owner = "not reachable from a state-machine entry point"
			}
			r.ok("GOV-WRITERS", d+" in "+FuncName(TopFunc(s.Fn)), P.Pos(s.Pos()), "written from: "+owner)
		}
	}
	// Minter.Initialized = true only in Init
	var initWriters []string
	for _, fn := range P.RepoFuncs {
		for _, b := range fn.Blocks {
			for _, in := range b.Instrs {
				if storesConstToField(in, "x/mint/types.Minter.Initialized", "true") {
					initWriters = append(initWriters, FuncName(TopFunc(fn)))
				}
			}
		}
	}
	r.check(len(initWriters) == 1 && initWriters[0] == "(x/mint/keeper.msgServer).Init", "GOV-WRITERS", "writers of Minter.Initialized=true", "-", fmt.Sprintf("%v", initWriters))

	// AUTH-WIRING
	if appNew := P.Func("app.New"); appNew == nil {
		r.broken("anchor app.New does not resolve")
	} else {
		want := map[string]int{"x/oracle/keeper.NewKeeper": -1, "x/bridge/keeper.NewKeeper": -1, "x/mint/keeper.NewKeeper": -1, "x/registry/keeper.NewKeeper": -1, "x/reporter/keeper.NewKeeper": -1, "x/dispute/keeper.NewKeeper": -1}
		seen := map[string]bool{}
		for _, cs := range P.CallSitesIn(appNew) {
			if _, ok := want[cs.Callee]; !ok {
				continue
			}
			callee := cs.Instr.Common().StaticCallee()
			idx := -1
			for i, p := range callee.Params {
				if p.Name() == "authority" && p.Type().String() == "string" {
					idx = i
				}
			}
			if idx < 0 {
				if cs.Callee == "x/dispute/keeper.NewKeeper" {
					// the dispute keeper takes no authority: its only privileged handler is team-gated
					seen[cs.Callee] = true
					r.ok("AUTH-WIRING", "app.New # "+cs.Callee+" has no authority parameter", P.Pos(cs.Pos()), "dispute has no authority-signed message")
					continue
				}
				r.bad("AUTH-WIRING", "app.New # "+cs.Callee+" authority parameter", P.Pos(cs.Pos()), "constructor has no string parameter named authority")
				continue
			}
			seen[cs.Callee] = true
			t := NewTermer().Of(cs.Instr.Common().Args[idx])
			ok := t.Op == "call:(github.com/cosmos/cosmos-sdk/types.AccAddress).String" && len(t.Args) == 1 &&
				t.Args[0].Op == "call:github.com/cosmos/cosmos-sdk/x/auth/types.NewModuleAddress" && len(t.Args[0].Args) == 1 && t.Args[0].Args[0].Op == "const:gov"
			r.check(ok, "AUTH-WIRING", "app.New # "+cs.Callee+" authority = gov module address", P.Pos(cs.Pos()), "authority argument: "+clip(t.String(), 160))
		}
		for k := range want {
			if !seen[k] {
				r.bad("AUTH-WIRING", "app.New # constructs "+k, P.Pos(appNew.Pos()), "keeper constructor call not found in app.New")
			}
		}
	}

	// NO-REREGISTER
	checkNoReregister(r)

	// MSG-ASSIGN: value descriptors name a load through the message pointer by its access path, so a handler
	// that assigns a message field after having read it makes two "equal" reads differ. In the registry
	// handlers every assignment to a message field comes before the first read of that field (normalise, then use).
	{
		n := 0
		for _, fn := range P.RepoFuncs {
			name := FuncName(fn)
			if !strings.HasPrefix(name, "(x/registry/keeper.msgServer).") || fn.Parent() != nil {
				continue
			}
			n++
			r.fn(name)
			late := msgFieldWritesAfterRead(P, fn, "")
			r.check(len(late) == 0, "MSG-ASSIGN", name+" # message fields are assigned only before they are first read", P.Pos(fn.Pos()), strings.Join(late, "; "))
		}
		if n == 0 {
			r.broken("no registry message handlers found")
		}
	}

	// SIGNER-FRAME
	checkSignerFrame(r, handlerInfo)

	// the one licence to touch another account's selection: that account is below the minimum
	checkHasMin(r, "REMOVE-LICENCE")
	if rs := P.Func("(x/reporter/keeper.msgServer).RemoveSelector"); rs == nil {
		r.broken("anchor RemoveSelector does not resolve")
	} else {
		ps := AnalyzePaths(rs, []Atom{{Name: "hasMin", Stable: true, Cond: func(rel *Term) (bool, bool) {
			return rel.Op == "ext:0" && len(rel.Args) == 1 && strings.HasSuffix(rel.Args[0].Op, "Keeper).HasMin"), true
		}}})
		n := 0
		for _, cs := range P.CallSitesIn(rs) {
			if cs.Desc() == "coll:x/reporter/keeper.Keeper.Selectors.Remove" {
				n++
				bad := ps.Require(cs.Instr, func(v map[string]bool) bool { return !v["hasMin"] })
				r.check(len(bad) == 0 && len(ps.Matched["hasMin"]) > 0, "REMOVE-LICENCE", "(x/reporter/keeper.msgServer).RemoveSelector # another account's selection is removed only when HasMin said no", P.Pos(cs.Pos()), fmt.Sprintf("valuations: %v", statesStr(ps, cs.Instr)))
			}
		}
		r.check(n == 1, "REMOVE-LICENCE", "(x/reporter/keeper.msgServer).RemoveSelector # one removal site", P.Pos(rs.Pos()), fmt.Sprint(n))
		// the minimum asked of the selector is the minimum of the reporter it selected
		for _, cs := range P.CallSitesIn(rs) {
			if cs.Callee == "(x/reporter/keeper.Keeper).HasMin" {
				a, m := NewTermer().Of(Arg(cs.Instr, 1)), NewTermer().Of(Arg(cs.Instr, 2))
				ok := a.Contains("MsgRemoveSelector.SelectorAddress") && strings.HasPrefix(m.Op, "field:x/reporter/types.OracleReporter.MinTokensRequired") && m.Contains("Selection.Reporter")
				r.check(ok, "REMOVE-LICENCE", "(x/reporter/keeper.msgServer).RemoveSelector # HasMin is asked about the named selector and its own reporter's minimum", P.Pos(cs.Pos()), "account: "+clip(a.String(), 100)+" ; minimum: "+clip(m.String(), 140))
			}
		}
	}
	r.minCount("REMOVE-LICENCE", 6)
	r.minCount("AUTH-GATE", 6)
	r.minCount("AUTH-WIRING", 6)
	r.minCount("SIGNER-FRAME", 8)
	r.minCount("NO-REREGISTER", 3)
	r.minCount("MSG-ASSIGN", 2)
}

func checkNoReregister(r *Result) {
	P := r.P
	rs := P.Func("(x/registry/keeper.msgServer).RegisterSpec")
	if rs == nil {
		r.broken("anchor RegisterSpec does not resolve")
		return
	}
	exists := func(rel *Term) (bool, bool) {
		if rel.Op == "ext:0" && len(rel.Args) == 1 && rel.Args[0].Op == "call:(x/registry/keeper.Keeper).HasSpec" {
			return true, true
		}
		return false, false
	}
	ps := AnalyzePaths(rs, []Atom{{Name: "exists", Cond: exists}})
	var hasKey, setKey string
	for _, cs := range P.CallSitesIn(rs) {
		tm := NewTermer()
		switch cs.Callee {
		case "(x/registry/keeper.Keeper).HasSpec":
			hasKey = tm.Of(Arg(cs.Instr, 1)).String()
		case "(x/registry/keeper.Keeper).SetDataSpec":
			setKey = tm.Of(Arg(cs.Instr, 1)).String()
			bad := ps.Require(cs.Instr, func(v map[string]bool) bool { return !v["exists"] })
			r.check(len(bad) == 0, "NO-REREGISTER", "(x/registry/keeper.msgServer).RegisterSpec # SetDataSpec only when the spec does not exist", P.Pos(cs.Pos()), fmt.Sprintf("valuations: %v", statesStr(ps, cs.Instr)))
		}
	}
	// the descriptors of two loads of msg.QueryType are equal even if the field is assigned in between:
	// the handler must not rewrite the field after it has tested it
	{
		rewrites := msgFieldWritesAfterRead(P, rs, "QueryType")
		r.check(len(rewrites) == 0, "NO-REREGISTER", "(x/registry/keeper.msgServer).RegisterSpec # the query type is not rewritten between the existence test and the write", P.Pos(rs.Pos()), fmt.Sprintf("assignments to msg.QueryType after a read: %v", rewrites))
	}
	r.check(hasKey != "" && hasKey == setKey, "NO-REREGISTER", "(x/registry/keeper.msgServer).RegisterSpec # existence test and write use the same query type value", P.Pos(rs.Pos()), "tested: "+clip(hasKey, 100)+" ; written: "+clip(setKey, 100))
	// key normalisation of the three keeper accessors, as a function of their query-type parameter
	norm := map[string]string{}
	for _, spec := range [][2]string{{"(x/registry/keeper.Keeper).HasSpec", "Has"}, {"(x/registry/keeper.Keeper).SetDataSpec", "Set"}, {"(x/registry/keeper.Keeper).GetSpec", "Get"}} {
		fn := P.Func(spec[0])
		if fn == nil {
			r.broken("anchor %s does not resolve", spec[0])
			continue
		}
		r.fn(spec[0])
		for _, cs := range P.CallSitesIn(fn) {
			if cs.Desc() == "coll:x/registry/keeper.Keeper.SpecRegistry."+spec[1] {
				t := NewTermer().Of(Arg(cs.Instr, 1)).String()
				// rename the parameter to $key
				t = regexp.MustCompile(`param:\d+:string`).ReplaceAllString(t, "$$key")
				norm[spec[1]] = t
			}
		}
	}
	same := len(norm) == 3 && norm["Has"] == norm["Set"] && norm["Set"] == norm["Get"]
	r.check(same, "NO-REREGISTER", "registry keeper # Has/Set/Get normalise the key identically", "x/registry/keeper/dataspec.go", fmt.Sprintf("Has: %s ; Set: %s ; Get: %s", norm["Has"], norm["Set"], norm["Get"]))
	// UpdateDataSpec writes only existing keys
	if ud := P.Func("(x/registry/keeper.msgServer).UpdateDataSpec"); ud != nil {
		ps := AnalyzePaths(ud, []Atom{{Name: "exists", Cond: exists}})
		for _, cs := range P.CallSitesIn(ud) {
			if cs.Callee == "(x/registry/keeper.Keeper).SetDataSpec" {
				bad := ps.Require(cs.Instr, func(v map[string]bool) bool { return v["exists"] })
				r.check(len(bad) == 0, "NO-REREGISTER", "(x/registry/keeper.msgServer).UpdateDataSpec # SetDataSpec only for an existing spec", P.Pos(cs.Pos()), fmt.Sprintf("valuations: %v", statesStr(ps, cs.Instr)))
			}
		}
	}
	// who else writes the registry
	var writers []string
	for _, s := range P.Sites(func(c *CallSite) bool { return c.Callee == "(x/registry/keeper.Keeper).SetDataSpec" }) {
		writers = append(writers, FuncName(TopFunc(s.Fn)))
	}
	sort.Strings(writers)
	okW := true
	for _, w := range writers {
		switch w {
		case "(x/registry/keeper.msgServer).RegisterSpec", "(x/registry/keeper.msgServer).UpdateDataSpec", "x/registry/module.InitGenesis", "(x/registry/keeper.Keeper).InitGenesis":
		default:
			okW = false
		}
	}
	r.check(okW && len(writers) >= 2, "NO-REREGISTER", "callers of SetDataSpec", "-", fmt.Sprintf("%v", writers))
}

// ---------------------------------------------------------------------------
// SIGNER-FRAME: backward source tracing.

type tracer struct {
	P       *Prog
	callers map[*ssa.Function][]ssa.CallInstruction
	except  map[string]bool
	hooks   map[*ssa.Function]bool
	msgs    map[*ssa.Function]bool
}

var passThrough = map[string]int{ // callee -> index of the argument whose identity is preserved
	"github.com/cosmos/cosmos-sdk/types.AccAddressFromBech32": 0, "github.com/cosmos/cosmos-sdk/types.MustAccAddressFromBech32": 0,
	"github.com/cosmos/cosmos-sdk/types.ValAddressFromBech32": 0, "(github.com/cosmos/cosmos-sdk/types.AccAddress).Bytes": 0,
	"(github.com/cosmos/cosmos-sdk/types.AccAddress).String": 0, "(github.com/cosmos/cosmos-sdk/types.ValAddress).Bytes": 0,
	"github.com/cosmos/cosmos-sdk/types.AccAddressFromHexUnsafe": 0,
}

func isMsgType(t types.Type) (string, bool) {
	if p, ok := t.Underlying().(*types.Pointer); ok {
		t = p.Elem()
	}
	if p, ok := t.(*types.Pointer); ok {
		t = p.Elem()
	}
	n, ok := t.(*types.Named)
	if !ok || n.Obj().Pkg() == nil {
		return "", false
	}
	if strings.HasPrefix(n.Obj().Name(), "Msg") && strings.HasSuffix(n.Obj().Pkg().Path(), "/types") && inRepoPath(n.Obj().Pkg().Path()) {
		return short(n.Obj().Pkg().Path()) + "." + n.Obj().Name(), true
	}
	return "", false
}

func (tr *tracer) trace(v ssa.Value, fn *ssa.Function, stack []ssa.CallInstruction, depth int, seen map[ssa.Value]bool, out map[string]bool) {
	if v == nil {
		return
	}
	if depth > 40 {
		out["other:trace depth exceeded"] = true
		return
	}
	if len(stack) == 0 {
		if seen[v] {
			return
		}
		seen[v] = true
	}
	switch x := v.(type) {
	case *ssa.Const:
		out["const"] = true
	case *ssa.Parameter:
		idx := -1
		for i, p := range fn.Params {
			if p == x {
				idx = i
			}
		}
		if tr.except[FuncName(TopFunc(fn))] {
			out["exception:"+FuncName(TopFunc(fn))] = true
			return
		}
		mapArg := func(call ssa.CallInstruction) ssa.Value {
			cc := call.Common()
			if cc.IsInvoke() {
				if idx == 0 {
					return cc.Value
				}
				if idx-1 < len(cc.Args) {
					return cc.Args[idx-1]
				}
				return nil
			}
			if idx < len(cc.Args) {
				return cc.Args[idx]
			}
			return nil
		}
		if len(stack) > 0 {
			call := stack[len(stack)-1]
			tr.trace(mapArg(call), call.Parent(), stack[:len(stack)-1], depth+1, seen, out)
			return
		}
		if tr.msgs[fn] {
			if name, ok := isMsgType(x.Type()); ok {
				out["msg:"+name] = true
			} else {
				out["handler-param"] = true
			}
			return
		}
		if tr.hooks[fn] {
			out["hook:"+FuncName(fn)] = true
			return
		}
		cs := tr.callers[fn]
		if len(cs) == 0 {
			out["entry:"+FuncName(fn)] = true
			return
		}
		for _, call := range cs {
			tr.trace(mapArg(call), call.Parent(), nil, depth+1, seen, out)
		}
	case *ssa.FreeVar:
		par := fn.Parent()
		for i, fv := range fn.FreeVars {
			if fv == x && par != nil {
				for _, b := range par.Blocks {
					for _, in := range b.Instrs {
						if mc, ok := in.(*ssa.MakeClosure); ok && mc.Fn == fn && i < len(mc.Bindings) {
							tr.trace(mc.Bindings[i], par, nil, depth+1, seen, out)
						}
					}
				}
			}
		}
	case *ssa.Phi:
		for _, e := range x.Edges {
			tr.trace(e, fn, stack, depth+1, seen, out)
		}
	case *ssa.Convert:
		tr.trace(x.X, fn, stack, depth+1, seen, out)
	case *ssa.ChangeType:
		tr.trace(x.X, fn, stack, depth+1, seen, out)
	case *ssa.MakeInterface:
		tr.trace(x.X, fn, stack, depth+1, seen, out)
	case *ssa.ChangeInterface:
		tr.trace(x.X, fn, stack, depth+1, seen, out)
	case *ssa.TypeAssert:
		tr.trace(x.X, fn, stack, depth+1, seen, out)
	case *ssa.Slice:
		tr.trace(x.X, fn, stack, depth+1, seen, out)
	case *ssa.Alloc:
		n := 0
		for _, ref := range *x.Referrers() {
			if st, ok := ref.(*ssa.Store); ok && st.Addr == x {
				n++
				tr.trace(st.Val, fn, stack, depth+1, seen, out)
			}
		}
		if n == 0 {
			out["other:zero value"] = true
		}
	case *ssa.UnOp:
		if x.Op == token.MUL {
			tr.traceLoad(x.X, fn, stack, depth, seen, out)
			return
		}
		out["other:"+NewTermer().Of(x).Brief()] = true
	case *ssa.Field:
		if name, ok := isMsgType(x.X.Type()); ok {
			st := x.X.Type().Underlying().(*types.Struct)
			out["msgfield:"+name+"."+st.Field(x.Field).Name()] = true
			return
		}
		tr.trace(x.X, fn, stack, depth+1, seen, out)
	case *ssa.Extract:
		if c, ok := x.Tuple.(*ssa.Call); ok {
			tr.traceCall(c, x.Index, fn, stack, depth, seen, out)
			return
		}
		out["other:extract"] = true
	case *ssa.Call:
		tr.traceCall(x, 0, fn, stack, depth, seen, out)
	case *ssa.Next, *ssa.Lookup, *ssa.Index, *ssa.IndexAddr:
		out["other:"+NewTermer().Of(v).Brief()] = true
	default:
		out[fmt.Sprintf("other:%T", v)] = true
	}
}

func (tr *tracer) traceLoad(addr ssa.Value, fn *ssa.Function, stack []ssa.CallInstruction, depth int, seen map[ssa.Value]bool, out map[string]bool) {
	switch a := addr.(type) {
	case *ssa.FieldAddr:
		if name, ok := isMsgType(a.X.Type()); ok {
			t := a.X.Type()
			if p, ok := t.Underlying().(*types.Pointer); ok {
				t = p.Elem()
			}
			st := t.Underlying().(*types.Struct)
			out["msgfield:"+name+"."+st.Field(a.Field).Name()] = true
			return
		}
		// a field of some other struct: where does the struct come from?
		t := NewTermer().Of(a)
		if c := t.Find(func(t *Term) bool {
			return strings.HasPrefix(t.Op, "call:") && strings.Contains(t.Op, "cosmossdk.io/collections")
		}); c != nil {
			out["store:"+fieldName(a.X.Type(), a.Field)] = true
			return
		}
		// struct parameter / local: trace the base
		tr.traceLoad(a.X, fn, stack, depth+1, seen, out)
	case *ssa.Alloc:
		tr.trace(a, fn, stack, depth+1, seen, out)
	case *ssa.Parameter, *ssa.FreeVar:
		tr.trace(a, fn, stack, depth+1, seen, out)
	case *ssa.IndexAddr:
		tr.traceLoad(a.X, fn, stack, depth+1, seen, out)
	case *ssa.UnOp:
		if a.Op == token.MUL {
			tr.traceLoad(a.X, fn, stack, depth+1, seen, out)
			return
		}
		out["other:load"] = true
	default:
		tr.trace(addr, fn, stack, depth+1, seen, out)
	}
}

func (tr *tracer) traceCall(c *ssa.Call, resIdx int, fn *ssa.Function, stack []ssa.CallInstruction, depth int, seen map[ssa.Value]bool, out map[string]bool) {
	cc := c.Common()
	name := CalleeName(cc)
	if idx, ok := passThrough[name]; ok && idx < len(cc.Args) {
		tr.trace(cc.Args[idx], fn, stack, depth+1, seen, out)
		return
	}
	if strings.Contains(name, "cosmossdk.io/collections") {
		cs := tr.P.siteOf(c)
		d := name
		if cs != nil {
			d = cs.Desc()
		}
		out["store:"+d] = true
		return
	}
	callees := tr.P.CalleesOfCall(c)
	if len(callees) == 0 {
		out["other:call "+name] = true
		return
	}
	for _, g := range callees {
		if len(stack) > 12 {
			out["other:call depth"] = true
			continue
		}
		// recursion guard
		rec := false
		for _, s := range stack {
			if s == ssa.CallInstruction(c) {
				rec = true
			}
		}
		if rec {
			continue
		}
		for _, b := range g.Blocks {
			if len(b.Instrs) == 0 || b == g.Recover {
				continue
			}
			ret, ok := b.Instrs[len(b.Instrs)-1].(*ssa.Return)
			if !ok || resIdx >= len(ret.Results) {
				continue
			}
			if DefinitelyFails(ret) {
				continue
			}
			tr.trace(ResultOf(ret, resIdx), g, append(append([]ssa.CallInstruction{}, stack...), c), depth+1, seen, out)
		}
	}
}

type sinkSpec struct {
	match func(*CallSite) bool
	arg   int
	what  string
}

func checkSignerFrame(r *Result, handlerInfo map[*ssa.Function]*msgInfo) {
	P := r.P
	S := P.Scopes()
	tr := &tracer{P: P, callers: map[*ssa.Function][]ssa.CallInstruction{}, hooks: map[*ssa.Function]bool{}, msgs: map[*ssa.Function]bool{},
		except: map[string]bool{
			"(x/reporter/keeper.Keeper).EscrowReporterStake":  true, // dispute consequence: the disputed reporter's selectors
			"(x/reporter/keeper.Keeper).FeefromReporterStake": true, // fee paid from the proposer's own reporting stake
			"(x/reporter/keeper.Keeper).JailReporter":         true, // dispute consequence
			"(x/reporter/keeper.msgServer).RemoveSelector":    true, // named by the property: anyone may remove an under-staked selector
		}}
	for _, h := range S.Msg {
		tr.msgs[h] = true
	}
	for _, h := range S.Hooks {
		tr.hooks[h] = true
	}
	for _, cs := range P.AllCallSites() {
		for _, g := range P.CalleesOfCall(cs.Instr) {
			tr.callers[g] = append(tr.callers[g], cs.Instr)
		}
	}
	signerOf := map[string]string{}
	for _, mi := range handlerInfo {
		signerOf["x/"+mi.Module+"/types."+mi.Name] = mi.SignerGo
	}
	isColl := func(field, method string) func(*CallSite) bool {
		return func(c *CallSite) bool { return c.Desc() == "coll:x/reporter/keeper.Keeper."+field+"."+method }
	}
	sinks := []sinkSpec{
		{func(c *CallSite) bool { return isBankCall(c, "SendCoinsFromAccountToModule") }, 1, "account debited"},
		{func(c *CallSite) bool { return isBankCall(c, "SendCoins") }, 1, "account debited"},
		{func(c *CallSite) bool { return strings.HasSuffix(c.Callee, "StakingKeeper.Unbond") }, 1, "delegator whose stake is unbonded"},
		{isColl("Selectors", "Set"), 1, "selector record re-keyed"},
		{isColl("Selectors", "Remove"), 1, "selector record removed"},
		{isColl("Reporters", "Set"), 1, "reporter record written"},
		{isColl("SelectorTips", "Remove"), 1, "tip balance removed"},
		{func(c *CallSite) bool {
			return isColl("SelectorTips", "Set")(c) && FuncName(TopFunc(c.Fn)) != "(x/reporter/keeper.Keeper).DivvyingTips"
		}, 1, "tip balance reduced"},
	}
	msgReach := P.Reachable(S.Msg, nil)
	// functions reachable from a handler without passing through one of the named exceptions
	var plainRoots []*ssa.Function
	for _, h := range S.Msg {
		if !tr.except[FuncName(h)] {
			plainRoots = append(plainRoots, h)
		}
	}
	plainReach := P.Reachable(plainRoots, func(f *ssa.Function) bool { return tr.except[FuncName(f)] })
	for f := range plainReach {
		if tr.except[FuncName(f)] {
			delete(plainReach, f)
		}
	}
	for _, sp := range sinks {
		for _, cs := range P.Sites(sp.match) {
			if _, ok := msgReach[TopFunc(cs.Fn)]; !ok {
				// not reachable from any message handler (genesis, hooks, block hooks): outside this rule
				if _, isHook := P.Reachable(S.Hooks, nil)[TopFunc(cs.Fn)]; !isHook {
					continue
				}
			}
			r.fn(FuncName(TopFunc(cs.Fn)))
			cons0 := fmt.Sprintf("%s # %s (%s)", FuncName(TopFunc(cs.Fn)), cs.Desc(), sp.what)
			if _, plain := plainReach[TopFunc(cs.Fn)]; !plain {
				if _, viaMsg := msgReach[TopFunc(cs.Fn)]; viaMsg {
					r.ok("SIGNER-FRAME", cons0, P.Pos(cs.Pos()), "reachable from message handlers only through a named exception (dispute consequence / fee from the proposer's stake / RemoveSelector): "+PathTo(msgReach, TopFunc(cs.Fn)))
					continue
				}
			}
			out := map[string]bool{}
			tr.trace(Arg(cs.Instr, sp.arg), cs.Fn, nil, 0, map[ssa.Value]bool{}, out)
			var srcs, bad []string
			for s := range out {
				srcs = append(srcs, s)
			}
			sort.Strings(srcs)
			for _, s := range srcs {
				switch {
				case strings.HasPrefix(s, "msgfield:"):
					tf := strings.TrimPrefix(s, "msgfield:")
					i := strings.LastIndex(tf, ".")
					if signerOf[tf[:i]] != tf[i+1:] {
						bad = append(bad, s+" (signer field is "+signerOf[tf[:i]]+")")
					}
				case strings.HasPrefix(s, "exception:"), strings.HasPrefix(s, "hook:"), s == "const":
				case strings.HasPrefix(s, "entry:") && strings.Contains(s, "Genesis"):
				default:
					bad = append(bad, s)
				}
			}
			cons := fmt.Sprintf("%s # %s (%s)", FuncName(TopFunc(cs.Fn)), cs.Desc(), sp.what)
			if len(bad) > 0 {
				r.bad("SIGNER-FRAME", cons, P.Pos(cs.Pos()), fmt.Sprintf("the account at this sink can derive from something other than the message signer: %v ; all sources: %v", bad, srcs))
			} else {
				r.ok("SIGNER-FRAME", cons, P.Pos(cs.Pos()), fmt.Sprintf("sources: %v", srcs))
			}
		}
	}
}

// msgFieldWritesAfterRead lists the stores to a field path of a message parameter of fn that can be preceded
// by a load of the same path (or of an enclosing / enclosed path), other than the loads feeding the stored value.
// only: restrict to paths whose first component is this name ("" = all).
func msgFieldWritesAfterRead(P *Prog, fn *ssa.Function, only string) []string {
	pathOf := func(v ssa.Value) (ssa.Value, []string) {
		var path []string
		root := v
		for {
			f, ok := root.(*ssa.FieldAddr)
			if !ok {
				break
			}
			fname := fieldName(f.X.Type(), f.Field)
			path = append([]string{fname[strings.LastIndex(fname, ".")+1:]}, path...)
			root = f.X
		}
		return root, path
	}
	isMsgParam := func(root ssa.Value) bool {
		if _, ok := root.(*ssa.Parameter); !ok {
			return false
		}
		return strings.Contains(typeShort(root.Type()), "/types.Msg")
	}
	overlaps := func(a, b []string) bool {
		for i := 0; i < len(a) && i < len(b); i++ {
			if a[i] != b[i] {
				return false
			}
		}
		return true
	}
	type acc struct {
		in   ssa.Instruction
		root ssa.Value
		path []string
		blk  *ssa.BasicBlock
		idx  int
	}
	var loads, stores []acc
	for _, b := range fn.Blocks {
		for i, in := range b.Instrs {
			switch x := in.(type) {
			case *ssa.Store:
				if root, path := pathOf(x.Addr); len(path) > 0 && isMsgParam(root) {
					stores = append(stores, acc{in, root, path, b, i})
				}
			case *ssa.UnOp:
				if x.Op == token.MUL {
					if root, path := pathOf(x.X); len(path) > 0 && isMsgParam(root) {
						loads = append(loads, acc{in, root, path, b, i})
					}
				}
			}
		}
	}
	reach := func(from, to *ssa.BasicBlock) bool { // a path of at least one edge
		seen := map[*ssa.BasicBlock]bool{}
		work := append([]*ssa.BasicBlock{}, from.Succs...)
		for len(work) > 0 {
			b := work[len(work)-1]
			work = work[:len(work)-1]
			if seen[b] {
				continue
			}
			seen[b] = true
			if b == to {
				return true
			}
			work = append(work, b.Succs...)
		}
		return false
	}
	var out []string
	for _, st := range stores {
		if only != "" && st.path[0] != only {
			continue
		}
		feeds := map[ssa.Value]bool{}
		var walk func(v ssa.Value, d int)
		walk = func(v ssa.Value, d int) {
			if v == nil || feeds[v] || d > 12 {
				return
			}
			feeds[v] = true
			if in, ok := v.(ssa.Instruction); ok {
				for _, op := range in.Operands(nil) {
					if *op != nil {
						walk(*op, d+1)
					}
				}
			}
		}
		walk(st.in.(*ssa.Store).Val, 0)
		for _, ld := range loads {
			if ld.root != st.root || !overlaps(ld.path, st.path) || feeds[ld.in.(ssa.Value)] {
				continue
			}
			if (ld.blk == st.blk && ld.idx < st.idx) || reach(ld.blk, st.blk) {
				out = append(out, fmt.Sprintf("%s assigned at %s after the read at %s", strings.Join(st.path, "."), P.Pos(st.in.Pos()), P.Pos(ld.in.Pos())))
				break
			}
		}
	}
	return out
}
