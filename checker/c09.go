package main

// C09 — each reward is split exactly, non-negatively and in proportion to backing stake
// (formula shapes, credit-once, funding identity, eligibility; not the numeric exactness).

import (
	"fmt"
	"go/token"
	"go/types"
	"sort"
	"strings"

	"golang.org/x/tools/go/ssa"
)

func init() { register("C09", checkC09) }

// inLoop: b belongs to a natural loop of fn (some header dominates b and b reaches it again).
func inLoop(fn *ssa.Function, b *ssa.BasicBlock) bool {
	for _, h := range loopHeaders(fn) {
		if !h.Dominates(b) {
			continue
		}
		seen := map[*ssa.BasicBlock]bool{}
		var dfs func(x *ssa.BasicBlock) bool
		dfs = func(x *ssa.BasicBlock) bool {
			if x == h {
				return true
			}
			if seen[x] {
				return false
			}
			seen[x] = true
			for _, s := range x.Succs {
				if h.Dominates(s) && dfs(s) {
					return true
				}
			}
			return false
		}
		for _, s := range b.Succs {
			if h.Dominates(s) && dfs(s) {
				return true
			}
		}
	}
	return false
}

func checkC09(r *Result) {
	P := r.P
	r.Explanation = "Structural rules of the reward split, decided on SSA: a reporter's part is power x reports / total power x reward as an algebraic normal form, with the power and report count taken from the per-reporter table (power stored once from the report, count incremented by one per further aggregate) and the total being the loop-carried sum of every reporter's power over every rewarded aggregate; the last reporter additionally receives reward minus the running sum of all parts, so the parts add up to the reward; the coins moved into the tips escrow are exactly the reward, from the pool named by the caller, on every path that credited anything; inside a reporter each token origin is credited (net reward) x amount / total of the stake snapshot of the rewarded report, net reward = reward - reward x rate, and the commission reward x rate is credited once, to the reporter, outside the loop, on every success path where it is non-zero; credits are read-modify-write; the stake snapshot's total is the sum of its origins' amounts (built in lock-step); the time-based reward is the whole balance of the reward pool and goes only to aggregates whose first micro report carries the cycle-list flag, which submission sets from the query's cycle-list flag or for bridge deposits; the commission rate accepted at creation is non-negative and bounded by the unit the split uses."
	r.NotDecided = "numeric exactness to 10^-18 per credit, non-negativity of the last reporter's remainder when a reporter's power differs between two aggregates paid together, that a reporter paid for several aggregates is split by the snapshot of the first only"
	r.Assumptions = []string{"LegacyDec arithmetic rounds each operation to 18 decimals", "x/bank moves exactly the coins given", "a failed block-end hook is out of scope here (C02)"}
	r.rule("LIN-PART", "reporter part = power * reports / totalPower * reward; inputs come from the per-reporter table and the accumulated total")
	r.rule("TABLE", "per-reporter table: power stored once from the report, report count 1 then +1, nothing else written")
	r.rule("REMAINDER", "the last reporter's part is its own part + reward - (running sum of all parts)")
	r.rule("FUNDING", "exactly the reward is moved from the caller's pool into the tips escrow whenever parts were credited")
	r.rule("LIN-SPLIT", "origin credit = (reward - reward*rate) * amount / snapshot total, keyed by the origin's selector")
	r.rule("COMMISSION-ONCE", "reward*rate is credited exactly once per reward, to the reporter, outside the origin loop")
	r.rule("RMW-CREDIT", "a credit is added to the stored credit (absent = zero)")
	r.rule("SNAPSHOT-SUM", "the stake snapshot's total is the sum of the amounts of its origins")
	r.rule("TBR", "time-based rewards: whole pool balance, only to aggregates flagged cycle-list (cycle-list queries and bridge deposits)")
	r.rule("COMMISSION-BOUND", "a rate accepted at creation lies between zero and the unit the split multiplies by")

	need := func(name string) *ssa.Function {
		f := P.Func(name)
		if f == nil {
			r.broken("anchor %s does not resolve", name)
		} else {
			r.fn(name)
		}
		return f
	}
	tm := NewTermer()
	pos := func(p token.Pos) string { return P.Pos(p) }

	// ---------------- CalculateRewardAmount
	if cr := need("x/oracle/keeper.CalculateRewardAmount"); cr != nil {
		le := &linEval{Atomise: func(t *Term) string {
			switch {
			case strings.HasPrefix(t.Op, "param:0:"):
				return "power"
			case strings.HasPrefix(t.Op, "param:1:"):
				return "reports"
			case strings.HasPrefix(t.Op, "param:2:"):
				return "totalPower"
			case strings.HasPrefix(t.Op, "param:3:"):
				return "reward"
			}
			return ""
		}}
		for _, ret := range SuccessReturns(cr) {
			p := le.Eval(tm.Of(ResultOf(ret, 0)))
			// the reporter's part is (power/totalPower)*reward in today's code: the quotient's rounding (< 10^-18) is
			// scaled by the reward, and the payout loop hands reward - distributed to the last reporter (REMAINDER), so
			// the parts still sum to the reward exactly. The order of operations is therefore not part of this rule;
			// inside a reporter (LIN-SPLIT) there is no remainder step and the order is.
			r.check(p.plain() == "power^1 * reports^1 * reward^1 * totalPower^-1", "LIN-PART", "x/oracle/keeper.CalculateRewardAmount # power*reports/totalPower*reward", pos(ret.Pos()), p.String())
		}
	}
	// ---------------- AllocateRewards
	if ar := need("(x/oracle/keeper.Keeper).AllocateRewards"); ar != nil {
		var calc *ssa.Call
		for _, cs := range P.CallSitesIn(ar) {
			if cs.Callee == "x/oracle/keeper.CalculateRewardAmount" {
				if c, ok := cs.Instr.(*ssa.Call); ok {
					calc = c
				}
			}
		}
		if calc == nil {
			r.bad("LIN-PART", "(x/oracle/keeper.Keeper).AllocateRewards # calls CalculateRewardAmount", pos(ar.Pos()), "no call")
		} else {
			a0, a1, a3 := tm.Of(calc.Call.Args[0]), tm.Of(calc.Call.Args[1]), tm.Of(calc.Call.Args[3])
			r.check(strings.HasSuffix(a0.Op, "ReportersReportCount.Power") && strings.HasSuffix(a1.Op, "ReportersReportCount.Reports") && a3.Op == "param:3:cosmossdk.io/math.Int", "LIN-PART", "(x/oracle/keeper.Keeper).AllocateRewards # part computed from the table's power and report count and the reward", pos(calc.Pos()), a0.Brief()+" ; "+a1.Brief()+" ; "+a3.Brief())
			// total power: loop-carried uint64 sum of every reporter's power
			adds, bases, other := uintSumWeb(calc.Call.Args[2])
			okTot := len(other) == 0 && len(bases) == 1 && bases[0] == "0:uint64" && len(adds) == 1 && strings.HasSuffix(adds[0].Op, "AggregateReporter.Power")
			det := fmt.Sprintf("bases %v, addends %d, other %v", bases, len(adds), other)
			if len(adds) == 1 {
				det += " ; addend " + adds[0].Brief()
			}
			r.check(okTot, "LIN-PART", "(x/oracle/keeper.Keeper).AllocateRewards # totalPower = sum over all aggregates and reporters of the reporter's power", pos(calc.Pos()), det)
			// the addend is added once per reporter of every aggregate: every iteration of the loop around it passes it
			var addInstr *ssa.BinOp
			for _, b := range ar.Blocks {
				for _, in := range b.Instrs {
					if bo, ok := in.(*ssa.BinOp); ok && bo.Op == token.ADD && strings.HasSuffix(tm.Of(bo.Y).Op, "AggregateReporter.Power") {
						addInstr = bo
					}
				}
			}
			okEvery, why := false, "no addition of the reporter's power found"
			if addInstr != nil {
				okEvery, why = iterationOfInnermostLoopPasses(ar, addInstr)
			}
			r.check(okEvery, "LIN-PART", "(x/oracle/keeper.Keeper).AllocateRewards # every reporter of every aggregate adds its power to totalPower", pos(calc.Pos()), why)
			// ... and writes its table entry back (the table maps to struct values: an update made on the
			// looked-up copy is lost unless the entry is stored again)
			okBack, whyBack := false, "no addition of the reporter's power found"
			if addInstr != nil {
				if h := innermostLoopHeader(ar, addInstr.Block()); h != nil {
					okBack, whyBack = iterationPasses(ar, h, func(in ssa.Instruction) bool {
						mu, ok := in.(*ssa.MapUpdate)
						return ok && strings.Contains(mu.Map.Type().String(), "ReportersReportCount") && strings.HasSuffix(tm.Of(mu.Key).Op, "AggregateReporter.Reporter")
					})
				}
			}
			r.check(okBack, "TABLE", "(x/oracle/keeper.Keeper).AllocateRewards # every reporter of every aggregate stores its table entry under its address", pos(calc.Pos()), whyBack)
			// every entry of the table is credited: each iteration of the payout loop passes AllocateTip
			okPay, whyPay := false, "no payout loop found"
			for _, cs := range P.CallSitesIn(ar) {
				if cs.Callee == "(x/oracle/keeper.Keeper).AllocateTip" {
					if h := innermostLoopHeader(ar, cs.Instr.Block()); h != nil {
						okPay, whyPay = iterationPasses(ar, h, func(in ssa.Instruction) bool {
							c, ok := in.(ssa.CallInstruction)
							if !ok {
								return false
							}
							s := P.siteOf(c)
							return s != nil && s.Callee == "(x/oracle/keeper.Keeper).AllocateTip"
						})
					}
				}
			}
			r.check(okPay, "REMAINDER", "(x/oracle/keeper.Keeper).AllocateRewards # every reporter of the table is credited its part (no iteration of the payout loop skips AllocateTip)", pos(calc.Pos()), whyPay)
		}
		// TABLE: stores into ReportersReportCount fields
		stores := map[string][]string{}
		for _, b := range ar.Blocks {
			for _, in := range b.Instrs {
				if st, ok := in.(*ssa.Store); ok {
					if fa, ok := st.Addr.(*ssa.FieldAddr); ok {
						fname := fieldName(fa.X.Type(), fa.Field)
						if strings.Contains(fname, "ReportersReportCount.") {
							stores[fname] = append(stores[fname], tm.Of(st.Val).Brief())
						}
					}
				}
			}
		}
		var keys []string
		for k := range stores {
			sort.Strings(stores[k])
			keys = append(keys, k)
		}
		sort.Strings(keys)
		for _, k := range keys {
			v := stores[k]
			f := k[strings.LastIndex(k, ".")+1:]
			ok := false
			switch f {
			case "Power":
				ok = len(v) == 1 && strings.HasSuffix(v[0], "AggregateReporter.Power")
			case "Reports":
				ok = len(v) == 2 && ((v[0] == "1" && strings.Contains(v[1], "ReportersReportCount.Reports") && strings.Contains(v[1], "1")) || (v[1] == "1" && strings.Contains(v[0], "ReportersReportCount.Reports")))
			case "Height":
				ok = len(v) == 1 && strings.HasSuffix(v[0], "AggregateReporter.BlockNumber")
			case "queryId":
				ok = len(v) == 1 && strings.HasSuffix(v[0], "Aggregate.QueryId")
			}
			r.check(ok, "TABLE", "(x/oracle/keeper.Keeper).AllocateRewards # writes of "+f, pos(ar.Pos()), fmt.Sprint(v))
		}
		r.check(len(keys) == 4, "TABLE", "(x/oracle/keeper.Keeper).AllocateRewards # four table fields written", pos(ar.Pos()), fmt.Sprint(keys))
		// REMAINDER + credit
		for _, cs := range P.CallSitesIn(ar) {
			if cs.Callee != "(x/oracle/keeper.Keeper).AllocateTip" {
				continue
			}
			amt := Arg(cs.Instr, 3)
			ok, det := false, ""
			if ph, isPhi := amt.(*ssa.Phi); isPhi && len(ph.Edges) == 2 && calc != nil {
				var other ssa.Value
				plain := false
				for _, e := range ph.Edges {
					if e == ssa.Value(calc) {
						plain = true
					} else {
						other = e
					}
				}
				if c, isCall := other.(*ssa.Call); plain && isCall && CalleeName(c.Common()) == "(cosmossdk.io/math.LegacyDec).Add" && c.Call.Args[0] == ssa.Value(calc) {
					if sub, isSub := c.Call.Args[1].(*ssa.Call); isSub && CalleeName(sub.Common()) == "(cosmossdk.io/math.LegacyDec).Sub" {
						rew := linOf(sub.Call.Args[0]).String()
						adds, bases := decSumWeb(sub.Call.Args[1])
						allCalc := len(adds) == 1 && adds[0] == ssa.Value(calc)
						ok = rew == "param:3:cosmossdk.io/math.Int^1" && allCalc && len(bases) == 1 && bases[0].Op == "call:cosmossdk.io/math.LegacyZeroDec"
						det = fmt.Sprintf("minuend %s ; running sum: bases %d, addends %d (the part itself: %v)", rew, len(bases), len(adds), allCalc)
					}
				}
				// the edge with the remainder is taken when index == len-1: the block computing the remainder is
				// entered on the true edge of `i == len(list) - 1`
				if oc, isCall := other.(*ssa.Call); isCall && ok {
					condOK := false
					for _, p := range oc.Block().Preds {
						iff, isIf := p.Instrs[len(p.Instrs)-1].(*ssa.If)
						if !isIf {
							continue
						}
						rel, pol := Cond(tm.Of(iff.Cond))
						onTrue := p.Succs[0] == oc.Block()
						if rel.Op == "==" && len(rel.Args) == 2 && onTrue == pol {
							for _, pair := range [][2]*Term{{rel.Args[0], rel.Args[1]}, {rel.Args[1], rel.Args[0]}} {
								idx, lim := pair[0], pair[1]
								if (idx.Op == "phi" || idx.Op == "+") && lim.Op == "-" && len(lim.Args) == 2 && lim.Args[0].Op == "call:builtin:len" && lim.Args[1].Op == "const:1" {
									condOK = true
								}
							}
						}
					}
					if !condOK {
						ok = false
						det += " ; the remainder is not added exactly under index == len - 1"
					}
				}
			}
			r.check(ok, "REMAINDER", "(x/oracle/keeper.Keeper).AllocateRewards # last part = part + reward - sum of parts", pos(cs.Pos()), det)
			a1, a2, a4 := tm.Of(Arg(cs.Instr, 1)), tm.Of(Arg(cs.Instr, 2)), tm.Of(Arg(cs.Instr, 4))
			r.check(a1.Contains("AccAddressFromBech32") && a1.Contains("ReporterInfo.address") && strings.HasSuffix(a2.Op, "ReportersReportCount.queryId") && strings.HasSuffix(a4.Op, "ReportersReportCount.Height"), "LIN-PART", "(x/oracle/keeper.Keeper).AllocateRewards # the part is credited to its reporter under the recorded query id and height", pos(cs.Pos()), a1.Brief()+" ; "+a2.Brief()+" ; "+a4.Brief())
		}
		// FUNDING
		ps := AnalyzePaths(ar, []Atom{
			{Name: "zero", Cond: func(rel *Term) (bool, bool) {
				return rel.Op == "==" && len(rel.Args) == 2 && rel.Args[0].Op == "param:3:cosmossdk.io/math.Int" && rel.Args[1].Op == "const:0", true
			}},
			{Name: "moved", Event: P.CallEvent(func(c *CallSite) bool { return isBankCall(c, "SendCoinsFromModuleToModule") }, T)},
		})
		nSend := 0
		for _, cs := range P.CallSitesIn(ar) {
			if isBankCall(cs, "SendCoinsFromModuleToModule") {
				nSend++
				from, to, amt := tm.Of(Arg(cs.Instr, 1)), tm.Of(Arg(cs.Instr, 2)), coinsAmount(Arg(cs.Instr, 3)).String()
				r.check(from.Op == "param:4:string" && to.Op == "const:tips_escrow_pool" && amt == "param:3:cosmossdk.io/math.Int^1", "FUNDING", "(x/oracle/keeper.Keeper).AllocateRewards # moves exactly the reward from the caller's pool to the tips escrow", pos(cs.Pos()), from.Brief()+" -> "+to.Brief()+" : "+amt)
			}
		}
		okF := nSend == 1
		for _, ret := range SuccessReturns(ar) {
			if bad := ps.Require(ret, func(v map[string]bool) bool { return v["moved"] || v["zero"] }); len(bad) > 0 {
				okF = false
			}
		}
		r.check(okF, "FUNDING", "(x/oracle/keeper.Keeper).AllocateRewards # every success path moved the reward or had a zero reward", pos(ar.Pos()), fmt.Sprintf("%d transfer sites", nSend))
		if at := need("(x/oracle/keeper.Keeper).AllocateTip"); at != nil {
			n := 0
			for _, cs := range P.CallSitesIn(at) {
				if strings.HasSuffix(cs.Callee, "ReporterKeeper.DivvyingTips") {
					n++
					ok := true
					for i, want := range map[int]string{1: "param:2:", 2: "param:4:", 3: "param:3:", 4: "param:5:"} {
						if !strings.HasPrefix(tm.Of(Arg(cs.Instr, i)).Op, want) {
							ok = false
						}
					}
					r.check(ok, "LIN-PART", "(x/oracle/keeper.Keeper).AllocateTip # forwards reporter, amount, query id and height unchanged", pos(cs.Pos()), "")
				}
			}
			r.check(n == 1, "LIN-PART", "(x/oracle/keeper.Keeper).AllocateTip # one forwarding call", pos(at.Pos()), fmt.Sprint(n))
		}
	}
	// ---------------- DivvyingTips
	rateAtomCoef := ""
	if dv := need("(x/reporter/keeper.Keeper).DivvyingTips"); dv != nil {
		le := &linEval{Atomise: func(t *Term) string {
			switch {
			case strings.HasPrefix(t.Op, "param:3:"):
				return "R"
			case strings.HasSuffix(t.Op, "OracleReporter.CommissionRate"):
				return "rate"
			case strings.HasSuffix(t.Op, "TokenOriginInfo.Amount"):
				return "amount"
			case strings.HasSuffix(t.Op, "DelegationsAmounts.Total"):
				return "total"
			}
			return ""
		}}
		var commissionCalls, shareCalls []*CallSite
		for _, cs := range P.CallSitesIn(dv) {
			if cs.Callee != "(x/reporter/keeper.Keeper).addSelectorTips" {
				continue
			}
			p := le.Eval(tm.Of(Arg(cs.Instr, 2))).String()
			key := tm.Of(Arg(cs.Instr, 1))
			switch {
			case p == "R^1 * rate^1" || p == "1/100 * R^1 * rate^1":
				commissionCalls = append(commissionCalls, cs)
				rateAtomCoef = strings.TrimSuffix(p, "R^1 * rate^1")
				okKey := key.Op == "call:(github.com/cosmos/cosmos-sdk/types.AccAddress).Bytes" && len(key.Args) == 1 && strings.HasPrefix(key.Args[0].Op, "param:2:")
				r.check(okKey && !inLoop(dv, cs.Instr.Block()), "COMMISSION-ONCE", "(x/reporter/keeper.Keeper).DivvyingTips # commission credited to the reporter, outside any loop", pos(cs.Pos()), "key "+key.Brief()+fmt.Sprintf(" ; in loop: %v", inLoop(dv, cs.Instr.Block())))
			default:
				shareCalls = append(shareCalls, cs)
				want1 := "-1 * R^1 * amount^1 * rate^1 * total^-1 + R^1 * amount^1 * total^-1"
				want2 := "-1/100 * R^1 * amount^1 * rate^1 * total^-1 + R^1 * amount^1 * total^-1"
				okKey := strings.HasSuffix(key.Op, "TokenOriginInfo.DelegatorAddress")
				r.check((p == want1 || p == want2) && okKey && inLoop(dv, cs.Instr.Block()), "LIN-SPLIT", "(x/reporter/keeper.Keeper).DivvyingTips # origin credit = (reward - commission) * amount / total, to the origin's selector", pos(cs.Pos()), p+" ; key "+key.Brief())
			}
		}
		r.check(len(commissionCalls) == 1, "COMMISSION-ONCE", "(x/reporter/keeper.Keeper).DivvyingTips # exactly one site credits the commission", pos(dv.Pos()), fmt.Sprintf("%d sites credit reward*rate, %d sites credit origin shares", len(commissionCalls), len(shareCalls)))
		r.check(len(shareCalls) == 1, "LIN-SPLIT", "(x/reporter/keeper.Keeper).DivvyingTips # exactly one site credits origin shares", pos(dv.Pos()), fmt.Sprint(len(shareCalls)))
		if len(commissionCalls) == 1 {
			cc := commissionCalls[0]
			ps := AnalyzePaths(dv, []Atom{
				{Name: "zero", Cond: func(rel *Term) (bool, bool) {
					if rel.Op != "==" || len(rel.Args) != 2 || rel.Args[1].Op != "const:0" {
						return false, true
					}
					p := le.Eval(rel.Args[0]).String()
					return strings.HasSuffix(p, "R^1 * rate^1"), true
				}},
				{Name: "credited", Event: func(in ssa.Instruction) (bool, int8) {
					if in == cc.Instr {
						return true, T
					}
					return false, U
				}},
			})
			ok := true
			for _, ret := range SuccessReturns(dv) {
				if bad := ps.Require(ret, func(v map[string]bool) bool { return v["credited"] || v["zero"] }); len(bad) > 0 {
					ok = false
				}
			}
			r.check(ok, "COMMISSION-ONCE", "(x/reporter/keeper.Keeper).DivvyingTips # every success path credited the commission or it was zero", pos(dv.Pos()), "")
		}
		if len(shareCalls) == 1 {
			sc := shareCalls[0]
			n, prob := everyIterationPassesInstr(dv, func(in ssa.Instruction) bool { return in == sc.Instr })
			r.check(n == 1 && prob == "", "LIN-SPLIT", "(x/reporter/keeper.Keeper).DivvyingTips # every origin of the snapshot is credited", pos(sc.Pos()), fmt.Sprintf("%d loops ; %s", n, prob))
		}
		// snapshot key: the weights are read from the stake snapshot of exactly the rewarded report
		nSnap := 0
		for _, cs := range P.Sites(descIs("coll:x/reporter/keeper.Keeper.Report.Get")) {
			if TopFunc(cs.Fn) == dv {
				nSnap++
			}
		}
		r.check(nSnap == 1, "LIN-SPLIT", "(x/reporter/keeper.Keeper).DivvyingTips # one read of the report's stake snapshot", pos(dv.Pos()), fmt.Sprintf("%d Report.Get sites (a look-up by reporter and height alone can return another report's snapshot)", nSnap))
		for _, sc := range shareCalls {
			t := tm.Of(Arg(sc.Instr, 2))
			rooted := true
			n := 0
			var bad []string
			t.Walk(func(x *Term) bool {
				if strings.HasSuffix(x.Op, "TokenOriginInfo.Amount") || strings.HasSuffix(x.Op, "DelegationsAmounts.Total") || strings.HasSuffix(x.Op, "DelegationsAmounts.TokenOrigins") {
					n++
					isSnap := x.Find(func(y *Term) bool { return y.Op == "field:x/reporter/keeper.Keeper.Report" }) != nil && x.Find(func(y *Term) bool { return strings.HasSuffix(y.Op, "IndexedMap).Get") }) != nil
					if !isSnap {
						rooted = false
						bad = append(bad, clip(x.String(), 300))
					}
				}
				return true
			})
			r.check(rooted && n >= 2, "LIN-SPLIT", "(x/reporter/keeper.Keeper).DivvyingTips # amount and total are fields of the snapshot read with Report.Get", pos(sc.Pos()), fmt.Sprintf("%d snapshot fields in the credited amount, all rooted at the Report.Get result: %v %v", n, rooted, bad))
		}
		for _, cs := range P.Sites(descIs("coll:x/reporter/keeper.Keeper.Report.Get")) {
			if TopFunc(cs.Fn) != dv {
				continue
			}
			k := tm.Of(Arg(cs.Instr, 1))
			var ps []string
			k.Walk(func(t *Term) bool {
				if strings.HasPrefix(t.Op, "param:") {
					ps = append(ps, t.Op[:7])
				}
				return true
			})
			sort.Strings(ps)
			r.check(fmt.Sprint(ps) == "[param:2 param:4 param:5]", "LIN-SPLIT", "(x/reporter/keeper.Keeper).DivvyingTips # snapshot read under (query id, reporter, height) of the rewarded report", pos(cs.Pos()), fmt.Sprint(ps))
		}
	}
	if ast := need("(x/reporter/keeper.Keeper).addSelectorTips"); ast != nil {
		n := 0
		for _, cs := range P.Sites(descIs("coll:x/reporter/keeper.Keeper.SelectorTips.Set")) {
			if TopFunc(cs.Fn) != ast {
				continue
			}
			n++
			k, v := tm.Of(Arg(cs.Instr, 1)), tm.Of(Arg(cs.Instr, 2))
			ok := strings.HasPrefix(k.Op, "param:2:") && v.Op == "call:(cosmossdk.io/math.LegacyDec).Add" && len(v.Args) == 2 && strings.HasPrefix(v.Args[1].Op, "param:3:") && v.Args[0].Op == "phi" && v.Args[0].Contains("Keeper.SelectorTips") && v.Args[0].Contains("collections.Map).Get") && v.Args[0].Contains("LegacyZeroDec") && getKeyIsParam(v.Args[0])
			r.check(ok, "RMW-CREDIT", "(x/reporter/keeper.Keeper).addSelectorTips # stores previous credit (or zero) + amount under the same key", pos(cs.Pos()), clip(v.String(), 200))
		}
		r.check(n == 1, "RMW-CREDIT", "(x/reporter/keeper.Keeper).addSelectorTips # one store", pos(ast.Pos()), fmt.Sprint(n))
	}
	// writers of SelectorTips
	{
		allowed := map[string]bool{"(x/reporter/keeper.Keeper).addSelectorTips": true, "(x/reporter/keeper.msgServer).WithdrawTip": true, "(x/reporter/keeper.Keeper).InitGenesis": true, "x/reporter/module.InitGenesis": true}
		for _, cs := range P.Sites(func(c *CallSite) bool {
			return c.Desc() == "coll:x/reporter/keeper.Keeper.SelectorTips.Set" || c.Desc() == "coll:x/reporter/keeper.Keeper.SelectorTips.Remove"
		}) {
			fn := FuncName(TopFunc(cs.Fn))
			r.check(allowed[fn], "RMW-CREDIT", "writer of SelectorTips: "+fn, pos(cs.Pos()), cs.Desc())
		}
	}
	// ---------------- SNAPSHOT-SUM
	if rs := need("(x/reporter/keeper.Keeper).ReporterStake"); rs != nil {
		nApp := 0
		for _, fn := range withClosures(rs) {
			for _, b := range fn.Blocks {
				var appendAmounts []ssa.Value
				var added []ssa.Value
				for _, in := range b.Instrs {
					switch x := in.(type) {
					case *ssa.Call:
						if bi, ok := x.Call.Value.(*ssa.Builtin); ok && bi.Name() == "append" && strings.Contains(x.Type().String(), "TokenOriginInfo") {
							for _, el := range variadicElemValues(x.Call.Args[1]) {
								al, ok := stripIface(el).(*ssa.Alloc)
								if !ok {
									appendAmounts = append(appendAmounts, nil)
									continue
								}
								st, ok := al.Type().(*types.Pointer).Elem().Underlying().(*types.Struct)
								if !ok {
									appendAmounts = append(appendAmounts, nil)
									continue
								}
								for i := 0; i < st.NumFields(); i++ {
									if st.Field(i).Name() == "Amount" {
										appendAmounts = append(appendAmounts, singleFieldStore(al, i))
									}
								}
							}
						}
						if CalleeName(x.Common()) == "(cosmossdk.io/math.Int).Add" && len(x.Call.Args) == 2 {
							for _, ref := range *x.Referrers() {
								if st, ok := ref.(*ssa.Store); ok && isTotalTokens(st.Addr) {
									if ld, ok := x.Call.Args[0].(*ssa.UnOp); ok && isTotalTokens(ld.X) {
										added = append(added, x.Call.Args[1])
									}
								}
							}
						}
					}
				}
				for _, a := range appendAmounts {
					nApp++
					match := false
					for _, d := range added {
						if d == a {
							match = true
						}
					}
					r.check(match, "SNAPSHOT-SUM", "(x/reporter/keeper.Keeper).ReporterStake # every origin appended adds its amount to the total in the same block", pos(b.Instrs[0].Pos()), fmt.Sprintf("%s: appended amounts %d, added %d", fn.Name(), len(appendAmounts), len(added)))
				}
				if len(added) > len(appendAmounts) {
					r.bad("SNAPSHOT-SUM", "(x/reporter/keeper.Keeper).ReporterStake # nothing is added to the total without an origin", pos(b.Instrs[0].Pos()), fn.Name())
				}
			}
		}
		r.check(nApp == 2, "SNAPSHOT-SUM", "(x/reporter/keeper.Keeper).ReporterStake # two origin append sites", pos(rs.Pos()), fmt.Sprint(nApp))
		for _, cs := range P.Sites(descIs("coll:x/reporter/keeper.Keeper.Report.Set")) {
			if TopFunc(cs.Fn) != rs {
				continue
			}
			okSnap, det := false, ""
			if al, ok := stripIface(Arg(cs.Instr, 2)).(*ssa.Alloc); ok {
				if st, ok := al.Type().(*types.Pointer).Elem().Underlying().(*types.Struct); ok {
					got := map[string]string{}
					for i := 0; i < st.NumFields(); i++ {
						if v := singleFieldStore(al, i); v != nil {
							if ld, ok := v.(*ssa.UnOp); ok {
								if a, ok := ld.X.(*ssa.Alloc); ok {
									got[st.Field(i).Name()] = a.Comment
								}
							}
						}
					}
					okSnap = got["TokenOrigins"] == "delegates" && got["Total"] == "totalTokens"
					det = fmt.Sprint(got)
				}
			} else if ld, ok := Arg(cs.Instr, 2).(*ssa.UnOp); ok {
				if al, ok := ld.X.(*ssa.Alloc); ok {
					if st, ok := al.Type().(*types.Pointer).Elem().Underlying().(*types.Struct); ok {
						got := map[string]string{}
						for i := 0; i < st.NumFields(); i++ {
							if v := singleFieldStore(al, i); v != nil {
								if l2, ok := v.(*ssa.UnOp); ok {
									if a, ok := l2.X.(*ssa.Alloc); ok {
										got[st.Field(i).Name()] = a.Comment
									}
								}
							}
						}
						okSnap = got["TokenOrigins"] == "delegates" && got["Total"] == "totalTokens"
						det = fmt.Sprint(got)
					}
				}
			}
			r.check(okSnap, "SNAPSHOT-SUM", "(x/reporter/keeper.Keeper).ReporterStake # snapshot stores the collected origins and their running total", pos(cs.Pos()), det)
		}
	}
	// ---------------- TBR
	var tbrFn *ssa.Function
	for _, cs := range P.Sites(func(c *CallSite) bool { return c.Callee == "(x/oracle/keeper.Keeper).AllocateRewards" }) {
		fn := TopFunc(cs.Fn)
		from := tm.Of(Arg(cs.Instr, 3))
		rew := tm.Of(Arg(cs.Instr, 2))
		switch from.Op {
		case "const:time_based_rewards":
			tbrFn = fn
			r.fn(FuncName(fn))
			r.check(rew.Op == "call:(x/oracle/keeper.Keeper).GetTimeBasedRewards", "TBR", FuncName(fn)+" # the time-based reward paid is the pool balance read in this block", pos(cs.Pos()), rew.Brief())
			// the list: every append into it is under the cycle-list flag of the aggregated reports
			ps := AnalyzePaths(fn, []Atom{{Name: "flag", Cond: func(rel *Term) (bool, bool) {
				return strings.HasSuffix(rel.Op, "MicroReport.Cyclelist"), true
			}}})
			nApp := 0
			var walk func(v ssa.Value, seen map[ssa.Value]bool)
			walk = func(v ssa.Value, seen map[ssa.Value]bool) {
				if seen[v] {
					return
				}
				seen[v] = true
				switch x := v.(type) {
				case *ssa.Phi:
					for _, e := range x.Edges {
						walk(e, seen)
					}
				case *ssa.Call:
					if bi, ok := x.Call.Value.(*ssa.Builtin); ok && bi.Name() == "append" {
						nApp++
						bad := ps.Require(x, func(v map[string]bool) bool { return v["flag"] })
						els := variadicElems(x.Call.Args[1])
						okEl := len(els) == 1 && els[0].Contains("aggrFunc") || len(els) == 1 && strings.Contains(els[0].String(), "Weighted")
						r.check(len(bad) == 0 && len(ps.Matched["flag"]) > 0, "TBR", FuncName(fn)+" # an aggregate joins the time-based reward list only under the cycle-list flag of its reports", pos(x.Pos()), fmt.Sprintf("states %v ; element is this round's aggregate: %v", statesStr(ps, x), okEl))
						walk(x.Call.Args[0], seen)
					}
				}
			}
			walk(Arg(cs.Instr, 1), map[ssa.Value]bool{})
			r.check(nApp == 1, "TBR", FuncName(fn)+" # one site adds to the time-based reward list", pos(cs.Pos()), fmt.Sprint(nApp))
		case "const:oracle":
			r.check(strings.HasSuffix(rew.Op, "QueryMeta.Amount"), "FUNDING", FuncName(fn)+" # a tip payout pays the query's recorded tip from the oracle account", pos(cs.Pos()), rew.Brief())
		default:
			r.bad("FUNDING", FuncName(fn)+" # AllocateRewards called with an unknown pool", pos(cs.Pos()), from.Brief())
		}
	}
	r.check(tbrFn != nil, "TBR", "a time-based reward payout site exists", "-", "")
	if g := need("(x/oracle/keeper.Keeper).GetTimeBasedRewards"); g != nil {
		for _, ret := range SuccessReturns(g) {
			v := tm.Of(ResultOf(ret, 0))
			r.check(strings.HasSuffix(v.Op, "Coin.Amount") && v.Contains("GetBalance") && v.Contains("GetTimeBasedRewardsAccount"), "TBR", "(x/oracle/keeper.Keeper).GetTimeBasedRewards # the whole balance of the reward pool account", pos(ret.Pos()), clip(v.String(), 200))
		}
	}
	if g := need("(x/oracle/keeper.Keeper).GetTimeBasedRewardsAccount"); g != nil {
		for _, ret := range SuccessReturns(g) {
			v := tm.Of(ResultOf(ret, 0))
			r.check(v.Contains("GetModuleAccount") && v.Contains("const:time_based_rewards"), "TBR", "(x/oracle/keeper.Keeper).GetTimeBasedRewardsAccount # the time_based_rewards module account", pos(ret.Pos()), clip(v.String(), 160))
		}
	}
	// the flag: SetValue's incycle argument
	nSV := 0
	for _, cs := range P.Sites(func(c *CallSite) bool { return c.Callee == "(x/oracle/keeper.Keeper).SetValue" }) {
		nSV++
		fn := FuncName(TopFunc(cs.Fn))
		a := tm.Of(cs.Instr.Common().Args[len(cs.Instr.Common().Args)-1])
		ok := strings.HasSuffix(a.Op, "QueryMeta.CycleList") || (a.Op == "const:true" && fn == "(x/oracle/keeper.Keeper).HandleBridgeDepositDirectReveal")
		r.check(ok, "TBR", fn+" # a report is flagged cycle-list from its query's flag, or for a bridge deposit", pos(cs.Pos()), a.Brief())
	}
	r.check(nSV >= 2, "TBR", "SetValue call sites", "-", fmt.Sprint(nSV))
	if sv := need("(x/oracle/keeper.Keeper).SetValue"); sv != nil {
		n := 0
		for _, b := range sv.Blocks {
			for _, in := range b.Instrs {
				if st, ok := in.(*ssa.Store); ok {
					if fa, ok := st.Addr.(*ssa.FieldAddr); ok && fieldName(fa.X.Type(), fa.Field) == "x/oracle/types.MicroReport.Cyclelist" {
						n++
						v := tm.Of(st.Val)
						r.check(strings.HasPrefix(v.Op, "param:") && strings.HasSuffix(v.Op, ":bool"), "TBR", "(x/oracle/keeper.Keeper).SetValue # the stored flag is the argument", pos(st.Pos()), v.Brief())
					}
				}
			}
		}
		r.check(n == 1, "TBR", "(x/oracle/keeper.Keeper).SetValue # one store of the flag", pos(sv.Pos()), fmt.Sprint(n))
	}
	// ---------------- COMMISSION-BOUND
	if cr := need("(x/reporter/keeper.msgServer).CreateReporter"); cr != nil {
		unit := "1"
		if rateAtomCoef == "1/100 * " {
			unit = "100"
		}
		ps := AnalyzePaths(cr, []Atom{
			{Name: "neg", Cond: func(rel *Term) (bool, bool) {
				return rel.Op == "<" && len(rel.Args) == 2 && rel.Args[1].Op == "const:0" && strings.HasSuffix(rel.Args[0].Op, "MsgCreateReporter.CommissionRate"), true
			}},
		})
		var bound string
		var gt *ssa.Call
		for _, b := range cr.Blocks {
			for _, in := range b.Instrs {
				if c, ok := in.(*ssa.Call); ok && (CalleeName(c.Common()) == "(cosmossdk.io/math.LegacyDec).GT" || CalleeName(c.Common()) == "(cosmossdk.io/math.LegacyDec).GTE") && strings.HasSuffix(tm.Of(c.Call.Args[0]).Op, "MsgCreateReporter.CommissionRate") {
					gt = c
					p := linOf(c.Call.Args[1])
					if cv, ok := p.Const(); ok {
						bound = cv.RatString()
					} else {
						bound = p.String()
					}
				}
			}
		}
		for _, cs := range P.Sites(descIs("coll:x/reporter/keeper.Keeper.Reporters.Set")) {
			if TopFunc(cs.Fn) != cr {
				continue
			}
			bad := ps.Require(cs.Instr, func(v map[string]bool) bool { return !v["neg"] })
			r.check(len(bad) == 0 && len(ps.Matched["neg"]) > 0, "COMMISSION-BOUND", "(x/reporter/keeper.msgServer).CreateReporter # a negative rate is rejected before the reporter is stored", pos(cs.Pos()), fmt.Sprint(statesStr(ps, cs.Instr)))
			okDom := gt != nil && gt.Block().Dominates(cs.Instr.Block())
			r.check(okDom && bound == unit, "COMMISSION-BOUND", "(x/reporter/keeper.msgServer).CreateReporter # upper bound of the accepted rate = the unit the split multiplies by", pos(cs.Pos()), fmt.Sprintf("accepted up to %s ; DivvyingTips computes commission = reward * rate%s, so a full commission is rate %s", bound, map[string]string{"1": "", "100": " / 100"}[unit], unit))
			v := tm.Of(Arg(cs.Instr, 2))
			r.check(v.Contains("MsgCreateReporter.CommissionRate"), "COMMISSION-BOUND", "(x/reporter/keeper.msgServer).CreateReporter # the checked rate is the stored rate", pos(cs.Pos()), clip(v.String(), 140))
		}
		// other writers of the rate
		for _, cs := range P.Sites(descIs("coll:x/reporter/keeper.Keeper.Reporters.Set")) {
			fn := FuncName(TopFunc(cs.Fn))
			if TopFunc(cs.Fn) == cr {
				continue
			}
			v := tm.Of(Arg(cs.Instr, 2))
			isGet := func(t *Term) bool { return t.Contains("Keeper.Reporters") && t.Contains("collections.Map).Get") }
			rmw := isGet(v) || strings.Contains(fn, "InitGenesis")
			if !rmw && strings.HasPrefix(v.Op, "param:") {
				// the record is handed in: every caller passes a stored record
				var idx int
				fmt.Sscanf(v.Op, "param:%d:", &idx)
				callee := TopFunc(cs.Fn)
				n := 0
				rmw = true
				for _, c2 := range P.Sites(func(c *CallSite) bool { return c.Callee == FuncName(callee) }) {
					n++
					if a := Arg(c2.Instr, idx-1); a == nil || !isGet(tm.Of(a)) {
						rmw = false
					}
				}
				rmw = rmw && n > 0
			}
			r.check(rmw, "COMMISSION-BOUND", fn+" # other writers of the reporter record rewrite a stored record (rate unchanged) or are genesis", pos(cs.Pos()), clip(v.Brief(), 120))
		}
	}
	r.minCount("LIN-PART", 6)
	r.minCount("TABLE", 5)
	r.minCount("REMAINDER", 1)
	r.minCount("FUNDING", 3)
	r.minCount("LIN-SPLIT", 6)
	r.minCount("COMMISSION-ONCE", 3)
	r.minCount("RMW-CREDIT", 3)
	r.minCount("SNAPSHOT-SUM", 4)
	r.minCount("TBR", 8)
	r.minCount("COMMISSION-BOUND", 3)
}

// uintSumWeb resolves a uint64 built from phis and `web + X` additions.
func uintSumWeb(v ssa.Value) (addends []*Term, bases []string, other []string) {
	tm := NewTermer()
	seen := map[ssa.Value]bool{}
	var walk func(x ssa.Value)
	walk = func(x ssa.Value) {
		if seen[x] {
			return
		}
		seen[x] = true
		switch y := x.(type) {
		case *ssa.Phi:
			for _, e := range y.Edges {
				walk(e)
			}
		case *ssa.BinOp:
			if y.Op == token.ADD {
				walk(y.X)
				addends = append(addends, tm.Of(y.Y))
			} else {
				other = append(other, y.String())
			}
		case *ssa.Const:
			bases = append(bases, y.String())
		default:
			other = append(other, tm.Of(x).Brief())
		}
	}
	walk(v)
	// identical addend values are one addend
	uniq := map[string]*Term{}
	for _, a := range addends {
		uniq[a.String()] = a
	}
	addends = nil
	for _, a := range uniq {
		addends = append(addends, a)
	}
	return
}

// decSumWeb resolves a LegacyDec running sum: phis and Add calls on itself.
func decSumWeb(v ssa.Value) (addends []ssa.Value, bases []*Term) {
	tm := NewTermer()
	seen := map[ssa.Value]bool{}
	var walk func(x ssa.Value)
	walk = func(x ssa.Value) {
		if seen[x] {
			return
		}
		seen[x] = true
		switch y := x.(type) {
		case *ssa.Phi:
			for _, e := range y.Edges {
				walk(e)
			}
			return
		case *ssa.Call:
			if CalleeName(y.Common()) == "(cosmossdk.io/math.LegacyDec).Add" && len(y.Call.Args) == 2 {
				walk(y.Call.Args[0])
				addends = append(addends, y.Call.Args[1])
				return
			}
		}
		bases = append(bases, tm.Of(x))
	}
	walk(v)
	return
}

func isTotalTokens(addr ssa.Value) bool {
	switch a := addr.(type) {
	case *ssa.FreeVar:
		return a.Name() == "totalTokens"
	case *ssa.Alloc:
		return a.Comment == "totalTokens"
	}
	return false
}

// getKeyIsParam: the Get inside the phi reads under the function's key parameter.
func getKeyIsParam(t *Term) bool {
	g := t.Find(func(x *Term) bool { return x.Op == "call:(cosmossdk.io/collections.Map).Get" })
	return g != nil && len(g.Args) == 3 && strings.HasPrefix(g.Args[2].Op, "param:2:")
}

// iterationOfInnermostLoopPasses: every path from the header of the innermost loop around `in`
// back to that header passes `in`.
func iterationOfInnermostLoopPasses(fn *ssa.Function, in ssa.Instruction) (bool, string) {
	var h *ssa.BasicBlock
	for _, c := range loopHeaders(fn) {
		if c.Dominates(in.Block()) && (h == nil || h.Dominates(c)) {
			// in must be inside c's loop
			h2 := c
			seen := map[*ssa.BasicBlock]bool{}
			var reach func(x *ssa.BasicBlock) bool
			reach = func(x *ssa.BasicBlock) bool {
				if x == h2 {
					return true
				}
				if seen[x] || !h2.Dominates(x) {
					return false
				}
				seen[x] = true
				for _, s := range x.Succs {
					if reach(s) {
						return true
					}
				}
				return false
			}
			inside := false
			for _, s := range in.Block().Succs {
				if reach(s) {
					inside = true
				}
			}
			if inside {
				h = c
			}
		}
	}
	if h == nil {
		return false, "not inside a loop"
	}
	first := h.Instrs[0]
	ps := AnalyzePaths(fn, []Atom{{Name: "passed", Event: func(x ssa.Instruction) (bool, int8) {
		if x == first {
			return true, F
		}
		if x == in {
			return true, T
		}
		return false, U
	}}})
	for _, p := range h.Preds {
		if !h.Dominates(p) {
			continue
		}
		for _, s := range ps.At(p.Instrs[len(p.Instrs)-1]) {
			if int8(s[0]) != T {
				return false, fmt.Sprintf("an iteration reaches the back edge (block %d -> header %d) without it", p.Index, h.Index)
			}
		}
	}
	return true, fmt.Sprintf("loop header block %d", h.Index)
}

// innermostLoopHeader: the header of the innermost loop that contains block b (nil when b is in no loop).
func innermostLoopHeader(fn *ssa.Function, b *ssa.BasicBlock) *ssa.BasicBlock {
	var h *ssa.BasicBlock
	for _, c := range loopHeaders(fn) {
		if !c.Dominates(b) {
			continue
		}
		// b must be able to reach c again (be inside c's loop)
		seen := map[*ssa.BasicBlock]bool{}
		work := append([]*ssa.BasicBlock{}, b.Succs...)
		inside := b == c
		for len(work) > 0 && !inside {
			x := work[len(work)-1]
			work = work[:len(work)-1]
			if seen[x] {
				continue
			}
			seen[x] = true
			if x == c {
				inside = true
				break
			}
			if c.Dominates(x) {
				work = append(work, x.Succs...)
			}
		}
		if inside && (h == nil || h.Dominates(c)) {
			h = c
		}
	}
	return h
}

// iterationPasses: every path from loop header h around a back edge to h passes an instruction matched by pred.
func iterationPasses(fn *ssa.Function, h *ssa.BasicBlock, pred func(ssa.Instruction) bool) (bool, string) {
	if len(h.Instrs) == 0 {
		return false, "empty loop header"
	}
	first := h.Instrs[0]
	ps := AnalyzePaths(fn, []Atom{{Name: "passed", Event: func(in ssa.Instruction) (bool, int8) {
		if in == first {
			return true, F
		}
		if pred(in) {
			return true, T
		}
		return false, U
	}}})
	n := 0
	for _, p := range h.Preds {
		if !h.Dominates(p) {
			continue
		}
		n++
		for _, s := range ps.At(p.Instrs[len(p.Instrs)-1]) {
			if int8(s[0]) != T {
				return false, fmt.Sprintf("an iteration reaches the back edge (block %d) without it", p.Index)
			}
		}
	}
	if n == 0 {
		return false, "no back edge"
	}
	return true, fmt.Sprintf("%d back edge(s)", n)
}

// divvyShareForm: the credit of the origins loop of DivvyingTips has the normal form
// (reward - commission) * (this origin's amount) / (snapshot total). With SNAPSHOT-SUM (total = sum of the amounts) the
// credits of one payout add up to at most the reward.
func divvyShareForm(P *Prog) (bool, string, token.Pos) {
	dv := P.Func("(x/reporter/keeper.Keeper).DivvyingTips")
	if dv == nil {
		return false, "anchor DivvyingTips does not resolve", token.NoPos
	}
	tm := NewTermer()
	le := &linEval{Atomise: func(t *Term) string {
		switch {
		case strings.HasPrefix(t.Op, "param:3:"):
			return "R"
		case strings.HasSuffix(t.Op, "OracleReporter.CommissionRate"):
			return "rate"
		case strings.HasSuffix(t.Op, "TokenOriginInfo.Amount"):
			return "amount"
		case strings.HasSuffix(t.Op, "DelegationsAmounts.Total"):
			return "total"
		}
		return ""
	}}
	n, ok, det := 0, true, ""
	pos := dv.Pos()
	for _, cs := range P.CallSitesIn(dv) {
		if cs.Callee != "(x/reporter/keeper.Keeper).addSelectorTips" || !inLoop(dv, cs.Instr.Block()) {
			continue
		}
		n++
		pos = cs.Pos()
		p := le.Eval(tm.Of(Arg(cs.Instr, 2))).String()
		if p != "-1 * R^1 * amount^1 * rate^1 * total^-1 + R^1 * amount^1 * total^-1" && p != "-1/100 * R^1 * amount^1 * rate^1 * total^-1 + R^1 * amount^1 * total^-1" {
			ok, det = false, clip(p, 200)
		}
	}
	if n != 1 {
		return false, fmt.Sprintf("%d credit sites in the origins loop", n), pos
	}
	return ok, det, pos
}
