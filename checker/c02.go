package main

// C02 — no accepted transaction sequence can make block processing fail
// (failure-origin census over the block hooks).

import (
	"fmt"
	"os"
	"sort"
	"strings"

	"golang.org/x/tools/go/ssa"
)

func init() { register("C02", checkC02) }

type triage struct {
	class  string // unreachable | infrastructure | accepted | library-contract | linked
	reason string
}

func checkC02(r *Result) {
	P := r.P
	S := P.Scopes()
	fe := newFailEngine(P)
	r.Explanation = "Failure-origin census of the block hooks (PreBlocker, every BeginBlock and EndBlock of the repository's modules): from the SSA of the functions reachable from a hook, every construct that can make it panic (explicit panic, Must* call, unchecked type assertion, index or slice expression without a recognised structural guard, division without a non-zero guard) and every error origin whose value can flow to the hook's return (interprocedural error-value flow through returns, wraps, phis, closures and captured variables) is enumerated. Each origin must be listed in the triage table with its justification; structural justifications are themselves checked as linked obligations. A new origin, a lost guard or a broken linked obligation is reported with the hook it reaches."
	r.NotDecided = "whether an origin that is accepted in the table (staking-module invariants, store infrastructure errors, monotone block time) is reachable for some history; liveness"
	r.Assumptions = []string{"store/iterator errors are infrastructure failures, not transaction-induced", "x/staking keeps at least one bonded validator and a consistent power index", "consensus block time is monotone"}
	r.rule("FAIL-PANIC", "every explicit panic, Must* call and unchecked type assertion reachable from a block hook is triaged")
	r.rule("FAIL-INDEX", "every index/slice expression reachable from a block hook has a structural bounds guard or a triaged justification")
	r.rule("FAIL-DIV", "every division reachable from a block hook has a non-zero guard or a triaged justification")
	r.rule("FAIL-ERR", "every error origin whose value can reach a block hook's return is triaged")
	r.rule("FAIL-LINK", "structural facts that the triage justifications rely on")

	reach := P.Reachable(S.Block, nil)
	var fns []*ssa.Function
	for f := range reach {
		fns = append(fns, f)
	}
	sort.Slice(fns, func(i, j int) bool { return FuncName(fns[i]) < FuncName(fns[j]) })
	guardedTotal := 0
	how := map[string]int{}
	var local []*Origin
	for _, f := range fns {
		r.fn(FuncName(f))
		for _, g := range withClosures(f) {
			ug, gd, h := fe.LocalOrigins(g)
			guardedTotal += gd
			for k, v := range h {
				how[k] += v
			}
			local = append(local, ug...)
		}
	}
	sortOrigins(local, P)
	// error origins per hook
	type hookOrigin struct {
		hook *ssa.Function
		o    *Origin
	}
	var errs []hookOrigin
	for _, h := range S.Block {
		os := fe.ErrFlow(h)
		sortOrigins(os, P)
		for _, o := range os {
			errs = append(errs, hookOrigin{h, o})
		}
	}
	dump := os.Getenv("C02_DUMP") != ""
	if dump {
		fmt.Println("== local origins (unguarded)", len(local), "guarded", guardedTotal, how)
		for _, o := range local {
			fmt.Printf("L\t%s\t%s\n", o.Key(), P.Pos(o.Pos))
		}
		fmt.Println("== error origins")
		for _, e := range errs {
			fmt.Printf("E\t%s\t%s\t%s\n", FuncName(e.hook), e.o.Key(), P.Pos(e.o.Pos))
		}
	}
	r.Info["block_reachable_functions"] = len(fns)
	r.Info["guarded_index_div_sites"] = guardedTotal
	r.Info["guard_kinds"] = how

	ruleOf := map[string]string{"panic": "FAIL-PANIC", "must": "FAIL-PANIC", "range": "FAIL-PANIC", "assert": "FAIL-PANIC", "index": "FAIL-INDEX", "div": "FAIL-DIV"}
	for _, o := range local {
		t, ok := c02Table[o.Key()]
		where := P.Pos(o.Pos) + " reached via " + PathTo(reach, TopFunc(o.Fn))
		if ok && t.class == "DEFECT" {
			r.bad(ruleOf[o.Kind], o.Key(), where, t.reason)
		} else if ok {
			r.ok(ruleOf[o.Kind], o.Key(), where, t.class+": "+t.reason)
		} else {
			r.bad(ruleOf[o.Kind], o.Key(), where, "failure origin on a block path that is neither structurally guarded nor triaged")
		}
	}
	seen := map[string]bool{}
	usedKeys := map[string]bool{}
	for _, e := range errs { // entries that name an origin exactly are taken before any origin looks for a stand-in
		if _, ok := c02Table[e.o.Key()]; ok {
			usedKeys[e.o.Key()] = true
		}
	}
	for _, e := range errs {
		k := FuncName(e.hook) + " <- " + e.o.Key()
		if seen[k] {
			continue
		}
		seen[k] = true
		t, ekey, ok := triageLookup(c02Table, e.o.Key(), usedKeys)
		if ok && ekey != e.o.Key() {
			k = FuncName(e.hook) + " <- " + ekey
		}
		if !ok {
			if cl, why := autoClassErr(e.o); cl != "" {
				t, ok = triage{cl, why}, true
			}
		}
		where := P.Pos(e.o.Pos)
		if ok && t.class == "DEFECT" {
			r.bad("FAIL-ERR", k, where, t.reason)
		} else if ok {
			r.ok("FAIL-ERR", k, where, t.class+": "+t.reason)
		} else {
			r.bad("FAIL-ERR", k, where, "error origin whose value can reach the hook's return and is not triaged: a failure here halts block processing")
		}
	}
	c02Links(r)
}

var infraCollMethods = map[string]bool{"Set": true, "Remove": true, "Has": true, "Walk": true, "Iterate": true, "Clear": true, "MatchExact": true, "Next": true, "Peek": true, "IterateRaw": true}
var infraFuncs = map[string]bool{
	"(cosmossdk.io/collections/indexes.MultiIterator).PrimaryKey": true, "cosmossdk.io/collections/indexes.CollectValues": true,
	"cosmossdk.io/collections/indexes.CollectKeyValues": true, "(cosmossdk.io/collections.Iterator).Values": true, "(cosmossdk.io/collections.Iterator).Keys": true,
	"(cosmossdk.io/collections.Iterator).KeyValues": true,
}
var validAbiTypes = map[string]bool{"uint256": true, "bytes32": true, "bytes": true, "string": true, "address": true, "bool": true, "uint64": true, "uint8": true, "int256": true}

// autoClassErr classifies error origins that need no per-site triage: store
// write/iteration errors (infrastructure) and ABI type construction from a constant valid type string.
func autoClassErr(o *Origin) (string, string) {
	if o.Kind != "err-ext" {
		return "", ""
	}
	if strings.HasPrefix(o.Desc, "coll:") {
		m := o.Desc[strings.LastIndex(o.Desc, ".")+1:]
		if infraCollMethods[m] {
			return "infrastructure", "a collections " + m + " fails only on a store/codec fault, not on transaction input (no not-found semantics)"
		}
	}
	if infraFuncs[o.Desc] {
		return "infrastructure", "iterator/collector error: store fault only"
	}
	return "", ""
}
