package main

// C07 — reports enter only an open round; each round aggregates exactly once.

import (
	"fmt"
	"sort"
	"strings"

	"golang.org/x/tools/go/ssa"
)

func init() { register("C07", checkC07) }

func isExpirationField(t *Term) bool {
	return strings.HasPrefix(t.Op, "field:x/oracle/types.QueryMeta.Expiration") || (t.Op == "ref" && len(t.Args) == 1 && isExpirationField(t.Args[0]))
}
func isHeight(t *Term) bool {
	return t.Has("call:(github.com/cosmos/cosmos-sdk/types.Context).BlockHeight")
}

// windowRel interprets a normalised relation between the expiration E and the block height h.
type windowRel struct {
	op     string // "<" or "<="
	eFirst bool   // E op h  (true) or  h op E (false)
}

func (w windowRel) eval(E, h int) bool {
	a, b := E, h
	if !w.eFirst {
		a, b = h, E
	}
	if w.op == "<" {
		return a < b
	}
	return a <= b
}

// negated returns the relation that holds exactly when w does not: !(h < E) is E <= h.
func (w windowRel) negated() windowRel {
	op := "<"
	if w.op == "<" {
		op = "<="
	}
	return windowRel{op, !w.eFirst}
}

func (w windowRel) String() string {
	if w.eFirst {
		return "Expiration " + w.op + " height"
	}
	return "height " + w.op + " Expiration"
}

func asWindowRel(rel *Term) (windowRel, bool) {
	if (rel.Op != "<" && rel.Op != "<=") || len(rel.Args) != 2 {
		return windowRel{}, false
	}
	switch {
	case isExpirationField(rel.Args[0]) && isHeight(rel.Args[1]):
		return windowRel{rel.Op, true}, true
	case isHeight(rel.Args[0]) && isExpirationField(rel.Args[1]):
		return windowRel{rel.Op, false}, true
	}
	return windowRel{}, false
}

// windowConds lists the window relations tested by fn, with the polarity needed to reach `target`:
// for each matching If, whether the target is reachable only when the relation is true / false.
func windowConds(fn *ssa.Function) []struct {
	rel  windowRel
	iff  *ssa.If
	term *Term
	pol  bool
} {
	tm := NewTermer()
	var out []struct {
		rel  windowRel
		iff  *ssa.If
		term *Term
		pol  bool
	}
	for _, b := range fn.Blocks {
		if len(b.Instrs) == 0 {
			continue
		}
		iff, ok := b.Instrs[len(b.Instrs)-1].(*ssa.If)
		if !ok {
			continue
		}
		rel, pol := Cond(tm.Of(iff.Cond))
		if w, ok := asWindowRel(rel); ok {
			out = append(out, struct {
				rel  windowRel
				iff  *ssa.If
				term *Term
				pol  bool
			}{w, iff, rel, pol})
		}
	}
	return out
}

func checkC07(r *Result) {
	P := r.P
	defer checkLostUpdates(r, "C07")
	r.Explanation = "Admission and once-only rules of the report lifecycle, decided on the SSA control-flow graphs: every path from MsgSubmitValue to the report store passes the bridge-withdrawal rejection, the reporter-stake computation (whose success implies an existing, un-jailed reporter), the minimum-stake test and value validation, and on the non-deposit branch the tip-or-cycle-list and window tests; the report store has a single writer whose key is (query id, reporter, round id) and whose success paths always persist the round it files the report under; SetAggregate is reached from the end blocker only for expired rounds and every aggregating iteration removes the round; the acceptance, aggregation, tip-extension and rotation window relations extracted from the guards are evaluated over all small orderings of (expiration, height) and must be mutually consistent (no report after aggregation, a report at the expiry height is accepted and aggregated in that block, rotation exactly when the round closes); rotation and old-query clearing are guarded."
	r.NotDecided = "the whole lifecycle as a state machine over histories (tip carry-over amounts, governance changes of the cycle list), wrap-around order of the rotation beyond its guards"
	r.Assumptions = []string{"block height is strictly increasing", "a failed message is rolled back"}
	r.rule("ADMIT", "every path to the report store passes the admission guards")
	r.rule("WRITERS", "the report store and the aggregate store have exactly the expected writers")
	r.rule("KEY", "a report is keyed by (query id, reporter, round id), so a later report of the same reporter in the round replaces the earlier one")
	r.rule("META-STORED", "SetValue persists the round (query meta) it files the report under on every success path")
	r.rule("ONCE-AGG", "a round is aggregated only when expired and is removed in the same iteration")
	r.rule("WINDOW", "acceptance, aggregation, tip-extension and rotation relations are mutually consistent over all orderings of expiration and height")
	r.rule("ROTATE-GUARD", "the cycle list advances only when the current query has no open window")
	r.rule("TIP-CARRY", "a query is cleared only when it is expired, carries no tip and has no revealed report")

	need := func(name string) *ssa.Function {
		f := P.Func(name)
		if f == nil {
			r.broken("anchor %s does not resolve", name)
		} else {
			r.fn(name)
		}
		return f
	}
	errNil := func(callee string) func(rel *Term) (bool, bool) {
		// atom true when the call's error result is non-nil
		return func(rel *Term) (bool, bool) {
			if rel.Op == "==" && len(rel.Args) == 2 && rel.Args[1].Op == "const:nil" && rel.Args[0].Op == "ext:1" && len(rel.Args[0].Args) == 1 && strings.HasSuffix(rel.Args[0].Args[0].Op, callee) {
				return true, false
			}
			return false, false
		}
	}

	// ---- ADMIT: SubmitValue
	sub := need("(x/oracle/keeper.msgServer).SubmitValue")
	if sub != nil {
		atoms := []Atom{
			{Name: "withdrawalChecked", Event: P.CallEvent(func(c *CallSite) bool { return c.Callee == "(x/oracle/keeper.Keeper).PreventBridgeWithdrawalReport" }, T)},
			{Name: "withdrawalErr", Cond: errNil(".PreventBridgeWithdrawalReport")},
			{Name: "stakeComputed", Event: P.CallEvent(func(c *CallSite) bool { return strings.HasSuffix(c.Callee, "ReporterKeeper.ReporterStake") }, T)},
			{Name: "stakeErr", Cond: errNil("ReporterKeeper.ReporterStake")},
			{Name: "belowMin", Cond: func(rel *Term) (bool, bool) {
				if rel.Op == "<" && len(rel.Args) == 2 && rel.Args[0].Op == "ext:0" && rel.Args[0].Contains("ReporterKeeper.ReporterStake") && rel.Args[1].Has("field:x/oracle/types.Params.MinStakeAmount") {
					return true, true
				}
				return false, false
			}},
			{Name: "isDeposit", Cond: func(rel *Term) (bool, bool) {
				if rel.Op == "ext:0" && len(rel.Args) == 1 && strings.HasSuffix(rel.Args[0].Op, ".PreventBridgeWithdrawalReport") {
					return true, true
				}
				return false, false
			}},
		}
		ps := AnalyzePaths(sub, atoms)
		n := 0
		for _, cs := range P.CallSitesIn(sub) {
			switch cs.Callee {
			case "(x/oracle/keeper.Keeper).DirectReveal", "(x/oracle/keeper.Keeper).HandleBridgeDepositDirectReveal":
				n++
				bad := ps.Require(cs.Instr, func(v map[string]bool) bool {
					ok := v["withdrawalChecked"] && !v["withdrawalErr"] && v["stakeComputed"] && !v["stakeErr"] && !v["belowMin"]
					if cs.Callee == "(x/oracle/keeper.Keeper).HandleBridgeDepositDirectReveal" {
						ok = ok && v["isDeposit"]
					}
					return ok
				})
				// the decisive comparisons must have been evaluated on the path
				evaluated := len(ps.Matched["belowMin"]) > 0 && len(ps.Matched["withdrawalErr"]) > 0 && len(ps.Matched["stakeErr"]) > 0
				r.check(len(bad) == 0 && evaluated, "ADMIT", "(x/oracle/keeper.msgServer).SubmitValue # "+cs.Method+" after withdrawal rejection, stake computation and minimum-stake test", P.Pos(cs.Pos()), fmt.Sprintf("valuations: %v", statesStr(ps, cs.Instr)))
				if cs.Callee == "(x/oracle/keeper.Keeper).DirectReveal" {
					t := NewTermer().Of(Arg(cs.Instr, 6))
					r.check(t.Op == "ext:0" && t.Has("call:(x/oracle/keeper.Keeper).PreventBridgeWithdrawalReport"), "ADMIT", "(x/oracle/keeper.msgServer).SubmitValue # DirectReveal receives the deposit flag computed from the query data", P.Pos(cs.Pos()), "argument: "+clip(t.String(), 120))
				}
			}
		}
		r.check(n == 2, "ADMIT", "(x/oracle/keeper.msgServer).SubmitValue # two routes to the report store", P.Pos(sub.Pos()), fmt.Sprintf("%d", n))
		// the power handed on derives from the computed stake
		for _, cs := range P.CallSitesIn(sub) {
			if cs.Callee == "(x/oracle/keeper.Keeper).DirectReveal" {
				t := NewTermer().Of(Arg(cs.Instr, 5))
				p := (&linEval{}).Eval(t)
				okPow := false
				if c, m, single := p.Single(); single && ratEq(c, 1, 1) {
					num, den := 0, 0
					for a, e := range m {
						if strings.Contains(a, "ReporterStake") && e == 1 {
							num++
						} else if strings.Contains(a, "PowerReduction") && e == -1 {
							den++
						}
					}
					okPow = num == 1 && den == 1 && len(m) == 2
				}
				r.check(okPow, "ADMIT", "(x/oracle/keeper.msgServer).SubmitValue # reporting power = stake / PowerReduction", P.Pos(cs.Pos()), "normal form: "+clip(p.String(), 200))
			}
		}
	}
	// ---- ADMIT: ReporterStake => reporter exists and is not jailed
	if rs := need("(x/reporter/keeper.Keeper).ReporterStake"); rs != nil {
		ps := AnalyzePaths(rs, []Atom{
			{Name: "jailed", Cond: func(rel *Term) (bool, bool) {
				return strings.HasPrefix(rel.Op, "field:x/reporter/types.OracleReporter.Jailed"), true
			}},
			{Name: "noReporter", Cond: func(rel *Term) (bool, bool) {
				if rel.Op == "==" && len(rel.Args) == 2 && rel.Args[1].Op == "const:nil" && rel.Args[0].Op == "ext:1" && rel.Args[0].Has("field:x/reporter/keeper.Keeper.Reporters") {
					return true, false
				}
				return false, false
			}},
			{Name: "snapshot", Event: P.CallEvent(descIs("coll:x/reporter/keeper.Keeper.Report.Set"), T)},
		})
		okAll, n := true, 0
		det := ""
		for _, ret := range SuccessReturns(rs) {
			n++
			if bad := ps.Require(ret, func(v map[string]bool) bool { return !v["jailed"] && !v["noReporter"] && v["snapshot"] }); len(bad) > 0 {
				okAll = false
				det = fmt.Sprint(bad)
			}
		}
		evaluated := len(ps.Matched["jailed"]) > 0 && len(ps.Matched["noReporter"]) > 0
		r.check(okAll && n > 0 && evaluated, "ADMIT", "(x/reporter/keeper.Keeper).ReporterStake # success => reporter exists, is not jailed, and the stake snapshot is stored", P.Pos(rs.Pos()), fmt.Sprintf("%d success returns %s", n, det))
	}
	// ---- ADMIT: DirectReveal
	var accRel, depRel, aggRel, tipRel, rotRel *windowRel
	if dr := need("(x/oracle/keeper.Keeper).DirectReveal"); dr != nil {
		atoms := []Atom{
			{Name: "noTip", Cond: func(rel *Term) (bool, bool) {
				if rel.Op == "==" && len(rel.Args) == 2 && strings.HasPrefix(rel.Args[0].Op, "field:x/oracle/types.QueryMeta.Amount") && rel.Args[1].Op == "const:0" {
					return true, true
				}
				return false, false
			}},
			{Name: "inCycle", Cond: func(rel *Term) (bool, bool) {
				return strings.HasPrefix(rel.Op, "field:x/oracle/types.QueryMeta.CycleList"), true
			}},
			{Name: "windowClosed", Exact: true, Cond: func(rel *Term) (bool, bool) {
				if w, ok := asWindowRel(rel); ok {
					accRel = &w
					return true, true
				}
				return false, false
			}},
			{Name: "deposit", Cond: func(rel *Term) (bool, bool) { return rel.Op == "param:7:bool", true }},
		}
		ps := AnalyzePaths(dr, atoms)
		for _, cs := range P.CallSitesIn(dr) {
			switch cs.Callee {
			case "(x/oracle/keeper.Keeper).SetValue":
				bad := ps.Require(cs.Instr, func(v map[string]bool) bool {
					return !(v["noTip"] && !v["inCycle"]) && !v["windowClosed"] && !v["deposit"]
				})
				evaluated := len(ps.Matched["noTip"]) > 0 && len(ps.Matched["windowClosed"]) > 0 && len(ps.Matched["inCycle"]) > 0
				r.check(len(bad) == 0 && evaluated, "ADMIT", "(x/oracle/keeper.Keeper).DirectReveal # SetValue only for a tipped or cycle-list query whose window is open", P.Pos(cs.Pos()), fmt.Sprintf("valuations: %v", statesStr(ps, cs.Instr)))
				// the cycle-list flag of the report is the query's
				t := NewTermer().Of(Arg(cs.Instr, 6))
				r.check(strings.HasPrefix(t.Op, "field:x/oracle/types.QueryMeta.CycleList"), "ADMIT", "(x/oracle/keeper.Keeper).DirectReveal # report's cycle-list flag = query's", P.Pos(cs.Pos()), "argument: "+t.Brief())
			case "(x/oracle/keeper.Keeper).HandleBridgeDepositDirectReveal":
				bad := ps.Require(cs.Instr, func(v map[string]bool) bool { return v["deposit"] })
				r.check(len(bad) == 0, "ADMIT", "(x/oracle/keeper.Keeper).DirectReveal # deposit route only for deposit query data", P.Pos(cs.Pos()), fmt.Sprintf("valuations: %v", statesStr(ps, cs.Instr)))
			}
		}
	}
	// ---- ADMIT: deposit route
	if hb := need("(x/oracle/keeper.Keeper).HandleBridgeDepositDirectReveal"); hb != nil {
		// the last window test before SetValue is the strict one
		var last *windowRel
		atoms := []Atom{{Name: "windowClosed", Exact: true, Cond: func(rel *Term) (bool, bool) {
			if w, ok := asWindowRel(rel); ok && w.op == "<" {
				last = &w
				return true, true
			}
			return false, false
		}}}
		ps := AnalyzePaths(hb, atoms)
		for _, cs := range P.CallSitesIn(hb) {
			if cs.Callee == "(x/oracle/keeper.Keeper).SetValue" {
				bad := ps.Require(cs.Instr, func(v map[string]bool) bool { return !v["windowClosed"] })
				r.check(len(bad) == 0 && last != nil, "ADMIT", "(x/oracle/keeper.Keeper).HandleBridgeDepositDirectReveal # SetValue only with an open window", P.Pos(cs.Pos()), fmt.Sprintf("valuations: %v", statesStr(ps, cs.Instr)))
				t := NewTermer().Of(Arg(cs.Instr, 6))
				r.check(t.Op == "const:true", "ADMIT", "(x/oracle/keeper.Keeper).HandleBridgeDepositDirectReveal # deposit reports are cycle-list eligible", P.Pos(cs.Pos()), "argument: "+t.Brief())
			}
		}
		depRel = last
		// a fresh round id for an existing query copies the query meta, including its tip: allowed only for an untipped query
		ps2 := AnalyzePaths(hb, []Atom{{Name: "noTip", Cond: func(rel *Term) (bool, bool) {
			if rel.Op == "==" && len(rel.Args) == 2 && strings.HasPrefix(rel.Args[0].Op, "field:x/oracle/types.QueryMeta.Amount") && rel.Args[1].Op == "const:0" {
				return true, true
			}
			return false, false
		}}})
		for _, cs := range P.CallSitesIn(hb) {
			if cs.Desc() == "coll:x/oracle/keeper.Keeper.QuerySequencer.Next" {
				bad := ps2.Require(cs.Instr, func(v map[string]bool) bool { return v["noTip"] })
				r.check(len(bad) == 0, "TIP-CARRY", "(x/oracle/keeper.Keeper).HandleBridgeDepositDirectReveal # a new round id only for a query without a tip", P.Pos(cs.Pos()), fmt.Sprintf("valuations: %v (the copied round would carry the same tip a second time)", statesStr(ps2, cs.Instr)))
			}
		}
	}

	// ---- WRITERS / KEY / META-STORED
	sv := need("(x/oracle/keeper.Keeper).SetValue")
	{
		var ws []string
		for _, s := range P.Sites(descIs("coll:x/oracle/keeper.Keeper.Reports.Set")) {
			ws = append(ws, FuncName(TopFunc(s.Fn)))
		}
		r.check(len(ws) == 1 && ws[0] == "(x/oracle/keeper.Keeper).SetValue", "WRITERS", "Reports.Set only in SetValue", "-", fmt.Sprintf("%v", ws))
		callers := func(name string) []string {
			var out []string
			f := P.Func(name)
			for _, c := range P.callers[f] {
				out = append(out, FuncName(TopFunc(c)))
			}
			sort.Strings(out)
			return out
		}
		c1 := callers("(x/oracle/keeper.Keeper).SetValue")
		r.check(fmt.Sprint(c1) == "[(x/oracle/keeper.Keeper).DirectReveal (x/oracle/keeper.Keeper).HandleBridgeDepositDirectReveal]", "WRITERS", "callers of SetValue", "-", fmt.Sprint(c1))
		c2 := callers("(x/oracle/keeper.Keeper).DirectReveal")
		r.check(fmt.Sprint(c2) == "[(x/oracle/keeper.msgServer).SubmitValue]", "WRITERS", "callers of DirectReveal", "-", fmt.Sprint(c2))
		c3 := callers("(x/oracle/keeper.Keeper).HandleBridgeDepositDirectReveal")
		r.check(fmt.Sprint(c3) == "[(x/oracle/keeper.Keeper).DirectReveal (x/oracle/keeper.msgServer).SubmitValue]", "WRITERS", "callers of HandleBridgeDepositDirectReveal", "-", fmt.Sprint(c3))
		var aggW []string
		for _, c := range P.callers[P.Func("(x/oracle/keeper.Keeper).SetAggregate")] {
			aggW = append(aggW, FuncName(TopFunc(c)))
		}
		sort.Strings(aggW)
		r.check(fmt.Sprint(aggW) == "[(x/bridge/keeper.Keeper).WithdrawTokens (x/oracle/keeper.Keeper).SetAggregatedReport]", "WRITERS", "callers of SetAggregate", "-", fmt.Sprint(aggW))
	}
	if sv != nil {
		tm := NewTermer()
		var repKey, metaKey *Term
		for _, cs := range P.CallSitesIn(sv) {
			if cs.Desc() == "coll:x/oracle/keeper.Keeper.Reports.Set" {
				repKey = tm.Of(Arg(cs.Instr, 1))
			}
			if cs.Desc() == "coll:x/oracle/keeper.Keeper.Query.Set" {
				metaKey = tm.Of(Arg(cs.Instr, 1))
			}
		}
		okKey := repKey != nil && repKey.Op == "call:cosmossdk.io/collections.Join3" && len(repKey.Args) == 3 &&
			repKey.Args[0].Op == "call:utils.QueryIDFromData" && repKey.Args[1].Op == "call:(github.com/cosmos/cosmos-sdk/types.AccAddress).Bytes" && repKey.Args[1].Has("param:2:") &&
			strings.HasPrefix(repKey.Args[2].Op, "field:x/oracle/types.QueryMeta.Id")
		r.check(okKey, "KEY", "(x/oracle/keeper.Keeper).SetValue # report key = (query id, reporter, round id)", P.Pos(sv.Pos()), "key: "+clip(fmt.Sprint(repKey), 220))
		okMeta := metaKey != nil && repKey != nil && metaKey.Op == "call:cosmossdk.io/collections.Join" && len(metaKey.Args) == 2 && len(repKey.Args) == 3 &&
			metaKey.Args[0].String() == repKey.Args[0].String() && metaKey.Args[1].String() == repKey.Args[2].String()
		ps := AnalyzePaths(sv, []Atom{{Name: "metaStored", Event: P.CallEvent(descIs("coll:x/oracle/keeper.Keeper.Query.Set"), T)},
			{Name: "reportStored", Event: P.CallEvent(descIs("coll:x/oracle/keeper.Keeper.Reports.Set"), T)}})
		okAll := true
		det := ""
		for _, ret := range SuccessReturns(sv) {
			if bad := ps.Require(ret, func(v map[string]bool) bool { return !v["reportStored"] || v["metaStored"] }); len(bad) > 0 {
				okAll = false
				det = fmt.Sprint(bad)
			}
		}
		r.check(okAll && okMeta, "META-STORED", "(x/oracle/keeper.Keeper).SetValue # the round (queryId, query.Id) is stored whenever a report is", P.Pos(sv.Pos()), fmt.Sprintf("same key components: %v ; failing valuations: %s (callers may hand in a round id that is not in the store yet)", okMeta, det))
	}

	// ---- ONCE-AGG
	if sa := need("(x/oracle/keeper.Keeper).SetAggregatedReport"); sa != nil {
		tm := NewTermer()
		var h *ssa.BasicBlock
		for _, b := range loopHeaders(sa) {
			if len(b.Instrs) > 0 {
				if iff, ok := b.Instrs[len(b.Instrs)-1].(*ssa.If); ok && tm.Of(iff.Cond).Has("call:(cosmossdk.io/collections/indexes.MultiIterator).Valid") {
					h = b
				}
			}
		}
		if h == nil {
			r.broken("ONCE-AGG: iteration loop of SetAggregatedReport not found")
		} else {
			first := h.Instrs[0]
			atoms := []Atom{
				{Name: "expired", Exact: true, Cond: func(rel *Term) (bool, bool) {
					if w, ok := asWindowRel(rel); ok {
						if !w.eFirst {
							// the guard is written the other way round (`if height < Expiration { continue }`): the round is
							// aggregated when that test fails, i.e. under its negation
							n := w.negated()
							aggRel = &n
							return true, false
						}
						aggRel = &w
						return true, true
					}
					// blockHeight is a local computed once: Expiration <= uint64(height)
					if (rel.Op == "<=" || rel.Op == "<") && len(rel.Args) == 2 && isExpirationField(rel.Args[0]) && isHeight(rel.Args[1]) {
						w := windowRel{rel.Op, true}
						aggRel = &w
						return true, true
					}
					return false, false
				}},
				{Name: "aggregated", Event: func(in ssa.Instruction) (bool, int8) {
					if in == first {
						return true, F
					}
					if c, ok := in.(ssa.CallInstruction); ok {
						if cs := P.siteOf(c); cs != nil && cs.Callee == "(x/oracle/keeper.Keeper).SetAggregate" {
							return true, T
						}
					}
					return false, U
				}},
				{Name: "removed", Event: func(in ssa.Instruction) (bool, int8) {
					if in == first {
						return true, F
					}
					if c, ok := in.(ssa.CallInstruction); ok {
						if cs := P.siteOf(c); cs != nil && cs.Desc() == "coll:x/oracle/keeper.Keeper.Query.Remove" {
							return true, T
						}
					}
					return false, U
				}},
			}
			ps := AnalyzePaths(sa, atoms)
			for _, cs := range P.CallSitesIn(sa) {
				if cs.Callee == "(x/oracle/keeper.Keeper).SetAggregate" {
					bad := ps.Require(cs.Instr, func(v map[string]bool) bool { return v["expired"] })
					r.check(len(bad) == 0 && aggRel != nil, "ONCE-AGG", "(x/oracle/keeper.Keeper).SetAggregatedReport # SetAggregate only for an expired round", P.Pos(cs.Pos()), fmt.Sprintf("valuations: %v", statesStr(ps, cs.Instr)))
				}
			}
			okAll := true
			for _, pred := range h.Preds {
				if !h.Dominates(pred) {
					continue
				}
				for _, s := range ps.At(pred.Instrs[len(pred.Instrs)-1]) {
					if int8(s[1]) == T && int8(s[2]) != T {
						okAll = false
					}
				}
			}
			r.check(okAll, "ONCE-AGG", "(x/oracle/keeper.Keeper).SetAggregatedReport # an aggregating iteration removes the round before the next one", P.Pos(sa.Pos()), "every path from SetAggregate to the loop's back edge passes Query.Remove")
			var getKey, remKey string
			for _, cs := range P.CallSitesIn(sa) {
				if cs.Desc() == "coll:x/oracle/keeper.Keeper.Query.Get" {
					getKey = tm.Of(Arg(cs.Instr, 1)).String()
				}
				if cs.Desc() == "coll:x/oracle/keeper.Keeper.Query.Remove" {
					remKey = tm.Of(Arg(cs.Instr, 1)).String()
				}
			}
			r.check(getKey != "" && getKey == remKey, "ONCE-AGG", "(x/oracle/keeper.Keeper).SetAggregatedReport # removes the round it aggregated", P.Pos(sa.Pos()), "read key: "+clip(getKey, 100)+" ; removed key: "+clip(remKey, 100))
			// reports are collected for the round id of that query
			for _, cs := range P.CallSitesIn(sa) {
				if strings.HasSuffix(cs.Desc(), "ReportsIndex.Id.MatchExact") {
					t := tm.Of(Arg(cs.Instr, 1))
					r.check(strings.HasPrefix(t.Op, "field:x/oracle/types.QueryMeta.Id"), "ONCE-AGG", "(x/oracle/keeper.Keeper).SetAggregatedReport # aggregates the reports of that round id", P.Pos(cs.Pos()), "index key: "+t.Brief())
				}
			}
		}
	}

	// ---- tip and rotation relations
	if tip := need("(x/oracle/keeper.msgServer).Tip"); tip != nil {
		for _, w := range windowConds(tip) {
			ww := w.rel
			tipRel = &ww
		}
	}
	if rq := need("(x/oracle/keeper.Keeper).RotateQueries"); rq != nil {
		tm := NewTermer()
		atoms := []Atom{
			{Name: "found", Cond: func(rel *Term) (bool, bool) {
				if rel.Op == "==" && len(rel.Args) == 2 && rel.Args[1].Op == "const:nil" && rel.Args[0].Op == "ext:1" && len(rel.Args[0].Args) == 1 && rel.Args[0].Args[0].Op == "call:(x/oracle/keeper.Keeper).CurrentQuery" {
					return true, true
				}
				return false, false
			}},
			{Name: "open", Exact: true, Cond: func(rel *Term) (bool, bool) {
				if w, ok := asWindowRel(rel); ok && !w.eFirst && w.op == "<" {
					// height < Expiration: still open
					if rotRel == nil {
						rotRel = &w
					}
					return true, true
				}
				return false, false
			}},
		}
		ps := AnalyzePaths(rq, atoms)
		n := 0
		for _, cs := range P.CallSitesIn(rq) {
			if cs.Desc() == "coll:x/oracle/keeper.Keeper.CyclelistSequencer.Next" || cs.Desc() == "coll:x/oracle/keeper.Keeper.CyclelistSequencer.Set" {
				n++
				// the first evaluation of `open` is on the current query; later window tests concern the next query
				bad := ps.Require(cs.Instr, func(v map[string]bool) bool { return !(v["found"] && v["open"]) })
				r.check(len(bad) == 0, "ROTATE-GUARD", "(x/oracle/keeper.Keeper).RotateQueries # "+cs.Method+" only when the current query is absent or its window has closed", P.Pos(cs.Pos()), fmt.Sprintf("valuations: %v", statesStr(ps, cs.Instr)))
			}
		}
		r.check(n >= 2 && rotRel != nil, "ROTATE-GUARD", "(x/oracle/keeper.Keeper).RotateQueries # advances the sequencer", P.Pos(rq.Pos()), fmt.Sprintf("%d sequencer writes", n))
		// the entry whose round is opened is the entry the stored sequencer names (GetCurrentQueryInCycleList reads the
		// sequencer, clamping an out-of-range value to 0): the index used is either a value this call stored with Set, or
		// Next()+1 -- which is what Next left in the store -- on a path where that is known to be inside the list
		var next ssa.Value
		for _, cs := range P.CallSitesIn(rq) {
			if cs.Desc() == "coll:x/oracle/keeper.Keeper.CyclelistSequencer.Next" {
				if v, ok := cs.Instr.(ssa.Value); ok {
					next = v
				}
			}
		}
		isNext := func(t *Term) bool { return t.Op == "ext:0" && len(t.Args) == 1 && t.Args[0].V == next }
		sameIdx := func(a, b ssa.Value) bool {
			if a == b {
				return true
			}
			ca, ok1 := a.(*ssa.Const)
			cb, ok2 := b.(*ssa.Const)
			return ok1 && ok2 && ca.Value != nil && cb.Value != nil && ca.Value.ExactString() == cb.Value.ExactString()
		}
		coherent := func(idx ssa.Value, at ssa.Instruction, from, to *ssa.BasicBlock) (bool, string) {
			pc := AnalyzePaths(rq, []Atom{
				{Name: "stored", Event: func(in ssa.Instruction) (bool, int8) {
					if c, ok := in.(ssa.CallInstruction); ok {
						if cs := P.siteOf(c); cs != nil && cs.Desc() == "coll:x/oracle/keeper.Keeper.CyclelistSequencer.Set" && sameIdx(Arg(c, 1), idx) {
							return true, T
						}
					}
					return false, U
				}},
				{Name: "atEnd", Stable: true, Cond: func(rel *Term) (bool, bool) {
					// len-1 <= n, i.e. n is the last index (or beyond it)
					if rel.Op == "<=" && len(rel.Args) == 2 && isNext(rel.Args[1]) && rel.Args[0].Contains("call:builtin:len") && rel.Args[0].Contains("const:1") {
						return true, true
					}
					return false, false
				}},
			})
			t := tm.Of(idx)
			nextPlus1 := t.Op == "+" && len(t.Args) == 2 && ((isNext(t.Args[0]) && t.Args[1].Op == "const:1") || (isNext(t.Args[1]) && t.Args[0].Op == "const:1"))
			phi := func(v map[string]bool) bool { return v["stored"] || (nextPlus1 && !v["atEnd"]) }
			var bad []string
			if from != nil {
				bad = pc.RequireOnEdge(from, to, phi)
			} else {
				bad = pc.Require(at, phi)
			}
			return len(bad) == 0, fmt.Sprintf("index %s under %v", t.Brief(), bad)
		}
		nIdx := 0
		for _, b := range rq.Blocks {
			for _, in := range b.Instrs {
				var idx ssa.Value
				var base ssa.Value
				switch x := in.(type) {
				case *ssa.IndexAddr:
					idx, base = x.Index, x.X
				case *ssa.Index:
					idx, base = x.Index, x.X
				}
				if idx == nil || !tm.Of(base).Has("call:(x/oracle/keeper.Keeper).GetCyclelist") {
					continue
				}
				nIdx++
				ok, det := true, ""
				if ph, isPhi := idx.(*ssa.Phi); isPhi {
					for i, e := range ph.Edges {
						if o, d := coherent(e, nil, ph.Block().Preds[i], ph.Block()); !o {
							ok, det = false, d
						}
					}
				} else {
					ok, det = coherent(idx, in, nil, nil)
				}
				r.check(ok, "ROTATE-GUARD", "(x/oracle/keeper.Keeper).RotateQueries # the entry whose round is opened is the one the stored sequencer names", P.Pos(in.Pos()), det)
			}
		}
		r.check(nIdx >= 1 && next != nil, "ROTATE-GUARD", "(x/oracle/keeper.Keeper).RotateQueries # reads of the cycle list to decide", P.Pos(rq.Pos()), fmt.Sprint(nIdx))
	}
	// ---- WINDOW
	dom := []int{0, 1, 2, 3}
	if accRel != nil && aggRel != nil {
		// reject relation accRel (true => rejected), aggregate relation aggRel (true => aggregated at end of that block)
		bad := ""
		for _, E := range dom {
			for _, h := range dom {
				for _, h2 := range dom {
					if h2 < h && aggRel.eval(E, h2) && !accRel.eval(E, h) {
						bad = fmt.Sprintf("E=%d: round aggregated at height %d, report still accepted at height %d", E, h2, h)
					}
				}
			}
			if accRel.eval(E, E) || !aggRel.eval(E, E) {
				bad = fmt.Sprintf("E=%d: a report at the expiry height must be accepted and aggregated in that block", E)
			}
			// no gap: a block in which a report is accepted is never later than the aggregation block
			for _, h := range dom {
				if !accRel.eval(E, h) && h > E {
					bad = fmt.Sprintf("E=%d: report accepted at height %d after expiry", E, h)
				}
			}
		}
		r.check(bad == "", "WINDOW", "accept(DirectReveal) vs aggregate(SetAggregatedReport)", "x/oracle/keeper/submit_value.go, aggregate.go", fmt.Sprintf("reject when %s ; aggregate when %s ; %s", accRel, aggRel, bad))
	} else {
		r.broken("WINDOW: acceptance or aggregation relation not found")
	}
	if depRel != nil && accRel != nil {
		same := true
		for _, E := range dom {
			for _, h := range dom {
				if depRel.eval(E, h) != accRel.eval(E, h) {
					same = false
				}
			}
		}
		r.check(same, "WINDOW", "deposit route rejects exactly when the normal route does", "x/oracle/keeper/token_bridge_deposit.go", fmt.Sprintf("deposit: reject when %s ; normal: reject when %s", depRel, accRel))
	}
	if tipRel != nil && accRel != nil {
		same := true
		for _, E := range dom {
			for _, h := range dom {
				if tipRel.eval(E, h) != accRel.eval(E, h) {
					same = false
				}
			}
		}
		r.check(same, "WINDOW", "a tip opens a new window exactly when reports are no longer accepted", "x/oracle/keeper/msg_server_tip.go", fmt.Sprintf("tip: new window when %s ; reports rejected when %s", tipRel, accRel))
	} else {
		r.broken("WINDOW: tip relation not found")
	}
	if rotRel != nil && aggRel != nil {
		same := true
		for _, E := range dom {
			for _, h := range dom {
				// rotate when !(open) ; aggregate when aggRel
				if (!rotRel.eval(E, h)) != aggRel.eval(E, h) {
					same = false
				}
			}
		}
		r.check(same, "WINDOW", "rotation happens exactly in the block in which the current round closes", "x/oracle/keeper/cycle_list.go", fmt.Sprintf("keep current query while %s ; aggregate when %s", rotRel, aggRel))
	}
	// the "this round is over" tests that renew a round (new id or new window) agree with the aggregation relation: a
	// round is renewed exactly when it is (or would have been) aggregated at the end of this block
	if aggRel != nil {
		for _, spec := range [][2]string{
			{"(x/oracle/keeper.Keeper).HandleBridgeDepositDirectReveal", "a deposit round is renewed"},
			{"(x/oracle/keeper.Keeper).RotateQueries", "a tipped cycle-list round gets a new window"},
		} {
			fn := need(spec[0])
			if fn == nil {
				continue
			}
			tmw := NewTermer()
			n, same := 0, true
			var got []string
			for _, cv := range condValues(fn) {
				rel, _ := Cond(tmw.Of(cv))
				w, ok := asWindowRel(rel)
				if !ok || w.op != "<=" {
					continue // the strict tests are the admission / keep-current tests compared above
				}
				n++
				got = append(got, w.String())
				for _, E := range dom {
					for _, h := range dom {
						if w.eval(E, h) != aggRel.eval(E, h) {
							same = false
						}
					}
				}
			}
			want := map[string]int{"(x/oracle/keeper.Keeper).HandleBridgeDepositDirectReveal": 2, "(x/oracle/keeper.Keeper).RotateQueries": 1}[spec[0]]
			r.check(same && n == want, "WINDOW", spec[0]+" # "+spec[1]+" exactly when the round is aggregated", P.Pos(fn.Pos()), fmt.Sprintf("%d renewal tests %v ; aggregate when %s", n, got, aggRel))
		}
	}
	// a new window always ends at (current height + the spec's block window)
	{
		tmw := NewTermer()
		n := 0
		for _, fn := range P.RepoFuncs {
			if fn.Pkg == nil || !strings.HasSuffix(fn.Pkg.Pkg.Path(), "/x/oracle/keeper") {
				continue
			}
			for _, b := range fn.Blocks {
				for _, in := range b.Instrs {
					st, ok := in.(*ssa.Store)
					if !ok {
						continue
					}
					fa, ok := st.Addr.(*ssa.FieldAddr)
					if !ok || fieldName(fa.X.Type(), fa.Field) != "x/oracle/types.QueryMeta.Expiration" {
						continue
					}
					n++
					v := tmw.Of(st.Val)
					// the window of a freshly built query meta may be the constant stored as its block window in the same literal
					winConst := ""
					for _, b2 := range fn.Blocks {
						for _, in2 := range b2.Instrs {
							if st2, ok := in2.(*ssa.Store); ok {
								if fa2, ok := st2.Addr.(*ssa.FieldAddr); ok && fa2.X == fa.X && fieldName(fa2.X.Type(), fa2.Field) == "x/oracle/types.QueryMeta.RegistrySpecBlockWindow" {
									if t := tmw.Of(st2.Val); strings.HasPrefix(t.Op, "const:") {
										winConst = t.Op
									}
								}
							}
						}
					}
					isWin := func(t *Term) bool {
						return t.Contains("RegistrySpecBlockWindow") || (winConst != "" && t.Op == winConst)
					}
					okV := v.Op == "+" && len(v.Args) == 2 && ((v.Args[0].Contains("BlockHeight") && isWin(v.Args[1])) || (v.Args[1].Contains("BlockHeight") && isWin(v.Args[0])))
					r.check(okV, "WINDOW", FuncName(TopFunc(fn))+" # a window that is (re)opened ends at height + block window", P.Pos(st.Pos()), clip(v.String(), 160))
				}
			}
		}
		r.check(n >= 5, "WINDOW", "stores of QueryMeta.Expiration in the oracle keeper", "-", fmt.Sprint(n))
	}
	// ---- TIP-CARRY
	if co := need("(x/oracle/keeper.Keeper).ClearOldqueries"); co != nil {
		for _, fn := range withClosures(co) {
			atoms := []Atom{
				{Name: "noTip", Cond: func(rel *Term) (bool, bool) {
					if rel.Op == "==" && len(rel.Args) == 2 && strings.HasPrefix(rel.Args[0].Op, "field:x/oracle/types.QueryMeta.Amount") && rel.Args[1].Op == "const:0" {
						return true, true
					}
					return false, false
				}},
				{Name: "revealed", Cond: func(rel *Term) (bool, bool) {
					return strings.HasPrefix(rel.Op, "field:x/oracle/types.QueryMeta.HasRevealedReports"), true
				}},
				{Name: "expired", Exact: true, Cond: func(rel *Term) (bool, bool) {
					if w, ok := asWindowRel(rel); ok && w.eFirst && w.op == "<" {
						return true, true
					}
					return false, false
				}},
			}
			ps := AnalyzePaths(fn, atoms)
			for _, cs := range P.CallSitesIn(fn) {
				if cs.Desc() == "coll:x/oracle/keeper.Keeper.Query.Remove" {
					bad := ps.Require(cs.Instr, func(v map[string]bool) bool { return v["noTip"] && !v["revealed"] && v["expired"] })
					r.check(len(bad) == 0, "TIP-CARRY", "(x/oracle/keeper.Keeper).ClearOldqueries # remove only expired, untipped, unreported rounds", P.Pos(cs.Pos()), fmt.Sprintf("valuations: %v", statesStr(ps, cs.Instr)))
				}
			}
		}
		var rem []string
		for _, s := range P.Sites(descIs("coll:x/oracle/keeper.Keeper.Query.Remove")) {
			rem = append(rem, FuncName(TopFunc(s.Fn)))
		}
		sort.Strings(rem)
		r.check(fmt.Sprint(rem) == "[(x/oracle/keeper.Keeper).ClearOldqueries (x/oracle/keeper.Keeper).SetAggregatedReport]", "TIP-CARRY", "removers of Query", "-", fmt.Sprint(rem))
	}
	r.minCount("ADMIT", 8)
	r.minCount("WINDOW", 3)
	r.minCount("ONCE-AGG", 3)
	r.minCount("TIP-CARRY", 2)
}
