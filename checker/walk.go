package main

// RANGE-MUTATION: a `for i, x := range S` evaluates S once; removing from S (re-slicing it,
// or calling a method that reassigns it) inside the body makes the remaining iterations
// read shifted or stale elements and index past the shortened slice. The detector works on
// the type-checked syntax tree and resolves methods to their declarations in any loaded
// package (also dependencies).

import (
	"fmt"
	"go/ast"
	"go/importer"
	"go/parser"
	"go/token"
	"go/types"
	"strings"

	"golang.org/x/tools/go/packages"
)

type walkFinding struct {
	Pos  token.Pos
	Fn   string
	What string
}

type walkCtx struct {
	info   *types.Info
	declOf func(*types.Func) *ast.FuncDecl
}

// lvalueKey renders ident / selector chains ("ubd.Entries"); "" for anything else.
func lvalueKey(info *types.Info, e ast.Expr) string {
	switch x := stripParens(e).(type) {
	case *ast.Ident:
		if o := info.ObjectOf(x); o != nil {
			return fmt.Sprintf("%s@%d", x.Name, o.Pos())
		}
		return x.Name
	case *ast.SelectorExpr:
		b := lvalueKey(info, x.X)
		if b == "" {
			return ""
		}
		return b + "." + x.Sel.Name
	case *ast.StarExpr:
		return lvalueKey(info, x.X)
	case *ast.UnaryExpr:
		if x.Op == token.AND {
			return lvalueKey(info, x.X)
		}
	}
	return ""
}

// shrinks reports whether `lhs = rhs` re-slices lhs to fewer elements: append(lhs[:i], lhs[j:]...) or lhs[a:b].
func shrinks(info *types.Info, lhs, rhs ast.Expr) bool {
	k := lvalueKey(info, lhs)
	if k == "" {
		return false
	}
	switch r := stripParens(rhs).(type) {
	case *ast.CallExpr:
		if id, ok := r.Fun.(*ast.Ident); ok && id.Name == "append" && len(r.Args) >= 1 {
			if se, ok := stripParens(r.Args[0]).(*ast.SliceExpr); ok && lvalueKey(info, se.X) == k {
				return true
			}
		}
	case *ast.SliceExpr:
		return lvalueKey(info, r.X) == k
	}
	return false
}

// methodShrinksField: the method's body assigns a shrinking expression to recv.<field>.
func (w *walkCtx) methodShrinksField(fn *types.Func, field string) bool {
	fd := w.declOf(fn)
	if fd == nil || fd.Body == nil || fd.Recv == nil || len(fd.Recv.List) == 0 || len(fd.Recv.List[0].Names) == 0 {
		return false
	}
	recv := fd.Recv.List[0].Names[0].Name
	found := false
	ast.Inspect(fd.Body, func(n ast.Node) bool {
		as, ok := n.(*ast.AssignStmt)
		if !ok {
			return true
		}
		for i, l := range as.Lhs {
			if se, ok := stripParens(l).(*ast.SelectorExpr); ok && se.Sel.Name == field {
				if id, ok := stripParens(se.X).(*ast.Ident); ok && id.Name == recv && i < len(as.Rhs) {
					// any reassignment of the ranged field from itself counts
					if strings.Contains(exprText(as.Rhs[i]), recv+"."+field) {
						found = true
					}
				}
			}
		}
		return true
	})
	return found
}

func exprText(e ast.Expr) string { return exprStr(token.NewFileSet(), e) }

// terminatesAfter: the statement list leaves the loop right after index i (break / return / panic).
func terminatesAfter(list []ast.Stmt, i int) bool {
	for _, s := range list[i+1:] {
		switch x := s.(type) {
		case *ast.BranchStmt:
			return x.Tok == token.BREAK
		case *ast.ReturnStmt:
			return true
		case *ast.ExprStmt, *ast.AssignStmt, *ast.IncDecStmt:
			continue
		default:
			return false
		}
	}
	return false
}

func (w *walkCtx) scan(fnName string, body *ast.BlockStmt) []walkFinding {
	var out []walkFinding
	ast.Inspect(body, func(n ast.Node) bool {
		rs, ok := n.(*ast.RangeStmt)
		if !ok || rs.Key == nil {
			return true
		}
		if t := w.info.TypeOf(rs.X); t == nil {
			return true
		} else if _, isSlice := t.Underlying().(*types.Slice); !isSlice {
			return true
		}
		key := lvalueKey(w.info, rs.X)
		if key == "" {
			return true
		}
		base, field := key, ""
		if i := strings.LastIndex(key, "."); i >= 0 {
			base, field = key[:i], key[i+1:]
		}
		var visit func(list []ast.Stmt)
		checkStmt := func(list []ast.Stmt, i int, s ast.Stmt) {
			mut := ""
			switch x := s.(type) {
			case *ast.AssignStmt:
				for j, l := range x.Lhs {
					if j < len(x.Rhs) && lvalueKey(w.info, l) == key && shrinks(w.info, l, x.Rhs[j]) {
						mut = "re-slices " + exprText(l)
					}
				}
			case *ast.ExprStmt:
				if c, ok := x.X.(*ast.CallExpr); ok && field != "" {
					if se, ok := c.Fun.(*ast.SelectorExpr); ok && lvalueKey(w.info, se.X) == base {
						if f, ok := w.info.ObjectOf(se.Sel).(*types.Func); ok && w.methodShrinksField(f, field) {
							mut = "calls " + exprText(c.Fun) + ", which reassigns ." + field
						}
					}
				}
			}
			if mut != "" && !terminatesAfter(list, i) {
				out = append(out, walkFinding{Pos: s.Pos(), Fn: fnName, What: "range over " + exprText(rs.X) + " " + mut + " and keeps iterating"})
			}
		}
		visit = func(list []ast.Stmt) {
			for i, s := range list {
				checkStmt(list, i, s)
				switch x := s.(type) {
				case *ast.BlockStmt:
					visit(x.List)
				case *ast.IfStmt:
					visit(x.Body.List)
					for e := x.Else; e != nil; {
						switch y := e.(type) {
						case *ast.BlockStmt:
							visit(y.List)
							e = nil
						case *ast.IfStmt:
							visit(y.Body.List)
							e = y.Else
						default:
							e = nil
						}
					}
				case *ast.SwitchStmt:
					for _, c := range x.Body.List {
						visit(c.(*ast.CaseClause).Body)
					}
				}
			}
		}
		visit(rs.Body.List)
		return true
	})
	return out
}

// rangeMutations scans every non-generated function declaration of the repository packages.
func rangeMutations(P *Prog) (findings []walkFinding, scannedFuncs, scannedRanges int) {
	declIndex := map[*types.Func]*ast.FuncDecl{}
	indexed := map[*packages.Package]bool{}
	var all []*packages.Package
	packages.Visit(P.Pkgs, nil, func(p *packages.Package) { all = append(all, p) })
	byTypes := map[*types.Package]*packages.Package{}
	for _, p := range all {
		byTypes[p.Types] = p
	}
	declOf := func(f *types.Func) *ast.FuncDecl {
		if f == nil || f.Pkg() == nil {
			return nil
		}
		p := byTypes[f.Pkg()]
		if p == nil {
			return nil
		}
		if !indexed[p] {
			indexed[p] = true
			for _, file := range p.Syntax {
				for _, d := range file.Decls {
					if fd, ok := d.(*ast.FuncDecl); ok {
						if o, ok := p.TypesInfo.Defs[fd.Name].(*types.Func); ok {
							declIndex[o] = fd
						}
					}
				}
			}
		}
		return declIndex[f.Origin()]
	}
	for _, p := range P.Pkgs {
		if !inRepoPath(p.PkgPath) {
			continue
		}
		w := &walkCtx{info: p.TypesInfo, declOf: declOf}
		for _, file := range p.Syntax {
			if generatedFile(P.Fset.Position(file.Pos()).Filename) {
				continue
			}
			for _, d := range file.Decls {
				fd, ok := d.(*ast.FuncDecl)
				if !ok || fd.Body == nil {
					continue
				}
				scannedFuncs++
				ast.Inspect(fd.Body, func(n ast.Node) bool {
					if _, ok := n.(*ast.RangeStmt); ok {
						scannedRanges++
					}
					return true
				})
				name := short(p.PkgPath) + "." + fd.Name.Name
				if fd.Recv != nil && len(fd.Recv.List) > 0 {
					name = short(p.PkgPath) + ".(" + exprText(fd.Recv.List[0].Type) + ")." + fd.Name.Name
				}
				findings = append(findings, w.scan(name, fd.Body)...)
			}
		}
	}
	return
}

// walkPositiveExample type-checks a self-contained snippet with the defect and returns how many
// findings the detector produces on it (must be 2: a method that shrinks the field, and a direct re-slice).
const walkExampleSrc = `package p
type E struct{ B int }
type U struct{ Entries []E }
func (u *U) RemoveEntry(i int64) { u.Entries = append(u.Entries[:i], u.Entries[i+1:]...) }
func viaMethod(u U, t int) int {
	for i, e := range u.Entries {
		if e.B < t {
			t -= e.B
			u.RemoveEntry(int64(i))
		} else {
			break
		}
	}
	return t
}
func direct(s []E, t int) []E {
	for i, e := range s {
		if e.B < t {
			s = append(s[:i], s[i+1:]...)
		}
	}
	return s
}
func fine(s []E, t int) []E {
	for i, e := range s {
		if e.B == t {
			s = append(s[:i], s[i+1:]...)
			break
		}
	}
	return s
}
`

func walkPositiveExample() (int, error) {
	fset := token.NewFileSet()
	f, err := parser.ParseFile(fset, "example.go", walkExampleSrc, 0)
	if err != nil {
		return 0, err
	}
	info := &types.Info{Types: map[ast.Expr]types.TypeAndValue{}, Defs: map[*ast.Ident]types.Object{}, Uses: map[*ast.Ident]types.Object{}, Selections: map[*ast.SelectorExpr]*types.Selection{}}
	conf := types.Config{Importer: importer.Default()}
	if _, err := conf.Check("p", fset, []*ast.File{f}, info); err != nil {
		return 0, err
	}
	decls := map[*types.Func]*ast.FuncDecl{}
	for _, d := range f.Decls {
		if fd, ok := d.(*ast.FuncDecl); ok {
			if o, ok := info.Defs[fd.Name].(*types.Func); ok {
				decls[o] = fd
			}
		}
	}
	w := &walkCtx{info: info, declOf: func(fn *types.Func) *ast.FuncDecl { return decls[fn] }}
	n := 0
	for _, d := range f.Decls {
		if fd, ok := d.(*ast.FuncDecl); ok && fd.Body != nil {
			n += len(w.scan(fd.Name.Name, fd.Body))
		}
	}
	return n, nil
}
