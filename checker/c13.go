package main

// C13 — dispute settlement pays out what was paid in, once (once-only flags, payer
// recording, pro-rata shapes, exhaustive outcome switches).

import (
	"fmt"
	"go/token"
	"go/types"
	"math/big"
	"sort"
	"strings"

	"golang.org/x/tools/go/ssa"
)

func init() { register("C13", checkC13) }

func callEventName(P *Prog, pred func(*CallSite) bool) func(ssa.Instruction) (bool, int8) {
	return P.CallEvent(pred, T)
}

// loopHeaders returns the loop header blocks of fn (range / for loops).
func loopHeaders(fn *ssa.Function) []*ssa.BasicBlock {
	var out []*ssa.BasicBlock
	for _, b := range fn.Blocks {
		switch b.Comment {
		case "rangeindex.loop", "for.loop", "rangeiter.loop", "for.post":
			if b.Comment == "for.post" {
				continue
			}
			out = append(out, b)
		}
	}
	return out
}

// everyIterationPasses: in each loop of fn whose header condition mentions `over`, every path
// from the header to a back edge passes an instruction matched by ev. Returns (loops found, failing description).
func everyIterationPasses(P *Prog, fn *ssa.Function, over string, ev func(*CallSite) bool) (int, string) {
	tm := NewTermer()
	n := 0
	for _, h := range loopHeaders(fn) {
		if len(h.Instrs) == 0 {
			continue
		}
		iff, ok := h.Instrs[len(h.Instrs)-1].(*ssa.If)
		if !ok {
			continue
		}
		if !tm.Of(iff.Cond).Has(over) && !strings.Contains(tm.Of(iff.Cond).String(), over) {
			continue
		}
		n++
		first := h.Instrs[0]
		atoms := []Atom{{Name: "passed", Event: func(in ssa.Instruction) (bool, int8) {
			if in == first {
				return true, F
			}
			if c, ok := in.(ssa.CallInstruction); ok {
				if cs := P.siteOf(c); cs != nil && ev(cs) {
					return true, T
				}
			}
			return false, U
		}}}
		ps := AnalyzePaths(fn, atoms)
		for _, pred := range h.Preds {
			if !h.Dominates(pred) {
				continue
			}
			last := pred.Instrs[len(pred.Instrs)-1]
			for _, s := range ps.At(last) {
				// apply events of the last instruction itself is irrelevant (jump)
				if int8(s[0]) != T {
					return n, fmt.Sprintf("an iteration can reach the loop's back edge (block %d -> header %d) without passing it", pred.Index, h.Index)
				}
			}
		}
	}
	return n, ""
}

func checkC13(r *Result) {
	P := r.P
	defer checkLostUpdates(r, "C13")
	r.Explanation = "Structural rules for dispute settlement, decided on the SSA of the dispute keeper: execution, reward claims and fee refunds are once-only (the flag test dominates every payout and every paying success path stores the flag / removes the record); the outcome switches are exhaustive over the VoteResult enum or fail closed; a fee payer's record accumulates (read-modify-write) and every function that takes a dispute fee records its payer; the refund, bond reward and voter reward have the pro-rata algebraic normal form own*pot/total with a pot that does not depend on the claimant; half of BurnAmount is burned and the other half is the voters' pot (all of it burned when nobody voted); the voter-reward totals accumulate over every round; and the refund base of each branch is the amount that was not burned."
	r.NotDecided = "conservation of the sums over all outcomes and claim orders; that no claim ever fails for lack of funds; the amounts of the outcome-dependent flows beyond the shapes above"
	r.Assumptions = []string{"a failed transaction is rolled back, so ordering inside a handler matters only on success paths", "x/bank moves exactly the coins it is given"}
	r.rule("ONCE-EXECUTE", "in ExecuteVote every effect is under !vote.Executed and every success path with an effect stores Executed=true")
	r.rule("ONCE-PER-DISPUTE", "a round superseded by a new round leaves the execution queue, so only the final round is settled")
	r.rule("ONCE-CLAIM", "ClaimReward pays only when the reward was not claimed and stores RewardClaimed=true before paying")
	r.rule("ONCE-REFUND", "WithdrawFeeRefund pays only an existing payer record, only for a failed or executed dispute, and removes the record on every success path")
	r.rule("EXHAUSTIVE", "switches over VoteResult cover every constant or fail closed")
	r.rule("RMW-PAYER", "a payer record is accumulated (read-modify-write), except for a fresh dispute id")
	r.rule("PAY-RECORD", "every function that takes a dispute fee records the payer on its success paths")
	r.rule("PRO-RATA", "refund, bond reward and voter reward have the normal form own * pot / total with a claimant-independent pot")
	r.rule("BURN-HALF", "half of BurnAmount is burned and half is the voters' pot; all is burned and the pot is zero when nobody voted")
	r.rule("ALL-ROUNDS", "vote totals used for the voter reward accumulate over every round of the dispute")
	r.rule("POWER-PARTITION", "the per-voter powers recorded add up to the group totals the reward is divided by: a selector voting after its reporter is taken out of the reporter's recorded power")
	r.rule("REFUND-POT", "the refund base handed to RefundDisputeFee is the part of the fees that was not burned")

	need := func(name string) *ssa.Function {
		f := P.Func(name)
		if f == nil {
			r.broken("anchor %s does not resolve", name)
		} else {
			r.fn(name)
		}
		return f
	}
	isEffect := func(c *CallSite) bool {
		return isBankCall(c, "BurnCoins") || c.Callee == "(x/dispute/keeper.Keeper).ReturnSlashedTokens" || strings.HasPrefix(c.Method, "SendCoins")
	}

	// ---- ONCE-EXECUTE
	if ev := need("(x/dispute/keeper.Keeper).ExecuteVote"); ev != nil {
		executed := func(rel *Term) (bool, bool) {
			return strings.HasPrefix(rel.Op, "field:x/dispute/types.Vote.Executed"), true
		}
		atoms := []Atom{
			{Name: "executed", Cond: executed},
			{Name: "effect", Event: P.CallEvent(isEffect, T)},
			{Name: "marked", Event: func(in ssa.Instruction) (bool, int8) {
				return storesConstToField(in, "x/dispute/types.Vote.Executed", "true"), T
			}},
			{Name: "saved", Event: P.CallEvent(descIs("coll:x/dispute/keeper.Keeper.Votes.Set"), T)},
		}
		ps := AnalyzePaths(ev, atoms)
		nEff := 0
		for _, cs := range P.CallSitesIn(ev) {
			if isEffect(cs) {
				nEff++
				bad := ps.Require(cs.Instr, func(v map[string]bool) bool { return !v["executed"] })
				// the flag test must actually have been evaluated on the path
				unknown := false
				for _, s := range ps.At(cs.Instr) {
					if int8(s[0]) != F {
						unknown = true
					}
				}
				r.check(len(bad) == 0 && !unknown, "ONCE-EXECUTE", fmt.Sprintf("(x/dispute/keeper.Keeper).ExecuteVote # %s under !vote.Executed", cs.Desc()), P.Pos(cs.Pos()), fmt.Sprintf("valuations: %v", statesStr(ps, cs.Instr)))
			}
			if cs.Desc() == "coll:x/dispute/keeper.Keeper.Votes.Set" {
				bad := ps.Require(cs.Instr, func(v map[string]bool) bool { return v["marked"] })
				r.check(len(bad) == 0, "ONCE-EXECUTE", "(x/dispute/keeper.Keeper).ExecuteVote # Votes.Set stores Executed=true", P.Pos(cs.Pos()), fmt.Sprintf("valuations: %v", statesStr(ps, cs.Instr)))
			}
		}
		okAll := true
		det := ""
		for _, ret := range SuccessReturns(ev) {
			if bad := ps.Require(ret, func(v map[string]bool) bool { return !v["effect"] || (v["marked"] && v["saved"]) }); len(bad) > 0 {
				okAll = false
				det = fmt.Sprint(bad)
			}
		}
		r.check(okAll && nEff >= 4, "ONCE-EXECUTE", "(x/dispute/keeper.Keeper).ExecuteVote # success with an effect => Executed=true stored", P.Pos(ev.Pos()), fmt.Sprintf("%d effect sites; failing valuations: %s", nEff, det))
		// an execution that happened did everything the result implies: burned its part (unless it is zero), returned
		// the reporter's stake unless the dispute was supported, saved the vote, and stored the dispute after setting the pot
		{
			sup := map[string]bool{"const:" + enumVal(P, "x/dispute/types", "VoteResult_SUPPORT"): true, "const:" + enumVal(P, "x/dispute/types", "VoteResult_NO_QUORUM_MAJORITY_SUPPORT"): true}
			mkRes := func(c string) func(rel *Term) (bool, bool) {
				return func(rel *Term) (bool, bool) {
					if rel.Op == "==" && len(rel.Args) == 2 && strings.HasPrefix(rel.Args[0].Op, "field:x/dispute/types.Vote.VoteResult") && rel.Args[1].Op == c {
						return true, true
					}
					return false, false
				}
			}
			var supAtoms []Atom
			var supNames []string
			for c := range sup {
				supAtoms = append(supAtoms, Atom{Name: "result=" + c, Cond: mkRes(c), Stable: true})
				supNames = append(supNames, "result="+c)
			}
			sort.Slice(supAtoms, func(i, j int) bool { return supAtoms[i].Name < supAtoms[j].Name })
			pe := AnalyzePaths(ev, append([]Atom{
				{Name: "marked", Event: func(in ssa.Instruction) (bool, int8) {
					return storesConstToField(in, "x/dispute/types.Vote.Executed", "true"), T
				}},
				{Name: "saved", Event: P.CallEvent(descIs("coll:x/dispute/keeper.Keeper.Votes.Set"), T)},
				{Name: "burned", Event: P.CallEvent(func(c *CallSite) bool { return isBankCall(c, "BurnCoins") }, T)},
				{Name: "halfZero", Stable: true, Cond: func(rel *Term) (bool, bool) {
					if rel.Op == "==" && len(rel.Args) == 2 && rel.Args[1].Op == "const:0" && rel.Args[0].Contains("Dispute.BurnAmount") {
						return true, true
					}
					return false, false
				}},
				{Name: "returned", Event: P.CallEvent(func(c *CallSite) bool { return c.Callee == "(x/dispute/keeper.Keeper).ReturnSlashedTokens" }, T)},
				{Name: "potStored", Event: func(in ssa.Instruction) (bool, int8) {
					if st, ok := in.(*ssa.Store); ok {
						if fa, ok := st.Addr.(*ssa.FieldAddr); ok && fieldName(fa.X.Type(), fa.Field) == "x/dispute/types.Dispute.VoterReward" {
							return true, F // the pot is set: the dispute has to be stored after this
						}
					}
					if c, ok := in.(ssa.CallInstruction); ok {
						if cs := P.siteOf(c); cs != nil && cs.Desc() == "coll:x/dispute/keeper.Keeper.Disputes.Set" {
							return true, T
						}
					}
					return false, U
				}},
				{Name: "potSet", Event: func(in ssa.Instruction) (bool, int8) {
					if st, ok := in.(*ssa.Store); ok {
						if fa, ok := st.Addr.(*ssa.FieldAddr); ok && fieldName(fa.X.Type(), fa.Field) == "x/dispute/types.Dispute.VoterReward" {
							return true, T
						}
					}
					return false, U
				}},
			}, supAtoms...))
			okAll, n, det := true, 0, ""
			for _, ret := range SuccessReturns(ev) {
				n++
				if bad := pe.Require(ret, func(v map[string]bool) bool {
					if !v["marked"] {
						return true // nothing was executed on this path (ONCE-EXECUTE: no effect without the mark)
					}
					supported := false
					for _, nm := range supNames {
						supported = supported || v[nm]
					}
					return v["saved"] && (v["burned"] || v["halfZero"]) && (v["returned"] || supported) && v["potSet"] && v["potStored"]
				}); len(bad) > 0 {
					okAll, det = false, fmt.Sprint(bad)
				}
			}
			r.check(okAll && n > 0 && len(pe.Matched["halfZero"]) >= 3 && len(pe.Matched[supNames[0]]) > 0 && len(pe.Matched[supNames[1]]) > 0, "ONCE-EXECUTE", "(x/dispute/keeper.Keeper).ExecuteVote # an execution burned its part, returned the stake unless supported, saved the vote and stored the dispute with its pot", P.Pos(ev.Pos()), fmt.Sprintf("%d success returns %s", n, det))
		}
		// EXHAUSTIVE
		for _, es := range P.EnumSwitches(ev) {
			if es.TypeName == "x/dispute/types.VoteResult" {
				r.check(len(es.Missing) == 0 || es.ErrDefault, "EXHAUSTIVE", "(x/dispute/keeper.Keeper).ExecuteVote # switch "+es.Tag, P.Pos(es.Pos), fmt.Sprintf("covered %d constants, missing %v, failing default: %v", len(es.Covered), es.Missing, es.ErrDefault))
			}
		}
		// BURN-HALF
		le := &linEval{Atomise: func(t *Term) string {
			if strings.HasPrefix(t.Op, "field:x/dispute/types.Dispute.BurnAmount") {
				return "BurnAmount"
			}
			return ""
		}}
		tm := NewTermer()
		edgePolys := func(v ssa.Value) []string {
			var out []string
			var vals []ssa.Value
			if ph, ok := v.(*ssa.Phi); ok {
				vals = ph.Edges
			} else {
				vals = []ssa.Value{v}
			}
			for _, e := range vals {
				out = append(out, le.Eval(tm.Of(e)).String())
			}
			sort.Strings(out)
			return out
		}
		for _, cs := range P.CallSitesIn(ev) {
			if isBankCall(cs, "BurnCoins") {
				// NewCoins(NewCoin(denom, amount)): dig the amount value
				amt := digCoinAmount(Arg(cs.Instr, 2))
				got := edgePolys(amt)
				ok := len(got) == 2 && got[0] == "1/2 * BurnAmount^1" && got[1] == "BurnAmount^1"
				r.check(ok, "BURN-HALF", "(x/dispute/keeper.Keeper).ExecuteVote # burned amount in {BurnAmount/2, BurnAmount}", P.Pos(cs.Pos()), fmt.Sprintf("normal forms of the merged values: %v", got))
			}
		}
		for _, b := range ev.Blocks {
			for _, in := range b.Instrs {
				if st, ok := in.(*ssa.Store); ok {
					if fa, ok := st.Addr.(*ssa.FieldAddr); ok && fieldName(fa.X.Type(), fa.Field) == "x/dispute/types.Dispute.VoterReward" {
						got := edgePolys(st.Val)
						ok := len(got) == 2 && got[0] == "0" && got[1] == "1/2 * BurnAmount^1"
						r.check(ok, "BURN-HALF", "(x/dispute/keeper.Keeper).ExecuteVote # voters' pot in {BurnAmount/2, 0}", P.Pos(in.Pos()), fmt.Sprintf("normal forms: %v", got))
					}
				}
			}
		}
	}

	// ---- ONCE-CLAIM
	if cr := need("(x/dispute/keeper.Keeper).ClaimReward"); cr != nil {
		atoms := []Atom{
			{Name: "claimed", Cond: func(rel *Term) (bool, bool) {
				return strings.HasPrefix(rel.Op, "field:x/dispute/types.Voter.RewardClaimed"), true
			}},
			{Name: "notFound", Cond: func(rel *Term) (bool, bool) {
				return rel.Op == "call:errors.Is" && len(rel.Args) == 2 && strings.Contains(rel.Args[1].Op, "ErrNotFound"), true
			}},
			// the error of the single Voter.Get: tracked so that `err != nil && ...` followed by `err == nil && ...`
			// does not produce the infeasible mixed path
			{Name: "readOk", Stable: true, Cond: func(rel *Term) (bool, bool) {
				return rel.Op == "==" && len(rel.Args) == 2 && rel.Args[0].Op == "ext:1" && rel.Args[0].Has("field:x/dispute/keeper.Keeper.Voter") && rel.Args[1].Op == "const:nil", true
			}},
			{Name: "marked", Event: func(in ssa.Instruction) (bool, int8) {
				return storesConstToField(in, "x/dispute/types.Voter.RewardClaimed", "true"), T
			}},
			{Name: "saved", Event: P.CallEvent(descIs("coll:x/dispute/keeper.Keeper.Voter.Set"), T)},
			{Name: "resolved", Cond: func(rel *Term) (bool, bool) {
				if rel.Op == "==" && len(rel.Args) == 2 && strings.HasPrefix(rel.Args[0].Op, "field:x/dispute/types.Dispute.DisputeStatus") && rel.Args[1].Op == "const:"+enumVal(P, "x/dispute/types", "Resolved") {
					return true, true
				}
				return false, false
			}},
		}
		ps := AnalyzePaths(cr, atoms)
		n := 0
		for _, cs := range P.CallSitesIn(cr) {
			if strings.HasPrefix(cs.Method, "SendCoins") {
				n++
				bad := ps.Require(cs.Instr, func(v map[string]bool) bool {
					return (v["notFound"] || !v["claimed"]) && v["marked"] && v["saved"] && v["resolved"]
				})
				sawFlag := len(ps.Matched["claimed"]) > 0
				r.check(len(bad) == 0 && sawFlag, "ONCE-CLAIM", "(x/dispute/keeper.Keeper).ClaimReward # pay only if unclaimed, flag stored first, dispute resolved", P.Pos(cs.Pos()), fmt.Sprintf("valuations: %v", statesStr(ps, cs.Instr)))
			}
		}
		r.check(n == 1, "ONCE-CLAIM", "(x/dispute/keeper.Keeper).ClaimReward # one payout site", P.Pos(cr.Pos()), fmt.Sprintf("%d payout sites", n))
	}

	// ---- ONCE-REFUND / REFUND-POT / EXHAUSTIVE
	if wf := need("(x/dispute/keeper.msgServer).WithdrawFeeRefund"); wf != nil {
		isPayout := func(c *CallSite) bool {
			return c.Callee == "(x/dispute/keeper.Keeper).RefundDisputeFee" || c.Callee == "(x/dispute/keeper.Keeper).RewardReporterBondToFeePayers"
		}
		atoms := []Atom{
			{Name: "payerMissing", Cond: func(rel *Term) (bool, bool) {
				if rel.Op == "==" && len(rel.Args) == 2 && rel.Args[0].Op == "ext:1" && rel.Args[0].Has("field:x/dispute/keeper.Keeper.DisputeFeePayer") && rel.Args[1].Op == "const:nil" {
					return true, false
				}
				return false, false
			}},
			{Name: "failed", Cond: func(rel *Term) (bool, bool) {
				if rel.Op == "==" && len(rel.Args) == 2 && strings.HasPrefix(rel.Args[0].Op, "field:x/dispute/types.Dispute.DisputeStatus") && rel.Args[1].Op == "const:"+enumVal(P, "x/dispute/types", "Failed") {
					return true, true
				}
				return false, false
			}},
			{Name: "executed", Cond: func(rel *Term) (bool, bool) {
				return strings.HasPrefix(rel.Op, "field:x/dispute/types.Vote.Executed"), true
			}},
			{Name: "removed", Event: P.CallEvent(descIs("coll:x/dispute/keeper.Keeper.DisputeFeePayer.Remove"), T)},
			{Name: "paid", Event: P.CallEvent(isPayout, T)},
		}
		ps := AnalyzePaths(wf, atoms)
		le := &linEval{Atomise: func(t *Term) string {
			for _, f := range []string{"FeeTotal", "SlashAmount", "BurnAmount"} {
				if strings.HasPrefix(t.Op, "field:x/dispute/types.Dispute."+f) {
					return f
				}
			}
			return ""
		}}
		tm := NewTermer()
		nPay := 0
		for _, cs := range P.CallSitesIn(wf) {
			if !isPayout(cs) {
				continue
			}
			nPay++
			bad := ps.Require(cs.Instr, func(v map[string]bool) bool { return !v["payerMissing"] && (v["failed"] || v["executed"]) })
			known := false
			for _, s := range ps.At(cs.Instr) {
				if int8(s[0]) == F {
					known = true
				}
			}
			r.check(len(bad) == 0 && known, "ONCE-REFUND", fmt.Sprintf("(x/dispute/keeper.msgServer).WithdrawFeeRefund # %s for an existing payer of a failed or executed dispute", cs.Method), P.Pos(cs.Pos()), fmt.Sprintf("valuations: %v", statesStr(ps, cs.Instr)))
			if cs.Callee == "(x/dispute/keeper.Keeper).RefundDisputeFee" {
				total := le.Eval(tm.Of(Arg(cs.Instr, 3)))
				base := le.Eval(tm.Of(Arg(cs.Instr, 4)))
				isFailedBranch := true
				for _, s := range ps.At(cs.Instr) {
					if int8(s[1]) != T {
						isFailedBranch = false
					}
				}
				if isFailedBranch {
					r.check(base.Equal(total), "REFUND-POT", "(x/dispute/keeper.msgServer).WithdrawFeeRefund # failed dispute: refund base = fees paid (nothing was burned)", P.Pos(cs.Pos()), fmt.Sprintf("total fees: %s ; refund base: %s — each payer recovers own*base/total", total, base))
				} else {
					want := atomPoly("SlashAmount").Sub(atomPoly("BurnAmount"))
					r.check(base.Equal(want) && total.Equal(atomPoly("FeeTotal")), "REFUND-POT", "(x/dispute/keeper.msgServer).WithdrawFeeRefund # executed dispute: refund base = SlashAmount - BurnAmount over FeeTotal", P.Pos(cs.Pos()), fmt.Sprintf("total: %s ; base: %s", total, base))
				}
			}
		}
		okAll := true
		det := ""
		for _, ret := range SuccessReturns(wf) {
			if bad := ps.Require(ret, func(v map[string]bool) bool { return v["removed"] && v["paid"] }); len(bad) > 0 {
				okAll = false
				det = fmt.Sprint(bad)
			}
		}
		r.check(okAll && nPay >= 3, "ONCE-REFUND", "(x/dispute/keeper.msgServer).WithdrawFeeRefund # success => paid and payer record removed", P.Pos(wf.Pos()), fmt.Sprintf("%d payout sites; failing valuations: %s", nPay, det))
		for _, es := range P.EnumSwitches(wf) {
			if es.TypeName == "x/dispute/types.VoteResult" {
				r.check(len(es.Missing) == 0 || es.ErrDefault, "EXHAUSTIVE", "(x/dispute/keeper.msgServer).WithdrawFeeRefund # switch "+es.Tag, P.Pos(es.Pos), fmt.Sprintf("covered %d constants, missing %v, failing default: %v", len(es.Covered), es.Missing, es.ErrDefault))
			}
		}
		// the payer record removed is the one read
		var getKey, remKey string
		for _, cs := range P.CallSitesIn(wf) {
			if cs.Desc() == "coll:x/dispute/keeper.Keeper.DisputeFeePayer.Get" {
				getKey = tm.Of(Arg(cs.Instr, 1)).String()
			}
			if cs.Desc() == "coll:x/dispute/keeper.Keeper.DisputeFeePayer.Remove" {
				remKey = tm.Of(Arg(cs.Instr, 1)).String()
			}
		}
		r.check(getKey != "" && getKey == remKey, "ONCE-REFUND", "(x/dispute/keeper.msgServer).WithdrawFeeRefund # removes the record it read", P.Pos(wf.Pos()), "read key: "+clip(getKey, 120)+" ; removed key: "+clip(remKey, 120))
	}

	// ---- RMW-PAYER
	if af := need("(x/dispute/keeper.msgServer).AddFeeToDispute"); af != nil {
		ps := AnalyzePaths(af, []Atom{{Name: "read", Event: P.CallEvent(descIs("coll:x/dispute/keeper.Keeper.DisputeFeePayer.Get"), T)}})
		n := 0
		tm := NewTermer()
		var getKey string
		for _, cs := range P.CallSitesIn(af) {
			if cs.Desc() == "coll:x/dispute/keeper.Keeper.DisputeFeePayer.Get" {
				getKey = tm.Of(Arg(cs.Instr, 1)).String()
			}
		}
		for _, cs := range P.CallSitesIn(af) {
			if cs.Desc() == "coll:x/dispute/keeper.Keeper.DisputeFeePayer.Set" {
				n++
				bad := ps.Require(cs.Instr, func(v map[string]bool) bool { return v["read"] })
				setKey := tm.Of(Arg(cs.Instr, 1)).String()
				// the stored amount is old + new
				acc := false
				for _, b := range af.Blocks {
					for _, in := range b.Instrs {
						if st, ok := in.(*ssa.Store); ok {
							if fa, ok := st.Addr.(*ssa.FieldAddr); ok && fieldName(fa.X.Type(), fa.Field) == "x/dispute/types.PayerInfo.Amount" {
								t := tm.Of(st.Val)
								if t.Op == "call:(cosmossdk.io/math.Int).Add" && len(t.Args) == 2 && strings.HasPrefix(t.Args[0].Op, "field:x/dispute/types.PayerInfo.Amount") {
									acc = true
								}
							}
						}
					}
				}
				r.check(len(bad) == 0 && acc && setKey == getKey, "RMW-PAYER", "(x/dispute/keeper.msgServer).AddFeeToDispute # DisputeFeePayer.Set accumulates the record it read", P.Pos(cs.Pos()), fmt.Sprintf("read before write on every path: %v ; stored amount = previous + payment: %v ; same key: %v", len(bad) == 0, acc, setKey == getKey))
			}
		}
		r.check(n == 1, "RMW-PAYER", "(x/dispute/keeper.msgServer).AddFeeToDispute # one payer write", P.Pos(af.Pos()), fmt.Sprintf("%d sites", n))
	}
	if snd := need("(x/dispute/keeper.Keeper).SetNewDispute"); snd != nil {
		tm := NewTermer()
		for _, cs := range P.CallSitesIn(snd) {
			if cs.Desc() == "coll:x/dispute/keeper.Keeper.DisputeFeePayer.Set" {
				k := tm.Of(Arg(cs.Instr, 1))
				r.check(k.Has("call:(x/dispute/keeper.Keeper).NextDisputeId"), "RMW-PAYER", "(x/dispute/keeper.Keeper).SetNewDispute # payer record under a fresh dispute id", P.Pos(cs.Pos()), "key: "+clip(k.String(), 160))
			}
		}
	}
	// all writers of the payer ledger
	{
		var ws []string
		for _, s := range P.Sites(descIs("coll:x/dispute/keeper.Keeper.DisputeFeePayer.Set")) {
			ws = append(ws, FuncName(TopFunc(s.Fn)))
		}
		sort.Strings(ws)
		okW := len(ws) >= 2
		for _, w := range ws {
			if w != "(x/dispute/keeper.msgServer).AddFeeToDispute" && w != "(x/dispute/keeper.Keeper).SetNewDispute" && !strings.Contains(w, "Genesis") && w != "(x/dispute/keeper.Keeper).AddDisputeRound" {
				okW = false
			}
		}
		r.check(okW, "RMW-PAYER", "writers of DisputeFeePayer", "-", fmt.Sprintf("%v", ws))
	}

	// ---- PAY-RECORD
	for _, s := range P.Sites(func(c *CallSite) bool { return c.Callee == "(x/dispute/keeper.Keeper).PayDisputeFee" }) {
		fn := TopFunc(s.Fn)
		r.fn(FuncName(fn))
		ps := AnalyzePaths(fn, []Atom{{Name: "paid", Event: P.CallEvent(func(c *CallSite) bool { return c.Callee == "(x/dispute/keeper.Keeper).PayDisputeFee" }, T)},
			{Name: "recorded", Event: P.CallEvent(descIs("coll:x/dispute/keeper.Keeper.DisputeFeePayer.Set"), T)}})
		okAll := true
		for _, ret := range SuccessReturns(fn) {
			if bad := ps.Require(ret, func(v map[string]bool) bool { return !v["paid"] || v["recorded"] }); len(bad) > 0 {
				okAll = false
			}
		}
		r.check(okAll, "PAY-RECORD", FuncName(fn)+" # fee taken => payer recorded", P.Pos(s.Pos()), "a success path takes a dispute fee (PayDisputeFee) without writing a DisputeFeePayer record: that payment can never be refunded or rewarded pro rata")
	}

	// ---- the converse and the rest of the bookkeeping: a payer record is written only for a fee that was taken, and
	// a fee that was taken is counted in the stored dispute
	for _, name := range []string{"(x/dispute/keeper.msgServer).AddFeeToDispute", "(x/dispute/keeper.Keeper).SetNewDispute"} {
		fn := need(name)
		if fn == nil {
			continue
		}
		requireAtSuccess(r, "PAY-RECORD", fn, "payer recorded => fee taken ; fee taken => the dispute is stored with it", []Atom{
			{Name: "paid", Event: P.CallEvent(func(c *CallSite) bool { return c.Callee == "(x/dispute/keeper.Keeper).PayDisputeFee" }, T)},
			{Name: "recorded", Event: P.CallEvent(descIs("coll:x/dispute/keeper.Keeper.DisputeFeePayer.Set"), T)},
			{Name: "disputeStored", Event: P.CallEvent(descIs("coll:x/dispute/keeper.Keeper.Disputes.Set"), T)},
		}, func(v map[string]bool) bool {
			return (!v["recorded"] || v["paid"]) && (!v["paid"] || v["disputeStored"])
		})
	}
	// fees are taken in the bond denom only (everything is paid back and burned in it)
	{
		denomOK := Atom{Name: "bondDenom", Stable: true, Cond: func(rel *Term) (bool, bool) {
			if rel.Op == "==" && len(rel.Args) == 2 && strings.HasPrefix(rel.Args[0].Op, "field:github.com/cosmos/cosmos-sdk/types.Coin.Denom") && (rel.Args[1].Op == "global:types.BondDenom" || rel.Args[1].Op == "const:loya") {
				return true, true
			}
			return false, false
		}}
		n := 0
		for _, spec := range [][2]string{
			{"(x/dispute/keeper.msgServer).AddFeeToDispute", "(x/dispute/keeper.Keeper).PayDisputeFee"},
			{"(x/dispute/keeper.msgServer).ProposeDispute", "(x/dispute/keeper.Keeper).SetNewDispute"},
			{"(x/dispute/keeper.msgServer).ProposeDispute", "(x/dispute/keeper.Keeper).AddDisputeRound"},
		} {
			fn := need(spec[0])
			if fn == nil {
				continue
			}
			ps := AnalyzePaths(fn, []Atom{denomOK})
			for _, cs := range P.CallSitesIn(fn) {
				if cs.Callee == spec[1] {
					n++
					bad := ps.Require(cs.Instr, func(v map[string]bool) bool { return v["bondDenom"] })
					r.check(len(bad) == 0, "PAY-RECORD", spec[0]+" # "+short(spec[1])+" only for a fee in the bond denom", P.Pos(cs.Pos()), fmt.Sprintf("valuations: %v", statesStr(ps, cs.Instr)))
				}
			}
		}
		r.check(n == 3, "PAY-RECORD", "fee-taking call sites of the two handlers", "-", fmt.Sprint(n))
	}
	// a payment from stake is refunded per payer (RefundDisputeFee -> FeeRefund(hashId, that payer's refund)): the record of what
	// was unbonded must therefore be kept per payer, i.e. its key names the paying reporter as well as the dispute
	if fn := need("(x/reporter/keeper.Keeper).FeefromReporterStake"); fn != nil {
		tmf := NewTermer()
		n := 0
		for _, cs := range P.CallSitesIn(fn) {
			if cs.Desc() != "coll:x/reporter/keeper.Keeper.FeePaidFromStake.Set" {
				continue
			}
			n++
			key := tmf.Of(Arg(cs.Instr, 1))
			r.check(key.Has("param:2:"), "PAY-RECORD", "(x/reporter/keeper.Keeper).FeefromReporterStake # the from-stake record is keyed by the payer as well as the dispute", P.Pos(cs.Pos()),
				"key: "+key.Brief()+" -- two reporters paying one dispute's fee from stake share one record; the first refund is spread over both and removes it")
		}
		r.check(n == 1, "PAY-RECORD", "(x/reporter/keeper.Keeper).FeefromReporterStake # one store of the from-stake record", P.Pos(fn.Pos()), fmt.Sprint(n))
	}
	if fn := need("(x/dispute/keeper.Keeper).ClaimReward"); fn != nil {
		requireAtSuccess(r, "ONCE-CLAIM", fn, "a successful claim stored the claimed flag and paid", []Atom{
			{Name: "flagStored", Event: P.CallEvent(descIs("coll:x/dispute/keeper.Keeper.Voter.Set"), T)},
			{Name: "paid", Event: P.CallEvent(func(c *CallSite) bool { return strings.HasSuffix(c.Callee, "BankKeeper.SendCoinsFromModuleToAccount") }, T)},
		}, func(v map[string]bool) bool { return v["flagStored"] && v["paid"] })
	}
	if fn := need("(x/dispute/keeper.Keeper).RewardReporterBondToFeePayers"); fn != nil {
		requireAtSuccess(r, "PRO-RATA", fn, "a successful bond reward was staked for the payer and moved to the bonded pool", []Atom{
			{Name: "staked", Event: P.CallEvent(func(c *CallSite) bool { return strings.HasSuffix(c.Callee, "ReporterKeeper.AddAmountToStake") }, T)},
			{Name: "moved", Event: P.CallEvent(func(c *CallSite) bool { return strings.HasSuffix(c.Callee, "BankKeeper.SendCoinsFromModuleToModule") }, T)},
		}, func(v map[string]bool) bool { return v["staked"] && v["moved"] })
	}
	if fn := need("(x/dispute/keeper.Keeper).RefundDisputeFee"); fn != nil {
		requireAtSuccess(r, "PRO-RATA", fn, "a successful refund went to the account of a payer from balance, to the stake of a payer from bond", []Atom{
			{Name: "fromBond", Stable: true, Cond: func(rel *Term) (bool, bool) {
				return strings.HasPrefix(rel.Op, "field:x/dispute/types.PayerInfo.FromBond"), true
			}},
			{Name: "toAccount", Event: P.CallEvent(func(c *CallSite) bool { return strings.HasSuffix(c.Callee, "BankKeeper.SendCoinsFromModuleToAccount") }, T)},
			{Name: "toStake", Event: P.CallEvent(func(c *CallSite) bool { return c.Callee == "(x/dispute/keeper.Keeper).ReturnFeetoStake" }, T)},
		}, func(v map[string]bool) bool {
			if v["fromBond"] {
				return v["toStake"] && !v["toAccount"]
			}
			return v["toAccount"] && !v["toStake"]
		}, "fromBond")
	}
	if fn := need("(x/dispute/keeper.msgServer).WithdrawFeeRefund"); fn != nil {
		requireAtSuccess(r, "ONCE-REFUND", fn, "the sub-unit dust of a refund is kept, and burned once it reaches a unit", []Atom{
			{Name: "dustStored", Event: P.CallEvent(descIs("coll:x/dispute/keeper.Keeper.Dust.Set"), T)},
			{Name: "burned", Event: P.CallEvent(func(c *CallSite) bool { return isBankCall(c, "BurnCoins") }, T)},
			{Name: "noWholeUnit", Stable: true, Cond: func(rel *Term) (bool, bool) {
				if rel.Op == "==" && len(rel.Args) == 2 && rel.Args[1].Op == "const:0" && rel.Args[0].Contains("TruncateInt") {
					return true, true
				}
				return false, false
			}},
		}, func(v map[string]bool) bool { return v["dustStored"] && (v["burned"] || v["noWholeUnit"]) }, "noWholeUnit")
	}

	// ---- the books of a dispute: the amounts stored into the dispute record have the specified forms
	{
		tmb := NewTermer()
		leb := &linEval{Atomise: func(t *Term) string {
			for _, f := range []string{"FeeTotal", "SlashAmount", "BurnAmount"} {
				if strings.HasPrefix(t.Op, "field:x/dispute/types.Dispute."+f) {
					return f
				}
			}
			if t.Op == "ext:0" && t.Contains("Keeper).GetDisputeFee") {
				return "disputeFee"
			}
			inner := t
			if strings.HasPrefix(t.Op, "after-store:") && len(t.Args) == 1 {
				inner = t.Args[0] // the (capped) amount as it stands after the handler's own assignments
			}
			if strings.HasSuffix(inner.Op, "Coin.Amount") && (inner.Contains("MsgAddFeeToDispute") || inner.Contains("MsgProposeDispute")) {
				return "paid"
			}
			return ""
		}}
		storesOf := func(fn *ssa.Function, field string) []*Poly {
			var out []*Poly
			for _, b := range fn.Blocks {
				for _, in := range b.Instrs {
					if st, ok := in.(*ssa.Store); ok {
						if fa, ok := st.Addr.(*ssa.FieldAddr); ok && fieldName(fa.X.Type(), fa.Field) == "x/dispute/types.Dispute."+field {
							out = append(out, leb.Eval(tmb.Of(st.Val)))
						}
					}
				}
			}
			return out
		}
		one := func(ps []*Poly) string {
			if len(ps) != 1 {
				return fmt.Sprintf("%d stores", len(ps))
			}
			return ps[0].String()
		}
		if fn := need("(x/dispute/keeper.Keeper).SetNewDispute"); fn != nil {
			sl, bu := one(storesOf(fn, "SlashAmount")), one(storesOf(fn, "BurnAmount"))
			r.check(sl == "disputeFee^1" && bu == "1/20 * disputeFee^1", "BURN-HALF", "(x/dispute/keeper.Keeper).SetNewDispute # the amount at stake is the dispute fee and the burn amount is a twentieth of it", P.Pos(fn.Pos()), "SlashAmount = "+sl+" ; BurnAmount = "+bu)
		}
		if fn := need("(x/dispute/keeper.Keeper).SetNewDispute"); fn != nil {
			checkSameAmountVersion(r, "PAY-RECORD", fn)
		}
		if fn := need("(x/dispute/keeper.msgServer).AddFeeToDispute"); fn != nil {
			ft := one(storesOf(fn, "FeeTotal"))
			r.check(ft == "FeeTotal^1 + paid^1" || ft == "paid^1 + FeeTotal^1", "PAY-RECORD", "(x/dispute/keeper.msgServer).AddFeeToDispute # the fee total grows by the amount taken", P.Pos(fn.Pos()), "FeeTotal = "+ft)
		}
		if fn := need("(x/dispute/keeper.Keeper).ExecuteVote"); fn != nil {
			sl := one(storesOf(fn, "SlashAmount"))
			r.check(sl == "-1 * BurnAmount^1 + 2 * SlashAmount^1" || sl == "2 * SlashAmount^1 + -1 * BurnAmount^1" || sl == "2 * SlashAmount^1 - BurnAmount^1", "BURN-HALF", "(x/dispute/keeper.Keeper).ExecuteVote # a reporter who wins gets the stake back plus the fees that are not burned (2 x SlashAmount - BurnAmount)", P.Pos(fn.Pos()), "returned = "+sl)
		}
		if fn := need("(x/dispute/keeper.msgServer).WithdrawFeeRefund"); fn != nil {
			for _, cs := range P.CallSitesIn(fn) {
				if cs.Callee == "(x/dispute/keeper.Keeper).RewardReporterBondToFeePayers" {
					tot, bond := leb.Eval(tmb.Of(Arg(cs.Instr, 3))).String(), leb.Eval(tmb.Of(Arg(cs.Instr, 4))).String()
					r.check(tot == "FeeTotal^1" && bond == "SlashAmount^1", "PRO-RATA", "(x/dispute/keeper.msgServer).WithdrawFeeRefund # the bond reward divides the slashed stake by the total of fees", P.Pos(cs.Pos()), "total: "+tot+" ; bond: "+bond)
				}
			}
		}
		// the six accumulators of CalculateReward are sums over the rounds
		if fn := need("(x/dispute/keeper.Keeper).CalculateReward"); fn != nil {
			n, okAll, det := 0, true, ""
			for _, b := range fn.Blocks {
				for _, in := range b.Instrs {
					ph, ok := in.(*ssa.Phi)
					if !ok || !strings.HasSuffix(ph.Type().String(), "math.Int") || !isLoopHeader(fn, b) {
						continue
					}
					n++
					adds, bases := sumWeb(ph)
					if len(adds) == 0 || len(bases) != 1 || bases[0].Op != "call:cosmossdk.io/math.ZeroInt" {
						okAll, det = false, fmt.Sprintf("%s: %d addends, %d bases", ph.Comment, len(adds), len(bases))
					}
				}
			}
			r.check(okAll && n == 6, "ALL-ROUNDS", "(x/dispute/keeper.Keeper).CalculateReward # the three own powers and the three group totals are sums over the rounds, starting at zero", P.Pos(fn.Pos()), fmt.Sprintf("%d loop-carried amounts %s", n, det))
		}
	}

	// ---- PRO-RATA
	checkProRata(r)

	// ---- a round in which nobody voted has no VoteCountsByGroup record: both readers over the rounds must treat the
	// missing record as "no votes" (the execution sets a pot aside on the strength of the other rounds; a reader
	// that fails on the missing record makes that pot unclaimable)
	if fn := need("(x/dispute/keeper.Keeper).CalculateReward"); fn != nil {
		tmn := NewTermer()
		ps := AnalyzePaths(fn, []Atom{
			{Name: "countsMissing", Stable: true, Cond: func(rel *Term) (bool, bool) {
				if rel.Op == "call:errors.Is" && len(rel.Args) == 2 && rel.Args[0].Contains("VoteCountsByGroup") && strings.HasSuffix(rel.Args[1].Op, "ErrNotFound") {
					return true, true
				}
				return false, false
			}},
			{Name: "countsErr", Cond: func(rel *Term) (bool, bool) {
				if rel.Op == "==" && len(rel.Args) == 2 && rel.Args[1].Op == "const:nil" && rel.Args[0].Op == "ext:1" && rel.Args[0].Contains("VoteCountsByGroup") {
					return true, false
				}
				return false, false
			}},
		})
		okAll, n := true, 0
		for _, b := range fn.Blocks {
			ret, isRet := b.Instrs[len(b.Instrs)-1].(*ssa.Return)
			if !isRet || !DefinitelyFails(ret) {
				continue
			}
			if !tmn.Of(ResultOf(ret, 1)).Contains("VoteCountsByGroup") {
				continue
			}
			n++
			if bad := ps.Require(ret, func(v map[string]bool) bool { return !v["countsMissing"] }); len(bad) > 0 {
				okAll = false
			}
		}
		r.check(okAll && len(ps.Matched["countsMissing"]) > 0, "ALL-ROUNDS", "(x/dispute/keeper.Keeper).CalculateReward # a round without a vote-count record is skipped, not an error (as in the sum that decides whether a pot is set aside)", P.Pos(fn.Pos()), fmt.Sprintf("%d error returns carrying the lookup's error ; NotFound tested: %v", n, len(ps.Matched["countsMissing"]) > 0))
	}

	// ---- ALL-ROUNDS
	for _, name := range []string{"(x/dispute/keeper.Keeper).CalculateReward", "(x/dispute/keeper.Keeper).sumOfGroupVotesAllRounds"} {
		if fn := need(name); fn != nil {
			n, bad := everyIterationPasses(P, fn, "field:x/dispute/types.Dispute.PrevDisputeIds", descIs("coll:x/dispute/keeper.Keeper.VoteCountsByGroup.Get"))
			r.check(n >= 1 && bad == "", "ALL-ROUNDS", name+" # every round's VoteCountsByGroup is read", P.Pos(fn.Pos()), fmt.Sprintf("%d loops over PrevDisputeIds; %s", n, bad))
		}
	}
	// the groups whose votes decide whether a voters' pot is set aside are the groups the pot is divided among: a group counted
	// by ExecuteVote's "no voters" test and unknown to CalculateReward leaves a pot nobody can claim (D26, the team)
	if ev, cr := need("(x/dispute/keeper.Keeper).ExecuteVote"), need("(x/dispute/keeper.Keeper).CalculateReward"); ev != nil && cr != nil {
		claimGroups := voteGroupsFeeding(cr, nil)
		var potGroups map[string]bool
		var where token.Pos
		for _, b := range ev.Blocks {
			for _, in := range b.Instrs {
				c, ok := in.(*ssa.Call)
				if !ok || CalleeName(c.Common()) != "(cosmossdk.io/math.Int).IsZero" || len(c.Call.Args) != 1 {
					continue
				}
				ex, ok := c.Call.Args[0].(*ssa.Extract)
				if !ok || ex.Index != 0 {
					continue
				}
				call, ok := ex.Tuple.(*ssa.Call)
				if !ok {
					continue
				}
				callee := call.Call.StaticCallee()
				if callee == nil || !strings.Contains(fnCanon(callee), "GroupVotes") {
					continue
				}
				where = c.Pos()
				potGroups = map[string]bool{}
				for _, ret := range allReturns(callee) {
					if len(ret.Results) >= 1 && !DefinitelyFails(ret) {
						for g := range voteGroupsFeeding(callee, ret.Results[0]) {
							potGroups[g] = true
						}
					}
				}
			}
		}
		r.check(potGroups != nil && len(claimGroups) > 0 && fmt.Sprint(keysOf(potGroups)) == fmt.Sprint(keysOf(claimGroups)), "ALL-ROUNDS",
			"(x/dispute/keeper.Keeper).ExecuteVote # the votes that decide whether a pot is set aside are those of the groups CalculateReward divides it among", P.Pos(where),
			fmt.Sprintf("pot decided by %v ; divided among %v", keysOf(potGroups), keysOf(claimGroups)))
	}
	// the list those sums walk names every round including the current one: every writer of PrevDisputeIds stores
	// either [the dispute's own id] (first round) or the old list extended by the id the record is stored under
	{
		writers := 0
		for _, fn := range P.RepoFuncs {
			if !strings.HasPrefix(fnCanon(fn), "(x/dispute/keeper.") && !strings.HasPrefix(fnCanon(fn), "x/dispute/keeper.") {
				continue
			}
			tmw := NewTermer()
			for _, b := range fn.Blocks {
				for _, in := range b.Instrs {
					st, ok := in.(*ssa.Store)
					if !ok {
						continue
					}
					fa, ok := st.Addr.(*ssa.FieldAddr)
					if !ok || fieldName(fa.X.Type(), fa.Field) != "x/dispute/types.Dispute.PrevDisputeIds" {
						continue
					}
					writers++
					// the id stored into the same record
					var own ssa.Value
					if refs := fa.X.Referrers(); refs != nil {
						for _, ref := range *refs {
							if fa2, ok := ref.(*ssa.FieldAddr); ok && fieldName(fa2.X.Type(), fa2.Field) == "x/dispute/types.Dispute.DisputeId" && fa2.Referrers() != nil {
								for _, rr := range *fa2.Referrers() {
									if st2, ok := rr.(*ssa.Store); ok && st2.Addr == ssa.Value(fa2) {
										own = st2.Val
									}
								}
							}
						}
					}
					okForm, got := false, tmw.Of(st.Val).Brief()
					if own != nil {
						if els := variadicElemValues(st.Val); len(els) == 1 && els[0] == own {
							okForm = true // []uint64{id}
						}
						if c, ok := st.Val.(*ssa.Call); ok {
							if bi, ok := c.Call.Value.(*ssa.Builtin); ok && bi.Name() == "append" && len(c.Call.Args) == 2 {
								base := tmw.Of(c.Call.Args[0])
								tail := variadicElemValues(c.Call.Args[1])
								okForm = strings.HasSuffix(base.Op, "Dispute.PrevDisputeIds") || base.Contains("Dispute.PrevDisputeIds")
								okForm = okForm && len(tail) == 1 && tail[0] == own
							}
						}
					} else {
						got = "no id stored into the same record"
					}
					r.check(okForm, "ALL-ROUNDS", FuncName(fn)+" # the round list is [own id], or the old list extended by the id the record is stored under", P.Pos(st.Pos()), got)
				}
			}
		}
		r.check(writers >= 2, "ALL-ROUNDS", "x/dispute/keeper # writers of Dispute.PrevDisputeIds", "-", fmt.Sprintf("%d", writers))
	}
	// ---- ONCE-PER-DISPUTE: a dispute is settled once, not once per round: the round that a new round supersedes
	// must leave the execution queue, otherwise the begin blocker settles it with the old round's amounts as well
	if cd := need("(x/dispute/keeper.Keeper).CloseDispute"); cd != nil {
		ps := AnalyzePaths(cd, []Atom{{Name: "cleared", Event: func(in ssa.Instruction) (bool, int8) {
			return storesConstToField(in, "x/dispute/types.Dispute.PendingExecution", "false"), T
		}}, {Name: "closed", Event: func(in ssa.Instruction) (bool, int8) {
			return storesConstToField(in, "x/dispute/types.Dispute.Open", "false"), T
		}}})
		n := 0
		for _, cs := range P.CallSitesIn(cd) {
			if cs.Desc() == "coll:x/dispute/keeper.Keeper.Disputes.Set" {
				n++
				bad := ps.Require(cs.Instr, func(v map[string]bool) bool { return v["cleared"] && v["closed"] })
				r.check(len(bad) == 0, "ONCE-PER-DISPUTE", "(x/dispute/keeper.Keeper).CloseDispute # a superseded round is stored closed and out of the execution queue", P.Pos(cs.Pos()), fmt.Sprintf("valuations: %v", statesStr(ps, cs.Instr)))
			}
		}
		r.check(n == 1, "ONCE-PER-DISPUTE", "(x/dispute/keeper.Keeper).CloseDispute # stores the round", P.Pos(cd.Pos()), fmt.Sprint(n))
	}
	if adr := need("(x/dispute/keeper.Keeper).AddDisputeRound"); adr != nil {
		// the previous round is closed through CloseDispute, or by a store that clears both flags, before the new round is stored
		ps := AnalyzePaths(adr, []Atom{
			{Name: "closedPrev", Event: P.CallEvent(func(c *CallSite) bool { return c.Callee == "(x/dispute/keeper.Keeper).CloseDispute" }, T)},
			{Name: "cleared", Event: func(in ssa.Instruction) (bool, int8) {
				return storesConstToField(in, "x/dispute/types.Dispute.PendingExecution", "false"), T
			}},
			{Name: "closed", Event: func(in ssa.Instruction) (bool, int8) {
				return storesConstToField(in, "x/dispute/types.Dispute.Open", "false"), T
			}},
		})
		n := 0
		for _, ret := range SuccessReturns(adr) {
			n++
			bad := ps.Require(ret, func(v map[string]bool) bool { return v["closedPrev"] || (v["cleared"] && v["closed"]) })
			r.check(len(bad) == 0, "ONCE-PER-DISPUTE", "(x/dispute/keeper.Keeper).AddDisputeRound # the superseded round is closed and taken out of the execution queue", P.Pos(adr.Pos()), fmt.Sprintf("valuations at the success return: %v", statesStr(ps, ret)))
		}
		r.check(n > 0, "ONCE-PER-DISPUTE", "(x/dispute/keeper.Keeper).AddDisputeRound # has a success return", P.Pos(adr.Pos()), fmt.Sprint(n))
	}
	// ---- POWER-PARTITION: the voter reward divides the pot by the group totals, so the per-voter powers recorded
	// must add up to them: a selector that votes after its reporter is taken out of the reporter's recorded power
	if sv := P.Func("(x/dispute/keeper.Keeper).SetVoterReporterStake"); sv == nil {
		r.broken("anchor SetVoterReporterStake does not resolve")
	} else {
		r.fn(FuncName(sv))
		ps := AnalyzePaths(sv, []Atom{
			{Name: "reporterVoted", Cond: func(rel *Term) (bool, bool) {
				if rel.Op == "ext:0" && len(rel.Args) == 1 && strings.HasSuffix(rel.Args[0].Op, ".Has") && rel.Has("field:x/dispute/keeper.Keeper.Voter") {
					return true, true
				}
				return false, false
			}},
			{Name: "isReporter", Cond: func(rel *Term) (bool, bool) { return rel.Op == "call:bytes.Equal", true }},
			{Name: "rewritten", Event: P.CallEvent(descIs("coll:x/dispute/keeper.Keeper.Voter.Set"), T)},
		})
		okAll, n, det := true, 0, ""
		for _, ret := range SuccessReturns(sv) {
			n++
			if bad := ps.Require(ret, func(v map[string]bool) bool { return v["isReporter"] || !v["reporterVoted"] || v["rewritten"] }); len(bad) > 0 {
				for _, b := range bad {
					if strings.Contains(b, "?isReporter") {
						continue // before the delegation lookup: not a selector
					}
					okAll, det = false, b
				}
			}
		}
		r.check(okAll && n > 0 && len(ps.Matched["reporterVoted"]) > 0, "POWER-PARTITION", "(x/dispute/keeper.Keeper).SetVoterReporterStake # a selector voting after its reporter rewrites the reporter's record on every success path", P.Pos(sv.Pos()), fmt.Sprintf("%d success returns %s", n, det))
		nSt := 0
		for _, b := range sv.Blocks {
			for _, in := range b.Instrs {
				st, ok := in.(*ssa.Store)
				if !ok {
					continue
				}
				fa, ok := st.Addr.(*ssa.FieldAddr)
				if !ok || fieldName(fa.X.Type(), fa.Field) != "x/dispute/types.Voter.ReporterPower" {
					continue
				}
				nSt++
				v := NewTermer().Of(st.Val)
				ok = v.Op == "call:(cosmossdk.io/math.Int).Sub" && len(v.Args) == 2 && strings.HasPrefix(v.Args[0].Op, "field:x/dispute/types.Voter.ReporterPower") && v.Args[0].Contains("Keeper.Voter") && v.Args[1].Op == "ext:0" && v.Args[1].Contains("GetDelegatorTokensAtBlock")
				r.check(ok, "POWER-PARTITION", "(x/dispute/keeper.Keeper).SetVoterReporterStake # the reporter's recorded power is reduced by exactly the selector's tokens", P.Pos(st.Pos()), clip(v.String(), 200))
			}
		}
		r.check(nSt == 1, "POWER-PARTITION", "(x/dispute/keeper.Keeper).SetVoterReporterStake # one write of the reporter's recorded power", P.Pos(sv.Pos()), fmt.Sprint(nSt))
	}
	r.minCount("POWER-PARTITION", 3)
	r.minCount("ONCE-PER-DISPUTE", 4)
	r.minCount("ONCE-EXECUTE", 6)
	r.minCount("PRO-RATA", 3)
	r.minCount("EXHAUSTIVE", 2)
	r.minCount("REFUND-POT", 3)
}

// digCoinAmount: NewCoins(NewCoin(denom, amt)) -> amt ; NewCoin(denom, amt) -> amt ; else v.
func digCoinAmount(v ssa.Value) ssa.Value {
	for i := 0; i < 4; i++ {
		c, ok := v.(*ssa.Call)
		if !ok {
			return v
		}
		switch CalleeName(c.Common()) {
		case "github.com/cosmos/cosmos-sdk/types.NewCoins":
			el := variadicElemValues(c.Call.Args[0])
			if len(el) != 1 {
				return v
			}
			v = el[0]
		case "github.com/cosmos/cosmos-sdk/types.NewCoin":
			v = c.Call.Args[1]
		default:
			return v
		}
	}
	return v
}

func checkProRata(r *Result) {
	P := r.P
	tm := NewTermer()
	shape := func(p *Poly, own, pot, total string) (bool, string) {
		c, m, ok := p.Single()
		if !ok {
			return false, "not a single product: " + p.String()
		}
		if c.Cmp(big.NewRat(1, 1)) != 0 {
			return false, "coefficient " + c.RatString()
		}
		got := map[string]int{}
		for a, e := range m {
			switch {
			case strings.Contains(a, own):
				got["own"] += e
			case strings.Contains(a, pot):
				got["pot"] += e
			case strings.Contains(a, total):
				got["total"] += e
			default:
				return false, "unexpected factor " + a
			}
		}
		if got["own"] == 1 && got["pot"] == 1 && got["total"] == -1 {
			return true, ""
		}
		return false, fmt.Sprintf("exponents %v", got)
	}
	if fn := P.Func("(x/dispute/keeper.Keeper).RefundDisputeFee"); fn == nil {
		r.broken("anchor RefundDisputeFee does not resolve")
	} else {
		r.fn(FuncName(fn))
		n := 0
		for _, cs := range P.CallSitesIn(fn) {
			var amt ssa.Value
			if strings.HasPrefix(cs.Method, "SendCoinsFromModuleToAccount") {
				amt = digCoinAmount(Arg(cs.Instr, 3))
			} else if cs.Callee == "(x/dispute/keeper.Keeper).ReturnFeetoStake" {
				amt = Arg(cs.Instr, 2)
			} else {
				continue
			}
			n++
			p := (&linEval{}).Eval(tm.Of(amt))
			ok, why := shape(p, "PayerInfo.Amount", "param:5:cosmossdk.io/math.Int", "param:4:cosmossdk.io/math.Int")
			r.check(ok, "PRO-RATA", "(x/dispute/keeper.Keeper).RefundDisputeFee # "+cs.Method+" pays own * base / total", P.Pos(cs.Pos()), "normal form: "+clip(p.String(), 260)+" "+why)
		}
		r.check(n == 2, "PRO-RATA", "(x/dispute/keeper.Keeper).RefundDisputeFee # two payout routes (account, stake)", P.Pos(fn.Pos()), fmt.Sprintf("%d", n))
	}
	if fn := P.Func("(x/dispute/keeper.Keeper).RewardReporterBondToFeePayers"); fn == nil {
		r.broken("anchor RewardReporterBondToFeePayers does not resolve")
	} else {
		r.fn(FuncName(fn))
		var polys []string
		for _, cs := range P.CallSitesIn(fn) {
			var amt ssa.Value
			if strings.HasPrefix(cs.Method, "SendCoinsFromModuleToModule") {
				amt = digCoinAmount(Arg(cs.Instr, 3))
			} else if strings.HasSuffix(cs.Callee, "ReporterKeeper.AddAmountToStake") {
				amt = Arg(cs.Instr, 2)
			} else {
				continue
			}
			p := (&linEval{}).Eval(tm.Of(amt))
			polys = append(polys, p.String())
			ok, why := shape(p, "PayerInfo.Amount", "param:5:cosmossdk.io/math.Int", "param:4:cosmossdk.io/math.Int")
			r.check(ok, "PRO-RATA", "(x/dispute/keeper.Keeper).RewardReporterBondToFeePayers # "+cs.Method+" = own * bond / total", P.Pos(cs.Pos()), "normal form: "+clip(p.String(), 260)+" "+why)
		}
		r.check(len(polys) == 2 && polys[0] == polys[1], "PRO-RATA", "(x/dispute/keeper.Keeper).RewardReporterBondToFeePayers # staked amount = amount moved to the bonded pool", P.Pos(fn.Pos()), fmt.Sprintf("%v", polys))
	}
	if fn := P.Func("(x/dispute/keeper.Keeper).CalculateReward"); fn == nil {
		r.broken("anchor CalculateReward does not resolve")
	} else {
		r.fn(FuncName(fn))
		for _, ret := range SuccessReturns(fn) {
			p := (&linEval{}).Eval(tm.Of(ResultOf(ret, 0)))
			if p.IsZero() {
				continue
			}
			ok := len(p.terms) == 3
			why := ""
			for k, c := range p.terms {
				if c.Cmp(big.NewRat(1, 1)) != 0 {
					ok = false
					why = "coefficient " + c.RatString()
				}
				pot, neg, pos := 0, 0, 0
				for a, e := range p.monos[k] {
					switch {
					case strings.Contains(a, "Dispute.VoterReward"):
						pot += e
					case e < 0:
						neg++
					case e > 0:
						pos++
					}
				}
				if pot != 1 || neg != 2 || pos != 1 {
					ok = false
					why = fmt.Sprintf("term %s has pot^%d, %d divisors, %d own factors", clip(k, 80), pot, neg, pos)
				}
			}
			r.check(ok, "PRO-RATA", "(x/dispute/keeper.Keeper).CalculateReward # sum over three groups of own_g/global_g * VoterReward / groups", P.Pos(ret.Pos()), fmt.Sprintf("%d terms %s", len(p.terms), why))
		}
		checkTipsBlock(r, "PRO-RATA")
	}
}

// checkTipsBlock: the claimant's share of the user group is own tips / group total; both are tips at the same
// height only if the claimant's tips are read at the block the votes' tips were counted at (the dispute's block),
// in CalculateReward and in the Vote handler alike. Otherwise the shares of one dispute add up to more (or less)
// than the voter reward that was set aside.
func checkTipsBlock(r *Result, rule string) {
	P := r.P
	tm := NewTermer()
	fn := P.Func("(x/dispute/keeper.Keeper).CalculateReward")
	if fn == nil {
		r.broken("anchor CalculateReward does not resolve")
		return
	}
	r.fn(FuncName(fn))
	// own_user and global_user are tips at the same height: the claimant's tips are read at the block the
	// votes' tips were counted at (the dispute's block), in CalculateReward and in the Vote handler alike
	isDisputeBlock := func(t *Term) bool {
		return strings.HasPrefix(t.Op, "field:x/dispute/types.Dispute.BlockNumber") && t.Contains("Keeper.Disputes")
	}
	n := 0
	for _, cs := range P.CallSitesIn(fn) {
		if cs.Callee == "(x/dispute/keeper.Keeper).GetUserTotalTips" {
			n++
			b := tm.Of(Arg(cs.Instr, 2))
			r.check(isDisputeBlock(b), rule, "(x/dispute/keeper.Keeper).CalculateReward # the claimant's tips are read at the dispute's block (where the group total was counted)", P.Pos(cs.Pos()), "block: "+clip(b.String(), 160))
		}
	}
	r.check(n == 1, rule, "(x/dispute/keeper.Keeper).CalculateReward # one read of the claimant's tips", P.Pos(fn.Pos()), fmt.Sprint(n))
	if vh := P.Func("(x/dispute/keeper.msgServer).Vote"); vh == nil {
		r.broken("anchor Vote does not resolve")
	} else {
		m := 0
		for _, cs := range P.CallSitesIn(vh) {
			if cs.Callee == "(x/dispute/keeper.Keeper).SetVoterTips" {
				m++
				b := tm.Of(Arg(cs.Instr, 3))
				r.check(isDisputeBlock(b), rule, "(x/dispute/keeper.msgServer).Vote # the user group total counts tips at the dispute's block", P.Pos(cs.Pos()), "block: "+clip(b.String(), 160))
			}
		}
		r.check(m == 1, rule, "(x/dispute/keeper.msgServer).Vote # one SetVoterTips site", P.Pos(vh.Pos()), fmt.Sprint(m))
	}
}

// enumVal returns the exact value of a package-level constant of a repository package ("" if absent).
func enumVal(P *Prog, pkg, name string) string {
	if v, ok := P.constValue(modPath+"/"+pkg, name); ok {
		return v.ExactString()
	}
	return "?"
}

// requireAtSuccess: every success return of fn satisfies phi over the given atoms (one obligation). The atoms
// named in mustMatch must have matched a branch of fn, else the rule would pass vacuously.
func requireAtSuccess(r *Result, rule string, fn *ssa.Function, what string, atoms []Atom, phi func(map[string]bool) bool, mustMatch ...string) {
	ps := AnalyzePaths(fn, atoms)
	okAll, n, det := true, 0, ""
	for _, ret := range SuccessReturns(fn) {
		n++
		if bad := ps.Require(ret, phi); len(bad) > 0 {
			okAll, det = false, fmt.Sprintf("failing valuations at %s: %v", r.P.Pos(ret.Pos()), bad)
		}
	}
	for _, m := range mustMatch {
		if len(ps.Matched[m]) == 0 {
			okAll, det = false, "no branch of the function tests "+m
		}
	}
	r.check(okAll && n > 0, rule, FuncName(fn)+" # "+what, r.P.Pos(fn.Pos()), fmt.Sprintf("%d success returns %s", n, det))
}

func isLoopHeader(fn *ssa.Function, b *ssa.BasicBlock) bool {
	for _, h := range loopHeaders(fn) {
		if h == b {
			return true
		}
	}
	return false
}

// voteGroupsFeeding returns the StakeholderVoteCounts groups (Users, Reporters, Tokenholders, Team) whose counters flow into
// value v of fn -- through arithmetic, conversions, calls of library functions and local variables, including the ones a
// closure of fn accumulates into. With v == nil: every group fn or its closures read at all.
func voteGroupsFeeding(fn *ssa.Function, v ssa.Value) map[string]bool {
	out := map[string]bool{}
	group := func(t types.Type, idx int) {
		n := fieldName(t, idx)
		if strings.HasPrefix(n, "x/dispute/types.StakeholderVoteCounts.") {
			out[strings.TrimPrefix(n, "x/dispute/types.StakeholderVoteCounts.")] = true
		}
	}
	fns := append([]*ssa.Function{fn}, fn.AnonFuncs...)
	if v == nil {
		for _, f := range fns {
			for _, b := range f.Blocks {
				for _, in := range b.Instrs {
					switch x := in.(type) {
					case *ssa.Field:
						group(x.X.Type(), x.Field)
					case *ssa.FieldAddr:
						group(x.X.Type(), x.Field)
					}
				}
			}
		}
		return out
	}
	// stores into a cell, from fn or from a closure that captured it
	storesTo := func(cell ssa.Value) []ssa.Value {
		var vals []ssa.Value
		addrs := map[ssa.Value]bool{cell: true}
		for _, f := range fn.AnonFuncs {
			for _, b := range fn.Blocks {
				for _, in := range b.Instrs {
					if mc, ok := in.(*ssa.MakeClosure); ok && mc.Fn == ssa.Value(f) {
						for i, bind := range mc.Bindings {
							if bind == cell && i < len(f.FreeVars) {
								addrs[f.FreeVars[i]] = true
							}
						}
					}
				}
			}
		}
		for _, f := range fns {
			for _, b := range f.Blocks {
				for _, in := range b.Instrs {
					if st, ok := in.(*ssa.Store); ok && addrs[st.Addr] {
						vals = append(vals, st.Val)
					}
				}
			}
		}
		return vals
	}
	seen := map[ssa.Value]bool{}
	var walk func(x ssa.Value, depth int)
	walk = func(x ssa.Value, depth int) {
		if x == nil || seen[x] || depth > 40 {
			return
		}
		seen[x] = true
		switch y := x.(type) {
		case *ssa.BinOp:
			walk(y.X, depth+1)
			walk(y.Y, depth+1)
		case *ssa.Convert:
			walk(y.X, depth+1)
		case *ssa.ChangeType:
			walk(y.X, depth+1)
		case *ssa.Phi:
			for _, e := range y.Edges {
				walk(e, depth+1)
			}
		case *ssa.Call:
			for _, a := range y.Call.Args {
				walk(a, depth+1)
			}
		case *ssa.Extract:
			if c, ok := y.Tuple.(*ssa.Call); ok {
				if callee := c.Call.StaticCallee(); callee != nil && len(callee.Blocks) > 0 && callee != fn && strings.HasPrefix(fnCanon(callee), "(x/dispute/keeper.") {
					for _, ret := range allReturns(callee) {
						if y.Index < len(ret.Results) && !DefinitelyFails(ret) {
							for g := range voteGroupsFeeding(callee, ret.Results[y.Index]) {
								out[g] = true
							}
						}
					}
					return
				}
			}
			walk(y.Tuple, depth+1)
		case *ssa.Field:
			group(y.X.Type(), y.Field)
			walk(y.X, depth+1)
		case *ssa.FieldAddr:
			group(y.X.Type(), y.Field)
			walk(y.X, depth+1)
		case *ssa.UnOp:
			if y.Op == token.MUL {
				switch a := y.X.(type) {
				case *ssa.Alloc:
					for _, sv := range storesTo(a) {
						walk(sv, depth+1)
					}
				case *ssa.FreeVar:
					// a closure reading its own accumulator: the cell's stores were collected from the parent's side
					for _, f := range fn.AnonFuncs {
						for i, fv := range f.FreeVars {
							if fv == a {
								for _, b := range fn.Blocks {
									for _, in := range b.Instrs {
										if mc, ok := in.(*ssa.MakeClosure); ok && mc.Fn == ssa.Value(f) && i < len(mc.Bindings) {
											for _, sv := range storesTo(mc.Bindings[i]) {
												walk(sv, depth+1)
											}
										}
									}
								}
							}
						}
					}
				default:
					walk(y.X, depth+1)
				}
			} else {
				walk(y.X, depth+1)
			}
		}
	}
	walk(v, 0)
	return out
}

// checkSameAmountVersion: the proposer's fee is capped to the dispute fee by an assignment to the message's own field; the
// amount booked as the dispute's fee total, the amount credited to the payer record and the coin handed to PayDisputeFee
// must be one and the same version of that amount: the same SSA value, or reads of the same field with no assignment to
// it between them. A copy taken before the cap credits the payer with more than was moved.
func checkSameAmountVersion(r *Result, rule string, fn *ssa.Function) {
	P := r.P
	type booked struct {
		what string
		v    ssa.Value
		pos  token.Pos
	}
	var bs []booked
	for _, cs := range P.CallSitesIn(fn) {
		if cs.Callee == "(x/dispute/keeper.Keeper).PayDisputeFee" && cs.Fn == fn {
			bs = append(bs, booked{"payment", Arg(cs.Instr, 2), cs.Pos()})
		}
	}
	for _, b := range fn.Blocks {
		for _, in := range b.Instrs {
			if st, ok := in.(*ssa.Store); ok {
				if fa, ok := st.Addr.(*ssa.FieldAddr); ok {
					switch fieldName(fa.X.Type(), fa.Field) {
					case "x/dispute/types.Dispute.FeeTotal":
						bs = append(bs, booked{"fee total", st.Val, st.Pos()})
					case "x/dispute/types.PayerInfo.Amount":
						bs = append(bs, booked{"payer credit", st.Val, st.Pos()})
					}
				}
			}
		}
	}
	r.check(len(bs) >= 3, rule, FuncName(fn)+" # fee total, payer credit and payment found", P.Pos(fn.Pos()), fmt.Sprintf("%d booked amounts", len(bs)))
	for i := 1; i < len(bs); i++ {
		ok, why := sameVersion(fn, bs[0].v, bs[i].v)
		r.check(ok, rule, FuncName(fn)+" # "+bs[i].what+" is the same (capped) amount as the "+bs[0].what, P.Pos(bs[i].pos), why)
	}
}

// amountPath: v as a read of root.path (field addresses below a local or parameter allocation); NewCoin(_, x) is read as x.
func amountPath(v ssa.Value) (ld *ssa.UnOp, root ssa.Value, path []int) {
	for i := 0; i < 4; i++ {
		if c, ok := v.(*ssa.Call); ok && c.Common().StaticCallee() != nil && c.Common().StaticCallee().Name() == "NewCoin" && len(c.Common().Args) == 2 {
			v = c.Common().Args[1]
			continue
		}
		break
	}
	u, ok := v.(*ssa.UnOp)
	if !ok || u.Op != token.MUL {
		return nil, v, nil
	}
	root = u.X
	for {
		f, ok := root.(*ssa.FieldAddr)
		if !ok {
			break
		}
		path = append([]int{f.Field}, path...)
		root = f.X
	}
	return u, root, path
}

func pathsOverlap(a, b []int) bool {
	for i := 0; i < len(a) && i < len(b); i++ {
		if a[i] != b[i] {
			return false
		}
	}
	return true
}

func sameVersion(fn *ssa.Function, a, b ssa.Value) (bool, string) {
	la, ra, pa := amountPath(a)
	lb, rb, pb := amountPath(b)
	if la == nil || lb == nil {
		if ra == rb {
			return true, "the same value"
		}
		return false, "not the same value and not two reads of one field: " + a.String() + " / " + b.String()
	}
	if ra != rb || !pathsOverlap(pa, pb) {
		return false, "reads of different places"
	}
	for _, blk := range fn.Blocks {
		for _, in := range blk.Instrs {
			st, ok := in.(*ssa.Store)
			if !ok {
				continue
			}
			var sp []int
			sr := st.Addr
			for {
				f, ok := sr.(*ssa.FieldAddr)
				if !ok {
					break
				}
				sp = append([]int{f.Field}, sp...)
				sr = f.X
			}
			if sr != ra || !(pathsOverlap(sp, pa) || pathsOverlap(sp, pb)) {
				continue
			}
			if (reachAvoid(la, st, nil) && reachAvoid(st, lb, nil)) || (reachAvoid(lb, st, nil) && reachAvoid(st, la, nil)) {
				return false, "the field is assigned between the two reads: one of them is the amount before the cap"
			}
		}
	}
	return true, "two reads of one field, no assignment between them"
}
