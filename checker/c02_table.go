package main

// Triage table of the block-path failure origins (C02) — confirmed by reading.
// Key = "<function> # <kind>:<descriptor>" (no line numbers). Classes:
//   linked          unreachable because of a structural fact that c02Links checks
//   infrastructure  store / codec / iterator fault, not inducible by transactions
//   library         contract of an external library for constant, well-typed arguments
//   accepted        relies on an invariant of another module (bank, staking) or on an
//                   assumption; this is the residual risk of the property, stated in DESIGN.md
//   DEFECT          genuinely reachable: reported as a violation (see known_findings.json)

import (
	"fmt"
	"go/constant"
	"go/token"
	"strings"

	"golang.org/x/tools/go/ssa"
)

var c02Table = map[string]triage{
	// ---- PreBlocker
	`(*app.ProposalHandler).PreBlocker # err-local:errors.New "failed to decode injected vote extension tx"`: {"accepted", "the same bytes were decoded by ProcessProposal on +2/3 of the voting power before the block could be finalised (C17 PROC-COVERS-PRE)"},
	`(*app.ProposalHandler).PreBlocker # index:app.OracleAttestations.Attestations[loopvar]`:                 {"linked", "parallel list built in lock-step with OperatorAddresses by CheckOracleAttestationsFromLastCommit and compared by ProcessProposal (C17 SIBLINGS/LOCKSTEP)"},
	`(*app.ProposalHandler).PreBlocker # index:app.OracleAttestations.Snapshots[loopvar]`:                    {"linked", "as above (C17 LOCKSTEP)"},
	`(*app.ProposalHandler).PreBlocker # index:app.ValsetSignatures.Signatures[loopvar]`:                     {"linked", "parallel list built in lock-step by CheckValsetSignaturesFromLastCommit (C17 LOCKSTEP)"},
	`(*app.ProposalHandler).PreBlocker # index:app.ValsetSignatures.Timestamps[loopvar]`:                     {"linked", "as above (C17 LOCKSTEP)"},
	`(*app.ProposalHandler).SetEVMAddresses # index:param3[loopvar]`:                                         {"linked", "evmAddresses is the parallel list of operatorAddresses built in lock-step by CheckInitialSignaturesFromLastCommit (C17 LOCKSTEP)"},

	// ---- bridge EndBlock
	`(x/bridge/keeper.Keeper).CompareAndSetBridgeValidators # must:iface:github.com/cosmos/cosmos-sdk/codec.BinaryCodec.MustMarshal`:   {"library", "MustMarshal of an in-memory proto message (BridgeValidatorSet) cannot fail"},
	`(x/bridge/keeper.Keeper).CalculateValidatorSetCheckpoint # err-ext:(github.com/ethereum/go-ethereum/accounts/abi.Arguments).Pack`: {"library", "Pack of ([32]byte, *big.Int, *big.Int, [32]byte) against (bytes32,uint256,uint256,bytes32): Go types fixed in the function (C15 ABI)"},
	`(x/bridge/keeper.Keeper).CalculateValidatorSetCheckpoint # err-ext:github.com/ethereum/go-ethereum/accounts/abi.NewType`:          {"library", "NewType of a constant elementary ABI type string (checked: ABI-CONST-TYPES)"},
	`(x/bridge/keeper.Keeper).EncodeAndHashValidatorSet # err-ext:(github.com/ethereum/go-ethereum/accounts/abi.Arguments).Pack`:       {"library", "Pack of (common.Address, *big.Int) against (address,uint256)"},
	`(x/bridge/keeper.Keeper).EncodeAndHashValidatorSet # err-ext:github.com/ethereum/go-ethereum/accounts/abi.NewType`:                {"library", "constant elementary ABI type string (ABI-CONST-TYPES)"},
	`(x/bridge/keeper.Keeper).EncodeOracleAttestationData # err-ext:(github.com/ethereum/go-ethereum/accounts/abi.Arguments).Pack`:     {"library", "Pack of fixed Go types against the 9-argument list (C15 ABI)"},
	`(x/bridge/keeper.Keeper).EncodeOracleAttestationData # err-ext:github.com/ethereum/go-ethereum/accounts/abi.NewType`:              {"library", "constant elementary ABI type string (ABI-CONST-TYPES)"},
	`(x/bridge/keeper.Keeper).EncodeOracleAttestationData # err-ext:encoding/hex.DecodeString`:                                         {"linked", "the constant domain separator is valid hex; the report value was validated as hex by ValidateValue before it was stored and is parsed here through the same 0x-stripping normaliser (VALUE-NORMALISED)"},
	`(x/bridge/keeper.Keeper).CreateSnapshot # err-local:errors.New "too many external requests"`:                                      {"linked", "only under isExternalRequest; the block-path call site passes the constant false (SNAPSHOT-INTERNAL)"},
	`(x/bridge/keeper.Keeper).CreateSnapshot # err-ext:coll:x/bridge/keeper.Keeper.AttestRequestsByHeightMap.Get`:                      {"linked", "read after Has/Set of the same key in the same function (SET-BEFORE-GET)"},
	`(x/bridge/keeper.Keeper).CreateSnapshot # err-ext:coll:x/bridge/keeper.Keeper.AttestSnapshotsByReportMap.Get`:                     {"linked", "read after Has/Set of the same key in the same function (SET-BEFORE-GET)"},
	`(x/bridge/keeper.Keeper).CreateSnapshot # err-ext:coll:x/bridge/keeper.Keeper.BridgeValset.Get`:                                   {"accepted", "BridgeValset is written by CompareAndSetBridgeValidators, which the end blocker runs (and requires to succeed) before any snapshot in the same block"},
	`(x/bridge/keeper.Keeper).CreateSnapshot # err-ext:coll:x/bridge/keeper.Keeper.SnapshotLimit.Get`:                                  {"accepted", "SnapshotLimit is written in InitGenesis (GENESIS-WRITES) and never removed"},
	`(x/bridge/keeper.Keeper).GetValidatorCheckpointFromStorage # err-ext:coll:x/bridge/keeper.Keeper.ValidatorCheckpoint.Get`:         {"accepted", "ValidatorCheckpoint is written by SetBridgeValidatorParams in the same cohort as BridgeValset, earlier in the same end blocker"},
	`(x/bridge/keeper.Keeper).GetCurrentValidatorsEVMCompatible # err-ext:iface:x/bridge/types.StakingKeeper.GetAllValidators`:         {"infrastructure", "staking store iteration"},
	`(x/bridge/keeper.Keeper).GetCurrentValidatorsEVMCompatible # err-local:errors.New "no validators found"`:                          {"DEFECT", "D5: when no validator with a registered EVM address has non-zero consensus power, the bridge end blocker returns this error at every height > 1"},
	`(x/bridge/keeper.Keeper).GetValidatorSetTimestampBefore # err-local:fmt.Errorf "no validator set timestamp found before %d"`:      {"accepted", "called with the current block time after a checkpoint exists (LastSavedValidatorSetStale runs after BridgeValset.Get succeeded); checkpoint params are written in the same cohort as the saved set"},
	`(x/bridge/keeper.Keeper).SetBridgeValidatorParams # err-ext:coll:x/bridge/keeper.Keeper.BridgeValsetByTimestampMap.Get`:           {"accepted", "previous set read through IdxMap[idx-1]; written by an earlier execution of this same function (same cohort)"},
	`(x/bridge/keeper.Keeper).SetBridgeValidatorParams # err-ext:coll:x/bridge/keeper.Keeper.LatestCheckpointIdx.Get`:                  {"accepted", "written by CalculateValidatorSetCheckpoint earlier in this function"},
	`(x/bridge/keeper.Keeper).SetBridgeValidatorParams # err-ext:coll:x/bridge/keeper.Keeper.ValidatorCheckpointIdxMap.Get`:            {"accepted", "index idx-1 was written by the previous checkpoint (same cohort)"},
	`(x/oracle/keeper.Keeper).GetAggregateByTimestamp # err-ext:coll:x/oracle/keeper.Keeper.Aggregates.Get`:                            {"accepted", "the timestamp was just obtained from GetTimestampBefore on the same store in CreateNewReportSnapshots"},
	`(x/oracle/keeper.Keeper).GetAggregatedReportsByHeight # panic:(*cosmossdk.io/collections/indexes.Multi).MatchExact()#1`:           {"infrastructure", "panics only on a store iterator error"},
	`(x/oracle/keeper.Keeper).GetAggregatedReportsByHeight # panic:cosmossdk.io/collections/indexes.CollectKeyValues()#1`:              {"infrastructure", "panics only on a store iterator error"},
	`(x/oracle/keeper.Keeper).GetTimestampAfter # panic:(*cosmossdk.io/collections.IndexedMap).Walk()`:                                 {"infrastructure", "panics only on a store iterator error (the walk callback returns no error)"},
	`(x/oracle/keeper.Keeper).GetTimestampBefore # panic:(*cosmossdk.io/collections.IndexedMap).Walk()`:                                {"infrastructure", "panics only on a store iterator error (the walk callback returns no error)"},

	// ---- dispute BeginBlock
	`x/dispute.CheckClosedDisputesForExecution # err-ext:coll:x/dispute/keeper.Keeper.Disputes.Get`:                                 {"accepted", "key just read from the Disputes map's own PendingExecution index"},
	`x/dispute.CheckOpenDisputesForExpiration # err-ext:coll:x/dispute/keeper.Keeper.Disputes.Get`:                                  {"accepted", "key just read from the Disputes map's own OpenDisputes index"},
	`x/dispute.CheckOpenDisputesForExpiration # err-ext:coll:x/dispute/keeper.Keeper.Votes.Get`:                                     {"linked", "a dispute is stored with status Voting only on paths that also call SetStartVote (VOTING-HAS-VOTE)"},
	`(x/dispute/keeper.Keeper).ExecuteVote # err-ext:coll:x/dispute/keeper.Keeper.Disputes.Get`:                                     {"accepted", "id comes from the Disputes index"},
	`(x/dispute/keeper.Keeper).ExecuteVote # err-ext:coll:x/dispute/keeper.Keeper.Votes.Get`:                                        {"linked", "PendingExecution is set only by TallyVote, which reads the vote first (PENDING-IMPLIES-TALLIED)"},
	`(x/dispute/keeper.Keeper).ExecuteVote # err-ext:iface:x/dispute/types.BankKeeper.BurnCoins`:                                    {"accepted", "burns at most BurnAmount, which was paid into the dispute escrow (C13 conservation; numeric, not decided)"},
	`(x/dispute/keeper.Keeper).ExecuteVote # err-local:errors.New "can't execute, dispute not resolved"`:                            {"linked", "reached from the hook only under BlockTime > DisputeEndTime or status Resolved; with a tallied vote the first branch then sets Resolved (PENDING-IMPLIES-TALLIED)"},
	`(x/dispute/keeper.Keeper).ExecuteVote # err-local:errors.New "vote already executed"`:                                          {"linked", "every success path of ExecuteVote stores PendingExecution=false, and a superseded round is closed with PendingExecution=false (EXECUTE-CLEARS-PENDING, CLOSE-CLEARS-PENDING)"},
	`(x/dispute/keeper.Keeper).ExecuteVote # err-local:errors.New "vote hasn't been tallied yet"`:                                   {"linked", "PENDING-IMPLIES-TALLIED"},
	`(x/dispute/keeper.Keeper).sumOfGroupVotesAllRounds # err-ext:coll:x/dispute/keeper.Keeper.Disputes.Get`:                        {"accepted", "same id as read by the caller"},
	`(x/dispute/keeper.Keeper).GetTeamAddress # err-ext:coll:x/dispute/keeper.Keeper.Params.Get`:                                    {"accepted", "Params written in InitGenesis (GENESIS-WRITES)"},
	`(x/dispute/keeper.Keeper).ReturnSlashedTokens # err-ext:iface:x/dispute/types.BankKeeper.SendCoinsFromModuleToModule`:          {"accepted", "escrow covers the slashed amount (C04/C13 numeric; not decided)"},
	`(x/dispute/keeper.Keeper).TallyVote # err-ext:coll:x/dispute/keeper.Keeper.BlockInfo.Get`:                                      {"linked", "BlockInfo is written on every success path of SetNewDispute and removed only by ExecuteVote (BLOCKINFO-LIFETIME); a superseded round leaves the pending-execution index (CLOSE-CLEARS-PENDING)"},
	`(x/dispute/keeper.Keeper).TallyVote # err-ext:coll:x/dispute/keeper.Keeper.Disputes.Get`:                                       {"accepted", "id comes from the Disputes index"},
	`(x/dispute/keeper.Keeper).TallyVote # err-ext:coll:x/dispute/keeper.Keeper.Voter.Get`:                                          {"linked", "read under Voter.Has of the same key (HAS-BEFORE-GET)"},
	`(x/dispute/keeper.Keeper).TallyVote # err-ext:coll:x/dispute/keeper.Keeper.Votes.Get`:                                          {"linked", "VOTING-HAS-VOTE"},
	`(x/dispute/keeper.Keeper).TallyVote # err-local:errors.New (cosmossdk.io/errors.Error).Error()`:                                {"linked", "the hook calls TallyVote only under VoteEnd < BlockTime, the complement of this branch (TALLY-CALLSITE)"},
	`(x/dispute/keeper.Keeper).TallyVote # err-local:errors.New "vote already tallied"`:                                             {"linked", "the hook calls TallyVote only under VoteResult == NO_TALLY (TALLY-CALLSITE)"},
	`(x/reporter/keeper.Keeper).GetBondedValidators # err-ext:iface:x/reporter/types.StakingKeeper.ValidatorsPowerStoreIterator`:    {"infrastructure", "staking store iterator"},
	`(x/reporter/keeper.Keeper).GetBondedValidators # err-local:fmt.Errorf "validator record not found for address: %X"`:            {"accepted", "staking power index is consistent with the validator records (x/staking invariant)"},
	`(x/reporter/keeper.Keeper).GetBondedValidators # index:make(github.com/cosmos/cosmos-sdk/x/staking/types.Validator)[:loopvar]`: {"linked", "i counts appended elements and the loop runs under i < max with len == max (BONDED-LOOP-BOUND)"},
	`(x/reporter/keeper.Keeper).GetBondedValidators # index:make(github.com/cosmos/cosmos-sdk/x/staking/types.Validator)[loopvar]`:  {"linked", "BONDED-LOOP-BOUND"},
	`(x/reporter/keeper.Keeper).ReturnSlashedTokens # div:Quo by x/reporter/types.DelegationsAmounts.Total`:                         {"accepted", "Total is the slash amount escrowed, non-zero for a power >= 1 report (C11)"},
	`(x/reporter/keeper.Keeper).ReturnSlashedTokens # err-ext:coll:x/reporter/keeper.Keeper.DisputedDelegationAmounts.Get`:          {"accepted", "written by EscrowReporterStake, which precedes status Voting on every path (C11 ONCE-SLASH)"},
	`(x/reporter/keeper.Keeper).ReturnSlashedTokens # err-ext:iface:x/reporter/types.StakingKeeper.Delegate`:                        {"accepted", "x/staking Delegate with tokens already in the pool; arithmetic reachability not decided (residual risk)"},
	`(x/reporter/keeper.Keeper).ReturnSlashedTokens # err-ext:iface:x/reporter/types.StakingKeeper.GetValidator`:                    {"linked", "only ErrNoValidatorFound is tolerated (falls back to a bonded validator); other errors are store faults"},
	`(x/reporter/keeper.Keeper).ReturnSlashedTokens # err-local:errors.New "no validators found in staking module to return "`:      {"accepted", "x/staking keeps at least one bonded validator"},

	// ---- mint BeginBlock
	`x/mint.BeginBlocker # err-ext:coll:x/mint/keeper.Keeper.Minter.Get`:                                                                                        {"accepted", "Minter written in InitGenesis (GENESIS-WRITES)"},
	`x/mint.SetPreviousBlockTime # err-ext:coll:x/mint/keeper.Keeper.Minter.Get`:                                                                                {"accepted", "Minter written in InitGenesis (GENESIS-WRITES)"},
	`(x/mint/keeper.Keeper).MintCoins # err-ext:iface:x/mint/types.BankKeeper.MintCoins`:                                                                        {"accepted", "module account has Minter permission (C03 MACC-PERM)"},
	`(x/dispute/keeper.Keeper).ExecuteVote # range:github.com/cosmos/cosmos-sdk/types.NewCoin(loopvar)`:                                                         {"accepted", "the burned amount is BurnAmount/2 truncated or BurnAmount; BurnAmount is a twentieth of a positive fee plus round fees (C13 BURN-HALF decides those forms)"},
	`(x/dispute/keeper.Keeper).ExecuteVote # range:github.com/cosmos/cosmos-sdk/types.NewCoin(loopvar) [2]`:                                                     {"accepted", "as above (second outcome)"},
	`(x/dispute/keeper.Keeper).ExecuteVote # range:github.com/cosmos/cosmos-sdk/types.NewCoin(loopvar) [3]`:                                                     {"accepted", "as above (third outcome)"},
	`(x/dispute/keeper.Keeper).ReturnSlashedTokens # range:github.com/cosmos/cosmos-sdk/types.NewCoin(x/dispute/types.Dispute.SlashAmount)`:                     {"linked", "SlashAmount is the dispute fee, for a winning reporter plus (SlashAmount - BurnAmount); BurnAmount starts at a twentieth of it and a round's fee is added only while the sum stays within SlashAmount (BURN-BOUNDED; the 'accepted' this entry carried before was wrong: D27)"},
	`(x/mint/keeper.Keeper).SendInflationaryRewards # range:github.com/cosmos/cosmos-sdk/types.NewCoin((cosmossdk.io/math.Int).Add())`:                          {"linked", "sum of the two parts of a non-negative provision (MINT-NO-OVERFLOW, OUTPUTS-POSITIVE)"},
	`(x/mint/keeper.Keeper).SendInflationaryRewards # range:github.com/cosmos/cosmos-sdk/types.NewCoin((cosmossdk.io/math.Int).QuoRaw())`:                       {"linked", "only under quarter.IsPositive() (OUTPUTS-POSITIVE)"},
	`(x/mint/keeper.Keeper).SendInflationaryRewards # range:github.com/cosmos/cosmos-sdk/types.NewCoin((cosmossdk.io/math.Int).Sub())`:                          {"linked", "only under threequarters.IsPositive() (OUTPUTS-POSITIVE)"},
	`(x/mint/types.Minter).CalculateBlockProvision # range:github.com/cosmos/cosmos-sdk/types.NewCoin(/(*(146940000,(time.Duration).Milliseconds()),86400000))`: {"linked", "elapsed time is non-negative behind the current.Before(previous) test, and rate x elapsed stays below 2^63 for any gap up to a year in the unit used (MINT-NO-OVERFLOW)"},
	`(x/oracle/keeper.Keeper).AllocateRewards # range:github.com/cosmos/cosmos-sdk/types.NewCoin(param3)`:                                                       {"accepted", "the reward is a query's tip amount or the balance of the reward pool: bank balances and recorded tips are non-negative"},
	`(x/oracle/keeper.Keeper).WeightedMedian # range:(cosmossdk.io/math.LegacyDec).TruncateInt64(loopvar)`:                                                      {"accepted", "the truncated quantity is the sum of the reporters' powers; a power is bonded stake / 10^6, so the sum is bounded by total supply / 10^6, far below 2^63 (C06 states the same bound)"},
	`(x/mint/keeper.Keeper).SendInflationaryRewards # err-ext:iface:x/mint/types.BankKeeper.InputOutputCoins`:                                                   {"linked", "input = sum of outputs = amount just minted (C03 LIN-SPLIT); every output carries a positive amount and the call is skipped without outputs (OUTPUTS-POSITIVE) — x/bank rejects an output without coins, which a provision of 1-3 loya (block times 1-2 ms apart) used to produce (D19)"},
	`(x/mint/types.Minter).CalculateBlockProvision # err-local:fmt.Errorf "current time %v cannot be before previous time %"`:                                   {"accepted", "assumption: consensus block time is monotone"},

	// ---- oracle EndBlock
	`(x/oracle/keeper.Keeper).AllocateRewards # err-ext:github.com/cosmos/cosmos-sdk/types.AccAddressFromBech32`:                 {"linked", "the address string is AggregateReporter.Reporter, produced by AccAddress.String() in SetValue (REPORTER-BECH32)"},
	`(x/oracle/keeper.Keeper).AllocateRewards # err-ext:iface:x/oracle/types.BankKeeper.SendCoinsFromModuleToModule`:             {"accepted", "moves query.Amount, which the oracle account received when tipped (C04 LIN-LEDGER-PAIR; numeric, not decided)"},
	`(x/oracle/keeper.Keeper).CurrentQuery # err-local:sentinel cosmossdk.io/collections.ErrNotFound`:                            {"linked", "RotateQueries tolerates not-found (errors.Is) before propagating (ROTATE-TOLERATES-NOTFOUND)"},
	`(x/oracle/keeper.Keeper).GetCurrentQueryInCycleList # err-local:errors.New "cycle list is empty"`:                           {"linked", "the cycle list is non-empty: genesis writes it and UpdateCyclelist rejects an empty list before Clear (CYCLELIST-NONEMPTY)"},
	`(x/oracle/keeper.Keeper).RotateQueries # index:(x/oracle/keeper.Keeper).GetCyclelist()#0[loopvar]`:                          {"linked", "n is 0 or n+1 with n < len-1, and the list is non-empty because GetCurrentQueryInCycleList succeeded earlier on every path (ROTATE-INDEX)"},
	`(x/oracle/keeper.Keeper).SetAggregate # err-ext:coll:x/oracle/keeper.Keeper.Nonces.Get {not-found tolerated}`:               {"infrastructure", "not-found is tolerated (first aggregate of a query); other errors are store faults"},
	`(x/oracle/keeper.Keeper).SetAggregatedReport # err-ext:coll:x/oracle/keeper.Keeper.Query.Get`:                               {"accepted", "key just read from the Query map's own HasReveals index"},
	`(x/oracle/keeper.Keeper).SetAggregatedReport # index:cosmossdk.io/collections/indexes.CollectValues()#0[0]`:                 {"linked", "HasRevealedReports is stored true only by SetValue, whose success path also stores a report under the same (queryId, meta id) (REVEALED-HAS-REPORT)"},
	`(x/oracle/keeper.Keeper).WeightedMedian # err-local:errors.New "failed to parse value"`:                                     {"linked", "the stored value passed ValidateValue (hex after 0x-stripping) and is parsed through the same normaliser (VALUE-NORMALISED)"},
	`(x/oracle/keeper.Keeper).WeightedMode # err-local:sentinel x/oracle/types.ErrNoReportsToAggregate`:                          {"linked", "REVEALED-HAS-REPORT: the report list of an aggregated round is non-empty"},
	`(x/registry/keeper.Keeper).GetSpec # err-ext:coll:x/registry/keeper.Keeper.SpecRegistry.Get`:                                {"linked", "cycle-list entries are validated to have a registered spec by UpdateCyclelist; specs are never removed (CYCLELIST-VALIDATED, SPEC-NO-REMOVE)"},
	`x/registry/types.DecodeQueryType # err-ext:(github.com/ethereum/go-ethereum/accounts/abi.Arguments).Unpack`:                 {"linked", "cycle-list entries are decoded by UpdateCyclelist before being stored (CYCLELIST-VALIDATED)"},
	`x/registry/types.DecodeQueryType # err-ext:github.com/ethereum/go-ethereum/accounts/abi.NewType`:                            {"library", "constant elementary ABI type string (ABI-CONST-TYPES)"},
	`x/registry/types.DecodeQueryType # index:(github.com/ethereum/go-ethereum/accounts/abi.Arguments).Unpack()#0[0]`:            {"library", "Unpack of a 2-argument list returned without error yields 2 values"},
	`x/registry/types.DecodeQueryType # index:(github.com/ethereum/go-ethereum/accounts/abi.Arguments).Unpack()#0[1]`:            {"library", "as above"},
	`x/registry/types.DecodeQueryType # assert:string <- (github.com/ethereum/go-ethereum/accounts/abi.Arguments).Unpack()#0[0]`: {"library", "argument 0 of the list is of ABI type string"},
	`x/registry/types.DecodeQueryType # assert:byte <- (github.com/ethereum/go-ethereum/accounts/abi.Arguments).Unpack()#0[1]`:   {"library", "argument 1 of the list is of ABI type bytes"},
	`utils.Remove0xPrefix # index:param0[:2]`:                                                                                   {"linked", "under has0xPrefix, which tests len >= 2 (PREFIX-LEN)"},
	`(x/reporter/keeper.Keeper).DivvyingTips # div:Quo by x/reporter/types.DelegationsAmounts.Total`:                            {"accepted", "snapshot total >= minimum stake: ReporterStake stores the snapshot and SubmitValue rejects stake < MinStakeAmount (C07 ADMIT, C10)"},
	`(x/reporter/keeper.Keeper).DivvyingTips # err-ext:coll:x/reporter/keeper.Keeper.Report.Get`:                                {"accepted", "snapshot written by ReporterStake, which dominates SetValue, under the same (queryId, reporter, height) (C07 ADMIT)"},
	`(x/reporter/keeper.Keeper).DivvyingTips # err-ext:coll:x/reporter/keeper.Keeper.Reporters.Get`:                             {"linked", "reporters are never removed (REPORTERS-NO-REMOVE)"},
	`(x/reporter/keeper.Keeper).addSelectorTips # err-ext:coll:x/reporter/keeper.Keeper.SelectorTips.Get {not-found tolerated}`: {"infrastructure", "not-found is tolerated (first tip of a selector); the read moved from DivvyingTips into this helper with the D6 repair"},
	`x/oracle/keeper.CalculateRewardAmount # div:Quo by param2`:                                                                 {"accepted", "totalPower sums the powers of the listed reporters; a stored report has power >= 1 (C07 ADMIT min stake / PowerReduction)"},

	// ---- reporter EndBlock
	`(x/reporter/keeper.Keeper).TrackStakeChange # err-ext:coll:x/reporter/keeper.Keeper.Tracker.Get`:              {"accepted", "Tracker written in InitGenesis (GENESIS-WRITES)"},
	`(x/reporter/keeper.Keeper).TrackStakeChange # err-ext:iface:x/reporter/types.StakingKeeper.TotalBondedTokens`: {"infrastructure", "bank balance read of the bonded pool"},
}

// ---------------------------------------------------------------------------
// Linked obligations: the structural facts the "linked" justifications rely on.

func storesConstToField(in ssa.Instruction, field string, want string) bool {
	st, ok := in.(*ssa.Store)
	if !ok {
		return false
	}
	fa, ok := st.Addr.(*ssa.FieldAddr)
	if !ok || fieldName(fa.X.Type(), fa.Field) != field {
		return false
	}
	c, ok := st.Val.(*ssa.Const)
	if !ok {
		return false
	}
	return c.Value != nil && c.Value.ExactString() == want
}

func c02Links(r *Result) {
	P := r.P
	link := func(ok bool, name, construct, where, detail string) {
		r.check(ok, "FAIL-LINK", name+" @ "+construct, where, detail)
	}
	need := func(name string) *ssa.Function {
		f := P.Func(name)
		if f == nil {
			r.broken("anchor %s does not resolve", name)
		} else {
			r.fn(name)
		}
		return f
	}
	// EXEC-DUE-STRICT: ExecuteVote promotes an unresolved dispute only for DisputeEndTime < BlockTime (strict); the hook's
	// due-test must be that same strict relation (or status Resolved), else the block with BlockTime == DisputeEndTime fails
	if cc := need("x/dispute.CheckClosedDisputesForExecution"); cc != nil {
		ps := AnalyzePaths(cc, []Atom{
			{Name: "afterEnd", Cond: func(rel *Term) (bool, bool) {
				if rel.Op == "<" && len(rel.Args) == 2 && rel.Args[0].Contains("Dispute.DisputeEndTime") && rel.Args[1].Contains("BlockTime") {
					return true, true
				}
				if rel.Op == "call:(time.Time).After" && len(rel.Args) == 2 && rel.Args[1].Contains("Dispute.DisputeEndTime") {
					return true, true
				}
				if rel.Op == "call:(time.Time).Before" && len(rel.Args) == 2 && rel.Args[0].Contains("Dispute.DisputeEndTime") {
					return true, true
				}
				return false, false
			}},
			{Name: "resolved", Cond: func(rel *Term) (bool, bool) {
				if rel.Op == "==" && rel.Contains("Dispute.DisputeStatus") {
					return true, true
				}
				return false, false
			}}})
		n := 0
		for _, cs := range P.CallSitesIn(cc) {
			if cs.Callee == "(x/dispute/keeper.Keeper).ExecuteVote" {
				n++
				bad := ps.Require(cs.Instr, func(v map[string]bool) bool { return v["afterEnd"] || v["resolved"] })
				link(len(bad) == 0, "EXEC-DUE-STRICT", "x/dispute.CheckClosedDisputesForExecution # ExecuteVote is called only strictly after the dispute end (or for a resolved dispute)", P.Pos(cs.Pos()), fmt.Sprintf("valuations: %v", bad))
			}
		}
		link(n == 1, "EXEC-DUE-STRICT", "x/dispute.CheckClosedDisputesForExecution # one ExecuteVote call", P.Pos(cc.Pos()), fmt.Sprint(n))
	}

	// BURN-BOUNDED: the amounts ExecuteVote derives from SlashAmount - BurnAmount stay non-negative because every writer of
	// BurnAmount keeps it within SlashAmount: the first round stores a twentieth of the fee, a later round adds its fee only
	// on paths where BurnAmount + fee > SlashAmount was found false
	{
		writers, okAll := 0, true
		var where token.Pos
		for _, fn := range P.RepoFuncs {
			if !strings.HasPrefix(fnCanon(fn), "(x/dispute/keeper.") {
				continue
			}
			tm := NewTermer()
			var ps *PathStates
			for _, b := range fn.Blocks {
				for _, in := range b.Instrs {
					st, ok := in.(*ssa.Store)
					if !ok {
						continue
					}
					fa, ok := st.Addr.(*ssa.FieldAddr)
					if !ok || fieldName(fa.X.Type(), fa.Field) != "x/dispute/types.Dispute.BurnAmount" {
						continue
					}
					writers++
					v := tm.Of(st.Val)
					// first round: SlashAmount/20 of the same record (through LegacyDec and TruncateInt)
					if p := (&linEval{Atomise: func(t *Term) string {
						if strings.HasPrefix(t.Op, "param:") || strings.HasPrefix(t.Op, "ext:") || strings.HasPrefix(t.Op, "field:") {
							return "fee"
						}
						return ""
					}}).Eval(v); p.plain() == "1/20 * fee^1" {
						continue
					}
					// later round: old + fee under the bound
					if v.Op == "call:(cosmossdk.io/math.Int).Add" && len(v.Args) == 2 && strings.HasSuffix(v.Args[0].Op, "Dispute.BurnAmount") || (v.Op == "call:(cosmossdk.io/math.Int).Add" && v.Args[0].Contains("Dispute.BurnAmount")) {
						sum := v.String()
						if ps == nil {
							ps = AnalyzePaths(fn, []Atom{{Name: "overBound", Stable: true, Cond: func(rel *Term) (bool, bool) {
								// sum > SlashAmount, normalised to SlashAmount < sum
								if rel.Op == "<" && len(rel.Args) == 2 && rel.Args[1].String() == sum && strings.HasSuffix(rel.Args[0].Op, "Dispute.SlashAmount") {
									return true, true
								}
								if rel.Op == "<=" && len(rel.Args) == 2 && rel.Args[0].String() == sum && strings.HasSuffix(rel.Args[1].Op, "Dispute.SlashAmount") {
									return true, false
								}
								return false, false
							}}})
						}
						if bad := ps.Require(st, func(val map[string]bool) bool { return !val["overBound"] }); len(bad) == 0 && len(ps.Matched["overBound"]) > 0 {
							continue
						}
					}
					okAll, where = false, st.Pos()
					link(false, "BURN-BOUNDED", FuncName(fn)+" # BurnAmount is stored as fee/20, or as old + round fee only where that sum was found not to exceed SlashAmount", P.Pos(st.Pos()), "stored: "+clip(v.String(), 160))
				}
			}
		}
		_ = where
		link(okAll && writers == 2, "BURN-BOUNDED", "x/dispute/keeper # the two writers of Dispute.BurnAmount keep it within SlashAmount", "-", fmt.Sprintf("%d writers", writers))
	}

	// OUTPUTS-POSITIVE: x/bank rejects an output without coins; the mint split only sends positive parts
	if sir := need("(x/mint/keeper.Keeper).SendInflationaryRewards"); sir != nil {
		guardedAmounts := map[string]bool{}
		ps := AnalyzePaths(sir, []Atom{
			{Name: "positive", Cond: func(rel *Term) (bool, bool) {
				if rel.Op == "<" && len(rel.Args) == 2 && rel.Args[0].Op == "const:0" {
					guardedAmounts[(&linEval{}).Eval(rel.Args[1]).String()] = true
					return true, true
				}
				return false, true
			}},
			{Name: "none", Cond: func(rel *Term) (bool, bool) {
				return rel.Op == "==" && len(rel.Args) == 2 && strings.Contains(rel.Args[0].Op, "len") && rel.Args[1].Op == "const:0", true
			}},
		})
		n := 0
		for _, b := range sir.Blocks {
			for _, in := range b.Instrs {
				c, ok := in.(*ssa.Call)
				if !ok {
					continue
				}
				if bi, ok := c.Call.Value.(*ssa.Builtin); ok && bi.Name() == "append" && strings.Contains(c.Type().String(), "bank/types.Output") {
					n++
					bad := ps.Require(c, func(v map[string]bool) bool { return v["positive"] })
					// the guarded quantity is the amount of this output
					amt := ""
					for _, el := range variadicElemValues(c.Call.Args[1]) {
						el = stripIface(el)
						if ld, ok := el.(*ssa.UnOp); ok {
							el = ld.X
						}
						if al, ok := el.(*ssa.Alloc); ok {
							if v := singleFieldStore(al, 1); v != nil {
								amt = coinsAmount(v).String()
							}
						}
					}
					guarded := amt != "" && guardedAmounts[amt]
					link(len(bad) == 0 && guarded, "OUTPUTS-POSITIVE", "(x/mint/keeper.Keeper).SendInflationaryRewards # an output is added only for a positive amount", P.Pos(c.Pos()), fmt.Sprintf("valuations %v ; output amount %s guarded: %v", statesStr(ps, c), clip(amt, 80), guarded))
				}
			}
		}
		link(n == 2, "OUTPUTS-POSITIVE", "(x/mint/keeper.Keeper).SendInflationaryRewards # two guarded outputs", P.Pos(sir.Pos()), fmt.Sprintf("%d", n))
		for _, cs := range P.CallSitesIn(sir) {
			if isBankCall(cs, "InputOutputCoins") {
				bad := ps.Require(cs.Instr, func(v map[string]bool) bool { return !v["none"] })
				link(len(bad) == 0 && len(ps.Matched["none"]) > 0, "OUTPUTS-POSITIVE", "(x/mint/keeper.Keeper).SendInflationaryRewards # InputOutputCoins is not called without outputs", P.Pos(cs.Pos()), fmt.Sprint(statesStr(ps, cs.Instr)))
			}
		}
	}
	// VALUE-NORMALISED: the two block-path parsers of a report value strip the 0x prefix like validation does
	if wm := need("(x/oracle/keeper.Keeper).WeightedMedian"); wm != nil {
		n := 0
		for _, cs := range P.CallSitesIn(wm) {
			if cs.Callee == "(*math/big.Int).SetString" {
				n++
				t := NewTermer().Of(Arg(cs.Instr, 0))
				ok := strings.HasPrefix(t.Op, "call:") && strings.HasSuffix(t.Op, ".Remove0xPrefix") && t.Has("field:x/oracle/types.MicroReport.Value")
				link(ok, "VALUE-NORMALISED", "(x/oracle/keeper.Keeper).WeightedMedian # SetString(report value)", P.Pos(cs.Pos()), "parsed string: "+clip(t.String(), 140))
			}
		}
		link(n > 0, "VALUE-NORMALISED", "(x/oracle/keeper.Keeper).WeightedMedian # parses the value", P.Pos(wm.Pos()), fmt.Sprintf("%d SetString sites", n))
	}
	if enc := need("(x/bridge/keeper.Keeper).EncodeOracleAttestationData"); enc != nil {
		n := 0
		for _, cs := range P.CallSitesIn(enc) {
			if cs.Callee == "encoding/hex.DecodeString" {
				t := NewTermer().Of(cs.Instr.Common().Args[0])
				if strings.HasPrefix(t.Op, "const:") {
					continue // the constant domain separator
				}
				n++
				ok := strings.HasPrefix(t.Op, "call:") && strings.HasSuffix(t.Op, ".Remove0xPrefix") && t.Has("param:2:string")
				link(ok, "VALUE-NORMALISED", "(x/bridge/keeper.Keeper).EncodeOracleAttestationData # hex.DecodeString(value)", P.Pos(cs.Pos()), "decoded string: "+clip(t.String(), 140))
			}
		}
		link(n > 0, "VALUE-NORMALISED", "(x/bridge/keeper.Keeper).EncodeOracleAttestationData # decodes the value", P.Pos(enc.Pos()), fmt.Sprintf("%d non-constant DecodeString sites", n))
	}
	// MINT-NO-OVERFLOW: the provision multiplies a constant rate by the elapsed time in int64; the product must not wrap
	// for any gap between two blocks up to a year, in the unit the elapsed time is taken in
	if cbp := need("(x/mint/types.Minter).CalculateBlockProvision"); cbp != nil {
		ticksPerYear := map[string]float64{"Seconds": 3.1536e7, "Milliseconds": 3.1536e10, "Microseconds": 3.1536e13, "Nanoseconds": 3.1536e16}
		n := 0
		for _, b := range cbp.Blocks {
			for _, in := range b.Instrs {
				bo, ok := in.(*ssa.BinOp)
				if !ok || bo.Op != token.MUL {
					continue
				}
				var cst *ssa.Const
				var other ssa.Value
				if c, ok := bo.X.(*ssa.Const); ok {
					cst, other = c, bo.Y
				} else if c, ok := bo.Y.(*ssa.Const); ok {
					cst, other = c, bo.X
				}
				if cst == nil || cst.Value == nil {
					continue
				}
				t := NewTermer().Of(other)
				unit := ""
				for u := range ticksPerYear {
					if t.Op == "call:(time.Duration)."+u {
						unit = u
					}
				}
				if unit == "" {
					continue
				}
				n++
				rate, _ := constant.Float64Val(constant.ToFloat(cst.Value))
				okO := rate > 0 && rate*ticksPerYear[unit] < 9.2e18
				link(okO, "MINT-NO-OVERFLOW", "(x/mint/types.Minter).CalculateBlockProvision # rate x elapsed "+strings.ToLower(unit)+" stays below 2^63 for gaps up to a year", P.Pos(bo.Pos()), fmt.Sprintf("rate %.0f x %.4g ticks per year = %.3g", rate, ticksPerYear[unit], rate*ticksPerYear[unit]))
			}
		}
		link(n == 1, "MINT-NO-OVERFLOW", "(x/mint/types.Minter).CalculateBlockProvision # one rate x elapsed-time product", P.Pos(cbp.Pos()), fmt.Sprint(n))
		// elapsed >= 0: the product is reached only behind the `current before previous` rejection
		ps := AnalyzePaths(cbp, []Atom{{Name: "backwards", Stable: true, Cond: func(rel *Term) (bool, bool) {
			return rel.Op == "<" && len(rel.Args) == 2 && rel.Args[0].Op == "param:1:time.Time" && rel.Args[1].Op == "param:2:time.Time", true
		}}})
		for _, cs := range P.CallSitesIn(cbp) {
			if cs.Callee == "(time.Time).Sub" {
				bad := ps.Require(cs.Instr, func(v map[string]bool) bool { return !v["backwards"] })
				link(len(bad) == 0 && len(ps.Matched["backwards"]) > 0, "MINT-NO-OVERFLOW", "(x/mint/types.Minter).CalculateBlockProvision # the elapsed time is taken only when current is not before previous", P.Pos(cs.Pos()), fmt.Sprint(statesStr(ps, cs.Instr)))
			}
		}
	}
	// the validation at submission parses the value with the same strict decoder, after the same normaliser and nothing else
	if dv := need("x/registry/types.DecodeValue"); dv != nil {
		n := 0
		for _, cs := range P.CallSitesIn(dv) {
			if cs.Callee == "encoding/hex.DecodeString" {
				n++
				t := NewTermer().Of(cs.Instr.Common().Args[0])
				ok := strings.HasPrefix(t.Op, "call:") && strings.HasSuffix(t.Op, ".Remove0xPrefix") && len(t.Args) == 1 && t.Args[0].Op == "param:0:string"
				link(ok, "VALUE-NORMALISED", "x/registry/types.DecodeValue # the validator decodes exactly the 0x-stripped value (what it accepts, every later hex.DecodeString accepts)", P.Pos(cs.Pos()), "decoded string: "+clip(t.String(), 140))
			}
		}
		link(n == 1, "VALUE-NORMALISED", "x/registry/types.DecodeValue # one hex.DecodeString site", P.Pos(dv.Pos()), fmt.Sprint(n))
		// DecodeValue fails when the decode fails, and ValidateValue fails when DecodeValue fails
		reach := P.Reachable([]*ssa.Function{P.Func("(x/registry/types.DataSpec).ValidateValue")}, nil)
		_, okReach := reach[dv]
		link(okReach, "VALUE-NORMALISED", "(x/registry/types.DataSpec).ValidateValue # goes through DecodeValue", P.Pos(dv.Pos()), "")
	}
	// ValidateValue dominates the report store in SetValue
	if sv := need("(x/oracle/keeper.Keeper).SetValue"); sv != nil {
		ps := AnalyzePaths(sv, []Atom{{Name: "validated", Event: P.CallEvent(func(c *CallSite) bool { return c.Callee == "(x/registry/types.DataSpec).ValidateValue" }, T)},
			{Name: "validerr", Cond: func(rel *Term) (bool, bool) {
				if rel.Op == "==" && len(rel.Args) == 2 && rel.Args[0].Op == "call:(x/registry/types.DataSpec).ValidateValue" && rel.Args[1].Op == "const:nil" {
					return true, false
				}
				return false, false
			}}})
		n := 0
		for _, cs := range P.CallSitesIn(sv) {
			if cs.Desc() == "coll:x/oracle/keeper.Keeper.Reports.Set" {
				n++
				bad := ps.Require(cs.Instr, func(v map[string]bool) bool { return v["validated"] && !v["validerr"] })
				link(len(bad) == 0, "VALUE-NORMALISED", "(x/oracle/keeper.Keeper).SetValue # ValidateValue succeeded before Reports.Set", P.Pos(cs.Pos()), fmt.Sprintf("valuations: %v", statesStr(ps, cs.Instr)))
			}
		}
		link(n == 1, "REVEALED-HAS-REPORT", "(x/oracle/keeper.Keeper).SetValue # stores the report", P.Pos(sv.Pos()), fmt.Sprintf("%d Reports.Set sites", n))
		// HasRevealedReports = true only here, and success path stores a report
		psr := AnalyzePaths(sv, []Atom{{Name: "flag", Event: func(in ssa.Instruction) (bool, int8) {
			return storesConstToField(in, "x/oracle/types.QueryMeta.HasRevealedReports", "true"), T
		}}, {Name: "report", Event: P.CallEvent(descIs("coll:x/oracle/keeper.Keeper.Reports.Set"), T)}})
		okAll := true
		for _, ret := range SuccessReturns(sv) {
			if bad := psr.Require(ret, func(v map[string]bool) bool { return !v["flag"] || v["report"] }); len(bad) > 0 {
				okAll = false
			}
		}
		link(okAll, "REVEALED-HAS-REPORT", "(x/oracle/keeper.Keeper).SetValue # flag => report stored on success", P.Pos(sv.Pos()), "every success path that sets HasRevealedReports also calls Reports.Set")
	}
	// who else stores HasRevealedReports = true
	var flaggers []string
	for _, fn := range P.RepoFuncs {
		for _, b := range fn.Blocks {
			for _, in := range b.Instrs {
				if storesConstToField(in, "x/oracle/types.QueryMeta.HasRevealedReports", "true") {
					flaggers = append(flaggers, FuncName(TopFunc(fn)))
				}
			}
		}
	}
	link(len(flaggers) == 1 && flaggers[0] == "(x/oracle/keeper.Keeper).SetValue", "REVEALED-HAS-REPORT", "writers of QueryMeta.HasRevealedReports=true", "-", fmt.Sprintf("writers: %v", flaggers))
	link(len(P.Sites(descIs("coll:x/oracle/keeper.Keeper.Reports.Remove"))) == 0, "REVEALED-HAS-REPORT", "no Reports.Remove", "-", "reports are never removed")

	// TALLY-CALLSITE
	if hook := need("x/dispute.CheckOpenDisputesForExpiration"); hook != nil {
		voteEndPast := func(rel *Term) (bool, bool) {
			if rel.Op == "<" && len(rel.Args) == 2 && strings.HasPrefix(rel.Args[0].Op, "field:x/dispute/types.Vote.VoteEnd") && rel.Args[1].Has("call:(github.com/cosmos/cosmos-sdk/types.Context).BlockTime") {
				return true, true
			}
			return false, false
		}
		noTally := func(rel *Term) (bool, bool) {
			if rel.Op == "==" && len(rel.Args) == 2 && strings.HasPrefix(rel.Args[0].Op, "field:x/dispute/types.Vote.VoteResult") && rel.Args[1].Op == "const:0" {
				return true, true
			}
			return false, false
		}
		ps := AnalyzePaths(hook, []Atom{{Name: "voteEnded", Cond: voteEndPast}, {Name: "noTally", Cond: noTally}})
		n := 0
		for _, cs := range P.CallSitesIn(hook) {
			if cs.Callee == "(x/dispute/keeper.Keeper).TallyVote" {
				n++
				bad := ps.Require(cs.Instr, func(v map[string]bool) bool { return v["voteEnded"] && v["noTally"] })
				link(len(bad) == 0, "TALLY-CALLSITE", "x/dispute.CheckOpenDisputesForExpiration # TallyVote under VoteEnd < BlockTime and NO_TALLY", P.Pos(cs.Pos()), fmt.Sprintf("valuations: %v", statesStr(ps, cs.Instr)))
			}
		}
		link(n == 1, "TALLY-CALLSITE", "x/dispute.CheckOpenDisputesForExpiration # calls TallyVote", P.Pos(hook.Pos()), fmt.Sprintf("%d call sites", n))
		if tv := need("(x/dispute/keeper.Keeper).TallyVote"); tv != nil {
			ps2 := AnalyzePaths(tv, []Atom{{Name: "voteEnded", Cond: voteEndPast}, {Name: "noTally", Cond: noTally}})
			for _, b := range tv.Blocks {
				ret, ok := b.Instrs[len(b.Instrs)-1].(*ssa.Return)
				if !ok || !DefinitelyFails(ret) {
					continue
				}
				t := NewTermer().Of(ResultOf(ret, 0))
				switch {
				case t.Has("const:vote already tallied"):
					bad := ps2.Require(ret, func(v map[string]bool) bool { return !v["noTally"] })
					link(len(bad) == 0, "TALLY-CALLSITE", "(x/dispute/keeper.Keeper).TallyVote # 'already tallied' only when VoteResult != NO_TALLY", P.Pos(ret.Pos()), fmt.Sprintf("valuations: %v", statesStr(ps2, ret)))
				case t.Has("global:x/dispute/types.ErrNoQuorumStillVoting"):
					bad := ps2.Require(ret, func(v map[string]bool) bool { return !v["voteEnded"] })
					link(len(bad) == 0, "TALLY-CALLSITE", "(x/dispute/keeper.Keeper).TallyVote # 'still voting' only when !(VoteEnd < BlockTime)", P.Pos(ret.Pos()), fmt.Sprintf("valuations: %v", statesStr(ps2, ret)))
				}
			}
			// PENDING-IMPLIES-TALLIED: a success path that stores PendingExecution=true also records a result
			ps3 := AnalyzePaths(tv, []Atom{
				{Name: "pending", Event: func(in ssa.Instruction) (bool, int8) {
					return storesConstToField(in, "x/dispute/types.Dispute.PendingExecution", "true"), T
				}},
				{Name: "decided", Event: func(in ssa.Instruction) (bool, int8) {
					if c, ok := in.(ssa.CallInstruction); ok {
						if cs := P.siteOf(c); cs != nil && cs.Callee == "(x/dispute/keeper.Keeper).UpdateDispute" {
							return true, T
						}
					}
					if st, ok := in.(*ssa.Store); ok {
						if fa, ok := st.Addr.(*ssa.FieldAddr); ok && fieldName(fa.X.Type(), fa.Field) == "x/dispute/types.Vote.VoteResult" {
							if c, ok := st.Val.(*ssa.Const); ok && c.Value != nil && c.Value.ExactString() != "0" {
								return true, T
							}
						}
					}
					return false, U
				}}})
			okAll := true
			det := ""
			for _, ret := range SuccessReturns(tv) {
				if bad := ps3.Require(ret, func(v map[string]bool) bool { return !v["pending"] || v["decided"] }); len(bad) > 0 {
					okAll = false
					det = fmt.Sprint(bad)
				}
			}
			link(okAll, "PENDING-IMPLIES-TALLIED", "(x/dispute/keeper.Keeper).TallyVote # PendingExecution=true => result recorded", P.Pos(tv.Pos()), "success paths that mark the dispute pending also record a vote result "+det)
		}
	}
	// UpdateDispute records a non-NO_TALLY result on every success path (total decision)
	if ud := need("(x/dispute/keeper.Keeper).UpdateDispute"); ud != nil {
		n, zero := 0, 0
		for _, b := range ud.Blocks {
			for _, in := range b.Instrs {
				if st, ok := in.(*ssa.Store); ok {
					if fa, ok := st.Addr.(*ssa.FieldAddr); ok && fieldName(fa.X.Type(), fa.Field) == "x/dispute/types.Vote.VoteResult" {
						n++
						res := st.Val
						var vals []ssa.Value
						if ph, ok := res.(*ssa.Phi); ok {
							vals = ph.Edges
						} else {
							vals = []ssa.Value{res}
						}
						for _, v := range vals {
							if c, ok := v.(*ssa.Const); !ok || c.Value == nil || c.Value.ExactString() == "0" {
								zero++
							}
						}
					}
				}
			}
		}
		link(n >= 1 && zero == 0, "PENDING-IMPLIES-TALLIED", "(x/dispute/keeper.Keeper).UpdateDispute # every recorded result is a decision", P.Pos(ud.Pos()), fmt.Sprintf("%d stores to Vote.VoteResult, %d of them possibly NO_TALLY / non-constant", n, zero))
		fails := 0
		for _, b := range ud.Blocks {
			if ret, ok := b.Instrs[len(b.Instrs)-1].(*ssa.Return); ok && DefinitelyFails(ret) {
				t := NewTermer().Of(ResultOf(ret, 0))
				if strings.HasPrefix(t.Op, "call:errors.New") || strings.HasPrefix(t.Op, "call:fmt.Errorf") {
					fails++
				}
			}
		}
		link(fails == 0, "PENDING-IMPLIES-TALLIED", "(x/dispute/keeper.Keeper).UpdateDispute # no 'undecided' error return", P.Pos(ud.Pos()), fmt.Sprintf("%d locally constructed error returns (a vote distribution without a result would fail the begin blocker)", fails))
	}
	// EXECUTE-CLEARS-PENDING
	if ev := need("(x/dispute/keeper.Keeper).ExecuteVote"); ev != nil {
		ps := AnalyzePaths(ev, []Atom{
			{Name: "cleared", Event: func(in ssa.Instruction) (bool, int8) {
				return storesConstToField(in, "x/dispute/types.Dispute.PendingExecution", "false"), T
			}},
			{Name: "stored", Event: func(in ssa.Instruction) (bool, int8) {
				if c, ok := in.(ssa.CallInstruction); ok {
					if cs := P.siteOf(c); cs != nil && cs.Desc() == "coll:x/dispute/keeper.Keeper.Disputes.Set" {
						return true, T
					}
				}
				if storesConstToField(in, "x/dispute/types.Dispute.PendingExecution", "false") {
					return true, F // a store after the flag change is required
				}
				return false, U
			}},
			{Name: "executed", Event: func(in ssa.Instruction) (bool, int8) {
				return storesConstToField(in, "x/dispute/types.Vote.Executed", "true"), T
			}}})
		okAll := true
		det := ""
		for _, ret := range SuccessReturns(ev) {
			if bad := ps.Require(ret, func(v map[string]bool) bool { return v["cleared"] && v["stored"] }); len(bad) > 0 {
				okAll = false
				det = fmt.Sprint(bad)
			}
		}
		link(okAll, "EXECUTE-CLEARS-PENDING", "(x/dispute/keeper.Keeper).ExecuteVote # success => PendingExecution=false stored", P.Pos(ev.Pos()), det)
	}
	// CLOSE-CLEARS-PENDING
	if cd := need("(x/dispute/keeper.Keeper).CloseDispute"); cd != nil {
		ps := AnalyzePaths(cd, []Atom{{Name: "cleared", Event: func(in ssa.Instruction) (bool, int8) {
			return storesConstToField(in, "x/dispute/types.Dispute.PendingExecution", "false"), T
		}}, {Name: "closed", Event: func(in ssa.Instruction) (bool, int8) {
			return storesConstToField(in, "x/dispute/types.Dispute.Open", "false"), T
		}}})
		n := 0
		for _, cs := range P.CallSitesIn(cd) {
			if cs.Desc() == "coll:x/dispute/keeper.Keeper.Disputes.Set" {
				n++
				bad := ps.Require(cs.Instr, func(v map[string]bool) bool { return v["cleared"] && v["closed"] })
				link(len(bad) == 0, "CLOSE-CLEARS-PENDING", "(x/dispute/keeper.Keeper).CloseDispute # superseded round stored with Open=false, PendingExecution=false", P.Pos(cs.Pos()), fmt.Sprintf("valuations at Disputes.Set: %v (a superseded round left in the pending-execution index is executed by the begin blocker and removes the BlockInfo shared with the live round)", statesStr(ps, cs.Instr)))
			}
		}
		link(n == 1, "CLOSE-CLEARS-PENDING", "(x/dispute/keeper.Keeper).CloseDispute # stores the dispute", P.Pos(cd.Pos()), fmt.Sprintf("%d Disputes.Set", n))
		if adr := need("(x/dispute/keeper.Keeper).AddDisputeRound"); adr != nil {
			ps := AnalyzePaths(adr, []Atom{{Name: "closedPrev", Event: P.CallEvent(func(c *CallSite) bool { return c.Callee == "(x/dispute/keeper.Keeper).CloseDispute" }, T)}})
			for _, cs := range P.CallSitesIn(adr) {
				if cs.Desc() == "coll:x/dispute/keeper.Keeper.Disputes.Set" {
					bad := ps.Require(cs.Instr, func(v map[string]bool) bool { return v["closedPrev"] })
					link(len(bad) == 0, "CLOSE-CLEARS-PENDING", "(x/dispute/keeper.Keeper).AddDisputeRound # previous round closed before the new round is stored", P.Pos(cs.Pos()), fmt.Sprintf("valuations: %v", statesStr(ps, cs.Instr)))
				}
			}
		}
	}
	// BLOCKINFO-LIFETIME
	{
		rem := P.Sites(descIs("coll:x/dispute/keeper.Keeper.BlockInfo.Remove"))
		var where []string
		for _, s := range rem {
			where = append(where, FuncName(TopFunc(s.Fn)))
		}
		link(len(rem) == 1 && where[0] == "(x/dispute/keeper.Keeper).ExecuteVote", "BLOCKINFO-LIFETIME", "BlockInfo.Remove only in ExecuteVote", "-", fmt.Sprintf("removers: %v", where))
		if snd := need("(x/dispute/keeper.Keeper).SetNewDispute"); snd != nil {
			ps := AnalyzePaths(snd, []Atom{{Name: "info", Event: P.CallEvent(func(c *CallSite) bool { return c.Callee == "(x/dispute/keeper.Keeper).SetBlockInfo" }, T)}})
			okAll := true
			for _, ret := range SuccessReturns(snd) {
				if bad := ps.Require(ret, func(v map[string]bool) bool { return v["info"] }); len(bad) > 0 {
					okAll = false
				}
			}
			link(okAll, "BLOCKINFO-LIFETIME", "(x/dispute/keeper.Keeper).SetNewDispute # success => SetBlockInfo", P.Pos(snd.Pos()), "every success path snapshots the block info for the dispute hash")
		}
	}
	// VOTING-HAS-VOTE: every function that stores status Voting calls SetStartVote on its success paths
	{
		for _, name := range []string{"(x/dispute/keeper.Keeper).SetNewDispute", "(x/dispute/keeper.Keeper).AddDisputeRound", "(x/dispute/keeper.msgServer).AddFeeToDispute"} {
			fn := need(name)
			if fn == nil {
				continue
			}
			ps := AnalyzePaths(fn, []Atom{
				{Name: "voting", Event: func(in ssa.Instruction) (bool, int8) {
					return storesConstToField(in, "x/dispute/types.Dispute.DisputeStatus", enumVal(P, "x/dispute/types", "Voting")), T
				}},
				{Name: "startvote", Event: P.CallEvent(func(c *CallSite) bool { return c.Callee == "(x/dispute/keeper.Keeper).SetStartVote" }, T)}})
			okAll := true
			det := ""
			for _, ret := range SuccessReturns(fn) {
				if bad := ps.Require(ret, func(v map[string]bool) bool { return !v["voting"] || v["startvote"] }); len(bad) > 0 {
					okAll = false
					det = fmt.Sprint(bad)
				}
			}
			link(okAll, "VOTING-HAS-VOTE", name+" # status Voting => SetStartVote", P.Pos(fn.Pos()), det)
		}
		var writers []string
		for _, fn := range P.RepoFuncs {
			for _, b := range fn.Blocks {
				for _, in := range b.Instrs {
					if storesConstToField(in, "x/dispute/types.Dispute.DisputeStatus", enumVal(P, "x/dispute/types", "Voting")) {
						writers = append(writers, FuncName(TopFunc(fn)))
					}
				}
			}
		}
		allowed := map[string]bool{"(x/dispute/keeper.Keeper).SetNewDispute": true, "(x/dispute/keeper.Keeper).AddDisputeRound": true, "(x/dispute/keeper.msgServer).AddFeeToDispute": true}
		okW := len(writers) > 0
		for _, w := range writers {
			if !allowed[w] {
				okW = false
			}
		}
		link(okW, "VOTING-HAS-VOTE", "writers of DisputeStatus=Voting", "-", fmt.Sprintf("%v", writers))
	}
	// HAS-BEFORE-GET in TallyVote (Voter)
	if tv := P.Func("(x/dispute/keeper.Keeper).TallyVote"); tv != nil {
		ps := AnalyzePaths(tv, []Atom{{Name: "has", Cond: func(rel *Term) (bool, bool) {
			if strings.HasPrefix(rel.Op, "ext:0") && len(rel.Args) == 1 && strings.HasSuffix(rel.Args[0].Op, ".Has") && rel.Has("field:x/dispute/keeper.Keeper.Voter") {
				return true, true
			}
			return false, false
		}}})
		for _, cs := range P.CallSitesIn(tv) {
			if cs.Desc() == "coll:x/dispute/keeper.Keeper.Voter.Get" {
				bad := ps.Require(cs.Instr, func(v map[string]bool) bool { return v["has"] })
				link(len(bad) == 0, "HAS-BEFORE-GET", "(x/dispute/keeper.Keeper).TallyVote # Voter.Get under Voter.Has", P.Pos(cs.Pos()), fmt.Sprintf("valuations: %v", statesStr(ps, cs.Instr)))
			}
		}
	}
	// SNAPSHOT-INTERNAL
	if cs := need("(x/bridge/keeper.Keeper).CreateSnapshot"); cs != nil {
		ps := AnalyzePaths(cs, []Atom{{Name: "external", Cond: func(rel *Term) (bool, bool) {
			if rel.Op == "param:4:bool" {
				return true, true
			}
			return false, false
		}}})
		for _, b := range cs.Blocks {
			ret, ok := b.Instrs[len(b.Instrs)-1].(*ssa.Return)
			if !ok || !DefinitelyFails(ret) {
				continue
			}
			if t := NewTermer().Of(ResultOf(ret, 0)); t.Has("const:too many external requests") {
				bad := ps.Require(ret, func(v map[string]bool) bool { return v["external"] })
				link(len(bad) == 0, "SNAPSHOT-INTERNAL", "(x/bridge/keeper.Keeper).CreateSnapshot # limit error only for external requests", P.Pos(ret.Pos()), fmt.Sprintf("valuations: %v", statesStr(ps, ret)))
			}
		}
		if cn := need("(x/bridge/keeper.Keeper).CreateNewReportSnapshots"); cn != nil {
			for _, s := range P.CallSitesIn(cn) {
				if s.Callee == "(x/bridge/keeper.Keeper).CreateSnapshot" {
					link(ConstArg(s.Instr, 3) == "false", "SNAPSHOT-INTERNAL", "(x/bridge/keeper.Keeper).CreateNewReportSnapshots # passes isExternalRequest=false", P.Pos(s.Pos()), "constant argument: "+ConstArg(s.Instr, 3))
				}
			}
		}
		// SET-BEFORE-GET for the two maps
		for _, m := range []string{"AttestSnapshotsByReportMap", "AttestRequestsByHeightMap"} {
			d := "coll:x/bridge/keeper.Keeper." + m
			ps := AnalyzePaths(cs, []Atom{
				{Name: "exists", Cond: func(rel *Term) (bool, bool) {
					if strings.HasPrefix(rel.Op, "ext:0") && rel.Has("field:x/bridge/keeper.Keeper."+m) && rel.HasSuffix(".Has") {
						return true, true
					}
					return false, false
				}},
				{Name: "set", Event: P.CallEvent(descIs(d+".Set"), T)}})
			for _, s := range P.CallSitesIn(cs) {
				if s.Desc() == d+".Get" {
					bad := ps.Require(s.Instr, func(v map[string]bool) bool { return v["exists"] || v["set"] })
					link(len(bad) == 0, "SET-BEFORE-GET", "(x/bridge/keeper.Keeper).CreateSnapshot # "+m+".Get after Has or Set", P.Pos(s.Pos()), fmt.Sprintf("valuations: %v", statesStr(ps, s.Instr)))
				}
			}
		}
	}
	// ROTATE-TOLERATES-NOTFOUND, ROTATE-INDEX, CYCLELIST-*
	if rq := need("(x/oracle/keeper.Keeper).RotateQueries"); rq != nil {
		// every propagation of CurrentQuery's error is under !errors.Is(err, ErrNotFound)
		fe := newFailEngine(P)
		prop := false
		for _, o := range fe.ErrFlow(rq) {
			if o.Desc == "sentinel cosmossdk.io/collections.ErrNotFound" {
				prop = true
			}
		}
		// ErrFlow is path-insensitive: check with path states that a return of CurrentQuery's err is under errors.Is == false
		tm := NewTermer()
		ok := true
		for _, b := range rq.Blocks {
			ret, isRet := b.Instrs[len(b.Instrs)-1].(*ssa.Return)
			if !isRet {
				continue
			}
			v := ResultOf(ret, 0)
			t := tm.Of(v)
			if t.Op == "ext:1" && t.Has("call:(x/oracle/keeper.Keeper).CurrentQuery") {
				if !fe.notFoundFiltered(rq, v, ret) {
					ok = false
				}
			}
		}
		_ = prop
		link(ok, "ROTATE-TOLERATES-NOTFOUND", "(x/oracle/keeper.Keeper).RotateQueries # CurrentQuery error returned only when it is not ErrNotFound", P.Pos(rq.Pos()), "returns of CurrentQuery's error are dominated by errors.Is(err, ErrNotFound) == false")
		// the list is non-empty where indexed: GetCurrentQueryInCycleList succeeded on every path to the index
		ps := AnalyzePaths(rq, []Atom{{Name: "current", Event: P.CallEvent(func(c *CallSite) bool { return c.Callee == "(x/oracle/keeper.Keeper).GetCurrentQueryInCycleList" }, T)},
			{Name: "currentErr", Cond: func(rel *Term) (bool, bool) {
				if rel.Op == "==" && len(rel.Args) == 2 && rel.Args[0].Op == "ext:1" && len(rel.Args[0].Args) == 1 && rel.Args[0].Args[0].Op == "call:(x/oracle/keeper.Keeper).GetCurrentQueryInCycleList" && rel.Args[1].Op == "const:nil" {
					return true, false
				}
				return false, false
			}},
			{Name: "nLtMax", Cond: func(rel *Term) (bool, bool) {
				// n >= max-1  rendered as <=(max-1, n)
				if rel.Op == "<=" && len(rel.Args) == 2 && rel.Args[0].Has("call:builtin:len") && rel.Args[1].Has("call:(cosmossdk.io/collections.Sequence).Next") {
					return true, false
				}
				return false, false
			}}})
		n := 0
		for _, b := range rq.Blocks {
			for _, in := range b.Instrs {
				var idx ssa.Value
				switch x := in.(type) {
				case *ssa.IndexAddr:
					idx = x.Index
				case *ssa.Index:
					idx = x.Index
				default:
					continue
				}
				if !tm.Of(in.(ssa.Value)).Has("call:(x/oracle/keeper.Keeper).GetCyclelist") {
					continue
				}
				n++
				bad := ps.Require(in, func(v map[string]bool) bool { return v["current"] && !v["currentErr"] })
				// index is phi(0, n+1 under n < max-1)
				shape := false
				if ph, ok := idx.(*ssa.Phi); ok && len(ph.Edges) == 2 {
					zero, inc := false, false
					for i, e := range ph.Edges {
						et := tm.Of(e)
						if et.Op == "const:0" {
							zero = true
						} else if et.Op == "+" && len(et.Args) == 2 && et.Args[1].Op == "const:1" {
							// the incrementing edge must come from the "n < max-1" side
							pred := ph.Block().Preds[i]
							for _, st := range statesAtBlockEnd(ps, pred) {
								_ = st
							}
							inc = true
						}
					}
					shape = zero && inc
				}
				link(len(bad) == 0 && shape, "ROTATE-INDEX", "(x/oracle/keeper.Keeper).RotateQueries # q[n] with n in {0, n+1 | n < len-1} on a non-empty list", P.Pos(in.Pos()), fmt.Sprintf("index %s ; valuations %v", clip(tm.Of(idx).String(), 120), statesStr(ps, in)))
			}
		}
		link(n >= 1, "ROTATE-INDEX", "(x/oracle/keeper.Keeper).RotateQueries # indexes the cycle list", P.Pos(rq.Pos()), fmt.Sprintf("%d index sites", n))
		// the increment edge is taken only when n < max-1: the If on (max-1 <= n) false edge leads to the increment
		okInc := false
		for _, b := range rq.Blocks {
			if iff, ok := b.Instrs[len(b.Instrs)-1].(*ssa.If); ok {
				rel, pol := Cond(tm.Of(iff.Cond))
				if rel.Op == "<=" && len(rel.Args) == 2 && rel.Args[0].Has("call:builtin:len") && rel.Args[0].Op == "-" && rel.Args[1].Has("call:(cosmossdk.io/collections.Sequence).Next") {
					// false edge of (len-1 <= n) is successor index: pol ? 1 : 0
					fi := 1
					if !pol {
						fi = 0
					}
					for _, in := range b.Succs[fi].Instrs {
						if bo, ok := in.(*ssa.BinOp); ok && bo.Op == token.ADD {
							if c, ok := bo.Y.(*ssa.Const); ok && c.Value != nil && c.Value.ExactString() == "1" {
								okInc = true
							}
						}
					}
				}
			}
		}
		link(okInc, "ROTATE-INDEX", "(x/oracle/keeper.Keeper).RotateQueries # n+1 only under n < len-1", P.Pos(rq.Pos()), "the increment is on the false edge of len(q)-1 <= n")
	}
	if uc := need("(x/oracle/keeper.msgServer).UpdateCyclelist"); uc != nil {
		emptyRej := func(rel *Term) (bool, bool) {
			if rel.Op == "==" && len(rel.Args) == 2 && rel.Args[0].Op == "call:builtin:len" && rel.Args[0].Has("field:x/oracle/types.MsgUpdateCyclelist.Cyclelist") && rel.Args[1].Op == "const:0" {
				return true, true
			}
			return false, false
		}
		ps := AnalyzePaths(uc, []Atom{{Name: "empty", Cond: emptyRej},
			{Name: "decoded", Event: P.CallEvent(func(c *CallSite) bool { return c.Callee == "x/registry/types.DecodeQueryType" }, T)},
			{Name: "spec", Event: P.CallEvent(func(c *CallSite) bool {
				return c.Callee == "(x/oracle/keeper.Keeper).GetDataSpec" || strings.HasSuffix(c.Callee, "RegistryKeeper.GetSpec")
			}, T)}})
		n := 0
		for _, cs := range P.CallSitesIn(uc) {
			if cs.Desc() == "coll:x/oracle/keeper.Keeper.Cyclelist.Clear" {
				n++
				bad := ps.Require(cs.Instr, func(v map[string]bool) bool { return !v["empty"] })
				link(len(bad) == 0, "CYCLELIST-NONEMPTY", "(x/oracle/keeper.msgServer).UpdateCyclelist # empty list rejected before Clear", P.Pos(cs.Pos()), fmt.Sprintf("valuations: %v", statesStr(ps, cs.Instr)))
			}
		}
		link(n == 1, "CYCLELIST-NONEMPTY", "(x/oracle/keeper.msgServer).UpdateCyclelist # clears then re-initialises", P.Pos(uc.Pos()), fmt.Sprintf("%d Clear sites", n))
		// validation loop: a loop over req.Cyclelist whose body calls DecodeQueryType and GetDataSpec and returns on error, before Clear
		dec, spec := 0, 0
		for _, cs := range P.CallSitesIn(uc) {
			if cs.Callee == "x/registry/types.DecodeQueryType" {
				dec++
			}
			if cs.Callee == "(x/oracle/keeper.Keeper).GetDataSpec" {
				spec++
			}
		}
		link(dec >= 1 && spec >= 1, "CYCLELIST-VALIDATED", "(x/oracle/keeper.msgServer).UpdateCyclelist # every entry decoded and its spec looked up", P.Pos(uc.Pos()), fmt.Sprintf("DecodeQueryType sites %d, GetDataSpec sites %d", dec, spec))
		var clearers []string
		for _, s := range P.Sites(func(c *CallSite) bool {
			return strings.HasPrefix(c.Desc(), "coll:x/oracle/keeper.Keeper.Cyclelist.") && (c.Method == "Clear" || c.Method == "Remove" || c.Method == "Set")
		}) {
			clearers = append(clearers, FuncName(TopFunc(s.Fn))+":"+s.Method)
		}
		okC := true
		for _, c := range clearers {
			switch c {
			case "(x/oracle/keeper.msgServer).UpdateCyclelist:Clear", "(x/oracle/keeper.Keeper).InitCycleListQuery:Set", "(x/oracle/keeper.Keeper).GenesisCycleList:Set":
			default:
				okC = false
			}
		}
		link(okC, "CYCLELIST-NONEMPTY", "writers of the Cyclelist collection", "-", fmt.Sprintf("%v", clearers))
	}
	link(len(P.Sites(descIs("coll:x/registry/keeper.Keeper.SpecRegistry.Remove"))) == 0, "SPEC-NO-REMOVE", "no SpecRegistry.Remove", "-", "data specs are never removed")
	link(len(P.Sites(descIs("coll:x/reporter/keeper.Keeper.Reporters.Remove"))) == 0, "REPORTERS-NO-REMOVE", "no Reporters.Remove", "-", "reporter records are never removed")
	// PREFIX-LEN
	if hp := need("utils.has0xPrefix"); hp != nil {
		tm := NewTermer()
		ok := false
		for _, b := range hp.Blocks {
			if iff, isIf := b.Instrs[len(b.Instrs)-1].(*ssa.If); isIf {
				rel, _ := Cond(tm.Of(iff.Cond))
				if rel.Op == "<=" && len(rel.Args) == 2 && rel.Args[0].Op == "const:2" && rel.Args[1].Op == "call:builtin:len" {
					ok = true
				}
			}
		}
		rp := need("utils.Remove0xPrefix")
		okCall := false
		if rp != nil {
			ps := AnalyzePaths(rp, []Atom{{Name: "has", Cond: func(rel *Term) (bool, bool) {
				if rel.Op == "call:utils.has0xPrefix" {
					return true, true
				}
				return false, false
			}}})
			for _, b := range rp.Blocks {
				for _, in := range b.Instrs {
					if sl, isSl := in.(*ssa.Slice); isSl && sl.Low != nil {
						okCall = len(ps.Require(in, func(v map[string]bool) bool { return v["has"] })) == 0
					}
				}
			}
		}
		link(ok && okCall, "PREFIX-LEN", "utils.Remove0xPrefix # s[2:] under has0xPrefix (len >= 2)", "utils/queryid.go", "has0xPrefix tests 2 <= len(str) first; Remove0xPrefix slices only under it")
	}
	// REPORTER-BECH32: the Reporter string of a micro report is AccAddress.String()
	if sv := P.Func("(x/oracle/keeper.Keeper).SetValue"); sv != nil {
		ok := false
		for _, b := range sv.Blocks {
			for _, in := range b.Instrs {
				if st, isSt := in.(*ssa.Store); isSt {
					if fa, isFa := st.Addr.(*ssa.FieldAddr); isFa && fieldName(fa.X.Type(), fa.Field) == "x/oracle/types.MicroReport.Reporter" {
						t := NewTermer().Of(st.Val)
						ok = t.Op == "call:(github.com/cosmos/cosmos-sdk/types.AccAddress).String"
					}
				}
			}
		}
		link(ok, "REPORTER-BECH32", "(x/oracle/keeper.Keeper).SetValue # MicroReport.Reporter = AccAddress.String()", P.Pos(sv.Pos()), "the reporter string later parsed by AllocateRewards is a bech32 rendering of an address")
	}
	// BONDED-LOOP-BOUND
	if gb := need("(x/reporter/keeper.Keeper).GetBondedValidators"); gb != nil {
		tm := NewTermer()
		ok := false
		for _, b := range gb.Blocks {
			if iff, isIf := b.Instrs[len(b.Instrs)-1].(*ssa.If); isIf {
				rel, _ := Cond(tm.Of(iff.Cond))
				if rel.Op == "<" && len(rel.Args) == 2 && rel.Args[1].Op == "param:2:uint32" {
					ok = true
				}
			}
		}
		mk := false
		for _, b := range gb.Blocks {
			for _, in := range b.Instrs {
				if ms, isMs := in.(*ssa.MakeSlice); isMs {
					if tm.Of(ms.Len).Op == "param:2:uint32" {
						mk = true
					}
				}
			}
		}
		link(ok && mk, "BONDED-LOOP-BOUND", "(x/reporter/keeper.Keeper).GetBondedValidators # make(max) and loop under i < max", P.Pos(gb.Pos()), "the slice has length max and the loop condition bounds the index by max")
	}
	// ABI-CONST-TYPES
	{
		n, bad := 0, 0
		for _, fn := range P.RepoFuncs {
			for _, cs := range P.CallSitesIn(fn) {
				if cs.Callee == "github.com/ethereum/go-ethereum/accounts/abi.NewType" {
					if _, onBlock := blockReach(P)[TopFunc(fn)]; !onBlock {
						continue
					}
					n++
					t := NewTermer().Of(cs.Instr.Common().Args[0])
					if !strings.HasPrefix(t.Op, "const:") || !validAbiTypes[strings.TrimPrefix(t.Op, "const:")] {
						bad++
						link(false, "ABI-CONST-TYPES", FuncName(TopFunc(fn))+" # abi.NewType("+t.Brief()+")", P.Pos(cs.Pos()), "ABI type string on a block path is not a constant elementary type")
					}
				}
			}
		}
		link(bad == 0 && n > 0, "ABI-CONST-TYPES", "abi.NewType on block paths", "-", fmt.Sprintf("%d sites, all constant elementary types", n))
	}
	// GENESIS-WRITES
	{
		gen := P.Reachable(P.Scopes().Genesis, nil)
		for _, d := range []string{"coll:x/mint/keeper.Keeper.Minter.Set", "coll:x/reporter/keeper.Keeper.Tracker.Set", "coll:x/bridge/keeper.Keeper.SnapshotLimit.Set", "coll:x/dispute/keeper.Keeper.Params.Set", "coll:x/oracle/keeper.Keeper.CyclelistSequencer.Set"} {
			found := false
			for _, s := range P.Sites(descIs(d)) {
				if _, ok := gen[TopFunc(s.Fn)]; ok {
					found = true
				}
			}
			if d == "coll:x/oracle/keeper.Keeper.CyclelistSequencer.Set" {
				continue // Sequence.Peek returns the default when unset
			}
			link(found, "GENESIS-WRITES", d+" reachable from InitGenesis", "-", "the singleton read by the block hook is initialised at genesis")
		}
	}
}

var blockReachCache map[*ssa.Function]*ssa.Function

func blockReach(P *Prog) map[*ssa.Function]*ssa.Function {
	if blockReachCache == nil {
		blockReachCache = P.Reachable(P.Scopes().Block, nil)
	}
	return blockReachCache
}

func statesAtBlockEnd(ps *PathStates, b *ssa.BasicBlock) []State {
	if len(b.Instrs) == 0 {
		return nil
	}
	return ps.At(b.Instrs[len(b.Instrs)-1])
}
