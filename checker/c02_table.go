package main

var c02Table = map[string]triage{}

func c02Links(r *Result) {}
