package main

// C17 — vote-extension data reaches state only as signed; proposals stay coherent.

import (
	"fmt"
	"go/constant"
	"go/token"
	"go/types"
	"os"
	"sort"
	"strings"

	"golang.org/x/tools/go/packages"
	"golang.org/x/tools/go/ssa"
)

func init() { register("C17", checkC17) }

func (P *Prog) lookupConst(pkgPath, name string) (constant.Value, bool) {
	var v constant.Value
	found := false
	packages.Visit(P.Pkgs, nil, func(p *packages.Package) {
		if found || p.PkgPath != pkgPath || p.Types == nil {
			return
		}
		if c, ok := p.Types.Scope().Lookup(name).(*types.Const); ok {
			v, found = c.Val(), true
		}
	})
	return v, found
}

// leafField returns "pkg.Struct.Field" if v is a load of a field reached from an alloc of rootType.
func leafOfRoot(v ssa.Value, rootType string) (string, bool) {
	ld, ok := v.(*ssa.UnOp)
	if ok && ld.Op == token.MUL {
		v = ld.X
	}
	fa, ok := v.(*ssa.FieldAddr)
	if !ok {
		return "", false
	}
	leaf := fieldName(fa.X.Type(), fa.Field)
	cur := fa.X
	for i := 0; i < 6; i++ {
		switch x := cur.(type) {
		case *ssa.FieldAddr:
			cur = x.X
			continue
		case *ssa.Alloc:
			if typeShort(x.Type()) == "*"+rootType {
				return leaf, true
			}
			return "", false
		}
		break
	}
	return "", false
}

func stripIface(v ssa.Value) ssa.Value {
	for {
		switch x := v.(type) {
		case *ssa.MakeInterface:
			v = x.X
		case *ssa.ChangeInterface:
			v = x.X
		default:
			return v
		}
	}
}

// extractorResult: v is Extract #i of a call to one of the Check*FromLastCommit extractors.
func extractorResult(v ssa.Value) (string, int, *ssa.Call, bool) {
	ex, ok := v.(*ssa.Extract)
	if !ok {
		return "", 0, nil, false
	}
	c, ok := ex.Tuple.(*ssa.Call)
	if !ok {
		return "", 0, nil, false
	}
	name := CalleeName(c.Common())
	if strings.HasPrefix(name, "(*app.ProposalHandler).Check") && strings.HasSuffix(name, "FromLastCommit") {
		return name, ex.Index, c, true
	}
	return "", 0, nil, false
}

func checkC17(r *Result) {
	P := r.P
	r.Explanation = "Structural rules for the vote-extension pipeline, decided on the SSA of the proposal handlers: (1) every field of the injected VoteExtTx that PreBlocker reads is compared by ProcessProposal (reflect.DeepEqual, mismatch => REJECT) with the value recomputed from the injected extended commit by the same extractor and result position that PrepareProposal used to fill it, and the commit given to ValidateVoteExtensions and to the extractors is the injected one; (2) each extractor appends to its parallel result lists in lock-step (all appends of a record in one basic block, i.e. under one guard), so that the positions PreBlocker pairs by index belong to one vote; (3) an (operator, EVM address) pair is emitted only when no address is registered and the address is recovered from that vote's own signatures; (4) failure-origin census (panics, unguarded index/slice, unguarded division) over the functions reachable from the five ABCI++ handlers."
	r.NotDecided = "Process(Prepare(c)) = ACCEPT for every commit (needs the JSON nil/empty round-trip semantics); validity of the signatures themselves; slot selection in the bridge keeper (C16)"
	r.Assumptions = []string{"baseapp.ValidateVoteExtensions verifies the extension signatures of the commit it is given", "+2/3 of the voting power runs this ProcessProposal"}
	r.rule("PROC-COVERS-PRE", "every VoteExtTx field consumed by PreBlocker is compared (mismatch => REJECT) by ProcessProposal against the extractor result that PrepareProposal put there")
	r.rule("COMMIT-INJECTED", "ProcessProposal validates and extracts from the injected extended commit, and rejects on validation failure")
	r.rule("LOCKSTEP", "an extractor appends to all of its parallel result lists in the same basic block")
	r.rule("PRE-ROLES", "PreBlocker hands each keeper setter the operator, and the entries at that operator's own position of the sibling lists, in the setter's parameter order; the injected tx is written at, and read from, position 0")
	r.rule("REGISTER-ONCE", "an (operator, EVM address) pair is emitted only under 'no address registered' and the address comes from the vote's own signatures")
	r.rule("FRESH-DECODE", "inside a loop over votes the JSON decode target is a value declared in that iteration")
	r.rule("VOTEEXT-FAIL", "every panic-like construct reachable from the ABCI++ handlers is structurally guarded or triaged")

	pre := P.Func("(*app.ProposalHandler).PreBlocker")
	proc := P.Func("(*app.ProposalHandler).ProcessProposalHandler")
	prep := P.Func("(*app.ProposalHandler).PrepareProposalHandler")
	if pre == nil || proc == nil || prep == nil {
		r.broken("proposal handler anchors do not resolve")
		return
	}
	// the two setters find the sender's slot through the operator -> EVM address map, which the registration step writes:
	// a validator that registers and signs in the same extension is stored only if registration (when there is anything
	// to register) comes before both setters
	{
		isSetter := func(c *CallSite) bool {
			return strings.HasSuffix(c.Callee, ".SetBridgeValsetSignature") || strings.HasSuffix(c.Callee, ".SetOracleAttestation")
		}
		po := AnalyzePaths(pre, []Atom{{Name: "setterCalled", Event: P.CallEvent(isSetter, T)}})
		n, m := 0, 0
		for _, cs := range P.CallSitesIn(pre) {
			if isSetter(cs) {
				m++
			}
			if cs.Callee == "(*app.ProposalHandler).SetEVMAddresses" {
				n++
				bad := po.Require(cs.Instr, func(v map[string]bool) bool { return !v["setterCalled"] })
				r.check(len(bad) == 0, "PRE-ROLES", "(*app.ProposalHandler).PreBlocker # EVM addresses are registered before the setters look the sender up", P.Pos(cs.Pos()), fmt.Sprintf("valuations: %v", bad))
			}
		}
		r.check(n == 1 && m == 2, "PRE-ROLES", "(*app.ProposalHandler).PreBlocker # one registration call, two setter call sites", P.Pos(pre.Pos()), fmt.Sprintf("%d / %d", n, m))
	}
	for _, f := range []*ssa.Function{pre, proc, prep} {
		r.fn(FuncName(f))
	}
	const root = "app.VoteExtTx"
	// F_pre
	fpre := map[string]token.Pos{}
	for _, b := range pre.Blocks {
		for _, in := range b.Instrs {
			if ld, ok := in.(*ssa.UnOp); ok && ld.Op == token.MUL {
				if leaf, ok := leafOfRoot(ld, root); ok {
					// a group copied into a local (`g := tx.Group`) and read field by field reads those fields
					if _, isStruct := ld.Type().Underlying().(*types.Struct); isStruct && ld.Referrers() != nil {
						sub := map[string]token.Pos{}
						whole := false
						for _, ref := range *ld.Referrers() {
							switch x := ref.(type) {
							case *ssa.Field:
								sub[fieldName(x.X.Type(), x.Field)] = x.Pos()
							case *ssa.DebugRef:
							case *ssa.Store:
								// the local the copy lives in, read through field addresses only
								al, isAlloc := x.Addr.(*ssa.Alloc)
								if !isAlloc || x.Val != ssa.Value(ld) || al.Referrers() == nil {
									whole = true
									break
								}
								for _, ar := range *al.Referrers() {
									switch y := ar.(type) {
									case *ssa.FieldAddr:
										sub[fieldName(y.X.Type(), y.Field)] = y.Pos()
									case *ssa.DebugRef:
									case *ssa.Store:
										if y != x {
											whole = true
										}
									default:
										whole = true
									}
								}
							default:
								whole = true
							}
						}
						if !whole && len(sub) > 0 {
							for l, pos := range sub {
								if _, seen := fpre[l]; !seen {
									fpre[l] = pos
								}
							}
							continue
						}
					}
					if _, seen := fpre[leaf]; !seen {
						fpre[leaf] = ld.Pos()
					}
				}
			}
		}
	}
	// prepare mapping: leaf -> extractor#idx
	prepMap := map[string]string{}
	for _, b := range prep.Blocks {
		for _, in := range b.Instrs {
			st, ok := in.(*ssa.Store)
			if !ok {
				continue
			}
			fa, ok := st.Addr.(*ssa.FieldAddr)
			if !ok {
				continue
			}
			if name, idx, _, ok := extractorResult(st.Val); ok {
				prepMap[fieldName(fa.X.Type(), fa.Field)] = fmt.Sprintf("%s#%d", name, idx)
			}
		}
	}
	// process mapping from DeepEqual comparisons with REJECT on mismatch
	rejectVal, okc := P.lookupConst("github.com/cometbft/cometbft/abci/types", "ResponseProcessProposal_REJECT")
	if !okc {
		r.broken("constant ResponseProcessProposal_REJECT not found")
		return
	}
	returnsReject := func(b *ssa.BasicBlock) bool {
		hasStore, hasRet := false, false
		for _, in := range b.Instrs {
			if st, ok := in.(*ssa.Store); ok {
				if fa, ok := st.Addr.(*ssa.FieldAddr); ok && strings.HasSuffix(fieldName(fa.X.Type(), fa.Field), "ResponseProcessProposal.Status") {
					if c, ok := st.Val.(*ssa.Const); ok && c.Value != nil && constant.Compare(c.Value, token.EQL, rejectVal) {
						hasStore = true
					}
				}
			}
			if _, ok := in.(*ssa.Return); ok {
				hasRet = true
			}
		}
		return hasStore && hasRet
	}
	procMap := map[string]string{}
	procPos := map[string]token.Pos{}
	commitArgsOK := true
	nExtractorCalls := 0
	for _, b := range proc.Blocks {
		for _, in := range b.Instrs {
			c, ok := in.(*ssa.Call)
			if !ok {
				continue
			}
			name := CalleeName(c.Common())
			if name == "reflect.DeepEqual" && len(c.Call.Args) == 2 {
				a0, a1 := stripIface(c.Call.Args[0]), stripIface(c.Call.Args[1])
				var leaf, ext string
				for _, pair := range [][2]ssa.Value{{a0, a1}, {a1, a0}} {
					if l, ok := leafOfRoot(pair[0], root); ok {
						if en, idx, _, ok := extractorResult(pair[1]); ok {
							leaf, ext = l, fmt.Sprintf("%s#%d", en, idx)
						}
					}
				}
				if leaf == "" {
					continue
				}
				// the If on this call: the edge where DeepEqual is false must return REJECT
				rej := false
				for _, ref := range *c.Referrers() {
					var iff *ssa.If
					neg := false
					switch x := ref.(type) {
					case *ssa.If:
						iff = x
					case *ssa.UnOp:
						if x.Op == token.NOT {
							for _, rr := range *x.Referrers() {
								if i2, ok := rr.(*ssa.If); ok {
									iff, neg = i2, true
								}
							}
						}
					}
					if iff == nil {
						continue
					}
					falseEdge := 1 // DeepEqual false => If(cond) else-branch
					if neg {
						falseEdge = 0
					}
					if returnsReject(iff.Block().Succs[falseEdge]) {
						rej = true
					}
				}
				if rej {
					procMap[leaf] = ext
					procPos[leaf] = c.Pos()
				} else {
					r.bad("PROC-COVERS-PRE", "(*app.ProposalHandler).ProcessProposalHandler # mismatch of "+leaf+" rejects", P.Pos(c.Pos()), "the comparison of this field does not lead to REJECT on mismatch")
				}
			}
			if strings.HasPrefix(name, "(*app.ProposalHandler).Check") && strings.HasSuffix(name, "FromLastCommit") {
				nExtractorCalls++
				if l, ok := leafOfRoot(c.Call.Args[len(c.Call.Args)-1], root); !ok || l != "app.VoteExtTx.ExtendedCommitInfo" {
					commitArgsOK = false
					r.bad("COMMIT-INJECTED", "(*app.ProposalHandler).ProcessProposalHandler # "+name+" reads the injected commit", P.Pos(c.Pos()), "extractor is not given injectedVoteExtTx.ExtendedCommitInfo")
				} else {
					r.ok("COMMIT-INJECTED", "(*app.ProposalHandler).ProcessProposalHandler # "+name+" reads the injected commit", P.Pos(c.Pos()), "argument is the ExtendedCommitInfo field of the decoded injected tx")
				}
			}
			if name == "github.com/cosmos/cosmos-sdk/baseapp.ValidateVoteExtensions" {
				l, ok := leafOfRoot(c.Call.Args[len(c.Call.Args)-1], root)
				okArg := ok && l == "app.VoteExtTx.ExtendedCommitInfo"
				// failure => REJECT
				rej := false
				for _, ref := range *c.Referrers() {
					if bo, ok := ref.(*ssa.BinOp); ok && bo.Op == token.NEQ {
						for _, rr := range *bo.Referrers() {
							if iff, ok := rr.(*ssa.If); ok && returnsReject(iff.Block().Succs[0]) {
								rej = true
							}
						}
					}
				}
				r.check(okArg && rej, "COMMIT-INJECTED", "(*app.ProposalHandler).ProcessProposalHandler # ValidateVoteExtensions(injected commit) failure rejects", P.Pos(c.Pos()), fmt.Sprintf("argument is injected commit: %v ; error leads to REJECT: %v", okArg, rej))
			}
		}
	}
	_ = commitArgsOK
	var leaves []string
	for l := range fpre {
		leaves = append(leaves, l)
	}
	sort.Strings(leaves)
	for _, l := range leaves {
		if l == "app.VoteExtTx.ExtendedCommitInfo" {
			continue
		}
		pm, inProc := procMap[l]
		pp, inPrep := prepMap[l]
		switch {
		case !inProc:
			r.bad("PROC-COVERS-PRE", "PreBlocker reads "+l, P.Pos(fpre[l]), "PreBlocker consumes this field of the injected tx but ProcessProposal never compares it with the value recomputed from the signed commit: a proposer could inject arbitrary data")
		case !inPrep:
			r.bad("PROC-COVERS-PRE", "PreBlocker reads "+l, P.Pos(fpre[l]), "PrepareProposal does not fill this field from an extractor result")
		case pm != pp:
			r.bad("PROC-COVERS-PRE", "PreBlocker reads "+l, P.Pos(procPos[l]), fmt.Sprintf("ProcessProposal compares the field with %s but PrepareProposal fills it from %s: honest proposals would be rejected or the wrong list is authenticated", pm, pp))
		default:
			r.ok("PROC-COVERS-PRE", "PreBlocker reads "+l, P.Pos(fpre[l]), "compared by ProcessProposal with "+pm+" (mismatch => REJECT); filled by PrepareProposal from the same result")
		}
	}
	r.Info["prepare_field_sources"] = prepMap
	r.Info["process_field_checks"] = procMap
	r.check(nExtractorCalls == 3, "COMMIT-INJECTED", "(*app.ProposalHandler).ProcessProposalHandler # calls the three extractors", P.Pos(proc.Pos()), fmt.Sprintf("%d extractor calls", nExtractorCalls))
	// ... and all of it lies on every path to ACCEPT: with vote extensions enabled, a proposal is accepted only after
	// the injected tx decoded, the injected commit validated, every extractor succeeded and every comparison was equal
	{
		tmA := NewTermer()
		var eqNames []string
		eqSeen := map[string]bool{}
		for _, b := range proc.Blocks {
			for _, in := range b.Instrs {
				if c, ok := in.(*ssa.Call); ok && CalleeName(c.Common()) == "reflect.DeepEqual" {
					k := tmA.Of(c).String()
					if !eqSeen[k] {
						eqSeen[k] = true
						eqNames = append(eqNames, k)
					}
				}
			}
		}
		okNil := func(callee string) func(rel *Term) (bool, bool) {
			return func(rel *Term) (bool, bool) {
				if rel.Op == "==" && len(rel.Args) == 2 && rel.Args[1].Op == "const:nil" {
					a := rel.Args[0]
					if strings.HasPrefix(a.Op, "ext:") && len(a.Args) == 1 {
						a = a.Args[0]
					}
					if a.Op == "call:"+callee {
						return true, true
					}
				}
				return false, false
			}
		}
		atoms := []Atom{
			{Name: "enabled", Stable: true, Cond: func(rel *Term) (bool, bool) {
				return rel.Op == "<" && rel.Contains("VoteExtensionsEnableHeight"), true
			}},
			{Name: "decodedOK", Stable: true, Cond: okNil("encoding/json.Unmarshal")},
			{Name: "validatedOK", Stable: true, Cond: okNil("github.com/cosmos/cosmos-sdk/baseapp.ValidateVoteExtensions")},
		}
		need := []string{"decodedOK", "validatedOK"}
		for _, e := range []string{"CheckInitialSignaturesFromLastCommit", "CheckValsetSignaturesFromLastCommit", "CheckOracleAttestationsFromLastCommit"} {
			atoms = append(atoms, Atom{Name: e + "OK", Stable: true, Cond: okNil("(*app.ProposalHandler)." + e)})
			need = append(need, e+"OK")
		}
		for i, k := range eqNames {
			key := k
			nm := fmt.Sprintf("equal%d", i)
			atoms = append(atoms, Atom{Name: nm, Stable: true, Cond: func(rel *Term) (bool, bool) { return rel.String() == key, true }})
			need = append(need, nm)
		}
		pa := AnalyzePaths(proc, atoms)
		okAll, nAcc, det := true, 0, ""
		for _, b := range proc.Blocks {
			ret, isRet := b.Instrs[len(b.Instrs)-1].(*ssa.Return)
			if !isRet || returnsReject(b) || b == proc.Recover {
				continue
			}
			nAcc++
			if bad := pa.Require(ret, func(v map[string]bool) bool {
				if !v["enabled"] {
					return true
				}
				for _, n := range need {
					if !v[n] {
						return false
					}
				}
				return true
			}); len(bad) > 0 {
				okAll, det = false, clip(fmt.Sprint(bad), 300)
			}
		}
		matched := len(pa.Matched["enabled"]) > 0
		for _, n := range need {
			if len(pa.Matched[n]) == 0 {
				matched = false
				det += " no test of " + n
			}
		}
		r.check(okAll && nAcc >= 1 && matched && len(eqNames) == 8, "COMMIT-INJECTED", "(*app.ProposalHandler).ProcessProposalHandler # ACCEPT only after decode, validation, the three extractors and all eight comparisons succeeded", P.Pos(proc.Pos()), fmt.Sprintf("%d accepting returns, %d comparisons %s", nAcc, len(eqNames), det))
	}
	// siblings: Prepare calls the same three extractors
	prepExt := map[string]bool{}
	for _, cs := range P.CallSitesIn(prep) {
		if strings.HasPrefix(cs.Callee, "(*app.ProposalHandler).Check") && strings.HasSuffix(cs.Callee, "FromLastCommit") {
			prepExt[cs.Callee] = true
		}
	}
	r.check(len(prepExt) == 3, "COMMIT-INJECTED", "(*app.ProposalHandler).PrepareProposalHandler # calls the same three extractors", P.Pos(prep.Pos()), fmt.Sprintf("%v", keysOf(prepExt)))
	// Prepare injects the commit it was given, unchanged: ProcessProposal validates the injected commit against
	// the last commit it knows itself (ValidateVoteExtensions compares vote by vote), so a filtered or rebuilt
	// copy makes every validator reject an honest proposal
	{
		tmP := NewTermer()
		n := 0
		for _, b := range prep.Blocks {
			for _, in := range b.Instrs {
				st, ok := in.(*ssa.Store)
				if !ok {
					continue
				}
				fa, ok := st.Addr.(*ssa.FieldAddr)
				if !ok || fieldName(fa.X.Type(), fa.Field) != "app.VoteExtTx.ExtendedCommitInfo" {
					continue
				}
				n++
				v := tmP.Of(st.Val)
				isReq := strings.HasSuffix(v.Op, "RequestPrepareProposal.LocalLastCommit") && len(v.Args) == 1 && v.Args[0].Find(func(x *Term) bool {
					return strings.HasPrefix(x.Op, "param:") && strings.HasSuffix(x.Op, "RequestPrepareProposal")
				}) != nil
				r.check(isReq, "COMMIT-INJECTED", "(*app.ProposalHandler).PrepareProposalHandler # the injected commit is the request's LocalLastCommit itself", P.Pos(st.Pos()), "injected: "+clip(v.String(), 140))
			}
		}
		r.check(n == 1, "COMMIT-INJECTED", "(*app.ProposalHandler).PrepareProposalHandler # one store of the injected commit", P.Pos(prep.Pos()), fmt.Sprint(n))
		// and the extractors in Prepare read that same commit
		for _, cs := range P.CallSitesIn(prep) {
			if strings.HasPrefix(cs.Callee, "(*app.ProposalHandler).Check") && strings.HasSuffix(cs.Callee, "FromLastCommit") {
				a := tmP.Of(Arg(cs.Instr, 1))
				ok := strings.HasSuffix(a.Op, "RequestPrepareProposal.LocalLastCommit")
				r.check(ok, "COMMIT-INJECTED", "(*app.ProposalHandler).PrepareProposalHandler # "+cs.Method+" reads the request's LocalLastCommit", P.Pos(cs.Pos()), clip(a.String(), 120))
			}
		}
	}

	// LOCKSTEP
	for _, name := range []string{"(*app.ProposalHandler).CheckInitialSignaturesFromLastCommit", "(*app.ProposalHandler).CheckValsetSignaturesFromLastCommit", "(*app.ProposalHandler).CheckOracleAttestationsFromLastCommit"} {
		fn := P.Func(name)
		if fn == nil {
			r.broken("anchor %s does not resolve", name)
			continue
		}
		r.fn(name)
		checkLockstep(r, fn)
		// only votes that are part of the commit are read: ValidateVoteExtensions verifies the extension signature of
		// exactly those (BlockIDFlagCommit), an absent or nil vote carries an unverified extension
		{
			commitFlag := "const:" + enumValPath(P, "github.com/cometbft/cometbft/proto/tendermint/types", "BlockIDFlagCommit")
			ps := AnalyzePaths(fn, []Atom{{Name: "committed", Cond: func(rel *Term) (bool, bool) {
				if rel.Op == "==" && len(rel.Args) == 2 && strings.HasSuffix(rel.Args[0].Op, "ExtendedVoteInfo.BlockIdFlag") && strings.HasPrefix(rel.Args[0].Op, "field:") && rel.Args[1].Op == commitFlag {
					return true, true
				}
				return false, false
			}}})
			n, okAll := 0, true
			for _, b := range fn.Blocks {
				for _, in := range b.Instrs {
					c, ok := in.(*ssa.Call)
					if !ok {
						continue
					}
					if bi, ok := c.Call.Value.(*ssa.Builtin); !ok || bi.Name() != "append" {
						continue
					}
					n++
					if bad := ps.Require(in, func(v map[string]bool) bool { return v["committed"] }); len(bad) > 0 {
						okAll = false
					}
				}
			}
			r.check(okAll && n > 0 && len(ps.Matched["committed"]) > 0, "LOCKSTEP", name+" # data is taken only from votes flagged as committed (the ones whose extension signature was verified)", P.Pos(fn.Pos()), fmt.Sprintf("%d append sites", n))
		}
	}
	// the extractors (and the helpers they call in package app) only read the commit they are given: its vote slice shares
	// its backing array with the request's LocalLastCommit / the injected commit, which is marshalled or validated afterwards
	{
		mutators := map[string]bool{"slices.DeleteFunc": true, "slices.Delete": true, "slices.Compact": true, "slices.CompactFunc": true, "slices.Reverse": true,
			"slices.Sort": true, "slices.SortFunc": true, "slices.SortStableFunc": true, "slices.Insert": true, "slices.Replace": true,
			"sort.Slice": true, "sort.SliceStable": true, "sort.Sort": true, "sort.Stable": true}
		var roots []*ssa.Function
		for _, name := range []string{"(*app.ProposalHandler).CheckInitialSignaturesFromLastCommit", "(*app.ProposalHandler).CheckValsetSignaturesFromLastCommit", "(*app.ProposalHandler).CheckOracleAttestationsFromLastCommit"} {
			if fn := P.Func(name); fn != nil {
				roots = append(roots, fn)
			}
		}
		reach := P.Reachable(roots, nil)
		var fns []*ssa.Function
		for fn := range reach {
			if fn.Pkg != nil && fn.Pkg.Pkg.Path() == modPath+"/app" {
				fns = append(fns, fn)
				fns = append(fns, fn.AnonFuncs...)
			}
		}
		sort.Slice(fns, func(i, j int) bool { return FuncName(fns[i]) < FuncName(fns[j]) })
		isVotes := func(v ssa.Value) bool {
			return strings.Contains(v.Type().String(), "[]github.com/cometbft/cometbft/abci/types.ExtendedVoteInfo")
		}
		bad := ""
		for _, fn := range fns {
			for _, b := range fn.Blocks {
				for _, in := range b.Instrs {
					switch x := in.(type) {
					case *ssa.Call:
						name := CalleeName(x.Common())
						if i := strings.Index(name, "["); i > 0 {
							name = name[:i]
						}
						if bi, ok := x.Call.Value.(*ssa.Builtin); ok && (bi.Name() == "copy" || bi.Name() == "append") && len(x.Call.Args) > 0 && isVotes(x.Call.Args[0]) {
							bad = P.Pos(x.Pos()) + ": " + bi.Name() + " into the commit's vote slice"
						}
						if mutators[name] {
							for _, a := range x.Call.Args {
								if isVotes(a) {
									bad = P.Pos(x.Pos()) + ": " + name + " on the commit's vote slice"
								}
							}
						}
					case *ssa.Store:
						if ia, ok := x.Addr.(*ssa.IndexAddr); ok && isVotes(ia.X) {
							bad = P.Pos(x.Pos()) + ": store into the commit's vote slice"
						}
					}
				}
			}
		}
		r.check(bad == "" && len(fns) >= 3, "COMMIT-INJECTED", "the extractors only read the commit they are given (its vote slice is shared with the request and the injected tx)", "-", fmt.Sprintf("%d functions of package app scanned %s", len(fns), bad))
	}
	// REGISTER-ONCE
	if ci := P.Func("(*app.ProposalHandler).CheckInitialSignaturesFromLastCommit"); ci != nil {
		noAddr := func(rel *Term) (bool, bool) {
			if rel.Op == "==" && len(rel.Args) == 2 && rel.Args[0].Op == "ext:1" && len(rel.Args[0].Args) == 1 && strings.HasSuffix(rel.Args[0].Args[0].Op, "BridgeKeeper.GetEVMAddressByOperator") && rel.Args[1].Op == "const:nil" {
				return true, false // atom true when err != nil
			}
			return false, false
		}
		longEnough := func(field string) func(rel *Term) (bool, bool) {
			return func(rel *Term) (bool, bool) {
				if rel.Op == "<" && len(rel.Args) == 2 && rel.Args[0].Op == "call:builtin:len" && rel.Args[0].Has("field:app.InitialSignature."+field) && rel.Args[1].Op == "const:64" {
					return true, false
				}
				return false, false
			}
		}
		ps := AnalyzePaths(ci, []Atom{{Name: "unregistered", Cond: noAddr}, {Name: "lenA", Cond: longEnough("SignatureA")}, {Name: "lenB", Cond: longEnough("SignatureB")}})
		nApp := 0
		for _, b := range ci.Blocks {
			for _, in := range b.Instrs {
				c, ok := in.(*ssa.Call)
				if !ok {
					continue
				}
				if bi, ok := c.Call.Value.(*ssa.Builtin); ok && bi.Name() == "append" {
					nApp++
					bad := ps.Require(in, func(v map[string]bool) bool { return v["unregistered"] })
					r.check(len(bad) == 0, "REGISTER-ONCE", "(*app.ProposalHandler).CheckInitialSignaturesFromLastCommit # append only when no EVM address is registered", P.Pos(in.Pos()), fmt.Sprintf("valuations: %v", statesStr(ps, in)))
				}
				if strings.HasSuffix(CalleeName(c.Common()), "BridgeKeeper.EVMAddressFromSignatures") {
					bad := ps.Require(in, func(v map[string]bool) bool { return v["lenA"] && v["lenB"] })
					r.check(len(bad) == 0, "VOTEEXT-FAIL", "(*app.ProposalHandler).CheckInitialSignaturesFromLastCommit # both signatures >= 64 bytes before address recovery", P.Pos(in.Pos()), fmt.Sprintf("valuations: %v (address recovery slices sig[:64])", statesStr(ps, in)))
					tm := NewTermer()
					a, bb := tm.Of(c.Call.Args[len(c.Call.Args)-2]), tm.Of(c.Call.Args[len(c.Call.Args)-1])
					okSrc := a.Has("field:app.InitialSignature.SignatureA") && bb.Has("field:app.InitialSignature.SignatureB")
					r.check(okSrc, "REGISTER-ONCE", "(*app.ProposalHandler).CheckInitialSignaturesFromLastCommit # address recovered from the vote's own signatures", P.Pos(in.Pos()), "arguments: "+a.Brief()+", "+bb.Brief())
				}
			}
		}
		r.check(nApp == 2, "REGISTER-ONCE", "(*app.ProposalHandler).CheckInitialSignaturesFromLastCommit # two parallel appends", P.Pos(ci.Pos()), fmt.Sprintf("%d appends", nApp))
	}

	// VOTEEXT-FAIL census
	fe := newFailEngine(P)
	S := P.Scopes()
	reach := P.Reachable(S.VoteExt, nil)
	var fns []*ssa.Function
	for f := range reach {
		fns = append(fns, f)
	}
	sort.Slice(fns, func(i, j int) bool { return FuncName(fns[i]) < FuncName(fns[j]) })
	guarded := 0
	var local []*Origin
	for _, f := range fns {
		r.fn(FuncName(f))
		for _, g := range withClosures(f) {
			ug, gd, _ := fe.LocalOrigins(g)
			guarded += gd
			local = append(local, ug...)
		}
	}
	sortOrigins(local, P)
	r.Info["voteext_reachable_functions"] = len(fns)
	r.Info["voteext_guarded_sites"] = guarded
	for _, o := range local {
		if os.Getenv("C17_DUMP") != "" {
			fmt.Printf("L\t%s\t%s\n", o.Key(), P.Pos(o.Pos))
		}
		t, ok := c17Table[o.Key()]
		if !ok {
			t, ok = c02Table[o.Key()]
		}
		where := P.Pos(o.Pos) + " reached via " + PathTo(reach, TopFunc(o.Fn))
		if ok && t.class != "DEFECT" {
			r.ok("VOTEEXT-FAIL", o.Key(), where, t.class+": "+t.reason)
		} else {
			r.bad("VOTEEXT-FAIL", o.Key(), where, "panic-like construct reachable from an ABCI++ handler that is neither structurally guarded nor triaged")
		}
	}
	// ---- FRESH-DECODE: a vote's extension is decoded into a value that is zero at the start of each iteration;
	// encoding/json leaves fields that are absent from the input untouched, so a reused target carries the
	// previous validator's signatures over to the next vote
	{
		nDec := 0
		for _, fn := range P.RepoFuncs {
			if fn.Pkg == nil || !strings.HasSuffix(fn.Pkg.Pkg.Path(), "/app") {
				continue
			}
			for _, b := range fn.Blocks {
				for _, in := range b.Instrs {
					c, ok := in.(*ssa.Call)
					if !ok {
						continue
					}
					name := CalleeName(c.Common())
					if name != "encoding/json.Unmarshal" || len(c.Call.Args) != 2 || !inLoop(fn, b) {
						continue
					}
					nDec++
					target := stripIface(c.Call.Args[1])
					al, isAlloc := target.(*ssa.Alloc)
					fresh := false
					why := "decode target is not a local variable"
					if isAlloc {
						// the variable is (re)zeroed when its Alloc executes: it must execute in the same iteration
						var h *ssa.BasicBlock
						for _, hh := range loopHeaders(fn) {
							if hh.Dominates(b) && (h == nil || h.Dominates(hh)) {
								h = hh
							}
						}
						fresh = h != nil && h.Dominates(al.Block()) && inLoop(fn, al.Block())
						why = fmt.Sprintf("target %s declared inside the loop: %v", al.Comment, fresh)
					}
					r.check(fresh, "FRESH-DECODE", FuncName(TopFunc(fn))+" # each vote extension is decoded into a fresh value", P.Pos(c.Pos()), why)
				}
			}
		}
		r.check(nDec >= 3, "FRESH-DECODE", "decode sites inside loops over votes", "-", fmt.Sprint(nDec))
	}
	checkRecoveredAddress(r)
	checkPreRoles(r, pre, proc, prep)
	r.minCount("PRE-ROLES", 7)
	r.minCount("FRESH-DECODE", 4)
	r.minCount("PROC-COVERS-PRE", 8)
	r.minCount("LOCKSTEP", 3)
	r.minCount("COMMIT-INJECTED", 10)
}

// checkLockstep: all appends feeding the returned parallel lists occur together in one block.
func checkLockstep(r *Result, fn *ssa.Function) {
	P := r.P
	// result slices: the slice-typed results of the last return
	nres := 0
	res := fn.Signature.Results()
	for i := 0; i < res.Len(); i++ {
		if _, ok := res.At(i).Type().Underlying().(*types.Slice); ok {
			nres++
		}
	}
	// appends grouped by block, with the list each one extends (the named local it flows from, by element type + ordinal)
	type app struct {
		in   ssa.Instruction
		list string
	}
	perBlock := map[*ssa.BasicBlock][]app{}
	lists := map[string]bool{}
	for _, b := range fn.Blocks {
		for _, in := range b.Instrs {
			c, ok := in.(*ssa.Call)
			if !ok {
				continue
			}
			bi, ok := c.Call.Value.(*ssa.Builtin)
			if !ok || bi.Name() != "append" {
				continue
			}
			// identify the list by the loop phi (or alloc) at the root of the first argument
			root := c.Call.Args[0]
			seen := map[ssa.Value]bool{}
			for i := 0; i < 8; i++ {
				if seen[root] {
					break
				}
				seen[root] = true
				if ph, ok := root.(*ssa.Phi); ok {
					// follow to the outermost phi (loop header) by taking an edge that is itself a phi, else stop
					next := ssa.Value(nil)
					for _, e := range ph.Edges {
						if p2, ok := e.(*ssa.Phi); ok && !seen[p2] {
							next = p2
						}
					}
					if next == nil {
						break
					}
					root = next
					continue
				}
				break
			}
			name := root.Name()
			if ph, ok := root.(*ssa.Phi); ok && ph.Comment != "" {
				name = ph.Comment
			}
			lists[name] = true
			perBlock[b] = append(perBlock[b], app{in, name})
		}
	}
	if len(lists) != nres {
		r.broken("LOCKSTEP: %s has %d slice results but %d appended lists were identified %v (undecided)", FuncName(fn), nres, len(lists), keysOf(lists))
		return
	}
	ok := true
	detail := ""
	var pos token.Pos = fn.Pos()
	for b, apps := range perBlock {
		got := map[string]int{}
		for _, a := range apps {
			got[a.list]++
		}
		if len(got) != nres {
			ok = false
			pos = apps[0].in.Pos()
			var names []string
			for n := range got {
				names = append(names, n)
			}
			sort.Strings(names)
			detail = fmt.Sprintf("block %d appends only to %v of the %d parallel lists %v: the lists can get out of step, and PreBlocker pairs them by index", b.Index, names, nres, keysOf(lists))
		}
		for n, k := range got {
			if k != 1 {
				ok = false
				detail = fmt.Sprintf("list %s appended %d times in one block", n, k)
			}
		}
	}
	if ok {
		detail = fmt.Sprintf("%d parallel lists %v, %d append blocks, each appending once to every list", nres, keysOf(lists), len(perBlock))
	}
	r.check(ok, "LOCKSTEP", FuncName(fn)+" # parallel appends in one block", P.Pos(pos), detail)
}

var c17Table = map[string]triage{
	`(x/bridge/keeper.Keeper).EVMAddressFromSignatures # index:(x/bridge/keeper.Keeper).TryRecoverAddressWithBothIDs()#0[0]`:   {"accepted", "TryRecoverAddressWithBothIDs returns, on its success path, one address per recovery id of the two-element literal {0,1}"},
	`(x/bridge/keeper.Keeper).EVMAddressFromSignatures # index:(x/bridge/keeper.Keeper).TryRecoverAddressWithBothIDs()#0[1]`:   {"accepted", "as above: two addresses on success"},
	`(x/bridge/keeper.Keeper).GetValidatorDidSignCheckpoint # index:x/bridge/types.BridgeValsetSignatures.Signatures[loopvar]`: {"linked", "the signature array of a checkpoint is sized by the previous validator set that is iterated here (C16 SLOT-CORRESPONDENCE)"},
	`(x/bridge/keeper.Keeper).TryRecoverAddressWithBothIDs # index:param1[:64]`:                                                {"linked", "the only ABCI++ caller chain (CheckInitialSignaturesFromLastCommit -> EVMAddressFromSignatures) is entered only with both signatures >= 64 bytes (VOTEEXT-FAIL length obligation above)"},
}

// enumValPath returns the exact value of a package-level constant of any loaded package ("?" if absent).
func enumValPath(P *Prog, pkgPath, name string) string {
	for _, sp := range P.SSA.AllPackages() {
		if sp.Pkg != nil && sp.Pkg.Path() == pkgPath {
			if c, ok := sp.Pkg.Scope().Lookup(name).(*types.Const); ok {
				return c.Val().ExactString()
			}
		}
	}
	return "?"
}

// checkPreRoles decides which value goes where between the injected transaction and the keeper: argument roles of the
// three setters in PreBlocker (and of SetEVMAddresses' inner call), and the position of the injected transaction.
func checkPreRoles(r *Result, pre, proc, prep *ssa.Function) {
	P := r.P
	const rule = "PRE-ROLES"
	tm := NewTermer()
	// leaf of the decoded VoteExtTx a term reads: "<Group>.<List>", and, for an element, the index term
	leafOf := func(t *Term) (string, *Term) {
		var idx *Term
		for strings.HasPrefix(t.Op, "convert:") && len(t.Args) == 1 {
			t = t.Args[0]
		}
		if t.Op == "index" && len(t.Args) == 2 {
			idx, t = t.Args[1], t.Args[0]
		}
		var names []string
		for cur := t; cur != nil; {
			switch {
			case strings.HasPrefix(cur.Op, "field:") && len(cur.Args) >= 1:
				names = append([]string{cur.Op[strings.LastIndex(cur.Op, ".")+1:]}, names...)
				cur = cur.Args[0]
			case (cur.Op == "load" || strings.HasPrefix(cur.Op, "after-store:")) && len(cur.Args) >= 1:
				cur = cur.Args[0]
			default:
				cur = nil
			}
		}
		return strings.Join(names, "."), idx
	}
	want := map[string][]string{
		"(*app.ProposalHandler).SetEVMAddresses":            {"OpAndEVMAddrs.OperatorAddresses", "OpAndEVMAddrs.EVMAddresses"},
		"(x/bridge/keeper.Keeper).SetBridgeValsetSignature": {"ValsetSigs.OperatorAddresses", "ValsetSigs.Timestamps", "ValsetSigs.Signatures"},
		"(x/bridge/keeper.Keeper).SetOracleAttestation":     {"OracleAttestations.OperatorAddresses", "OracleAttestations.Snapshots", "OracleAttestations.Attestations"},
		"iface:app.BridgeKeeper.SetBridgeValsetSignature":   {"ValsetSigs.OperatorAddresses", "ValsetSigs.Timestamps", "ValsetSigs.Signatures"},
		"iface:app.BridgeKeeper.SetOracleAttestation":       {"OracleAttestations.OperatorAddresses", "OracleAttestations.Snapshots", "OracleAttestations.Attestations"},
	}
	seen := map[string]bool{}
	for _, cs := range P.CallSitesIn(pre) {
		w, ok := want[cs.Callee]
		if os.Getenv("VERIF_DEBUG") != "" {
			fmt.Fprintln(os.Stderr, "pre callee:", cs.Callee)
		}
		if !ok {
			continue
		}
		short := cs.Callee[strings.LastIndex(cs.Callee, ".")+1:]
		seen[short] = true
		args := cs.Instr.Common().Args
		if !cs.Instr.Common().IsInvoke() {
			args = args[1:] // receiver
		}
		var got []string
		okAll := len(args) == len(w)+1
		var idx0 *Term
		for i := 1; i < len(args) && i-1 < len(w); i++ {
			leaf, idx := leafOf(tm.Of(args[i]))
			got = append(got, leaf)
			if leaf != w[i-1] {
				okAll = false
			}
			if short != "SetEVMAddresses" {
				// elements of sibling lists at one position: the range element of the first list, index values of the others
				if i == 1 {
					idx0 = idx
				} else if idx == nil || idx0 == nil || idx.V == nil || idx.V != idx0.V {
					okAll = false
					got[len(got)-1] += "[other position]"
				}
			}
		}
		r.check(okAll, rule, "(*app.ProposalHandler).PreBlocker # "+short+" receives "+strings.Join(w, ", "), P.Pos(cs.Pos()), "arguments read: "+strings.Join(got, ", "))
	}
	r.check(len(seen) == 3, rule, "(*app.ProposalHandler).PreBlocker # the three setters are called", P.Pos(pre.Pos()), fmt.Sprint(keysOf(seen)))
	// SetEVMAddresses pairs operator i with address i
	if fn := P.Func("(*app.ProposalHandler).SetEVMAddresses"); fn == nil {
		r.broken("anchor SetEVMAddresses does not resolve")
	} else {
		r.fn(FuncName(fn))
		n := 0
		for _, cs := range P.CallSitesIn(fn) {
			if !strings.HasSuffix(cs.Callee, ".SetEVMAddressByOperator") {
				continue
			}
			n++
			op, addr := tm.Of(Arg(cs.Instr, 1)), tm.Of(Arg(cs.Instr, 2))
			elemOf := func(p *ssa.Parameter) func(x *Term) bool {
				return func(x *Term) bool {
					if x.Op != "index" || len(x.Args) != 2 {
						return false
					}
					b := x.Args[0]
					for b.Op == "load" && len(b.Args) == 1 {
						b = b.Args[0]
					}
					return b.V == ssa.Value(p)
				}
			}
			opIdx, adIdx := op.Find(elemOf(fn.Params[2])), addr.Find(elemOf(fn.Params[3]))
			if os.Getenv("VERIF_DEBUG") != "" {
				fmt.Fprintf(os.Stderr, "setevm0: %v | %v | %v %v\n", op, addr, opIdx != nil, adIdx != nil)
			}
			ok := opIdx != nil && opIdx == op && adIdx != nil && opIdx.Args[1].V != nil && opIdx.Args[1].V == adIdx.Args[1].V && addr.Has("call:github.com/ethereum/go-ethereum/common.HexToAddress")
			r.check(ok, rule, "(*app.ProposalHandler).SetEVMAddresses # operator i is registered with address i", P.Pos(cs.Pos()), "operator: "+op.Brief()+" ; address: "+clip(addr.String(), 140))
		}
		r.check(n == 1, rule, "(*app.ProposalHandler).SetEVMAddresses # one registration call", P.Pos(fn.Pos()), fmt.Sprint(n))
	}
	// position of the injected transaction
	for _, fn := range []*ssa.Function{proc, pre} {
		n := 0
		for _, cs := range P.CallSitesIn(fn) {
			if cs.Callee != "encoding/json.Unmarshal" {
				continue
			}
			n++
			a := tm.Of(Arg(cs.Instr, 0))
			ok := a.Op == "index" && len(a.Args) == 2 && a.Args[1].Op == "const:0" && a.Args[0].HasSuffix(".Txs")
			r.check(ok, rule, FuncName(fn)+" # decodes the transaction at position 0 of the request", P.Pos(cs.Pos()), "decoded: "+a.Brief())
		}
		r.check(n == 1, rule, FuncName(fn)+" # one decode", P.Pos(fn.Pos()), fmt.Sprint(n))
	}
	// PrepareProposal: once vote extensions are enabled, every proposal it returns starts with the encoded injected tx,
	// followed by the request's own transactions
	isPrepend := func(v ssa.Value) bool {
		c, ok := v.(*ssa.Call)
		if !ok {
			return false
		}
		if b, ok := c.Call.Value.(*ssa.Builtin); !ok || b.Name() != "append" || len(c.Call.Args) != 2 {
			return false
		}
		head := variadicElemValues(c.Call.Args[0])
		if len(head) != 1 || head[0] == nil {
			return false
		}
		h := tm.Of(head[0])
		rest := tm.Of(c.Call.Args[1])
		return h.Op == "ext:0" && h.Has("call:encoding/json.Marshal") && strings.HasPrefix(rest.Op, "field:") && strings.HasSuffix(rest.Op, "RequestPrepareProposal.Txs")
	}
	var txsOK func(v ssa.Value, depth int) bool
	txsOK = func(v ssa.Value, depth int) bool {
		if depth > 6 {
			return false
		}
		if phi, ok := v.(*ssa.Phi); ok {
			for _, e := range phi.Edges {
				if !txsOK(e, depth+1) {
					return false
				}
			}
			return true
		}
		if isPrepend(v) {
			return true
		}
		t := tm.Of(v)
		return strings.HasPrefix(t.Op, "field:") && strings.HasSuffix(t.Op, "RequestPrepareProposal.Txs")
	}
	pp := AnalyzePaths(prep, []Atom{
		{Name: "enabled", Stable: true, Cond: func(rel *Term) (bool, bool) {
			if rel.Op == "<" && len(rel.Args) == 2 && rel.Args[0].Contains("VoteExtensionsEnableHeight") && rel.Args[1].Contains("RequestPrepareProposal.Height") {
				return true, true
			}
			return false, false
		}},
		{Name: "prepended", Event: func(in ssa.Instruction) (bool, int8) {
			if v, ok := in.(ssa.Value); ok && isPrepend(v) {
				return true, T
			}
			return false, U
		}},
	})
	nret, nstore := 0, 0
	for _, b := range prep.Blocks {
		for _, in := range b.Instrs {
			switch x := in.(type) {
			case *ssa.Store:
				if fa, ok := x.Addr.(*ssa.FieldAddr); ok && strings.HasSuffix(fieldName(fa.X.Type(), fa.Field), "ResponsePrepareProposal.Txs") {
					nstore++
					r.check(txsOK(x.Val, 0), rule, "(*app.ProposalHandler).PrepareProposalHandler # the proposal is the request's transactions, or the encoded injected tx followed by them", P.Pos(x.Pos()), "Txs: "+clip(tm.Of(x.Val).String(), 200))
				}
			case *ssa.Return:
				if len(x.Results) != 2 || DefinitelyFails(x) {
					continue
				}
				nret++
				bad := pp.Require(x, func(v map[string]bool) bool { return !v["enabled"] || v["prepended"] })
				r.check(len(bad) == 0, rule, "(*app.ProposalHandler).PrepareProposalHandler # with vote extensions enabled the injected tx is put in front on every success path", P.Pos(x.Pos()), fmt.Sprint(bad))
			}
		}
	}
	r.check(nret >= 1 && nstore >= 1, rule, "(*app.ProposalHandler).PrepareProposalHandler # returns and Txs stores to decide", P.Pos(prep.Pos()), fmt.Sprintf("%d returns, %d stores", nret, nstore))
}

// checkRecoveredAddress: the address EVMAddressFromSignatures hands back is a candidate of signature A that a test on the
// path found equal to a candidate of signature B -- the same element that was compared, not its neighbour.
func checkRecoveredAddress(r *Result) {
	P := r.P
	const rule = "REGISTER-ONCE"
	fn := P.Func("(x/bridge/keeper.Keeper).EVMAddressFromSignatures")
	if fn == nil {
		r.broken("anchor EVMAddressFromSignatures does not resolve")
		return
	}
	r.fn(FuncName(fn))
	var recA ssa.Value // first TryRecoverAddressWithBothIDs call: candidates of signature A
	for _, cs := range P.CallSitesIn(fn) {
		if cs.Callee == "(x/bridge/keeper.Keeper).TryRecoverAddressWithBothIDs" && recA == nil {
			recA, _ = cs.Instr.(ssa.Value)
		}
	}
	tm := NewTermer()
	// element of the candidate list of A: index(ext:0(recA), idx)
	elemOfA := func(t *Term) *Term {
		for (t.Op == "load" || strings.HasPrefix(t.Op, "call:(github.com/ethereum/go-ethereum/common.Address).Bytes")) && len(t.Args) >= 1 {
			t = t.Args[0]
		}
		if t.Op == "index" && len(t.Args) == 2 {
			b := t.Args[0]
			for b.Op == "load" && len(b.Args) == 1 {
				b = b.Args[0]
			}
			if b.Op == "ext:0" && len(b.Args) == 1 && b.Args[0].V == recA {
				return t
			}
		}
		return nil
	}
	sameIdx := func(a, b *Term) bool {
		if a.V != nil && a.V == b.V {
			return true
		}
		return strings.HasPrefix(a.Op, "const:") && a.Op == b.Op
	}
	n := 0
	for _, ret := range allReturns(fn) {
		if len(ret.Results) != 2 || DefinitelyFails(ret) {
			continue
		}
		n++
		e := elemOfA(tm.Of(unspill(ret.Results[0], ret)))
		if e == nil {
			r.check(false, rule, "(x/bridge/keeper.Keeper).EVMAddressFromSignatures # the address handed back is the candidate that was found in both signatures", P.Pos(ret.Pos()), "returned: "+clip(tm.Of(ret.Results[0]).String(), 160))
			continue
		}
		idx := e.Args[1]
		ps := AnalyzePaths(fn, []Atom{{Name: "matched", Cond: func(rel *Term) (bool, bool) {
			if rel.Op != "call:bytes.Equal" || len(rel.Args) != 2 {
				return false, false
			}
			for k := 0; k < 2; k++ {
				if a := elemOfA(rel.Args[k]); a != nil && sameIdx(a.Args[1], idx) && elemOfA(rel.Args[1-k]) == nil {
					return true, true
				}
			}
			return false, false
		}}})
		bad := ps.Require(ret, func(v map[string]bool) bool { return v["matched"] })
		r.check(len(bad) == 0, rule, "(x/bridge/keeper.Keeper).EVMAddressFromSignatures # the address handed back is the candidate that was found in both signatures", P.Pos(ret.Pos()),
			fmt.Sprintf("returned candidate %s of signature A under %v", idx.Brief(), bad))
	}
	r.check(n >= 1 && recA != nil, rule, "(x/bridge/keeper.Keeper).EVMAddressFromSignatures # success returns to decide", P.Pos(fn.Pos()), fmt.Sprint(n))
}
