package main

// Value descriptors: a small tree rendering of SSA values that is independent of
// local names and line numbers. Conversions are transparent, loads are followed
// to the field / parameter / call they read, spilled locals are followed to
// their single store, relational operators and the comparison methods of
// math.Int / LegacyDec / time.Time are normalised to "<", "<=", "==".

import (
	"fmt"
	"go/constant"
	"go/token"
	"go/types"
	"strings"

	"golang.org/x/tools/go/ssa"
)

type Term struct {
	Op   string
	Args []*Term
	V    ssa.Value
}

func (t *Term) String() string {
	if t == nil {
		return "?"
	}
	if len(t.Args) == 0 {
		return t.Op
	}
	var sb strings.Builder
	sb.WriteString(t.Op)
	sb.WriteByte('(')
	for i, a := range t.Args {
		if i > 0 {
			sb.WriteByte(',')
		}
		sb.WriteString(a.String())
	}
	sb.WriteByte(')')
	return sb.String()
}

// Walk visits t and all subterms.
func (t *Term) Walk(f func(*Term) bool) {
	if t == nil || !f(t) {
		return
	}
	for _, a := range t.Args {
		a.Walk(f)
	}
}

// Has reports whether some subterm's Op has the given prefix.
func (t *Term) Has(prefix string) bool {
	found := false
	t.Walk(func(x *Term) bool {
		if strings.HasPrefix(x.Op, prefix) {
			found = true
		}
		return !found
	})
	return found
}

// Contains reports whether some subterm's Op contains the substring.
func (t *Term) Contains(sub string) bool {
	found := false
	t.Walk(func(x *Term) bool {
		if strings.Contains(x.Op, sub) {
			found = true
		}
		return !found
	})
	return found
}

// HasSuffix reports whether some subterm's Op ends with the suffix.
func (t *Term) HasSuffix(suffix string) bool {
	found := false
	t.Walk(func(x *Term) bool {
		if strings.HasSuffix(x.Op, suffix) {
			found = true
		}
		return !found
	})
	return found
}

func (t *Term) Find(pred func(*Term) bool) *Term {
	var r *Term
	t.Walk(func(x *Term) bool {
		if r == nil && pred(x) {
			r = x
		}
		return r == nil
	})
	return r
}

func stripTypeArgs(s string) string {
	var sb strings.Builder
	depth := 0
	for _, r := range s {
		switch r {
		case '[':
			depth++
		case ']':
			depth--
		default:
			if depth == 0 {
				sb.WriteRune(r)
			}
		}
	}
	return sb.String()
}

// CalleeName returns a canonical callee descriptor for a call.
//
//	static:  "(x/oracle/keeper.Keeper).SetValue", "(cosmossdk.io/collections.Map).Set"
//	invoke:  "iface:x/oracle/types.BankKeeper.MintCoins"
//	builtin: "builtin:len"
//	dynamic: "dyn"
func CalleeName(cc *ssa.CallCommon) string {
	if cc.IsInvoke() {
		return "iface:" + short(stripTypeArgs(cc.Value.Type().String())) + "." + cc.Method.Name()
	}
	switch v := cc.Value.(type) {
	case *ssa.Function:
		return fnCanon(v)
	case *ssa.Builtin:
		return "builtin:" + v.Name()
	case *ssa.MakeClosure:
		if f, ok := v.Fn.(*ssa.Function); ok {
			return fnCanon(f)
		}
	}
	return "dyn"
}

func fnCanon(f *ssa.Function) string {
	if f.Origin() != nil {
		f = f.Origin()
	}
	name := short(stripTypeArgs(f.RelString(nil)))
	if len(renamedFunc) > 0 {
		top := f
		for top.Parent() != nil {
			top = top.Parent()
		}
		if old, ok := renamedFunc[top]; ok {
			cur := short(stripTypeArgs(top.RelString(nil)))
			if strings.HasPrefix(name, cur) {
				name = old + name[len(cur):]
			}
		}
	}
	// bound method wrappers: "(T).M$bound"
	name = strings.TrimSuffix(name, "$bound")
	name = strings.TrimSuffix(name, "$thunk")
	return name
}

type termer struct {
	memo      map[ssa.Value]*Term
	depth     int
	truncated bool // a depth cut-off happened while rendering the current value
}

func NewTermer() *termer { return &termer{memo: map[ssa.Value]*Term{}} }

const maxTermDepth = 18

func typeShort(t types.Type) string { return short(stripTypeArgs(t.String())) }

// fieldName gives "x/oracle/types.QueryMeta.Expiration" for a field selection.
func fieldName(structT types.Type, idx int) string {
	t := structT
	if p, ok := t.Underlying().(*types.Pointer); ok {
		t = p.Elem()
	}
	st, ok := t.Underlying().(*types.Struct)
	if !ok {
		return "?"
	}
	return typeShort(t) + "." + st.Field(idx).Name()
}

func (tm *termer) Of(v ssa.Value) *Term {
	if v == nil {
		return &Term{Op: "nil"}
	}
	if t, ok := tm.memo[v]; ok {
		if t == nil {
			return &Term{Op: "cycle", V: v}
		}
		return t
	}
	if tm.depth > maxTermDepth {
		tm.truncated = true
		return &Term{Op: "deep", V: v}
	}
	tm.memo[v] = nil
	tm.depth++
	outer := tm.truncated
	tm.truncated = false
	t := tm.render(v)
	tm.depth--
	t.V = v
	if tm.truncated {
		delete(tm.memo, v) // do not cache a rendering that was cut off because of where it was reached from
	} else {
		tm.memo[v] = t
	}
	tm.truncated = outer || tm.truncated
	return t
}

func (tm *termer) args(vs ...ssa.Value) []*Term {
	out := make([]*Term, len(vs))
	for i, v := range vs {
		out[i] = tm.Of(v)
	}
	return out
}

// singleStore returns the unique value stored to the alloc (ignoring zero-value
// initialisation); nil when there are several stores.
func singleStore(a *ssa.Alloc) ssa.Value {
	var val ssa.Value
	n := 0
	for _, r := range *a.Referrers() {
		if st, ok := r.(*ssa.Store); ok && st.Addr == a {
			n++
			val = st.Val
		}
	}
	if n == 1 {
		return val
	}
	return nil
}

func (tm *termer) render(v ssa.Value) *Term {
	switch v := v.(type) {
	case *ssa.Const:
		if v.Value == nil {
			return &Term{Op: "const:nil"}
		}
		if v.Value.Kind() == constant.String {
			return &Term{Op: "const:" + constant.StringVal(v.Value)}
		}
		return &Term{Op: "const:" + v.Value.ExactString()}
	case *ssa.Parameter:
		if o := extractedInto(v.Parent()); o != nil && TopFunc2(v.Parent()) != curFrame {
			// the helper is a named block of o: its parameter is what o passes
			idx := -1
			for i, p := range v.Parent().Params {
				if p == v {
					idx = i
				}
			}
			var args []ssa.Value
			for _, f := range append([]*ssa.Function{o}, o.AnonFuncs...) {
				for _, b := range f.Blocks {
					for _, in := range b.Instrs {
						if c, ok := in.(ssa.CallInstruction); ok && c.Common().StaticCallee() == v.Parent() && idx >= 0 && idx < len(c.Common().Args) {
							args = append(args, c.Common().Args[idx])
						}
					}
				}
			}
			if len(args) == 1 {
				return tm.Of(args[0])
			}
			if len(args) > 1 {
				first := tm.Of(args[0])
				same := true
				var ts []*Term
				for _, a := range args {
					t := tm.Of(a)
					ts = append(ts, t)
					if t.String() != first.String() {
						same = false
					}
				}
				if same {
					return first
				}
				return &Term{Op: "phi", Args: ts}
			}
		}
		for i, p := range v.Parent().Params {
			if p == v {
				return &Term{Op: fmt.Sprintf("param:%d:%s", i, typeShort(v.Type()))}
			}
		}
		return &Term{Op: "param:?"}
	case *ssa.FreeVar:
		// resolve through the MakeClosure binding when the parent is known
		fn := v.Parent()
		idx := -1
		for i, fv := range fn.FreeVars {
			if fv == v {
				idx = i
			}
		}
		if par := fn.Parent(); par != nil && idx >= 0 {
			for _, b := range par.Blocks {
				for _, in := range b.Instrs {
					if mc, ok := in.(*ssa.MakeClosure); ok && mc.Fn == fn && idx < len(mc.Bindings) {
						return &Term{Op: "freevar", Args: tm.args(mc.Bindings[idx])}
					}
				}
			}
		}
		return &Term{Op: "freevar:" + v.Name()}
	case *ssa.Global:
		return &Term{Op: "global:" + short(v.RelString(nil))}
	case *ssa.Function:
		return &Term{Op: "func:" + fnCanon(v)}
	case *ssa.Builtin:
		return &Term{Op: "builtin:" + v.Name()}
	case *ssa.Convert:
		return tm.Of(v.X)
	case *ssa.ChangeType:
		return tm.Of(v.X)
	case *ssa.ChangeInterface:
		return tm.Of(v.X)
	case *ssa.MakeInterface:
		return tm.Of(v.X)
	case *ssa.MultiConvert:
		return tm.Of(v.X)
	case *ssa.Alloc:
		if s := singleStore(v); s != nil {
			return &Term{Op: "ref", Args: tm.args(s)}
		}
		return &Term{Op: "alloc:" + typeShort(v.Type())}
	case *ssa.FieldAddr:
		// a field of a local struct that is assigned exactly once (struct literal): the assigned value
		if al, ok := v.X.(*ssa.Alloc); ok {
			if fv := singleFieldStore(al, v.Field); fv != nil {
				// keep the field identity (distinct fields assigned from look-alike calls stay distinct); the argument is the assigned value
				return &Term{Op: "field:" + fieldName(v.X.Type(), v.Field), Args: []*Term{{Op: "ref", Args: tm.args(fv)}}}
			}
		}
		return &Term{Op: "field:" + fieldName(v.X.Type(), v.Field), Args: []*Term{tm.deref(v.X)}}
	case *ssa.Field:
		return &Term{Op: "field:" + fieldName(v.X.Type(), v.Field), Args: tm.args(v.X)}
	case *ssa.IndexAddr:
		return &Term{Op: "index", Args: []*Term{tm.deref(v.X), tm.Of(v.Index)}}
	case *ssa.Index:
		return &Term{Op: "index", Args: tm.args(v.X, v.Index)}
	case *ssa.Lookup:
		return &Term{Op: "lookup", Args: tm.args(v.X, v.Index)}
	case *ssa.Slice:
		if el := variadicElemValues(v); el != nil {
			return &Term{Op: "slicelit", Args: tm.args(el...)}
		}
		return &Term{Op: "slice", Args: tm.args(v.X, v.Low, v.High)}
	case *ssa.UnOp:
		switch v.Op {
		case token.MUL: // load
			if ep := loadEpoch(v); ep != "" {
				return &Term{Op: "after-store:" + ep, Args: []*Term{tm.deref(v.X)}}
			}
			return tm.deref(v.X)
		case token.NOT:
			return &Term{Op: "!", Args: tm.args(v.X)}
		case token.SUB:
			return &Term{Op: "neg", Args: tm.args(v.X)}
		case token.ARROW:
			return &Term{Op: "recv", Args: tm.args(v.X)}
		}
		return &Term{Op: "unop:" + v.Op.String(), Args: tm.args(v.X)}
	case *ssa.BinOp:
		x, y := tm.Of(v.X), tm.Of(v.Y)
		switch v.Op {
		case token.GTR:
			return &Term{Op: "<", Args: []*Term{y, x}}
		case token.GEQ:
			return &Term{Op: "<=", Args: []*Term{y, x}}
		case token.NEQ:
			if eq := compareIsEqual(x, y); eq != nil {
				return &Term{Op: "!", Args: []*Term{eq}}
			}
			return &Term{Op: "!", Args: []*Term{{Op: "==", Args: []*Term{x, y}, V: v}}}
		case token.EQL:
			if eq := compareIsEqual(x, y); eq != nil {
				return eq
			}
		}
		return &Term{Op: v.Op.String(), Args: []*Term{x, y}}
	case *ssa.Extract:
		return &Term{Op: fmt.Sprintf("ext:%d", v.Index), Args: tm.args(v.Tuple)}
	case *ssa.Phi:
		return &Term{Op: "phi", Args: tm.args(v.Edges...)}
	case *ssa.TypeAssert:
		return &Term{Op: "assert:" + typeShort(v.AssertedType), Args: tm.args(v.X)}
	case *ssa.MakeClosure:
		if f, ok := v.Fn.(*ssa.Function); ok {
			return &Term{Op: "closure:" + fnCanon(f), Args: tm.args(v.Bindings...)}
		}
		return &Term{Op: "closure"}
	case *ssa.MakeSlice:
		return &Term{Op: "makeslice:" + typeShort(v.Type()), Args: tm.args(v.Len)}
	case *ssa.MakeMap:
		return &Term{Op: "makemap:" + typeShort(v.Type())}
	case *ssa.Next:
		return &Term{Op: "next", Args: tm.args(v.Iter)}
	case *ssa.Range:
		return &Term{Op: "range", Args: tm.args(v.X)}
	case *ssa.Call:
		return tm.call(v)
	}
	return &Term{Op: fmt.Sprintf("%T", v)}
}

// deref renders the value stored at an address.
func (tm *termer) deref(addr ssa.Value) *Term {
	switch a := addr.(type) {
	case *ssa.Alloc:
		if s := singleStore(a); s != nil {
			return tm.Of(s)
		}
		return &Term{Op: "local:" + typeShort(a.Type()), V: a}
	case *ssa.FieldAddr, *ssa.IndexAddr:
		return tm.Of(a)
	case *ssa.Global:
		return tm.Of(a)
	}
	return &Term{Op: "load", Args: tm.args(addr)}
}

var relMethods = map[string]string{
	"LT": "<", "GT": ">", "LTE": "<=", "GTE": ">=", "Equal": "==", "Equals": "==", "IsEqual": "==",
	"Before": "<", "After": ">", "IsLT": "<", "IsGTE": ">=", "IsLTE": "<=", "IsGT": ">",
}

func isNumericOrTimeRecv(name string) bool {
	for _, p := range []string{"(cosmossdk.io/math.Int).", "(cosmossdk.io/math.LegacyDec).", "(time.Time).", "(cosmossdk.io/math.Uint).", "(github.com/cosmos/cosmos-sdk/types.Coin)."} {
		if strings.HasPrefix(name, p) {
			return true
		}
	}
	return false
}

func (tm *termer) call(c *ssa.Call) *Term {
	cc := c.Common()
	name := CalleeName(cc)
	var args []*Term
	if cc.IsInvoke() {
		args = append(args, tm.Of(cc.Value))
	}
	for _, a := range cc.Args {
		args = append(args, tm.Of(a))
	}
	if isNumericOrTimeRecv(name) {
		m := name[strings.LastIndex(name, ".")+1:]
		if len(args) == 2 {
			if op, ok := relMethods[m]; ok {
				switch op {
				case ">":
					return &Term{Op: "<", Args: []*Term{args[1], args[0]}}
				case ">=":
					return &Term{Op: "<=", Args: []*Term{args[1], args[0]}}
				default:
					return &Term{Op: op, Args: args}
				}
			}
		}
		if len(args) == 1 {
			zero := &Term{Op: "const:0"}
			switch m {
			case "IsZero":
				return &Term{Op: "==", Args: []*Term{args[0], zero}}
			case "IsPositive":
				return &Term{Op: "<", Args: []*Term{zero, args[0]}}
			case "IsNegative":
				return &Term{Op: "<", Args: []*Term{args[0], zero}}
			}
		}
	}
	return &Term{Op: "call:" + name, Args: args}
}

// Cond normalises a branch condition: strips negations, returns the positive
// relation and the polarity (true when the If's true edge means rel holds).
func Cond(t *Term) (rel *Term, pol bool) {
	pol = true
	for t != nil && t.Op == "!" && len(t.Args) == 1 {
		t = t.Args[0]
		pol = !pol
	}
	return t, pol
}

// RecvField returns the "pkg.Struct.Field" path when v is (a load of) a struct
// field, e.g. the collection a method is called on; "" otherwise.
func RecvField(v ssa.Value) string {
	for i := 0; i < 6; i++ {
		switch x := v.(type) {
		case *ssa.UnOp:
			if x.Op == token.MUL {
				v = x.X
				continue
			}
			return ""
		case *ssa.FieldAddr:
			return fieldName(x.X.Type(), x.Field)
		case *ssa.Field:
			return fieldName(x.X.Type(), x.Field)
		case *ssa.ChangeType:
			v = x.X
			continue
		case *ssa.MakeInterface:
			v = x.X
			continue
		case *ssa.Alloc:
			if s := singleStore(x); s != nil {
				v = s
				continue
			}
			return ""
		default:
			return ""
		}
	}
	return ""
}

// variadicElemValues recovers the elements of a variadic-argument slice
// (new [n]T; &t[i] = v; slice t[:]) in index order; nil when v is not of that shape.
func variadicElemValues(v ssa.Value) []ssa.Value {
	sl, ok := v.(*ssa.Slice)
	if !ok {
		return nil
	}
	al, ok := sl.X.(*ssa.Alloc)
	if !ok {
		return nil
	}
	arr, ok := al.Type().Underlying().(*types.Pointer).Elem().Underlying().(*types.Array)
	if !ok {
		return nil
	}
	out := make([]ssa.Value, arr.Len())
	for _, r := range *al.Referrers() {
		ia, ok := r.(*ssa.IndexAddr)
		if !ok {
			continue
		}
		c, ok := ia.Index.(*ssa.Const)
		if !ok {
			return nil
		}
		idx := int(c.Int64())
		for _, rr := range *ia.Referrers() {
			if st, ok := rr.(*ssa.Store); ok && st.Addr == ia {
				if idx < len(out) {
					out[idx] = st.Val
				}
			}
		}
	}
	for _, o := range out {
		if o == nil {
			return nil
		}
	}
	return out
}

func variadicElems(v ssa.Value) []*Term {
	vals := variadicElemValues(v)
	if vals == nil {
		return nil
	}
	tm := NewTermer()
	var out []*Term
	for _, x := range vals {
		out = append(out, tm.Of(x))
	}
	return out
}

// Brief gives a short, refactoring-stable descriptor of a term: the field, the
// callee whose result it is, the parameter index, or a constant.
func (t *Term) Brief() string {
	if t == nil {
		return "?"
	}
	op := t.Op
	switch {
	case strings.HasPrefix(op, "field:"):
		return strings.TrimPrefix(op, "field:")
	case strings.HasPrefix(op, "ext:") && len(t.Args) == 1:
		return t.Args[0].Brief() + "#" + strings.TrimPrefix(op, "ext:")
	case strings.HasPrefix(op, "call:"):
		if linTransparent[strings.TrimPrefix(op, "call:")] && len(t.Args) >= 1 {
			return t.Args[0].Brief()
		}
		return strings.TrimPrefix(op, "call:") + "()"
	case strings.HasPrefix(op, "param:"):
		parts := strings.SplitN(op, ":", 3)
		return "param" + parts[1]
	case strings.HasPrefix(op, "const:"):
		return strings.TrimPrefix(op, "const:")
	case strings.HasPrefix(op, "makeslice:"):
		return "make(" + strings.TrimPrefix(op, "makeslice:") + ")"
	case op == "phi":
		return "loopvar"
	case (op == "+" || op == "-") && len(t.Args) == 2 && (t.Args[0].Op == "phi" || t.Args[1].Op == "phi"):
		return "loopvar"
	case op == "ref" && len(t.Args) == 1:
		return t.Args[0].Brief()
	case op == "load" && len(t.Args) == 1:
		return t.Args[0].Brief()
	case op == "index" && len(t.Args) == 2:
		return t.Args[0].Brief() + "[" + t.Args[1].Brief() + "]"
	case op == "slice" && len(t.Args) >= 1:
		return t.Args[0].Brief() + "[:]"
	case strings.HasPrefix(op, "global:"):
		return strings.TrimPrefix(op, "global:")
	case strings.HasPrefix(op, "local:"), strings.HasPrefix(op, "alloc:"):
		return "local " + op[strings.Index(op, ":")+1:]
	case strings.HasPrefix(op, "freevar") && len(t.Args) == 1:
		return t.Args[0].Brief()
	}
	if len(t.Args) > 0 {
		var parts []string
		for _, a := range t.Args {
			parts = append(parts, a.Brief())
		}
		return op + "(" + strings.Join(parts, ",") + ")"
	}
	return op
}

// singleFieldStore: the alloc is a struct local that is never stored as a whole (or only
// zero-initialised) and whose field idx is stored exactly once; returns that value.
func singleFieldStore(al *ssa.Alloc, idx int) ssa.Value {
	var val ssa.Value
	n := 0
	for _, r := range *al.Referrers() {
		switch x := r.(type) {
		case *ssa.Store:
			if x.Addr == al {
				return nil // whole-struct store: the field comes from that value
			}
		case *ssa.FieldAddr:
			if x.Field != idx {
				continue
			}
			for _, rr := range *x.Referrers() {
				if st, ok := rr.(*ssa.Store); ok && st.Addr == x {
					n++
					val = st.Val
				}
			}
		}
	}
	if n == 1 {
		return val
	}
	return nil
}

// loadEpoch distinguishes two loads of the same access path through a pointer parameter when the function
// assigns that path in between: it returns "" when no store to an overlapping path of the same parameter can
// precede the load, else a label naming the stores that can (by their order in the function).
var epochCache = map[*ssa.Function]map[*ssa.UnOp]string{}

func loadEpoch(ld *ssa.UnOp) string {
	fn := ld.Parent()
	if fn == nil {
		return ""
	}
	if m, ok := epochCache[fn]; ok {
		return m[ld]
	}
	m := map[*ssa.UnOp]string{}
	epochCache[fn] = m
	pathOf := func(v ssa.Value) (ssa.Value, []int) {
		var path []int
		root := v
		for {
			f, ok := root.(*ssa.FieldAddr)
			if !ok {
				break
			}
			path = append([]int{f.Field}, path...)
			root = f.X
		}
		return root, path
	}
	type acc struct {
		root ssa.Value
		path []int
		blk  *ssa.BasicBlock
		idx  int
		st   *ssa.Store
		ld   *ssa.UnOp
	}
	var loads, stores []acc
	for _, b := range fn.Blocks {
		for i, in := range b.Instrs {
			switch x := in.(type) {
			case *ssa.Store:
				if root, path := pathOf(x.Addr); len(path) > 0 {
					stores = append(stores, acc{root, path, b, i, x, nil})
				}
			case *ssa.UnOp:
				if x.Op == token.MUL {
					if root, path := pathOf(x.X); len(path) > 0 {
						loads = append(loads, acc{root, path, b, i, nil, x})
					}
				}
			}
		}
	}
	if len(stores) == 0 {
		return ""
	}
	reachMemo := map[*ssa.BasicBlock]map[*ssa.BasicBlock]bool{}
	reach := func(from, to *ssa.BasicBlock) bool {
		seen, ok := reachMemo[from]
		if !ok {
			seen = map[*ssa.BasicBlock]bool{}
			work := append([]*ssa.BasicBlock{}, from.Succs...)
			for len(work) > 0 {
				b := work[len(work)-1]
				work = work[:len(work)-1]
				if seen[b] {
					continue
				}
				seen[b] = true
				work = append(work, b.Succs...)
			}
			reachMemo[from] = seen
		}
		return seen[to]
	}
	for _, l := range loads {
		var lines []string
		nOver := 0
		for si, s := range stores {
			if s.root != l.root {
				continue
			}
			over := true
			for i := 0; i < len(s.path) && i < len(l.path); i++ {
				if s.path[i] != l.path[i] {
					over = false
				}
			}
			if !over {
				continue
			}
			nOver++
			if (s.blk == l.blk && s.idx < l.idx) || reach(s.blk, l.blk) {
				lines = append(lines, fmt.Sprintf("s%d", si))
			}
		}
		if _, local := l.root.(*ssa.Alloc); local {
			continue // fields of local structs are named by the termer's own single-store / local rules
		}
		if len(lines) > 0 {
			m[l.ld] = strings.Join(lines, ",")
		}
	}
	return m[ld]
}

// compareIsEqual: bytes.Compare(a, b) == 0 (also strings.Compare) is rendered as the equality call it is equivalent to.
func compareIsEqual(x, y *Term) *Term {
	for _, p := range [][2]*Term{{x, y}, {y, x}} {
		if p[1].Op == "const:0" && len(p[0].Args) == 2 {
			switch p[0].Op {
			case "call:bytes.Compare":
				return &Term{Op: "call:bytes.Equal", Args: p[0].Args}
			}
		}
	}
	return nil
}
