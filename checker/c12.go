package main

// C12 — dispute lifecycle, voting power and tally.

import (
	"fmt"
	"go/token"
	"math/big"
	"sort"
	"strconv"
	"strings"

	"golang.org/x/tools/go/ssa"
)

func init() { register("C12", checkC12) }

// constFieldStores lists (function, constant) for every store of a constant to the given struct field.
func constFieldStores(P *Prog, field string) map[string][]string {
	out := map[string][]string{}
	for _, fn := range P.RepoFuncs {
		for _, b := range fn.Blocks {
			for _, in := range b.Instrs {
				st, ok := in.(*ssa.Store)
				if !ok {
					continue
				}
				fa, ok := st.Addr.(*ssa.FieldAddr)
				if !ok || fieldName(fa.X.Type(), fa.Field) != field {
					continue
				}
				name := FuncName(TopFunc(fn))
				if c, ok := st.Val.(*ssa.Const); ok && c.Value != nil {
					out[name] = append(out[name], c.Value.ExactString())
				} else {
					out[name] = append(out[name], "non-const:"+NewTermer().Of(st.Val).Brief())
				}
			}
		}
	}
	return out
}

// evalDecision interprets fn's CFG for given ranks of the three integer parameters and the quorum flag:
// returns the constant stored to Vote.VoteResult on the path taken, or "error" / "undecided".
func evalDecision(fn *ssa.Function, rank map[int]int, quorum bool) string {
	tm := NewTermer()
	paramIdx := func(t *Term) (int, bool) {
		if strings.HasPrefix(t.Op, "param:") {
			parts := strings.SplitN(t.Op, ":", 3)
			n, err := strconv.Atoi(parts[1])
			return n, err == nil
		}
		return 0, false
	}
	var prev *ssa.BasicBlock
	cur := fn.Blocks[0]
	phiVal := map[*ssa.Phi]string{}
	phiBool := map[*ssa.Phi]int{} // 1 true, 2 false
	var evalBool func(v ssa.Value) (bool, bool)
	evalBool = func(v ssa.Value) (bool, bool) {
		switch x := v.(type) {
		case *ssa.Const:
			if x.Value != nil && x.Value.String() == "true" {
				return true, true
			}
			if x.Value != nil && x.Value.String() == "false" {
				return false, true
			}
		case *ssa.Phi:
			if b, ok := phiBool[x]; ok {
				return b == 1, true
			}
		case *ssa.UnOp:
			if b, ok := evalBool(x.X); ok && x.Op.String() == "!" {
				return !b, true
			}
		}
		rel, pol := Cond(tm.Of(v))
		if rel.Op == "<" && len(rel.Args) == 2 {
			a, ok1 := paramIdx(rel.Args[0])
			b, ok2 := paramIdx(rel.Args[1])
			if ok1 && ok2 {
				return (rank[a] < rank[b]) == pol, true
			}
		}
		if strings.HasPrefix(rel.Op, "param:") && strings.HasSuffix(rel.Op, ":bool") {
			return quorum == pol, true
		}
		return false, false
	}
	result := "none"
	for steps := 0; steps < 200; steps++ {
		for _, in := range cur.Instrs {
			switch x := in.(type) {
			case *ssa.Phi:
				for i, p := range cur.Preds {
					if p == prev {
						if c, ok := x.Edges[i].(*ssa.Const); ok && c.Value != nil {
							phiVal[x] = c.Value.ExactString()
						} else if p2, ok := x.Edges[i].(*ssa.Phi); ok {
							phiVal[x] = phiVal[p2]
						}
						if b, ok := evalBool(x.Edges[i]); ok {
							if b {
								phiBool[x] = 1
							} else {
								phiBool[x] = 2
							}
						}
					}
				}
			case *ssa.Store:
				if fa, ok := x.Addr.(*ssa.FieldAddr); ok && fieldName(fa.X.Type(), fa.Field) == "x/dispute/types.Vote.VoteResult" {
					switch v := x.Val.(type) {
					case *ssa.Const:
						result = v.Value.ExactString()
					case *ssa.Phi:
						result = phiVal[v]
					default:
						result = "non-const"
					}
				}
			case *ssa.Return:
				if DefinitelyFails(x) {
					t := tm.Of(ResultOf(x, 0))
					if strings.HasPrefix(t.Op, "call:errors.New") || strings.HasPrefix(t.Op, "call:fmt.Errorf") {
						return "error"
					}
					return "store-error"
				}
				return result
			case *ssa.If:
				rel, pol := Cond(tm.Of(x.Cond))
				val, known := false, false
				if b, ok := evalBool(x.Cond); ok {
					// evalBool already applied the polarity of negations
					val, known, pol = b, true, true
				}
				switch {
				case known:
				case rel.Op == "<" && len(rel.Args) == 2:
					a, ok1 := paramIdx(rel.Args[0])
					b, ok2 := paramIdx(rel.Args[1])
					if ok1 && ok2 {
						val, known = rank[a] < rank[b], true
					}
				case rel.Op == "==" && len(rel.Args) == 2 && rel.Args[1].Op == "const:nil":
					val, known = true, true // assume store operations succeed
				case rel.Op == "==" && len(rel.Args) == 2:
					a, ok1 := paramIdx(rel.Args[0])
					b, ok2 := paramIdx(rel.Args[1])
					if ok1 && ok2 {
						val, known = rank[a] == rank[b], true
					}
				case strings.HasPrefix(rel.Op, "param:") && strings.HasSuffix(rel.Op, ":bool"):
					val, known = quorum, true
				}
				if !known {
					return "undecided:" + rel.Brief()
				}
				take := val == pol
				prev = cur
				if take {
					cur = cur.Succs[0]
				} else {
					cur = cur.Succs[1]
				}
				goto next
			case *ssa.Jump:
				prev = cur
				cur = cur.Succs[0]
				goto next
			}
		}
		return "fell-off"
	next:
	}
	return "loop"
}

func checkC12(r *Result) {
	P := r.P
	defer checkLostUpdates(r, "C12")
	r.Explanation = "Structural rules of the dispute state machine and tally, decided on SSA: (1) the constants ever stored to Dispute.DisputeStatus, per function, equal the specified transition relation, each store under the path facts that fix its source state (prevote/expired => failed; fee met => voting; tally only from voting; unresolved => new round with a fresh id; execution => resolved only for a tallied vote after the end time); the snapshot block number of a dispute is written once, at creation; (2) a vote is recorded only for a dispute in voting, by an address that has not voted in this round, before the vote end, with all four power look-ups taken at the dispute's recorded block; (3) algebraic normal forms: Ratio = 25*part*PR/total, every group contributes votes_c*PR/(sum of its votes), the team adds PR to its choice and 25*PR to the ratio, quorum is 51*PR; (4) the decision in UpdateDispute is interpreted over all 13 weak orderings of (support, against, invalid) x quorum and must always record a result, the strict maximum's class when there is one; (5) enum switches are exhaustive; (6) a later round costs 5% of the slash amount times 2^round, capped."
	r.NotDecided = "the tally arithmetic against an exact rational reference (truncation), that no counter goes below zero, deadline arithmetic on times, which voting power a past block really had"
	r.Assumptions = []string{"reporter and oracle keepers return the stake / tips as of the block number they are given"}
	r.rule("TYPESTATE", "the constants stored to Dispute.DisputeStatus per function are exactly the specified transitions, each under the facts fixing its source state")
	r.rule("SNAPSHOT-BLOCK", "a dispute's snapshot block number is written only when the dispute is created")
	r.rule("VOTE-GUARDS", "a vote is recorded only in voting state, once per address and round, before the vote end, with powers taken at the dispute's block")
	r.rule("PERSISTED", "each transition is carried out completely: its consequences happen on the same paths and the record is stored afterwards; results are written once and with the quorum flag of the test taken")
	r.rule("TALLY-FORMULA", "ratio, group contributions, team weight and quorum have the specified algebraic normal forms")
	r.rule("TALLY-TOTAL", "the recorded result is decided for every ordering of the three sums, and is the strict maximum's class when one exists")
	r.rule("EXHAUSTIVE", "switches over VoteEnum / VoteResult / DisputeCategory cover every constant or fail closed")
	r.rule("FEE-DOUBLING", "a later round's fee is 1/20 of the slash amount times 2^round, capped at the slash amount")

	need := func(name string) *ssa.Function {
		f := P.Func(name)
		if f == nil {
			r.broken("anchor %s does not resolve", name)
		} else {
			r.fn(name)
		}
		return f
	}
	st := func(n string) string { return enumVal(P, "x/dispute/types", n) }
	statusName := map[string]string{st("Prevote"): "Prevote", st("Voting"): "Voting", st("Resolved"): "Resolved", st("Unresolved"): "Unresolved", st("Failed"): "Failed"}

	// ---- TYPESTATE census
	got := constFieldStores(P, "x/dispute/types.Dispute.DisputeStatus")
	want := map[string][]string{
		"(x/dispute/keeper.Keeper).SetNewDispute":      {"Prevote", "Voting"},
		"(x/dispute/keeper.msgServer).AddFeeToDispute": {"Voting"},
		"x/dispute.CheckOpenDisputesForExpiration":     {"Failed"},
		"(x/dispute/keeper.Keeper).TallyVote":          {"Resolved", "Resolved", "Resolved", "Unresolved"},
		"(x/dispute/keeper.Keeper).ExecuteVote":        {"Resolved"},
		"(x/dispute/keeper.Keeper).AddDisputeRound":    {"Voting"},
	}
	var fnames []string
	for f := range got {
		fnames = append(fnames, f)
	}
	sort.Strings(fnames)
	for _, f := range fnames {
		var names []string
		for _, v := range got[f] {
			if n, ok := statusName[v]; ok {
				names = append(names, n)
			} else {
				names = append(names, v)
			}
		}
		sort.Strings(names)
		w := append([]string{}, want[f]...)
		sort.Strings(w)
		// multiplicity is not pinned: compare as sets
		set := func(l []string) string {
			m := map[string]bool{}
			for _, x := range l {
				m[x] = true
			}
			return fmt.Sprint(keysOf(m))
		}
		if strings.Contains(f, "Genesis") || strings.Contains(f, "simulation") {
			continue
		}
		r.check(set(names) == set(w), "TYPESTATE", f+" # statuses stored", "-", fmt.Sprintf("stores %v ; specified %v", names, w))
	}
	for f := range want {
		if _, ok := got[f]; !ok {
			r.bad("TYPESTATE", f+" # statuses stored", "-", "the function no longer stores the status the transition relation expects from it")
		}
	}
	statusIs := func(name string) func(rel *Term) (bool, bool) {
		return func(rel *Term) (bool, bool) {
			if rel.Op == "==" && len(rel.Args) == 2 && strings.HasPrefix(rel.Args[0].Op, "field:x/dispute/types.Dispute.DisputeStatus") && rel.Args[1].Op == "const:"+st(name) {
				return true, true
			}
			return false, false
		}
	}
	storeStatus := func(name string) func(in ssa.Instruction) bool {
		return func(in ssa.Instruction) bool {
			return storesConstToField(in, "x/dispute/types.Dispute.DisputeStatus", st(name))
		}
	}
	eachStore := func(fn *ssa.Function, match func(ssa.Instruction) bool, f func(in ssa.Instruction)) int {
		n := 0
		for _, b := range fn.Blocks {
			for _, in := range b.Instrs {
				if match(in) {
					n++
					f(in)
				}
			}
		}
		return n
	}
	// Prevote -> Failed
	if hook := need("x/dispute.CheckOpenDisputesForExpiration"); hook != nil {
		ps := AnalyzePaths(hook, []Atom{{Name: "prevote", Cond: statusIs("Prevote")}, {Name: "voting", Cond: statusIs("Voting")},
			{Name: "expired", Cond: func(rel *Term) (bool, bool) {
				if rel.Op == "<" && len(rel.Args) == 2 && strings.HasPrefix(rel.Args[0].Op, "field:x/dispute/types.Dispute.DisputeEndTime") && rel.Args[1].Has("call:(github.com/cosmos/cosmos-sdk/types.Context).BlockTime") {
					return true, true
				}
				return false, false
			}}})
		eachStore(hook, storeStatus("Failed"), func(in ssa.Instruction) {
			bad := ps.Require(in, func(v map[string]bool) bool { return v["prevote"] && v["expired"] })
			r.check(len(bad) == 0, "TYPESTATE", "x/dispute.CheckOpenDisputesForExpiration # Failed only from an expired Prevote", P.Pos(in.Pos()), fmt.Sprintf("valuations: %v", statesStr(ps, in)))
		})
		for _, cs := range P.CallSitesIn(hook) {
			if cs.Callee == "(x/dispute/keeper.Keeper).TallyVote" {
				bad := ps.Require(cs.Instr, func(v map[string]bool) bool { return v["voting"] })
				r.check(len(bad) == 0, "TYPESTATE", "x/dispute.CheckOpenDisputesForExpiration # TallyVote only for a dispute in Voting", P.Pos(cs.Pos()), fmt.Sprintf("valuations: %v", statesStr(ps, cs.Instr)))
			}
		}
	}
	// TallyVote callers
	{
		var cs []string
		for _, c := range P.callers[P.Func("(x/dispute/keeper.Keeper).TallyVote")] {
			cs = append(cs, FuncName(TopFunc(c)))
		}
		sort.Strings(cs)
		r.check(fmt.Sprint(cs) == "[(x/dispute/keeper.msgServer).Vote x/dispute.CheckOpenDisputesForExpiration]", "TYPESTATE", "callers of TallyVote", "-", fmt.Sprint(cs))
	}
	// AddDisputeRound: Unresolved -> Voting with fresh id
	if adr := need("(x/dispute/keeper.Keeper).AddDisputeRound"); adr != nil {
		ps := AnalyzePaths(adr, []Atom{{Name: "unresolved", Cond: statusIs("Unresolved")},
			{Name: "open", Cond: func(rel *Term) (bool, bool) {
				return strings.HasPrefix(rel.Op, "field:x/dispute/types.Dispute.Open"), true
			}},
			{Name: "expired", Cond: func(rel *Term) (bool, bool) {
				if rel.Op == "<" && len(rel.Args) == 2 && strings.HasPrefix(rel.Args[0].Op, "field:x/dispute/types.Dispute.DisputeEndTime") && rel.Args[1].Has("call:(github.com/cosmos/cosmos-sdk/types.Context).BlockTime") {
					return true, true
				}
				return false, false
			}},
			{Name: "freshId", Event: func(in ssa.Instruction) (bool, int8) {
				if s, ok := in.(*ssa.Store); ok {
					if fa, ok := s.Addr.(*ssa.FieldAddr); ok && fieldName(fa.X.Type(), fa.Field) == "x/dispute/types.Dispute.DisputeId" {
						if NewTermer().Of(s.Val).Op == "call:(x/dispute/keeper.Keeper).NextDisputeId" {
							return true, T
						}
					}
				}
				return false, U
			}},
			{Name: "roundInc", Event: func(in ssa.Instruction) (bool, int8) {
				if s, ok := in.(*ssa.Store); ok {
					if fa, ok := s.Addr.(*ssa.FieldAddr); ok && fieldName(fa.X.Type(), fa.Field) == "x/dispute/types.Dispute.DisputeRound" {
						t := NewTermer().Of(s.Val)
						if t.Op == "+" && len(t.Args) == 2 && t.Args[1].Op == "const:1" {
							return true, T
						}
					}
				}
				return false, U
			}}})
		eachStore(adr, storeStatus("Voting"), func(in ssa.Instruction) {
			bad := ps.Require(in, func(v map[string]bool) bool { return v["unresolved"] && v["open"] && !v["expired"] })
			r.check(len(bad) == 0, "TYPESTATE", "(x/dispute/keeper.Keeper).AddDisputeRound # Voting only from an open, unexpired Unresolved dispute", P.Pos(in.Pos()), fmt.Sprintf("valuations: %v", statesStr(ps, in)))
		})
		for _, cs := range P.CallSitesIn(adr) {
			if cs.Desc() == "coll:x/dispute/keeper.Keeper.Disputes.Set" {
				bad := ps.Require(cs.Instr, func(v map[string]bool) bool { return v["freshId"] && v["roundInc"] })
				r.check(len(bad) == 0, "TYPESTATE", "(x/dispute/keeper.Keeper).AddDisputeRound # the new round is stored under a fresh id with round+1", P.Pos(cs.Pos()), fmt.Sprintf("valuations: %v", statesStr(ps, cs.Instr)))
			}
		}
	}
	feeMet := func(rel *Term) (bool, bool) {
		if rel.Op == "==" && len(rel.Args) == 2 && rel.Args[0].Contains("Dispute.FeeTotal") && rel.Args[1].Contains("Dispute.SlashAmount") {
			return true, true
		}
		// in SetNewDispute the dispute is a fresh literal: FeeTotal is the (capped) fee paid, SlashAmount the computed dispute fee
		if rel.Op == "==" && len(rel.Args) == 2 && rel.Args[0].Contains("MsgProposeDispute.Fee") && rel.Args[1].Contains("GetDisputeFee") {
			return true, true
		}
		return false, false
	}
	for _, name := range []string{"(x/dispute/keeper.Keeper).SetNewDispute", "(x/dispute/keeper.msgServer).AddFeeToDispute"} {
		if fn := need(name); fn != nil {
			atoms := []Atom{{Name: "feeMet", Cond: feeMet},
				{Name: "alreadyMet", Cond: func(rel *Term) (bool, bool) {
					if rel.Op == "<=" && len(rel.Args) == 2 && rel.Args[0].Contains("Dispute.SlashAmount") && rel.Args[1].Contains("Dispute.FeeTotal") {
						return true, true
					}
					return false, false
				}},
				{Name: "expired", Cond: func(rel *Term) (bool, bool) {
					if rel.Op == "<" && len(rel.Args) == 2 && strings.HasPrefix(rel.Args[0].Op, "field:x/dispute/types.Dispute.DisputeEndTime") && rel.Args[1].Has("call:(github.com/cosmos/cosmos-sdk/types.Context).BlockTime") {
						return true, true
					}
					return false, false
				}},
				{Name: "prevote", Stable: true, Cond: func(rel *Term) (bool, bool) {
					if rel.Op == "==" && len(rel.Args) == 2 && strings.HasPrefix(rel.Args[0].Op, "field:x/dispute/types.Dispute.DisputeStatus") && rel.Args[1].Op == "const:"+enumVal(P, "x/dispute/types", "Prevote") {
						return true, true
					}
					return false, false
				}}}
			ps := AnalyzePaths(fn, atoms)
			if strings.HasSuffix(name, "AddFeeToDispute") {
				// the stored amounts change after execution (a winning reporter's SlashAmount grows), so "fee not yet met"
				// does not identify a dispute that waits for funding: the status itself is tested (D23)
				for _, cs := range P.CallSitesIn(fn) {
					if cs.Callee == "(x/dispute/keeper.Keeper).PayDisputeFee" || cs.Callee == "(x/dispute/keeper.Keeper).SlashAndJailReporter" || cs.Callee == "(x/dispute/keeper.Keeper).SetStartVote" {
						bad := ps.Require(cs.Instr, func(v map[string]bool) bool { return v["prevote"] })
						r.check(len(bad) == 0 && len(ps.Matched["prevote"]) > 0, "TYPESTATE", name+" # "+cs.Method+" only for a dispute in Prevote", P.Pos(cs.Pos()), fmt.Sprintf("valuations: %v", statesStr(ps, cs.Instr)))
					}
				}
			}
			eachStore(fn, storeStatus("Voting"), func(in ssa.Instruction) {
				bad := ps.Require(in, func(v map[string]bool) bool {
					ok := v["feeMet"]
					if strings.HasSuffix(name, "AddFeeToDispute") {
						ok = ok && !v["alreadyMet"] && !v["expired"] && v["prevote"]
					}
					return ok
				})
				r.check(len(bad) == 0, "TYPESTATE", name+" # Voting exactly when the paid fee reaches the slash amount (from Prevote)", P.Pos(in.Pos()), fmt.Sprintf("valuations: %v", statesStr(ps, in)))
			})
		}
	}
	if ev := need("(x/dispute/keeper.Keeper).ExecuteVote"); ev != nil {
		ps := AnalyzePaths(ev, []Atom{{Name: "noTally", Cond: func(rel *Term) (bool, bool) {
			if rel.Op == "==" && len(rel.Args) == 2 && strings.HasPrefix(rel.Args[0].Op, "field:x/dispute/types.Vote.VoteResult") && rel.Args[1].Op == "const:0" {
				return true, true
			}
			return false, false
		}}, {Name: "ended", Cond: func(rel *Term) (bool, bool) {
			if rel.Op == "<" && len(rel.Args) == 2 && strings.HasPrefix(rel.Args[0].Op, "field:x/dispute/types.Dispute.DisputeEndTime") && rel.Args[1].Has("call:(github.com/cosmos/cosmos-sdk/types.Context).BlockTime") {
				return true, true
			}
			return false, false
		}}})
		eachStore(ev, storeStatus("Resolved"), func(in ssa.Instruction) {
			bad := ps.Require(in, func(v map[string]bool) bool { return !v["noTally"] && v["ended"] })
			r.check(len(bad) == 0, "TYPESTATE", "(x/dispute/keeper.Keeper).ExecuteVote # Resolved only for a tallied vote after the dispute end time", P.Pos(in.Pos()), fmt.Sprintf("valuations: %v", statesStr(ps, in)))
		})
	}

	// ---- SNAPSHOT-BLOCK
	{
		bn := map[string]bool{}
		for _, fn := range P.RepoFuncs {
			for _, b := range fn.Blocks {
				for _, in := range b.Instrs {
					if s, ok := in.(*ssa.Store); ok {
						if fa, ok := s.Addr.(*ssa.FieldAddr); ok && fieldName(fa.X.Type(), fa.Field) == "x/dispute/types.Dispute.BlockNumber" {
							bn[FuncName(TopFunc(fn))] = true
						}
					}
				}
			}
		}
		ok := true
		for f := range bn {
			if f != "(x/dispute/keeper.Keeper).SetNewDispute" && !strings.Contains(f, "Genesis") {
				ok = false
			}
		}
		r.check(ok && bn["(x/dispute/keeper.Keeper).SetNewDispute"], "SNAPSHOT-BLOCK", "writers of Dispute.BlockNumber", "-", fmt.Sprintf("%v (voting power and the group totals must refer to the same block for every round)", keysOf(bn)))
	}

	// ---- VOTE-GUARDS
	if vh := need("(x/dispute/keeper.msgServer).Vote"); vh != nil {
		// the tally a vote triggers reads the voters' records (the team's weight comes from its Voter record): the vote's own
		// record must be stored before TallyVote is called
		{
			po := AnalyzePaths(vh, []Atom{{Name: "voterStored", Event: P.CallEvent(descIs("coll:x/dispute/keeper.Keeper.Voter.Set"), T)}})
			n := 0
			for _, cs := range P.CallSitesIn(vh) {
				if cs.Callee == "(x/dispute/keeper.Keeper).TallyVote" {
					n++
					bad := po.Require(cs.Instr, func(v map[string]bool) bool { return v["voterStored"] })
					r.check(len(bad) == 0, "VOTE-GUARDS", "(x/dispute/keeper.msgServer).Vote # the voter's record is stored before the tally it triggers", P.Pos(cs.Pos()), fmt.Sprintf("valuations: %v", bad))
				}
			}
			r.check(n == 1, "VOTE-GUARDS", "(x/dispute/keeper.msgServer).Vote # one tally call", P.Pos(vh.Pos()), fmt.Sprint(n))
		}
		tm := NewTermer()
		ps := AnalyzePaths(vh, []Atom{{Name: "voting", Cond: statusIs("Voting")},
			{Name: "voted", Cond: func(rel *Term) (bool, bool) {
				if rel.Op == "ext:0" && len(rel.Args) == 1 && strings.HasSuffix(rel.Args[0].Op, ".Has") && rel.Has("field:x/dispute/keeper.Keeper.Voter") {
					return true, true
				}
				return false, false
			}},
			{Name: "ended", Cond: func(rel *Term) (bool, bool) {
				if rel.Op == "<" && len(rel.Args) == 2 && strings.HasPrefix(rel.Args[0].Op, "field:x/dispute/types.Vote.VoteEnd") && rel.Args[1].Has("call:(github.com/cosmos/cosmos-sdk/types.Context).BlockTime") {
					return true, true
				}
				return false, false
			}}})
		var hasKey, setKey string
		for _, cs := range P.CallSitesIn(vh) {
			switch {
			case cs.Desc() == "coll:x/dispute/keeper.Keeper.Voter.Has":
				hasKey = tm.Of(Arg(cs.Instr, 1)).String()
			case cs.Desc() == "coll:x/dispute/keeper.Keeper.Voter.Set":
				setKey = tm.Of(Arg(cs.Instr, 1)).String()
				bad := ps.Require(cs.Instr, func(v map[string]bool) bool { return v["voting"] && !v["voted"] && !v["ended"] })
				evaluated := len(ps.Matched["voting"]) > 0 && len(ps.Matched["voted"]) > 0 && len(ps.Matched["ended"]) > 0
				r.check(len(bad) == 0 && evaluated, "VOTE-GUARDS", "(x/dispute/keeper.msgServer).Vote # vote recorded only in Voting, once, before the end", P.Pos(cs.Pos()), fmt.Sprintf("valuations: %v", statesStr(ps, cs.Instr)))
			case cs.Callee == "(x/dispute/keeper.Keeper).SetVoterTips" || cs.Callee == "(x/dispute/keeper.Keeper).SetVoterReporterStake" || cs.Callee == "(x/dispute/keeper.Keeper).SetTokenholderVote":
				a := tm.Of(Arg(cs.Instr, 3))
				ok := strings.HasPrefix(a.Op, "field:x/dispute/types.Dispute.BlockNumber") && a.Has("field:x/dispute/keeper.Keeper.Disputes")
				r.check(ok, "VOTE-GUARDS", "(x/dispute/keeper.msgServer).Vote # "+cs.Method+" looks power up at the dispute's block", P.Pos(cs.Pos()), "block argument: "+clip(a.String(), 140))
				bad := ps.Require(cs.Instr, func(v map[string]bool) bool { return v["voting"] && !v["voted"] && !v["ended"] })
				r.check(len(bad) == 0, "VOTE-GUARDS", "(x/dispute/keeper.msgServer).Vote # "+cs.Method+" (updates the group counters) only for an admissible vote", P.Pos(cs.Pos()), fmt.Sprintf("valuations: %v", statesStr(ps, cs.Instr)))
			case cs.Callee == "(x/dispute/keeper.Keeper).SetTeamVote":
				bad := ps.Require(cs.Instr, func(v map[string]bool) bool { return v["voting"] && !v["voted"] && !v["ended"] })
				r.check(len(bad) == 0, "VOTE-GUARDS", "(x/dispute/keeper.msgServer).Vote # SetTeamVote only for an admissible vote", P.Pos(cs.Pos()), fmt.Sprintf("valuations: %v", statesStr(ps, cs.Instr)))
			}
		}
		// every success return has written the voter record and updated the four group counters: a vote that
		// changes the counters without leaving the record can be cast again
		{
			isCounter := func(c *CallSite) bool {
				return c.Callee == "(x/dispute/keeper.Keeper).SetVoterTips" || c.Callee == "(x/dispute/keeper.Keeper).SetVoterReporterStake" || c.Callee == "(x/dispute/keeper.Keeper).SetTokenholderVote" || c.Callee == "(x/dispute/keeper.Keeper).SetTeamVote"
			}
			ps2 := AnalyzePaths(vh, []Atom{
				{Name: "recorded", Event: P.CallEvent(descIs("coll:x/dispute/keeper.Keeper.Voter.Set"), T)},
				{Name: "counted", Event: P.CallEvent(isCounter, T)},
			})
			okAll, n := true, 0
			for _, ret := range SuccessReturns(vh) {
				n++
				if bad := ps2.Require(ret, func(v map[string]bool) bool { return v["recorded"] || !v["counted"] }); len(bad) > 0 {
					okAll = false
				}
			}
			r.check(okAll && n > 0, "VOTE-GUARDS", "(x/dispute/keeper.msgServer).Vote # every success return that touched the counters has written the voter record", P.Pos(vh.Pos()), fmt.Sprintf("%d success returns", n))
		}
		// same voter and same dispute id in the test and in the record (vote.Id is the id the vote was fetched under)
		norm := func(s string) string {
			return strings.ReplaceAll(s, "field:x/dispute/types.Vote.Id(ext:0(call:(cosmossdk.io/collections.Map).Get(field:x/dispute/keeper.Keeper.Votes(field:x/dispute/keeper.msgServer.Keeper(param:0:x/dispute/keeper.msgServer)),", "ID(")
		}
		_ = norm
		okKey := hasKey != "" && setKey != "" && strings.Contains(hasKey, "MsgVote.Voter") && strings.Contains(setKey, "MsgVote.Voter") && strings.Contains(hasKey, "MsgVote.Id") && (strings.Contains(setKey, "MsgVote.Id"))
		r.check(okKey, "VOTE-GUARDS", "(x/dispute/keeper.msgServer).Vote # the record tested and the record written are keyed by the message's id and voter", P.Pos(vh.Pos()), "Has key: "+clip(hasKey, 120)+" ; Set key: "+clip(setKey, 120))
	}
	// a selector's own vote is removed from its reporter's weight
	if sv := need("(x/dispute/keeper.Keeper).SetVoterReporterStake"); sv != nil {
		subs, adds := 0, 0
		for _, cs := range P.CallSitesIn(sv) {
			if cs.Callee == "(x/dispute/keeper.Keeper).SubtractReporterVoteCount" {
				subs++
			}
			if cs.Callee == "(x/dispute/keeper.Keeper).AddReporterVoteCount" {
				adds++
			}
		}
		ps := AnalyzePaths(sv, []Atom{{Name: "reporterVoted", Cond: func(rel *Term) (bool, bool) {
			if rel.Op == "ext:0" && len(rel.Args) == 1 && strings.HasSuffix(rel.Args[0].Op, ".Has") && rel.Has("field:x/dispute/keeper.Keeper.Voter") {
				return true, true
			}
			return false, false
		}}, {Name: "isReporter", Cond: func(rel *Term) (bool, bool) { return rel.Op == "call:bytes.Equal", true }},
			{Name: "subtracted", Event: P.CallEvent(func(c *CallSite) bool { return c.Callee == "(x/dispute/keeper.Keeper).SubtractReporterVoteCount" }, T)},
			{Name: "remembered", Event: P.CallEvent(descIs("coll:x/dispute/keeper.Keeper.ReportersWithDelegatorsVotedBefore.Set"), T)}})
		okAll := true
		det := ""
		for _, ret := range SuccessReturns(sv) {
			// a non-reporter selector whose reporter already voted must have been subtracted; otherwise its tokens are remembered
			if bad := ps.Require(ret, func(v map[string]bool) bool {
				if v["isReporter"] {
					return true
				}
				if v["reporterVoted"] {
					return v["subtracted"]
				}
				return v["remembered"] || !v["reporterVoted"] && !v["subtracted"] && v["remembered"]
			}); len(bad) > 0 {
				// returns before the delegation lookup (no delegation) are fine: they carry no atoms
				for _, b := range bad {
					if strings.Contains(b, "?isReporter") {
						continue
					}
					okAll = false
					det = b
				}
			}
		}
		r.check(okAll && subs == 1 && adds == 3, "VOTE-GUARDS", "(x/dispute/keeper.Keeper).SetVoterReporterStake # a selector's stake counts once: subtracted from a reporter that voted, else remembered for the reporter's later vote", P.Pos(sv.Pos()), fmt.Sprintf("subtract sites %d, add sites %d %s", subs, adds, det))
	}

	// the counters are updated for this dispute with the voter's tokens, and the reporter's own vote excludes what its
	// selectors already voted with
	if sv := need("(x/dispute/keeper.Keeper).SetVoterReporterStake"); sv != nil {
		tmv := NewTermer()
		n := 0
		for _, cs := range P.CallSitesIn(sv) {
			if cs.Callee == "(x/dispute/keeper.Keeper).AddReporterVoteCount" || cs.Callee == "(x/dispute/keeper.Keeper).SubtractReporterVoteCount" {
				n++
				id, amt := tmv.Of(Arg(cs.Instr, 1)), tmv.Of(Arg(cs.Instr, 2))
				ok := id.Op == "param:2:uint64" && amt.Op == "call:(cosmossdk.io/math.Int).Uint64" && (amt.Contains("GetDelegatorTokensAtBlock") || amt.Contains("GetReporterTokensAtBlock"))
				r.check(ok, "VOTE-GUARDS", "(x/dispute/keeper.Keeper).SetVoterReporterStake # "+cs.Method+" is given this dispute's id and the voter's tokens", P.Pos(cs.Pos()), "id: "+id.Brief()+" ; amount: "+clip(amt.String(), 120))
			}
		}
		r.check(n == 4, "VOTE-GUARDS", "(x/dispute/keeper.Keeper).SetVoterReporterStake # four counter updates", P.Pos(sv.Pos()), fmt.Sprint(n))
		lev := &linEval{Atomise: func(t *Term) string {
			switch {
			case t.Op == "ext:0" && t.Contains("GetReporterTokensAtBlock"):
				return "reporterTokens"
			case t.Op == "ext:0" && t.Contains("GetDelegatorTokensAtBlock"):
				return "selectorTokens"
			case t.Op == "phi" && t.Contains("ReportersWithDelegatorsVotedBefore"):
				return "votedBefore"
			}
			return ""
		}}
		okOwn, detOwn := false, ""
		for _, cs := range P.CallSitesIn(sv) {
			if cs.Callee == "(x/dispute/keeper.Keeper).AddReporterVoteCount" {
				amt := Arg(cs.Instr, 2)
				if c, isCall := amt.(*ssa.Call); isCall && len(c.Call.Args) == 1 {
					p := lev.Eval(tmv.Of(c.Call.Args[0])).String()
					if strings.Contains(p, "reporterTokens") {
						okOwn = p == "reporterTokens^1 + -1 * votedBefore^1" || p == "-1 * votedBefore^1 + reporterTokens^1" || p == "reporterTokens^1 - votedBefore^1"
						detOwn = p
					}
				}
			}
			if cs.Desc() == "coll:x/dispute/keeper.Keeper.ReportersWithDelegatorsVotedBefore.Set" {
				p := lev.Eval(tmv.Of(Arg(cs.Instr, 2))).String()
				r.check(p == "selectorTokens^1 + votedBefore^1" || p == "votedBefore^1 + selectorTokens^1", "VOTE-GUARDS", "(x/dispute/keeper.Keeper).SetVoterReporterStake # a selector voting first adds its tokens to what the reporter's later vote leaves out", P.Pos(cs.Pos()), p)
			}
		}
		r.check(okOwn, "VOTE-GUARDS", "(x/dispute/keeper.Keeper).SetVoterReporterStake # the reporter votes with its tokens minus what its selectors voted with before", P.Pos(sv.Pos()), detOwn)
	}
	if vh := need("(x/dispute/keeper.msgServer).Vote"); vh != nil {
		tmv := NewTermer()
		lev := &linEval{Atomise: func(t *Term) string {
			for _, h := range []string{"SetTeamVote", "SetVoterTips", "SetVoterReporterStake", "SetTokenholderVote"} {
				if t.Op == "ext:0" && t.Contains("Keeper)."+h) {
					return h
				}
			}
			return ""
		}}
		n := 0
		for _, b := range vh.Blocks {
			for _, in := range b.Instrs {
				if st, ok := in.(*ssa.Store); ok {
					if fa, ok := st.Addr.(*ssa.FieldAddr); ok && fieldName(fa.X.Type(), fa.Field) == "x/dispute/types.Voter.VoterPower" {
						n++
						p := lev.Eval(tmv.Of(st.Val))
						ok := len(p.terms) == 4
						for _, c := range p.terms {
							if c.Cmp(big.NewRat(1, 1)) != 0 {
								ok = false
							}
						}
						r.check(ok, "VOTE-GUARDS", "(x/dispute/keeper.msgServer).Vote # the recorded voter power is the sum of the four group powers", P.Pos(st.Pos()), p.String())
					}
				}
			}
		}
		r.check(n == 1, "VOTE-GUARDS", "(x/dispute/keeper.msgServer).Vote # one write of the voter power", P.Pos(vh.Pos()), fmt.Sprint(n))
	}
	// ---- TALLY-FORMULA
	checkTallyFormula(r)

	// ---- TALLY-TOTAL
	if ud := need("(x/dispute/keeper.Keeper).UpdateDispute"); ud != nil {
		// params: 0 k,1 ctx,2 id,3 dispute,4 vote,5 support,6 against,7 invalid,8 quorum
		res := func(n string) string { return enumVal(P, "x/dispute/types", "VoteResult_"+n) }
		n, bad := 0, ""
		for s := 0; s < 3; s++ {
			for a := 0; a < 3; a++ {
				for i := 0; i < 3; i++ {
					for _, q := range []bool{true, false} {
						n++
						got := evalDecision(ud, map[int]int{5: s, 6: a, 7: i}, q)
						want := ""
						switch {
						case s > a && s > i:
							want = map[bool]string{true: res("SUPPORT"), false: res("NO_QUORUM_MAJORITY_SUPPORT")}[q]
						case a > s && a > i:
							want = map[bool]string{true: res("AGAINST"), false: res("NO_QUORUM_MAJORITY_AGAINST")}[q]
						case i > s && i > a:
							want = map[bool]string{true: res("INVALID"), false: res("NO_QUORUM_MAJORITY_INVALID")}[q]
						}
						if got == "error" || got == "none" || strings.HasPrefix(got, "undecided") || got == res("NO_TALLY") || got == "fell-off" || got == "loop" {
							bad = fmt.Sprintf("ranks support=%d against=%d invalid=%d quorum=%v: %s", s, a, i, q, got)
						} else if want != "" && got != want {
							bad = fmt.Sprintf("ranks support=%d against=%d invalid=%d quorum=%v: recorded result %s, the strict maximum's class is %s", s, a, i, q, got, want)
						}
					}
				}
			}
		}
		r.check(bad == "", "TALLY-TOTAL", "(x/dispute/keeper.Keeper).UpdateDispute # decided for all orderings of (support, against, invalid) x quorum", P.Pos(ud.Pos()), fmt.Sprintf("%d cases interpreted over the function's CFG; %s", n, bad))
	}

	// ---- EXHAUSTIVE
	for _, name := range []string{"(x/dispute/keeper.Keeper).TallyVote", "x/dispute/keeper.GetSlashPercentageAndJailDuration", "(x/dispute/keeper.Keeper).GetDisputeFee"} {
		if fn := need(name); fn != nil {
			for _, es := range P.EnumSwitches(fn) {
				r.check(len(es.Missing) == 0 || es.ErrDefault, "EXHAUSTIVE", name+" # switch "+es.Tag+" over "+es.TypeName, P.Pos(es.Pos), fmt.Sprintf("covered %d, missing %v, failing default %v", len(es.Covered), es.Missing, es.ErrDefault))
			}
		}
	}

	// ---- FEE-DOUBLING
	if adr := P.Func("(x/dispute/keeper.Keeper).AddDisputeRound"); adr != nil {
		tm := NewTermer()
		le := &linEval{Atomise: func(t *Term) string {
			if strings.HasPrefix(t.Op, "field:x/dispute/types.Dispute.SlashAmount") {
				return "SlashAmount"
			}
			return ""
		}}
		found := false
		for _, f := range withClosures(adr) {
			for _, cs := range P.CallSitesIn(f) {
				if cs.Callee == "(*math/big.Int).Exp" {
					b, e := tm.Of(Arg(cs.Instr, 0)), tm.Of(Arg(cs.Instr, 1))
					found = b.Contains("const:2") && (e.Contains("param:") || e.Contains("freevar"))
				}
			}
		}
		okFive := false
		for _, cs := range P.CallSitesIn(adr) {
			if c, ok := cs.Instr.(*ssa.Call); ok && cs.Callee == "dyn" || strings.Contains(cs.Callee, "AddDisputeRound$") {
				_ = c
				if len(cs.Instr.Common().Args) >= 2 {
					p := le.Eval(tm.Of(cs.Instr.Common().Args[0]))
					if c, m, ok := p.Single(); ok && ratEq(c, 1, 20) && m["SlashAmount"] == 1 {
						okFive = true
					}
					rd := tm.Of(cs.Instr.Common().Args[1])
					if !rd.Has("field:x/dispute/types.Dispute.DisputeRound") {
						okFive = false
					}
				}
			}
		}
		ps := AnalyzePaths(adr, []Atom{{Name: "underpaid", Cond: func(rel *Term) (bool, bool) {
			if rel.Op == "<" && len(rel.Args) == 2 && rel.Args[0].Contains("MsgProposeDispute.Fee") {
				return true, true
			}
			return false, false
		}}})
		okPaid := len(ps.Matched["underpaid"]) > 0
		for _, cs := range P.CallSitesIn(adr) {
			if cs.Callee == "(x/dispute/keeper.Keeper).PayDisputeFee" {
				if bad := ps.Require(cs.Instr, func(v map[string]bool) bool { return !v["underpaid"] }); len(bad) > 0 {
					okPaid = false
				}
			}
		}
		r.check(found && okFive && okPaid, "FEE-DOUBLING", "(x/dispute/keeper.Keeper).AddDisputeRound # round fee = SlashAmount/20 * 2^round, and the offered fee must cover it", P.Pos(adr.Pos()), fmt.Sprintf("2^round factor: %v ; base = 1/20 of the slash amount at the dispute's round: %v ; underpayment rejected before paying: %v", found, okFive, okPaid))
	}
	// ---- the transitions are carried out completely (PERSISTED)
	noTally := "const:" + enumVal(P, "x/dispute/types", "VoteResult_NO_TALLY")
	stVoting := enumVal(P, "x/dispute/types", "Voting")
	stFailed := enumVal(P, "x/dispute/types", "Failed")
	storesStatus := func(in ssa.Instruction, val string) bool {
		return storesConstToField(in, "x/dispute/types.Dispute.DisputeStatus", val)
	}
	// prevote -> voting: the status is set to Voting exactly on the paths that slash the reporter and open the vote,
	// and the dispute is stored afterwards
	for _, name := range []string{"(x/dispute/keeper.Keeper).SetNewDispute", "(x/dispute/keeper.msgServer).AddFeeToDispute"} {
		fn := need(name)
		if fn == nil {
			continue
		}
		votingEv := P.InstrEvent(func(in ssa.Instruction) bool { return storesStatus(in, stVoting) }, T)
		requireAtSuccess(r, "PERSISTED", fn, "status Voting <=> reporter slashed <=> vote opened, and the dispute is stored after that", []Atom{
			{Name: "voting", Event: votingEv},
			{Name: "slashed", Event: P.CallEvent(func(c *CallSite) bool { return c.Callee == "(x/dispute/keeper.Keeper).SlashAndJailReporter" }, T)},
			{Name: "opened", Event: P.CallEvent(func(c *CallSite) bool { return c.Callee == "(x/dispute/keeper.Keeper).SetStartVote" }, T)},
			{Name: "stored", Event: func(in ssa.Instruction) (bool, int8) {
				if m, _ := votingEv(in); m {
					return true, F
				}
				if c, ok := in.(ssa.CallInstruction); ok {
					if cs := P.siteOf(c); cs != nil && cs.Desc() == "coll:x/dispute/keeper.Keeper.Disputes.Set" {
						return true, T
					}
				}
				return false, U
			}},
		}, func(v map[string]bool) bool {
			return v["voting"] == v["slashed"] && v["voting"] == v["opened"] && v["stored"]
		})
	}
	if fn := need("(x/dispute/keeper.Keeper).SetNewDispute"); fn != nil {
		requireAtSuccess(r, "PERSISTED", fn, "a new dispute records the group totals its quorum is measured against", []Atom{
			{Name: "blockInfo", Event: P.CallEvent(func(c *CallSite) bool { return c.Callee == "(x/dispute/keeper.Keeper).SetBlockInfo" }, T)},
		}, func(v map[string]bool) bool { return v["blockInfo"] })
	}
	// the user group's weight is read from the tip totals: a tip that was paid is added to the tipper's total and to the
	// grand total on the same success path
	if fn := need("(x/oracle/keeper.msgServer).Tip"); fn != nil {
		requireAtSuccess(r, "PERSISTED", fn, "a tip that was paid is counted in the tipper's total and in the total tips", []Atom{
			{Name: "paid", Event: P.CallEvent(func(c *CallSite) bool { return c.Callee == "(x/oracle/keeper.Keeper).transfer" }, T)},
			{Name: "tipperTotal", Event: P.CallEvent(func(c *CallSite) bool { return c.Callee == "(x/oracle/keeper.Keeper).AddToTipperTotal" }, T)},
			{Name: "total", Event: P.CallEvent(func(c *CallSite) bool { return c.Callee == "(x/oracle/keeper.Keeper).AddtoTotalTips" }, T)},
		}, func(v map[string]bool) bool { return v["paid"] && v["tipperTotal"] && v["total"] })
	}
	// the block hook: prevote -> failed is stored, and an ended vote without a result is tallied, in the iteration that finds it
	if hook := need("x/dispute.CheckOpenDisputesForExpiration"); hook != nil {
		// the block that is entered when the vote has ended and has no result
		var due *ssa.BasicBlock
		tmh := NewTermer()
		for _, b := range hook.Blocks {
			if iff, ok := b.Instrs[len(b.Instrs)-1].(*ssa.If); ok {
				rel, pol := Cond(tmh.Of(iff.Cond))
				if rel.Op == "==" && len(rel.Args) == 2 && strings.HasPrefix(rel.Args[0].Op, "field:x/dispute/types.Vote.VoteResult") && rel.Args[1].Op == noTally {
					if pol {
						due = b.Succs[0]
					} else {
						due = b.Succs[1]
					}
				}
			}
		}
		heads := map[ssa.Instruction]bool{}
		for _, h := range loopHeaders(hook) {
			if len(h.Instrs) > 0 {
				heads[h.Instrs[0]] = true
			}
		}
		ps := AnalyzePaths(hook, []Atom{
			{Name: "failedPending", Event: func(in ssa.Instruction) (bool, int8) {
				if storesStatus(in, stFailed) {
					return true, T
				}
				if c, ok := in.(ssa.CallInstruction); ok {
					if cs := P.siteOf(c); cs != nil && cs.Desc() == "coll:x/dispute/keeper.Keeper.Disputes.Set" {
						return true, F
					}
				}
				return false, U
			}},
			{Name: "due", Event: func(in ssa.Instruction) (bool, int8) {
				if heads[in] {
					return true, F
				}
				if due != nil && len(due.Instrs) > 0 && in == due.Instrs[0] {
					return true, T
				}
				return false, U
			}},
			{Name: "tallied", Event: func(in ssa.Instruction) (bool, int8) {
				if heads[in] {
					return true, F
				}
				if c, ok := in.(ssa.CallInstruction); ok {
					if cs := P.siteOf(c); cs != nil && cs.Callee == "(x/dispute/keeper.Keeper).TallyVote" {
						return true, T
					}
				}
				return false, U
			}},
		})
		okAll, n, det := true, 0, ""
		phi := func(v map[string]bool) bool { return !v["failedPending"] && (!v["due"] || v["tallied"]) }
		var visitLoop *ssa.BasicBlock
		if due != nil {
			visitLoop = innermostLoopHeader(hook, due)
		}
		for _, h := range loopHeaders(hook) {
			if h != visitLoop {
				continue
			}
			for _, p := range h.Preds {
				if !h.Dominates(p) {
					continue
				}
				n++
				if bad := ps.RequireOnEdge(p, h, phi); len(bad) > 0 {
					okAll, det = false, fmt.Sprint(bad)
				}
			}
		}
		for _, ret := range SuccessReturns(hook) {
			if bad := ps.Require(ret, func(v map[string]bool) bool { return !v["failedPending"] }); len(bad) > 0 {
				okAll, det = false, fmt.Sprint(bad)
			}
		}
		r.check(okAll && n > 0 && due != nil, "PERSISTED", "x/dispute.CheckOpenDisputesForExpiration # each visit stores a dispute it failed and tallies an ended vote that has no result", P.Pos(hook.Pos()), fmt.Sprintf("%d back edges %s", n, det))
		// deadlines: the hook tallies only after the vote end, and fails a prevote dispute only after its end time
		{
			pd := AnalyzePaths(hook, []Atom{
				{Name: "voteEnded", Cond: func(rel *Term) (bool, bool) {
					if rel.Op == "<" && len(rel.Args) == 2 && strings.HasPrefix(rel.Args[0].Op, "field:x/dispute/types.Vote.VoteEnd") && strings.HasSuffix(rel.Args[1].Op, "Context).BlockTime") {
						return true, true
					}
					return false, false
				}},
				{Name: "feeTimeOver", Cond: func(rel *Term) (bool, bool) {
					if rel.Op == "<" && len(rel.Args) == 2 && strings.HasPrefix(rel.Args[0].Op, "field:x/dispute/types.Dispute.DisputeEndTime") && strings.HasSuffix(rel.Args[1].Op, "Context).BlockTime") {
						return true, true
					}
					return false, false
				}},
			})
			okT, okF, nT, nF := true, true, 0, 0
			for _, b := range hook.Blocks {
				for _, in := range b.Instrs {
					if c, ok := in.(ssa.CallInstruction); ok {
						if cs := P.siteOf(c); cs != nil && cs.Callee == "(x/dispute/keeper.Keeper).TallyVote" {
							nT++
							if bad := pd.Require(in, func(v map[string]bool) bool { return v["voteEnded"] }); len(bad) > 0 {
								okT = false
							}
						}
					}
					if storesStatus(in, stFailed) {
						nF++
						if bad := pd.Require(in, func(v map[string]bool) bool { return v["feeTimeOver"] }); len(bad) > 0 {
							okF = false
						}
					}
				}
			}
			r.check(okT && nT == 1 && okF && nF == 1, "PERSISTED", "x/dispute.CheckOpenDisputesForExpiration # tallies only after the vote end, fails a dispute only after its funding time", P.Pos(hook.Pos()), fmt.Sprintf("tally under 'VoteEnd < now': %v ; Failed under 'DisputeEndTime < now': %v", okT, okF))
		}
	}
	// voting -> resolved / unresolved: TallyVote writes only for a vote that has no result yet, and the quorum flag
	// handed to UpdateDispute agrees with the quorum test that was taken
	if tv := need("(x/dispute/keeper.Keeper).TallyVote"); tv != nil {
		le := &linEval{Atomise: func(t *Term) string {
			if t.Op == "global:types.PowerReduction" {
				return "PR"
			}
			return ""
		}}
		ps := AnalyzePaths(tv, []Atom{
			{Name: "untallied", Stable: true, Cond: func(rel *Term) (bool, bool) {
				if rel.Op == "==" && len(rel.Args) == 2 && strings.HasPrefix(rel.Args[0].Op, "field:x/dispute/types.Vote.VoteResult") && rel.Args[1].Op == noTally {
					return true, true
				}
				return false, false
			}},
			{Name: "quorum", Cond: func(rel *Term) (bool, bool) {
				if rel.Op == "<=" && len(rel.Args) == 2 {
					if c, m, ok := le.Eval(rel.Args[0]).Single(); ok && m["PR"] == 1 && len(m) == 1 && ratEq(c, 51, 1) {
						return true, true
					}
				}
				return false, false
			}},
			{Name: "ended", Stable: true, Cond: func(rel *Term) (bool, bool) {
				if rel.Op == "<" && len(rel.Args) == 2 && strings.HasPrefix(rel.Args[0].Op, "field:x/dispute/types.Vote.VoteEnd") && strings.HasSuffix(rel.Args[1].Op, "Context).BlockTime") {
					return true, true
				}
				return false, false
			}},
		})
		nW, okW, okQ, det := 0, true, true, ""
		for _, cs := range P.CallSitesIn(tv) {
			write := cs.Callee == "(x/dispute/keeper.Keeper).UpdateDispute" || cs.Desc() == "coll:x/dispute/keeper.Keeper.Votes.Set" || cs.Desc() == "coll:x/dispute/keeper.Keeper.Disputes.Set"
			if !write {
				continue
			}
			nW++
			if bad := ps.Require(cs.Instr, func(v map[string]bool) bool { return v["untallied"] }); len(bad) > 0 {
				okW, det = false, P.Pos(cs.Pos())+fmt.Sprint(bad)
			}
			withQuorum := cs.Callee == "(x/dispute/keeper.Keeper).UpdateDispute" && NewTermer().Of(Arg(cs.Instr, 7)).Op == "const:true"
			if bad := ps.Require(cs.Instr, func(v map[string]bool) bool {
				if withQuorum {
					return v["quorum"]
				}
				return !v["quorum"] && v["ended"]
			}); len(bad) > 0 {
				okQ, det = false, P.Pos(cs.Pos())+fmt.Sprint(bad)
			}
		}
		r.check(okW && nW >= 4 && len(ps.Matched["untallied"]) > 0, "PERSISTED", "(x/dispute/keeper.Keeper).TallyVote # a result is written only for a vote that has none yet", P.Pos(tv.Pos()), fmt.Sprintf("%d write sites %s", nW, det))
		r.check(okQ && nW >= 4 && len(ps.Matched["quorum"]) == 2 && len(ps.Matched["ended"]) > 0, "PERSISTED", "(x/dispute/keeper.Keeper).TallyVote # 'with quorum' is recorded under a passed quorum test, 'without' only after the vote ended with both tests failed", P.Pos(tv.Pos()), fmt.Sprintf("%d write sites %s", nW, det))
	}
	// zero totals in a group: Ratio divides only by a non-zero total
	if ra := need("x/dispute/keeper.Ratio"); ra != nil {
		ps := AnalyzePaths(ra, []Atom{{Name: "zeroTotal", Stable: true, Cond: func(rel *Term) (bool, bool) {
			if rel.Op == "==" && len(rel.Args) == 2 && rel.Args[0].Op == "param:0:cosmossdk.io/math.Int" && rel.Args[1].Op == "const:0" {
				return true, true
			}
			return false, false
		}}})
		n, okAll := 0, true
		for _, cs := range P.CallSitesIn(ra) {
			if strings.HasSuffix(cs.Callee, "LegacyDec).Quo") || strings.HasSuffix(cs.Callee, "Int).Quo") {
				n++
				if bad := ps.Require(cs.Instr, func(v map[string]bool) bool { return !v["zeroTotal"] }); len(bad) > 0 {
					okAll = false
				}
			}
		}
		r.check(okAll && n >= 1 && len(ps.Matched["zeroTotal"]) > 0, "PERSISTED", "x/dispute/keeper.Ratio # divides only by a non-zero total (a group without weight contributes 0)", P.Pos(ra.Pos()), fmt.Sprintf("%d divisions", n))
	}
	r.minCount("PERSISTED", 8)
	r.minCount("TYPESTATE", 10)
	r.minCount("VOTE-GUARDS", 8)
	r.minCount("TALLY-FORMULA", 8)
}

func checkTallyFormula(r *Result) {
	P := r.P
	tm := NewTermer()
	if ra := P.Func("x/dispute/keeper.Ratio"); ra == nil {
		r.broken("anchor Ratio does not resolve")
	} else {
		r.fn(FuncName(ra))
		n := 0
		for _, ret := range SuccessReturns(ra) {
			p := (&linEval{}).Eval(tm.Of(ResultOf(ret, 0)))
			if p.IsZero() {
				continue
			}
			n++
			c, m, ok := p.Single()
			okShape := ok && ratEq(c, 25, 1) && m["param:1:cosmossdk.io/math.Int"] == 1 && m["param:0:cosmossdk.io/math.Int"] == -1 && m["global:types.PowerReduction"] == 1 && len(m) == 3
			r.check(okShape, "TALLY-FORMULA", "x/dispute/keeper.Ratio # part * PR * 100 / (4 * total)", P.Pos(ret.Pos()), "normal form: "+p.String())
		}
		r.check(n == 1, "TALLY-FORMULA", "x/dispute/keeper.Ratio # one non-zero result", P.Pos(ra.Pos()), fmt.Sprintf("%d", n))
	}
	tv := P.Func("(x/dispute/keeper.Keeper).TallyVote")
	if tv == nil {
		return
	}
	short := func(a string) string {
		// field:x/dispute/types.VoteCounts.Support(field:x/dispute/types.StakeholderVoteCounts.Users(...)) -> Users.Support
		grp, ch := "", ""
		for _, g := range []string{"Users", "Reporters", "Tokenholders", "Team"} {
			if strings.Contains(a, "StakeholderVoteCounts."+g) {
				grp = g
			}
		}
		for _, c := range []string{"Support", "Against", "Invalid"} {
			if strings.HasPrefix(a, "field:x/dispute/types.VoteCounts."+c) {
				ch = c
			}
		}
		if grp != "" && ch != "" {
			return grp + "." + ch
		}
		return ""
	}
	tallyAtom := func(t *Term) string {
		// field:VoterClasses.<G>(field:Tally.<C>(...)) -> G.C with C in Support/Against/Invalid
		if !strings.HasPrefix(t.Op, "field:x/dispute/types.VoterClasses.") || len(t.Args) != 1 {
			return ""
		}
		base := t.Args[0]
		for base.Op == "load" && len(base.Args) == 1 {
			base = base.Args[0]
		}
		if !strings.HasPrefix(base.Op, "field:x/dispute/types.Tally.") {
			return ""
		}
		g := strings.TrimPrefix(t.Op, "field:x/dispute/types.VoterClasses.")
		c := strings.TrimPrefix(base.Op, "field:x/dispute/types.Tally.")
		cm := map[string]string{"ForVotes": "Support", "AgainstVotes": "Against", "Invalid": "Invalid"}[c]
		gm := map[string]string{"Users": "Users", "Reporters": "Reporters", "TokenHolders": "Tokenholders", "Team": "Team"}[g]
		if cm == "" || gm == "" {
			return ""
		}
		return gm + "." + cm
	}
	le := &linEval{Atomise: func(t *Term) string {
		if strings.HasPrefix(t.Op, "field:x/dispute/types.VoteCounts.") {
			return short(t.String())
		}
		if a := tallyAtom(t); a != "" {
			return a
		}
		if t.Op == "global:types.PowerReduction" {
			return "PR"
		}
		return ""
	}}
	// the tally slots are filled from the matching counters of the stored vote counts
	slots := 0
	for _, b := range tv.Blocks {
		for _, in := range b.Instrs {
			st, ok := in.(*ssa.Store)
			if !ok {
				continue
			}
			a := tallyAtom(tm.Of(st.Addr))
			if a == "" || strings.HasPrefix(a, "Team.") {
				continue
			}
			v := tm.Of(st.Val)
			parts := strings.SplitN(a, ".", 2)
			okSrc := v.Contains("VoteCounts."+parts[1]) && v.Contains("StakeholderVoteCounts."+parts[0])
			slots++
			r.check(okSrc, "TALLY-FORMULA", "(x/dispute/keeper.Keeper).TallyVote # tally slot "+a+" is read from the matching stored counter", P.Pos(st.Pos()), "value: "+clip(v.String(), 160))
		}
	}
	r.check(slots == 9, "TALLY-FORMULA", "(x/dispute/keeper.Keeper).TallyVote # nine tally slots filled", P.Pos(tv.Pos()), fmt.Sprintf("%d", slots))
	groupShares := map[string]int{}
	for _, cs := range P.CallSitesIn(tv) {
		if !strings.HasPrefix(cs.Callee, "(cosmossdk.io/math.LegacyDec).Quo") {
			continue
		}
		v, ok := cs.Instr.(ssa.Value)
		if !ok {
			continue
		}
		p := le.Eval(tm.Of(v))
		c, m, single := p.Single()
		if !single {
			continue
		}
		// votes_c * PR / {sum}
		var num, den string
		for a, e := range m {
			switch {
			case e == 1 && strings.Contains(a, ".") && !strings.HasPrefix(a, "{"):
				num = a
			case e == -1 && strings.HasPrefix(a, "{"):
				den = a
			}
		}
		if num == "" || den == "" {
			continue // the /numGroups rescaling etc.
		}
		grp := num[:strings.Index(num, ".")]
		okShape := ratEq(c, 1, 1) && m["PR"] == 1 && len(m) == 3 &&
			strings.Contains(den, grp+".Support") && strings.Contains(den, grp+".Against") && strings.Contains(den, grp+".Invalid") && !strings.Contains(den, "*") && strings.Count(den, " + ") == 2
		groupShares[grp]++
		// the share is rounded to 18 decimals by Quo: complementary shares (1/3 and 2/3 of different groups) add up to the
		// whole; a truncating or upward-rounding division makes that sum one unit short or long after TruncateInt
		okShape = okShape && cs.Callee == "(cosmossdk.io/math.LegacyDec).Quo"
		r.check(okShape, "TALLY-FORMULA", "(x/dispute/keeper.Keeper).TallyVote # "+num+" * PR / (votes of "+grp+")", P.Pos(cs.Pos()), "normal form: "+p.String()+" ; divided with "+cs.Callee[strings.LastIndex(cs.Callee, ".")+1:])
	}
	for _, g := range []string{"Users", "Reporters", "Tokenholders"} {
		r.check(groupShares[g] == 3, "TALLY-FORMULA", "(x/dispute/keeper.Keeper).TallyVote # three shares for group "+g, P.Pos(tv.Pos()), fmt.Sprintf("%d", groupShares[g]))
	}
	// the three results handed to UpdateDispute are the sums of the groups' shares of the matching choice (support with
	// support, against with against, invalid with invalid), plus the team's weight, starting at zero
	{
		nCalls := 0
		for _, cs := range P.CallSitesIn(tv) {
			if cs.Callee != "(x/dispute/keeper.Keeper).UpdateDispute" {
				continue
			}
			nCalls++
			for k, choice := range []string{"Support", "Against", "Invalid"} {
				v := Arg(cs.Instr, 4+k)
				// strip TruncateInt and the common rescaling by the number of groups
				for i := 0; i < 4; i++ {
					c, isCall := v.(*ssa.Call)
					if !isCall {
						break
					}
					n := CalleeName(c.Common())
					if n == "(cosmossdk.io/math.LegacyDec).TruncateInt" || (n == "(cosmossdk.io/math.LegacyDec).Quo" && len(c.Call.Args) == 2 && tm.Of(c.Call.Args[1]).Contains("numGroups")) || n == "(cosmossdk.io/math.LegacyDec).Quo" && len(c.Call.Args) == 2 && !le.Eval(tm.Of(c.Call.Args[1])).IsZero() && strings.Contains(tm.Of(c.Call.Args[1]).String(), "LegacyNewDecFromInt") {
						v = c.Call.Args[0]
						continue
					}
					break
				}
				adds, bases := decSumWeb(v)
				okSum, det := len(adds) >= 2, fmt.Sprintf("%d addends", len(adds))
				for _, b := range bases {
					if b.Op != "call:cosmossdk.io/math.LegacyZeroDec" && b.Op != "call:cosmossdk.io/math.LegacyNewDecFromInt" {
						okSum, det = false, "the sum does not start at zero: "+b.Brief()
					}
				}
				shares := 0
				for _, a := range adds {
					p := le.Eval(tm.Of(a))
					_, m, single := p.Single()
					if !single {
						okSum, det = false, "an addend is not a single share: "+clip(p.String(), 80)
						continue
					}
					num := ""
					for at, e := range m {
						if e == 1 && strings.Contains(at, ".") && !strings.HasPrefix(at, "{") {
							num = at
						}
					}
					switch {
					case num == "" && len(m) == 1 && m["PR"] == 1:
						// the team's weight
					case strings.HasSuffix(num, "."+choice):
						shares++
					default:
						okSum, det = false, "an addend of the "+choice+" result is the share "+num
					}
				}
				if shares < 2 {
					okSum = false
					det += fmt.Sprintf(" ; %d group shares", shares)
				}
				r.check(okSum, "TALLY-FORMULA", "(x/dispute/keeper.Keeper).TallyVote # the "+choice+" result handed to UpdateDispute sums the groups' "+choice+" shares", P.Pos(cs.Pos()), det)
			}
		}
		r.check(nCalls == 3, "TALLY-FORMULA", "(x/dispute/keeper.Keeper).TallyVote # three UpdateDispute sites (quorum before / after the holders, no quorum)", P.Pos(tv.Pos()), fmt.Sprint(nCalls))
	}
	// totals near 2^64: a group's three counters are uint64, their sum is formed in math.Int (each counter converted
	// on its own), never in uint64 arithmetic where it would wrap
	{
		n, okAll, det := 0, true, ""
		for _, cs := range P.CallSitesIn(tv) {
			if cs.Callee != "x/dispute/keeper.Ratio" {
				continue
			}
			n++
			var leavesOK func(v ssa.Value, depth int) bool
			leavesOK = func(v ssa.Value, depth int) bool {
				if depth > 8 {
					return false
				}
				c, ok := v.(*ssa.Call)
				if !ok {
					if ld, isLoad := v.(*ssa.UnOp); isLoad && ld.Op == token.MUL {
						// a tally slot: filled by NewIntFromUint64(counter) (TALLY-FORMULA slot obligations)
						return strings.Contains(tm.Of(v).String(), "NewIntFromUint64") || strings.Contains(tm.Of(v).Op, "field:")
					}
					return false
				}
				switch CalleeName(c.Common()) {
				case "(cosmossdk.io/math.Int).Add":
					return leavesOK(c.Call.Args[0], depth+1) && leavesOK(c.Call.Args[1], depth+1)
				case "cosmossdk.io/math.NewIntFromUint64":
					_, isBin := c.Call.Args[0].(*ssa.BinOp)
					_, isCall := c.Call.Args[0].(*ssa.Call)
					return !isBin && !isCall
				}
				return false
			}
			if !leavesOK(Arg(cs.Instr, 1), 0) {
				okAll, det = false, P.Pos(cs.Pos())+": "+clip(tm.Of(Arg(cs.Instr, 1)).String(), 140)
			}
		}
		r.check(okAll && n == 3, "TALLY-FORMULA", "(x/dispute/keeper.Keeper).TallyVote # each group's vote sum is formed in math.Int from separately converted counters (no uint64 addition that could wrap near 2^64)", P.Pos(tv.Pos()), fmt.Sprintf("%d group sums %s", n, det))
	}
	// the participation ratio is the sum of the groups' ratios (and the team's 25 * PR), starting at zero
	{
		var quorumArg ssa.Value
		for _, b := range tv.Blocks {
			if iff, ok := b.Instrs[len(b.Instrs)-1].(*ssa.If); ok {
				if c, isCall := iff.Cond.(*ssa.Call); isCall && CalleeName(c.Common()) == "(cosmossdk.io/math.Int).GTE" && tm.Of(c.Call.Args[1]).Contains("const:51") {
					quorumArg = c.Call.Args[0]
				}
			}
		}
		okR, det := false, "quorum comparison not found"
		if quorumArg != nil {
			adds, bases := sumWeb(quorumArg)
			nRatio, other := 0, 0
			for _, a := range adds {
				switch {
				case a.Op == "call:x/dispute/keeper.Ratio":
					nRatio++
				case a.Contains("const:25"):
				default:
					other++
				}
			}
			okBase := len(bases) == 1 && bases[0].Op == "call:cosmossdk.io/math.ZeroInt"
			okR = nRatio == 3 && other == 0 && okBase
			det = fmt.Sprintf("%d group ratios, %d other addends, starts at zero: %v", nRatio, other, okBase)
		}
		r.check(okR, "TALLY-FORMULA", "(x/dispute/keeper.Keeper).TallyVote # the ratio compared with the quorum is the sum of the three group ratios and the team's 25 * PR", P.Pos(tv.Pos()), det)
	}
	// quorum constant and team weights
	q := 0
	for _, b := range tv.Blocks {
		if iff, ok := b.Instrs[len(b.Instrs)-1].(*ssa.If); ok {
			rel, _ := Cond(tm.Of(iff.Cond))
			if rel.Op == "<=" && len(rel.Args) == 2 {
				p := le.Eval(rel.Args[0])
				if c, m, ok := p.Single(); ok && m["PR"] == 1 && len(m) == 1 {
					q++
					r.check(ratEq(c, 51, 1), "TALLY-FORMULA", "(x/dispute/keeper.Keeper).TallyVote # quorum threshold 51 * PR", P.Pos(iff.Pos()), "threshold: "+p.String())
				}
			}
		}
	}
	r.check(q == 2, "TALLY-FORMULA", "(x/dispute/keeper.Keeper).TallyVote # two quorum tests (before and after the token-holder group)", P.Pos(tv.Pos()), fmt.Sprintf("%d", q))
	team25, teamPR := 0, 0
	for _, cs := range P.CallSitesIn(tv) {
		if cs.Callee == "(cosmossdk.io/math.Int).Add" {
			a := le.Eval(tm.Of(Arg(cs.Instr, 0)))
			if c, m, ok := a.Single(); ok && m["PR"] == 1 && len(m) == 1 {
				if ratEq(c, 25, 1) {
					team25++
				}
				if ratEq(c, 1, 1) {
					teamPR++
				}
			}
		}
	}
	r.check(team25 == 1 && teamPR == 3, "TALLY-FORMULA", "(x/dispute/keeper.Keeper).TallyVote # team adds PR to its choice (3 arms) and 25*PR to the ratio", P.Pos(tv.Pos()), fmt.Sprintf("25*PR additions: %d ; PR additions: %d", team25, teamPR))
	// group totals come from the dispute's BlockInfo snapshot / the current supply
	for _, cs := range P.CallSitesIn(tv) {
		if cs.Callee == "x/dispute/keeper.Ratio" {
			tot := tm.Of(cs.Instr.Common().Args[0])
			ok := (strings.HasPrefix(tot.Op, "field:x/dispute/types.BlockInfo.") && tot.Has("field:x/dispute/types.Dispute.HashId")) || tot.Op == "call:(x/dispute/keeper.Keeper).GetTotalSupply"
			r.check(ok, "TALLY-FORMULA", "(x/dispute/keeper.Keeper).TallyVote # Ratio total from the dispute's block-info snapshot or the current supply", P.Pos(cs.Pos()), "total: "+clip(tot.String(), 160))
		}
	}
}
