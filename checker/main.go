package main

// verifcheck — static decision of structural clauses of the given properties of
// tellor-io/layer. Usage:
//
//	verifcheck <ID> <quick|thorough> [--repo DIR] [--verif DIR] [--overlay FILE.json] [--replay FILE] [--dump]
//
// Every run loads and type-checks the repository's current working tree.

import (
	"encoding/json"
	"fmt"
	"os"
	"runtime/debug"
	"sort"
	"strconv"
	"strings"
	"time"
)

type ruleFunc func(r *Result)

var registry = map[string]ruleFunc{}

func register(id string, f ruleFunc) { registry[id] = f }

type overlayEdit struct {
	File string `json:"file"` // relative to repo root
	Old  string `json:"old"`
	New  string `json:"new"`
}

type mutantSpec struct {
	Name     string        `json:"name"`
	Property string        `json:"property"`
	Expect   string        `json:"expect"` // substring of the obligation key that must be reported as violation
	Edits    []overlayEdit `json:"edits"`
	Why      string        `json:"why"`
}

func buildOverlay(repo string, edits []overlayEdit) (map[string][]byte, error) {
	ov := map[string][]byte{}
	for _, e := range edits {
		path := repo + "/" + e.File
		src, ok := ov[path]
		if !ok {
			b, err := os.ReadFile(path)
			if err != nil {
				return nil, err
			}
			src = b
		}
		if strings.Count(string(src), e.Old) != 1 {
			return nil, fmt.Errorf("edit anchor occurs %d times in %s (need exactly 1)", strings.Count(string(src), e.Old), e.File)
		}
		ov[path] = []byte(strings.Replace(string(src), e.Old, e.New, 1))
	}
	return ov, nil
}

func main() {
	t0 := time.Now()
	if len(os.Args) < 3 {
		fmt.Println("usage: verifcheck <ID> <quick|thorough> [--repo DIR] [--verif DIR] [--overlay FILE] [--replay FILE]")
		os.Exit(2)
	}
	id, tier := os.Args[1], os.Args[2]
	repo, verif, overlayFile, replay := "/repo", "/verif", "", ""
	mutantMode := false
	for i := 3; i < len(os.Args); i++ {
		switch os.Args[i] {
		case "--repo":
			i++
			repo = os.Args[i]
		case "--verif":
			i++
			verif = os.Args[i]
		case "--overlay":
			i++
			overlayFile = os.Args[i]
		case "--replay":
			i++
			replay = os.Args[i]
		case "--mutant":
			mutantMode = true
		}
	}
	seed := 0
	if s := os.Getenv("VERIF_SEED"); s != "" {
		seed, _ = strconv.Atoi(s)
	}
	f, ok := registry[id]
	if !ok && id != "ALL" && id != "STALE" {
		fmt.Printf("CHECK-BROKEN unknown property %s\n", id)
		os.Exit(2)
	}
	var overlay map[string][]byte
	var spec mutantSpec
	if overlayFile != "" {
		b, err := os.ReadFile(overlayFile)
		if err != nil {
			fmt.Println("CHECK-BROKEN", err)
			os.Exit(2)
		}
		if err := json.Unmarshal(b, &spec); err != nil {
			fmt.Println("CHECK-BROKEN", err)
			os.Exit(2)
		}
		overlay, err = buildOverlay(repo, spec.Edits)
		if err != nil {
			fmt.Println("MUTANT-SKIPPED", spec.Name, err)
			os.Exit(3)
		}
	}
	P, err := Load(repo, overlay)
	if err != nil {
		if mutantMode {
			fmt.Println("MUTANT-INVALID", spec.Name, err)
			os.Exit(4)
		}
		fmt.Printf("CHECK-BROKEN property=%s load failed: %v\n", id, err)
		os.Exit(2)
	}
	if id == "STALE" {
		staleDebug(P)
		os.Exit(0)
	}
	if id == "ALL" {
		// documentation aid (tools/seed_matrix.py): every check on one loaded program, one summary line per check;
		// no registered command uses it
		var ids []string
		for k := range registry {
			if strings.HasPrefix(k, "C") {
				ids = append(ids, k)
			}
		}
		sort.Strings(ids)
		for _, k := range ids {
			rk := NewResult(k, P)
			func() {
				defer func() {
					if e := recover(); e != nil {
						rk.broken("engine panic: %v\n%s", e, debug.Stack())
					}
				}()
				registry[k](rk)
			}()
			if overlayFile == "" {
				checkReviewedCounts(rk, k)
			}
			code := rk.Finish(verif, tier, seed, time.Now(), map[string]any{"load_s": 0.0})
			fmt.Printf("ALL-RESULT %s exit=%d\n", k, code)
		}
		os.Exit(0)
	}
	r := NewResult(id, P)
	func() {
		defer func() {
			if e := recover(); e != nil {
				r.broken("engine panic: %v\n%s", e, debug.Stack())
			}
		}()
		f(r)
	}()
	if mutantMode && spec.Expect == "SILENT" {
		// behaviour-preserving variant: nothing may fire beyond the recorded known findings, nothing may break
		known := map[string]bool{}
		if fs, err := loadFindings(verif); err == nil {
			for _, f := range fs {
				if f.Property == id && f.Status == "known" {
					known[f.Key] = true
				}
			}
		}
		var fired []string
		for _, o := range r.Obs {
			if o.Status == "violation" && !known[o.Key] {
				fired = append(fired, o.Key)
			}
		}
		sort.Strings(fired)
		if len(fired) == 0 && len(r.Broken) == 0 {
			fmt.Printf("MUTANT-SILENT %s\n", spec.Name)
			os.Exit(0)
		}
		fmt.Printf("MUTANT-FALSE-ALARM %s fired=%v broken=%v\n", spec.Name, fired, r.Broken)
		os.Exit(6)
	}
	if mutantMode {
		// self-test mode: report whether the expected obligation fired; never writes evidence
		hit := false
		var fired []string
		for _, o := range r.Obs {
			if o.Status == "violation" {
				fired = append(fired, o.Key)
				if strings.Contains(o.Key, spec.Expect) {
					hit = true
				}
			}
		}
		sort.Strings(fired)
		if hit {
			fmt.Printf("MUTANT-DETECTED %s expect=%q fired=%d\n", spec.Name, spec.Expect, len(fired))
			os.Exit(0)
		}
		fmt.Printf("MUTANT-MISSED %s expect=%q fired=%v broken=%v\n", spec.Name, spec.Expect, fired, r.Broken)
		os.Exit(5)
	}
	if overlayFile == "" {
		checkReviewedCounts(r, id)
	}
	if replay != "" {
		b, err := os.ReadFile(replay)
		if err == nil {
			var rec struct {
				Obligation Ob `json:"obligation"`
			}
			json.Unmarshal(b, &rec)
			for _, o := range r.Obs {
				if o.Key == rec.Obligation.Key {
					fmt.Printf("REPLAY %s: status now %s\n  at %s\n  %s\n", o.Key, o.Status, o.Where, o.Detail)
				}
			}
		}
	}
	extra := map[string]any{"load_s": 0.0}
	if tier == "thorough" {
		extra = runThorough(r, id, repo, verif)
	}
	os.Exit(r.Finish(verif, tier, seed, t0, extra))
}

// checkReviewedCounts: an obligation that disappears together with the construct it was attached to must not pass silently.
func checkReviewedCounts(r *Result, id string) {
	got := map[string]int{}
	for _, o := range r.Obs {
		got[o.Rule]++
	}
	var rules []string
	for rule := range reviewedCounts[id] {
		rules = append(rules, rule)
	}
	sort.Strings(rules)
	// census rules enumerate hazards (failure origins, map ranges, debit sinks): fewer of them is not a loss
	census := map[string]bool{"FAIL-DIV": true, "FAIL-ERR": true, "FAIL-INDEX": true, "FAIL-PANIC": true, "DET-API": true, "DET-MAPRANGE": true, "DET-SORT": true, "VOTEEXT-FAIL": true, "SIGNER-FRAME": true, "LOST-UPDATE": true}
	for _, rule := range rules {
		if census[rule] {
			continue
		}
		if got[rule] < reviewedCounts[id][rule] {
			r.broken("rule %s produced %d obligations, %d were reviewed on the last reviewed tree: a construct an obligation was attached to is gone or moved; re-review it and refresh tools/gen_counts.py", rule, got[rule], reviewedCounts[id][rule])
		}
	}
}
