package main

// C05 — the staked-token ledger is always backed by the staking pools
// (pairing of staking-ledger mutations with pool transfers).

import (
	"fmt"
	"go/token"
	"sort"
	"strings"

	"golang.org/x/tools/go/ssa"
)

func init() { register("C05", checkC05) }

func checkC05(r *Result) {
	P := r.P
	defer checkLostUpdates(r, "C05")
	r.Explanation = "Pairing rules between the two ledgers the repository mutates outside x/staking's own messages, decided on SSA: the only callers of the staking keeper's Delegate / Unbond / SetUnbondingDelegation / RemoveUnbondingDelegation are the known sites in x/reporter/keeper; every Delegate(..., subtractAccount=false) is paired, in its handler or its unique caller chain in the dispute module, with a module-to-pool transfer of the same amount value into the pool that agrees with the tokenSrc argument (tokenSrc Bonded with the bonded pool; a validator-status tokenSrc only under the path fact that the validator is bonded); every Unbond is followed by a pool-to-dispute transfer of the amount Unbond returned, out of the pool chosen from the validator's status; the direct edit of unbonding entries moves exactly the accumulated removed amount out of the not-bonded pool; and the per-backer fee record stores the amounts Unbond returned and their sum."
	r.NotDecided = "pool balance >= ledger total over all histories, positive shares, x/staking's own invariants, rounding between shares and tokens"
	r.Assumptions = []string{"x/staking Delegate with subtractAccount=false moves tokens between pools exactly as its tokenSrc / validator-status table says", "x/bank module-to-module sends move exactly the coins given"}
	r.rule("CENSUS-STAKING", "the staking ledger is mutated only at the known sites of x/reporter/keeper")
	r.rule("PAIR-DELEGATE", "a Delegate without account subtraction is paired with a transfer of the same amount into the pool matching its token source")
	r.rule("HOOK-ATOMIC", "a state-writing step that fails inside a block hook aborts the hook: partial writes are never committed")
	r.rule("PAIR-UNBOND", "the amount moved to the dispute escrow is the amount Unbond returned, out of the pool matching the validator's status")
	r.rule("FRESH-VALIDATOR", "the validator value handed to Delegate is a store read of the same loop iteration (Delegate writes the value back)")
	r.rule("POSITIVE-DELEGATE", "no Delegate with a zero amount (it would create a delegation without shares)")
	r.rule("SHARE-OF-MOVED", "what is delegated back per recorded entry is the entry's amount or amount*moved/total, truncated — never more than the pool received")
	r.rule("RECORD-EQUALS-TAKEN", "per-backer records store the amounts actually taken and their sum")

	need := func(name string) *ssa.Function {
		f := P.Func(name)
		if f == nil {
			r.broken("anchor %s does not resolve", name)
		} else {
			r.fn(name)
		}
		return f
	}
	tm := NewTermer()
	// ---- CENSUS-STAKING
	methods := map[string]bool{"Delegate": true, "Unbond": true, "SetUnbondingDelegation": true, "RemoveUnbondingDelegation": true, "Undelegate": true, "SetDelegation": true, "RemoveDelegation": true, "BeginRedelegation": true, "SetValidator": true}
	want := map[string]int{
		"(x/reporter/keeper.Keeper).ReturnSlashedTokens|Delegate": 1, "(x/reporter/keeper.Keeper).FeeRefund|Delegate": 1, "(x/reporter/keeper.Keeper).AddAmountToStake|Delegate": 1, "(x/reporter/keeper.msgServer).WithdrawTip|Delegate": 1,
		"(x/reporter/keeper.Keeper).FeefromReporterStake|Unbond": 2, "(x/reporter/keeper.Keeper).deductFromdelegation|Unbond": 1,
		"(x/reporter/keeper.Keeper).deductUnbondingDelegation|SetUnbondingDelegation": 1, "(x/reporter/keeper.Keeper).deductUnbondingDelegation|RemoveUnbondingDelegation": 1,
	}
	got := map[string]int{}
	for _, s := range P.Sites(func(c *CallSite) bool {
		return methods[c.Method] && strings.HasPrefix(c.Callee, "iface:") && strings.Contains(c.Callee, "StakingKeeper")
	}) {
		got[FuncName(TopFunc(s.Fn))+"|"+s.Method] += Multiplicity(s.Fn)
	}
	var ks []string
	for k := range got {
		ks = append(ks, k)
	}
	for k := range want {
		if _, ok := got[k]; !ok {
			ks = append(ks, k)
		}
	}
	sort.Strings(ks)
	for _, k := range ks {
		r.check(got[k] == want[k], "CENSUS-STAKING", k, "-", fmt.Sprintf("%d call sites, %d in the reviewed table", got[k], want[k]))
	}

	poolOf := func(v ssa.Value) string {
		t := tm.Of(v)
		if strings.HasPrefix(t.Op, "const:") {
			return strings.TrimPrefix(t.Op, "const:")
		}
		return t.Brief()
	}
	isDelegate := func(c *CallSite) bool { return c.Method == "Delegate" && strings.Contains(c.Callee, "StakingKeeper") }
	bondedConst := "const:" + enumConstVal(P, "github.com/cosmos/cosmos-sdk/x/staking/types", "Bonded")

	// ---- PAIR-DELEGATE
	// (a) WithdrawTip: same handler
	if wt := need("(x/reporter/keeper.msgServer).WithdrawTip"); wt != nil {
		ps := AnalyzePaths(wt, []Atom{{Name: "bonded", Cond: func(rel *Term) (bool, bool) {
			if rel.Op == "call:(github.com/cosmos/cosmos-sdk/x/staking/types.Validator).IsBonded" {
				return true, true
			}
			// IsBonded() spelled out: Status == Bonded
			if rel.Op == "==" && len(rel.Args) == 2 {
				a, c := rel.Args[0], rel.Args[1]
				if strings.HasPrefix(a.Op, "const:") {
					a, c = c, a
				}
				if strings.HasSuffix(a.Op, "staking/types.Validator.Status") && c.Op == bondedConst {
					return true, true
				}
			}
			return false, true
		}}, {Name: "delegated", Event: P.CallEvent(isDelegate, T)},
			{Name: "moved", Event: P.CallEvent(func(c *CallSite) bool { return isBankCall(c, "SendCoinsFromModuleToModule") }, T)}})
		var delAmt, sendAmt, sendTo, sendFrom string
		for _, cs := range P.CallSitesIn(wt) {
			if isDelegate(cs) {
				delAmt = coinsAmount(Arg(cs.Instr, 2)).String()
				src := tm.Of(Arg(cs.Instr, 3))
				bad := ps.Require(cs.Instr, func(v map[string]bool) bool { return v["bonded"] })
				okSrc := src.Op == bondedConst || (strings.HasSuffix(src.Op, "Validator.Status") && len(bad) == 0 && len(ps.Matched["bonded"]) > 0)
				r.check(okSrc, "PAIR-DELEGATE", "(x/reporter/keeper.msgServer).WithdrawTip # token source is bonded (constant, or the status of a validator proven bonded)", P.Pos(cs.Pos()), fmt.Sprintf("tokenSrc %s ; IsBonded facts at the call: %v", src.Brief(), statesStr(ps, cs.Instr)))
				sub := tm.Of(Arg(cs.Instr, 5))
				r.check(sub.Op == "const:false", "PAIR-DELEGATE", "(x/reporter/keeper.msgServer).WithdrawTip # delegate without subtracting from the account", P.Pos(cs.Pos()), sub.Op)
			}
			if isBankCall(cs, "SendCoinsFromModuleToModule") {
				sendAmt = coinsAmount(Arg(cs.Instr, 3)).String()
				sendFrom, sendTo = poolOf(Arg(cs.Instr, 1)), poolOf(Arg(cs.Instr, 2))
			}
		}
		r.check(delAmt != "" && delAmt == sendAmt && sendTo == "bonded_tokens_pool" && sendFrom == "tips_escrow_pool", "PAIR-DELEGATE", "(x/reporter/keeper.msgServer).WithdrawTip # delegated amount == amount moved tips escrow -> bonded pool", P.Pos(wt.Pos()), fmt.Sprintf("delegated %s ; moved %s from %s to %s", delAmt, sendAmt, sendFrom, sendTo))
		okAll := true
		for _, ret := range SuccessReturns(wt) {
			if bad := ps.Require(ret, func(v map[string]bool) bool { return v["delegated"] == v["moved"] }); len(bad) > 0 {
				okAll = false
			}
		}
		r.check(okAll, "PAIR-DELEGATE", "(x/reporter/keeper.msgServer).WithdrawTip # delegate and pool transfer happen together on success", P.Pos(wt.Pos()), "")
	}
	// (b) delegations made on behalf of the dispute module: tokenSrc must be the Bonded constant and the unique caller transfers the same amount to the bonded pool
	type pair struct{ repFn, dispFn, dispCallee string }
	for _, p := range []pair{
		{"(x/reporter/keeper.Keeper).ReturnSlashedTokens", "(x/dispute/keeper.Keeper).ReturnSlashedTokens", "ReporterKeeper.ReturnSlashedTokens"},
		{"(x/reporter/keeper.Keeper).FeeRefund", "(x/dispute/keeper.Keeper).ReturnFeetoStake", "ReporterKeeper.FeeRefund"},
		{"(x/reporter/keeper.Keeper).AddAmountToStake", "(x/dispute/keeper.Keeper).RewardReporterBondToFeePayers", "ReporterKeeper.AddAmountToStake"},
	} {
		rf, df := need(p.repFn), need(p.dispFn)
		if rf == nil || df == nil {
			continue
		}
		for _, cs := range P.CallSitesIn(rf) {
			if isDelegate(cs) {
				src := tm.Of(Arg(cs.Instr, 3))
				sub := tm.Of(Arg(cs.Instr, 5))
				r.check(src.Op == bondedConst && sub.Op == "const:false", "PAIR-DELEGATE", p.repFn+" # tokenSrc = Bonded (the dispute module pays the bonded pool), no account subtraction", P.Pos(cs.Pos()), "tokenSrc "+src.Brief()+" ; subtractAccount "+sub.Op)
			}
		}
		// the amount delegated per recorded entry is that entry's share of the amount the caller moved
		if p.repFn != "(x/reporter/keeper.Keeper).AddAmountToStake" {
			for _, cs := range P.CallSitesIn(rf) {
				if !isDelegate(cs) {
					continue
				}
				var forms []string
				var collect func(v ssa.Value, d int, down bool)
				collect = func(v ssa.Value, d int, down bool) {
					if ph, ok := v.(*ssa.Phi); ok && d < 4 {
						for _, e := range ph.Edges {
							collect(e, d+1, down)
						}
						return
					}
					if c, ok := v.(*ssa.Call); ok && d < 4 && CalleeName(c.Common()) == "(cosmossdk.io/math.LegacyDec).TruncateInt" {
						// the fraction is rounded down as a whole: the entries' amounts add up to at most the amount moved
						collect(c.Call.Args[0], d+1, true)
						return
					}
					f := shareForm(linOf(v))
					if f == "amount*moved/total" && !down {
						// equal to the entry's fraction as a rational, but not the whole fraction rounded down (e.g. amount minus
						// a truncated deduction rounds the share up): the entries can add up to more than was moved into the pool
						f = "other: the fraction is not rounded down as a whole: " + clip(NewTermer().Of(v).String(), 120)
					}
					forms = append(forms, f)
				}
				collect(Arg(cs.Instr, 2), 0, false)
				sort.Strings(forms)
				wantForms := "[amount*moved/total]"
				if p.repFn == "(x/reporter/keeper.Keeper).ReturnSlashedTokens" {
					wantForms = "[amount amount*moved/total]"
				}
				r.check(fmt.Sprint(forms) == wantForms, "SHARE-OF-MOVED", p.repFn+" # each entry gets back its recorded amount, or its recorded fraction of the amount moved", P.Pos(cs.Pos()), fmt.Sprint(forms))
			}
		} else {
			for _, cs := range P.CallSitesIn(rf) {
				if isDelegate(cs) {
					a := tm.Of(Arg(cs.Instr, 2))
					r.check(a.Op == "param:3:cosmossdk.io/math.Int", "SHARE-OF-MOVED", p.repFn+" # delegates the amount it was given", P.Pos(cs.Pos()), a.Brief())
				}
			}
		}
		// unique caller in the dispute module
		var callers []string
		for _, c := range P.callers[rf] {
			callers = append(callers, FuncName(TopFunc(c)))
		}
		r.check(len(callers) == 1 && callers[0] == p.dispFn, "PAIR-DELEGATE", p.repFn+" # called only from "+p.dispFn, "-", fmt.Sprint(callers))
		var passed, moved, to, from string
		ps := AnalyzePaths(df, []Atom{{Name: "restaked", Event: P.CallEvent(func(c *CallSite) bool { return strings.HasSuffix(c.Callee, p.dispCallee) }, T)},
			{Name: "moved", Event: P.CallEvent(func(c *CallSite) bool { return isBankCall(c, "SendCoinsFromModuleToModule") }, T)}})
		for _, cs := range P.CallSitesIn(df) {
			if strings.HasSuffix(cs.Callee, p.dispCallee) {
				idx := 1
				if strings.HasSuffix(p.dispCallee, "FeeRefund") || strings.HasSuffix(p.dispCallee, "AddAmountToStake") {
					idx = 2
				}
				passed = coinsAmount(Arg(cs.Instr, idx)).String()
			}
			if isBankCall(cs, "SendCoinsFromModuleToModule") {
				moved = coinsAmount(Arg(cs.Instr, 3)).String()
				from, to = poolOf(Arg(cs.Instr, 1)), poolOf(Arg(cs.Instr, 2))
			}
		}
		okAll := true
		for _, ret := range SuccessReturns(df) {
			if bad := ps.Require(ret, func(v map[string]bool) bool { return v["restaked"] == v["moved"] }); len(bad) > 0 {
				okAll = false
			}
		}
		r.check(passed != "" && passed == moved && to == "bonded_tokens_pool" && from == "dispute" && okAll, "PAIR-DELEGATE", p.dispFn+" # amount re-staked == amount moved dispute -> bonded pool, together", P.Pos(df.Pos()), fmt.Sprintf("re-staked %s ; moved %s from %s to %s", clip(passed, 100), clip(moved, 100), from, to))
	}

	// ---- FRESH-VALIDATOR: x/staking Delegate writes the validator value it is given back to the store, so
	// the value must have been read after the last change of that validator: in a loop, in this iteration
	for _, name := range []string{"(x/reporter/keeper.Keeper).ReturnSlashedTokens", "(x/reporter/keeper.Keeper).FeeRefund", "(x/reporter/keeper.Keeper).AddAmountToStake", "(x/reporter/keeper.msgServer).WithdrawTip"} {
		fn := P.Func(name)
		if fn == nil {
			continue
		}
		for _, cs := range P.CallSitesIn(fn) {
			if !isDelegate(cs) || cs.Fn != fn {
				continue
			}
			leaves, odd := validatorSources(Arg(cs.Instr, 4))
			// a value that reaches the call through a phi at a loop header was produced in an earlier iteration
			{
				seenV := map[ssa.Value]bool{}
				var carried func(x ssa.Value, d int) bool
				carried = func(x ssa.Value, d int) bool {
					if x == nil || seenV[x] || d > 14 {
						return false
					}
					seenV[x] = true
					switch y := x.(type) {
					case *ssa.Phi:
						for _, lh := range loopHeaders(fn) {
							if y.Block() == lh && lh.Dominates(cs.Instr.Block()) && inLoop(fn, cs.Instr.Block()) {
								return true
							}
						}
						for _, e := range y.Edges {
							if carried(e, d+1) {
								return true
							}
						}
					case *ssa.Extract:
						return carried(y.Tuple, d+1)
					case *ssa.UnOp:
						return carried(y.X, d+1)
					case *ssa.IndexAddr:
						return carried(y.X, d+1)
					case *ssa.Index:
						return carried(y.X, d+1)
					case *ssa.FieldAddr:
						return carried(y.X, d+1)
					case *ssa.Alloc:
						for _, ref := range *y.Referrers() {
							if st, ok := ref.(*ssa.Store); ok && st.Addr == ssa.Value(y) && carried(st.Val, d+1) {
								return true
							}
						}
					}
					return false
				}
				if carried(Arg(cs.Instr, 4), 0) {
					odd = append(odd, "the value can come from an earlier iteration (loop-carried)")
				}
			}
			var h *ssa.BasicBlock
			for _, c := range loopHeaders(fn) {
				if c.Dominates(cs.Instr.Block()) && inLoop(fn, cs.Instr.Block()) && (h == nil || h.Dominates(c)) {
					h = c
				}
			}
			ok := len(leaves) > 0 && len(odd) == 0
			var descs []string
			for _, l := range leaves {
				cn := CalleeName(l.Common())
				direct := strings.HasSuffix(cn, "StakingKeeper.GetValidator") || cn == "(x/reporter/keeper.Keeper).GetBondedValidators"
				inIter := h == nil || (h.Dominates(l.Block()) && inLoop(fn, l.Block()))
				descs = append(descs, fmt.Sprintf("%s (read in this iteration: %v)", short(cn), inIter))
				if !direct || !inIter {
					ok = false
				}
			}
			sort.Strings(descs)
			r.check(ok, "FRESH-VALIDATOR", name+" # the validator handed to Delegate was read from the staking store in the same iteration", P.Pos(cs.Pos()), fmt.Sprintf("sources: %v ; other: %v", descs, odd))
		}
	}
	// ---- POSITIVE-DELEGATE: Delegate with a zero amount creates a delegation record without shares; every
	// Delegate is reached only with the amount known to be non-zero
	for _, name := range []string{"(x/reporter/keeper.Keeper).ReturnSlashedTokens", "(x/reporter/keeper.Keeper).FeeRefund", "(x/reporter/keeper.Keeper).AddAmountToStake", "(x/reporter/keeper.msgServer).WithdrawTip"} {
		fn := P.Func(name)
		if fn == nil {
			continue
		}
		for _, cs := range P.CallSitesIn(fn) {
			if !isDelegate(cs) || cs.Fn != fn {
				continue
			}
			amt := tm.Of(Arg(cs.Instr, 2)).String()
			ps := AnalyzePaths(fn, []Atom{{Name: "zero", Cond: func(rel *Term) (bool, bool) {
				if rel.Op == "==" && len(rel.Args) == 2 && rel.Args[1].Op == "const:0" && rel.Args[0].String() == amt {
					return true, true
				}
				if rel.Op == "<" && len(rel.Args) == 2 && rel.Args[0].Op == "const:0" && rel.Args[1].String() == amt {
					return true, false // 0 < amt: positive
				}
				return false, true
			}}})
			bad := ps.Require(cs.Instr, func(v map[string]bool) bool { return !v["zero"] })
			r.check(len(bad) == 0 && len(ps.Matched["zero"]) > 0, "POSITIVE-DELEGATE", name+" # Delegate is reached only with a non-zero amount", P.Pos(cs.Pos()), fmt.Sprintf("valuations: %v", statesStr(ps, cs.Instr)))
		}
	}
	// ---- PAIR-UNBOND
	if mv := need("(x/reporter/keeper.Keeper).MoveTokensFromValidator"); mv != nil {
		ps := AnalyzePaths(mv, []Atom{{Name: "bonded", Cond: func(rel *Term) (bool, bool) {
			return rel.Op == "call:(github.com/cosmos/cosmos-sdk/x/staking/types.Validator).IsBonded", true
		}}, {Name: "unbonding", Cond: func(rel *Term) (bool, bool) {
			return rel.Op == "call:(github.com/cosmos/cosmos-sdk/x/staking/types.Validator).IsUnbonding", true
		}}, {Name: "unbonded", Cond: func(rel *Term) (bool, bool) {
			return rel.Op == "call:(github.com/cosmos/cosmos-sdk/x/staking/types.Validator).IsUnbonded", true
		}}})
		// x/staking keeps the tokens of every validator that is not bonded -- unbonding or unbonded -- in the not-bonded pool; a
		// delegation can outlive its validator's unbonding, so no status may make the move fail
		for _, ret := range allReturns(mv) {
			if !DefinitelyFails(ret) {
				continue
			}
			bad := ps.Require(ret, func(v map[string]bool) bool { return !v["bonded"] && !v["unbonding"] && !v["unbonded"] })
			okExh := len(bad) == 0 && len(ps.Matched["bonded"]) > 0 && len(ps.Matched["unbonding"]) > 0 && len(ps.Matched["unbonded"]) > 0
			r.check(okExh, "PAIR-UNBOND", "(x/reporter/keeper.Keeper).MoveTokensFromValidator # fails for no bond status (bonded, unbonding and unbonded are all served)", P.Pos(ret.Pos()),
				fmt.Sprintf("failing return under %v ; statuses tested: bonded %v unbonding %v unbonded %v", bad, len(ps.Matched["bonded"]) > 0, len(ps.Matched["unbonding"]) > 0, len(ps.Matched["unbonded"]) > 0))
		}
		for _, cs := range P.CallSitesIn(mv) {
			if cs.Callee == "(x/reporter/keeper.Keeper).tokensToDispute" {
				pool := Arg(cs.Instr, 1)
				okPool := false
				if c, ok := pool.(*ssa.Const); ok && c.Value != nil {
					// one call per branch (`if v.IsBonded() { return move(bonded pool) }`): the constant pool under the fact of its branch
					want := tm.Of(pool).Op
					bad := ps.Require(cs.Instr, func(v map[string]bool) bool {
						if want == "const:bonded_tokens_pool" {
							return v["bonded"]
						}
						return want == "const:not_bonded_tokens_pool" && !v["bonded"]
					})
					okPool = len(bad) == 0 && len(ps.Matched["bonded"]) > 0
				}
				if ph, ok := pool.(*ssa.Phi); ok && len(ph.Edges) >= 2 {
					// edge from the bonded branch carries bonded_tokens_pool, the unbonding branch not_bonded_tokens_pool
					m := map[string]bool{}
					for _, e := range ph.Edges {
						m[tm.Of(e).Op] = true
					}
					okPool = m["const:bonded_tokens_pool"] && m["const:not_bonded_tokens_pool"]
					for i, e := range ph.Edges {
						pred := ph.Block().Preds[i]
						want := tm.Of(e).Op
						for _, s := range statesAtBlockEnd(ps, pred) {
							if want == "const:bonded_tokens_pool" && int8(s[0]) != T {
								okPool = false
							}
							if want == "const:not_bonded_tokens_pool" && int8(s[0]) != F { // every validator that is not bonded
								okPool = false
							}
						}
					}
				}
				r.check(okPool, "PAIR-UNBOND", "(x/reporter/keeper.Keeper).MoveTokensFromValidator # bonded validator -> bonded pool, unbonding or unbonded validator -> not-bonded pool", P.Pos(cs.Pos()), "pool argument: "+clip(tm.Of(pool).String(), 120))
				a := tm.Of(Arg(cs.Instr, 2))
				r.check(a.Op == "param:3:cosmossdk.io/math.Int", "PAIR-UNBOND", "(x/reporter/keeper.Keeper).MoveTokensFromValidator # moves the amount it was given", P.Pos(cs.Pos()), a.Brief())
			}
		}
	}
	if dd := need("(x/reporter/keeper.Keeper).deductFromdelegation"); dd != nil {
		for _, cs := range P.CallSitesIn(dd) {
			if cs.Callee == "(x/reporter/keeper.Keeper).MoveTokensFromValidator" {
				a, v := tm.Of(Arg(cs.Instr, 2)), tm.Of(Arg(cs.Instr, 1))
				ok := a.Op == "ext:0" && a.Contains("StakingKeeper.Unbond") && v.Op == "ext:0" && v.Contains("StakingKeeper.GetValidator")
				r.check(ok, "PAIR-UNBOND", "(x/reporter/keeper.Keeper).deductFromdelegation # moves what Unbond returned, out of the pool of the validator it unbonded from", P.Pos(cs.Pos()), "amount: "+a.Brief()+" ; validator: "+v.Brief())
			}
		}
	}
	if td := need("(x/reporter/keeper.Keeper).tokensToDispute"); td != nil {
		for _, cs := range P.CallSitesIn(td) {
			if isBankCall(cs, "SendCoinsFromModuleToModule") {
				amt := coinsAmount(Arg(cs.Instr, 3))
				c, m, ok := amt.Single()
				r.check(ok && ratEq(c, 1, 1) && m["param:3:cosmossdk.io/math.Int"] == 1 && poolOf(Arg(cs.Instr, 2)) == "dispute" && tm.Of(Arg(cs.Instr, 1)).Op == "param:2:string", "PAIR-UNBOND", "(x/reporter/keeper.Keeper).tokensToDispute # sends the given amount from the given pool to the dispute module", P.Pos(cs.Pos()), amt.String())
			}
		}
		var callers []string
		for _, c := range P.callers[td] {
			callers = append(callers, FuncName(TopFunc(c)))
		}
		sort.Strings(callers)
		r.check(fmt.Sprint(callers) == "[(x/reporter/keeper.Keeper).FeefromReporterStake (x/reporter/keeper.Keeper).MoveTokensFromValidator (x/reporter/keeper.Keeper).deductUnbondingDelegation]", "PAIR-UNBOND", "callers of tokensToDispute", "-", fmt.Sprint(callers))
	}
	if du := need("(x/reporter/keeper.Keeper).deductUnbondingDelegation"); du != nil {
		// an element address taken before RemoveEntry names the *next* entry afterwards (the slice is shifted in place):
		// nothing may be read through it after the removal
		{
			n, bad := 0, ""
			for _, cs := range P.CallSitesIn(du) {
				if cs.Method != "RemoveEntry" || cs.Fn != du {
					continue
				}
				n++
				for _, b := range du.Blocks {
					for _, in := range b.Instrs {
						ld, ok := in.(*ssa.UnOp)
						if !ok || ld.Op != token.MUL {
							continue
						}
						a := ld.X
						for {
							if fa, ok := a.(*ssa.FieldAddr); ok {
								a = fa.X
								continue
							}
							break
						}
						ia, ok := a.(*ssa.IndexAddr)
						if !ok {
							continue
						}
						if reachAvoid(ia, cs.Instr, nil) && reachAvoid(cs.Instr, ld, ia) {
							bad = fmt.Sprintf("%s reads through an element address taken at %s before the removal at %s", P.Pos(ld.Pos()), P.Pos(ia.Pos()), P.Pos(cs.Pos()))
						}
					}
				}
			}
			r.check(bad == "" && n >= 1, "PAIR-UNBOND", "(x/reporter/keeper.Keeper).deductUnbondingDelegation # no read through an entry address after RemoveEntry", P.Pos(du.Pos()), fmt.Sprintf("%d removal sites %s", n, bad))
		}
		for _, cs := range P.CallSitesIn(du) {
			if cs.Callee == "(x/reporter/keeper.Keeper).tokensToDispute" {
				pool := poolOf(Arg(cs.Instr, 1))
				acc, bases := sumWeb(Arg(cs.Instr, 2))
				isAcc := len(bases) == 1 && bases[0].Op == "call:cosmossdk.io/math.ZeroInt"
				r.check(pool == "not_bonded_tokens_pool" && isAcc && len(acc) == 2, "PAIR-UNBOND", "(x/reporter/keeper.Keeper).deductUnbondingDelegation # moves the accumulated removed amount out of the not-bonded pool", P.Pos(cs.Pos()), fmt.Sprintf("pool %s ; loop-carried sum with %d addends", pool, len(acc)))
			}
		}
	}
	// ---- RECORD-EQUALS-TAKEN (fee from stake)
	if ff := need("(x/reporter/keeper.Keeper).FeefromReporterStake"); ff != nil {
		// only bonded validators are considered
		bondedOnly := false
		for _, cl := range ff.AnonFuncs {
			ps := AnalyzePaths(cl, []Atom{{Name: "bonded", Cond: func(rel *Term) (bool, bool) {
				return rel.Op == "call:(github.com/cosmos/cosmos-sdk/x/staking/types.Validator).IsBonded", true
			}}})
			for _, b := range cl.Blocks {
				for _, in := range b.Instrs {
					if c, ok := in.(*ssa.Call); ok {
						if bi, ok := c.Call.Value.(*ssa.Builtin); ok && bi.Name() == "append" {
							bondedOnly = len(ps.Matched["bonded"]) > 0 && len(ps.Require(in, func(v map[string]bool) bool { return v["bonded"] })) == 0
						}
					}
				}
			}
		}
		r.check(bondedOnly, "PAIR-UNBOND", "(x/reporter/keeper.Keeper).FeefromReporterStake # only delegations to bonded validators are unbonded (the escrow is paid from the bonded pool)", P.Pos(ff.Pos()), "")
		n := 0
		for _, b := range ff.Blocks {
			for _, in := range b.Instrs {
				if st, ok := in.(*ssa.Store); ok {
					if fa, ok := st.Addr.(*ssa.FieldAddr); ok && fieldName(fa.X.Type(), fa.Field) == "x/reporter/types.TokenOriginInfo.Amount" {
						n++
						v := tm.Of(st.Val)
						r.check(v.Op == "ext:0" && v.Contains("StakingKeeper.Unbond"), "RECORD-EQUALS-TAKEN", "(x/reporter/keeper.Keeper).FeefromReporterStake # recorded amount is what Unbond returned", P.Pos(st.Pos()), "recorded: "+clip(v.String(), 120))
					}
				}
			}
		}
		r.check(n == 2, "RECORD-EQUALS-TAKEN", "(x/reporter/keeper.Keeper).FeefromReporterStake # both unbonding branches record", P.Pos(ff.Pos()), fmt.Sprintf("%d", n))
		for _, cs := range P.CallSitesIn(ff) {
			if cs.Callee == "(x/reporter/keeper.Keeper).tokensToDispute" {
				pool := poolOf(Arg(cs.Instr, 1))
				adds, bases := sumWeb(Arg(cs.Instr, 2))
				okAdds := len(bases) == 1 && bases[0].Op == "call:cosmossdk.io/math.ZeroInt" && len(adds) == 2
				for _, a := range adds {
					if !(a.Op == "ext:0" && a.Contains("StakingKeeper.Unbond")) {
						okAdds = false
					}
				}
				r.check(pool == "bonded_tokens_pool" && okAdds, "PAIR-UNBOND", "(x/reporter/keeper.Keeper).FeefromReporterStake # moves the sum of what Unbond returned out of the bonded pool", P.Pos(cs.Pos()), fmt.Sprintf("pool %s ; running sum of Unbond results: %v", pool, okAdds))
			}
		}
		// stored total = the moved sum + previous total
		okTot := false
		var movedVal ssa.Value
		for _, cs := range P.CallSitesIn(ff) {
			if cs.Callee == "(x/reporter/keeper.Keeper).tokensToDispute" {
				movedVal = Arg(cs.Instr, 2)
			}
		}
		totDetail := ""
		for _, b := range ff.Blocks {
			for _, in := range b.Instrs {
				if st, ok := in.(*ssa.Store); ok {
					if fa, ok := st.Addr.(*ssa.FieldAddr); ok && fieldName(fa.X.Type(), fa.Field) == "x/reporter/types.DelegationsAmounts.Total" {
						if c, ok := st.Val.(*ssa.Call); ok && CalleeName(c.Common()) == "(cosmossdk.io/math.Int).Add" && len(c.Call.Args) == 2 && c.Call.Args[0] == movedVal && movedVal != nil {
							prev := tm.Of(c.Call.Args[1])
							totDetail = "previous total: " + clip(prev.String(), 160)
							if prev.Op == "phi" && len(prev.Args) == 2 {
								z, g := 0, 0
								for _, a := range prev.Args {
									if a.Op == "call:cosmossdk.io/math.ZeroInt" {
										z++
									}
									if strings.HasSuffix(a.Op, "DelegationsAmounts.Total") && a.Contains("FeePaidFromStake") {
										g++
									}
								}
								okTot = z == 1 && g == 1
							}
						}
					}
				}
			}
		}
		r.check(okTot, "RECORD-EQUALS-TAKEN", "(x/reporter/keeper.Keeper).FeefromReporterStake # record total = sum moved now + previously recorded total (or zero)", P.Pos(ff.Pos()), totDetail)
	}
	// ---- RECORD-EQUALS-TAKEN (stake escrowed for a dispute): what a chase could not find must not be recorded as taken
	if es := need("(x/reporter/keeper.Keeper).EscrowReporterStake"); es != nil {
		n := 0
		for _, cs := range P.CallSitesIn(es) {
			if cs.Callee != "(x/reporter/keeper.Keeper).undelegate" {
				continue
			}
			n++
			used := false
			if v := cs.Instr.Value(); v != nil {
				for _, ref := range *v.Referrers() {
					if ex, ok := ref.(*ssa.Extract); ok && ex.Index == 0 {
						for _, rr := range *ex.Referrers() {
							if _, dbg := rr.(*ssa.DebugRef); !dbg {
								used = true
							}
						}
					}
				}
			}
			which := map[int]string{1: "chase 1 (recorded validator)", 2: "chase 2 (redelegation destination)"}[n]
			if which == "" {
				which = fmt.Sprintf("chase %d", n)
			}
			r.check(used, "RECORD-EQUALS-TAKEN", "(x/reporter/keeper.Keeper).EscrowReporterStake # the remainder returned by "+which+" is accounted for in the record", P.Pos(cs.Pos()), map[bool]string{true: "remainder used", false: "the remainder result of undelegate is discarded: the amount asked for is recorded as taken whatever was found"}[used])
		}
		r.check(n == 2, "RECORD-EQUALS-TAKEN", "(x/reporter/keeper.Keeper).EscrowReporterStake # two chases per backer", P.Pos(es.Pos()), fmt.Sprint(n))
	}
	// every success path that took stake out of the ledger also moved the coins (and, where a record is kept, wrote it)
	{
		unbond := P.CallEvent(func(c *CallSite) bool { return strings.HasSuffix(c.Callee, "StakingKeeper.Unbond") }, T)
		moved := P.CallEvent(func(c *CallSite) bool {
			return c.Callee == "(x/reporter/keeper.Keeper).tokensToDispute" || c.Callee == "(x/reporter/keeper.Keeper).MoveTokensFromValidator"
		}, T)
		if fn := need("(x/reporter/keeper.Keeper).deductFromdelegation"); fn != nil {
			requireAtSuccess(r, "PAIR-UNBOND", fn, "a success path that unbonded also moved the coins", []Atom{{Name: "unbonded", Event: unbond}, {Name: "moved", Event: moved}},
				func(v map[string]bool) bool { return !v["unbonded"] || v["moved"] })
		}
		if fn := need("(x/reporter/keeper.Keeper).FeefromReporterStake"); fn != nil {
			requireAtSuccess(r, "PAIR-UNBOND", fn, "a success path that unbonded also moved the coins and stored the fee tracker", []Atom{{Name: "unbonded", Event: unbond}, {Name: "moved", Event: moved},
				{Name: "recorded", Event: P.CallEvent(descIs("coll:x/reporter/keeper.Keeper.FeePaidFromStake.Set"), T)}},
				func(v map[string]bool) bool { return !v["unbonded"] || (v["moved"] && v["recorded"]) })
		}
		if fn := need("(x/reporter/keeper.Keeper).deductUnbondingDelegation"); fn != nil {
			requireAtSuccess(r, "PAIR-UNBOND", fn, "a success path that rewrote the unbonding delegation also moved the coins", []Atom{
				{Name: "rewritten", Event: P.CallEvent(func(c *CallSite) bool {
					return strings.HasSuffix(c.Callee, "StakingKeeper.SetUnbondingDelegation") || strings.HasSuffix(c.Callee, "StakingKeeper.RemoveUnbondingDelegation")
				}, T)},
				{Name: "moved", Event: moved}},
				func(v map[string]bool) bool { return v["rewritten"] == v["moved"] })
		}
	}
	// a hook that goes on after a failed, state-writing step commits whatever that step had written: every such
	// failure in the block hooks aborts the hook (the error is returned, the block is not produced)
	{
		oks, bads := P.HookErrorsPropagate(nil)
		for _, l := range oks {
			i := strings.LastIndex(l, " @ ")
			r.ok("HOOK-ATOMIC", l[:i], l[i+3:], "on the failure edge the hook returns the error; no success return and no next iteration is reachable")
		}
		for _, l := range bads {
			i := strings.LastIndex(l, " @ ")
			r.bad("HOOK-ATOMIC", l[:i], l[i+3:], "the hook continues (success return or next iteration) after this state-writing call failed: a partial write (a delegation without its coin move) would be committed with the block")
		}
	}
	r.minCount("HOOK-ATOMIC", 3)
	r.minCount("CENSUS-STAKING", 8)
	r.minCount("PAIR-DELEGATE", 10)
	r.minCount("PAIR-UNBOND", 7)
	r.minCount("RECORD-EQUALS-TAKEN", 6)
	r.minCount("SHARE-OF-MOVED", 3)
	r.minCount("FRESH-VALIDATOR", 4)
	r.minCount("POSITIVE-DELEGATE", 4)
}

// enumConstVal: value of a constant in any loaded package.
func enumConstVal(P *Prog, pkg, name string) string {
	if v, ok := P.lookupConst(pkg, name); ok {
		return v.ExactString()
	}
	return "?"
}

// sumWeb resolves a value built only from phis and Int.Add calls on itself:
// returns the addends and the base values the running sum starts from.
func sumWeb(v ssa.Value) (addends, bases []*Term) {
	tm := NewTermer()
	seen := map[ssa.Value]bool{}
	var walk func(x ssa.Value)
	walk = func(x ssa.Value) {
		if seen[x] {
			return
		}
		seen[x] = true
		switch y := x.(type) {
		case *ssa.Phi:
			for _, e := range y.Edges {
				walk(e)
			}
			return
		case *ssa.Call:
			if CalleeName(y.Common()) == "(cosmossdk.io/math.Int).Add" && len(y.Call.Args) == 2 {
				walk(y.Call.Args[0])
				addends = append(addends, tm.Of(y.Call.Args[1]))
				return
			}
		}
		bases = append(bases, tm.Of(x))
	}
	walk(v)
	return
}

// shareForm names the algebraic shape of a per-entry refund.
func shareForm(p *Poly) string {
	c, m, ok := p.Single()
	if !ok || !ratEq(c, 1, 1) {
		return "other:" + clip(p.String(), 120)
	}
	var amount, total, moved, other int
	for a, e := range m {
		switch {
		case strings.Contains(a, "TokenOriginInfo.Amount") && e == 1:
			amount++
		case strings.Contains(a, "DelegationsAmounts.Total") && e == -1:
			total++
		case strings.HasPrefix(a, "param:") && strings.HasSuffix(a, "cosmossdk.io/math.Int") && e == 1:
			moved++
		default:
			other++
		}
	}
	switch {
	case other == 0 && amount == 1 && total == 0 && moved == 0:
		return "amount"
	case other == 0 && amount == 1 && total == 1 && moved == 1:
		return "amount*moved/total"
	}
	return "other:" + clip(p.String(), 120)
}

// validatorSources traces a value back to the calls that produced it, through phis, tuple extraction,
// local variables (all stores), indexing and loads. odd lists sources that are not calls.
func validatorSources(v ssa.Value) (leaves []*ssa.Call, odd []string) {
	seen := map[ssa.Value]bool{}
	var walk func(x ssa.Value, d int)
	walk = func(x ssa.Value, d int) {
		if x == nil || seen[x] || d > 14 {
			return
		}
		seen[x] = true
		switch y := x.(type) {
		case *ssa.Phi:
			for _, e := range y.Edges {
				walk(e, d+1)
			}
		case *ssa.Extract:
			walk(y.Tuple, d+1)
		case *ssa.Call:
			leaves = append(leaves, y)
		case *ssa.UnOp:
			walk(y.X, d+1)
		case *ssa.IndexAddr:
			walk(y.X, d+1)
		case *ssa.Index:
			walk(y.X, d+1)
		case *ssa.Slice:
			walk(y.X, d+1)
		case *ssa.FieldAddr:
			walk(y.X, d+1)
		case *ssa.ChangeType:
			walk(y.X, d+1)
		case *ssa.MakeInterface:
			walk(y.X, d+1)
		case *ssa.Alloc:
			n := 0
			for _, ref := range *y.Referrers() {
				if st, ok := ref.(*ssa.Store); ok && st.Addr == ssa.Value(y) {
					n++
					walk(st.Val, d+1)
				}
			}
			if n == 0 {
				odd = append(odd, "uninitialised local "+y.Comment)
			}
		case *ssa.Const:
			// zero value on an edge that fails before the use
		default:
			odd = append(odd, fmt.Sprintf("%T %s", x, x.Name()))
		}
	}
	walk(v, 0)
	return
}
