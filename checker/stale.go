package main

// LOST-UPDATE engine: read – call – write back.
//
// A record of a collection is read (`C.Get(ctx, k)`), a repository function that itself (transitively) writes collection
// C is called, and afterwards a value derived from the *earlier* read is stored under the same key (`C.Set(ctx, k, v)`)
// without a second read in between: whatever the callee stored under k is overwritten. Every candidate (function,
// collection, intermediate call) is listed; the candidates of the reviewed tree were read one by one and are frozen in
// staleReviewed with the reason why the callee cannot touch the key that is written back. A candidate that is not in the
// table is a violation of the property whose ledger the collection is.

import (
	"fmt"
	"go/types"
	"sort"
	"strings"

	"golang.org/x/tools/go/ssa"
)

type staleFinding struct {
	Fn   *ssa.Function
	Coll string
	Get  *CallSite
	Call *CallSite
	Set  *CallSite
	Via  string // call path from the intermediate callee to the writer of Coll
}

func (f staleFinding) Key() string {
	return FuncName(TopFunc(f.Fn)) + " # " + f.Coll + " <- " + CalleeShort(f.Call)
}

func CalleeShort(c *CallSite) string { return c.Callee }

var collWriteMethods = map[string]bool{"Set": true, "Remove": true, "Clear": true}

// collDirectWrites: collection descriptors ("pkg.Struct.Field") written by fn's own instructions (closures included).
func (P *Prog) collDirectWrites() map[*ssa.Function]map[string]bool {
	if P.collWrites != nil {
		return P.collWrites
	}
	P.collWrites = map[*ssa.Function]map[string]bool{}
	for _, fn := range P.RepoFuncs {
		for _, cs := range P.callSitesInOwn(fn) {
			if cs.Recv != "" && strings.Contains(cs.Callee, "cosmossdk.io/collections") && collWriteMethods[cs.Method] {
				if P.collWrites[fn] == nil {
					P.collWrites[fn] = map[string]bool{}
				}
				P.collWrites[fn][cs.Recv] = true
			}
		}
	}
	return P.collWrites
}

// writerBelow returns a call path from fn to a function that writes coll, "" if there is none.
func (P *Prog) writerBelow(fn *ssa.Function, coll string) string {
	dw := P.collDirectWrites()
	par := P.Reachable([]*ssa.Function{fn}, nil)
	var hits []*ssa.Function
	for f := range par {
		if dw[f][coll] {
			hits = append(hits, f)
		}
	}
	if len(hits) == 0 {
		return ""
	}
	sort.Slice(hits, func(i, j int) bool { return FuncName(hits[i]) < FuncName(hits[j]) })
	best := ""
	for _, h := range hits {
		p := PathTo(par, h)
		if best == "" || strings.Count(p, "->") < strings.Count(best, "->") {
			best = p
		}
	}
	return best
}

// reachAvoid: is `to` reachable from just after `from` without executing `avoid`?
func reachAvoid(from, to, avoid ssa.Instruction) bool {
	idx := func(in ssa.Instruction) int {
		for i, x := range in.Block().Instrs {
			if x == in {
				return i
			}
		}
		return -1
	}
	type pos struct {
		b *ssa.BasicBlock
		i int
	}
	seen := map[*ssa.BasicBlock]bool{}
	q := []pos{{from.Block(), idx(from) + 1}}
	for len(q) > 0 {
		p := q[0]
		q = q[1:]
		stopped := false
		for i := p.i; i < len(p.b.Instrs); i++ {
			in := p.b.Instrs[i]
			if in == to {
				return true
			}
			if avoid != nil && in == avoid {
				stopped = true
				break
			}
		}
		if stopped {
			continue
		}
		for _, s := range p.b.Succs {
			if !seen[s] {
				seen[s] = true
				q = append(q, pos{s, 0})
			}
		}
	}
	return false
}

// derivedFrom: the set of values of fn that depend on v (through operands, and through stores into local allocations).
func derivedFrom(fn *ssa.Function, v ssa.Value) map[ssa.Value]bool {
	t := map[ssa.Value]bool{v: true}
	root := func(a ssa.Value) ssa.Value {
		for i := 0; i < 8; i++ {
			switch x := a.(type) {
			case *ssa.FieldAddr:
				a = x.X
			case *ssa.IndexAddr:
				a = x.X
			default:
				return a
			}
		}
		return a
	}
	for changed := true; changed; {
		changed = false
		for _, b := range fn.Blocks {
			for _, in := range b.Instrs {
				if st, ok := in.(*ssa.Store); ok {
					if t[st.Val] {
						if r := root(st.Addr); !t[r] {
							t[r] = true
							changed = true
						}
					}
					continue
				}
				val, ok := in.(ssa.Value)
				if !ok || t[val] {
					continue
				}
				if _, isCall := in.(ssa.CallInstruction); isCall {
					// a call result depends on its arguments only for conversions and arithmetic helpers; being generous
					// here is harmless (more candidates, each read by hand)
				}
				for _, op := range in.Operands(nil) {
					if *op == nil {
						continue
					}
					o := *op
					if t[o] || t[root(o)] {
						t[val] = true
						changed = true
						break
					}
				}
			}
		}
	}
	return t
}

// collKeyVal: key term and stored value of a collection call. An Item has no key: its key is "" and Set(ctx, v) stores
// argument 1; Map.Set(ctx, k, v) stores argument 2.
func collKeyVal(tm *termer, cs *CallSite) (key string, val ssa.Value) {
	if strings.Contains(cs.Callee, "collections.Item)") || strings.Contains(cs.Callee, "collections.Sequence)") {
		if cs.Method == "Set" {
			return "", Arg(cs.Instr, 1)
		}
		return "", nil
	}
	k := Arg(cs.Instr, 1)
	if k == nil {
		return "?", nil
	}
	key = tm.Of(k).String()
	if cs.Method == "Set" {
		val = Arg(cs.Instr, 2)
	}
	return key, val
}

// StaleWriteBacks lists the read – call – write-back candidates of fn (own instructions) and counts the intermediate
// calls that were examined (repository callees between a read and the write-back of a value derived from it).
func (P *Prog) StaleWriteBacks(fn *ssa.Function) (out []staleFinding, examined int) {
	sites := P.callSitesInOwn(fn)
	isColl := func(cs *CallSite) bool {
		return cs.Recv != "" && strings.Contains(cs.Callee, "cosmossdk.io/collections")
	}
	tm := NewTermer()
	for _, g := range sites {
		if !isColl(g) || g.Method != "Get" {
			continue
		}
		gv, ok := g.Instr.(ssa.Value)
		if !ok {
			continue
		}
		var dep map[ssa.Value]bool
		gk, _ := collKeyVal(tm, g)
		for _, s := range sites {
			if !isColl(s) || s.Method != "Set" || s.Recv != g.Recv {
				continue
			}
			sk, sv := collKeyVal(tm, s)
			if sv == nil || !reachAvoid(g.Instr, s.Instr, nil) {
				continue
			}
			if dep == nil {
				dep = derivedFrom(fn, gv)
			}
			// same key: the same term, or a key taken from the record that was read (Set(ctx, rec.Id, rec))
			if sk != gk {
				if kv := Arg(s.Instr, 1); kv == nil || !dep[kv] {
					continue
				}
			}
			if !dep[sv] {
				continue
			}
			for _, c := range sites {
				if c == g || c == s || isColl(c) {
					continue
				}
				if !reachAvoid(g.Instr, c.Instr, nil) || !reachAvoid(c.Instr, s.Instr, g.Instr) {
					continue
				}
				for _, callee := range P.CalleesOfCall(c.Instr) {
					if !P.isRepoFunc(callee) {
						continue
					}
					examined++
					if via := P.writerBelow(callee, g.Recv); via != "" {
						out = append(out, staleFinding{Fn: fn, Coll: g.Recv, Get: g, Call: c, Set: s, Via: via})
						break
					}
				}
			}
		}
	}
	// second form: the record arrives as a parameter (the caller read it) and is written back here
	for _, s := range sites {
		if !isColl(s) || s.Method != "Set" {
			continue
		}
		_, sv := collKeyVal(tm, s)
		if sv == nil {
			continue
		}
		for _, prm := range fn.Params {
			pt := prm.Type()
			if pp, ok := pt.Underlying().(*types.Pointer); ok {
				pt = pp.Elem()
			}
			vt := sv.Type()
			if vp, ok := vt.Underlying().(*types.Pointer); ok {
				vt = vp.Elem()
			}
			if _, isStruct := pt.Underlying().(*types.Struct); !isStruct || !types.Identical(pt, vt) {
				continue
			}
			if !derivedFrom(fn, prm)[sv] {
				continue
			}
			for _, c := range sites {
				if c == s || isColl(c) || !reachAvoid(c.Instr, s.Instr, nil) {
					continue
				}
				for _, callee := range P.CalleesOfCall(c.Instr) {
					if !P.isRepoFunc(callee) {
						continue
					}
					examined++
					if via := P.writerBelow(callee, s.Recv); via != "" {
						out = append(out, staleFinding{Fn: fn, Coll: s.Recv, Get: nil, Call: c, Set: s, Via: via})
						break
					}
				}
			}
		}
	}
	return out, examined
}

// staleDebug prints every candidate of the repository (development aid).
func staleDebug(P *Prog) {
	n := 0
	for _, fn := range P.RepoFuncs {
		fs, ex := P.StaleWriteBacks(fn)
		if ex > 0 {
			fmt.Printf("EXAMINED %d %s\n", ex, FuncName(fn))
		}
		for _, f := range fs {
			n++
			fmt.Printf("%s\n   get %s  call %s  set %s\n   via %s\n", f.Key(), getPos(P, f), P.Pos(f.Call.Pos()), P.Pos(f.Set.Pos()), f.Via)
		}
	}
	fmt.Println(n, "candidates")
}

func getPos(P *Prog, f staleFinding) string {
	if f.Get == nil {
		return "(parameter)"
	}
	return P.Pos(f.Get.Pos())
}

// ---- the rule as the checks use it

// lostUpdateOwner: which property's check decides the lost-update obligations of a function (every function has one owner).
func lostUpdateOwner(fn *ssa.Function) string {
	name := FuncName(TopFunc(fn))
	switch {
	case strings.Contains(name, "x/dispute/keeper"):
		for _, f := range []string{".ClaimReward", ".AddFeeToDispute", ".WithdrawFeeRefund", ".RefundDisputeFee", ".RewardReporterBondToFeePayers"} {
			if strings.HasSuffix(name, f) {
				return "C13"
			}
		}
		return "C12"
	case strings.Contains(name, "x/bridge/keeper"):
		if strings.Contains(name, "Deposit") || strings.Contains(name, "Withdraw") {
			return "C14"
		}
		return "C16"
	case strings.Contains(name, "x/oracle/keeper"):
		return "C07"
	case strings.Contains(name, "x/reporter/keeper"):
		return "C05"
	case strings.Contains(name, "x/registry/keeper"):
		return "C19"
	case strings.Contains(name, "x/mint"):
		return "C03"
	}
	return ""
}

// staleReviewed: candidates of the reviewed tree that were read and are not lost updates, with the structural reason,
// which is re-checked on every run (keyHas must occur in the key of the write-back).
var staleReviewed = map[string]struct{ keyHas, why string }{
	"(x/dispute/keeper.Keeper).AddDisputeRound # x/dispute/keeper.Keeper.Disputes <- (x/dispute/keeper.Keeper).CloseDispute": {
		"call:(x/dispute/keeper.Keeper).NextDisputeId", "CloseDispute closes the record under the old id; the copy is stored as the next round under a fresh id"},
}

// checkLostUpdates adds, for every function owned by property id, one obligation per function in which intermediate
// calls lie between a read (or a record parameter) and its write-back.
func checkLostUpdates(r *Result, id string) {
	P := r.P
	r.rule("LOST-UPDATE", "no record is written back from a copy read before a call that itself writes that collection (read - call - write back)")
	tm := NewTermer()
	nfn := 0
	for _, fn := range P.RepoFuncs {
		if lostUpdateOwner(fn) != id || strings.Contains(FuncName(fn), "Genesis") {
			continue
		}
		fs, ex := P.StaleWriteBacks(fn)
		if ex == 0 {
			continue
		}
		nfn++
		var bad []string
		where := P.Pos(fn.Pos())
		for _, f := range fs {
			if rv, ok := staleReviewed[f.Key()]; ok {
				if k := Arg(f.Set.Instr, 1); k != nil && (tm.Of(k).Contains(rv.keyHas) || freshKeyBetween(tm, fn, f, k, rv.keyHas)) {
					continue
				}
			}
			where = P.Pos(f.Set.Pos())
			bad = append(bad, fmt.Sprintf("%s is stored at %s from a copy taken at %s, but the call at %s in between writes that collection (%s)", f.Coll, P.Pos(f.Set.Pos()), getPos(P, f), P.Pos(f.Call.Pos()), f.Via))
		}
		sort.Strings(bad)
		r.fn(FuncName(TopFunc(fn)))
		r.check(len(bad) == 0, "LOST-UPDATE", FuncName(fn)+" # calls between a read and its write-back do not write the same collection", where,
			fmt.Sprintf("%d intermediate calls examined %s", ex, strings.Join(bad, " ; ")))
	}
	// hazard census (fewer is not a loss), but never vacuous where the reviewed tree has such functions
	if id == "C12" || id == "C13" {
		r.minCount("LOST-UPDATE", 2)
	}
	_ = nfn
}

// freshKeyBetween: the key of the write-back is a field that is assigned, after the intermediate call and before the
// write-back, a value containing `has` (dispute.DisputeId = NextDisputeId(); Disputes.Set(ctx, dispute.DisputeId, dispute)).
func freshKeyBetween(tm *termer, fn *ssa.Function, f staleFinding, key ssa.Value, has string) bool {
	ld, ok := key.(*ssa.UnOp)
	if !ok {
		return false
	}
	kfa, ok := ld.X.(*ssa.FieldAddr)
	if !ok {
		return false
	}
	for _, b := range fn.Blocks {
		for _, in := range b.Instrs {
			st, ok := in.(*ssa.Store)
			if !ok {
				continue
			}
			fa, ok := st.Addr.(*ssa.FieldAddr)
			if !ok || fa.Field != kfa.Field || fa.X != kfa.X {
				continue
			}
			if tm.Of(st.Val).Contains(has) && reachAvoid(f.Call.Instr, st, nil) && reachAvoid(st, f.Set.Instr, nil) {
				return true
			}
		}
	}
	return false
}
