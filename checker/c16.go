package main

// C16 — validator-set checkpoints form a chain an EVM light client can follow
// (membership filter, ordering, update rule, same-key cohort, slot correspondence).

import (
	"fmt"
	"go/ast"
	"go/token"
	"go/types"
	"sort"
	"strings"

	"golang.org/x/tools/go/ssa"
)

func init() { register("C16", checkC16) }

func checkC16(r *Result) {
	P := r.P
	defer checkLostUpdates(r, "C16")
	r.Explanation = "Bookkeeping rules of the bridge validator-set checkpoints, decided on SSA: a validator enters the bridge set only with a registered EVM address and non-zero power, and the set is ordered by (power descending, address ascending) — the comparator is evaluated over all orderings of its keys for direction as well as for being a strict weak order; the decision of CompareAndSetBridgeValidators to write a new checkpoint, taken over all path valuations of {no saved set, byte-identical, stale, power diff below 5%}, is exactly 'no saved set, or stale, or (not identical and diff not below 5%)', with the constants 5*10^4 / 10^6 and two weeks folded; the maps written for one checkpoint (params, index->timestamp, timestamp->index, set by timestamp, signature slots) use one timestamp value, the stored params are the hash / threshold / timestamp that were encoded, and the index is previous + 1 by read-modify-write; the three users of 'the previous set' (slot sizing, slot selection, slot reading) reach it through the same access path and the slot index is the position of the signer's registered EVM address in that set."
	r.NotDecided = "followability as an inductive property over staking histories and the contract's acceptance logic; that 2/3 of the previous set actually signs"
	r.Assumptions = []string{"the end blocker calls CompareAndSetBridgeValidators once per block", "block time (ms) is unique per block, so a checkpoint timestamp names one cohort"}
	r.rule("MEMBERSHIP", "a validator is appended to the bridge set only with a registered EVM address and non-zero consensus power")
	r.rule("ORDER", "the bridge set is sorted by power descending, then address ascending")
	r.rule("UPDATE-RULE", "a new checkpoint is written iff there is no saved set, or the saved one is stale, or the set differs by at least 5%")
	r.rule("COHORT", "all records of one checkpoint use one timestamp; stored params equal the encoded ones; index = previous + 1")
	r.rule("SLOTS", "signature slots are sized by, selected in and read against the previous validator set, reached through one access path")

	need := func(name string) *ssa.Function {
		f := P.Func(name)
		if f == nil {
			r.broken("anchor %s does not resolve", name)
		} else {
			r.fn(name)
		}
		return f
	}
	tm := NewTermer()
	// ---- MEMBERSHIP / ORDER
	if gv := need("(x/bridge/keeper.Keeper).GetCurrentValidatorsEVMCompatible"); gv != nil {
		ps := AnalyzePaths(gv, []Atom{
			{Name: "noAddr", Cond: func(rel *Term) (bool, bool) {
				if rel.Op == "==" && len(rel.Args) == 2 && rel.Args[1].Op == "const:nil" && rel.Args[0].Op == "ext:1" && rel.Args[0].Has("field:x/bridge/keeper.Keeper.OperatorToEVMAddressMap") {
					return true, false
				}
				return false, false
			}},
			{Name: "zeroPower", Cond: func(rel *Term) (bool, bool) {
				if rel.Op == "==" && len(rel.Args) == 2 && rel.Args[1].Op == "const:0" && rel.Args[0].Contains("GetConsensusPower") {
					return true, true
				}
				return false, false
			}}})
		n := 0
		for _, b := range gv.Blocks {
			for _, in := range b.Instrs {
				c, ok := in.(*ssa.Call)
				if !ok {
					continue
				}
				if bi, ok := c.Call.Value.(*ssa.Builtin); ok && bi.Name() == "append" {
					n++
					bad := ps.Require(in, func(v map[string]bool) bool { return !v["noAddr"] && !v["zeroPower"] })
					ev := len(ps.Matched["noAddr"]) > 0 && len(ps.Matched["zeroPower"]) > 0
					r.check(len(bad) == 0 && ev, "MEMBERSHIP", "(x/bridge/keeper.Keeper).GetCurrentValidatorsEVMCompatible # append only with an EVM address and non-zero power", P.Pos(in.Pos()), fmt.Sprintf("valuations: %v", statesStr(ps, in)))
				}
			}
		}
		r.check(n == 1, "MEMBERSHIP", "(x/bridge/keeper.Keeper).GetCurrentValidatorsEVMCompatible # one append site", P.Pos(gv.Pos()), fmt.Sprintf("%d", n))
		// the element carries the registered address and the consensus power
		okFields := 0
		for _, b := range gv.Blocks {
			for _, in := range b.Instrs {
				if st, ok := in.(*ssa.Store); ok {
					if fa, ok := st.Addr.(*ssa.FieldAddr); ok {
						v := tm.Of(st.Val)
						switch fieldName(fa.X.Type(), fa.Field) {
						case "x/bridge/types.BridgeValidator.EthereumAddress":
							if v.Contains("EVMAddress.EVMAddress") && v.Contains("OperatorToEVMAddressMap") {
								okFields++
							}
						case "x/bridge/types.BridgeValidator.Power":
							if v.Contains("GetConsensusPower") {
								okFields++
							}
						}
					}
				}
			}
		}
		r.check(okFields == 2, "MEMBERSHIP", "(x/bridge/keeper.Keeper).GetCurrentValidatorsEVMCompatible # element = (registered EVM address, consensus power)", P.Pos(gv.Pos()), fmt.Sprintf("%d of 2 fields", okFields))
		// ORDER: evaluate the comparator for direction
		body := funcBody(gv)
		info := P.infoFor(gv)
		d := &detCtx{P: P, info: info, fn: gv}
		found := false
		ast.Inspect(body, func(n ast.Node) bool {
			call, ok := n.(*ast.CallExpr)
			if !ok {
				return true
			}
			sel, ok := call.Fun.(*ast.SelectorExpr)
			if !ok {
				return true
			}
			fo, ok := info.Uses[sel.Sel].(*types.Func)
			if !ok || (fo.FullName() != "sort.Slice" && fo.FullName() != "sort.SliceStable") {
				return true
			}
			lit, ok := call.Args[1].(*ast.FuncLit)
			if !ok {
				return true
			}
			found = true
			cm, err := d.parseComparator(lit, fo.FullName())
			if err != "" {
				r.broken("ORDER: comparator not understood: %s", err)
				return true
			}
			var pk, ak string
			for _, k := range cm.keys {
				if strings.HasSuffix(k, ".Power") {
					pk = k
				}
				if strings.HasSuffix(k, ".EthereumAddress") {
					ak = k
				}
			}
			ev := func(p, a int) bool {
				v, _ := cm.run(func(key string) int {
					if key == pk {
						return p
					}
					if key == ak {
						return a
					}
					return 0
				}, false)
				return v
			}
			// less(i,j) must hold when i has more power (any address), and on equal power when i's address is smaller
			ok2 := pk != "" && ak != "" && len(cm.keys) == 2 && ev(1, 0) && ev(1, 1) && ev(1, -1) && !ev(-1, -1) && !ev(-1, 1) && ev(0, -1) && !ev(0, 1) && !ev(0, 0)
			r.check(ok2 && cm.evaluate() == "", "ORDER", "(x/bridge/keeper.Keeper).GetCurrentValidatorsEVMCompatible # sort by power descending, then address ascending", P.Pos(call.Pos()), fmt.Sprintf("keys %v ; evaluated over the 9 sign combinations of (power, address) and the strict-weak-order laws", cm.keys))
			return true
		})
		if !found {
			r.bad("ORDER", "(x/bridge/keeper.Keeper).GetCurrentValidatorsEVMCompatible # sorted", P.Pos(gv.Pos()), "the bridge validator set is no longer sorted")
		}
	}
	// ---- UPDATE-RULE
	if cs := need("(x/bridge/keeper.Keeper).CompareAndSetBridgeValidators"); cs != nil {
		atoms := []Atom{
			{Name: "noSaved", Cond: func(rel *Term) (bool, bool) {
				if rel.Op == "==" && len(rel.Args) == 2 && rel.Args[1].Op == "const:nil" && rel.Args[0].Op == "ext:1" && len(rel.Args[0].Args) == 1 && rel.Args[0].Args[0].Has("field:x/bridge/keeper.Keeper.BridgeValset") && strings.HasSuffix(rel.Args[0].Args[0].Op, ".Get") {
					return true, false
				}
				return false, false
			}},
			{Name: "identical", Cond: func(rel *Term) (bool, bool) { return rel.Op == "call:bytes.Equal", true }},
			{Name: "stale", Cond: func(rel *Term) (bool, bool) {
				if rel.Op == "ext:0" && len(rel.Args) == 1 && rel.Args[0].Op == "call:(x/bridge/keeper.Keeper).LastSavedValidatorSetStale" {
					return true, true
				}
				return false, false
			}},
			{Name: "diffSmall", Cond: func(rel *Term) (bool, bool) {
				if rel.Op == "<" && len(rel.Args) == 2 && rel.Args[0].Op == "call:(x/bridge/keeper.Keeper).PowerDiff" && rel.Args[1].Op == "const:50000" {
					return true, true
				}
				return false, false
			}},
			{Name: "wrote", Event: P.CallEvent(func(c *CallSite) bool { return c.Callee == "(x/bridge/keeper.Keeper).SetBridgeValidatorParams" }, T)},
			{Name: "saved", Event: P.CallEvent(descIs("coll:x/bridge/keeper.Keeper.BridgeValset.Set"), T)},
		}
		ps := AnalyzePaths(cs, atoms)
		for _, a := range []string{"noSaved", "identical", "stale", "diffSmall"} {
			if len(ps.Matched[a]) == 0 {
				r.bad("UPDATE-RULE", "(x/bridge/keeper.Keeper).CompareAndSetBridgeValidators # test `"+a+"` present", P.Pos(cs.Pos()), "the decision no longer evaluates this condition (for diffSmall: PowerDiff < 5*10^4 of 10^6)")
			}
		}
		bad := ""
		nStates := 0
		for _, ret := range SuccessReturns(cs) {
			for _, s := range ps.At(ret) {
				nStates++
				val := func(i int) int8 { return int8(s[i]) }
				wrote := val(4) == T && val(5) == T
				// enumerate completions of unknown condition atoms
				unk := []int{}
				for i := 0; i < 4; i++ {
					if val(i) == U {
						unk = append(unk, i)
					}
				}
				for mask := 0; mask < 1<<len(unk); mask++ {
					v := [4]bool{}
					for i := 0; i < 4; i++ {
						v[i] = val(i) == T
					}
					for k, i := range unk {
						v[i] = mask&(1<<k) != 0
					}
					noSaved, identical, stale, diffSmall := v[0], v[1], v[2], v[3]
					if noSaved {
						// staleness etc. are not evaluated when nothing is saved
						if !wrote {
							bad = "no saved set but nothing written: " + ps.Render(s)
						}
						continue
					}
					want := stale || (!identical && !diffSmall)
					if want != wrote {
						bad = fmt.Sprintf("path %s: writes=%v but the rule gives %v for identical=%v stale=%v diff<5%%=%v", ps.Render(s), wrote, want, identical, stale, diffSmall)
					}
				}
			}
		}
		r.check(bad == "" && nStates > 0, "UPDATE-RULE", "(x/bridge/keeper.Keeper).CompareAndSetBridgeValidators # write <=> no saved set or stale or (not identical and diff >= 5%)", P.Pos(cs.Pos()), fmt.Sprintf("%d path valuations at success returns; %s", nStates, bad))
		// what is compared / saved is the current EVM-compatible set
		for _, c := range P.CallSitesIn(cs) {
			if c.Callee == "(x/bridge/keeper.Keeper).PowerDiff" {
				a, b := tm.Of(Arg(c.Instr, 1)), tm.Of(Arg(c.Instr, 2))
				r.check(a.Contains("BridgeValset") && b.Contains("GetCurrentValidatorSetEVMCompatible"), "UPDATE-RULE", "(x/bridge/keeper.Keeper).CompareAndSetBridgeValidators # diff between the saved and the current set", P.Pos(c.Pos()), a.Brief()+" vs "+b.Brief())
			}
			if c.Callee == "(x/bridge/keeper.Keeper).SetBridgeValidatorParams" {
				a := tm.Of(Arg(c.Instr, 1))
				r.check(a.Contains("GetCurrentValidatorSetEVMCompatible"), "UPDATE-RULE", "(x/bridge/keeper.Keeper).CompareAndSetBridgeValidators # checkpoints the current set", P.Pos(c.Pos()), a.Brief())
			}
		}
	}
	if st := need("(x/bridge/keeper.Keeper).LastSavedValidatorSetStale"); st != nil {
		okConst, okCmp := false, false
		for _, c := range P.CallSitesIn(st) {
			if c.Callee == "(time.Time).Add" {
				a := tm.Of(Arg(c.Instr, 0))
				if a.Op == "const:-1209600000000000" { // -2 weeks in ns
					okConst = true
				}
			}
		}
		// the boolean returned on success is "last checkpoint timestamp < (block time - two weeks)": either the
		// comparison itself, or constants true / false under the matching branch of that comparison
		isCmp := func(rel *Term) bool {
			return rel.Op == "<" && len(rel.Args) == 2 && rel.Args[0].Contains("GetValidatorSetTimestampBefore") && rel.Args[1].Op == "call:(time.Time).UnixMilli"
		}
		nRet, badRet := 0, ""
		for _, ret := range SuccessReturns(st) {
			nRet++
			t := tm.Of(ResultOf(ret, 0))
			switch t.Op {
			case "const:true", "const:false":
				found := false
				dominatingConds(ret.Block(), tm, func(rel *Term, truth bool) bool {
					if isCmp(rel) {
						found = true
						if truth != (t.Op == "const:true") {
							badRet = fmt.Sprintf("returns %s where the comparison is %v", t.Op, truth)
						}
						return false
					}
					return true
				})
				if !found {
					badRet = "a constant is returned without the comparison deciding the path"
				}
			default:
				rel, pol := Cond(t)
				if !isCmp(rel) || !pol {
					badRet = "returned value: " + clip(t.String(), 120)
				}
			}
		}
		okCmp = nRet > 0 && badRet == ""
		_ = badRet
		r.check(okConst && okCmp, "UPDATE-RULE", "(x/bridge/keeper.Keeper).LastSavedValidatorSetStale # stale <=> last checkpoint older than two weeks", P.Pos(st.Pos()), fmt.Sprintf("two-week constant folded: %v ; compares the last checkpoint timestamp: %v", okConst, okCmp))
	}
	if pd := need("(x/bridge/keeper.Keeper).PowerDiff"); pd != nil {
		ok := false
		for _, ret := range SuccessReturns(pd) {
			t := tm.Of(ret.Results[0])
			if t.Op == "/" && len(t.Args) == 2 && t.Args[0].Op == "*" && t.Args[0].Contains("const:1000000") {
				ok = true
			}
		}
		r.check(ok, "UPDATE-RULE", "(x/bridge/keeper.Keeper).PowerDiff # relative diff = delta * 10^6 / total power", P.Pos(pd.Pos()), "precision constant 10^6 (so 5*10^4 is 5%)")
	}
	// ---- COHORT
	if sp := need("(x/bridge/keeper.Keeper).SetBridgeValidatorParams"); sp != nil {
		tsT := ""
		for _, c := range P.CallSitesIn(sp) {
			if c.Callee == "(x/bridge/keeper.Keeper).CalculateValidatorSetCheckpoint" {
				tsT = tm.Of(Arg(c.Instr, 2)).String()
				hash := tm.Of(Arg(c.Instr, 3))
				r.check(hash.Op == "ext:1" && hash.Has("call:(x/bridge/keeper.Keeper).EncodeAndHashValidatorSet"), "COHORT", "(x/bridge/keeper.Keeper).SetBridgeValidatorParams # checkpoint over the hash of the set being saved", P.Pos(c.Pos()), "hash argument: "+hash.Brief())
				r.check(strings.Contains(tsT, "BlockTime") && strings.Contains(tsT, "UnixMilli"), "COHORT", "(x/bridge/keeper.Keeper).SetBridgeValidatorParams # checkpoint timestamp = block time in ms", P.Pos(c.Pos()), clip(tsT, 140))
			}
		}
		n := 0
		for _, c := range P.CallSitesIn(sp) {
			d := c.Desc()
			if d == "coll:x/bridge/keeper.Keeper.BridgeValsetByTimestampMap.Set" || d == "coll:x/bridge/keeper.Keeper.BridgeValsetSignaturesMap.Set" {
				n++
				k := tm.Of(Arg(c.Instr, 1)).String()
				r.check(k == tsT && tsT != "", "COHORT", "(x/bridge/keeper.Keeper).SetBridgeValidatorParams # "+c.Desc()[strings.LastIndex(c.Desc()[:len(c.Desc())-4], ".")+1:]+" keyed by the checkpoint timestamp", P.Pos(c.Pos()), "key: "+clip(k, 120))
			}
			if d == "coll:x/bridge/keeper.Keeper.BridgeValsetByTimestampMap.Set" {
				v := tm.Of(Arg(c.Instr, 2))
				r.check(v.Contains("param:2:"), "COHORT", "(x/bridge/keeper.Keeper).SetBridgeValidatorParams # the set stored by timestamp is the set that was hashed", P.Pos(c.Pos()), v.Brief())
			}
		}
		r.check(n == 2, "COHORT", "(x/bridge/keeper.Keeper).SetBridgeValidatorParams # set-by-timestamp and signature slots written", P.Pos(sp.Pos()), fmt.Sprintf("%d", n))
		// SLOTS: sizing
		sized := 0
		for _, c := range P.CallSitesIn(sp) {
			if c.Callee == "x/bridge/types.NewBridgeValsetSignatures" {
				a0 := tm.Of(c.Instr.Common().Args[0])
				// one call per case, or one call with the size chosen before it (a default overridden for a later checkpoint)
				alts := []*Term{a0}
				if a0.Op == "phi" {
					alts = a0.Args
				}
				for _, a := range alts {
					if a.Op == "call:builtin:len" {
						if a.Contains("BridgeValsetByTimestampMap") && a.Contains("ValidatorCheckpointIdxMap") && !a.Contains("param:2:") && a.Find(func(t *Term) bool {
							return t.Op == "-" && len(t.Args) == 2 && t.Args[1].Op == "const:1"
						}) != nil {
							sized++
						} else if a.Contains("param:2:") {
							sized += 10 // first checkpoint: sized by the set itself
						}
					}
				}
			}
		}
		r.check(sized == 11, "SLOTS", "(x/bridge/keeper.Keeper).SetBridgeValidatorParams # slots sized by the previous set (by the set itself for the first checkpoint)", P.Pos(sp.Pos()), fmt.Sprintf("code %d (10 = first-checkpoint sizing, 1 = previous-set sizing)", sized))
	}
	if cc := need("(x/bridge/keeper.Keeper).CalculateValidatorSetCheckpoint"); cc != nil {
		keys := map[string]string{}
		for _, c := range P.CallSitesIn(cc) {
			switch c.Desc() {
			case "coll:x/bridge/keeper.Keeper.ValidatorCheckpointParamsMap.Set", "coll:x/bridge/keeper.Keeper.ValsetTimestampToIdxMap.Set":
				keys[c.Desc()] = tm.Of(Arg(c.Instr, 1)).Op
			}
		}
		for _, b := range cc.Blocks {
			for _, in := range b.Instrs {
				if st, ok := in.(*ssa.Store); ok {
					if fa, ok := st.Addr.(*ssa.FieldAddr); ok && fieldName(fa.X.Type(), fa.Field) == "x/bridge/types.CheckpointTimestamp.Timestamp" {
						keys["coll:x/bridge/keeper.Keeper.ValidatorCheckpointIdxMap.Set"] = tm.Of(st.Val).Op
					}
				}
			}
		}
		ok := keys["coll:x/bridge/keeper.Keeper.ValidatorCheckpointParamsMap.Set"] == "param:3:uint64" && keys["coll:x/bridge/keeper.Keeper.ValsetTimestampToIdxMap.Set"] == "param:3:uint64" && strings.Contains(keys["coll:x/bridge/keeper.Keeper.ValidatorCheckpointIdxMap.Set"], "param:3:uint64")
		r.check(ok, "COHORT", "(x/bridge/keeper.Keeper).CalculateValidatorSetCheckpoint # params, index->timestamp and timestamp->index use the one timestamp", P.Pos(cc.Pos()), fmt.Sprint(keys))
		// stored params = encoded operands
		stored := map[string]string{}
		for _, b := range cc.Blocks {
			for _, in := range b.Instrs {
				if st, ok := in.(*ssa.Store); ok {
					if fa, ok := st.Addr.(*ssa.FieldAddr); ok && strings.HasPrefix(fieldName(fa.X.Type(), fa.Field), "x/bridge/types.ValidatorCheckpointParams.") {
						stored[strings.TrimPrefix(fieldName(fa.X.Type(), fa.Field), "x/bridge/types.ValidatorCheckpointParams.")] = tm.Of(st.Val).Brief()
					}
				}
			}
		}
		okP := stored["ValsetHash"] == "param4" && stored["Timestamp"] == "param3" && stored["PowerThreshold"] == "param2" && strings.Contains(stored["Checkpoint"], "Keccak256")
		r.check(okP, "COHORT", "(x/bridge/keeper.Keeper).CalculateValidatorSetCheckpoint # stored params are the encoded threshold, timestamp, hash and their keccak", P.Pos(cc.Pos()), fmt.Sprint(stored))
		// index = previous + 1
		idxOK := false
		for _, b := range cc.Blocks {
			for _, in := range b.Instrs {
				if st, ok := in.(*ssa.Store); ok {
					if fa, ok := st.Addr.(*ssa.FieldAddr); ok && fieldName(fa.X.Type(), fa.Field) == "x/bridge/types.CheckpointIdx.Index" {
						t := tm.Of(st.Val)
						if t.Op == "+" && len(t.Args) == 2 && t.Args[1].Op == "const:1" && t.Args[0].Contains("LatestCheckpointIdx") {
							idxOK = true
						}
					}
				}
			}
		}
		r.check(idxOK, "COHORT", "(x/bridge/keeper.Keeper).CalculateValidatorSetCheckpoint # index = latest index + 1", P.Pos(cc.Pos()), "read-modify-write of LatestCheckpointIdx")
	}
	// ---- SLOTS: selection and reading
	for _, name := range []string{"(x/bridge/keeper.Keeper).SetBridgeValsetSignature", "(x/bridge/keeper.Keeper).GetValidatorDidSignCheckpoint"} {
		fn := need(name)
		if fn == nil {
			continue
		}
		// the ranged set must be BridgeValsetByTimestampMap[ValidatorCheckpointIdxMap[ValsetTimestampToIdxMap[ts].Index - 1].Timestamp]
		okPath := false
		okCmp := false
		for _, b := range fn.Blocks {
			if iff, ok := b.Instrs[len(b.Instrs)-1].(*ssa.If); ok {
				rel, _ := Cond(tm.Of(iff.Cond))
				if rel.Op == "call:bytes.Equal" && len(rel.Args) == 2 {
					a, bb := rel.Args[0], rel.Args[1]
					if a.Contains("BridgeValidator.EthereumAddress") && a.Contains("BridgeValsetByTimestampMap") && a.Contains("ValidatorCheckpointIdxMap") && a.Contains("ValsetTimestampToIdxMap") && a.Find(func(t *Term) bool {
						return t.Op == "-" && len(t.Args) == 2 && t.Args[1].Op == "const:1" && t.Args[0].Contains("ValsetTimestampToIdxMap")
					}) != nil {
						okPath = true
					}
					if bb.Contains("EVMAddress.EVMAddress") && bb.Contains("OperatorToEVMAddressMap") {
						okCmp = true
					}
				}
			}
		}
		r.check(okPath && okCmp, "SLOTS", name+" # slot = position of the signer's registered EVM address in the previous set", P.Pos(fn.Pos()), fmt.Sprintf("previous set reached via timestamp->index, index-1->timestamp, timestamp->set: %v ; compared with the operator's registered address: %v", okPath, okCmp))
	}
	if sb := P.Func("(x/bridge/keeper.Keeper).SetBridgeValsetSignature"); sb != nil {
		for _, c := range P.CallSitesIn(sb) {
			if c.Callee == "(*x/bridge/types.BridgeValsetSignatures).SetSignature" {
				idx := tm.Of(Arg(c.Instr, 0))
				r.check(idx.Brief() == "loopvar" || idx.Op == "phi" || strings.Contains(idx.String(), "phi"), "SLOTS", "(x/bridge/keeper.Keeper).SetBridgeValsetSignature # writes the slot of the matching position", P.Pos(c.Pos()), "index: "+idx.Brief())
			}
		}
		var getK, setK string
		for _, c := range P.CallSitesIn(sb) {
			if c.Desc() == "coll:x/bridge/keeper.Keeper.BridgeValsetSignaturesMap.Get" {
				getK = tm.Of(Arg(c.Instr, 1)).Op
			}
			if c.Desc() == "coll:x/bridge/keeper.Keeper.BridgeValsetSignaturesMap.Set" {
				setK = tm.Of(Arg(c.Instr, 1)).Op
			}
		}
		r.check(getK == "param:3:uint64" && setK == getK, "SLOTS", "(x/bridge/keeper.Keeper).SetBridgeValsetSignature # signature array read and written under the signed checkpoint's timestamp", P.Pos(sb.Pos()), getK+" / "+setK)
	}
	if bs := P.Func("(*x/bridge/types.BridgeValsetSignatures).SetSignature"); bs != nil {
		r.fn(FuncName(bs))
		fe := newFailEngine(P)
		ug, gd, _ := fe.LocalOrigins(bs)
		var idx []string
		for _, o := range ug {
			if o.Kind == "index" {
				idx = append(idx, o.Desc)
			}
		}
		sort.Strings(idx)
		r.check(len(idx) == 0, "SLOTS", "(*x/bridge/types.BridgeValsetSignatures).SetSignature # slot index bounds-guarded", P.Pos(bs.Pos()), fmt.Sprintf("%d guarded index sites, unguarded: %v", gd, idx))
	}
	// the index that selects the previous set is read after the new checkpoint took its index: read earlier,
	// "index - 1" names the set before the previous one and the slots are sized for the wrong set
	if sp := need("(x/bridge/keeper.Keeper).SetBridgeValidatorParams"); sp != nil {
		ps := AnalyzePaths(sp, []Atom{{Name: "indexed", Event: P.CallEvent(func(c *CallSite) bool {
			return c.Callee == "(x/bridge/keeper.Keeper).CalculateValidatorSetCheckpoint"
		}, T)}})
		n := 0
		for _, cs := range P.Sites(descIs("coll:x/bridge/keeper.Keeper.LatestCheckpointIdx.Get")) {
			if TopFunc(cs.Fn) != sp {
				continue
			}
			n++
			bad := ps.Require(cs.Instr, func(v map[string]bool) bool { return v["indexed"] })
			r.check(len(bad) == 0, "SLOTS", "(x/bridge/keeper.Keeper).SetBridgeValidatorParams # the latest checkpoint index is read after the new checkpoint was given its index", P.Pos(cs.Pos()), fmt.Sprintf("valuations: %v", statesStr(ps, cs.Instr)))
		}
		r.check(n == 1, "SLOTS", "(x/bridge/keeper.Keeper).SetBridgeValidatorParams # one read of the latest checkpoint index", P.Pos(sp.Pos()), fmt.Sprint(n))
		// and CalculateValidatorSetCheckpoint is the function that advances the index
		if cc := need("(x/bridge/keeper.Keeper).CalculateValidatorSetCheckpoint"); cc != nil {
			w := 0
			for _, cs := range P.Sites(descIs("coll:x/bridge/keeper.Keeper.LatestCheckpointIdx.Set")) {
				if TopFunc(cs.Fn) == cc {
					w++
				}
			}
			r.check(w >= 1, "SLOTS", "(x/bridge/keeper.Keeper).CalculateValidatorSetCheckpoint # advances the latest checkpoint index", P.Pos(cc.Pos()), fmt.Sprintf("%d stores", w))
		}
	}
	// a delivered signature is written into its checkpoint's slots on every success path (only the very
	// first checkpoint needs none): a success that drops the signature leaves a step of the chain unsignable
	if ss := need("(x/bridge/keeper.Keeper).SetBridgeValsetSignature"); ss != nil {
		tmS := NewTermer()
		ps := AnalyzePaths(ss, []Atom{
			{Name: "first", Cond: func(rel *Term) (bool, bool) {
				return rel.Op == "==" && len(rel.Args) == 2 && strings.HasSuffix(rel.Args[0].Op, "CheckpointIdx.Index") && rel.Args[1].Op == "const:0", true
			}},
			{Name: "stored", Event: P.CallEvent(descIs("coll:x/bridge/keeper.Keeper.BridgeValsetSignaturesMap.Set"), T)},
		})
		_ = tmS
		okAll, n := true, 0
		for _, ret := range SuccessReturns(ss) {
			n++
			if bad := ps.Require(ret, func(v map[string]bool) bool { return v["stored"] || v["first"] }); len(bad) > 0 {
				okAll = false
			}
		}
		r.check(okAll && n > 0 && len(ps.Matched["first"]) > 0, "SLOTS", "(x/bridge/keeper.Keeper).SetBridgeValsetSignature # every success return stored the signature, except for the first checkpoint", P.Pos(ss.Pos()), fmt.Sprintf("%d success returns", n))
	}
	// the set that is hashed is the set that is stored: the per-validator powers collected for the encoder are
	// distinct values (big.Int methods return their receiver, a reused scratch value makes all entries equal)
	{
		sites := bigIntLoopSites(P, func(fn *ssa.Function) bool {
			return FuncName(TopFunc(fn)) == "(x/bridge/keeper.Keeper).EncodeAndHashValidatorSet"
		})
		for _, s := range sites {
			r.check(s.fresh, "COHORT", s.fn+" # the power hashed for each validator is a value of that validator (not a reused big.Int)", s.pos, "origin: "+s.origin+fmt.Sprintf(" ; allocated in this iteration: %v", s.fresh))
		}
		r.check(len(sites) >= 1, "COHORT", "(x/bridge/keeper.Keeper).EncodeAndHashValidatorSet # collects one power per validator", "-", fmt.Sprint(len(sites)))
	}
	// signatures arrive one block late and are accepted for any stored checkpoint, not only the latest one: the function
	// fails only when one of its lookups / the decode / the store fails, it has no rejection of its own
	if ss := P.Func("(x/bridge/keeper.Keeper).SetBridgeValsetSignature"); ss != nil {
		tms := NewTermer()
		n, own := 0, ""
		for _, b := range ss.Blocks {
			ret, isRet := b.Instrs[len(b.Instrs)-1].(*ssa.Return)
			if !isRet || !DefinitelyFails(ret) {
				continue
			}
			n++
			e := tms.Of(ResultOf(ret, 0))
			propagated := (strings.HasPrefix(e.Op, "ext:") && len(e.Args) == 1 && strings.HasPrefix(e.Args[0].Op, "call:")) || (strings.HasPrefix(e.Op, "call:") && strings.Contains(e.Op, "Keeper.") || strings.HasPrefix(e.Op, "call:(*cosmossdk.io/collections") || strings.HasPrefix(e.Op, "call:(cosmossdk.io/collections"))
			if e.Op == "phi" {
				propagated = true
				for _, a := range e.Args {
					if !(strings.HasPrefix(a.Op, "ext:") || strings.HasPrefix(a.Op, "call:(")) {
						propagated = false
					}
				}
			}
			if strings.HasPrefix(e.Op, "call:fmt.Errorf") || strings.HasPrefix(e.Op, "call:errors.New") || strings.HasPrefix(e.Op, "global:") || strings.Contains(e.Op, "errors.Wrap") {
				propagated = false
			}
			if !propagated {
				own = P.Pos(ret.Pos()) + ": " + clip(e.String(), 100)
			}
		}
		r.check(own == "" && n >= 5, "SLOTS", "(x/bridge/keeper.Keeper).SetBridgeValsetSignature # a signature is refused only when a lookup, the decode or the store fails (no rejection of older checkpoints)", P.Pos(ss.Pos()), fmt.Sprintf("%d failing returns ; own rejection: %s", n, own))
	}
	// PowerDiff: per validator address the entry is old power, minus new power where both exist, or minus new power alone
	if pd := P.Func("(x/bridge/keeper.Keeper).PowerDiff"); pd == nil {
		r.broken("anchor PowerDiff does not resolve")
	} else {
		tmd := NewTermer()
		var forms []string
		plainLookup := false
		for _, b := range pd.Blocks {
			for _, in := range b.Instrs {
				if mu, ok := in.(*ssa.MapUpdate); ok {
					v := tmd.Of(mu.Value)
					switch {
					case v.Op == "-" && len(v.Args) == 2 && v.Args[0].Contains("lookup") && v.Args[1].Contains("GetPower"):
						forms = append(forms, "old-new")
						if bo, ok := mu.Value.(*ssa.BinOp); ok {
							if lk, ok := bo.X.(*ssa.Lookup); ok && !lk.CommaOk {
								plainLookup = true
							}
						}
					case v.Op == "neg" && v.Contains("GetPower"):
						forms = append(forms, "-new")
					case (v.Op == "convert" || strings.HasPrefix(v.Op, "convert") || strings.HasPrefix(v.Op, "call:") || strings.HasPrefix(v.Op, "changetype")) && v.Contains("GetPower") && !v.Contains("lookup"):
						forms = append(forms, "old")
					default:
						forms = append(forms, "other: "+clip(v.String(), 80))
					}
				}
			}
		}
		sort.Strings(forms)
		// `powers[k] -= new` reads a missing key as zero: the single form old-new then covers the new validator as well
		okForms := fmt.Sprint(forms) == "[-new old old-new]" || (fmt.Sprint(forms) == "[old old-new]" && plainLookup)
		r.check(okForms, "UPDATE-RULE", "(x/bridge/keeper.Keeper).PowerDiff # per-address entries: old power, old - new where both exist, -new for a new validator", P.Pos(pd.Pos()), fmt.Sprint(forms))
	}
	// PowerDiff: the shift is the sum of the absolute per-address changes (gains and losses of different validators do not
	// cancel), relative to the old set's total power
	if pd := P.Func("(x/bridge/keeper.Keeper).PowerDiff"); pd != nil {
		tmd := NewTermer()
		okNum, okDen, got := false, false, ""
		for _, ret := range allReturns(pd) {
			q, ok := ret.Results[0].(*ssa.BinOp)
			if !ok || q.Op != token.QUO {
				continue
			}
			got = clip(tmd.Of(q).String(), 200)
			// numerator: accumulator * 10^6, the accumulator growing by absInt64(map value) on every iteration
			if m, ok := q.X.(*ssa.BinOp); ok && m.Op == token.MUL {
				for _, side := range []ssa.Value{m.X, m.Y} {
					phi, ok := side.(*ssa.Phi)
					if !ok {
						continue
					}
					grows, other := 0, 0
					for _, e := range phi.Edges {
						if c, isC := e.(*ssa.Const); isC && c.Value != nil && c.Int64() == 0 {
							continue
						}
						add, isAdd := e.(*ssa.BinOp)
						if !isAdd || add.Op != token.ADD {
							other++
							continue
						}
						var inc ssa.Value
						switch {
						case add.X == ssa.Value(phi):
							inc = add.Y
						case add.Y == ssa.Value(phi):
							inc = add.X
						}
						call, isCall := inc.(*ssa.Call)
						if inc != nil && isCall && CalleeName(call.Common()) == "x/bridge/keeper.absInt64" && len(call.Call.Args) == 1 {
							if ex, isEx := call.Call.Args[0].(*ssa.Extract); isEx && ex.Index == 2 {
								if _, isNext := ex.Tuple.(*ssa.Next); isNext {
									grows++
									continue
								}
							}
						}
						other++
					}
					okNum = grows == 1 && other == 0
				}
			}
			// denominator: the total of the old set's powers (first parameter set)
			if phi, ok := q.Y.(*ssa.Phi); ok {
				t := tmd.Of(phi)
				okDen = t.Contains("GetPower") && !t.Contains("param:3:")
			}
		}
		r.check(okNum, "UPDATE-RULE", "(x/bridge/keeper.Keeper).PowerDiff # the shift adds up the absolute value of every address's change", P.Pos(pd.Pos()), got)
		r.check(okDen, "UPDATE-RULE", "(x/bridge/keeper.Keeper).PowerDiff # the shift is relative to the old set's total power", P.Pos(pd.Pos()), got)
		if ab := P.Func("x/bridge/keeper.absInt64"); ab == nil {
			r.broken("anchor absInt64 does not resolve")
		} else {
			pa := AnalyzePaths(ab, []Atom{{Name: "neg", Stable: true, Cond: func(rel *Term) (bool, bool) {
				if rel.Op == "<" && len(rel.Args) == 2 && rel.Args[0].V == ssa.Value(ab.Params[0]) && rel.Args[1].Op == "const:0" {
					return true, true
				}
				if rel.Op == "<=" && len(rel.Args) == 2 && rel.Args[0].Op == "const:0" && rel.Args[1].V == ssa.Value(ab.Params[0]) {
					return true, false
				}
				return false, false
			}}})
			okAbs := true
			for _, ret := range allReturns(ab) {
				t := tmd.Of(ret.Results[0])
				var need func(v map[string]bool) bool
				switch {
				case t.V == ssa.Value(ab.Params[0]):
					need = func(v map[string]bool) bool { return !v["neg"] }
				case (t.Op == "neg" && len(t.Args) == 1 && t.Args[0].V == ssa.Value(ab.Params[0])) || (t.Op == "-" && len(t.Args) == 2 && t.Args[0].Op == "const:0" && t.Args[1].V == ssa.Value(ab.Params[0])):
					need = func(v map[string]bool) bool { return v["neg"] }
				default:
					okAbs = false
					continue
				}
				if len(pa.Require(ret, need)) > 0 {
					okAbs = false
				}
			}
			r.check(okAbs, "UPDATE-RULE", "x/bridge/keeper.absInt64 # x when x >= 0, -x otherwise", P.Pos(ab.Pos()), "")
		}
	}
	// the records of one checkpoint are stored together: no success path writes some of them and returns
	for _, spec := range []struct {
		fn   string
		sets []string
		what string
	}{
		{"(x/bridge/keeper.Keeper).CalculateValidatorSetCheckpoint", []string{"ValidatorCheckpointParamsMap", "ValidatorCheckpointIdxMap", "LatestCheckpointIdx", "ValsetTimestampToIdxMap"}, "params, index -> timestamp, latest index and timestamp -> index are all stored"},
		{"(x/bridge/keeper.Keeper).SetBridgeValidatorParams", []string{"ValidatorCheckpoint", "BridgeValsetByTimestampMap", "BridgeValsetSignaturesMap"}, "the checkpoint, the set by timestamp and the empty signature slots are all stored"},
	} {
		fn := P.Func(spec.fn)
		if fn == nil {
			r.broken("anchor %s does not resolve", spec.fn)
			continue
		}
		var atoms []Atom
		for _, c := range spec.sets {
			atoms = append(atoms, Atom{Name: c, Event: P.CallEvent(descIs("coll:x/bridge/keeper.Keeper."+c+".Set"), T)})
		}
		sets := spec.sets
		requireAtSuccess(r, "COHORT", fn, spec.what, atoms, func(v map[string]bool) bool {
			for _, c := range sets {
				if !v[c] {
					return false
				}
			}
			return true
		})
	}
	if fn := P.Func("(x/bridge/keeper.Keeper).CompareAndSetBridgeValidators"); fn != nil {
		requireAtSuccess(r, "COHORT", fn, "the saved set and its checkpoint are written together", []Atom{
			{Name: "set", Event: P.CallEvent(descIs("coll:x/bridge/keeper.Keeper.BridgeValset.Set"), T)},
			{Name: "params", Event: P.CallEvent(func(c *CallSite) bool { return c.Callee == "(x/bridge/keeper.Keeper).SetBridgeValidatorParams" }, T)},
		}, func(v map[string]bool) bool { return v["set"] == v["params"] })
	}
	r.minCount("MEMBERSHIP", 3)
	r.minCount("UPDATE-RULE", 5)
	r.minCount("COHORT", 7)
	r.minCount("SLOTS", 5)
}
