package main

// C04 — escrow accounts always cover what the chain says it owes
// (who may move escrowed coins; ledger delta = balance delta inside one handler; not the sums).

import (
	"fmt"
	"go/token"
	"sort"
	"strings"

	"golang.org/x/tools/go/ssa"
)

func init() { register("C04", checkC04) }

// c04Movers is the reviewed table of every coin movement between accounts and module accounts in the
// repository (mint and burn are the frame of C03). key: function | bank method | from -> to.
var c04Movers = map[string]string{
	"(x/oracle/keeper.Keeper).transfer|SendCoinsFromAccountToModule|account:param -> oracle":                            "a tip enters the oracle account (2% of it is burned there, the rest is added to Query.Amount)",
	"(x/oracle/keeper.Keeper).AllocateRewards|SendCoinsFromModuleToModule|param -> tips_escrow_pool":                    "tip or time-based reward moves into the tips escrow when it is credited to selectors; callers pass oracle / time_based_rewards",
	"(x/reporter/keeper.msgServer).WithdrawTip|SendCoinsFromModuleToModule|tips_escrow_pool -> bonded_tokens_pool":      "a selector's whole-token credit leaves the tips escrow as new stake",
	"(x/reporter/keeper.Keeper).tokensToDispute|SendCoinsFromModuleToModule|param -> dispute":                           "escrowed stake / fee from stake enters the dispute account from a staking pool",
	"(x/dispute/keeper.Keeper).PayFromAccount|SendCoinsFromAccountToModule|account:param -> dispute":                    "a dispute fee paid from an account enters the dispute account",
	"(x/dispute/keeper.Keeper).ReturnSlashedTokens|SendCoinsFromModuleToModule|dispute -> bonded_tokens_pool":           "escrowed stake goes back to the staking pool",
	"(x/dispute/keeper.Keeper).ReturnFeetoStake|SendCoinsFromModuleToModule|dispute -> bonded_tokens_pool":              "fee paid from stake goes back to the staking pool",
	"(x/dispute/keeper.Keeper).RewardReporterBondToFeePayers|SendCoinsFromModuleToModule|dispute -> bonded_tokens_pool": "the slashed bond is staked for a fee payer",
	"(x/dispute/keeper.Keeper).RefundDisputeFee|SendCoinsFromModuleToAccount|dispute -> account":                        "fee refund to a payer who paid from an account",
	"(x/dispute/keeper.Keeper).ClaimReward|SendCoinsFromModuleToAccount|dispute -> account":                             "voter reward",
	"(x/bridge/keeper.Keeper).WithdrawTokens|SendCoinsFromAccountToModule|account:param -> bridge":                      "bridge withdrawal: received and burned in the same call",
	"(x/bridge/keeper.Keeper).ClaimDeposit|SendCoinsFromModuleToAccount|bridge -> account":                              "bridge deposit: minted and paid out (tip, remainder) in the same call",
	"(x/mint/keeper.Keeper).SendInflationaryRewards|InputOutputCoins|mint -> outputs":                                   "the minted provision is split 3/4 - 1/4 between time_based_rewards and fee_collector (amounts and recipients decided by C03)",
}

func checkC04(r *Result) {
	P := r.P
	r.Explanation = "Structural rules around the four escrow accounts, decided on SSA: every bank call of the repository that moves coins between accounts and module accounts is one of the reviewed movers (function, method, constant source and destination) — in particular nothing but the listed functions can take coins out of oracle, tips_escrow_pool, dispute or bridge; inside a handler the ledger changes by what the account changes: a tip adds to Query.Amount exactly the coin that stayed in the oracle account (tip - 2% burned), stored on every success path; a payout moves the query's recorded amount and removes the query before the next iteration; a withdrawal of reward credit moves the truncated credit and leaves credit - truncated credit under the same key; the bridge account receives and burns the same coin on withdrawal, and on a claim pays out the minted coins as tip + (minted - tip) or minted; the sources handed to the parametric movers are the constants oracle / time_based_rewards and the two staking pools."
	r.NotDecided = "the solvency sums over histories (balance >= sum of ledger entries), that an entitled withdrawal never fails for lack of funds, rounding dust"
	r.Assumptions = []string{"x/bank moves exactly the coins given and keeps balances consistent", "the clauses of C03 (mint/burn frame), C09 (credits add up to the reward moved), C13 (dispute payouts once) hold"}
	r.rule("CENSUS-ESCROW", "every coin movement of the repository is one of the reviewed movers")
	r.rule("MOVER-SOURCES", "parametric movers are called only with the reviewed constant sources")
	r.rule("FEE-IN-FULL", "a dispute fee paid from stake reaches the dispute account in full: the amount moved is the amount the dispute module records as paid")
	r.rule("TIP-PAIR", "Query.Amount grows by exactly the coin that stays in the oracle account")
	r.rule("PAYOUT-PAIR", "a tip payout moves the query's recorded amount and the query is removed on the same path")
	r.rule("AMOUNT-ONCE", "an unpaid amount is never copied to a second open query")
	r.rule("WITHDRAW-PAIR", "a credit withdrawal moves trunc(credit) and stores credit - trunc(credit) under the same key")
	r.rule("CLAIM-SHARES", "the voter-reward shares paid out of the dispute account use numerators and denominators taken at the same block")
	r.rule("BRIDGE-EMPTY", "the bridge account pays out or burns within the call everything it received or minted")

	tm := NewTermer()
	pos := func(p token.Pos) string { return P.Pos(p) }
	need := func(name string) *ssa.Function {
		f := P.Func(name)
		if f == nil {
			r.broken("anchor %s does not resolve", name)
		} else {
			r.fn(name)
		}
		return f
	}
	acct := func(v ssa.Value) string {
		t := tm.Of(v)
		if strings.HasPrefix(t.Op, "const:") {
			return strings.TrimPrefix(t.Op, "const:")
		}
		if strings.HasPrefix(t.Op, "param:") && strings.HasSuffix(t.Op, ":string") {
			return "param"
		}
		return "?" + t.Brief()
	}
	// ---- CENSUS-ESCROW
	methods := map[string]bool{"SendCoinsFromModuleToModule": true, "SendCoinsFromModuleToAccount": true, "SendCoinsFromAccountToModule": true, "InputOutputCoins": true, "SendCoins": true, "DelegateCoinsFromAccountToModule": true, "UndelegateCoinsFromModuleToAccount": true, "DelegateCoins": true, "UndelegateCoins": true}
	got := map[string][]*CallSite{}
	for _, cs := range P.Sites(func(c *CallSite) bool {
		if !methods[c.Method] {
			return false
		}
		return (strings.HasPrefix(c.Callee, "iface:") && strings.Contains(c.Callee, "BankKeeper")) || strings.Contains(c.Callee, "cosmos-sdk/x/bank/keeper")
	}) {
		fn := FuncName(TopFunc(cs.Fn))
		var route string
		switch cs.Method {
		case "SendCoinsFromModuleToModule":
			route = acct(Arg(cs.Instr, 1)) + " -> " + acct(Arg(cs.Instr, 2))
		case "SendCoinsFromModuleToAccount":
			route = acct(Arg(cs.Instr, 1)) + " -> account"
		case "SendCoinsFromAccountToModule":
			a := "account"
			if strings.HasPrefix(tm.Of(Arg(cs.Instr, 1)).Op, "param:") {
				a = "account:param"
			}
			route = a + " -> " + acct(Arg(cs.Instr, 2))
		case "InputOutputCoins":
			t := tm.Of(Arg(cs.Instr, 1)).String()
			src := "?"
			if strings.Contains(t, "const:mint") {
				src = "mint"
			}
			route = src + " -> outputs"
		default:
			route = "?"
		}
		k := fn + "|" + cs.Method + "|" + route
		got[k] = append(got[k], cs)
	}
	var keys []string
	for k := range got {
		keys = append(keys, k)
	}
	for k := range c04Movers {
		if _, ok := got[k]; !ok {
			keys = append(keys, k)
		}
	}
	sort.Strings(keys)
	for _, k := range keys {
		why, known := c04Movers[k]
		where := "-"
		if len(got[k]) > 0 {
			where = pos(got[k][0].Pos())
		}
		switch {
		case !known:
			r.bad("CENSUS-ESCROW", k, where, "a coin movement that is not in the reviewed table of movers")
		case len(got[k]) == 0:
			r.bad("CENSUS-ESCROW", k, where, "reviewed mover no longer present: the table (and the pairing rules that rely on it) must be re-read")
		default:
			want := 1
			if strings.HasPrefix(k, "(x/bridge/keeper.Keeper).ClaimDeposit|") {
				want = 2
			}
			nsites := 0
			for _, g := range got[k] {
				nsites += Multiplicity(g.Fn)
			}
			r.check(nsites == want, "CENSUS-ESCROW", k, where, fmt.Sprintf("%d call sites (reviewed: %d) — %s", nsites, want, why))
		}
	}
	// ---- MOVER-SOURCES
	for _, cs := range P.Sites(func(c *CallSite) bool { return c.Callee == "(x/oracle/keeper.Keeper).AllocateRewards" }) {
		src := acct(Arg(cs.Instr, 3))
		amt := tm.Of(Arg(cs.Instr, 2))
		okPair := (src == "oracle" && strings.HasSuffix(amt.Op, "QueryMeta.Amount")) || (src == "time_based_rewards" && amt.Op == "call:(x/oracle/keeper.Keeper).GetTimeBasedRewards")
		r.check(okPair, "MOVER-SOURCES", FuncName(TopFunc(cs.Fn))+" # AllocateRewards takes a query's recorded tip from oracle, or the reward pool's balance from time_based_rewards", pos(cs.Pos()), src+" : "+amt.Brief())
	}
	for _, cs := range P.Sites(func(c *CallSite) bool { return c.Callee == "(x/reporter/keeper.Keeper).tokensToDispute" }) {
		t := tm.Of(Arg(cs.Instr, 1))
		ok := t.Op == "const:bonded_tokens_pool" || t.Op == "const:not_bonded_tokens_pool"
		if t.Op == "phi" {
			ok = len(t.Args) > 0
			for _, a := range t.Args {
				if a.Op != "const:bonded_tokens_pool" && a.Op != "const:not_bonded_tokens_pool" {
					ok = false
				}
			}
		}
		if strings.HasPrefix(t.Op, "param:") {
			// MoveTokensFromValidator forwards a pool it selected itself; checked at its own call
			ok = FuncName(TopFunc(cs.Fn)) == "(x/reporter/keeper.Keeper).tokensToDispute"
		}
		r.check(ok, "MOVER-SOURCES", FuncName(TopFunc(cs.Fn))+" # tokensToDispute source is a staking pool", pos(cs.Pos()), clip(t.String(), 100))
	}
	// ---- FEE-IN-FULL: the dispute module books the whole fee (payer record, FeeTotal) when FeefromReporterStake returns nil;
	// the amount that function moves must be that fee -- its parameter, or a value a dominating test found equal to it
	if ff := need("(x/reporter/keeper.Keeper).FeefromReporterStake"); ff != nil {
		isAmt := func(t *Term) bool { return strings.HasPrefix(t.Op, "param:3:") }
		pf := AnalyzePaths(ff, []Atom{{Name: "equalsFee", Cond: func(rel *Term) (bool, bool) {
			if rel.Op == "call:(cosmossdk.io/math.Int).Equal" && len(rel.Args) == 2 && (isAmt(rel.Args[0]) || isAmt(rel.Args[1])) {
				return true, true
			}
			return false, false
		}}})
		n := 0
		for _, cs := range P.CallSitesIn(ff) {
			if cs.Callee != "(x/reporter/keeper.Keeper).tokensToDispute" {
				continue
			}
			n++
			a := tm.Of(Arg(cs.Instr, 2))
			ok := isAmt(a)
			if !ok {
				ok = len(pf.Require(cs.Instr, func(v map[string]bool) bool { return v["equalsFee"] })) == 0
			}
			r.check(ok, "FEE-IN-FULL", "(x/reporter/keeper.Keeper).FeefromReporterStake # the amount moved to the dispute account is the fee", pos(cs.Pos()),
				"moved: "+clip(a.String(), 120)+" -- a sum of per-selector shares, each truncated to whole loya before unbonding, not compared with the fee")
		}
		r.check(n == 1, "FEE-IN-FULL", "(x/reporter/keeper.Keeper).FeefromReporterStake # one transfer to the dispute account", pos(ff.Pos()), fmt.Sprint(n))
	}
	// the first fee of a dispute: what is credited to the proposer and booked as the fee total is what was moved in
	if snd := need("(x/dispute/keeper.Keeper).SetNewDispute"); snd != nil {
		checkSameAmountVersion(r, "FEE-IN-FULL", snd)
	}
	// ---- TIP-PAIR
	if tr := need("(x/oracle/keeper.Keeper).transfer"); tr != nil {
		le := &linEval{Atomise: func(t *Term) string {
			if strings.HasPrefix(t.Op, "param:3:") || (strings.HasSuffix(t.Op, "Coin.Amount") && len(t.Args) == 1 && strings.HasPrefix(t.Args[0].Op, "param:3:")) {
				return "tip"
			}
			return ""
		}}
		var inAmt, burnAmt string
		for _, cs := range P.CallSitesIn(tr) {
			if isBankCall(cs, "SendCoinsFromAccountToModule") {
				inAmt = le.Eval(tm.Of(Arg(cs.Instr, 3))).String()
			}
			if isBankCall(cs, "BurnCoins") {
				burnAmt = le.Eval(tm.Of(Arg(cs.Instr, 2))).String()
			}
		}
		for _, ret := range SuccessReturns(tr) {
			out := le.Eval(tm.Of(ResultOf(ret, 0))).String()
			r.check(inAmt == "tip^1" && burnAmt == "1/50 * tip^1" && out == "49/50 * tip^1", "TIP-PAIR", "(x/oracle/keeper.Keeper).transfer # received tip, burned tip/50, returns what stayed in the oracle account", pos(ret.Pos()), fmt.Sprintf("received %s ; burned %s ; returned %s", inAmt, burnAmt, out))
		}
	}
	if tp := need("(x/oracle/keeper.msgServer).Tip"); tp != nil {
		// the stored query's Amount = previous (or zero) + transfer result
		var tcall ssa.Value
		for _, cs := range P.CallSitesIn(tp) {
			if cs.Callee == "(x/oracle/keeper.Keeper).transfer" {
				tcall = cs.Instr.Value()
			}
		}
		nSet := 0
		ps := AnalyzePaths(tp, []Atom{
			{Name: "took", Event: P.CallEvent(func(c *CallSite) bool { return c.Callee == "(x/oracle/keeper.Keeper).transfer" }, T)},
			{Name: "stored", Event: P.CallEvent(descIs("coll:x/oracle/keeper.Keeper.Query.Set"), T)},
		})
		// stores into the local QueryMeta.Amount
		var amtStores []*ssa.Store
		for _, b := range tp.Blocks {
			for _, in := range b.Instrs {
				if st, ok := in.(*ssa.Store); ok {
					if fa, ok := st.Addr.(*ssa.FieldAddr); ok && fieldName(fa.X.Type(), fa.Field) == "x/oracle/types.QueryMeta.Amount" {
						amtStores = append(amtStores, st)
					}
				}
			}
		}
		okAdd, det := false, fmt.Sprintf("%d stores to Query.Amount", len(amtStores))
		for _, st := range amtStores {
			c, ok := st.Val.(*ssa.Call)
			if !ok || CalleeName(c.Common()) != "(cosmossdk.io/math.Int).Add" {
				continue
			}
			// receiver: load of the same field; addend: Amount of the transfer result
			recv, add := tm.Of(c.Call.Args[0]), tm.Of(c.Call.Args[1])
			fromTransfer := add.Find(func(t *Term) bool { return t.Op == "call:(x/oracle/keeper.Keeper).transfer" }) != nil && strings.HasSuffix(add.Op, "Coin.Amount")
			selfRead := false
			if ld, ok := c.Call.Args[0].(*ssa.UnOp); ok {
				if fa, ok := ld.X.(*ssa.FieldAddr); ok && fieldName(fa.X.Type(), fa.Field) == "x/oracle/types.QueryMeta.Amount" && fa.X == st.Addr.(*ssa.FieldAddr).X {
					selfRead = true
				}
			}
			if fromTransfer && selfRead {
				okAdd = true
				det = "Amount = Amount + " + add.Brief() + " ; receiver " + recv.Brief()
			}
		}
		// the other stores to Amount are the zero initialisation of a fresh query
		okOther := true
		for _, st := range amtStores {
			if c, ok := st.Val.(*ssa.Call); ok && CalleeName(c.Common()) == "(cosmossdk.io/math.Int).Add" {
				continue
			}
			if tm.Of(st.Val).Op != "call:cosmossdk.io/math.ZeroInt" {
				okOther = false
				det += " ; other store " + tm.Of(st.Val).Brief()
			}
		}
		r.check(okAdd && okOther && tcall != nil && len(amtStores) == 2, "TIP-PAIR", "(x/oracle/keeper.msgServer).Tip # Query.Amount = previous amount (zero for a fresh query) + the coin returned by transfer", pos(tp.Pos()), det)
		for _, cs := range P.Sites(descIs("coll:x/oracle/keeper.Keeper.Query.Set")) {
			if TopFunc(cs.Fn) == tp {
				nSet++
			}
		}
		okPaths := nSet == 1
		for _, ret := range SuccessReturns(tp) {
			if bad := ps.Require(ret, func(v map[string]bool) bool { return v["took"] && v["stored"] }); len(bad) > 0 {
				okPaths = false
			}
		}
		r.check(okPaths, "TIP-PAIR", "(x/oracle/keeper.msgServer).Tip # every success path took the tip and stored the query", pos(tp.Pos()), fmt.Sprintf("%d Query.Set sites", nSet))
	}
	// ---- PAYOUT-PAIR
	for _, cs := range P.Sites(func(c *CallSite) bool { return c.Callee == "(x/oracle/keeper.Keeper).AllocateRewards" }) {
		if acct(Arg(cs.Instr, 3)) != "oracle" {
			continue
		}
		fn := TopFunc(cs.Fn)
		r.fn(FuncName(fn))
		amt := tm.Of(Arg(cs.Instr, 2))
		r.check(strings.HasSuffix(amt.Op, "QueryMeta.Amount"), "PAYOUT-PAIR", FuncName(fn)+" # the payout is the query's recorded amount", pos(cs.Pos()), amt.Brief())
		// after the payout, every path to the next iteration or a success return passes Query.Remove
		call := cs.Instr
		ps := AnalyzePaths(fn, []Atom{
			{Name: "paid", Event: func(in ssa.Instruction) (bool, int8) {
				if in == call {
					return true, T
				}
				return false, U
			}},
			{Name: "removed", Event: P.CallEvent(descIs("coll:x/oracle/keeper.Keeper.Query.Remove"), T)},
		})
		ok := true
		why := ""
		// at the loop back edges and success returns: paid => removed ; and 'paid' is reset at the loop head
		for _, h := range loopHeaders(fn) {
			if !h.Dominates(call.Block()) {
				continue
			}
			for _, p := range h.Preds {
				if !h.Dominates(p) {
					continue
				}
				for _, s := range ps.At(p.Instrs[len(p.Instrs)-1]) {
					if int8(s[0]) == T && int8(s[1]) != T {
						ok = false
						why = fmt.Sprintf("back edge from block %d reached after a payout without removing the query", p.Index)
					}
				}
			}
		}
		r.check(ok, "PAYOUT-PAIR", FuncName(fn)+" # a paid query is removed before the next round is looked at", pos(cs.Pos()), why)
		// the removed key is the key of the paid query (same iteration key)
		for _, rm := range P.Sites(descIs("coll:x/oracle/keeper.Keeper.Query.Remove")) {
			if TopFunc(rm.Fn) != fn {
				continue
			}
			k := tm.Of(Arg(rm.Instr, 1)).String()
			same := false
			for _, g := range P.Sites(descIs("coll:x/oracle/keeper.Keeper.Query.Get")) {
				if TopFunc(g.Fn) == fn && tm.Of(Arg(g.Instr, 1)).String() == k && amt.Contains("Keeper.Query") {
					same = true
				}
			}
			r.check(same, "PAYOUT-PAIR", FuncName(fn)+" # the removed entry is the one whose amount was paid (same key as the read)", pos(rm.Pos()), clip(k, 120))
		}
	}
	// ---- AMOUNT-ONCE: a fresh round id for a query value that already exists must not duplicate its unpaid amount
	nNext := 0
	for _, cs := range P.Sites(descIs("coll:x/oracle/keeper.Keeper.QuerySequencer.Next")) {
		fn := TopFunc(cs.Fn)
		nNext++
		r.fn(FuncName(fn))
		// does the function build a new QueryMeta (the id goes into a struct that is not a copy of an
		// existing query) or renumber one it was given?
		fresh := false
		if v := cs.Instr.Value(); v != nil {
			for _, ref := range *v.Referrers() {
				ex, ok := ref.(*ssa.Extract)
				if !ok || ex.Index != 0 {
					continue
				}
				for _, use := range *ex.Referrers() {
					st, ok := use.(*ssa.Store)
					if !ok {
						continue
					}
					fa, ok := st.Addr.(*ssa.FieldAddr)
					if !ok || fieldName(fa.X.Type(), fa.Field) != "x/oracle/types.QueryMeta.Id" {
						continue
					}
					al, ok := fa.X.(*ssa.Alloc)
					if !ok {
						continue
					}
					copied := false
					for _, r2 := range *al.Referrers() {
						if s2, ok := r2.(*ssa.Store); ok && s2.Addr == ssa.Value(al) {
							copied = true // whole-struct store: the struct is a copy of some existing value
						}
					}
					fresh = !copied
				}
			}
		}
		if fresh {
			r.ok("AMOUNT-ONCE", FuncName(fn)+" # the fresh id names a newly built query (its amount is what Tip adds afterwards)", pos(cs.Pos()), "the id goes into a newly built query value")
			continue
		}
		ps := AnalyzePaths(fn, []Atom{{Name: "noTip", Cond: func(rel *Term) (bool, bool) {
			if rel.Op == "==" && len(rel.Args) == 2 && strings.HasSuffix(rel.Args[0].Op, "QueryMeta.Amount") && rel.Args[1].Op == "const:0" {
				return true, true
			}
			return false, false
		}}})
		bad := ps.Require(cs.Instr, func(v map[string]bool) bool { return v["noTip"] })
		r.check(len(bad) == 0 && len(ps.Matched["noTip"]) > 0, "AMOUNT-ONCE", FuncName(fn)+" # an existing query is renumbered (copied under a fresh id) only when it carries no unpaid amount", pos(cs.Pos()), fmt.Sprintf("valuations: %v — the copy would record the same coins a second time", statesStr(ps, cs.Instr)))
	}
	r.check(nNext == 3, "AMOUNT-ONCE", "sites that take a fresh round id", "-", fmt.Sprintf("%d (reviewed: 3)", nNext))
	// ---- WITHDRAW-PAIR
	if wt := need("(x/reporter/keeper.msgServer).WithdrawTip"); wt != nil {
		var moved ssa.Value
		for _, cs := range P.CallSitesIn(wt) {
			if isBankCall(cs, "SendCoinsFromModuleToModule") {
				moved = Arg(cs.Instr, 3)
			}
		}
		le := &linEval{Atomise: func(t *Term) string {
			if t.Op == "ext:0" && t.Contains("Keeper.SelectorTips") && t.Contains("collections.Map).Get") {
				return "credit"
			}
			return ""
		}}
		mv := "none"
		var mvTrunc bool
		if moved != nil {
			p := le.Eval(tm.Of(digCoinAmount(moved)))
			mv, mvTrunc = p.String(), p.Trunc
		}
		direct := false
		if moved != nil {
			t := tm.Of(digCoinAmount(moved))
			for t != nil && len(t.Args) == 1 && (strings.HasPrefix(t.Op, "call:cosmossdk.io/math.NewInt") || strings.HasPrefix(t.Op, "call:(cosmossdk.io/math.Int).Uint64") || strings.HasPrefix(t.Op, "call:(cosmossdk.io/math.Int).Int64") || t.Op == "ref") {
				t = t.Args[0]
			}
			direct = t != nil && t.Op == "call:(cosmossdk.io/math.LegacyDec).TruncateInt" && len(t.Args) == 1 && le.Eval(t.Args[0]).String() == "credit^1" && t.Args[0].Op == "ext:0"
			if !direct && t != nil {
				mv += " via " + clip(t.String(), 120)
			}
		}
		r.check(mv == "credit^1" && mvTrunc && direct, "WITHDRAW-PAIR", "(x/reporter/keeper.msgServer).WithdrawTip # moved = TruncateInt(stored credit)", pos(wt.Pos()), fmt.Sprintf("%s (truncated: %v, direct: %v)", mv, mvTrunc, direct))
		// the credit left: Set(key, credit - TruncateDec(credit)) or Remove(key) when that is zero
		var getKey, setKey, rmKey string
		var setVal *Term
		for _, cs := range P.Sites(func(c *CallSite) bool {
			return strings.HasPrefix(c.Desc(), "coll:x/reporter/keeper.Keeper.SelectorTips.")
		}) {
			if TopFunc(cs.Fn) != wt {
				continue
			}
			k := tm.Of(Arg(cs.Instr, 1)).String()
			switch {
			case strings.HasSuffix(cs.Desc(), ".Get"):
				getKey = k
			case strings.HasSuffix(cs.Desc(), ".Set"):
				setKey, setVal = k, tm.Of(Arg(cs.Instr, 2))
			case strings.HasSuffix(cs.Desc(), ".Remove"):
				rmKey = k
			}
		}
		okRem := false
		det := ""
		if setVal != nil {
			det = clip(setVal.String(), 200)
			// credit - TruncateDec(credit): LIN sees credit - credit with a truncation mark; check the shape on the term instead
			okRem = setVal.Op == "call:(cosmossdk.io/math.LegacyDec).Sub" && len(setVal.Args) == 2 && le.Eval(setVal.Args[0]).String() == "credit^1" && setVal.Args[1].Op == "call:(cosmossdk.io/math.LegacyDec).TruncateDec" && le.Eval(setVal.Args[1].Args[0]).String() == "credit^1"
		}
		r.check(okRem && getKey != "" && getKey == setKey && getKey == rmKey, "WITHDRAW-PAIR", "(x/reporter/keeper.msgServer).WithdrawTip # credit left = credit - trunc(credit), under the key that was read (removed when zero)", pos(wt.Pos()), det)
		ps := AnalyzePaths(wt, []Atom{
			{Name: "moved", Event: P.CallEvent(func(c *CallSite) bool { return isBankCall(c, "SendCoinsFromModuleToModule") }, T)},
			{Name: "reduced", Event: P.CallEvent(func(c *CallSite) bool {
				return c.Desc() == "coll:x/reporter/keeper.Keeper.SelectorTips.Set" || c.Desc() == "coll:x/reporter/keeper.Keeper.SelectorTips.Remove"
			}, T)},
		})
		ok := true
		for _, ret := range SuccessReturns(wt) {
			if bad := ps.Require(ret, func(v map[string]bool) bool { return v["moved"] == v["reduced"] }); len(bad) > 0 {
				ok = false
			}
		}
		r.check(ok, "WITHDRAW-PAIR", "(x/reporter/keeper.msgServer).WithdrawTip # coins move exactly when the credit is reduced", pos(wt.Pos()), "")
	}
	// ---- BRIDGE-EMPTY
	if wd := need("(x/bridge/keeper.Keeper).WithdrawTokens"); wd != nil {
		var in, burn string
		for _, cs := range P.CallSitesIn(wd) {
			if isBankCall(cs, "SendCoinsFromAccountToModule") {
				in = acct(Arg(cs.Instr, 2)) + ":" + coinsAmount(Arg(cs.Instr, 3)).String()
			}
			if isBankCall(cs, "BurnCoins") {
				burn = acct(Arg(cs.Instr, 1)) + ":" + coinsAmount(Arg(cs.Instr, 2)).String()
			}
		}
		ps := AnalyzePaths(wd, []Atom{
			{Name: "in", Event: P.CallEvent(func(c *CallSite) bool { return isBankCall(c, "SendCoinsFromAccountToModule") }, T)},
			{Name: "burned", Event: P.CallEvent(func(c *CallSite) bool { return isBankCall(c, "BurnCoins") }, T)},
		})
		ok := in != "" && in == burn && strings.HasPrefix(in, "bridge:")
		for _, ret := range SuccessReturns(wd) {
			if bad := ps.Require(ret, func(v map[string]bool) bool { return v["in"] && v["burned"] }); len(bad) > 0 {
				ok = false
			}
		}
		r.check(ok, "BRIDGE-EMPTY", "(x/bridge/keeper.Keeper).WithdrawTokens # what the bridge account receives it burns, on every success path", pos(wd.Pos()), "received "+in+" ; burned "+burn)
	}
	if cd := need("(x/bridge/keeper.Keeper).ClaimDeposit"); cd != nil {
		var minted ssa.Value
		var sends []*CallSite
		for _, cs := range P.CallSitesIn(cd) {
			if isBankCall(cs, "MintCoins") {
				minted = Arg(cs.Instr, 2)
			}
			if isBankCall(cs, "SendCoinsFromModuleToAccount") {
				sends = append(sends, cs)
			}
		}
		ok, det := false, fmt.Sprintf("%d payout sites", len(sends))
		if minted != nil && len(sends) == 2 {
			// one payout sends X (the tip) and sits in the block that computes minted - X; the other sends phi(minted, minted - X)
			var tipSend, restSend *CallSite
			for _, s := range sends {
				if _, isPhi := Arg(s.Instr, 3).(*ssa.Phi); isPhi {
					restSend = s
				} else {
					tipSend = s
				}
			}
			if tipSend != nil && restSend != nil {
				ph := Arg(restSend.Instr, 3).(*ssa.Phi)
				tipVal := Arg(tipSend.Instr, 3)
				okEdges := len(ph.Edges) == 2
				seenPlain, seenSub := false, false
				for i, e := range ph.Edges {
					if e == minted {
						seenPlain = true
						// no tip was sent on this edge: the tip send does not dominate the predecessor
						if tipSend.Instr.Block().Dominates(ph.Block().Preds[i]) {
							okEdges = false
						}
						continue
					}
					if c, isCall := e.(*ssa.Call); isCall && strings.HasSuffix(CalleeName(c.Common()), "types.Coins).Sub") && c.Call.Args[0] == minted {
						subt := c.Call.Args[1]
						if reachesSameValue(subt, tipVal) && tipSend.Instr.Block().Dominates(ph.Block().Preds[i]) {
							seenSub = true
							continue
						}
					}
					okEdges = false
				}
				ok = okEdges && seenPlain && seenSub
				det = fmt.Sprintf("payout = phi(minted, minted - tip): plain edge %v, tip edge %v", seenPlain, seenSub)
			}
		}
		r.check(ok, "BRIDGE-EMPTY", "(x/bridge/keeper.Keeper).ClaimDeposit # the minted coins leave the bridge account as tip + (minted - tip), or whole", pos(cd.Pos()), det)
		ps := AnalyzePaths(cd, []Atom{
			{Name: "minted", Event: P.CallEvent(func(c *CallSite) bool { return isBankCall(c, "MintCoins") }, T)},
			{Name: "paid", Event: func(in ssa.Instruction) (bool, int8) {
				if c, ok := in.(ssa.CallInstruction); ok {
					if cs := P.siteOf(c); cs != nil && isBankCall(cs, "SendCoinsFromModuleToAccount") {
						if _, isPhi := Arg(cs.Instr, 3).(*ssa.Phi); isPhi {
							return true, T
						}
					}
				}
				return false, U
			}},
		})
		okP := true
		for _, ret := range SuccessReturns(cd) {
			if bad := ps.Require(ret, func(v map[string]bool) bool { return v["minted"] == v["paid"] }); len(bad) > 0 {
				okP = false
			}
		}
		r.check(okP, "BRIDGE-EMPTY", "(x/bridge/keeper.Keeper).ClaimDeposit # every success path that minted paid the remainder out", pos(cd.Pos()), "")
	}
	// the dispute account pays voter rewards out of one pot per dispute: the shares add up to at most that pot only
	// if a claimant's tips and the group total they are divided by are tips at the same height
	{
		ok, det, pos := divvyShareForm(P)
		r.check(ok, "CLAIM-SHARES", "(x/reporter/keeper.Keeper).DivvyingTips # each origin is credited (reward - commission) x its own amount / snapshot total: the credits of a payout do not exceed what was moved into the tips escrow", P.Pos(pos), det)
	}
	checkTipsBlock(r, "CLAIM-SHARES")
	r.minCount("CLAIM-SHARES", 4)
	r.minCount("CENSUS-ESCROW", 13)
	r.minCount("MOVER-SOURCES", 5)
	r.minCount("TIP-PAIR", 3)
	r.minCount("PAYOUT-PAIR", 2)
	r.minCount("WITHDRAW-PAIR", 3)
	r.minCount("AMOUNT-ONCE", 4)
	r.minCount("BRIDGE-EMPTY", 3)
}

// reachesSameValue: a and b are the same value up to the slice built for a variadic call.
func reachesSameValue(a, b ssa.Value) bool {
	if a == b {
		return true
	}
	for _, e := range variadicElemValues(a) {
		if e == b {
			return true
		}
	}
	// a is `tip...` (the Coins value itself passed as the variadic slice)
	if c, ok := a.(*ssa.ChangeType); ok && c.X == b {
		return true
	}
	if c, ok := b.(*ssa.ChangeType); ok && c.X == a {
		return true
	}
	return false
}
