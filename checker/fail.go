package main

// FAIL — failure-origin census: every construct that can make a block hook (or a
// vote-extension handler) panic or return an error is enumerated from the SSA of
// the functions reachable from it, structural guards are recognised, and what
// remains must be listed in a triage table.

import (
	"fmt"
	"go/constant"
	"go/token"
	"go/types"
	"sort"
	"strconv"
	"strings"

	"golang.org/x/tools/go/ssa"
)

type Origin struct {
	Fn   *ssa.Function
	Kind string // panic | must | assert | index | div | err-local | err-ext | err-opaque
	Desc string
	Pos  token.Pos
	Qual string
}

func (o *Origin) Key() string {
	k := FuncName(TopFunc(o.Fn)) + " # " + o.Kind + ":" + o.Desc
	if o.Qual != "" {
		k += " {" + o.Qual + "}"
	}
	return k
}

type failEngine struct {
	P     *Prog
	memo  map[*ssa.Function][]*Origin
	busy  map[*ssa.Function]bool
	nfMem map[string]bool
}

func newFailEngine(P *Prog) *failEngine {
	return &failEngine{P: P, memo: map[*ssa.Function][]*Origin{}, busy: map[*ssa.Function]bool{}, nfMem: map[string]bool{}}
}

var errCtorLocal = map[string]bool{"errors.New": true, "google.golang.org/grpc/status.Error": true, "google.golang.org/grpc/status.Errorf": true, "cosmossdk.io/errors.Register": true}

func isErrorType(t types.Type) bool { return t != nil && t.String() == "error" }

// constMsg extracts the first constant string among the call's arguments.
func constMsg(c *ssa.CallCommon) string {
	for _, a := range c.Args {
		if k, ok := a.(*ssa.Const); ok && k.Value != nil && k.Value.Kind() == constant.String {
			s := constant.StringVal(k.Value)
			if len(s) > 48 {
				s = s[:48]
			}
			return strconv.Quote(s)
		}
	}
	if len(c.Args) > 0 {
		return NewTermer().Of(c.Args[0]).Brief()
	}
	return ""
}

// ErrFlow returns the origins whose error value can reach fn's error result.
func (fe *failEngine) ErrFlow(fn *ssa.Function) []*Origin {
	if r, ok := fe.memo[fn]; ok {
		return r
	}
	if fe.busy[fn] {
		return nil
	}
	fe.busy[fn] = true
	defer func() { fe.busy[fn] = false }()
	var out []*Origin
	seen := map[string]bool{}
	add := func(o *Origin) {
		k := o.Key() + "@" + fe.P.Pos(o.Pos)
		if !seen[k] {
			seen[k] = true
			out = append(out, o)
		}
	}
	ei := errorResultIndex(fn)
	if ei >= 0 {
		for _, b := range fn.Blocks {
			if len(b.Instrs) == 0 || b == fn.Recover {
				continue
			}
			ret, ok := b.Instrs[len(b.Instrs)-1].(*ssa.Return)
			if !ok || ei >= len(ret.Results) {
				continue
			}
			fe.collect(fn, ResultOf(ret, ei), ret, add, map[ssa.Value]bool{}, 0)
		}
	}
	fe.memo[fn] = out
	return out
}

func (fe *failEngine) collect(fn *ssa.Function, v ssa.Value, ret *ssa.Return, add func(*Origin), visiting map[ssa.Value]bool, depth int) {
	if v == nil || visiting[v] || depth > 12 {
		return
	}
	visiting[v] = true
	switch x := v.(type) {
	case *ssa.Const:
		return
	case *ssa.Parameter, *ssa.FreeVar:
		if fv, ok := x.(*ssa.FreeVar); ok {
			// captured variable: follow the stores in the defining function
			par := fn.Parent()
			for i, f := range fn.FreeVars {
				if f == fv && par != nil {
					for _, b := range par.Blocks {
						for _, in := range b.Instrs {
							if mc, ok := in.(*ssa.MakeClosure); ok && mc.Fn == fn && i < len(mc.Bindings) {
								fe.collect(par, mc.Bindings[i], ret, add, visiting, depth+1)
							}
						}
					}
				}
			}
		}
		return
	case *ssa.Phi:
		for _, e := range x.Edges {
			fe.collect(fn, e, ret, add, visiting, depth+1)
		}
	case *ssa.ChangeInterface:
		fe.collect(fn, x.X, ret, add, visiting, depth+1)
	case *ssa.MakeInterface:
		add(&Origin{Fn: fn, Kind: "err-local", Desc: "boxed " + typeShort(x.X.Type()), Pos: x.Pos()})
	case *ssa.Extract:
		if c, ok := x.Tuple.(*ssa.Call); ok {
			fe.fromCall(fn, c, x, ret, add, visiting, depth)
		}
	case *ssa.Call:
		fe.fromCall(fn, x, x, ret, add, visiting, depth)
	case *ssa.UnOp:
		if x.Op != token.MUL {
			return
		}
		switch a := x.X.(type) {
		case *ssa.Global:
			add(&Origin{Fn: fn, Kind: "err-local", Desc: "sentinel " + short(a.RelString(nil)), Pos: x.Pos()})
		case *ssa.Alloc:
			for _, r := range *a.Referrers() {
				if st, ok := r.(*ssa.Store); ok && st.Addr == a {
					fe.collect(fn, st.Val, ret, add, visiting, depth+1)
				}
			}
		case *ssa.FreeVar:
			// *captured: stores anywhere in parent or siblings
			par := fn.Parent()
			if par != nil {
				for i, f := range fn.FreeVars {
					if f != a {
						continue
					}
					for _, b := range par.Blocks {
						for _, in := range b.Instrs {
							if mc, ok := in.(*ssa.MakeClosure); ok && mc.Fn == fn && i < len(mc.Bindings) {
								if al, ok := mc.Bindings[i].(*ssa.Alloc); ok {
									for _, r := range *al.Referrers() {
										if st, ok := r.(*ssa.Store); ok && st.Addr == al {
											fe.collect(par, st.Val, ret, add, visiting, depth+1)
										}
									}
								}
							}
						}
					}
				}
			}
			// stores in this closure itself
			for _, r := range *a.Referrers() {
				if st, ok := r.(*ssa.Store); ok && st.Addr == a {
					fe.collect(fn, st.Val, ret, add, visiting, depth+1)
				}
			}
		default:
			add(&Origin{Fn: fn, Kind: "err-opaque", Desc: "load " + NewTermer().Of(x).Brief(), Pos: x.Pos()})
		}
	case *ssa.TypeAssert:
		fe.collect(fn, x.X, ret, add, visiting, depth+1)
	default:
		add(&Origin{Fn: fn, Kind: "err-opaque", Desc: fmt.Sprintf("%T", v), Pos: v.Pos()})
	}
}

func (fe *failEngine) fromCall(fn *ssa.Function, c *ssa.Call, val ssa.Value, ret *ssa.Return, add func(*Origin), visiting map[ssa.Value]bool, depth int) {
	cc := c.Common()
	name := CalleeName(cc)
	// constructors
	switch {
	case errCtorLocal[name]:
		add(&Origin{Fn: fn, Kind: "err-local", Desc: name + " " + constMsg(cc), Pos: c.Pos()})
		return
	case name == "fmt.Errorf" || name == "cosmossdk.io/errors.Wrap" || name == "cosmossdk.io/errors.Wrapf" || name == "github.com/pkg/errors.Wrap" || name == "github.com/pkg/errors.Wrapf" || name == "errors.Join":
		wrapped := false
		var args []ssa.Value
		args = append(args, cc.Args...)
		for _, a := range cc.Args {
			args = append(args, variadicElemValues(a)...)
		}
		for _, a := range args {
			inner := a
			if mi, ok := a.(*ssa.MakeInterface); ok {
				inner = mi.X
			}
			if ci, ok := a.(*ssa.ChangeInterface); ok {
				inner = ci.X
			}
			if isErrorType(inner.Type()) || types.Implements(inner.Type(), errorIface()) {
				wrapped = true
				fe.collect(fn, inner, ret, add, visiting, depth+1)
			}
		}
		if !wrapped {
			add(&Origin{Fn: fn, Kind: "err-local", Desc: name + " " + constMsg(cc), Pos: c.Pos()})
		}
		return
	case name == "(*cosmossdk.io/errors.Error).Wrap" || name == "(*cosmossdk.io/errors.Error).Wrapf":
		if len(cc.Args) > 0 {
			t := NewTermer().Of(cc.Args[0])
			g := t.Find(func(t *Term) bool { return strings.HasPrefix(t.Op, "global:") })
			d := "sentinel ?"
			if g != nil {
				d = "sentinel " + strings.TrimPrefix(g.Op, "global:")
			}
			add(&Origin{Fn: fn, Kind: "err-local", Desc: d, Pos: c.Pos()})
		}
		return
	}
	callees := fe.P.CalleesOfCall(c)
	if len(callees) > 0 {
		for _, g := range callees {
			for _, o := range fe.ErrFlow(g) {
				add(o)
			}
		}
		return
	}
	// dynamic call of a closure value defined in REPO
	if mc, ok := cc.Value.(*ssa.MakeClosure); ok {
		if f, ok := mc.Fn.(*ssa.Function); ok && f.Blocks != nil {
			for _, o := range fe.ErrFlow(f) {
				add(o)
			}
			return
		}
	}
	// external call: the callee itself is an origin; closures passed to it contribute theirs
	for _, a := range cc.Args {
		if mc, ok := a.(*ssa.MakeClosure); ok {
			if f, ok := mc.Fn.(*ssa.Function); ok && f.Blocks != nil {
				for _, o := range fe.ErrFlow(f) {
					add(o)
				}
			}
		}
	}
	cs := fe.P.siteOf(c)
	desc := name
	if cs != nil {
		desc = cs.Desc()
	}
	o := &Origin{Fn: fn, Kind: "err-ext", Desc: desc, Pos: c.Pos()}
	if ret != nil && ret.Parent() == fn {
		if fe.notFoundFiltered(fn, val, ret) {
			o.Qual = "not-found tolerated"
		}
	}
	add(o)
}

var errIfaceCache *types.Interface

func errorIface() *types.Interface {
	if errIfaceCache == nil {
		errIfaceCache = types.Universe.Lookup("error").Type().Underlying().(*types.Interface)
	}
	return errIfaceCache
}

// notFoundFiltered: every path to ret passes errors.Is(val, collections.ErrNotFound) == false.
func (fe *failEngine) notFoundFiltered(fn *ssa.Function, val ssa.Value, ret *ssa.Return) bool {
	atoms := []Atom{{Name: "nf", Cond: func(rel *Term) (bool, bool) {
		if rel.Op == "call:errors.Is" && len(rel.Args) == 2 && rel.Args[0].V == val && strings.Contains(rel.Args[1].Op, "ErrNotFound") {
			return true, true
		}
		return false, false
	}}}
	ps := AnalyzePaths(fn, atoms)
	sts := ps.At(ret)
	if len(sts) == 0 {
		return false
	}
	for _, s := range sts {
		if int8(s[0]) != F {
			return false
		}
	}
	return true
}

// ---------------------------------------------------------------------------
// Panic-like origins in one function, with guard recognition.

type guardInfo struct {
	guarded bool
	how     string
}

// dominating conditions: yields (rel, truth) for every branch condition known at block b.
func dominatingConds(b *ssa.BasicBlock, tm *termer, f func(rel *Term, truth bool) bool) {
	dominatingCondsEdge(b, nil, tm, f)
}

// dominatingCondsEdge additionally includes the condition of the edge b -> to (when b ends in an If).
func dominatingCondsEdge(b, to *ssa.BasicBlock, tm *termer, f func(rel *Term, truth bool) bool) {
	if to != nil && len(b.Instrs) > 0 {
		if iff, ok := b.Instrs[len(b.Instrs)-1].(*ssa.If); ok && b.Succs[0] != b.Succs[1] {
			rel, pol := Cond(tm.Of(iff.Cond))
			edge := 1
			if b.Succs[0] == to {
				edge = 0
			}
			if f(rel, (edge == 0) == pol) {
				return
			}
		}
	}
	for cur := b; cur != nil; cur = cur.Idom() {
		d := cur.Idom()
		if d == nil || len(d.Instrs) == 0 {
			continue
		}
		iff, ok := d.Instrs[len(d.Instrs)-1].(*ssa.If)
		if !ok {
			continue
		}
		var edge int = -1
		if d.Succs[0] == cur && len(cur.Preds) == 1 {
			edge = 0
		} else if d.Succs[1] == cur && len(cur.Preds) == 1 {
			edge = 1
		} else {
			// cur is a join below d; still, if only one successor of d can reach cur without passing the other... skip
			continue
		}
		rel, pol := Cond(tm.Of(iff.Cond))
		truth := (edge == 0) == pol
		if f(rel, truth) {
			return
		}
	}
}

func constInt(t *Term) (int64, bool) {
	if strings.HasPrefix(t.Op, "const:") {
		if n, err := strconv.ParseInt(strings.TrimPrefix(t.Op, "const:"), 10, 64); err == nil {
			return n, true
		}
	}
	return 0, false
}

func isLenOf(t *Term, x string) bool {
	return t.Op == "call:builtin:len" && len(t.Args) == 1 && t.Args[0].String() == x
}

// indexGuard decides whether an index/slice expression on X with index idx is structurally guarded.
func indexGuard(fn *ssa.Function, in ssa.Instruction, X, idx ssa.Value, tm *termer) guardInfo {
	g := indexGuardAt(fn, in, in.Block(), nil, X, idx, tm)
	if g.guarded {
		return g
	}
	// a merged index (non-loop phi): every incoming value must be guarded on its own edge
	if ph, ok := idx.(*ssa.Phi); ok && len(ph.Edges) > 0 {
		self := false
		for _, e := range ph.Edges {
			if dependsOn(e, ph, 0) {
				self = true
			}
		}
		if !self {
			for i, e := range ph.Edges {
				pred := ph.Block().Preds[i]
				ge := indexGuardAt(fn, in, pred, ph.Block(), X, e, tm)
				if !ge.guarded {
					return guardInfo{}
				}
			}
			return guardInfo{true, "G4 every merged index value guarded on its edge"}
		}
	}
	return g
}

func dependsOn(v ssa.Value, target ssa.Value, depth int) bool {
	if v == target {
		return true
	}
	if depth > 6 {
		return false
	}
	if in, ok := v.(ssa.Instruction); ok {
		var ops [8]*ssa.Value
		for _, op := range in.Operands(ops[:0]) {
			if op != nil && *op != nil && dependsOn(*op, target, depth+1) {
				return true
			}
		}
	}
	return false
}

func indexGuardAt(fn *ssa.Function, in ssa.Instruction, at, edgeTo *ssa.BasicBlock, X, idx ssa.Value, tm *termer) guardInfo {
	xt := tm.Of(X)
	xs := xt.String()
	// fixed-size array with constant index
	var arrLen int64 = -1
	switch t := X.Type().Underlying().(type) {
	case *types.Array:
		arrLen = t.Len()
	case *types.Pointer:
		if a, ok := t.Elem().Underlying().(*types.Array); ok {
			arrLen = a.Len()
		}
	}
	var it *Term
	if idx != nil {
		it = tm.Of(idx)
	}
	if arrLen >= 0 {
		if it == nil {
			return guardInfo{true, "G3 whole array"}
		}
		if c, ok := constInt(it); ok && c >= 0 && c < arrLen {
			return guardInfo{true, "G3 constant index in fixed-size array"}
		}
	}
	if it == nil {
		return guardInfo{false, ""}
	}
	// make([]T, n) / slice literal with constant length
	if c, ok := constInt(it); ok {
		if strings.HasPrefix(xt.Op, "makeslice:") && len(xt.Args) == 1 {
			if n, ok := constInt(xt.Args[0]); ok && c < n {
				return guardInfo{true, "G3 constant index in make([]T, const)"}
			}
		}
		if xt.Op == "slicelit" && int(c) < len(xt.Args) {
			return guardInfo{true, "G3 constant index in slice literal"}
		}
	}
	// sort comparator closure indexing the sorted slice with its parameters
	if fn.Parent() != nil {
		if _, isParam := idx.(*ssa.Parameter); isParam {
			if usedAsSortLess(fn) {
				return guardInfo{true, "G2 sort comparator parameter"}
			}
		}
	}
	// X = make([]T, len(Y)): a bound by len(Y) bounds X
	if strings.HasPrefix(xt.Op, "makeslice:") && len(xt.Args) == 1 && xt.Args[0].Op == "call:builtin:len" && len(xt.Args[0].Args) == 1 {
		xs = xt.Args[0].Args[0].String()
	}
	// X = arr[:n] of a fixed-size array with constant n: constant bound within n
	if xt.Op == "slice" && len(xt.Args) == 3 {
		if n, ok := constInt(xt.Args[2]); ok {
			if c, ok := constInt(it); ok && c >= 0 && c <= n {
				return guardInfo{true, "G3 constant bound within arr[:const]"}
			}
		}
	}
	is := it.String()
	res := guardInfo{}
	dominatingCondsEdge(at, edgeTo, tm, func(rel *Term, truth bool) bool {
		if len(rel.Args) != 2 {
			return false
		}
		a, b := rel.Args[0], rel.Args[1]
		switch rel.Op {
		case "<":
			// idx < len(X)
			if truth && a.String() == is && isLenOf(b, xs) {
				res = guardInfo{true, "G1/G4 dominated by index < len"}
				return true
			}
			// const c: c' < len(X) with c' >= c
			if c, ok := constInt(it); ok && truth && isLenOf(b, xs) {
				if c2, ok := constInt(a); ok && c2 >= c {
					res = guardInfo{true, "G4 dominated by const < len"}
					return true
				}
			}
			// !(len(X) < n) with n > c
			if c, ok := constInt(it); ok && !truth && isLenOf(a, xs) {
				if n, ok := constInt(b); ok && n > c {
					res = guardInfo{true, "G4 dominated by !(len < n)"}
					return true
				}
			}
		case "<=":
			// !(len(X) <= idx)
			if !truth && isLenOf(a, xs) && b.String() == is {
				res = guardInfo{true, "G4 dominated by !(len <= index)"}
				return true
			}
			if c, ok := constInt(it); ok && !truth && isLenOf(a, xs) {
				if c2, ok := constInt(b); ok && c2 >= c {
					res = guardInfo{true, "G4 dominated by !(len <= const)"}
					return true
				}
			}
			// n <= len(X) with n > c
			if c, ok := constInt(it); ok && truth && isLenOf(b, xs) {
				if n, ok := constInt(a); ok && n > c {
					res = guardInfo{true, "G4 dominated by n <= len"}
					return true
				}
			}
		case "==":
			if c, ok := constInt(it); ok {
				var l, k *Term
				if isLenOf(a, xs) {
					l, k = a, b
				} else if isLenOf(b, xs) {
					l, k = b, a
				}
				if l != nil {
					if n, ok := constInt(k); ok {
						if truth && n > c {
							res = guardInfo{true, "G4 dominated by len == n"}
							return true
						}
						if !truth && n == 0 && c == 0 {
							res = guardInfo{true, "G4 dominated by len != 0"}
							return true
						}
					}
				}
			}
		}
		return false
	})
	if res.guarded {
		return res
	}
	// range-loop index: idx is a phi incremented by 1 whose loop condition compares it with len(X)
	if ph, ok := idx.(*ssa.Phi); ok {
		for _, r := range *ph.Referrers() {
			if bo, ok := r.(*ssa.BinOp); ok && bo.Op == token.LSS && bo.X == ph {
				if isLenOf(tm.Of(bo.Y), xs) || isLenOf(tm.Of(bo.Y), tm.Of(X).String()) {
					// the If on bo must dominate the index through its true edge
					for _, rr := range *bo.Referrers() {
						if iff, ok := rr.(*ssa.If); ok {
							tb := iff.Block().Succs[0]
							if tb.Dominates(in.Block()) {
								return guardInfo{true, "G1 loop index < len"}
							}
						}
					}
				}
			}
		}
	}
	return guardInfo{false, ""}
}

func usedAsSortLess(fn *ssa.Function) bool {
	par := fn.Parent()
	if par == nil {
		return false
	}
	for _, b := range par.Blocks {
		for _, in := range b.Instrs {
			c, ok := in.(ssa.CallInstruction)
			if !ok {
				continue
			}
			n := CalleeName(c.Common())
			if n != "sort.Slice" && n != "sort.SliceStable" {
				continue
			}
			for _, a := range c.Common().Args {
				if mc, ok := a.(*ssa.MakeClosure); ok && mc.Fn == fn {
					return true
				}
				if f, ok := a.(*ssa.Function); ok && f == fn {
					return true
				}
			}
		}
	}
	return false
}

func divGuard(in ssa.Instruction, divisor ssa.Value, tm *termer) guardInfo {
	dt := tm.Of(divisor)
	if strings.HasPrefix(dt.Op, "const:") {
		return guardInfo{true, "constant divisor"}
	}
	// constructor of a constant: NewInt(const), LegacyNewDec(const), global constants such as PowerReduction
	le := &linEval{}
	if c, ok := le.Eval(dt).Const(); ok && c.Sign() != 0 {
		return guardInfo{true, "constant divisor"}
	}
	if strings.HasPrefix(dt.Op, "global:") {
		return guardInfo{true, "package-level constant " + dt.Op}
	}
	// forms whose being non-zero implies the divisor is non-zero: conversions and multiplication by a non-zero constant are peeled
	forms := map[string]bool{}
	for cur := dt; cur != nil; {
		forms[cur.String()] = true
		next := (*Term)(nil)
		if strings.HasPrefix(cur.Op, "call:") {
			name := strings.TrimPrefix(cur.Op, "call:")
			if linTransparent[name] && len(cur.Args) >= 1 {
				next = cur.Args[0]
			} else if isMathRecv(name) && (strings.HasSuffix(name, ".MulRaw") || strings.HasSuffix(name, ".Mul") || strings.HasSuffix(name, ".MulInt64")) && len(cur.Args) == 2 {
				if c, ok := le.Eval(cur.Args[1]).Const(); ok && c.Sign() != 0 {
					next = cur.Args[0]
				}
			}
		} else if cur.Op == "ref" && len(cur.Args) == 1 {
			next = cur.Args[0]
		}
		cur = next
	}
	isZero := func(t *Term) bool {
		if t.Op == "const:0" {
			return true
		}
		switch t.Op {
		case "call:cosmossdk.io/math.ZeroInt", "call:cosmossdk.io/math.LegacyZeroDec", "call:cosmossdk.io/math.ZeroUint":
			return true
		}
		return false
	}
	res := guardInfo{}
	dominatingConds(in.Block(), tm, func(rel *Term, truth bool) bool {
		if len(rel.Args) != 2 {
			return false
		}
		a, b := rel.Args[0], rel.Args[1]
		switch rel.Op {
		case "==":
			if !truth && ((forms[a.String()] && isZero(b)) || (forms[b.String()] && isZero(a))) {
				res = guardInfo{true, "dominated by divisor != 0"}
				return true
			}
		case "<":
			if truth && isZero(a) && forms[b.String()] {
				res = guardInfo{true, "dominated by divisor > 0"}
				return true
			}
		case "<=":
			if !truth && forms[a.String()] && isZero(b) {
				res = guardInfo{true, "dominated by !(divisor <= 0)"}
				return true
			}
		}
		return false
	})
	return res
}

var divMethods = map[string]bool{"Quo": true, "QuoRaw": true, "QuoInt": true, "QuoInt64": true, "QuoTruncate": true, "QuoRoundUp": true, "Mod": true, "ModRaw": true, "QuoMut": true}

// LocalOrigins lists the panic-like origins of one function: explicit panics, Must* calls,
// unchecked type assertions, unguarded index/slice expressions, unguarded divisions.
func (fe *failEngine) LocalOrigins(fn *ssa.Function) (unguarded []*Origin, guarded int, guardedHow map[string]int) {
	tm := NewTermer()
	guardedHow = map[string]int{}
	for _, b := range fn.Blocks {
		for _, in := range b.Instrs {
			switch x := in.(type) {
			case *ssa.Panic:
				t := tm.Of(x.X)
				unguarded = append(unguarded, &Origin{Fn: fn, Kind: "panic", Desc: t.Brief(), Pos: x.Pos()})
			case *ssa.TypeAssert:
				if !x.CommaOk {
					unguarded = append(unguarded, &Origin{Fn: fn, Kind: "assert", Desc: typeShort(x.AssertedType) + " <- " + tm.Of(x.X).Brief(), Pos: x.Pos()})
				}
			case *ssa.IndexAddr, *ssa.Index, *ssa.Slice:
				var X, idx ssa.Value
				var extra []ssa.Value
				switch y := x.(type) {
				case *ssa.IndexAddr:
					X, idx = y.X, y.Index
				case *ssa.Index:
					X, idx = y.X, y.Index
				case *ssa.Slice:
					X = y.X
					if y.Low == nil && y.High == nil {
						continue
					}
					if variadicElemValues(y) != nil {
						continue
					}
					idx = y.High
					if idx == nil {
						idx = y.Low
					} else if y.Low != nil {
						extra = append(extra, y.Low)
					}
				}
				if _, isMap := X.Type().Underlying().(*types.Map); isMap {
					continue
				}
				// compiler-generated variadic / literal arrays
				if al, ok := X.(*ssa.Alloc); ok {
					if _, isArr := al.Type().Underlying().(*types.Pointer).Elem().Underlying().(*types.Array); isArr {
						if c, ok := idx.(*ssa.Const); ok && c.Value != nil {
							continue
						}
					}
				}
				g := indexGuard(fn, in, X, idx, tm)
				_ = extra
				if g.guarded {
					guarded++
					guardedHow[strings.SplitN(g.how, " ", 2)[0]]++
					continue
				}
				kind := "index"
				d := tm.Of(X).Brief() + "[" + tm.Of(idx).Brief() + "]"
				if _, ok := x.(*ssa.Slice); ok {
					d = tm.Of(X).Brief() + "[:" + tm.Of(idx).Brief() + "]"
				}
				unguarded = append(unguarded, &Origin{Fn: fn, Kind: kind, Desc: d, Pos: in.Pos()})
			case *ssa.BinOp:
				if (x.Op == token.QUO || x.Op == token.REM) && !isFloat(x.X.Type()) {
					g := divGuard(in, x.Y, tm)
					if g.guarded {
						guarded++
						guardedHow["div"]++
						continue
					}
					unguarded = append(unguarded, &Origin{Fn: fn, Kind: "div", Desc: "/ " + tm.Of(x.Y).Brief(), Pos: x.Pos()})
				}
			}
			if c, ok := in.(ssa.CallInstruction); ok {
				cc := c.Common()
				name := CalleeName(cc)
				base := name[strings.LastIndex(name, ".")+1:]
				if strings.HasPrefix(base, "Must") && !strings.HasPrefix(name, "(") || (strings.HasPrefix(base, "Must") && strings.Contains(name, "codec")) || strings.HasPrefix(base, "MustMarshal") || strings.HasPrefix(base, "MustUnmarshal") || strings.HasPrefix(base, "MustAccAddress") {
					unguarded = append(unguarded, &Origin{Fn: fn, Kind: "must", Desc: name, Pos: c.Pos()})
				}
				if rangePanicCallees[name] {
					unguarded = append(unguarded, &Origin{Fn: fn, Kind: "range", Desc: short(name) + "(" + tm.Of(cc.Args[len(cc.Args)-1]).Brief() + ")", Pos: c.Pos()})
				}
				if isMathRecv(name) && divMethods[base] && len(cc.Args) == 2 {
					g := divGuard(in, cc.Args[1], tm)
					if g.guarded {
						guarded++
						guardedHow["div"]++
					} else {
						unguarded = append(unguarded, &Origin{Fn: fn, Kind: "div", Desc: base + " by " + tm.Of(cc.Args[1]).Brief(), Pos: c.Pos()})
					}
				}
			}
		}
	}
	return
}

// withClosures returns fn and all its nested anonymous functions.
func withClosures(fn *ssa.Function) []*ssa.Function {
	out := []*ssa.Function{fn}
	for _, a := range fn.AnonFuncs {
		out = append(out, withClosures(a)...)
	}
	return out
}

func sortOrigins(os []*Origin, P *Prog) {
	sort.SliceStable(os, func(i, j int) bool {
		if os[i].Key() != os[j].Key() {
			return os[i].Key() < os[j].Key()
		}
		return P.Fset.Position(os[i].Pos).Line < P.Fset.Position(os[j].Pos).Line
	})
}

// rangePanicCallees: library functions that panic when an argument is out of the range of their result
// type (magnitude of data, not a programming error): a report value, a balance or a power that a user
// can make large reaches them unchecked unless the call site is justified.
var rangePanicCallees = map[string]bool{
	"cosmossdk.io/math.NewIntFromBigInt":             true,
	"cosmossdk.io/math.NewIntFromBigIntMut":          true,
	"cosmossdk.io/math.NewUintFromBigInt":            true,
	"(cosmossdk.io/math.Int).Int64":                  true,
	"(cosmossdk.io/math.Int).Uint64":                 true,
	"(cosmossdk.io/math.Uint).Uint64":                true,
	"(cosmossdk.io/math.LegacyDec).TruncateInt64":    true,
	"(cosmossdk.io/math.LegacyDec).RoundInt64":       true,
	"(github.com/cosmos/cosmos-sdk/types.Coins).Sub": true,
	"(github.com/cosmos/cosmos-sdk/types.Coin).Sub":  true,
	"github.com/cosmos/cosmos-sdk/types.NewCoin":     true, // panics on a negative amount
}

// triageLookup finds the triage entry of an origin key. The message text of a locally built error is part of the key (it
// tells the entries of one function apart for the reader), but it is not what the entry is about: when the exact key is not
// listed, an entry of the same function, kind and constructor whose text differs is used, each such entry at most once. The
// key under which the origin is then reported is the entry's, so that known findings and evidence keep their names.
func triageLookup(table map[string]triage, key string, used map[string]bool) (triage, string, bool) {
	if t, ok := table[key]; ok {
		used[key] = true
		return t, key, true
	}
	norm := func(k string) string {
		i := strings.Index(k, " \"")
		if i < 0 {
			return ""
		}
		j := strings.LastIndex(k, "\"")
		if j <= i {
			return ""
		}
		return k[:i] + k[j+1:]
	}
	if !strings.Contains(key, "# err-local:") {
		return triage{}, key, false
	}
	n := norm(key)
	var cands []string
	for k := range table {
		if !used[k] && n != "" && norm(k) == n {
			cands = append(cands, k)
		}
	}
	if len(cands) == 0 {
		// an error literal turned into a package-level sentinel (or back): the same failure of the same function
		fnPart := key[:strings.Index(key, "# err-local:")]
		isSentinel := strings.Contains(key, "# err-local:sentinel ")
		for k := range table {
			if used[k] || !strings.HasPrefix(k, fnPart+"# err-local:") {
				continue
			}
			if isSentinel != strings.Contains(k, "# err-local:sentinel ") {
				cands = append(cands, k)
			}
		}
	}
	sort.Strings(cands)
	if len(cands) == 0 {
		return triage{}, key, false
	}
	used[cands[0]] = true
	return table[cands[0]], cands[0], true
}
