package main

// C08 — aggregate history is append-only, time-ordered and correctly retrievable.

import (
	"fmt"
	"go/token"
	"sort"
	"strings"

	"golang.org/x/tools/go/ssa"
)

func init() { register("C08", checkC08) }

// rangeChain extracts the builder chain of a collections range value: e.g.
// ["NewPrefixedPairRange", "EndExclusive", "Descending"] and the argument terms of each step.
func rangeChain(t *Term) ([]string, map[string]*Term) {
	var chain []string
	args := map[string]*Term{}
	for t != nil {
		if !strings.HasPrefix(t.Op, "call:") {
			break
		}
		name := t.Op[strings.LastIndex(t.Op, ".")+1:]
		chain = append([]string{name}, chain...)
		if name == "NewPrefixedPairRange" {
			if len(t.Args) >= 1 {
				args[name] = t.Args[0]
			}
			break
		}
		if len(t.Args) >= 2 {
			args[name] = t.Args[1]
		}
		if len(t.Args) == 0 {
			break
		}
		t = t.Args[0]
	}
	return chain, args
}

type cbShape struct {
	readsFlagged  bool
	stopAlways    bool // every non-error return has stop == true
	stopIffFresh  bool // stop == true exactly under !Flagged
	stopOnCounter bool // stop == true under an equality of a counter with a captured index
}

func analyseCallback(P *Prog, fn *ssa.Function) cbShape {
	var sh cbShape
	tm := NewTermer()
	ps := AnalyzePaths(fn, []Atom{
		{Name: "flagged", Cond: func(rel *Term) (bool, bool) {
			return strings.HasPrefix(rel.Op, "field:x/oracle/types.Aggregate.Flagged"), true
		}},
		{Name: "atIndex", Cond: func(rel *Term) (bool, bool) {
			if rel.Op == "==" && len(rel.Args) == 2 && (rel.Args[0].Contains("freevar") || rel.Args[0].Op == "load") {
				return true, true
			}
			return false, false
		}}})
	sh.readsFlagged = len(ps.Matched["flagged"]) > 0
	sh.stopAlways, sh.stopIffFresh, sh.stopOnCounter = true, sh.readsFlagged, len(ps.Matched["atIndex"]) > 0
	for _, b := range fn.Blocks {
		ret, ok := b.Instrs[len(b.Instrs)-1].(*ssa.Return)
		if !ok || b == fn.Recover || len(ret.Results) < 1 {
			continue
		}
		stop := tm.Of(ret.Results[0]).Op == "const:true"
		if !stop {
			sh.stopAlways = false
		}
		for _, s := range ps.At(ret) {
			fl, ai := int8(s[0]), int8(s[1])
			if sh.readsFlagged && ((stop && fl != F) || (!stop && fl != T)) {
				sh.stopIffFresh = false
			}
			if len(ps.Matched["atIndex"]) > 0 && ((stop && ai != T) || (!stop && ai != F)) {
				sh.stopOnCounter = false
			}
		}
	}
	return sh
}

func checkC08(r *Result) {
	P := r.P
	r.Explanation = "Writers, update shape and range shapes of the aggregate history, decided on SSA: the Aggregates collection is written only by SetAggregate (key = query id x block time in ms, index = per-query nonce incremented by read-modify-write) and by FlagAggregateReport (which writes back the aggregate it read with only Flagged changed, under 'same query id' and 'the disputed reporter is the aggregate's reporter'); nothing removes or clears it; each getter's collections range is extracted from its builder chain (prefix, end-exclusive / start-exclusive bound derived from the probe timestamp, direction) and its walk callback is classified (first match, skip flagged, count to index) and compared with the specification of that getter; the bridge snapshot passes one timestamp to the neighbour look-ups, the encoder and the stored snapshot record, and stores the same neighbours it encoded."
	r.NotDecided = "strict increase of aggregate timestamps (needs consensus time), correctness of collections' iteration for every probe, '0' used as 'no neighbour'"
	r.Assumptions = []string{"cosmossdk.io/collections ranges iterate keys in order within the prefix", "block time is unique per block"}
	r.rule("WRITERS", "Aggregates is written only by SetAggregate and FlagAggregateReport and never removed; the index is a per-query read-modify-write nonce")
	r.rule("FLAG-ONLY", "FlagAggregateReport writes back what it read with only Flagged set, for the aggregate of the disputed reporter and query")
	r.rule("RANGE-SHAPE", "each getter uses the range (prefix, bound, direction) and the match predicate of its specification")
	r.rule("SNAPSHOT-NEIGHBOURS", "a bridge snapshot encodes and stores the neighbours of the one timestamp it was given")

	need := func(name string) *ssa.Function {
		f := P.Func(name)
		if f == nil {
			r.broken("anchor %s does not resolve", name)
		} else {
			r.fn(name)
		}
		return f
	}
	tm := NewTermer()
	// ---- WRITERS
	{
		sets := map[string]bool{}
		for _, s := range P.Sites(descIs("coll:x/oracle/keeper.Keeper.Aggregates.Set")) {
			sets[FuncName(TopFunc(s.Fn))] = true
		}
		ok := true
		for w := range sets {
			if w != "(x/oracle/keeper.Keeper).SetAggregate" && w != "(x/oracle/keeper.Keeper).FlagAggregateReport" && !strings.Contains(w, "Genesis") {
				ok = false
			}
		}
		r.check(ok && sets["(x/oracle/keeper.Keeper).SetAggregate"] && sets["(x/oracle/keeper.Keeper).FlagAggregateReport"], "WRITERS", "writers of Aggregates", "-", fmt.Sprint(keysOf(sets)))
		rem := P.Sites(func(c *CallSite) bool {
			return strings.HasPrefix(c.Desc(), "coll:x/oracle/keeper.Keeper.Aggregates.") && (c.Method == "Remove" || c.Method == "Clear")
		})
		all := P.Sites(func(c *CallSite) bool { return strings.HasPrefix(c.Desc(), "coll:x/oracle/keeper.Keeper.Aggregates.") })
		r.check(len(rem) == 0, "WRITERS", "no Aggregates.Remove / Clear", "-", fmt.Sprintf("0 removals among %d resolved call sites on the Aggregates collection (the matcher that finds the %d Set sites)", len(all), len(sets)))
		for _, s := range rem {
			r.bad("WRITERS", FuncName(TopFunc(s.Fn))+" # "+s.Desc(), P.Pos(s.Pos()), "aggregate history must be append-only")
		}
	}
	if sa := need("(x/oracle/keeper.Keeper).SetAggregate"); sa != nil {
		ps := AnalyzePaths(sa, []Atom{{Name: "nonceRead", Event: P.CallEvent(descIs("coll:x/oracle/keeper.Keeper.Nonces.Get"), T)},
			{Name: "nonceWritten", Event: P.CallEvent(descIs("coll:x/oracle/keeper.Keeper.Nonces.Set"), T)}})
		for _, cs := range P.CallSitesIn(sa) {
			switch cs.Desc() {
			case "coll:x/oracle/keeper.Keeper.Aggregates.Set":
				k := tm.Of(Arg(cs.Instr, 1))
				ok := k.Op == "call:cosmossdk.io/collections.Join" && len(k.Args) == 2 && strings.HasPrefix(k.Args[0].Op, "field:x/oracle/types.Aggregate.QueryId") &&
					k.Args[1].Op == "call:(time.Time).UnixMilli" && k.Args[1].Has("call:(github.com/cosmos/cosmos-sdk/types.Context).BlockTime")
				r.check(ok, "WRITERS", "(x/oracle/keeper.Keeper).SetAggregate # key = (query id, block time in ms)", P.Pos(cs.Pos()), "key: "+clip(k.String(), 200))
				bad := ps.Require(cs.Instr, func(v map[string]bool) bool { return v["nonceRead"] && v["nonceWritten"] })
				r.check(len(bad) == 0, "WRITERS", "(x/oracle/keeper.Keeper).SetAggregate # nonce read and written before the aggregate is stored", P.Pos(cs.Pos()), fmt.Sprintf("valuations: %v", statesStr(ps, cs.Instr)))
			case "coll:x/oracle/keeper.Keeper.Nonces.Set":
				v := tm.Of(Arg(cs.Instr, 2))
				k := tm.Of(Arg(cs.Instr, 1))
				ok := v.Op == "+" && len(v.Args) == 2 && v.Args[1].Op == "const:1" && v.Args[0].Contains("Nonces") && strings.HasPrefix(k.Op, "field:x/oracle/types.Aggregate.QueryId")
				r.check(ok, "WRITERS", "(x/oracle/keeper.Keeper).SetAggregate # nonce = previous + 1, per query id", P.Pos(cs.Pos()), "value: "+clip(v.String(), 160))
			}
		}
		okIdx := false
		for _, b := range sa.Blocks {
			for _, in := range b.Instrs {
				if st, ok := in.(*ssa.Store); ok {
					if fa, ok := st.Addr.(*ssa.FieldAddr); ok && fieldName(fa.X.Type(), fa.Field) == "x/oracle/types.Aggregate.Index" {
						v := tm.Of(st.Val)
						okIdx = v.Op == "+" && v.Args[1].Op == "const:1" && v.Args[0].Contains("Nonces")
					}
				}
			}
		}
		r.check(okIdx, "WRITERS", "(x/oracle/keeper.Keeper).SetAggregate # aggregate index = the new nonce", P.Pos(sa.Pos()), "report.Index is assigned the incremented nonce")
	}
	// ---- FLAG-ONLY
	if fl := need("(x/oracle/keeper.Keeper).FlagAggregateReport"); fl != nil {
		ps := AnalyzePaths(fl, []Atom{
			{Name: "sameQuery", Cond: func(rel *Term) (bool, bool) {
				if rel.Op == "call:bytes.Equal" && len(rel.Args) == 2 && rel.Args[0].Contains("Pair).K1") && strings.HasPrefix(rel.Args[1].Op, "field:x/oracle/types.MicroReport.QueryId") {
					return true, true
				}
				return false, false
			}},
			{Name: "sameReporter", Cond: func(rel *Term) (bool, bool) {
				if rel.Op == "call:(github.com/cosmos/cosmos-sdk/types.AccAddress).Equals" && len(rel.Args) == 2 {
					a, b := rel.Args[0], rel.Args[1]
					if a.Contains("AggregateReporter.Reporter") && a.Contains("Aggregate.AggregateReportIndex") && b.Has("field:x/oracle/types.MicroReport.Reporter") {
						return true, true
					}
				}
				return false, false
			}},
			{Name: "read", Event: P.CallEvent(descIs("coll:x/oracle/keeper.Keeper.Aggregates.Get"), T)}})
		var getKey string
		for _, cs := range P.CallSitesIn(fl) {
			if cs.Desc() == "coll:x/oracle/keeper.Keeper.Aggregates.Get" {
				getKey = tm.Of(Arg(cs.Instr, 1)).String()
			}
		}
		for _, cs := range P.CallSitesIn(fl) {
			if cs.Desc() == "coll:x/oracle/keeper.Keeper.Aggregates.Set" {
				bad := ps.Require(cs.Instr, func(v map[string]bool) bool { return v["sameQuery"] && v["sameReporter"] && v["read"] })
				setKey := tm.Of(Arg(cs.Instr, 1)).String()
				r.check(len(bad) == 0 && setKey == getKey && getKey != "", "FLAG-ONLY", "(x/oracle/keeper.Keeper).FlagAggregateReport # writes back, under the key it read, only for the disputed reporter's aggregate of that query", P.Pos(cs.Pos()), fmt.Sprintf("valuations: %v ; same key: %v", statesStr(ps, cs.Instr), setKey == getKey))
			}
			if strings.HasSuffix(cs.Desc(), "AggregatesIndex.MicroHeight.MatchExact") || strings.Contains(cs.Desc(), "MicroHeight.MatchExact") {
				a := tm.Of(Arg(cs.Instr, 1))
				r.check(strings.HasPrefix(a.Op, "field:x/oracle/types.MicroReport.BlockNumber"), "FLAG-ONLY", "(x/oracle/keeper.Keeper).FlagAggregateReport # candidates are the aggregates of the report's block", P.Pos(cs.Pos()), "index key: "+a.Brief())
			}
		}
		// the walk over the candidates ends by exhaustion or with the write: a success return while the iterator is still
		// valid and nothing was written leaves the disputed aggregate of a later candidate unflagged
		{
			pw := AnalyzePaths(fl, []Atom{
				{Name: "valid", Cond: func(rel *Term) (bool, bool) {
					if strings.HasPrefix(rel.Op, "call:") && strings.HasSuffix(rel.Op, ".Valid") {
						return true, true
					}
					return false, false
				}},
				{Name: "written", Event: P.CallEvent(descIs("coll:x/oracle/keeper.Keeper.Aggregates.Set"), T)}})
			n, okAll, det := 0, true, ""
			for _, ret := range SuccessReturns(fl) {
				n++
				if bad := pw.Require(ret, func(v map[string]bool) bool { return v["written"] || !v["valid"] }); len(bad) > 0 {
					okAll, det = false, fmt.Sprintf("success return at %s with candidates left and nothing written: %v", P.Pos(ret.Pos()), bad)
				}
			}
			if len(pw.Matched["valid"]) == 0 {
				okAll, det = false, "no branch tests the iterator's Valid()"
			}
			r.check(okAll && n >= 2, "FLAG-ONLY", "(x/oracle/keeper.Keeper).FlagAggregateReport # every candidate is examined until one is flagged", P.Pos(fl.Pos()), fmt.Sprintf("%d success returns %s", n, det))
		}
		// only Flagged is stored into the aggregate
		fields := map[string]bool{}
		for _, b := range fl.Blocks {
			for _, in := range b.Instrs {
				if st, ok := in.(*ssa.Store); ok {
					if fa, ok := st.Addr.(*ssa.FieldAddr); ok && strings.HasPrefix(fieldName(fa.X.Type(), fa.Field), "x/oracle/types.Aggregate.") {
						fields[fieldName(fa.X.Type(), fa.Field)] = true
					}
				}
			}
		}
		r.check(len(fields) == 1 && fields["x/oracle/types.Aggregate.Flagged"], "FLAG-ONLY", "(x/oracle/keeper.Keeper).FlagAggregateReport # only the Flagged field is modified", P.Pos(fl.Pos()), fmt.Sprint(keysOf(fields)))
		setTrue := false
		for _, b := range fl.Blocks {
			for _, in := range b.Instrs {
				if storesConstToField(in, "x/oracle/types.Aggregate.Flagged", "true") {
					setTrue = true
				}
			}
		}
		r.check(setTrue, "FLAG-ONLY", "(x/oracle/keeper.Keeper).FlagAggregateReport # Flagged is set to true (never cleared)", P.Pos(fl.Pos()), "constant stored: true")
	}
	// ---- RANGE-SHAPE
	type spec struct {
		fn    string
		chain string
		bound string // which step carries the timestamp bound
		pred  string // first | skipFlagged | countToIndex
		tsArg string
	}
	specs := []spec{
		{"(x/oracle/keeper.Keeper).GetTimestampBefore", "NewPrefixedPairRange EndExclusive Descending", "EndExclusive", "first", "param:3:time.Time"},
		{"(x/oracle/keeper.Keeper).GetTimestampAfter", "NewPrefixedPairRange StartExclusive", "StartExclusive", "first", "param:3:time.Time"},
		{"(x/oracle/keeper.Keeper).GetCurrentAggregateReport", "NewPrefixedPairRange Descending", "", "first", ""},
		{"(x/oracle/keeper.Keeper).GetAggregateBefore", "NewPrefixedPairRange EndExclusive Descending", "EndExclusive", "skipFlagged", "param:3:time.Time"},
		{"(x/oracle/keeper.Keeper).GetAggregateByIndex", "NewPrefixedPairRange", "", "countToIndex", ""},
	}
	for _, sp := range specs {
		fn := need(sp.fn)
		if fn == nil {
			continue
		}
		found := false
		for _, cs := range P.CallSitesIn(fn) {
			if cs.Desc() != "coll:x/oracle/keeper.Keeper.Aggregates.Walk" {
				continue
			}
			found = true
			rng := tm.Of(Arg(cs.Instr, 1))
			chain, args := rangeChain(rng)
			okChain := strings.Join(chain, " ") == sp.chain
			okPrefix := args["NewPrefixedPairRange"] != nil && args["NewPrefixedPairRange"].Op == "param:2:byte"
			okBound := true
			if sp.bound != "" {
				b := args[sp.bound]
				okBound = b != nil && b.Op == "call:(time.Time).UnixMilli" && len(b.Args) == 1 && b.Args[0].Op == sp.tsArg
			}
			r.check(okChain && okPrefix && okBound, "RANGE-SHAPE", sp.fn+" # range = "+sp.chain, P.Pos(cs.Pos()), fmt.Sprintf("extracted chain %v ; prefix is the query id: %v ; bound is the probe timestamp: %v", chain, okPrefix, okBound))
			// callback
			var cb *ssa.Function
			if mc, ok := Arg(cs.Instr, 2).(*ssa.MakeClosure); ok {
				cb, _ = mc.Fn.(*ssa.Function)
			}
			if cb == nil {
				r.broken("RANGE-SHAPE: walk callback of %s is not a closure literal (undecided)", sp.fn)
				continue
			}
			sh := analyseCallback(P, cb)
			okPred := false
			switch sp.pred {
			case "first":
				okPred = sh.stopAlways && !sh.readsFlagged
			case "skipFlagged":
				okPred = sh.readsFlagged && sh.stopIffFresh
			case "countToIndex":
				okPred = sh.stopOnCounter && !sh.readsFlagged
			}
			r.check(okPred, "RANGE-SHAPE", sp.fn+" # match predicate: "+sp.pred, P.Pos(cb.Pos()), fmt.Sprintf("stops always: %v ; reads Flagged: %v ; stops iff not flagged: %v ; stops on counter: %v", sh.stopAlways, sh.readsFlagged, sh.stopIffFresh, sh.stopOnCounter))
		}
		if !found {
			// delegation to another getter is fine when that getter has the shape required here
			deleg := ""
			for _, cs := range P.CallSitesIn(fn) {
				for _, other := range specs {
					if cs.Callee == other.fn && other.fn != sp.fn {
						deleg = other.fn
						same := other.chain == sp.chain && other.pred == sp.pred
						r.check(same, "RANGE-SHAPE", sp.fn+" # delegates to a getter of the same range and predicate", P.Pos(cs.Pos()), fmt.Sprintf("delegates to %s whose specification is (range %q, predicate %s); this getter requires (range %q, predicate %s)", other.fn, other.chain, other.pred, sp.chain, sp.pred))
					}
				}
			}
			if deleg == "" {
				r.bad("RANGE-SHAPE", sp.fn+" # walks the Aggregates collection", P.Pos(fn.Pos()), "the getter neither ranges over Aggregates nor delegates to a getter that does")
			}
		}
	}
	// the data-before query uses the flag-skipping getter
	if q := need("(x/oracle/keeper.Querier).GetDataBefore"); q != nil {
		ok := false
		for _, cs := range P.CallSitesIn(q) {
			if cs.Callee == "(x/oracle/keeper.Keeper).GetAggregateBefore" {
				ok = true
			}
		}
		r.check(ok, "RANGE-SHAPE", "(x/oracle/keeper.Querier).GetDataBefore # served by GetAggregateBefore (skips flagged)", P.Pos(q.Pos()), "")
	}
	// ---- SNAPSHOT-NEIGHBOURS
	if cs := need("(x/bridge/keeper.Keeper).CreateSnapshot"); cs != nil {
		var before, after *Term
		for _, c := range P.CallSitesIn(cs) {
			switch {
			case strings.HasSuffix(c.Callee, "OracleKeeper.GetTimestampBefore"), strings.HasSuffix(c.Callee, "OracleKeeper.GetTimestampAfter"), strings.HasSuffix(c.Callee, "OracleKeeper.GetAggregateByTimestamp"):
				q, t := tm.Of(Arg(c.Instr, 1)), tm.Of(Arg(c.Instr, 2))
				r.check(q.Op == "param:2:byte" && t.Op == "param:3:time.Time", "SNAPSHOT-NEIGHBOURS", "(x/bridge/keeper.Keeper).CreateSnapshot # "+c.Method+"(query id, the given timestamp)", P.Pos(c.Pos()), "arguments: "+q.Brief()+", "+t.Brief())
			case c.Callee == "(x/bridge/keeper.Keeper).EncodeOracleAttestationData":
				ts := tm.Of(Arg(c.Instr, 2))
				before, after = tm.Of(Arg(c.Instr, 4)), tm.Of(Arg(c.Instr, 5))
				okTs := ts.Op == "call:(time.Time).UnixMilli" && ts.Args[0].Op == "param:3:time.Time"
				okB := before.Contains("OracleKeeper.GetTimestampBefore") && !before.Contains("OracleKeeper.GetTimestampAfter")
				okA := after.Contains("OracleKeeper.GetTimestampAfter") && !after.Contains("OracleKeeper.GetTimestampBefore")
				val, pow := tm.Of(Arg(c.Instr, 1)), tm.Of(Arg(c.Instr, 3))
				okV := strings.HasPrefix(val.Op, "field:x/oracle/types.Aggregate.AggregateValue") && strings.HasPrefix(pow.Op, "field:x/oracle/types.Aggregate.ReporterPower") && val.Contains("GetAggregateByTimestamp")
				r.check(okTs && okB && okA && okV, "SNAPSHOT-NEIGHBOURS", "(x/bridge/keeper.Keeper).CreateSnapshot # encodes the aggregate's value and power, the timestamp, its predecessor and its successor, in that order", P.Pos(c.Pos()), fmt.Sprintf("timestamp: %v ; previous from GetTimestampBefore: %v ; next from GetTimestampAfter: %v ; value/power of the looked-up aggregate: %v", okTs, okB, okA, okV))
			}
		}
		// stored snapshot data repeats the encoded neighbours
		stored := map[string]string{}
		for _, b := range cs.Blocks {
			for _, in := range b.Instrs {
				if st, ok := in.(*ssa.Store); ok {
					if fa, ok := st.Addr.(*ssa.FieldAddr); ok && strings.HasPrefix(fieldName(fa.X.Type(), fa.Field), "x/bridge/types.AttestationSnapshotData.") {
						stored[strings.TrimPrefix(fieldName(fa.X.Type(), fa.Field), "x/bridge/types.AttestationSnapshotData.")] = tm.Of(st.Val).String()
					}
				}
			}
		}
		okS := before != nil && after != nil && stored["PrevReportTimestamp"] == before.String() && stored["NextReportTimestamp"] == after.String() && strings.Contains(stored["Timestamp"], "param:3:time.Time")
		var fs []string
		for f := range stored {
			fs = append(fs, f)
		}
		sort.Strings(fs)
		r.check(okS, "SNAPSHOT-NEIGHBOURS", "(x/bridge/keeper.Keeper).CreateSnapshot # the stored snapshot record repeats the encoded timestamp and neighbours", P.Pos(cs.Pos()), fmt.Sprintf("stored fields: %v", fs))
	}
	// FlagAggregateReport finds the aggregate of a disputed report through the MicroHeight index: wherever an
	// aggregate is given its AggregateReporter it is also given MicroHeight, the block number of that same report
	{
		nRoots := 0
		for _, fn := range P.RepoFuncs {
			if fn.Pkg == nil || !strings.HasSuffix(fn.Pkg.Pkg.Path(), "/x/oracle/keeper") {
				continue
			}
			type rootInfo struct {
				rep, height *Term
				pos         token.Pos
			}
			roots := map[ssa.Value]*rootInfo{}
			var order []ssa.Value
			for _, b := range fn.Blocks {
				for _, in := range b.Instrs {
					st, ok := in.(*ssa.Store)
					if !ok {
						continue
					}
					fa, ok := st.Addr.(*ssa.FieldAddr)
					if !ok {
						continue
					}
					f := fieldName(fa.X.Type(), fa.Field)
					if f != "x/oracle/types.Aggregate.AggregateReporter" && f != "x/oracle/types.Aggregate.MicroHeight" {
						continue
					}
					ri := roots[fa.X]
					if ri == nil {
						ri = &rootInfo{pos: st.Pos()}
						roots[fa.X] = ri
						order = append(order, fa.X)
					}
					if strings.HasSuffix(f, "AggregateReporter") {
						ri.rep = tm.Of(st.Val)
					} else {
						ri.height = tm.Of(st.Val)
					}
				}
			}
			for _, root := range order {
				ri := roots[root]
				if ri.rep == nil {
					continue
				}
				nRoots++
				origin := func(t *Term, field string) string {
					if t != nil && strings.HasPrefix(t.Op, "field:x/oracle/types.MicroReport."+field) && len(t.Args) == 1 {
						return t.Args[0].String()
					}
					return ""
				}
				or, oh := origin(ri.rep, "Reporter"), origin(ri.height, "BlockNumber")
				ok := or != "" && or == oh
				det := "AggregateReporter: " + ri.rep.Brief() + " ; MicroHeight: "
				if ri.height == nil {
					det += "not set"
				} else {
					det += ri.height.Brief()
				}
				r.check(ok, "FLAG-ONLY", FuncName(TopFunc(fn))+" # an aggregate that names its reporter is indexed under that report's block number", P.Pos(ri.pos), det)
			}
		}
		r.check(nRoots >= 2, "FLAG-ONLY", "aggregate builders that name the determining reporter", "-", fmt.Sprint(nRoots))
	}
	// a snapshot that was created is stored under all four of its indexes (by report, by snapshot, its signature
	// slots, and the block's request list)
	if cs := P.Func("(x/bridge/keeper.Keeper).CreateSnapshot"); cs != nil {
		names := []string{"AttestSnapshotsByReportMap", "AttestSnapshotDataMap", "SnapshotToAttestationsMap", "AttestRequestsByHeightMap"}
		var atoms []Atom
		for _, c := range names {
			atoms = append(atoms, Atom{Name: c, Event: P.CallEvent(descIs("coll:x/bridge/keeper.Keeper."+c+".Set"), T)})
		}
		requireAtSuccess(r, "SNAPSHOT-NEIGHBOURS", cs, "a created snapshot is stored by report, by snapshot, with its signature slots and in the block's request list", atoms, func(v map[string]bool) bool {
			for _, c := range names {
				if !v[c] {
					return false
				}
			}
			return true
		})
	}
	r.minCount("WRITERS", 5)
	r.minCount("FLAG-ONLY", 4)
	r.minCount("RANGE-SHAPE", 10)
	r.minCount("SNAPSHOT-NEIGHBOURS", 4)
}
