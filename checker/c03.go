package main

// C03 — supply changes only by the documented events (frame + gates + coefficients).

import (
	"fmt"
	"go/ast"
	"go/constant"
	"go/types"
	"math/big"
	"sort"
	"strings"

	"golang.org/x/tools/go/ssa"
)

func init() { register("C03", checkC03) }

func isBankCall(c *CallSite, method string) bool {
	if c.Method != method {
		return false
	}
	if strings.HasPrefix(c.Callee, "iface:") && strings.Contains(c.Callee, "BankKeeper") {
		return true
	}
	return strings.Contains(c.Callee, "cosmos-sdk/x/bank/keeper")
}

func linOf(v ssa.Value) *Poly { return (&linEval{}).Eval(NewTermer().Of(v)) }

// coinsAmount evaluates a Coins/Coin/Int valued argument to its amount polynomial.
func coinsAmount(v ssa.Value) *Poly { return linOf(v) }

func ratEq(r *big.Rat, a, b int64) bool { return r != nil && r.Cmp(big.NewRat(a, b)) == 0 }

func (P *Prog) constValue(pkgPath, name string) (constant.Value, bool) {
	for _, sp := range P.RepoPkgs {
		if sp.Pkg.Path() == pkgPath {
			if c, ok := sp.Pkg.Scope().Lookup(name).(*types.Const); ok {
				return c.Val(), true
			}
		}
	}
	return nil, false
}

func checkC03(r *Result) {
	P := r.P
	defer checkLostUpdates(r, "C03")
	r.Explanation = "Frame, gate and coefficient rules for token supply, decided on the resolved program: (1) the set of call sites that resolve to BankKeeper.MintCoins/BurnCoins (with their constant module-account argument) must equal the documented events; other supply-affecting bank methods have no call site; every mint/burn module has the matching module-account permission; (2) the begin-block mint is gated by minter.Initialized and a non-nil previous block time on every path, the previous-block-time stamp is refreshed on every minting block and never written on a strict subset of non-minting blocks (stale stamp); (3) algebraic normal forms: provision = DailyMintRate*elapsed_ms/86400000, split 3/4 to time_based_rewards and 1/4 to fee_collector with input = sum of outputs, tip burn = 1/50 of the tip with remainder = tip - burn and the amount taken from the tipper = the tip, bridge mint = decoded amount / 10^12 and the withdrawal takes, burns and encodes one value."
	r.NotDecided = "the bank-module invariant 'sum of balances = supply'; the numeric inflation bound over intervals (follows from the formula plus truncation toward zero; argued, not checked); IBC transfer mint/burn (outside the repository)"
	r.Assumptions = []string{"x/bank MintCoins/BurnCoins/SendCoins*/InputOutputCoins behave as documented", "consensus block time is monotone"}
	r.rule("CENSUS-SUPPLY", "the call sites resolving to BankKeeper.MintCoins/BurnCoins, with constant module argument, are exactly the documented supply events")
	r.rule("CENSUS-SUPPLY-ZERO", "no repository code calls another supply- or delegation-affecting bank method")
	r.rule("MACC-PERM", "every module account that mints/burns at a census site holds the matching permission in maccPerms")
	r.rule("MINT-GATE", "time-based minting happens only under minter.Initialized and a recorded previous block time")
	r.rule("MINT-STAMP", "every minting block refreshes the previous-block-time stamp; a block that does not mint either always or never writes the stamp (no stale stamp)")
	r.rule("MINT-CALLERS", "the minting helpers are called only from the begin-blocker chain")
	r.rule("LIN-MINT", "block provision = DailyMintRate * elapsed milliseconds / milliseconds per day")
	r.rule("LIN-SPLIT", "inflation is split 3/4 to the reporter reward pool and 1/4 to the fee collector; input equals the sum of the outputs")
	r.rule("LIN-TIPBURN", "2% (1/50) of each tip is burned, the remainder is tip - burn, and the amount taken from the tipper is the tip")
	r.rule("LIN-BRIDGE", "a claimed deposit mints the decoded amount / 10^12; a withdrawal takes, burns and encodes the same amount")

	// ---- CENSUS-SUPPLY
	type exp struct{ fn, method, module, event string }
	expected := []exp{
		{"(x/mint/keeper.Keeper).MintCoins", "MintCoins", "mint", "time-based minting"},
		{"(x/bridge/keeper.Keeper).ClaimDeposit", "MintCoins", "bridge", "claimed bridge deposit"},
		{"(x/oracle/keeper.Keeper).transfer", "BurnCoins", "oracle", "2% tip burn"},
		{"(x/bridge/keeper.Keeper).WithdrawTokens", "BurnCoins", "bridge", "bridge withdrawal"},
		{"(x/dispute/keeper.Keeper).ExecuteVote", "BurnCoins", "dispute", "dispute burn"},
		{"(x/dispute/keeper.msgServer).WithdrawFeeRefund", "BurnCoins", "dispute", "dispute dust burn"},
	}
	want := map[string]exp{}
	for _, e := range expected {
		want[e.fn+"|"+e.method+"|"+e.module] = e
	}
	sites := P.Sites(func(c *CallSite) bool { return isBankCall(c, "MintCoins") || isBankCall(c, "BurnCoins") })
	seenKinds := map[string]int{}
	usedModules := map[string]map[string]bool{} // module -> {Minter,Burner}
	for _, s := range sites {
		r.fn(FuncName(s.Fn))
		mod := ConstArg(s.Instr, 1)
		k := FuncName(TopFunc(s.Fn)) + "|" + s.Method + "|" + mod
		cons := fmt.Sprintf("%s # %s(%q)", FuncName(TopFunc(s.Fn)), s.Method, mod)
		if e, ok := want[k]; ok {
			seenKinds[k] += Multiplicity(s.Fn)
			for m := 0; m < Multiplicity(s.Fn); m++ { // a block used n times and extracted into a helper is still n uses
				r.ok("CENSUS-SUPPLY", cons, P.Pos(s.Pos()), "documented event: "+e.event)
			}
		} else {
			r.bad("CENSUS-SUPPLY", cons, P.Pos(s.Pos()), "supply-changing call that is not one of the documented events (mint: time-based, claimed deposit; burn: tip 2%, withdrawal, dispute)")
		}
		if usedModules[mod] == nil {
			usedModules[mod] = map[string]bool{}
		}
		if s.Method == "MintCoins" {
			usedModules[mod]["minter"] = true
		} else {
			usedModules[mod]["burner"] = true
		}
	}
	for k, e := range want {
		if seenKinds[k] == 0 {
			r.bad("CENSUS-SUPPLY", fmt.Sprintf("%s # %s(%q) missing", e.fn, e.method, e.module), "-", "documented supply event has no call site any more: "+e.event)
		}
	}
	// ExecuteVote burns once per result class: each burn site must be under one VoteResult switch arm (at least 3 sites)
	if n := seenKinds["(x/dispute/keeper.Keeper).ExecuteVote|BurnCoins|dispute"]; n > 0 && n < 3 {
		r.bad("CENSUS-SUPPLY", "(x/dispute/keeper.Keeper).ExecuteVote # BurnCoins per result class", "-", fmt.Sprintf("only %d burn sites for the three result classes", n))
	}
	// expected-zero
	zeroMethods := map[string]bool{"DelegateCoins": true, "UndelegateCoins": true, "DelegateCoinsFromAccountToModule": true, "UndelegateCoinsFromModuleToAccount": true, "SetSupply": true, "SetDenomMetaData": true, "SetSendEnabled": true, "SetParams": true}
	zeros := P.Sites(func(c *CallSite) bool {
		if !zeroMethods[c.Method] {
			return false
		}
		return (strings.HasPrefix(c.Callee, "iface:") && strings.Contains(c.Callee, "BankKeeper")) || strings.Contains(c.Callee, "cosmos-sdk/x/bank/keeper")
	})
	for _, s := range zeros {
		r.bad("CENSUS-SUPPLY-ZERO", fmt.Sprintf("%s # %s", FuncName(TopFunc(s.Fn)), s.Method), P.Pos(s.Pos()), "bank method that changes supply/delegation bookkeeping called from repository code")
	}
	bankSites := P.Sites(func(c *CallSite) bool {
		return strings.HasPrefix(c.Callee, "iface:") && strings.Contains(c.Callee, "BankKeeper")
	})
	r.check(len(zeros) == 0, "CENSUS-SUPPLY-ZERO", "all repository functions", "-", fmt.Sprintf("0 sites among %d resolved BankKeeper call sites (the same matcher finds the %d mint/burn sites above)", len(bankSites), len(sites)))

	// ---- MACC-PERM
	perms := parseMaccPerms(P)
	if perms == nil {
		r.broken("maccPerms composite literal not found in package app")
	} else {
		var mods []string
		for m := range usedModules {
			mods = append(mods, m)
		}
		sort.Strings(mods)
		for _, m := range mods {
			for need := range usedModules[m] {
				r.check(perms[m][need], "MACC-PERM", fmt.Sprintf("maccPerms[%q] has %s", m, need), "app/app.go", fmt.Sprintf("permissions of %q: %v", m, keysOf(perms[m])))
			}
		}
	}

	// ---- MINT-GATE / MINT-STAMP / MINT-CALLERS
	bb := P.Func("x/mint.BeginBlocker")
	mbp := P.Func("x/mint.MintBlockProvision")
	kmint := P.Func("(x/mint/keeper.Keeper).MintCoins")
	spt := P.Func("x/mint.SetPreviousBlockTime")
	if bb == nil || mbp == nil || kmint == nil || spt == nil {
		r.broken("mint anchors do not resolve (BeginBlocker/MintBlockProvision/Keeper.MintCoins/SetPreviousBlockTime)")
	} else {
		r.fn(FuncName(bb))
		r.fn(FuncName(mbp))
		isInit := func(rel *Term) (bool, bool) {
			if strings.HasPrefix(rel.Op, "field:x/mint/types.Minter.Initialized") {
				return true, true
			}
			return false, false
		}
		isZeroTime := func(rel *Term) (bool, bool) {
			if rel.Op == "==" && len(rel.Args) == 2 && rel.Args[1].Op == "const:0" && rel.Args[0].Has("call:(github.com/cosmos/cosmos-sdk/types.Context).BlockTime") {
				return true, true
			}
			return false, false
		}
		atoms := []Atom{
			{Name: "initialized", Cond: isInit},
			{Name: "zerotime", Cond: isZeroTime},
			{Name: "minted", Event: P.CallEvent(func(c *CallSite) bool { return c.Callee == "x/mint.MintBlockProvision" }, T)},
			{Name: "stamped", Event: P.CallEvent(func(c *CallSite) bool {
				return c.Callee == "x/mint.SetPreviousBlockTime" || c.Desc() == "coll:x/mint/keeper.Keeper.Minter.Set"
			}, T)},
		}
		ps := AnalyzePaths(bb, atoms)
		nMint := 0
		for _, cs := range P.CallSitesIn(bb) {
			if cs.Callee == "x/mint.MintBlockProvision" {
				nMint++
				bad := ps.Require(cs.Instr, func(v map[string]bool) bool { return v["initialized"] })
				r.check(len(bad) == 0, "MINT-GATE", "x/mint.BeginBlocker # MintBlockProvision under minter.Initialized", P.Pos(cs.Pos()), fmt.Sprintf("path valuations reaching the call: %v", statesStr(ps, cs.Instr)))
			}
		}
		if nMint == 0 {
			r.bad("MINT-GATE", "x/mint.BeginBlocker # MintBlockProvision called", P.Pos(bb.Pos()), "begin-blocker no longer calls MintBlockProvision")
		}
		// stamp rules at success returns
		var succ []State
		for _, ret := range SuccessReturns(bb) {
			succ = append(succ, ps.At(ret)...)
		}
		idx := map[string]int{}
		for i, a := range atoms {
			idx[a.Name] = i
		}
		val := func(s State, n string) int8 { return int8(s[idx[n]]) }
		mintNoStamp, staleA, staleB := "", "", ""
		for _, s := range succ {
			if val(s, "minted") == T && val(s, "stamped") != T {
				mintNoStamp = ps.Render(s)
			}
			if val(s, "initialized") != T && val(s, "stamped") == T {
				staleA = ps.Render(s)
			}
			if val(s, "initialized") != T && val(s, "stamped") != T && val(s, "zerotime") != T {
				staleB = ps.Render(s)
			}
		}
		// the stamp has one writer: a second writer (genesis import, the Init handler, a query) could start the
		// clock while minting is off, and the first minting block would then pay for the whole time since
		{
			var writers []string
			for _, fn := range P.RepoFuncs {
				for _, b := range fn.Blocks {
					for _, in := range b.Instrs {
						if st, ok := in.(*ssa.Store); ok {
							if fa, ok := st.Addr.(*ssa.FieldAddr); ok && fieldName(fa.X.Type(), fa.Field) == "x/mint/types.Minter.PreviousBlockTime" {
								writers = append(writers, FuncName(TopFunc(fn)))
							}
						}
					}
				}
			}
			sort.Strings(writers)
			r.check(fmt.Sprint(writers) == "[x/mint.SetPreviousBlockTime]", "MINT-STAMP", "writers of Minter.PreviousBlockTime", "-", fmt.Sprintf("%v (reviewed: only SetPreviousBlockTime, which BeginBlocker reaches behind the Initialized gate)", writers))
		}
		r.check(mintNoStamp == "", "MINT-STAMP", "x/mint.BeginBlocker # minted => stamped at every success return", P.Pos(bb.Pos()), "a success path mints without refreshing PreviousBlockTime (the same interval would be minted again): "+mintNoStamp)
		r.check(!(staleA != "" && staleB != ""), "MINT-STAMP", "x/mint.BeginBlocker # no stale stamp while uninitialised", P.Pos(bb.Pos()), fmt.Sprintf("while minting is not started the stamp is written on some blocks (%s) but not on others (%s): the first block after Init would mint the backlog since the stale stamp", staleA, staleB))
		// MintCoins inside MintBlockProvision under PreviousBlockTime != nil
		prevNil := func(rel *Term) (bool, bool) {
			if rel.Op == "==" && len(rel.Args) == 2 && strings.HasPrefix(rel.Args[0].Op, "field:x/mint/types.Minter.PreviousBlockTime") && rel.Args[1].Op == "const:nil" {
				return true, true
			}
			return false, false
		}
		ps2 := AnalyzePaths(mbp, []Atom{{Name: "prevnil", Cond: prevNil}})
		n2 := 0
		for _, cs := range P.CallSitesIn(mbp) {
			if cs.Callee == "(x/mint/keeper.Keeper).MintCoins" {
				n2++
				bad := ps2.Require(cs.Instr, func(v map[string]bool) bool { return !v["prevnil"] })
				r.check(len(bad) == 0, "MINT-GATE", "x/mint.MintBlockProvision # MintCoins under PreviousBlockTime != nil", P.Pos(cs.Pos()), fmt.Sprintf("valuations: %v", statesStr(ps2, cs.Instr)))
				// the minted coins derive from CalculateBlockProvision
				t := NewTermer().Of(Arg(cs.Instr, 1))
				r.check(t.Has("call:(x/mint/types.Minter).CalculateBlockProvision"), "MINT-GATE", "x/mint.MintBlockProvision # minted coins = CalculateBlockProvision result", P.Pos(cs.Pos()), "minted value: "+clip(t.String(), 200))
			}
		}
		if n2 == 0 {
			r.bad("MINT-GATE", "x/mint.MintBlockProvision # MintCoins called", P.Pos(mbp.Pos()), "MintBlockProvision no longer mints through Keeper.MintCoins")
		}
		// callers
		for _, pair := range [][2]string{{"x/mint.MintBlockProvision", "x/mint.BeginBlocker"}, {"(x/mint/keeper.Keeper).MintCoins", "x/mint.MintBlockProvision"}} {
			callee := P.Func(pair[0])
			var callers []string
			for _, c := range P.callers[callee] {
				callers = append(callers, FuncName(TopFunc(c)))
			}
			sort.Strings(callers)
			r.check(len(callers) == 1 && callers[0] == pair[1], "MINT-CALLERS", pair[0]+" called only from "+pair[1], P.Pos(callee.Pos()), fmt.Sprintf("callers: %v", callers))
		}
	}

	// ---- LIN-MINT
	if cbp := P.Func("(x/mint/types.Minter).CalculateBlockProvision"); cbp == nil {
		r.broken("anchor CalculateBlockProvision does not resolve")
	} else {
		r.fn(FuncName(cbp))
		rate, ok1 := P.constValue(modPath+"/x/mint/types", "DailyMintRate")
		msDay, ok2 := P.constValue(modPath+"/x/mint/types", "MillisecondsInDay")
		if !ok1 || !ok2 {
			r.broken("constants DailyMintRate / MillisecondsInDay not found")
		} else {
			rv, _ := constant.Int64Val(rate)
			mv, _ := constant.Int64Val(msDay)
			r.check(mv == 86400000, "LIN-MINT", "x/mint/types.MillisecondsInDay == 86400000", "x/mint/types/minter.go", fmt.Sprintf("value %d", mv))
			found := 0
			for _, ret := range SuccessReturns(cbp) {
				if len(ret.Results) < 1 {
					continue
				}
				p := linOf(ret.Results[0])
				if p.IsZero() {
					continue // error path returns the zero coin
				}
				found++
				coef, mono, single := p.Single()
				okShape := single && len(mono) == 1
				atom := ""
				for a, e := range mono {
					atom = a
					if e != 1 {
						okShape = false
					}
				}
				okAtom := atom == "ms(call:(time.Time).Sub(param:1:time.Time,param:2:time.Time))" // the truncating reading of the difference itself, not of a rounded or scaled one
				okCoef := single && coef.Cmp(big.NewRat(rv, mv)) == 0
				r.check(okShape && okAtom && okCoef, "LIN-MINT", "(x/mint/types.Minter).CalculateBlockProvision # provision formula", P.Pos(ret.Pos()), fmt.Sprintf("normal form: %s ; expected %d/%d * ms(current - previous)", clip(p.String(), 300), rv, mv))
			}
			if found == 0 {
				r.bad("LIN-MINT", "(x/mint/types.Minter).CalculateBlockProvision # provision formula", P.Pos(cbp.Pos()), "no success return carries a non-zero provision")
			}
			// the before/after guard
			ps := AnalyzePaths(cbp, []Atom{{Name: "before", Cond: func(rel *Term) (bool, bool) {
				if rel.Op == "<" && len(rel.Args) == 2 && rel.Args[0].Op == "param:1:time.Time" && rel.Args[1].Op == "param:2:time.Time" {
					return true, true
				}
				return false, false
			}}})
			for _, ret := range SuccessReturns(cbp) {
				bad := ps.Require(ret, func(v map[string]bool) bool { return !v["before"] })
				r.check(len(bad) == 0, "LIN-MINT", "(x/mint/types.Minter).CalculateBlockProvision # no provision when current < previous", P.Pos(ret.Pos()), fmt.Sprintf("valuations: %v", statesStr(ps, ret)))
			}
		}
	}

	// ---- LIN-SPLIT
	if sir := P.Func("(x/mint/keeper.Keeper).SendInflationaryRewards"); sir == nil {
		r.broken("anchor SendInflationaryRewards does not resolve")
	} else {
		r.fn(FuncName(sir))
		checkSplit(r, sir)
	}

	// ---- LIN-TIPBURN
	if tr := P.Func("(x/oracle/keeper.Keeper).transfer"); tr == nil {
		r.broken("anchor oracle transfer does not resolve")
	} else {
		r.fn(FuncName(tr))
		tipAtom := "param:3:github.com/cosmos/cosmos-sdk/types.Coin"
		var burn, taken *Poly
		for _, cs := range P.CallSitesIn(tr) {
			if isBankCall(cs, "BurnCoins") {
				burn = coinsAmount(Arg(cs.Instr, 2))
				c, m, ok := burn.Single()
				r.check(ok && ratEq(c, 1, 50) && len(m) == 1 && m[tipAtom] == 1, "LIN-TIPBURN", "(x/oracle/keeper.Keeper).transfer # burn = tip/50", P.Pos(cs.Pos()), "normal form of the burned amount: "+burn.String())
			}
			if isBankCall(cs, "SendCoinsFromAccountToModule") {
				taken = coinsAmount(Arg(cs.Instr, 3))
				c, m, ok := taken.Single()
				r.check(ok && ratEq(c, 1, 1) && len(m) == 1 && m[tipAtom] == 1 && ConstArg(cs.Instr, 2) == "oracle", "LIN-TIPBURN", "(x/oracle/keeper.Keeper).transfer # taken from tipper = tip, into module oracle", P.Pos(cs.Pos()), "normal form of the amount taken: "+taken.String()+" -> module "+ConstArg(cs.Instr, 2))
			}
		}
		if burn == nil || taken == nil {
			r.bad("LIN-TIPBURN", "(x/oracle/keeper.Keeper).transfer # burn and take present", P.Pos(tr.Pos()), "transfer no longer takes the tip and burns part of it")
		} else {
			for _, ret := range SuccessReturns(tr) {
				p := linOf(ret.Results[0])
				r.check(p.Equal(taken.Sub(burn)), "LIN-TIPBURN", "(x/oracle/keeper.Keeper).transfer # returned tip = taken - burned", P.Pos(ret.Pos()), "returned: "+p.String()+" ; taken - burned: "+taken.Sub(burn).String())
			}
		}
		// the tip handler records exactly the returned value
		if tip := P.Func("(x/oracle/keeper.msgServer).Tip"); tip != nil {
			r.fn(FuncName(tip))
			for _, cs := range P.CallSitesIn(tip) {
				if cs.Callee == "(x/oracle/keeper.Keeper).transfer" {
					t := NewTermer().Of(Arg(cs.Instr, 2))
					r.check(strings.HasPrefix(t.Op, "field:x/oracle/types.MsgTip.Amount"), "LIN-TIPBURN", "(x/oracle/keeper.msgServer).Tip # transfer receives msg.Amount", P.Pos(cs.Pos()), "argument: "+clip(t.String(), 120))
				}
			}
		}
	}

	// ---- LIN-BRIDGE
	if ddr := P.Func("(x/bridge/keeper.Keeper).DecodeDepositReportValue"); ddr == nil {
		r.broken("anchor DecodeDepositReportValue does not resolve")
	} else {
		r.fn(FuncName(ddr))
		// the two NewInt64Coin amounts are Div(x, 1e12) of the decoded big ints
		n := 0
		for _, cs := range P.CallSitesIn(ddr) {
			if cs.Callee == "(*math/big.Int).Div" {
				n++
				d := NewTermer().Of(Arg(cs.Instr, 1))
				lit := d.Find(func(t *Term) bool { return strings.HasPrefix(t.Op, "const:") && t.Op != "const:nil" })
				ok := d.Op == "call:math/big.NewInt" && lit != nil && lit.Op == "const:1000000000000"
				r.check(ok, "LIN-BRIDGE", "(x/bridge/keeper.Keeper).DecodeDepositReportValue # decoded value / 10^12", P.Pos(cs.Pos()), "divisor: "+clip(d.String(), 120))
			}
		}
		if n < 2 {
			r.bad("LIN-BRIDGE", "(x/bridge/keeper.Keeper).DecodeDepositReportValue # both amount and tip scaled", P.Pos(ddr.Pos()), fmt.Sprintf("%d big.Int.Div scalings found, expected 2 (amount, tip)", n))
		}
	}
	if cd := P.Func("(x/bridge/keeper.Keeper).ClaimDeposit"); cd != nil {
		r.fn(FuncName(cd))
		for _, cs := range P.CallSitesIn(cd) {
			if isBankCall(cs, "MintCoins") {
				t := NewTermer().Of(Arg(cs.Instr, 2))
				ok := t.Op == "ext:1" && t.Has("call:(x/bridge/keeper.Keeper).DecodeDepositReportValue")
				r.check(ok, "LIN-BRIDGE", "(x/bridge/keeper.Keeper).ClaimDeposit # minted = decoded amount", P.Pos(cs.Pos()), "minted value: "+clip(t.String(), 160))
			}
		}
	}
	if wt := P.Func("(x/bridge/keeper.Keeper).WithdrawTokens"); wt == nil {
		r.broken("anchor WithdrawTokens does not resolve")
	} else {
		r.fn(FuncName(wt))
		var taken, burned, encoded string
		for _, cs := range P.CallSitesIn(wt) {
			switch {
			case isBankCall(cs, "SendCoinsFromAccountToModule"):
				taken = coinsAmount(Arg(cs.Instr, 3)).String()
			case isBankCall(cs, "BurnCoins"):
				burned = coinsAmount(Arg(cs.Instr, 2)).String()
			case cs.Callee == "(x/bridge/keeper.Keeper).CreateWithdrawalAggregate":
				encoded = coinsAmount(Arg(cs.Instr, 1)).String()
			}
		}
		r.check(taken != "" && taken == burned && burned == encoded, "LIN-BRIDGE", "(x/bridge/keeper.Keeper).WithdrawTokens # taken = burned = attested", P.Pos(wt.Pos()), fmt.Sprintf("taken %s ; burned %s ; encoded in the withdrawal report %s", taken, burned, encoded))
	}
	r.minCount("CENSUS-SUPPLY", 8)
	r.minCount("LIN-TIPBURN", 4)
	r.minCount("LIN-SPLIT", 3)
	r.minCount("MINT-GATE", 3)
}

func clip(s string, n int) string {
	if len(s) > n {
		return s[:n] + "…"
	}
	return s
}

func statesStr(ps *PathStates, in ssa.Instruction) []string {
	var out []string
	for _, s := range ps.At(in) {
		out = append(out, ps.Render(s))
	}
	return out
}

func keysOf(m map[string]bool) []string {
	var out []string
	for k := range m {
		out = append(out, k)
	}
	sort.Strings(out)
	return out
}

// parseMaccPerms reads the maccPerms composite literal of package app: module name -> permission set.
func parseMaccPerms(P *Prog) map[string]map[string]bool {
	pkg := P.PackageByPath(modPath + "/app")
	if pkg == nil {
		return nil
	}
	var out map[string]map[string]bool
	for _, f := range pkg.Syntax {
		ast.Inspect(f, func(n ast.Node) bool {
			vs, ok := n.(*ast.ValueSpec)
			if !ok || len(vs.Names) != 1 || vs.Names[0].Name != "maccPerms" || len(vs.Values) != 1 {
				return true
			}
			cl, ok := vs.Values[0].(*ast.CompositeLit)
			if !ok {
				return true
			}
			out = map[string]map[string]bool{}
			for _, el := range cl.Elts {
				kv, ok := el.(*ast.KeyValueExpr)
				if !ok {
					continue
				}
				ktv := pkg.TypesInfo.Types[kv.Key]
				if ktv.Value == nil {
					continue
				}
				name := constant.StringVal(ktv.Value)
				out[name] = map[string]bool{}
				if vcl, ok := kv.Value.(*ast.CompositeLit); ok {
					for _, pe := range vcl.Elts {
						if ptv := pkg.TypesInfo.Types[pe]; ptv.Value != nil {
							out[name][constant.StringVal(ptv.Value)] = true
						}
					}
				}
			}
			return false
		})
	}
	return out
}

// checkSplit: the Output literals of SendInflationaryRewards pair a module address with an amount.
func checkSplit(r *Result, fn *ssa.Function) {
	P := r.P
	tm := NewTermer()
	type out struct {
		addr  string
		coins *Poly
	}
	outs := map[ssa.Value]*out{}
	var inputAmt *Poly
	for _, b := range fn.Blocks {
		for _, in := range b.Instrs {
			switch x := in.(type) {
			case *ssa.Store:
				fa, ok := x.Addr.(*ssa.FieldAddr)
				if !ok {
					continue
				}
				fname := fieldName(fa.X.Type(), fa.Field)
				if !strings.HasPrefix(fname, "github.com/cosmos/cosmos-sdk/x/bank/types.Output.") {
					continue
				}
				o := outs[fa.X]
				if o == nil {
					o = &out{}
					outs[fa.X] = o
				}
				t := tm.Of(x.Val)
				if strings.HasSuffix(fname, ".Address") {
					if c := t.Find(func(t *Term) bool { return strings.HasPrefix(t.Op, "const:") }); c != nil && t.Has("call:github.com/cosmos/cosmos-sdk/x/auth/types.NewModuleAddressOrBech32Address") {
						o.addr = strings.TrimPrefix(c.Op, "const:")
					}
				} else if strings.HasSuffix(fname, ".Coins") {
					o.coins = (&linEval{}).Eval(t)
				}
			case *ssa.Call:
				if CalleeName(x.Common()) == "github.com/cosmos/cosmos-sdk/x/bank/types.NewInput" && len(x.Call.Args) == 2 {
					inputAmt = linOf(x.Call.Args[1])
				}
			}
		}
	}
	base := "param:2:github.com/cosmos/cosmos-sdk/types.Coins"
	got := map[string]*Poly{}
	sum := newPoly()
	for _, o := range outs {
		if o.coins != nil {
			got[o.addr] = o.coins
			sum = sum.Add(o.coins)
		}
	}
	share := func(addr string, num, den int64) {
		p := got[addr]
		ok := false
		desc := "no output to this account"
		if p != nil {
			c, m, single := p.Single()
			ok = single && ratEq(c, num, den) && len(m) == 1 && m[base] == 1
			desc = p.String()
		}
		r.check(ok, "LIN-SPLIT", fmt.Sprintf("(x/mint/keeper.Keeper).SendInflationaryRewards # %s receives %d/%d", addr, num, den), P.Pos(fn.Pos()), "normal form: "+desc)
	}
	share("time_based_rewards", 3, 4)
	share("fee_collector", 1, 4)
	r.check(len(got) == 2, "LIN-SPLIT", "(x/mint/keeper.Keeper).SendInflationaryRewards # exactly two outputs", P.Pos(fn.Pos()), fmt.Sprintf("%d outputs", len(got)))
	r.check(inputAmt != nil && inputAmt.Equal(sum), "LIN-SPLIT", "(x/mint/keeper.Keeper).SendInflationaryRewards # input = sum of outputs", P.Pos(fn.Pos()), fmt.Sprintf("input %v ; outputs sum %s", inputAmt, sum))
	// the coins sent are the coins minted (caller passes the same value)
	if mbp := P.Func("x/mint.MintBlockProvision"); mbp != nil {
		var minted, sent string
		for _, cs := range P.CallSitesIn(mbp) {
			if cs.Callee == "(x/mint/keeper.Keeper).MintCoins" {
				minted = NewTermer().Of(Arg(cs.Instr, 1)).String()
			}
			if cs.Callee == "(x/mint/keeper.Keeper).SendInflationaryRewards" {
				sent = NewTermer().Of(Arg(cs.Instr, 1)).String()
			}
		}
		r.check(minted != "" && minted == sent, "LIN-SPLIT", "x/mint.MintBlockProvision # distributed coins = minted coins", P.Pos(mbp.Pos()), "minted "+clip(minted, 100)+" ; distributed "+clip(sent, 100))
	}
}
