package main

// C11 — slashing takes exactly the category's share of the disputed report's stake.

import (
	"fmt"
	"math/big"
	"os"
	"sort"
	"strings"

	"golang.org/x/tools/go/ssa"
)

func init() { register("C11", checkC11) }

func checkC11(r *Result) {
	P := r.P
	r.Explanation = "Constants, once-only and recording rules of slashing, decided on SSA: the slash percentage and the dispute fee per category are 1/100, 1/20 and 1 of (report power x PowerReduction) with jail durations 0, 600 s and 'no jail' as algebraic normal forms / folded constants; the amount escrowed is power x PR x pct / PR, and each backer is asked for origin.Amount x amt / (power x PR) of the snapshot taken when the report was made; the slashing entry point is called only from the two places where the paid fee reaches the slash amount (each under that equality) and is unreachable from the begin blocker; the aggregate is flagged before the stake is escrowed and the reporter jailed after; the per-backer record stores, for every origin, amounts that add up to the share requested from it (what was taken at the snapshot validator plus what had to be chased), and its total is the requested amount; and every path from MsgProposeDispute to the creation of a dispute must compare the disputed report with the stored one — which no path does today (known finding D9)."
	r.NotDecided = "that the proportional apportioning is exact to within one unit for all stake distributions; that chasing redelegated / unbonding tokens always finds them; what staking does between report and dispute"
	r.Assumptions = []string{"the stake snapshot read by EscrowReporterStake is the one written when the report was admitted (C07)"}
	r.rule("LIN-SLASH", "slash percentage, dispute fee, escrowed amount and per-backer request have the specified coefficients")
	r.rule("JAIL", "jail durations are 0, 600 s and none; a jailed reporter record is written with Jailed=true and JailedUntil = block time + duration")
	r.rule("ONCE-SLASH", "SlashAndJailReporter is called only where the fee total reaches the slash amount, and never from a block hook")
	r.rule("FLAG-FIRST", "the aggregate is flagged before the stake is escrowed, the reporter jailed afterwards")
	r.rule("ESCROW-RECORD", "the per-backer record stores amounts that add up to each origin's share, and the requested total")
	r.rule("CHASE-WALK", "no loop that follows stake through entries removes from the slice it ranges over and keeps iterating (decided for every range loop of the repository)")
	r.rule("REPORT-AUTHENTIC", "a dispute is created only for a report that was compared with the oracle's stored report")

	need := func(name string) *ssa.Function {
		f := P.Func(name)
		if f == nil {
			r.broken("anchor %s does not resolve", name)
		} else {
			r.fn(name)
		}
		return f
	}
	tm := NewTermer()
	pr := func(t *Term) string {
		if t.Op == "global:types.PowerReduction" {
			return "PR"
		}
		return ""
	}
	// ---- LIN-SLASH: percentage and jail per category
	if gs := need("x/dispute/keeper.GetSlashPercentageAndJailDuration"); gs != nil {
		le := &linEval{Atomise: pr}
		got := map[string]string{}
		for _, ret := range SuccessReturns(gs) {
			p := le.Eval(tm.Of(ResultOf(ret, 0)))
			j := tm.Of(ResultOf(ret, 1))
			got[p.String()] = j.Op
		}
		want := map[string]string{"1/100 * PR^1": "const:0", "1/20 * PR^1": "const:600", "PR^1": "const:9223372036854775807"}
		ok := len(got) == 3
		for k, v := range want {
			if got[k] != v {
				ok = false
			}
		}
		r.check(ok, "LIN-SLASH", "x/dispute/keeper.GetSlashPercentageAndJailDuration # (1%, 0), (5%, 600), (100%, none)", P.Pos(gs.Pos()), fmt.Sprintf("(percentage, jail) pairs: %v", got))
		for _, es := range P.EnumSwitches(gs) {
			r.check(len(es.Missing) == 0 || es.ErrDefault, "LIN-SLASH", "x/dispute/keeper.GetSlashPercentageAndJailDuration # category switch exhaustive or failing", P.Pos(es.Pos), fmt.Sprintf("missing %v, failing default %v", es.Missing, es.ErrDefault))
		}
	}
	if gf := need("(x/dispute/keeper.Keeper).GetDisputeFee"); gf != nil {
		le := &linEval{Atomise: func(t *Term) string {
			if a := pr(t); a != "" {
				return a
			}
			if strings.HasPrefix(t.Op, "field:x/oracle/types.MicroReport.Power") {
				return "power"
			}
			return ""
		}}
		var got []string
		for _, ret := range SuccessReturns(gf) {
			got = append(got, le.Eval(tm.Of(ResultOf(ret, 0))).String())
		}
		sort.Strings(got)
		want := []string{"1/100 * PR^1 * power^1", "1/20 * PR^1 * power^1", "PR^1 * power^1"}
		r.check(fmt.Sprint(got) == fmt.Sprint(want), "LIN-SLASH", "(x/dispute/keeper.Keeper).GetDisputeFee # 1%, 5%, 100% of power x PR", P.Pos(gf.Pos()), fmt.Sprintf("%v", got))
	}
	if sj := need("(x/dispute/keeper.Keeper).SlashAndJailReporter"); sj != nil {
		le := &linEval{Atomise: func(t *Term) string {
			if a := pr(t); a != "" {
				return a
			}
			if strings.HasPrefix(t.Op, "field:x/oracle/types.MicroReport.Power") {
				return "power"
			}
			if t.Op == "ext:0" && t.Has("call:x/dispute/keeper.GetSlashPercentageAndJailDuration") {
				return "pct"
			}
			return ""
		}}
		ps := AnalyzePaths(sj, []Atom{
			{Name: "flagged", Event: P.CallEvent(func(c *CallSite) bool { return strings.HasSuffix(c.Callee, "OracleKeeper.FlagAggregateReport") }, T)},
			{Name: "flagErr", Cond: func(rel *Term) (bool, bool) {
				if rel.Op == "==" && len(rel.Args) == 2 && rel.Args[1].Op == "const:nil" && strings.HasSuffix(rel.Args[0].Op, "OracleKeeper.FlagAggregateReport") {
					return true, false
				}
				return false, false
			}},
			{Name: "escrowed", Event: P.CallEvent(func(c *CallSite) bool { return strings.HasSuffix(c.Callee, "ReporterKeeper.EscrowReporterStake") }, T)}})
		for _, cs := range P.CallSitesIn(sj) {
			switch {
			case strings.HasSuffix(cs.Callee, "ReporterKeeper.EscrowReporterStake"):
				amt := le.Eval(tm.Of(Arg(cs.Instr, 4)))
				want := atomPoly("power").Mul(atomPoly("pct"))
				r.check(amt.Equal(want), "LIN-SLASH", "(x/dispute/keeper.Keeper).SlashAndJailReporter # escrowed amount = power x PR x pct / PR", P.Pos(cs.Pos()), "normal form: "+amt.String())
				bad := ps.Require(cs.Instr, func(v map[string]bool) bool { return v["flagged"] && !v["flagErr"] })
				r.check(len(bad) == 0, "FLAG-FIRST", "(x/dispute/keeper.Keeper).SlashAndJailReporter # aggregate flagged before the escrow", P.Pos(cs.Pos()), fmt.Sprintf("valuations: %v", statesStr(ps, cs.Instr)))
				// power, height, query id of the disputed report
				okArgs := strings.HasPrefix(tm.Of(Arg(cs.Instr, 2)).Op, "field:x/oracle/types.MicroReport.Power") && strings.HasPrefix(tm.Of(Arg(cs.Instr, 3)).Op, "field:x/oracle/types.MicroReport.BlockNumber") && strings.HasPrefix(tm.Of(Arg(cs.Instr, 5)).Op, "field:x/oracle/types.MicroReport.QueryId") && tm.Of(Arg(cs.Instr, 1)).Has("field:x/oracle/types.MicroReport.Reporter")
				r.check(okArgs, "ESCROW-RECORD", "(x/dispute/keeper.Keeper).SlashAndJailReporter # escrow addressed by the disputed report's reporter, power, height and query id", P.Pos(cs.Pos()), "arguments taken from the disputed MicroReport")
			case cs.Callee == "(x/dispute/keeper.Keeper).JailReporter":
				bad := ps.Require(cs.Instr, func(v map[string]bool) bool { return v["escrowed"] })
				d := tm.Of(Arg(cs.Instr, 2))
				r.check(len(bad) == 0 && d.Op == "ext:1" && d.Has("call:x/dispute/keeper.GetSlashPercentageAndJailDuration"), "FLAG-FIRST", "(x/dispute/keeper.Keeper).SlashAndJailReporter # jailed after the escrow, for the category's duration", P.Pos(cs.Pos()), "duration: "+d.Brief())
			case cs.Callee == "x/dispute/keeper.GetSlashPercentageAndJailDuration":
				c := tm.Of(cs.Instr.Common().Args[0])
				r.check(c.Op == "param:3:x/dispute/types.DisputeCategory", "LIN-SLASH", "(x/dispute/keeper.Keeper).SlashAndJailReporter # percentage of the dispute's category", P.Pos(cs.Pos()), "argument: "+c.Brief())
			}
		}
	}
	// every success return of SlashAndJailReporter has flagged, escrowed and jailed (for every category)
	if sj := need("(x/dispute/keeper.Keeper).SlashAndJailReporter"); sj != nil {
		ps := AnalyzePaths(sj, []Atom{
			{Name: "flagged", Event: P.CallEvent(func(c *CallSite) bool { return strings.HasSuffix(c.Callee, "OracleKeeper.FlagAggregateReport") }, T)},
			{Name: "escrowed", Event: P.CallEvent(func(c *CallSite) bool { return strings.HasSuffix(c.Callee, "ReporterKeeper.EscrowReporterStake") }, T)},
			{Name: "jailed", Event: P.CallEvent(func(c *CallSite) bool { return c.Callee == "(x/dispute/keeper.Keeper).JailReporter" }, T)},
		})
		okAll, n := true, 0
		for _, ret := range SuccessReturns(sj) {
			n++
			if bad := ps.Require(ret, func(v map[string]bool) bool { return v["flagged"] && v["escrowed"] && v["jailed"] }); len(bad) > 0 {
				okAll = false
			}
		}
		r.check(okAll && n > 0, "JAIL", "(x/dispute/keeper.Keeper).SlashAndJailReporter # every success return has flagged the aggregate, escrowed the stake and jailed the reporter", P.Pos(sj.Pos()), fmt.Sprintf("%d success returns", n))
	}
	// ---- JAIL
	if dj := need("(x/dispute/keeper.Keeper).JailReporter"); dj != nil {
		{
			ps := AnalyzePaths(dj, []Atom{
				{Name: "forever", Cond: func(rel *Term) (bool, bool) {
					if rel.Op == "==" && len(rel.Args) == 2 && rel.Args[0].Op == "param:3:uint64" && rel.Args[1].Op == "const:9223372036854775807" {
						return true, true
					}
					return false, false
				}},
				{Name: "jailed", Event: P.CallEvent(func(c *CallSite) bool { return strings.HasSuffix(c.Callee, "ReporterKeeper.JailReporter") }, T)},
			})
			okAll, n := true, 0
			for _, ret := range SuccessReturns(dj) {
				n++
				if bad := ps.Require(ret, func(v map[string]bool) bool { return v["jailed"] || v["forever"] }); len(bad) > 0 {
					okAll = false
				}
			}
			r.check(okAll && n > 0, "JAIL", "(x/dispute/keeper.Keeper).JailReporter # every success return has jailed the reporter, except for the 100% category", P.Pos(dj.Pos()), fmt.Sprintf("%d success returns", n))
		}
		ps := AnalyzePaths(dj, []Atom{{Name: "forever", Cond: func(rel *Term) (bool, bool) {
			if rel.Op == "==" && len(rel.Args) == 2 && rel.Args[0].Op == "param:3:uint64" && rel.Args[1].Op == "const:9223372036854775807" {
				return true, true
			}
			return false, false
		}}})
		for _, cs := range P.CallSitesIn(dj) {
			if strings.HasSuffix(cs.Callee, "ReporterKeeper.JailReporter") {
				bad := ps.Require(cs.Instr, func(v map[string]bool) bool { return !v["forever"] })
				r.check(len(bad) == 0 && len(ps.Matched["forever"]) > 0, "JAIL", "(x/dispute/keeper.Keeper).JailReporter # no jail record for a major (100%) slash", P.Pos(cs.Pos()), fmt.Sprintf("valuations: %v", statesStr(ps, cs.Instr)))
			}
		}
	}
	if rj := need("(x/reporter/keeper.Keeper).JailReporter"); rj != nil {
		okUntil, okFlag := false, false
		nUntil, badUntil := 0, 0
		for _, b := range rj.Blocks {
			for _, in := range b.Instrs {
				st, ok := in.(*ssa.Store)
				if !ok {
					continue
				}
				fa, ok := st.Addr.(*ssa.FieldAddr)
				if !ok {
					continue
				}
				switch fieldName(fa.X.Type(), fa.Field) {
				case "x/reporter/types.OracleReporter.JailedUntil":
					t := tm.Of(st.Val)
					one := t.Op == "call:(time.Time).Add" && len(t.Args) == 2 && t.Args[0].Op == "call:(github.com/cosmos/cosmos-sdk/types.Context).BlockTime" && t.Args[1].Op == "*" && t.Args[1].Contains("const:1000000000") && t.Args[1].Has("param:3:uint64")
					nUntil++
					if !one {
						badUntil++
					}
					// every store of the term starts it at the block time of the jailing (not at an older term)
					okUntil = nUntil > 0 && badUntil == 0
				case "x/reporter/types.OracleReporter.Jailed":
					okFlag = storesConstToField(in, "x/reporter/types.OracleReporter.Jailed", "true")
				}
			}
		}
		r.check(okUntil && okFlag, "JAIL", "(x/reporter/keeper.Keeper).JailReporter # Jailed=true, JailedUntil = block time + duration seconds", P.Pos(rj.Pos()), fmt.Sprintf("until: %v ; flag: %v", okUntil, okFlag))
		// every success return has written the jail record with the new term: a success without it
		// lets a funded dispute pass whose jail term was dropped
		ps := AnalyzePaths(rj, []Atom{
			{Name: "termSet", Event: func(in ssa.Instruction) (bool, int8) {
				if st, ok := in.(*ssa.Store); ok {
					if fa, ok := st.Addr.(*ssa.FieldAddr); ok && fieldName(fa.X.Type(), fa.Field) == "x/reporter/types.OracleReporter.JailedUntil" {
						return true, T
					}
				}
				return false, U
			}},
			{Name: "stored", Event: P.CallEvent(descIs("coll:x/reporter/keeper.Keeper.Reporters.Set"), T)},
		})
		okAll := true
		nret := 0
		for _, ret := range SuccessReturns(rj) {
			nret++
			if bad := ps.Require(ret, func(v map[string]bool) bool { return v["termSet"] && v["stored"] }); len(bad) > 0 {
				okAll = false
			}
		}
		// the term of a reporter that is already in jail is not rewritten: a later, shorter term (a warning
		// dispute after a minor one) would otherwise cut the running ten minutes short
		{
			psJ := AnalyzePaths(rj, []Atom{{Name: "alreadyJailed", Cond: func(rel *Term) (bool, bool) {
				return strings.HasSuffix(rel.Op, "OracleReporter.Jailed"), true
			}}})
			nSet := 0
			for _, cs := range P.Sites(descIs("coll:x/reporter/keeper.Keeper.Reporters.Set")) {
				if TopFunc(cs.Fn) != rj {
					continue
				}
				nSet++
				bad := psJ.Require(cs.Instr, func(v map[string]bool) bool { return !v["alreadyJailed"] })
				r.check(len(bad) == 0 && len(psJ.Matched["alreadyJailed"]) > 0, "JAIL", "(x/reporter/keeper.Keeper).JailReporter # the jail term is written only for a reporter that is not in jail already", P.Pos(cs.Pos()), fmt.Sprintf("valuations: %v", statesStr(psJ, cs.Instr)))
			}
			r.check(nSet == 1, "JAIL", "(x/reporter/keeper.Keeper).JailReporter # one store of the record", P.Pos(rj.Pos()), fmt.Sprint(nSet))
		}
		r.check(okAll && nret > 0, "JAIL", "(x/reporter/keeper.Keeper).JailReporter # every success return has stored the record with the new jail term", P.Pos(rj.Pos()), fmt.Sprintf("%d success returns", nret))
	}
	// ---- ONCE-SLASH
	{
		sj := P.Func("(x/dispute/keeper.Keeper).SlashAndJailReporter")
		var cs []string
		for _, c := range P.callers[sj] {
			cs = append(cs, FuncName(TopFunc(c)))
		}
		sort.Strings(cs)
		r.check(fmt.Sprint(cs) == "[(x/dispute/keeper.Keeper).SetNewDispute (x/dispute/keeper.msgServer).AddFeeToDispute]", "ONCE-SLASH", "callers of SlashAndJailReporter", "-", fmt.Sprint(cs))
		feeMet := func(rel *Term) (bool, bool) {
			if rel.Op == "==" && len(rel.Args) == 2 && ((rel.Args[0].Contains("Dispute.FeeTotal") && rel.Args[1].Contains("Dispute.SlashAmount")) || (rel.Args[0].Contains("MsgProposeDispute.Fee") && rel.Args[1].Contains("GetDisputeFee"))) {
				return true, true
			}
			return false, false
		}
		for _, name := range []string{"(x/dispute/keeper.Keeper).SetNewDispute", "(x/dispute/keeper.msgServer).AddFeeToDispute"} {
			fn := need(name)
			if fn == nil {
				continue
			}
			ps := AnalyzePaths(fn, []Atom{{Name: "feeMet", Cond: feeMet},
				{Name: "alreadyMet", Cond: func(rel *Term) (bool, bool) {
					if rel.Op == "<=" && len(rel.Args) == 2 && rel.Args[0].Contains("Dispute.SlashAmount") && rel.Args[1].Contains("Dispute.FeeTotal") {
						return true, true
					}
					return false, false
				}}})
			for _, c := range P.CallSitesIn(fn) {
				if c.Callee == "(x/dispute/keeper.Keeper).SlashAndJailReporter" {
					bad := ps.Require(c.Instr, func(v map[string]bool) bool {
						if strings.HasSuffix(name, "AddFeeToDispute") {
							return v["feeMet"] && !v["alreadyMet"]
						}
						return v["feeMet"]
					})
					r.check(len(bad) == 0, "ONCE-SLASH", name+" # slash exactly when the fee total reaches the slash amount", P.Pos(c.Pos()), fmt.Sprintf("valuations: %v", statesStr(ps, c.Instr)))
					a := tm.Of(Arg(c.Instr, 1))
					r.check(a.Contains("InitialEvidence") || a.Contains("MsgProposeDispute.Report"), "ONCE-SLASH", name+" # slashes the disputed report", P.Pos(c.Pos()), "report argument: "+clip(a.String(), 120))
				}
			}
		}
		S := P.Scopes()
		blk := P.Reachable(S.Block, nil)
		_, reach1 := blk[sj]
		_, reach2 := blk[P.Func("(x/reporter/keeper.Keeper).EscrowReporterStake")]
		r.check(!reach1 && !reach2, "ONCE-SLASH", "block hooks reach no slashing function", "-", fmt.Sprintf("SlashAndJailReporter reachable: %v ; EscrowReporterStake reachable: %v", reach1, reach2))
		var es []string
		for _, c := range P.callers[P.Func("(x/reporter/keeper.Keeper).EscrowReporterStake")] {
			es = append(es, FuncName(TopFunc(c)))
		}
		r.check(fmt.Sprint(es) == "[(x/dispute/keeper.Keeper).SlashAndJailReporter]", "ONCE-SLASH", "callers of EscrowReporterStake", "-", fmt.Sprint(es))
	}
	// ---- the walk through one backer's sources hands on what the previous source left uncovered, never the whole share again
	if ud := need("(x/reporter/keeper.Keeper).undelegate"); ud != nil {
		tmu := NewTermer()
		left := func(t *Term) bool { // what deductFromdelegation could not cover, in whole tokens
			return t.Op == "call:(cosmossdk.io/math.LegacyDec).TruncateInt" && len(t.Args) == 1 && t.Args[0].Op == "ext:0" && len(t.Args[0].Args) == 1 &&
				t.Args[0].Args[0].Op == "call:(x/reporter/keeper.Keeper).deductFromdelegation"
		}
		n := 0
		for _, cs := range P.CallSitesIn(ud) {
			switch cs.Callee {
			case "(x/reporter/keeper.Keeper).deductFromdelegation":
				n++
				a := tmu.Of(Arg(cs.Instr, 3))
				r.check(strings.HasPrefix(a.Op, "param:4:"), "LIN-SLASH", "(x/reporter/keeper.Keeper).undelegate # the delegation is asked for the backer's whole share", P.Pos(cs.Pos()), "amount: "+a.Brief())
			case "(x/reporter/keeper.Keeper).deductUnbondingDelegation":
				n++
				a := tmu.Of(Arg(cs.Instr, 3))
				r.check(left(a), "LIN-SLASH", "(x/reporter/keeper.Keeper).undelegate # the unbonding entries are asked for what the delegation left uncovered", P.Pos(cs.Pos()), "amount: "+clip(a.String(), 160))
			}
		}
		r.check(n == 2, "LIN-SLASH", "(x/reporter/keeper.Keeper).undelegate # one request to the delegation, one to the unbonding entries", P.Pos(ud.Pos()), fmt.Sprint(n))
		for _, ret := range SuccessReturns(ud) {
			t := tmu.Of(ResultOf(ret, 0))
			ok := t.Op == "call:cosmossdk.io/math.ZeroInt" || left(t) ||
				(t.Op == "ext:0" && len(t.Args) == 1 && t.Args[0].Op == "call:(x/reporter/keeper.Keeper).deductUnbondingDelegation")
			r.check(ok, "LIN-SLASH", "(x/reporter/keeper.Keeper).undelegate # still owed = nothing, what the unbonding entries left, or what the delegation left when there are none", P.Pos(ret.Pos()), "returned: "+clip(t.String(), 160))
		}
	}
	// ---- ESCROW-RECORD
	if er := need("(x/reporter/keeper.Keeper).EscrowReporterStake"); er != nil {
		var undelegates []*ssa.Call
		for _, cs := range P.CallSitesIn(er) {
			if cs.Callee == "(x/reporter/keeper.Keeper).undelegate" {
				undelegates = append(undelegates, cs.Instr.(*ssa.Call))
			}
		}
		le := &linEval{Atomise: func(t *Term) string {
			if a := pr(t); a != "" {
				return a
			}
			switch {
			case strings.HasPrefix(t.Op, "field:x/reporter/types.TokenOriginInfo.Amount"):
				return "origin"
			case t.Op == "param:5:cosmossdk.io/math.Int":
				return "amt"
			case t.Op == "param:3:uint64":
				return "power"
			case t.Op == "phi":
				return "share"
			case t.Op == "ext:0" && len(t.Args) == 1 && t.Args[0].Op == "call:(x/reporter/keeper.Keeper).undelegate":
				if len(undelegates) > 0 && t.Args[0].V == ssa.Value(undelegates[0]) {
					return "owedAfterSnapshotValidator"
				}
				return "owedAfterChase"
			}
			return ""
		}}
		// per-backer request: the Dec handed to the first undelegate is share; share's non-leftover edge = origin*amt/(power*PR)
		if len(undelegates) >= 1 {
			req := tm.Of(undelegates[0].Call.Args[4])
			var base *Term
			req.Walk(func(t *Term) bool {
				if t.Op == "phi" && base == nil {
					base = t
				}
				return true
			})
			okShape, okDen := false, false
			desc := ""
			if base != nil {
				for _, e := range base.Args {
					p := (&linEval{Atomise: func(t *Term) string {
						if a := pr(t); a != "" {
							return a
						}
						switch {
						case strings.HasPrefix(t.Op, "field:x/reporter/types.DelegationsAmounts.Total"):
							return "total"
						case strings.HasPrefix(t.Op, "field:x/reporter/types.TokenOriginInfo.Amount"):
							return "origin"
						case t.Op == "param:5:cosmossdk.io/math.Int":
							return "amt"
						case t.Op == "param:3:uint64":
							return "power"
						}
						return ""
					}}).Eval(e)
					if c, m, ok := p.Single(); ok && c.Cmp(big.NewRat(1, 1)) == 0 && m["origin"] == 1 && m["amt"] == 1 && m["power"] == -1 && m["PR"] == -1 && len(m) == 4 {
						okShape = true
						desc = p.plain()
					}
					if c, m, ok := p.Single(); ok && c.Cmp(big.NewRat(1, 1)) == 0 && m["origin"] == 1 && m["amt"] == 1 && m["total"] == -1 && len(m) == 3 {
						okShape, okDen = true, true
						desc = p.plain()
					}
				}
			}
			r.check(okShape, "LIN-SLASH", "(x/reporter/keeper.Keeper).EscrowReporterStake # per-backer request = origin.Amount x amt / (power x PR)", P.Pos(undelegates[0].Pos()), "normal form of the proportional edge: "+desc)
			// "in proportion to their contribution": the shares of all origins add up to amt only if the denominator is the sum of
			// the origins, i.e. the snapshot's Total. power x PR is that sum rounded down to whole tokens: with a stake of
			// 2.999999 tokens the shares add up to 1.5 amt and the last origin is given the negative rest
			r.check(okDen, "LIN-SLASH", "(x/reporter/keeper.Keeper).EscrowReporterStake # the share's denominator is the sum of the origins (the snapshot's total)", P.Pos(undelegates[0].Pos()), "normal form of the proportional edge: "+desc)
		}
		// every origin of the snapshot is processed: each iteration decides the "last origin takes the rounding
		// leftover" test, and skips the withdrawal only when the origin's final share is zero
		if len(undelegates) >= 1 {
			if h := innermostLoopHeader(er, undelegates[0].Block()); h == nil {
				r.broken("EscrowReporterStake: the per-origin withdrawal is not in a loop")
			} else {
				isLast := func(in ssa.Instruction) bool {
					iff, ok := in.(*ssa.If)
					if !ok {
						return false
					}
					rel, _ := Cond(tm.Of(iff.Cond))
					return rel != nil && rel.Op == "==" && rel.Contains("builtin:len") && rel.Contains("TokenOrigins")
				}
				okA, whyA := iterationPasses(er, h, isLast)
				r.check(okA, "ESCROW-RECORD", "(x/reporter/keeper.Keeper).EscrowReporterStake # every origin passes the last-origin test that adds the rounding leftover", P.Pos(undelegates[0].Pos()), whyA)
				first := h.Instrs[0]
				ps := AnalyzePaths(er, []Atom{
					{Name: "taken", Event: func(in ssa.Instruction) (bool, int8) {
						if in == first {
							return true, F
						}
						if in == ssa.Instruction(undelegates[0]) {
							return true, T
						}
						return false, U
					}},
					{Name: "zeroShare", Cond: func(rel *Term) (bool, bool) {
						if os.Getenv("VERIF_DEBUG") != "" {
							fmt.Fprintln(os.Stderr, "C11 cond:", clip(rel.String(), 300))
						}
						if rel.Op == "==" && len(rel.Args) == 2 && rel.Args[1].Op == "const:0" && rel.Args[0].Op == "phi" && rel.Args[0].Contains("RoundInt") {
							return true, true
						}
						return false, false
					}},
				})
				okB, nBack := true, 0
				for _, p := range h.Preds {
					if !h.Dominates(p) {
						continue
					}
					nBack++
					if bad := ps.RequireOnEdge(p, h, func(v map[string]bool) bool { return v["taken"] || v["zeroShare"] }); len(bad) > 0 {
						okB = false
					}
				}
				r.check(okB && nBack > 0, "ESCROW-RECORD", "(x/reporter/keeper.Keeper).EscrowReporterStake # an origin is skipped only when its final share (leftover included) is zero", P.Pos(undelegates[0].Pos()), fmt.Sprintf("%d back edges", nBack))
			}
		}
		// the rounding leftover: leftover_0 = amt, leftover_i = leftover_(i-1) - share_i, and the last origin's share is
		// share + leftover, added on the true edge of `i == len(origins) - 1`: the shares of all origins add up to amt
		{
			okLeft, detLeft := false, "no share + leftover addition found"
			for _, b := range er.Blocks {
				for _, in := range b.Instrs {
					add, ok := in.(*ssa.Call)
					if !ok || CalleeName(add.Common()) != "(cosmossdk.io/math.Int).Add" || len(add.Call.Args) != 2 {
						continue
					}
					share := add.Call.Args[0]
					sub, ok := add.Call.Args[1].(*ssa.Call)
					if !ok || CalleeName(sub.Common()) != "(cosmossdk.io/math.Int).Sub" || len(sub.Call.Args) != 2 {
						continue
					}
					ph, isPhi := sub.Call.Args[0].(*ssa.Phi)
					if !isPhi || sub.Call.Args[1] != share {
						detLeft = "the leftover is not (previous leftover - this origin's share)"
						continue
					}
					fromAmt, fromSelf, onlyThose := false, false, true
					for _, e := range ph.Edges {
						switch {
						case tm.Of(e).Op == "param:5:cosmossdk.io/math.Int":
							fromAmt = true
						case e == ssa.Value(sub):
							fromSelf = true
						default:
							onlyThose = false
						}
					}
					condOK := false
					for _, p := range add.Block().Preds {
						iff, isIf := p.Instrs[len(p.Instrs)-1].(*ssa.If)
						if !isIf {
							continue
						}
						rel, pol := Cond(tm.Of(iff.Cond))
						if rel.Op == "==" && len(rel.Args) == 2 && (p.Succs[0] == add.Block()) == pol {
							for _, pair := range [][2]*Term{{rel.Args[0], rel.Args[1]}, {rel.Args[1], rel.Args[0]}} {
								if lim := pair[1]; lim.Op == "-" && len(lim.Args) == 2 && lim.Args[0].Op == "call:builtin:len" && lim.Args[0].Contains("TokenOrigins") && lim.Args[1].Op == "const:1" {
									condOK = true
								}
							}
						}
					}
					okLeft = fromAmt && fromSelf && onlyThose && condOK
					detLeft = fmt.Sprintf("leftover starts at the requested amount: %v ; is carried as (leftover - share): %v ; added under index == len - 1: %v", fromAmt, fromSelf, condOK)
				}
			}
			r.check(okLeft, "LIN-SLASH", "(x/reporter/keeper.Keeper).EscrowReporterStake # the last origin takes share + (amt - sum of all shares): the requests add up to the slash amount", P.Pos(er.Pos()), detLeft)
		}
		// recorded amounts per origin add up to the share
		sum := newPoly()
		n := 0
		for _, b := range er.Blocks {
			for _, in := range b.Instrs {
				st, ok := in.(*ssa.Store)
				if !ok {
					continue
				}
				fa, ok := st.Addr.(*ssa.FieldAddr)
				if !ok || fieldName(fa.X.Type(), fa.Field) != "x/reporter/types.TokenOriginInfo.Amount" {
					continue
				}
				n++
				sum = sum.Add(le.Eval(tm.Of(st.Val)))
			}
		}
		// share (everything asked for is recorded: today's code), or share minus what the last chase could not find
		// (the form a repair of D18 would take) — C05 RECORD-EQUALS-TAKEN decides which of the two is right
		okSum := sum.Equal(atomPoly("share")) || sum.Equal(atomPoly("share").Sub(atomPoly("owedAfterChase")))
		r.check(n == 2 && okSum, "ESCROW-RECORD", "(x/reporter/keeper.Keeper).EscrowReporterStake # amounts recorded for an origin add up to its share", P.Pos(er.Pos()), fmt.Sprintf("%d recorded amounts, sum = %s (share = what was taken at the snapshot validator + what was still owed and chased)", n, sum))
		for _, cs := range P.CallSitesIn(er) {
			if cs.Desc() == "coll:x/reporter/keeper.Keeper.DisputedDelegationAmounts.Set" {
				k := tm.Of(Arg(cs.Instr, 1))
				v := tm.Of(Arg(cs.Instr, 2))
				okTot := false
				for _, b := range er.Blocks {
					for _, in := range b.Instrs {
						if st, ok := in.(*ssa.Store); ok {
							if fa, ok := st.Addr.(*ssa.FieldAddr); ok && fieldName(fa.X.Type(), fa.Field) == "x/reporter/types.DelegationsAmounts.Total" {
								okTot = tm.Of(st.Val).Op == "param:5:cosmossdk.io/math.Int"
								if !okTot {
									// or the running sum of what was recorded
									adds, bases := sumWeb(st.Val)
									okTot = len(adds) > 0 && len(bases) == 1 && bases[0].Op == "call:cosmossdk.io/math.ZeroInt"
								}
							}
						}
					}
				}
				r.check(strings.HasPrefix(k.Op, "param:7:") && okTot, "ESCROW-RECORD", "(x/reporter/keeper.Keeper).EscrowReporterStake # record keyed by the dispute hash, Total = requested amount (or the sum recorded)", P.Pos(cs.Pos()), "key: "+k.Brief()+" ; value: "+v.Brief())
			}
			if cs.Desc() == "coll:x/reporter/keeper.Keeper.Report.Get" {
				k := tm.Of(Arg(cs.Instr, 1))
				r.check(k.Has("param:6:") && k.Has("param:2:") && k.Has("param:4:uint64"), "ESCROW-RECORD", "(x/reporter/keeper.Keeper).EscrowReporterStake # reads the stake snapshot of (query id, reporter, report height)", P.Pos(cs.Pos()), "key: "+clip(k.String(), 160))
			}
		}
	}
	// ---- REPORT-AUTHENTIC
	if pd := need("(x/dispute/keeper.msgServer).ProposeDispute"); pd != nil {
		reach := P.Reachable([]*ssa.Function{pd}, nil)
		found := ""
		for f := range reach {
			for _, cs := range P.CallSitesIn(f) {
				if strings.Contains(cs.Callee, "OracleKeeper.") {
					m := cs.Method
					if strings.HasPrefix(m, "GetReport") || strings.HasPrefix(m, "GetMicroReport") || strings.Contains(m, "ReportBy") || m == "GetReportsByAggregate" {
						found = cs.Callee + " in " + FuncName(f)
					}
				}
				if strings.HasPrefix(cs.Desc(), "coll:x/oracle/keeper.Keeper.Reports.") {
					found = cs.Desc() + " in " + FuncName(f)
				}
			}
		}
		r.check(found != "", "REPORT-AUTHENTIC", "(x/dispute/keeper.msgServer).ProposeDispute # the disputed report is looked up in the oracle's report store", P.Pos(pd.Pos()), "no function reachable from ProposeDispute reads a stored micro-report: value and power of MsgProposeDispute.Report are taken at face value and size the fee, the slash and the jail ("+found+")")
	}
	// CHASE-WALK
	{
		fs, nf, nr := rangeMutations(P)
		for _, f := range fs {
			r.bad("CHASE-WALK", f.Fn+" # "+f.What, P.Pos(f.Pos), "the range expression is evaluated once: after a removal the remaining iterations read shifted elements and index past the shortened slice")
		}
		n, err := walkPositiveExample()
		r.check(err == nil && n == 2, "CHASE-WALK", "detector fires on the built-in positive example (method that shrinks the ranged field; direct re-slice) and not on remove-then-break", "-", fmt.Sprintf("%d findings on the example (want 2), err=%v", n, err))
		r.check(nf > 900 && nr > 150, "CHASE-WALK", "every function declaration of the repository scanned", "-", fmt.Sprintf("%d functions, %d range loops scanned, %d findings", nf, nr, len(fs)))
		if du := P.Func("(x/reporter/keeper.Keeper).deductUnbondingDelegation"); du == nil {
			r.broken("anchor deductUnbondingDelegation does not resolve")
		}
	}
	// a jail term cannot be shed by re-creating the reporter: a reporter record is written afresh only for an address
	// that holds no selection (every reporter selects itself), and a selection is removed only from a reporter over
	// its cap, which the join guards never allow
	if cr := P.Func("(x/reporter/keeper.msgServer).CreateReporter"); cr == nil {
		r.broken("anchor CreateReporter does not resolve")
	} else {
		ps := AnalyzePaths(cr, []Atom{{Name: "hasSelection", Stable: true, Cond: func(rel *Term) (bool, bool) {
			return rel.Op == "ext:0" && len(rel.Args) == 1 && strings.HasSuffix(rel.Args[0].Op, ".Has") && rel.Contains("Keeper.Selectors"), true
		}}})
		n := 0
		for _, cs := range P.CallSitesIn(cr) {
			if cs.Desc() == "coll:x/reporter/keeper.Keeper.Reporters.Set" {
				n++
				bad := ps.Require(cs.Instr, func(v map[string]bool) bool { return !v["hasSelection"] })
				r.check(len(bad) == 0 && len(ps.Matched["hasSelection"]) > 0, "JAIL", "(x/reporter/keeper.msgServer).CreateReporter # a fresh (unjailed) reporter record is written only for an address without a selection", P.Pos(cs.Pos()), fmt.Sprintf("valuations: %v", statesStr(ps, cs.Instr)))
			}
		}
		r.check(n == 1, "JAIL", "(x/reporter/keeper.msgServer).CreateReporter # one write of the reporter record", P.Pos(cr.Pos()), fmt.Sprint(n))
	}
	checkRemoveOnlyOverCap(r, "JAIL", "a reporter's self-selection (which blocks re-creating it while jailed) is removed only from a reporter over its cap")
	r.minCount("CHASE-WALK", 2)
	r.minCount("LIN-SLASH", 5)
	r.minCount("ONCE-SLASH", 6)
	r.minCount("ESCROW-RECORD", 4)
}
