package main

// C18 — staking transactions cannot move bonded stake more than 5% per 12-hour period.

import (
	"fmt"
	"sort"
	"strings"

	"golang.org/x/tools/go/ssa"
)

func init() { register("C18", checkC18) }

// loopAccumulator: v is a phi that is extended by an Add of itself (a sum carried around a loop).
// Returns the added operand terms.
func loopAccumulator(v ssa.Value) ([]*Term, bool) {
	ph, ok := v.(*ssa.Phi)
	if !ok {
		return nil, false
	}
	var added []*Term
	seen := map[ssa.Value]bool{}
	var walk func(x ssa.Value, d int) bool
	found := false
	tm := NewTermer()
	walk = func(x ssa.Value, d int) bool {
		if x == nil || seen[x] || d > 12 {
			return false
		}
		seen[x] = true
		switch y := x.(type) {
		case *ssa.Phi:
			for _, e := range y.Edges {
				walk(e, d+1)
			}
		case *ssa.Call:
			name := CalleeName(y.Common())
			if name == "(cosmossdk.io/math.Int).Add" && len(y.Call.Args) == 2 {
				// receiver must lead back to the phi
				if reaches(y.Call.Args[0], ph, 0) {
					found = true
					added = append(added, tm.Of(y.Call.Args[1]))
				}
			}
		}
		return false
	}
	walk(ph, 0)
	// every value merged into the running sum is either the initial value (defined before the loop)
	// or an Add on the sum itself: an edge that overwrites the sum makes it a per-message amount
	for v := range seen {
		if _, isPhi := v.(*ssa.Phi); isPhi {
			continue
		}
		if c, ok := v.(*ssa.Call); ok && CalleeName(c.Common()) == "(cosmossdk.io/math.Int).Add" && len(c.Call.Args) == 2 && reaches(c.Call.Args[0], ph, 0) {
			continue
		}
		if in, ok := v.(ssa.Instruction); ok && in.Block() != nil && in.Block() != ph.Block() && in.Block().Dominates(ph.Block()) {
			continue // initial value
		}
		if _, ok := v.(*ssa.Const); ok {
			continue
		}
		return added, false
	}
	return added, found
}

func reaches(v ssa.Value, target ssa.Value, d int) bool {
	if v == target {
		return true
	}
	if d > 8 {
		return false
	}
	if ph, ok := v.(*ssa.Phi); ok {
		for _, e := range ph.Edges {
			if e != v && reaches(e, target, d+1) {
				return true
			}
		}
	}
	return false
}

func checkC18(r *Result) {
	P := r.P
	r.Explanation = "Structural rules of the stake-change limiter, decided on the SSA of the ante decorator and the tracker: the two bound comparisons use the current bonded total plus / minus a value that is a loop-carried sum over the transaction's messages (not a single message's amount), increases and decreases kept apart; the bounds are baseline + baseline/20 and baseline - baseline/20 as algebraic normal forms; the type switch covers the five staking message types the property names, each feeding the accumulator of the right direction from its own amount field; the decorator is in the application's ante chain; the baseline is rewritten only when the block time is not before the stored expiration, with the new expiration = block time + 12 h (constant folded) and the amount read from the staking keeper at that moment."
	r.NotDecided = "the cumulative effect across several transactions within one period (each admitted transaction is compared against the live bonded total: argued, not checked); staking messages nested in authz MsgExec or other wrappers"
	r.Assumptions = []string{"TotalBondedTokens returns the live bonded pool balance", "ante decorators run for every delivered transaction"}
	r.rule("LOOP-ACCUM", "the amount compared with a bound is accumulated over all messages of the transaction")
	r.rule("LIN-BOUNDS", "bounds are baseline * 21/20 and baseline * 19/20; the compared quantity is current bonded total +/- the accumulated amount")
	r.rule("MSG-TYPES", "create validator, delegate, redelegate and cancel-unbonding feed the increase, undelegate feeds the decrease, each from its own amount")
	r.rule("CHAIN", "the decorator is part of the ante handler chain")
	r.rule("REFRESH-GUARD", "the recorded baseline is rewritten only after its expiration, to the live total, with expiration = block time + 12 h")

	ah := P.Func("(x/reporter/ante.TrackStakeChangesDecorator).AnteHandle")
	if ah == nil {
		r.broken("anchor AnteHandle does not resolve")
		return
	}
	r.fn(FuncName(ah))
	tm := NewTermer()
	le := &linEval{Atomise: func(t *Term) string {
		if strings.HasPrefix(t.Op, "field:x/reporter/types.StakeTracker.Amount") {
			return "baseline"
		}
		if t.Op == "ext:0" && t.Contains("StakingKeeper.TotalBondedTokens") {
			return "current"
		}
		if t.Op == "phi" {
			return "acc"
		}
		return ""
	}}
	type cmpInfo struct {
		dir   string
		accV  ssa.Value
		where ssa.Instruction
	}
	var cmps []cmpInfo
	for _, b := range ah.Blocks {
		if len(b.Instrs) == 0 {
			continue
		}
		iff, ok := b.Instrs[len(b.Instrs)-1].(*ssa.If)
		if !ok {
			continue
		}
		rel, pol := Cond(tm.Of(iff.Cond))
		if rel.Op != "<" || len(rel.Args) != 2 {
			continue
		}
		lhs, rhs := le.Eval(rel.Args[0]), le.Eval(rel.Args[1])
		hasBase := func(p *Poly) bool {
			for _, a := range p.Atoms() {
				if a == "baseline" {
					return true
				}
			}
			return false
		}
		if !hasBase(lhs) && !hasBase(rhs) {
			continue
		}
		// the failing edge: which successor returns an error
		failOnTrue := false
		if t := iff.Block().Succs[0]; len(t.Instrs) > 0 {
			if ret, ok := t.Instrs[len(t.Instrs)-1].(*ssa.Return); ok && DefinitelyFails(ret) {
				failOnTrue = true
			}
		}
		rejectWhenRel := failOnTrue == pol
		var bound, qty *Poly
		var qtyTerm *Term
		dir := ""
		if hasBase(lhs) { // bound < quantity  => increase check
			bound, qty, qtyTerm, dir = lhs, rhs, rel.Args[1], "increase"
		} else { // quantity < bound => decrease check
			bound, qty, qtyTerm, dir = rhs, lhs, rel.Args[0], "decrease"
		}
		wantBound := atomPoly("baseline").Mul(constPoly(ratOf(21, 20)))
		wantQty := atomPoly("current").Add(atomPoly("acc"))
		if dir == "decrease" {
			wantBound = atomPoly("baseline").Mul(constPoly(ratOf(19, 20)))
			wantQty = atomPoly("current").Sub(atomPoly("acc"))
		}
		r.check(rejectWhenRel && bound.Equal(wantBound) && qty.Equal(wantQty), "LIN-BOUNDS", "(x/reporter/ante.TrackStakeChangesDecorator).AnteHandle # "+dir+" bound", P.Pos(iff.Pos()), fmt.Sprintf("rejects when %s < %s ; expected bound %s and quantity %s", lhs, rhs, wantBound, wantQty))
		// find the accumulator value inside the quantity term
		var accV ssa.Value
		qtyTerm.Walk(func(t *Term) bool {
			if t.Op == "phi" && accV == nil {
				accV = t.V
			}
			return true
		})
		cmps = append(cmps, cmpInfo{dir, accV, iff})
	}
	dirs := map[string]bool{}
	for _, c := range cmps {
		dirs[c.dir] = true
	}
	r.check(dirs["increase"] && dirs["decrease"] && len(cmps) == 2, "LIN-BOUNDS", "(x/reporter/ante.TrackStakeChangesDecorator).AnteHandle # one increase and one decrease comparison", P.Pos(ah.Pos()), fmt.Sprintf("%d bound comparisons found %v", len(cmps), keysOf(dirs)))

	// the transaction is handed on only after each non-zero amount was compared with its bound
	{
		var atoms []Atom
		for _, c := range cmps {
			c := c
			atoms = append(atoms, Atom{Name: "pos:" + c.dir, Stable: true, Cond: func(rel *Term) (bool, bool) {
				if rel.Op == "<" && len(rel.Args) == 2 && rel.Args[0].Op == "const:0" && rel.Args[1].V != nil && rel.Args[1].V == c.accV {
					return true, true
				}
				return false, false
			}})
			atoms = append(atoms, Atom{Name: "checked:" + c.dir, Event: func(in ssa.Instruction) (bool, int8) { return in == c.where, T }})
		}
		pa := AnalyzePaths(ah, atoms)
		nNext, okAll, det := 0, true, ""
		for _, b := range ah.Blocks {
			for _, in := range b.Instrs {
				c, ok := in.(*ssa.Call)
				if !ok {
					continue
				}
				if p, isParam := c.Call.Value.(*ssa.Parameter); !isParam || p.Name() != "next" {
					continue
				}
				nNext++
				if bad := pa.Require(in, func(v map[string]bool) bool {
					for _, c := range cmps {
						if v["pos:"+c.dir] && !v["checked:"+c.dir] {
							return false
						}
					}
					return true
				}); len(bad) > 0 {
					okAll, det = false, fmt.Sprint(bad)
				}
			}
		}
		matched := true
		for _, c := range cmps {
			if len(pa.Matched["pos:"+c.dir]) == 0 {
				matched = false
			}
		}
		r.check(okAll && nNext >= 1 && matched && len(cmps) == 2, "LIN-BOUNDS", "(x/reporter/ante.TrackStakeChangesDecorator).AnteHandle # the transaction is handed on only after every positive amount was compared with its bound", P.Pos(ah.Pos()), fmt.Sprintf("%d hand-over sites %s", nNext, det))
	}
	wantTypes := map[string]string{
		"github.com/cosmos/cosmos-sdk/x/staking/types.MsgCreateValidator":           "increase",
		"github.com/cosmos/cosmos-sdk/x/staking/types.MsgDelegate":                  "increase",
		"github.com/cosmos/cosmos-sdk/x/staking/types.MsgBeginRedelegate":           "increase",
		"github.com/cosmos/cosmos-sdk/x/staking/types.MsgCancelUnbondingDelegation": "increase",
		"github.com/cosmos/cosmos-sdk/x/staking/types.MsgUndelegate":                "decrease",
	}
	gotTypes := map[string]string{}
	for _, c := range cmps {
		if c.accV == nil {
			r.bad("LOOP-ACCUM", "(x/reporter/ante.TrackStakeChangesDecorator).AnteHandle # "+c.dir+" amount is accumulated over the messages", P.Pos(c.where.Pos()), "the compared quantity contains no loop-carried value")
			continue
		}
		added, ok := loopAccumulator(c.accV)
		det := []string{}
		for _, a := range added {
			det = append(det, a.Brief())
			// which message type does the addend come from
			a.Walk(func(t *Term) bool {
				if strings.HasPrefix(t.Op, "field:github.com/cosmos/cosmos-sdk/x/staking/types.Msg") {
					f := strings.TrimPrefix(t.Op, "field:")
					ty := f[:strings.LastIndex(f, ".")]
					if strings.HasSuffix(f, ".Amount") || strings.HasSuffix(f, ".Value") {
						gotTypes[ty] = c.dir
					}
				}
				return true
			})
		}
		sort.Strings(det)
		// the phi must sit in the header of the loop over tx.GetMsgs()
		inMsgLoop := false
		if ph, isPhi := c.accV.(*ssa.Phi); isPhi {
			for _, h := range loopHeaders(ah) {
				if h == ph.Block() || h.Dominates(ph.Block()) {
					if iff, ok := h.Instrs[len(h.Instrs)-1].(*ssa.If); ok && tm.Of(iff.Cond).Contains("Tx.GetMsgs") {
						inMsgLoop = true
					}
				}
			}
			// the comparison itself must be after the loop or see the running sum: both are sums; require the phi to be loop-carried
		}
		r.check(ok && inMsgLoop, "LOOP-ACCUM", "(x/reporter/ante.TrackStakeChangesDecorator).AnteHandle # "+c.dir+" amount is accumulated over the messages", P.Pos(c.where.Pos()), fmt.Sprintf("loop-carried sum: %v ; addends: %v ; carried around the loop over tx.GetMsgs(): %v", ok, det, inMsgLoop))
	}
	// the list that is walked is the transaction's message list itself, or an expansion of it that a helper
	// builds without rewriting the list it is reading (append into msgs[:0] while ranging over msgs)
	{
		nLoops := 0
		for _, h := range loopHeaders(ah) {
			iff, ok := h.Instrs[len(h.Instrs)-1].(*ssa.If)
			if !ok {
				continue
			}
			cond := tm.Of(iff.Cond)
			if !cond.Contains("Tx.GetMsgs") {
				continue
			}
			nLoops++
			lenT := cond.Find(func(t *Term) bool { return t.Op == "call:builtin:len" && len(t.Args) == 1 })
			okList, why := false, "loop bound is not len(list)"
			if lenT != nil {
				list := lenT.Args[0]
				switch {
				case strings.HasSuffix(list.Op, "Tx.GetMsgs"):
					okList, why = true, "ranges over tx.GetMsgs()"
				case strings.HasPrefix(list.Op, "call:") && P.Func(strings.TrimPrefix(list.Op, "call:")) != nil:
					hf := P.Func(strings.TrimPrefix(list.Op, "call:"))
					inPlace := ""
					for _, f := range withClosures(hf) {
						for _, b := range f.Blocks {
							for _, in := range b.Instrs {
								c, ok := in.(*ssa.Call)
								if !ok {
									continue
								}
								if bi, ok := c.Call.Value.(*ssa.Builtin); !ok || bi.Name() != "append" {
									continue
								}
								// does the destination reach back to a reslice of a parameter?
								seen := map[ssa.Value]bool{}
								var walk func(v ssa.Value) bool
								walk = func(v ssa.Value) bool {
									if v == nil || seen[v] {
										return false
									}
									seen[v] = true
									switch x := v.(type) {
									case *ssa.Slice:
										_, isParam := x.X.(*ssa.Parameter)
										return isParam
									case *ssa.Phi:
										for _, e := range x.Edges {
											if walk(e) {
												return true
											}
										}
									case *ssa.Call:
										if bi, ok := x.Call.Value.(*ssa.Builtin); ok && bi.Name() == "append" {
											return walk(x.Call.Args[0])
										}
									}
									return false
								}
								if walk(c.Call.Args[0]) {
									inPlace = P.Pos(c.Pos())
								}
							}
						}
					}
					okList = inPlace == ""
					why = "ranges over " + FuncName(hf) + "(tx.GetMsgs())"
					if !okList {
						why += ", which appends into a reslice of the list it is reading at " + inPlace
					}
				default:
					why = "walked list: " + list.Brief()
				}
			}
			r.check(okList, "LOOP-ACCUM", "(x/reporter/ante.TrackStakeChangesDecorator).AnteHandle # every message of the transaction is visited", P.Pos(ah.Pos()), why)
		}
		r.check(nLoops == 1, "LOOP-ACCUM", "(x/reporter/ante.TrackStakeChangesDecorator).AnteHandle # one loop over the transaction's messages", P.Pos(ah.Pos()), fmt.Sprint(nLoops))
	}
	var tys []string
	for ty := range wantTypes {
		tys = append(tys, ty)
	}
	sort.Strings(tys)
	for _, ty := range tys {
		r.check(gotTypes[ty] == wantTypes[ty], "MSG-TYPES", "(x/reporter/ante.TrackStakeChangesDecorator).AnteHandle # "+ty[strings.LastIndex(ty, ".")+1:]+" counts as "+wantTypes[ty], P.Pos(ah.Pos()), fmt.Sprintf("feeds: %q", gotTypes[ty]))
	}

	// ---- CHAIN
	if nh := P.Func("app.NewAnteHandler"); nh == nil {
		r.broken("anchor app.NewAnteHandler does not resolve")
	} else {
		r.fn(FuncName(nh))
		found, chained := false, false
		for _, cs := range P.CallSitesIn(nh) {
			if cs.Callee == "x/reporter/ante.NewTrackStakeChangesDecorator" {
				found = true
				// its result must be stored into the decorator slice passed to ChainAnteDecorators
				if v, ok := cs.Instr.(ssa.Value); ok {
					for _, ref := range *v.Referrers() {
						if mi, ok := ref.(*ssa.MakeInterface); ok {
							for _, rr := range *mi.Referrers() {
								if _, ok := rr.(*ssa.Store); ok {
									chained = true
								}
							}
						}
					}
				}
			}
		}
		chainCall := false
		for _, cs := range P.CallSitesIn(nh) {
			if cs.Callee == "github.com/cosmos/cosmos-sdk/types.ChainAnteDecorators" {
				chainCall = true
			}
		}
		r.check(found && chained && chainCall, "CHAIN", "app.NewAnteHandler # TrackStakeChangesDecorator in the decorator list", P.Pos(nh.Pos()), fmt.Sprintf("constructed: %v ; stored in the list: %v ; list chained: %v", found, chained, chainCall))
	}
	// app wires NewAnteHandler
	if appNew := P.Func("app.New"); appNew != nil {
		ok := false
		for _, f := range withClosures(appNew) {
			for _, cs := range P.CallSitesIn(f) {
				if cs.Callee == "app.NewAnteHandler" {
					ok = true
				}
			}
		}
		if !ok {
			for _, fn := range P.RepoFuncs {
				if strings.HasPrefix(FuncName(fn), "(*app.App)") {
					for _, cs := range P.CallSitesIn(fn) {
						if cs.Callee == "app.NewAnteHandler" {
							ok = true
						}
					}
				}
			}
		}
		r.check(ok, "CHAIN", "app # NewAnteHandler is installed", P.Pos(appNew.Pos()), "the application constructs its ante handler through NewAnteHandler")
	}

	// ---- REFRESH-GUARD
	if ts := P.Func("(x/reporter/keeper.Keeper).TrackStakeChange"); ts == nil {
		r.broken("anchor TrackStakeChange does not resolve")
	} else {
		r.fn(FuncName(ts))
		ps := AnalyzePaths(ts, []Atom{{Name: "notExpired", Cond: func(rel *Term) (bool, bool) {
			// BlockTime().Before(*Expiration)
			if rel.Op == "<" && len(rel.Args) == 2 && rel.Args[0].Has("call:(github.com/cosmos/cosmos-sdk/types.Context).BlockTime") && rel.Args[1].Has("field:x/reporter/types.StakeTracker.Expiration") {
				return true, true
			}
			return false, false
		}}})
		n := 0
		for _, cs := range P.CallSitesIn(ts) {
			if cs.Desc() == "coll:x/reporter/keeper.Keeper.Tracker.Set" {
				n++
				bad := ps.Require(cs.Instr, func(v map[string]bool) bool { return !v["notExpired"] })
				r.check(len(bad) == 0 && len(ps.Matched["notExpired"]) > 0, "REFRESH-GUARD", "(x/reporter/keeper.Keeper).TrackStakeChange # baseline rewritten only when block time is not before the expiration", P.Pos(cs.Pos()), fmt.Sprintf("valuations: %v", statesStr(ps, cs.Instr)))
			}
		}
		r.check(n == 1, "REFRESH-GUARD", "(x/reporter/keeper.Keeper).TrackStakeChange # one baseline write", P.Pos(ts.Pos()), fmt.Sprintf("%d", n))
		okExp, okAmt := false, false
		for _, b := range ts.Blocks {
			for _, in := range b.Instrs {
				st, ok := in.(*ssa.Store)
				if !ok {
					continue
				}
				fa, ok := st.Addr.(*ssa.FieldAddr)
				if !ok {
					continue
				}
				switch fieldName(fa.X.Type(), fa.Field) {
				case "x/reporter/types.StakeTracker.Expiration":
					t := tm.Of(st.Val)
					add := t.Find(func(x *Term) bool { return x.Op == "call:(time.Time).Add" })
					okExp = add != nil && len(add.Args) == 2 && add.Args[0].Has("call:(github.com/cosmos/cosmos-sdk/types.Context).BlockTime") && !add.Args[0].Has("field:x/reporter/types.StakeTracker.Expiration") && add.Args[1].Op == "const:43200000000000"
					r.check(okExp, "REFRESH-GUARD", "(x/reporter/keeper.Keeper).TrackStakeChange # new expiration = block time + 12h", P.Pos(st.Pos()), "stored: "+clip(t.String(), 200))
				case "x/reporter/types.StakeTracker.Amount":
					t := tm.Of(st.Val)
					okAmt = t.Op == "ext:0" && t.Contains("StakingKeeper.TotalBondedTokens")
					r.check(okAmt, "REFRESH-GUARD", "(x/reporter/keeper.Keeper).TrackStakeChange # new baseline = live bonded total", P.Pos(st.Pos()), "stored: "+clip(t.String(), 160))
				}
			}
		}
		var ws []string
		for _, s := range P.Sites(descIs("coll:x/reporter/keeper.Keeper.Tracker.Set")) {
			ws = append(ws, FuncName(TopFunc(s.Fn)))
		}
		sort.Strings(ws)
		okW := true
		for _, w := range ws {
			if w != "(x/reporter/keeper.Keeper).TrackStakeChange" && !strings.Contains(w, "Genesis") {
				okW = false
			}
		}
		r.check(okW && len(ws) >= 1, "REFRESH-GUARD", "writers of the stake tracker", "-", fmt.Sprint(ws))
		// called from the end blocker
		callers := []string{}
		for _, c := range P.callers[ts] {
			callers = append(callers, FuncName(TopFunc(c)))
		}
		r.check(len(callers) == 1 && callers[0] == "(x/reporter/module.AppModule).EndBlock", "REFRESH-GUARD", "TrackStakeChange runs in the reporter end blocker", "-", fmt.Sprint(callers))
	}
	r.minCount("LOOP-ACCUM", 2)
	r.minCount("LIN-BOUNDS", 3)
	r.minCount("MSG-TYPES", 5)
	r.minCount("REFRESH-GUARD", 5)
}
