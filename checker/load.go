package main

// Loader: type-checks /repo's current working tree (optionally with an overlay
// of edited files, used only by the both-ways self test), builds SSA for the
// repository's own packages, and derives the scopes used by the rules.

import (
	"fmt"
	"go/ast"
	"go/token"
	"go/types"
	"os"
	"path/filepath"
	"sort"
	"strings"

	"golang.org/x/tools/go/packages"
	"golang.org/x/tools/go/ssa"
	"golang.org/x/tools/go/ssa/ssautil"
)

const modPath = "github.com/tellor-io/layer"

var loadPatterns = []string{"./x/...", "./app/...", "./lib/...", "./daemons/...", "./utils/...", "./types/...", "./cmd/..."}

type Prog struct {
	RepoDir string
	Fset    *token.FileSet
	Pkgs    []*packages.Package // root packages
	AllPkgs int
	SSA     *ssa.Program
	// REPO scope
	RepoPkgs  []*ssa.Package
	RepoFuncs []*ssa.Function // all source functions (incl. anonymous) of REPO, non-generated
	byName    map[string]*ssa.Function
	pkgOf     map[*ssa.Package]*packages.Package
	// call graph restricted to REPO
	callees map[*ssa.Function][]*ssa.Function
	callers map[*ssa.Function][]*ssa.Function
	// named types in REPO (non-mock) for interface resolution
	repoNamed  []*types.Named
	implCache  map[string][]*ssa.Function
	collWrites map[*ssa.Function]map[string]bool // stale.go
}

func short(s string) string { return strings.ReplaceAll(s, modPath+"/", "") }

func inRepoPath(path string) bool {
	if path != modPath && !strings.HasPrefix(path, modPath+"/") {
		return false
	}
	for _, bad := range []string{"/mocks", "/testutil", "/tests", "/e2e", "/simulation"} {
		if strings.Contains(path, bad) {
			return false
		}
	}
	return true
}

func generatedFile(name string) bool {
	return strings.HasSuffix(name, ".pb.go") || strings.HasSuffix(name, ".pb.gw.go") || strings.HasSuffix(name, ".pulsar.go") || strings.HasSuffix(name, "_test.go")
}

// Load loads the program. overlay maps absolute file names to replacement contents.
// fileOverlay holds the overlay edits of the self test, also for non-Go inputs (Solidity, proto).
var fileOverlay map[string][]byte

// readRepoFile reads a file of the repository, honouring the overlay.
func readRepoFile(path string) ([]byte, error) {
	if b, ok := fileOverlay[path]; ok {
		return b, nil
	}
	return os.ReadFile(path)
}

func Load(repoDir string, overlay map[string][]byte) (*Prog, error) {
	fileOverlay = overlay
	env := []string{}
	for _, e := range os.Environ() {
		if strings.HasPrefix(e, "GOWORK=") || strings.HasPrefix(e, "GOFLAGS=") {
			continue
		}
		env = append(env, e)
	}
	env = append(env, "GOWORK=off", "GOFLAGS=-mod=mod", "GOPROXY=off", "GOSUMDB=off", "GOTOOLCHAIN=local")
	cfg := &packages.Config{
		Mode:    packages.LoadAllSyntax,
		Dir:     repoDir,
		Env:     env,
		Tests:   false,
		Overlay: overlay,
	}
	pkgs, err := packages.Load(cfg, loadPatterns...)
	if err != nil {
		return nil, fmt.Errorf("packages.Load: %w", err)
	}
	if len(pkgs) == 0 {
		return nil, fmt.Errorf("no packages loaded")
	}
	var errs []string
	total := 0
	packages.Visit(pkgs, nil, func(p *packages.Package) {
		total++
		if inRepoPath(p.PkgPath) || strings.HasPrefix(p.PkgPath, modPath) {
			for _, e := range p.Errors {
				errs = append(errs, e.Error())
			}
		}
	})
	if len(errs) > 0 {
		return nil, fmt.Errorf("type-check errors in repository packages:\n%s", strings.Join(errs, "\n"))
	}
	prog, spkgs := ssautil.Packages(pkgs, ssa.InstantiateGenerics)
	prog.Build()
	P := &Prog{RepoDir: repoDir, Fset: prog.Fset, Pkgs: pkgs, AllPkgs: total, SSA: prog,
		byName: map[string]*ssa.Function{}, pkgOf: map[*ssa.Package]*packages.Package{},
		callees: map[*ssa.Function][]*ssa.Function{}, callers: map[*ssa.Function][]*ssa.Function{},
		implCache: map[string][]*ssa.Function{}}
	for i, sp := range spkgs {
		if sp == nil {
			return nil, fmt.Errorf("no SSA package for %s", pkgs[i].PkgPath)
		}
		P.pkgOf[sp] = pkgs[i]
		if !inRepoPath(pkgs[i].PkgPath) {
			continue
		}
		P.RepoPkgs = append(P.RepoPkgs, sp)
	}
	if len(P.RepoPkgs) < 40 {
		return nil, fmt.Errorf("only %d repository packages loaded (expected >= 40)", len(P.RepoPkgs))
	}
	// build-tag scan: production files must not be tag-guarded in ways we do not load
	for _, p := range pkgs {
		if !inRepoPath(p.PkgPath) {
			continue
		}
		if len(p.IgnoredFiles) > 0 {
			for _, f := range p.IgnoredFiles {
				if strings.HasSuffix(f, ".go") && !strings.HasSuffix(f, "_test.go") {
					return nil, fmt.Errorf("file %s is excluded by build constraints; the analysis would not see it", f)
				}
			}
		}
	}
	P.collectFuncs()
	P.buildCallGraph()
	curProg = P
	return P, nil
}

func (P *Prog) fileOf(pos token.Pos) string {
	if !pos.IsValid() {
		return ""
	}
	return P.Fset.Position(pos).Filename
}

// Pos renders a position relative to the repository root.
func (P *Prog) Pos(pos token.Pos) string {
	if !pos.IsValid() {
		return "-"
	}
	p := P.Fset.Position(pos)
	rel, err := filepath.Rel(P.RepoDir, p.Filename)
	if err != nil {
		rel = p.Filename
	}
	return fmt.Sprintf("%s:%d", rel, p.Line)
}

func (P *Prog) collectFuncs() {
	seen := map[*ssa.Function]bool{}
	var add func(fn *ssa.Function)
	add = func(fn *ssa.Function) {
		if fn == nil || seen[fn] {
			return
		}
		seen[fn] = true
		if fn.Blocks == nil {
			return
		}
		{
			root := fn
			for root.Parent() != nil {
				root = root.Parent()
			}
			if root.Origin() != nil {
				root = root.Origin()
			}
			if root.Pkg == nil || !inRepoPath(root.Pkg.Pkg.Path()) {
				return
			}
		}
		if fn.Synthetic != "" && fn.Syntax() == nil {
			// wrappers etc. are resolved on demand, not listed
			if !strings.HasPrefix(fn.Synthetic, "instance of") && !strings.HasPrefix(fn.Synthetic, "instantiation of") {
				return
			}
		}
		file := P.fileOf(fn.Pos())
		if file == "" && fn.Parent() != nil {
			file = P.fileOf(fn.Parent().Pos())
		}
		if generatedFile(file) {
			return
		}
		P.RepoFuncs = append(P.RepoFuncs, fn)
		P.byName[FuncName(fn)] = fn
		for _, an := range fn.AnonFuncs {
			add(an)
		}
	}
	for _, sp := range P.RepoPkgs {
		for _, m := range sp.Members {
			switch m := m.(type) {
			case *ssa.Function:
				add(m)
			case *ssa.Type:
				if named, ok := m.Type().(*types.Named); ok {
					if named.TypeParams() != nil && named.TypeParams().Len() > 0 {
						continue
					}
					P.repoNamed = append(P.repoNamed, named)
					for _, T := range []types.Type{named, types.NewPointer(named)} {
						ms := P.SSA.MethodSets.MethodSet(T)
						for i := 0; i < ms.Len(); i++ {
							fn := P.SSA.MethodValue(ms.At(i))
							if fn != nil && fn.Synthetic == "" {
								add(fn)
							}
						}
					}
				}
			}
		}
		// package init (global initialisers) is included
		if init := sp.Func("init"); init != nil {
			seen[init] = true
			P.RepoFuncs = append(P.RepoFuncs, init)
			P.byName[FuncName(init)] = init
			for _, an := range init.AnonFuncs {
				add(an)
			}
		}
	}
	P.aliasRenamed()
	sort.Slice(P.RepoFuncs, func(i, j int) bool { return FuncName(P.RepoFuncs[i]) < FuncName(P.RepoFuncs[j]) })
}

// renamedFunc maps a function that was renamed since the reviewed tree to the name it was reviewed under.
var renamedFunc = map[*ssa.Function]string{}

// aliasRenamed: a reviewed unexported function that no longer exists, while exactly one new unexported function with the
// same package and receiver appeared, is that function under a new name. It keeps its reviewed name for every table, key
// and anchor (renaming a helper changes nothing the rules speak about). Ambiguous cases (several gone, several new) are
// left alone: the rules then report the anchor as missing.
func (P *Prog) aliasRenamed() {
	renamedFunc = map[*ssa.Function]string{}
	if len(reviewedFuncs) == 0 {
		return
	}
	prefixOf := func(name string) (string, string) {
		i := strings.LastIndex(name, ".")
		if i < 0 {
			return "", name
		}
		return name[:i+1], name[i+1:]
	}
	unexported := func(n string) bool { return n != "" && !(n[0] >= 'A' && n[0] <= 'Z') && n != "init" }
	gone := map[string][]string{}
	for name := range reviewedFuncs {
		if _, ok := P.byName[name]; !ok {
			pre, base := prefixOf(name)
			if unexported(base) && !strings.Contains(base, "$") {
				gone[pre] = append(gone[pre], name)
			}
		}
	}
	fresh := map[string][]*ssa.Function{}
	for _, fn := range P.RepoFuncs {
		if fn.Parent() != nil {
			continue
		}
		name := short(fn.RelString(nil))
		if !isReviewedFunc(name) {
			pre, base := prefixOf(name)
			if unexported(base) {
				fresh[pre] = append(fresh[pre], fn)
			}
		}
	}
	for pre, names := range gone {
		// pair by signature: a gone name and a fresh function of the same package and receiver with the same signature,
		// when that pairing is unique on both sides
		for _, old := range names {
			var cands []*ssa.Function
			for _, fn := range fresh[pre] {
				if short(fn.Signature.String()) == reviewedFuncs[old] {
					cands = append(cands, fn)
				}
			}
			rivals := 0
			for _, other := range names {
				if reviewedFuncs[other] == reviewedFuncs[old] {
					rivals++
				}
			}
			if len(cands) == 1 && rivals == 1 {
				fn := cands[0]
				renamedFunc[fn] = old
				delete(P.byName, short(fn.RelString(nil)))
				P.byName[old] = fn
			}
		}
	}
	if len(renamedFunc) > 0 {
		// closures of a renamed function are registered under the reviewed name as well
		for _, fn := range P.RepoFuncs {
			if fn.Parent() != nil {
				P.byName[FuncName(fn)] = fn
			}
		}
	}
}

// FuncName is the canonical short name of a function: "(x/oracle/keeper.Keeper).SetValue",
// "x/oracle/keeper.NewKeeper", "(x/...).Foo$1" for closures.
func FuncName(fn *ssa.Function) string {
	if fn == nil {
		return "<nil>"
	}
	name := short(fn.RelString(nil))
	if len(renamedFunc) > 0 {
		top := fn
		for top.Parent() != nil {
			top = top.Parent()
		}
		if old, ok := renamedFunc[top]; ok {
			cur := short(top.RelString(nil))
			if strings.HasPrefix(name, cur) {
				name = old + name[len(cur):]
			}
		}
	}
	return name
}

// Func returns the repository function with the given canonical name; nil if absent.
func (P *Prog) Func(name string) *ssa.Function { return P.byName[name] }

func (P *Prog) isRepoFunc(fn *ssa.Function) bool {
	if fn == nil {
		return false
	}
	_, ok := P.byName[FuncName(fn)]
	return ok && P.byName[FuncName(fn)] == fn
}

// unwrap resolves synthetic wrappers (bound-method closures, thunks, promoted
// method wrappers) to the underlying declared function.
func (P *Prog) unwrap(fn *ssa.Function) *ssa.Function {
	for i := 0; i < 4 && fn != nil; i++ {
		if fn.Synthetic == "" || fn.Blocks == nil {
			return fn
		}
		if strings.HasPrefix(fn.Synthetic, "instance of") || strings.HasPrefix(fn.Synthetic, "instantiation of") {
			return fn
		}
		if P.isRepoFunc(fn) {
			return fn
		}
		// the wrapper's body contains exactly one call to the wrapped function
		var target *ssa.Function
		for _, b := range fn.Blocks {
			for _, in := range b.Instrs {
				if c, ok := in.(ssa.CallInstruction); ok {
					if cal := c.Common().StaticCallee(); cal != nil {
						target = cal
					} else if c.Common().IsInvoke() {
						return fn
					}
				}
			}
		}
		if target == nil {
			return fn
		}
		fn = target
	}
	return fn
}

// implementations of interface method in REPO named types.
func (P *Prog) implsOf(iface *types.Interface, ifaceName string, method *types.Func) []*ssa.Function {
	key := ifaceName + "." + method.Name() + "#" + method.Type().String()
	if r, ok := P.implCache[key]; ok {
		return r
	}
	var out []*ssa.Function
	for _, named := range P.repoNamed {
		if types.IsInterface(named) {
			continue
		}
		for _, T := range []types.Type{named, types.NewPointer(named)} {
			if !types.Implements(T, iface) {
				continue
			}
			ms := P.SSA.MethodSets.MethodSet(T)
			sel := ms.Lookup(method.Pkg(), method.Name())
			if sel == nil {
				continue
			}
			fn := P.unwrap(P.SSA.MethodValue(sel))
			if fn != nil && P.isRepoFunc(fn) {
				dup := false
				for _, o := range out {
					if o == fn {
						dup = true
					}
				}
				if !dup {
					out = append(out, fn)
				}
			}
			break
		}
	}
	P.implCache[key] = out
	return out
}

// CalleesOfCall resolves a call instruction to REPO functions (static, wrapper,
// interface implementation in REPO).
func (P *Prog) CalleesOfCall(c ssa.CallInstruction) []*ssa.Function {
	cc := c.Common()
	if cc.IsInvoke() {
		it, ok := cc.Value.Type().Underlying().(*types.Interface)
		if !ok {
			return nil
		}
		return P.implsOf(it, cc.Value.Type().String(), cc.Method)
	}
	if cc.StaticCallee() == nil {
		// dynamic call of a function value: follow phis / single stores to the closures or functions it may hold
		var out []*ssa.Function
		seen := map[ssa.Value]bool{}
		var walk func(v ssa.Value, d int)
		walk = func(v ssa.Value, d int) {
			if v == nil || seen[v] || d > 6 {
				return
			}
			seen[v] = true
			switch x := v.(type) {
			case *ssa.Phi:
				for _, e := range x.Edges {
					walk(e, d+1)
				}
			case *ssa.MakeClosure:
				if f, ok := x.Fn.(*ssa.Function); ok {
					u := P.unwrap(f)
					if P.isRepoFunc(u) {
						out = append(out, u)
					}
				}
			case *ssa.Function:
				u := P.unwrap(x)
				if P.isRepoFunc(u) {
					out = append(out, u)
				}
			case *ssa.UnOp:
				if al, ok := x.X.(*ssa.Alloc); ok {
					for _, r := range *al.Referrers() {
						if st, ok := r.(*ssa.Store); ok && st.Addr == al {
							walk(st.Val, d+1)
						}
					}
				}
			case *ssa.ChangeType:
				walk(x.X, d+1)
			}
		}
		walk(cc.Value, 0)
		return out
	}
	if fn := cc.StaticCallee(); fn != nil {
		u := P.unwrap(fn)
		if P.isRepoFunc(u) {
			return []*ssa.Function{u}
		}
		if u != nil && u.Origin() != nil && P.isRepoFunc(u.Origin()) {
			return []*ssa.Function{u.Origin()}
		}
		// generic instantiation built on demand: analyse the instance itself if it has a body in REPO
		if u != nil && u.Blocks != nil && u.Pkg != nil && P.pkgOf[u.Pkg] != nil && inRepoPath(u.Pkg.Pkg.Path()) {
			return []*ssa.Function{u}
		}
		return nil
	}
	return nil
}

func (P *Prog) buildCallGraph() {
	addEdge := func(from, to *ssa.Function) {
		for _, x := range P.callees[from] {
			if x == to {
				return
			}
		}
		P.callees[from] = append(P.callees[from], to)
		P.callers[to] = append(P.callers[to], from)
	}
	for _, fn := range P.RepoFuncs {
		for _, b := range fn.Blocks {
			for _, in := range b.Instrs {
				if c, ok := in.(ssa.CallInstruction); ok {
					for _, cal := range P.CalleesOfCall(c) {
						addEdge(fn, cal)
					}
				}
				// function values taken (closures, bound methods, func refs): conservative edge
				var ops [16]*ssa.Value
				for _, op := range in.Operands(ops[:0]) {
					if op == nil || *op == nil {
						continue
					}
					var f *ssa.Function
					switch v := (*op).(type) {
					case *ssa.Function:
						f = v
					case *ssa.MakeClosure:
						f, _ = v.Fn.(*ssa.Function)
					}
					if f == nil {
						continue
					}
					if c, ok := in.(ssa.CallInstruction); ok && c.Common().Value == *op && !c.Common().IsInvoke() {
						continue // already handled as a call
					}
					u := P.unwrap(f)
					if P.isRepoFunc(u) {
						addEdge(fn, u)
					}
				}
			}
		}
	}
}

// Reachable returns the REPO functions reachable from the roots (inclusive).
func (P *Prog) Reachable(roots []*ssa.Function, stop func(*ssa.Function) bool) map[*ssa.Function]*ssa.Function {
	parent := map[*ssa.Function]*ssa.Function{}
	var q []*ssa.Function
	for _, r := range roots {
		if r == nil {
			continue
		}
		if _, ok := parent[r]; !ok {
			parent[r] = nil
			q = append(q, r)
		}
	}
	for len(q) > 0 {
		f := q[0]
		q = q[1:]
		if stop != nil && stop(f) {
			continue
		}
		for _, c := range P.callees[f] {
			if _, ok := parent[c]; !ok {
				parent[c] = f
				q = append(q, c)
			}
		}
	}
	return parent
}

// PathTo renders the call path root -> ... -> fn from a Reachable() result.
func PathTo(parent map[*ssa.Function]*ssa.Function, fn *ssa.Function) string {
	var names []string
	for f := fn; f != nil; f = parent[f] {
		names = append([]string{FuncName(f)}, names...)
		if len(names) > 30 {
			break
		}
	}
	return strings.Join(names, " -> ")
}

// MethodsImplementing returns the methods (by name) of REPO concrete types that
// implement the interface named ifacePkg.ifaceName (looked up in the type-checked program).
func (P *Prog) LookupType(pkgPath, name string) types.Type {
	var found types.Type
	packages.Visit(P.Pkgs, nil, func(p *packages.Package) {
		if found != nil || p.PkgPath != pkgPath || p.Types == nil {
			return
		}
		if o := p.Types.Scope().Lookup(name); o != nil {
			found = o.Type()
		}
	})
	return found
}

// SyntaxOf returns the *ast.File list and types.Info of a repo package path.
func (P *Prog) PackageByPath(path string) *packages.Package {
	for _, p := range P.Pkgs {
		if p.PkgPath == path {
			return p
		}
	}
	return nil
}

func (P *Prog) EnclosingFuncDecl(pkg *packages.Package, pos token.Pos) *ast.FuncDecl {
	for _, f := range pkg.Syntax {
		if f.Pos() <= pos && pos <= f.End() {
			for _, d := range f.Decls {
				if fd, ok := d.(*ast.FuncDecl); ok && fd.Pos() <= pos && pos <= fd.End() {
					return fd
				}
			}
		}
	}
	return nil
}
