package main

// C14 — bridge deposits mint once, conditionally; withdrawals burn what they attest.

import (
	"fmt"
	"strings"

	"golang.org/x/tools/go/ssa"
)

func init() { register("C14", checkC14) }

func checkC14(r *Result) {
	P := r.P
	defer checkLostUpdates(r, "C14")
	r.Explanation = "Guards and orderings of the token bridge, decided on the SSA control-flow graphs: in ClaimDeposit the mint is reachable only for an existing, un-flagged aggregate of a deposit that is not yet claimed, whose reporter power is not below the power threshold of the validator set in force at the aggregate's timestamp, and that is at least 12 hours old (constant folded); the claimed flag is stored before the mint on every path and nothing is written before the report value decoded successfully; the tip goes to the message sender and amount minus tip to the decoded recipient; the deposit query id handed to the oracle lookup is derived from the deposit id. In WithdrawTokens one amount value is taken, burned and attested, the withdrawal id is a read-modify-write counter starting at 1 and is the id the attested aggregate is built from, and that aggregate is what SetAggregate receives. The withdrawal-report blocker can return success only when the decoded direction flag is true."
	r.NotDecided = "behaviour for adversarial encodings beyond 'decode error => reject before any state change'; int64 narrowing of decoded amounts; that the EVM side accepts the attested bytes (C15)"
	r.Assumptions = []string{"the oracle's GetAggregateByIndex returns the stored aggregate and its timestamp", "x/bank mints and sends exactly the coins given"}
	r.rule("CLAIM-GUARDS", "the deposit mint is dominated by: aggregate exists, not flagged, not claimed, reporter power >= threshold at report time, age >= 12h, value decoded")
	r.rule("CLAIM-LOOKUPS", "the aggregate lookup is confined to the deposit's query and the threshold lookup to checkpoints strictly before the report")
	r.rule("CLAIM-ONCE", "the claimed flag is stored before the mint on every path, keyed by the deposit id")
	r.rule("CLAIM-ROUTING", "tip -> message sender, amount - tip -> decoded recipient, both out of the minted amount")
	r.rule("CLAIM-SCALE", "the decoder hands back the reported amount and tip, each divided by 10^12, in the bond denomination")
	r.rule("WITHDRAW-ID", "the withdrawal id is a read-modify-write counter starting at 1 and names the attested aggregate")
	r.rule("WITHDRAW-ATTEST", "the aggregate handed to the oracle is the one built from the burned amount, the sender and the recipient")
	r.rule("NO-WITHDRAWAL-REPORT", "PreventBridgeWithdrawalReport succeeds for TRBBridge query data only when the direction flag is true")

	need := func(name string) *ssa.Function {
		f := P.Func(name)
		if f == nil {
			r.broken("anchor %s does not resolve", name)
		} else {
			r.fn(name)
		}
		return f
	}
	if cd := need("(x/bridge/keeper.Keeper).ClaimDeposit"); cd != nil {
		fld := func(prefix string) func(rel *Term) (bool, bool) {
			return func(rel *Term) (bool, bool) { return strings.HasPrefix(rel.Op, prefix), true }
		}
		atoms := []Atom{
			{Name: "noAggregate", Cond: func(rel *Term) (bool, bool) {
				if rel.Op == "==" && len(rel.Args) == 2 && rel.Args[1].Op == "const:nil" && rel.Args[0].Op == "ext:0" && rel.Args[0].Contains("OracleKeeper.GetAggregateByIndex") {
					return true, true
				}
				return false, false
			}},
			{Name: "flagged", Cond: fld("field:x/oracle/types.Aggregate.Flagged")},
			{Name: "claimed", Cond: fld("field:x/bridge/types.DepositClaimed.Claimed")},
			{Name: "lowPower", Cond: func(rel *Term) (bool, bool) {
				if rel.Op == "<" && len(rel.Args) == 2 && strings.HasPrefix(rel.Args[0].Op, "field:x/oracle/types.Aggregate.ReporterPower") && rel.Args[1].Has("field:x/bridge/types.ValidatorCheckpointParams.PowerThreshold") {
					return true, true
				}
				return false, false
			}},
			{Name: "tooYoung", Cond: func(rel *Term) (bool, bool) {
				// BlockTime().Sub(aggregateTimestamp) < 12h  (43200000000000 ns)
				if rel.Op == "<" && len(rel.Args) == 2 && rel.Args[0].Op == "call:(time.Time).Sub" && rel.Args[0].Has("call:(github.com/cosmos/cosmos-sdk/types.Context).BlockTime") && rel.Args[1].Op == "const:43200000000000" {
					return true, true
				}
				// the same test written as BlockTime().Before(aggregateTimestamp.Add(12h))
				if rel.Op == "<" && len(rel.Args) == 2 && rel.Args[0].Op == "call:(github.com/cosmos/cosmos-sdk/types.Context).BlockTime" && rel.Args[1].Op == "call:(time.Time).Add" && len(rel.Args[1].Args) == 2 && rel.Args[1].Args[1].Op == "const:43200000000000" {
					return true, true
				}
				return false, false
			}},
			{Name: "decodeErr", Cond: func(rel *Term) (bool, bool) {
				if rel.Op == "==" && len(rel.Args) == 2 && rel.Args[1].Op == "const:nil" && rel.Args[0].Op == "ext:3" && rel.Args[0].Has("call:(x/bridge/keeper.Keeper).DecodeDepositReportValue") {
					return true, false
				}
				return false, false
			}},
			{Name: "decoded", Event: P.CallEvent(func(c *CallSite) bool { return c.Callee == "(x/bridge/keeper.Keeper).DecodeDepositReportValue" }, T)},
			{Name: "markedClaimed", Event: P.CallEvent(descIs("coll:x/bridge/keeper.Keeper.DepositIdClaimedMap.Set"), T)},
		}
		ps := AnalyzePaths(cd, atoms)
		tm := NewTermer()
		nMint := 0
		var mintAmt, sentTip, sentRest string
		for _, cs := range P.CallSitesIn(cd) {
			switch {
			case isBankCall(cs, "MintCoins"):
				nMint++
				bad := ps.Require(cs.Instr, func(v map[string]bool) bool {
					return !v["noAggregate"] && !v["flagged"] && !v["claimed"] && !v["lowPower"] && !v["tooYoung"] && v["decoded"] && !v["decodeErr"] && v["markedClaimed"]
				})
				evaluated := true
				for _, a := range []string{"noAggregate", "flagged", "claimed", "lowPower", "tooYoung", "decodeErr"} {
					if len(ps.Matched[a]) == 0 {
						evaluated = false
						r.bad("CLAIM-GUARDS", "(x/bridge/keeper.Keeper).ClaimDeposit # guard `"+a+"` present", P.Pos(cd.Pos()), "the guard is no longer tested anywhere in ClaimDeposit")
					}
				}
				r.check(len(bad) == 0 && evaluated, "CLAIM-GUARDS", "(x/bridge/keeper.Keeper).ClaimDeposit # MintCoins under all claim guards", P.Pos(cs.Pos()), fmt.Sprintf("valuations: %v", statesStr(ps, cs.Instr)))
				mintAmt = tm.Of(Arg(cs.Instr, 2)).String()
			case cs.Desc() == "coll:x/bridge/keeper.Keeper.DepositIdClaimedMap.Set":
				bad := ps.Require(cs.Instr, func(v map[string]bool) bool { return v["decoded"] && !v["decodeErr"] && !v["claimed"] })
				r.check(len(bad) == 0, "CLAIM-ONCE", "(x/bridge/keeper.Keeper).ClaimDeposit # claimed flag written only after a successful decode of an unclaimed deposit", P.Pos(cs.Pos()), fmt.Sprintf("valuations: %v", statesStr(ps, cs.Instr)))
				k := tm.Of(Arg(cs.Instr, 1))
				v := tm.Of(Arg(cs.Instr, 2))
				setTrue := false
				for _, b := range cd.Blocks {
					for _, in := range b.Instrs {
						if storesConstToField(in, "x/bridge/types.DepositClaimed.Claimed", "true") {
							setTrue = true
						}
					}
				}
				r.check(k.Op == "param:2:uint64" && (v.Contains("const:true") || setTrue), "CLAIM-ONCE", "(x/bridge/keeper.Keeper).ClaimDeposit # flag keyed by the deposit id, value Claimed=true", P.Pos(cs.Pos()), "key: "+k.Brief()+" ; value: "+clip(v.String(), 80))
			case cs.Desc() == "coll:x/bridge/keeper.Keeper.DepositIdClaimedMap.Get":
				k := tm.Of(Arg(cs.Instr, 1))
				r.check(k.Op == "param:2:uint64", "CLAIM-ONCE", "(x/bridge/keeper.Keeper).ClaimDeposit # claimed flag read for the deposit id", P.Pos(cs.Pos()), "key: "+k.Brief())
			case strings.HasSuffix(cs.Callee, "BankKeeper.SendCoinsFromModuleToAccount"):
				to := tm.Of(Arg(cs.Instr, 2))
				amt := tm.Of(Arg(cs.Instr, 3))
				if to.Op == "param:4:github.com/cosmos/cosmos-sdk/types.AccAddress" {
					sentTip = amt.String()
					r.check(amt.Op == "ext:2" && amt.Has("call:(x/bridge/keeper.Keeper).DecodeDepositReportValue"), "CLAIM-ROUTING", "(x/bridge/keeper.Keeper).ClaimDeposit # tip goes to the message sender", P.Pos(cs.Pos()), "amount: "+clip(amt.String(), 120))
				} else {
					sentRest = amt.String()
					okTo := to.Op == "ext:0" && to.Has("call:(x/bridge/keeper.Keeper).DecodeDepositReportValue")
					// amount is phi(amount, amount.Sub(tip...))
					okAmt := amt.Op == "phi" && amt.Has("call:(github.com/cosmos/cosmos-sdk/types.Coins).Sub") && amt.Contains("ext:1")
					r.check(okTo && okAmt, "CLAIM-ROUTING", "(x/bridge/keeper.Keeper).ClaimDeposit # amount (minus tip) goes to the decoded recipient", P.Pos(cs.Pos()), "to: "+to.Brief()+" ; amount: "+clip(amt.String(), 160))
				}
			case strings.HasSuffix(cs.Callee, "OracleKeeper.GetAggregateByIndex"):
				q := tm.Of(Arg(cs.Instr, 1))
				r.check(q.Op == "ext:0" && q.Has("call:(x/bridge/keeper.Keeper).GetDepositQueryId") && q.Has("param:2:uint64"), "CLAIM-GUARDS", "(x/bridge/keeper.Keeper).ClaimDeposit # aggregate looked up under the deposit's query id", P.Pos(cs.Pos()), "query id: "+clip(q.String(), 140))
			case cs.Callee == "(x/bridge/keeper.Keeper).GetValidatorSetTimestampBefore":
				a := tm.Of(Arg(cs.Instr, 1))
				r.check(a.Has("call:(time.Time).UnixMilli") && a.Contains("GetAggregateByIndex"), "CLAIM-GUARDS", "(x/bridge/keeper.Keeper).ClaimDeposit # threshold taken from the validator set in force at the aggregate's timestamp", P.Pos(cs.Pos()), "argument: "+clip(a.String(), 160))
			case cs.Callee == "(x/bridge/keeper.Keeper).DecodeDepositReportValue":
				a := tm.Of(Arg(cs.Instr, 1))
				r.check(strings.HasPrefix(a.Op, "field:x/oracle/types.Aggregate.AggregateValue"), "CLAIM-GUARDS", "(x/bridge/keeper.Keeper).ClaimDeposit # decodes the aggregate's value", P.Pos(cs.Pos()), "argument: "+a.Brief())
			}
		}
		r.check(nMint == 1, "CLAIM-GUARDS", "(x/bridge/keeper.Keeper).ClaimDeposit # one mint site", P.Pos(cd.Pos()), fmt.Sprintf("%d", nMint))
		r.check(mintAmt != "" && sentTip != "" && sentRest != "", "CLAIM-ROUTING", "(x/bridge/keeper.Keeper).ClaimDeposit # mint, tip and recipient transfers present", P.Pos(cd.Pos()), "minted: "+clip(mintAmt, 60))
		// a claim that succeeds did all of it: marked the deposit, minted, paid the recipient (and the tip when there is one)
		{
			pe := AnalyzePaths(cd, []Atom{
				{Name: "marked", Event: P.CallEvent(descIs("coll:x/bridge/keeper.Keeper.DepositIdClaimedMap.Set"), T)},
				{Name: "minted", Event: P.CallEvent(func(c *CallSite) bool { return isBankCall(c, "MintCoins") }, T)},
				{Name: "paidRecipient", Event: P.CallEvent(func(c *CallSite) bool {
					return strings.HasSuffix(c.Callee, "BankKeeper.SendCoinsFromModuleToAccount") && !strings.HasPrefix(NewTermer().Of(Arg(c.Instr, 2)).Op, "param:4:")
				}, T)},
				{Name: "paidTip", Event: P.CallEvent(func(c *CallSite) bool {
					return strings.HasSuffix(c.Callee, "BankKeeper.SendCoinsFromModuleToAccount") && strings.HasPrefix(NewTermer().Of(Arg(c.Instr, 2)).Op, "param:4:")
				}, T)},
				{Name: "tipPositive", Stable: true, Cond: func(rel *Term) (bool, bool) {
					// the receiver is the decoded tip itself (third result of the decoder), not a value derived from it
					if len(rel.Args) != 1 || rel.Args[0].Op != "ext:2" || !rel.Args[0].Contains("DecodeDepositReportValue") {
						return false, false
					}
					switch {
					case strings.HasSuffix(rel.Op, "Coins).IsAllPositive"), strings.HasSuffix(rel.Op, "Coins).IsAnyPositive"):
						return true, true
					case strings.HasSuffix(rel.Op, "Coins).IsZero"), strings.HasSuffix(rel.Op, "Coins).Empty"):
						return true, false
					}
					return false, false
				}},
			})
			okAll, n, det := true, 0, ""
			for _, ret := range SuccessReturns(cd) {
				n++
				if bad := pe.Require(ret, func(v map[string]bool) bool {
					return v["marked"] && v["minted"] && v["paidRecipient"] && (v["paidTip"] || !v["tipPositive"])
				}); len(bad) > 0 {
					okAll, det = false, fmt.Sprint(bad)
				}
			}
			r.check(okAll && n > 0 && len(pe.Matched["tipPositive"]) > 0, "CLAIM-ROUTING", "(x/bridge/keeper.Keeper).ClaimDeposit # every successful claim marked the deposit, minted and paid the recipient and the tip", P.Pos(cd.Pos()), fmt.Sprintf("%d success returns %s", n, det))
		}
		// nothing is written before the decode succeeded
		for _, cs := range P.CallSitesIn(cd) {
			if strings.HasPrefix(cs.Desc(), "coll:") && (cs.Method == "Set" || cs.Method == "Remove") || isBankCall(cs, "MintCoins") || strings.HasPrefix(cs.Method, "SendCoins") {
				bad := ps.Require(cs.Instr, func(v map[string]bool) bool { return v["decoded"] && !v["decodeErr"] })
				r.check(len(bad) == 0, "CLAIM-GUARDS", "(x/bridge/keeper.Keeper).ClaimDeposit # "+cs.Desc()+" only after the report value decoded", P.Pos(cs.Pos()), fmt.Sprintf("valuations: %v", statesStr(ps, cs.Instr)))
			}
		}
	}
	// handler passes msg sender and paired ids
	if h := need("(x/bridge/keeper.msgServer).ClaimDeposits"); h != nil {
		tm := NewTermer()
		for _, cs := range P.CallSitesIn(h) {
			if cs.Callee == "(x/bridge/keeper.Keeper).ClaimDeposit" {
				s := tm.Of(Arg(cs.Instr, 3))
				r.check(s.Has("field:x/bridge/types.MsgClaimDepositsRequest.Creator"), "CLAIM-ROUTING", "(x/bridge/keeper.msgServer).ClaimDeposits # tip recipient is the message creator", P.Pos(cs.Pos()), "argument: "+clip(s.String(), 120))
				id, ix := tm.Of(Arg(cs.Instr, 1)), tm.Of(Arg(cs.Instr, 2))
				okRoles := id.Contains("MsgClaimDepositsRequest.DepositIds") && !id.Contains("MsgClaimDepositsRequest.Indices") && ix.Contains("MsgClaimDepositsRequest.Indices") && !ix.Contains("MsgClaimDepositsRequest.DepositIds")
				r.check(okRoles, "CLAIM-GUARDS", "(x/bridge/keeper.msgServer).ClaimDeposits # the deposit id comes from DepositIds and the report index from Indices", P.Pos(cs.Pos()), "id: "+clip(id.String(), 100)+" ; index: "+clip(ix.String(), 100))
			}
		}
	}

	// ---- withdrawals
	if wt := need("(x/bridge/keeper.Keeper).WithdrawTokens"); wt != nil {
		tm := NewTermer()
		var idT, aggT *Term
		for _, cs := range P.CallSitesIn(wt) {
			switch {
			case cs.Callee == "(x/bridge/keeper.Keeper).CreateWithdrawalAggregate":
				idT = tm.Of(Arg(cs.Instr, 4))
				snd, rcp := tm.Of(Arg(cs.Instr, 2)), tm.Of(Arg(cs.Instr, 3))
				r.check(idT.Op == "ext:0" && idT.Has("call:(x/bridge/keeper.Keeper).IncrementWithdrawalId") && strings.HasPrefix(snd.Op, "param:3:") && strings.HasPrefix(rcp.Op, "param:4:"), "WITHDRAW-ATTEST", "(x/bridge/keeper.Keeper).WithdrawTokens # attested aggregate built from the fresh id, the sender and the recipient", P.Pos(cs.Pos()), "id: "+idT.Brief()+" ; sender: "+snd.Brief()+" ; recipient: "+rcp.Brief())
			case strings.HasSuffix(cs.Callee, "OracleKeeper.SetAggregate"):
				aggT = tm.Of(Arg(cs.Instr, 1))
				r.check(aggT.Op == "ext:0" && aggT.Has("call:(x/bridge/keeper.Keeper).CreateWithdrawalAggregate"), "WITHDRAW-ATTEST", "(x/bridge/keeper.Keeper).WithdrawTokens # SetAggregate receives that aggregate", P.Pos(cs.Pos()), "argument: "+aggT.Brief())
			}
		}
		ps := AnalyzePaths(wt, []Atom{{Name: "burned", Event: P.CallEvent(func(c *CallSite) bool { return isBankCall(c, "BurnCoins") }, T)},
			{Name: "taken", Event: P.CallEvent(func(c *CallSite) bool { return isBankCall(c, "SendCoinsFromAccountToModule") }, T)},
			{Name: "attested", Event: P.CallEvent(func(c *CallSite) bool { return strings.HasSuffix(c.Callee, "OracleKeeper.SetAggregate") }, T)}})
		okAll := true
		for _, ret := range SuccessReturns(wt) {
			if bad := ps.Require(ret, func(v map[string]bool) bool { return v["burned"] && v["taken"] && v["attested"] }); len(bad) > 0 {
				okAll = false
			}
		}
		r.check(okAll, "WITHDRAW-ATTEST", "(x/bridge/keeper.Keeper).WithdrawTokens # success => taken, burned and attested", P.Pos(wt.Pos()), "every success path takes the coins, burns them and stores the attestation aggregate")
	}
	if inc := need("(x/bridge/keeper.Keeper).IncrementWithdrawalId"); inc != nil {
		ps := AnalyzePaths(inc, []Atom{{Name: "read", Event: P.CallEvent(descIs("coll:x/bridge/keeper.Keeper.WithdrawalId.Get"), T)},
			{Name: "getErr", Cond: func(rel *Term) (bool, bool) {
				if rel.Op == "==" && len(rel.Args) == 2 && rel.Args[1].Op == "const:nil" && rel.Args[0].Op == "ext:1" && rel.Args[0].Has("field:x/bridge/keeper.Keeper.WithdrawalId") {
					return true, false
				}
				return false, false
			}}})
		n := 0
		for _, cs := range P.CallSitesIn(inc) {
			if cs.Desc() == "coll:x/bridge/keeper.Keeper.WithdrawalId.Set" {
				n++
				bad := ps.Require(cs.Instr, func(v map[string]bool) bool { return v["read"] })
				r.check(len(bad) == 0, "WITHDRAW-ID", "(x/bridge/keeper.Keeper).IncrementWithdrawalId # counter written after being read", P.Pos(cs.Pos()), fmt.Sprintf("valuations: %v", statesStr(ps, cs.Instr)))
			}
		}
		// every id handed out was stored: a success return comes after a write of the counter and returns the stored id
		{
			pw := AnalyzePaths(inc, []Atom{{Name: "written", Event: P.CallEvent(descIs("coll:x/bridge/keeper.Keeper.WithdrawalId.Set"), T)}})
			okAll, nRet, det := true, 0, ""
			for _, ret := range SuccessReturns(inc) {
				nRet++
				v := NewTermer().Of(ResultOf(ret, 0))
				if bad := pw.Require(ret, func(v map[string]bool) bool { return v["written"] }); len(bad) > 0 || !strings.HasPrefix(v.Op, "field:x/bridge/types.WithdrawalId.Id") && v.Op != "const:1" && !(v.Op == "+" && v.Contains("WithdrawalId.Id")) && !strings.HasPrefix(v.Op, "after-store:") {
					okAll, det = false, "returned: "+v.Brief()+fmt.Sprint(" ", bad)
				}
			}
			r.check(okAll && nRet > 0, "WITHDRAW-ID", "(x/bridge/keeper.Keeper).IncrementWithdrawalId # every id handed out is the counter value just stored", P.Pos(inc.Pos()), fmt.Sprintf("%d success returns %s", nRet, det))
		}
		// the stored id is either the constant 1 (first) or previous + 1
		one, incd := false, false
		for _, b := range inc.Blocks {
			for _, in := range b.Instrs {
				if st, ok := in.(*ssa.Store); ok {
					if fa, ok := st.Addr.(*ssa.FieldAddr); ok && fieldName(fa.X.Type(), fa.Field) == "x/bridge/types.WithdrawalId.Id" {
						t := NewTermer().Of(st.Val)
						if t.Op == "const:1" {
							one = true
						}
						if t.Op == "+" && len(t.Args) == 2 && t.Args[1].Op == "const:1" {
							incd = true
						}
					}
				}
			}
		}
		if n == 1 && one && incd {
			// the two writes merged into one after the branches: that one write stands for both reviewed ones
			r.ok("WITHDRAW-ID", "(x/bridge/keeper.Keeper).IncrementWithdrawalId # counter written after being read", P.Pos(inc.Pos()), "single write of either value (first id / previous + 1)")
		}
		// two writes (one per branch) or one write after the branches merged: either way both values are stored
		r.check((n == 2 || n == 1) && one && incd, "WITHDRAW-ID", "(x/bridge/keeper.Keeper).IncrementWithdrawalId # first id 1, then previous + 1", P.Pos(inc.Pos()), fmt.Sprintf("%d writes; starts at 1: %v; increments by 1: %v", n, one, incd))
		var ws []string
		for _, s := range P.Sites(descIs("coll:x/bridge/keeper.Keeper.WithdrawalId.Set")) {
			ws = append(ws, FuncName(TopFunc(s.Fn)))
		}
		okW := true
		for _, w := range ws {
			if w != "(x/bridge/keeper.Keeper).IncrementWithdrawalId" && !strings.Contains(w, "Genesis") {
				okW = false
			}
		}
		r.check(okW, "WITHDRAW-ID", "writers of WithdrawalId", "-", fmt.Sprint(ws))
	}
	if cw := need("(x/bridge/keeper.Keeper).CreateWithdrawalAggregate"); cw != nil {
		tm := NewTermer()
		for _, cs := range P.CallSitesIn(cw) {
			switch cs.Callee {
			case "(x/bridge/keeper.Keeper).GetWithdrawalQueryId":
				a := tm.Of(Arg(cs.Instr, 0))
				r.check(a.Op == "param:5:uint64", "WITHDRAW-ID", "(x/bridge/keeper.Keeper).CreateWithdrawalAggregate # query id derived from the withdrawal id", P.Pos(cs.Pos()), "argument: "+a.Brief())
			case "(x/bridge/keeper.Keeper).GetWithdrawalReportValue":
				a, s, rc := tm.Of(Arg(cs.Instr, 0)), tm.Of(Arg(cs.Instr, 1)), tm.Of(Arg(cs.Instr, 2))
				r.check(strings.HasPrefix(a.Op, "param:2:") && strings.HasPrefix(s.Op, "param:3:") && strings.HasPrefix(rc.Op, "param:4:"), "WITHDRAW-ATTEST", "(x/bridge/keeper.Keeper).CreateWithdrawalAggregate # report value encodes the amount, sender and recipient it was given", P.Pos(cs.Pos()), a.Brief()+", "+s.Brief()+", "+rc.Brief())
			}
		}
	}
	// ---- NO-WITHDRAWAL-REPORT
	if pb := need("(x/oracle/keeper.Keeper).PreventBridgeWithdrawalReport"); pb != nil {
		atoms := []Atom{{Name: "toLayer", Cond: func(rel *Term) (bool, bool) {
			if strings.HasPrefix(rel.Op, "assert:bool") {
				return true, true
			}
			return false, false
		}}, {Name: "isBridge", Cond: func(rel *Term) (bool, bool) {
			if rel.Op == "==" && len(rel.Args) == 2 && strings.HasPrefix(rel.Args[0].Op, "assert:string") && rel.Args[1].Op == "const:TRBBridge" {
				return true, true
			}
			return false, false
		}}}
		ps := AnalyzePaths(pb, atoms)
		n := 0
		okAll := true
		det := ""
		for _, ret := range SuccessReturns(pb) {
			t := NewTermer().Of(ResultOf(ret, 0))
			if t.Op == "const:true" {
				n++
				if bad := ps.Require(ret, func(v map[string]bool) bool { return v["toLayer"] && v["isBridge"] }); len(bad) > 0 {
					okAll = false
					det = fmt.Sprint(bad)
				}
			} else if t.Op == "const:false" {
				// non-bridge data: must be under !isBridge
				if bad := ps.Require(ret, func(v map[string]bool) bool { return !v["isBridge"] }); len(bad) > 0 {
					okAll = false
					det = "returns (false, nil) for TRBBridge data: " + fmt.Sprint(bad)
				}
			} else {
				okAll = false
				det = "non-constant result " + t.Brief()
			}
		}
		r.check(okAll && n == 1 && len(ps.Matched["toLayer"]) > 0, "NO-WITHDRAWAL-REPORT", "(x/oracle/keeper.Keeper).PreventBridgeWithdrawalReport # (true, nil) only for deposit direction; (false, nil) only for non-bridge data", P.Pos(pb.Pos()), fmt.Sprintf("%d 'is deposit' success returns %s", n, det))
	}
	// the blocker is passed, successfully, on every route from MsgSubmitValue to the report store
	if sub := need("(x/oracle/keeper.msgServer).SubmitValue"); sub != nil {
		ps := AnalyzePaths(sub, []Atom{
			{Name: "blockerCalled", Event: P.CallEvent(func(c *CallSite) bool { return c.Callee == "(x/oracle/keeper.Keeper).PreventBridgeWithdrawalReport" }, T)},
			{Name: "blockerErr", Cond: func(rel *Term) (bool, bool) {
				if rel.Op == "==" && len(rel.Args) == 2 && rel.Args[1].Op == "const:nil" && rel.Args[0].Op == "ext:1" && len(rel.Args[0].Args) == 1 && strings.HasSuffix(rel.Args[0].Args[0].Op, ".PreventBridgeWithdrawalReport") {
					return true, false
				}
				return false, false
			}}})
		n := 0
		for _, cs := range P.CallSitesIn(sub) {
			if cs.Callee == "(x/oracle/keeper.Keeper).DirectReveal" || cs.Callee == "(x/oracle/keeper.Keeper).HandleBridgeDepositDirectReveal" || cs.Callee == "(x/oracle/keeper.Keeper).SetValue" {
				n++
				bad := ps.Require(cs.Instr, func(v map[string]bool) bool { return v["blockerCalled"] && !v["blockerErr"] })
				r.check(len(bad) == 0 && len(ps.Matched["blockerErr"]) > 0, "NO-WITHDRAWAL-REPORT", "(x/oracle/keeper.msgServer).SubmitValue # "+cs.Method+" only after the withdrawal blocker accepted the query data", P.Pos(cs.Pos()), fmt.Sprintf("valuations: %v", statesStr(ps, cs.Instr)))
			}
			if cs.Callee == "(x/oracle/keeper.Keeper).PreventBridgeWithdrawalReport" {
				a := NewTermer().Of(Arg(cs.Instr, 0))
				r.check(strings.HasPrefix(a.Op, "field:x/oracle/types.MsgSubmitValue.QueryData"), "NO-WITHDRAWAL-REPORT", "(x/oracle/keeper.msgServer).SubmitValue # blocker examines the submitted query data", P.Pos(cs.Pos()), "argument: "+a.Brief())
			}
		}
		r.check(n >= 2, "NO-WITHDRAWAL-REPORT", "(x/oracle/keeper.msgServer).SubmitValue # routes to the report store", P.Pos(sub.Pos()), fmt.Sprintf("%d", n))
	}
	// ---- the two lookups ClaimDeposit relies on: "the aggregate of this query" and "the validator set in force
	// strictly before the report"
	if g := P.Func("(x/oracle/keeper.Keeper).GetAggregateByIndex"); g == nil {
		r.broken("anchor GetAggregateByIndex does not resolve")
	} else {
		r.fn(FuncName(g))
		n := 0
		for _, cs := range P.CallSitesIn(g) {
			if !strings.HasPrefix(cs.Desc(), "coll:x/oracle/keeper.Keeper.Aggregates.") {
				continue
			}
			switch cs.Method {
			case "Walk", "Iterate", "IterateRaw":
				n++
				chain, args := rangeChain(NewTermer().Of(Arg(cs.Instr, 1)))
				pfx := args["NewPrefixedPairRange"]
				ok := pfx != nil && pfx.Op == "param:2:byte"
				r.check(ok, "CLAIM-LOOKUPS", "(x/oracle/keeper.Keeper).GetAggregateByIndex # the scan is confined to the aggregates of the query id", P.Pos(cs.Pos()), fmt.Sprintf("range %v ; prefixed by the query id: %v", chain, ok))
			}
		}
		r.check(n >= 1, "CLAIM-LOOKUPS", "(x/oracle/keeper.Keeper).GetAggregateByIndex # scans the Aggregates collection", P.Pos(g.Pos()), fmt.Sprint(n))
	}
	if g := P.Func("(x/bridge/keeper.Keeper).GetValidatorSetTimestampBefore"); g == nil {
		r.broken("anchor GetValidatorSetTimestampBefore does not resolve")
	} else {
		r.fn(FuncName(g))
		// the range of the scan: EndExclusive(target) Descending, first hit taken
		var cb *ssa.Function
		nWalk := 0
		for _, cs := range P.CallSitesIn(g) {
			if cs.Desc() != "coll:x/bridge/keeper.Keeper.ValidatorCheckpointParamsMap.Walk" {
				continue
			}
			nWalk++
			chain, args := rangeChain(NewTermer().Of(Arg(cs.Instr, 1)))
			b := args["EndExclusive"]
			ok := strings.Join(chain, " ") == "EndExclusive Descending" && b != nil && b.Op == "param:2:uint64"
			r.check(ok, "CLAIM-LOOKUPS", "(x/bridge/keeper.Keeper).GetValidatorSetTimestampBefore # scans checkpoints strictly before the target, newest first", P.Pos(cs.Pos()), fmt.Sprintf("range %v", chain))
			if mc, ok := Arg(cs.Instr, 2).(*ssa.MakeClosure); ok {
				cb, _ = mc.Fn.(*ssa.Function)
			}
		}
		r.check(nWalk == 1 && cb != nil, "CLAIM-LOOKUPS", "(x/bridge/keeper.Keeper).GetValidatorSetTimestampBefore # one scan with a literal callback", P.Pos(g.Pos()), fmt.Sprint(nWalk))
		// every success return hands out the variable that only the scan callback assigns (with the key it visits)
		okRet, nRet := true, 0
		why := ""
		for _, ret := range SuccessReturns(g) {
			nRet++
			rr := ret
			ld, isLoad := rr.Results[0].(*ssa.UnOp)
			var cell *ssa.Alloc
			if isLoad {
				cell, _ = ld.X.(*ssa.Alloc)
			}
			if cell == nil {
				okRet, why = false, "the value returned at "+P.Pos(rr.Pos())+" is not the scan's result variable"
				continue
			}
			for _, ref := range *cell.Referrers() {
				switch x := ref.(type) {
				case *ssa.Store:
					if x.Addr == ssa.Value(cell) {
						okRet, why = false, "the result variable is assigned outside the scan callback at "+P.Pos(x.Pos())
					}
				case *ssa.MakeClosure:
					if cb == nil || x.Fn != ssa.Value(cb) {
						okRet, why = false, "the result variable is captured by another closure"
					}
				}
			}
		}
		if cb != nil {
			for _, b := range cb.Blocks {
				for _, in := range b.Instrs {
					if st, ok := in.(*ssa.Store); ok {
						if _, fv := st.Addr.(*ssa.FreeVar); fv {
							if p, isP := st.Val.(*ssa.Parameter); !isP || p != cb.Params[0] {
								okRet, why = false, "the callback assigns something other than the visited key at "+P.Pos(st.Pos())
							}
						}
					}
				}
			}
			sh := analyseCallback(P, cb)
			r.check(sh.stopAlways, "CLAIM-LOOKUPS", "(x/bridge/keeper.Keeper).GetValidatorSetTimestampBefore # the scan stops at the first (newest) checkpoint", P.Pos(cb.Pos()), fmt.Sprintf("stops always: %v", sh.stopAlways))
		}
		r.check(okRet && nRet >= 1, "CLAIM-LOOKUPS", "(x/bridge/keeper.Keeper).GetValidatorSetTimestampBefore # every success return is the key found by the strictly-before scan", P.Pos(g.Pos()), fmt.Sprintf("%d success returns ; %s", nRet, why))
	}
	checkClaimScale(r)
	r.minCount("CLAIM-SCALE", 2)
	r.minCount("CLAIM-LOOKUPS", 6)
	r.minCount("CLAIM-GUARDS", 6)
	r.minCount("CLAIM-ONCE", 3)
	r.minCount("WITHDRAW-ID", 3)
}

// checkClaimScale: each coin result of DecodeDepositReportValue is coins(bond denom, (decoded[k] / 10^12)) with k = 2 for
// the amount and 3 for the tip -- the dividend is the decoded field and the divisor the constant, not the reverse.
func checkClaimScale(r *Result) {
	P := r.P
	const rule = "CLAIM-SCALE"
	fn := P.Func("(x/bridge/keeper.Keeper).DecodeDepositReportValue")
	if fn == nil {
		r.broken("anchor DecodeDepositReportValue does not resolve")
		return
	}
	r.fn(FuncName(fn))
	tm := NewTermer()
	decodedAt := func(t *Term, k string) bool {
		for (strings.HasPrefix(t.Op, "assert:") || t.Op == "load") && len(t.Args) >= 1 {
			t = t.Args[0]
		}
		return t.Op == "index" && len(t.Args) == 2 && t.Args[1].Op == "const:"+k && t.Args[0].Has("call:(github.com/ethereum/go-ethereum/accounts/abi.Arguments).Unpack")
	}
	n := 0
	for _, ret := range allReturns(fn) {
		if len(ret.Results) != 4 || DefinitelyFails(ret) {
			continue
		}
		for i := 1; i <= 2; i++ {
			k := []string{"", "2", "3"}[i]
			n++
			t := tm.Of(unspill(ret.Results[i], ret))
			what := map[int]string{1: "amount", 2: "tip"}[i]
			div := t.Find(func(x *Term) bool { return x.Op == "call:(*math/big.Int).Div" })
			ok, got := false, "no big.Int division in "+clip(t.String(), 160)
			if div != nil && len(div.Args) == 3 {
				got = "Div(" + div.Args[1].Brief() + ", " + div.Args[2].Brief() + ")"
				den := div.Args[2]
				ok = decodedAt(div.Args[1], k) && den.Op == "call:math/big.NewInt" && len(den.Args) == 1 && den.Args[0].Op == "const:1000000000000"
			}
			r.check(ok, rule, "(x/bridge/keeper.Keeper).DecodeDepositReportValue # "+what+" = decoded field "+k+" / 10^12", P.Pos(ret.Pos()), got)
			denomOK := t.Find(func(x *Term) bool {
				return (x.Op == "call:github.com/cosmos/cosmos-sdk/types.NewInt64Coin" || x.Op == "call:github.com/cosmos/cosmos-sdk/types.NewCoin") && len(x.Args) == 2 && strings.HasSuffix(x.Args[0].Op, "BondDenom") && x.Args[1].Find(func(y *Term) bool { return y == div }) != nil
			}) != nil
			r.check(div != nil && denomOK, rule, "(x/bridge/keeper.Keeper).DecodeDepositReportValue # "+what+" is a coin of the bond denomination holding that quotient", P.Pos(ret.Pos()), clip(t.String(), 200))
			// "amount/tip of any size": the quotient of a uint256 reaches the coin whole; a narrowing reading keeps its low bits
			narrowed := t.Find(func(x *Term) bool {
				return x.Op == "call:(*math/big.Int).Int64" || x.Op == "call:(*math/big.Int).Uint64" || x.Op == "call:(cosmossdk.io/math.Int).Int64" || x.Op == "call:(cosmossdk.io/math.Int).Uint64"
			})
			r.check(narrowed == nil, rule, "(x/bridge/keeper.Keeper).DecodeDepositReportValue # "+what+" reaches the coin without narrowing to 64 bits", P.Pos(ret.Pos()), clip(t.String(), 200))
		}
	}
	r.check(n >= 2, rule, "(x/bridge/keeper.Keeper).DecodeDepositReportValue # success returns to decide", P.Pos(fn.Pos()), fmt.Sprint(n))
}
