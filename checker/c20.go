package main

// C20 — price daemon cache: lock discipline, non-escape, freshness guards, median shape.

import (
	"fmt"
	"go/token"
	"go/types"
	"sort"
	"strings"

	"golang.org/x/tools/go/ssa"
)

func init() { register("C20", checkC20) }

const pfPkg = "daemons/server/types/pricefeed"

func recvTypeName(fn *ssa.Function) string {
	if fn.Signature.Recv() == nil {
		return ""
	}
	return typeShort(fn.Signature.Recv().Type())
}

func checkC20(r *Result) {
	P := r.P
	r.Explanation = "Lock-set and non-escape analysis of the pricefeed server cache (MarketToExchangePrices -> ExchangeToPrice -> PriceTimestamp) on SSA: every access to the guarded map, and every call on an *ExchangeToPrice obtained from it, happens at a point where the cache's mutex is held on all paths (Lock passed, no Unlock since; a deferred Unlock releases at return); no method hands out the map, an *ExchangeToPrice or a *PriceTimestamp; the inner types are constructed and used only from inside the locked methods; maxPriceAge is written only by the constructor. Consequence (argued): every update and every read is one critical section of one mutex, hence race-free and linearizable at the lock. Plus the freshness guards (forward-only update, validity cut-off, minimum number of exchanges) as path facts, and the overflow-guard shape of lib.Median."
	r.NotDecided = "numeric correctness of the median over the 64-bit range beyond the overflow guards; freshness relative to wall-clock reads; the gRPC layer above the cache"
	r.Assumptions = []string{"sync.Mutex provides mutual exclusion", "callers do not retain the update slices they pass in while another goroutine mutates them"}
	r.rule("LOCK-HELD", "every access to the guarded map and every call on an inner cache object happens with the cache mutex held")
	r.rule("LOCK-PAIRED", "every method that locks releases on all exits (deferred Unlock, or Unlock on every path)")
	r.rule("NO-ESCAPE", "no method of the cache returns or stores a reference to guarded state")
	r.rule("OWNERSHIP", "inner cache types are constructed and used only from within the locked methods; maxPriceAge is written only by the constructor")
	r.rule("FRESHNESS", "prices only move forward in time, stale prices are excluded by the cut-off, a median needs the minimum number of exchanges")
	r.rule("MEDIAN-SHAPE", "lib.Median copies its input before sorting and adds two values only under sign facts that exclude overflow")

	mteT := pfPkg + ".MarketToExchangePrices"
	etpT := pfPkg + ".ExchangeToPrice"
	guarded := mteT + ".marketToExchangePrices"
	var methods []*ssa.Function
	for _, fn := range P.RepoFuncs {
		if fn.Parent() == nil && recvTypeName(fn) == "*"+mteT {
			methods = append(methods, fn)
		}
	}
	if len(methods) < 2 {
		r.broken("methods of *%s not found (%d)", mteT, len(methods))
		return
	}
	sort.Slice(methods, func(i, j int) bool { return FuncName(methods[i]) < FuncName(methods[j]) })
	isMutexCall := func(c *CallSite, name string) bool {
		return c.Callee == "(*sync.Mutex)."+name || c.Callee == "(*sync.RWMutex)."+name
	}
	for _, fn := range methods {
		r.fn(FuncName(fn))
		// lock state: T after Lock, F after Unlock; a deferred Unlock does not release before return
		atoms := []Atom{{Name: "locked", Event: func(in ssa.Instruction) (bool, int8) {
			switch x := in.(type) {
			case *ssa.Call:
				cs := P.siteOf(x)
				if cs != nil && isMutexCall(cs, "Lock") {
					return true, T
				}
				if cs != nil && isMutexCall(cs, "Unlock") {
					return true, F
				}
			}
			return false, U
		}}, {Name: "deferredUnlock", Event: func(in ssa.Instruction) (bool, int8) {
			if d, ok := in.(*ssa.Defer); ok {
				if n := CalleeName(d.Common()); n == "(*sync.Mutex).Unlock" || n == "(*sync.RWMutex).Unlock" {
					return true, T
				}
			}
			return false, U
		}}}
		ps := AnalyzePaths(fn, atoms)
		accesses, calls := 0, 0
		for _, b := range fn.Blocks {
			for _, in := range b.Instrs {
				switch x := in.(type) {
				case *ssa.FieldAddr:
					if fieldName(x.X.Type(), x.Field) == guarded {
						accesses++
						bad := ps.Require(in, func(v map[string]bool) bool { return v["locked"] })
						r.check(len(bad) == 0, "LOCK-HELD", FuncName(fn)+" # access to marketToExchangePrices", P.Pos(in.Pos()), fmt.Sprintf("lock states at the access: %v", statesStr(ps, in)))
					}
				case *ssa.Call:
					cal := x.Common().StaticCallee()
					if cal != nil && cal.Signature.Recv() != nil {
						rt := typeShort(cal.Signature.Recv().Type())
						if rt == "*"+etpT || rt == "*daemons/pricefeed/types.PriceTimestamp" {
							calls++
							bad := ps.Require(in, func(v map[string]bool) bool { return v["locked"] })
							r.check(len(bad) == 0, "LOCK-HELD", FuncName(fn)+" # call "+fnCanon(cal), P.Pos(in.Pos()), fmt.Sprintf("lock states at the call on an inner cache object: %v", statesStr(ps, in)))
						}
					}
				}
			}
		}
		// paired release
		locks := false
		for _, cs := range P.CallSitesIn(fn) {
			if isMutexCall(cs, "Lock") {
				locks = true
			}
		}
		if locks {
			okAll := true
			for _, b := range fn.Blocks {
				if ret, ok := b.Instrs[len(b.Instrs)-1].(*ssa.Return); ok && b != fn.Recover {
					if bad := ps.Require(ret, func(v map[string]bool) bool { return v["deferredUnlock"] || !v["locked"] }); len(bad) > 0 {
						okAll = false
					}
				}
			}
			r.check(okAll, "LOCK-PAIRED", FuncName(fn)+" # released on every exit", P.Pos(fn.Pos()), "every return is reached with a deferred Unlock registered or after an explicit Unlock")
		}
		// one critical section per batch: an exported method that walks a batch (a loop) holds the lock from before
		// the loop to after it, so a concurrent reader / writer sees the whole batch or nothing of it
		if fn.Object() != nil && fn.Object().Exported() && len(loopHeaders(fn)) > 0 {
			// a loop that does not touch the cache (directly or through another method of it) may run unlocked
			okAll, where, nTouching := true, "", 0
			for _, h := range loopHeaders(fn) {
				var body []*ssa.BasicBlock
				for _, b := range fn.Blocks {
					if len(b.Instrs) > 0 && h.Dominates(b) && innermostLoopHeaderWithin(fn, b, h) {
						body = append(body, b)
					}
				}
				touches := false
				for _, b := range body {
					for _, in := range b.Instrs {
						switch x := in.(type) {
						case *ssa.FieldAddr:
							if fieldName(x.X.Type(), x.Field) == guarded {
								touches = true
							}
						case *ssa.Call:
							if cal := x.Common().StaticCallee(); cal != nil && cal.Signature.Recv() != nil {
								rt := typeShort(cal.Signature.Recv().Type())
								if rt == "*"+etpT || rt == "*"+mteT || rt == "*daemons/pricefeed/types.PriceTimestamp" {
									touches = true
								}
							}
						}
					}
				}
				if !touches {
					continue
				}
				nTouching++
				for _, b := range body {
					for _, at := range []ssa.Instruction{b.Instrs[0], b.Instrs[len(b.Instrs)-1]} {
						if bad := ps.Require(at, func(v map[string]bool) bool { return v["locked"] }); len(bad) > 0 {
							okAll, where = false, fmt.Sprintf("block %d of the loop", b.Index)
						}
					}
				}
			}
			if nTouching > 0 {
				r.check(okAll, "LOCK-HELD", FuncName(fn)+" # the whole batch loop runs inside one critical section", P.Pos(fn.Pos()), "lock not held in "+where)
			}
		}
		// non-escape: result types must not be pointers / maps into the cache
		res := fn.Signature.Results()
		for i := 0; i < res.Len(); i++ {
			ts := short(res.At(i).Type().String())
			esc := strings.Contains(ts, etpT) || strings.Contains(ts, "PriceTimestamp") || strings.Contains(ts, "]*")
			r.check(!esc, "NO-ESCAPE", FuncName(fn)+fmt.Sprintf(" # result %d of type %s", i, ts), P.Pos(fn.Pos()), "a method of the cache must not return a reference to guarded state: the caller would use it without the lock")
		}
		// returned maps are freshly made in the method
		for _, b := range fn.Blocks {
			if ret, ok := b.Instrs[len(b.Instrs)-1].(*ssa.Return); ok {
				for _, v := range ret.Results {
					if _, isMap := v.Type().Underlying().(*types.Map); isMap {
						t := NewTermer().Of(v)
						r.check(strings.HasPrefix(t.Op, "makemap:"), "NO-ESCAPE", FuncName(fn)+" # returned map is freshly allocated", P.Pos(ret.Pos()), "returned value: "+t.Brief())
					}
				}
			}
		}
		_ = calls
		_ = accesses
	}
	// stores of guarded references into anything but the cache itself
	// OWNERSHIP: who calls / constructs the inner types
	callersOf := func(pred func(*ssa.Function) bool) map[string]bool {
		out := map[string]bool{}
		for _, cs := range P.AllCallSites() {
			cal := cs.Instr.Common().StaticCallee()
			if cal != nil && pred(cal) {
				out[FuncName(TopFunc(cs.Fn))] = true
			}
		}
		return out
	}
	etpUsers := callersOf(func(f *ssa.Function) bool {
		return recvTypeName(f) == "*"+etpT || fnCanon(f) == pfPkg+".NewExchangeToPrice"
	})
	okU := len(etpUsers) > 0
	for u := range etpUsers {
		// the locked methods of the cache, or the inner type's own methods calling one another under that lock
		if !strings.HasPrefix(u, "(*"+mteT+")") && !strings.HasPrefix(u, "(*"+etpT+")") {
			okU = false
		}
	}
	r.check(okU, "OWNERSHIP", "users of ExchangeToPrice", "-", fmt.Sprintf("%v", keysOf(etpUsers)))
	// fields of ExchangeToPrice touched only by its own methods / constructor
	fieldUsers := map[string]bool{}
	for _, fn := range P.RepoFuncs {
		for _, b := range fn.Blocks {
			for _, in := range b.Instrs {
				if fa, ok := in.(*ssa.FieldAddr); ok {
					fname := fieldName(fa.X.Type(), fa.Field)
					if strings.HasPrefix(fname, etpT+".") {
						fieldUsers[FuncName(TopFunc(fn))] = true
					}
					if fname == mteT+".maxPriceAge" {
						// writes?
						for _, ref := range *fa.Referrers() {
							if st, ok := ref.(*ssa.Store); ok && st.Addr == fa {
								r.check(FuncName(TopFunc(fn)) == pfPkg+".NewMarketToExchangePrices", "OWNERSHIP", "write of maxPriceAge in "+FuncName(TopFunc(fn)), P.Pos(st.Pos()), "maxPriceAge is read without the lock, so it must be immutable after construction")
							}
						}
					}
					if fname == guarded && recvTypeName(TopFunc(fn)) != "*"+mteT && FuncName(TopFunc(fn)) != pfPkg+".NewMarketToExchangePrices" {
						r.bad("LOCK-HELD", FuncName(TopFunc(fn))+" # access to marketToExchangePrices outside the cache's methods", P.Pos(fa.Pos()), "guarded field accessed by a function that is not a method of the cache")
					}
				}
			}
		}
	}
	okF := len(fieldUsers) > 0
	for u := range fieldUsers {
		if !strings.HasPrefix(u, "(*"+etpT+")") && u != pfPkg+".NewExchangeToPrice" {
			okF = false
		}
	}
	r.check(okF, "OWNERSHIP", "functions touching ExchangeToPrice fields", "-", fmt.Sprintf("%v", keysOf(fieldUsers)))

	// ---- FRESHNESS
	if up := P.Func("(*daemons/pricefeed/types.PriceTimestamp).UpdatePrice"); up == nil {
		r.broken("anchor PriceTimestamp.UpdatePrice does not resolve")
	} else {
		r.fn(FuncName(up))
		ps := AnalyzePaths(up, []Atom{{Name: "newer", Cond: func(rel *Term) (bool, bool) {
			// newUpdateTime.After(LastUpdateTime)  ==  LastUpdateTime < newUpdateTime
			if rel.Op == "<" && len(rel.Args) == 2 && strings.HasPrefix(rel.Args[0].Op, "field:daemons/pricefeed/types.PriceTimestamp.LastUpdateTime") && rel.Args[1].Has("param:2:") {
				return true, true
			}
			return false, false
		}}})
		n := 0
		for _, b := range up.Blocks {
			for _, in := range b.Instrs {
				if st, ok := in.(*ssa.Store); ok {
					if fa, ok := st.Addr.(*ssa.FieldAddr); ok && strings.HasPrefix(fieldName(fa.X.Type(), fa.Field), "daemons/pricefeed/types.PriceTimestamp.") {
						n++
						bad := ps.Require(in, func(v map[string]bool) bool { return v["newer"] })
						r.check(len(bad) == 0, "FRESHNESS", "(*daemons/pricefeed/types.PriceTimestamp).UpdatePrice # store to "+fieldName(fa.X.Type(), fa.Field)+" only for a strictly newer time", P.Pos(in.Pos()), fmt.Sprintf("valuations: %v", statesStr(ps, in)))
					}
				}
			}
		}
		r.check(n == 2, "FRESHNESS", "(*daemons/pricefeed/types.PriceTimestamp).UpdatePrice # updates time and price together", P.Pos(up.Pos()), fmt.Sprintf("%d field stores", n))
	}
	if gv := P.Func("(*daemons/pricefeed/types.PriceTimestamp).GetValidPrice"); gv == nil {
		r.broken("anchor PriceTimestamp.GetValidPrice does not resolve")
	} else {
		r.fn(FuncName(gv))
		ps := AnalyzePaths(gv, []Atom{{Name: "stale", Cond: func(rel *Term) (bool, bool) {
			if rel.Op == "<" && len(rel.Args) == 2 && strings.HasPrefix(rel.Args[0].Op, "field:daemons/pricefeed/types.PriceTimestamp.LastUpdateTime") && rel.Args[1].Op == "param:1:time.Time" {
				return true, true
			}
			return false, false
		}}})
		okAll := len(ps.Matched["stale"]) > 0
		for _, b := range gv.Blocks {
			if ret, ok := b.Instrs[len(b.Instrs)-1].(*ssa.Return); ok {
				valid := NewTermer().Of(ret.Results[1])
				want := valid.Op == "const:true"
				if bad := ps.Require(ret, func(v map[string]bool) bool { return v["stale"] != want }); len(bad) > 0 {
					okAll = false
				}
				if want {
					p := NewTermer().Of(ret.Results[0])
					if !strings.HasPrefix(p.Op, "field:daemons/pricefeed/types.PriceTimestamp.Price") {
						okAll = false
					}
				}
			}
		}
		r.check(okAll, "FRESHNESS", "(*daemons/pricefeed/types.PriceTimestamp).GetValidPrice # valid exactly when LastUpdateTime is not before the cut-off", P.Pos(gv.Pos()), "returns (Price, true) iff !(LastUpdateTime < cutoff)")
	}
	// every market update of a batch is applied
	if up := P.Func("(*" + mteT + ").UpdatePrices"); up != nil {
		ok, why := false, "no loop applies updates"
		isApply := func(in ssa.Instruction) bool {
			c, isCall := in.(*ssa.Call)
			if !isCall {
				return false
			}
			cal := c.Common().StaticCallee()
			return cal != nil && cal.Signature.Recv() != nil && typeShort(cal.Signature.Recv().Type()) == "*"+etpT && cal.Name() == "UpdatePrices"
		}
		for _, b := range up.Blocks {
			for _, in := range b.Instrs {
				if isApply(in) {
					if h := innermostLoopHeader(up, b); h != nil {
						ok, why = iterationPasses(up, h, isApply)
					}
				}
			}
		}
		r.check(ok, "FRESHNESS", "(*"+mteT+").UpdatePrices # every market update of the batch reaches its exchange table", P.Pos(up.Pos()), why)
	}
	if gm := P.Func("(*" + mteT + ").GetValidMedianPrices"); gm != nil {
		tm := NewTermer()
		ps := AnalyzePaths(gm, []Atom{
			{Name: "enough", Cond: func(rel *Term) (bool, bool) {
				// len(valid) >= MinExchanges   ==  MinExchanges <= len(valid)
				if rel.Op == "<=" && len(rel.Args) == 2 && rel.Args[0].Has("field:daemons/pricefeed/client/types.MarketParam.MinExchanges") && rel.Args[1].Op == "call:builtin:len" {
					return true, true
				}
				return false, false
			}},
			{Name: "medianErr", Cond: func(rel *Term) (bool, bool) {
				if rel.Op == "==" && len(rel.Args) == 2 && rel.Args[1].Op == "const:nil" && rel.Args[0].Op == "ext:1" && rel.Args[0].Contains("lib.Median") {
					return true, false
				}
				return false, false
			}}})
		n := 0
		for _, b := range gm.Blocks {
			for _, in := range b.Instrs {
				if mu, ok := in.(*ssa.MapUpdate); ok {
					n++
					bad := ps.Require(in, func(v map[string]bool) bool { return v["enough"] && !v["medianErr"] })
					val := tm.Of(mu.Value)
					r.check(len(bad) == 0 && val.Op == "ext:0" && val.Contains("lib.Median"), "FRESHNESS", "(*"+mteT+").GetValidMedianPrices # a median is served only with enough valid exchanges", P.Pos(in.Pos()), fmt.Sprintf("valuations: %v ; value: %s", statesStr(ps, in), val.Brief()))
				}
			}
		}
		r.check(n == 1, "FRESHNESS", "(*"+mteT+").GetValidMedianPrices # one result write", P.Pos(gm.Pos()), fmt.Sprintf("%d", n))
		// ... and every requested market that has enough valid prices and a median is served
		{
			heads := map[ssa.Instruction]bool{}
			for _, h := range loopHeaders(gm) {
				if len(h.Instrs) > 0 {
					heads[h.Instrs[0]] = true
				}
			}
			pe := AnalyzePaths(gm, []Atom{
				{Name: "known", Cond: func(rel *Term) (bool, bool) {
					return rel.Op == "ext:1" && len(rel.Args) == 1 && rel.Args[0].Op == "lookup" && rel.Contains("marketToExchangePrices"), true
				}},
				{Name: "enough", Cond: func(rel *Term) (bool, bool) {
					if rel.Op == "<=" && len(rel.Args) == 2 && rel.Args[0].Has("field:daemons/pricefeed/client/types.MarketParam.MinExchanges") && rel.Args[1].Op == "call:builtin:len" {
						return true, true
					}
					return false, false
				}},
				{Name: "medianErr", Cond: func(rel *Term) (bool, bool) {
					if rel.Op == "==" && len(rel.Args) == 2 && rel.Args[1].Op == "const:nil" && rel.Args[0].Op == "ext:1" && rel.Args[0].Contains("lib.Median") {
						return true, false
					}
					return false, false
				}},
				{Name: "served", Event: func(in ssa.Instruction) (bool, int8) {
					if heads[in] {
						return true, F
					}
					if _, ok := in.(*ssa.MapUpdate); ok {
						return true, T
					}
					return false, U
				}},
			})
			okAll, nBack, det := true, 0, ""
			var serveLoops []*ssa.BasicBlock
			for _, b := range gm.Blocks {
				for _, in := range b.Instrs {
					if _, ok := in.(*ssa.MapUpdate); ok {
						if h := innermostLoopHeader(gm, b); h != nil {
							serveLoops = append(serveLoops, h)
						}
					}
				}
			}
			for _, h := range serveLoops {
				for _, p := range h.Preds {
					if !h.Dominates(p) {
						continue
					}
					nBack++
					// the facts of this iteration: a skipped test leaves an atom of the previous iteration, so every
					// skip must itself be justified by one of the three tests having been taken with the excusing outcome
					if bad := pe.RequireOnEdge(p, h, func(v map[string]bool) bool {
						return v["served"] || !v["known"] || !v["enough"] || v["medianErr"]
					}); len(bad) > 0 {
						okAll, det = false, fmt.Sprint(bad)
					}
				}
			}
			r.check(okAll && nBack > 0 && len(pe.Matched["known"]) > 0, "FRESHNESS", "(*"+mteT+").GetValidMedianPrices # a requested market with enough valid prices and a median is in the result", P.Pos(gm.Pos()), fmt.Sprintf("%d back edges %s", nBack, det))
		}
		for _, cs := range P.CallSitesIn(gm) {
			if cs.Callee == "(*"+etpT+").GetValidPrices" {
				a := tm.Of(Arg(cs.Instr, 0))
				ok := a.Op == "call:(time.Time).Add" && len(a.Args) == 2 && a.Args[0].Op == "param:2:time.Time" && a.Args[1].Op == "neg" && a.Args[1].Has("field:"+mteT+".maxPriceAge")
				r.check(ok, "FRESHNESS", "(*"+mteT+").GetValidMedianPrices # cut-off = readTime - maxPriceAge", P.Pos(cs.Pos()), "cut-off: "+clip(a.String(), 160))
			}
			if strings.Contains(cs.Callee, "lib.Median") {
				a := tm.Of(cs.Instr.Common().Args[0])
				r.check(a.Op == "call:(*"+etpT+").GetValidPrices", "FRESHNESS", "(*"+mteT+").GetValidMedianPrices # median over the valid prices only", P.Pos(cs.Pos()), "argument: "+a.Brief())
			}
		}
	}

	// ---- MEDIAN-SHAPE (on the generic body of lib.Median)
	var med *ssa.Function
	for _, fn := range P.RepoFuncs {
		if fnCanon(fn) == "lib.Median" && fn.Parent() == nil {
			if med == nil || len(fn.TypeArgs()) == 0 {
				med = fn
			}
		}
	}
	if med == nil {
		r.broken("anchor lib.Median does not resolve")
	} else {
		r.fn(FuncName(med))
		tm := NewTermer()
		isLoadIdx := func(t *Term) bool { return t.Op == "index" }
		ps := AnalyzePaths(med, []Atom{
			{Name: "xNonPos", Cond: func(rel *Term) (bool, bool) {
				if rel.Op == "<=" && len(rel.Args) == 2 && isLoadIdx(rel.Args[0]) && rel.Args[1].Op == "const:0" {
					return true, true
				}
				return false, false
			}},
			{Name: "yNonNeg", Cond: func(rel *Term) (bool, bool) {
				if rel.Op == "<=" && len(rel.Args) == 2 && rel.Args[0].Op == "const:0" && isLoadIdx(rel.Args[1]) {
					return true, true
				}
				return false, false
			}},
			{Name: "copied", Event: func(in ssa.Instruction) (bool, int8) {
				if c, ok := in.(*ssa.Call); ok {
					if b, ok := c.Call.Value.(*ssa.Builtin); ok && b.Name() == "copy" {
						return true, T
					}
				}
				return false, U
			}}})
		adds := 0
		for _, b := range med.Blocks {
			for _, in := range b.Instrs {
				switch x := in.(type) {
				case *ssa.BinOp:
					if x.Op == token.ADD {
						a, bb := tm.Of(x.X), tm.Of(x.Y)
						if isLoadIdx(a) && isLoadIdx(bb) {
							adds++
							bad := ps.Require(in, func(v map[string]bool) bool { return v["xNonPos"] && v["yNonNeg"] })
							r.check(len(bad) == 0, "MEDIAN-SHAPE", "lib.Median # x + y only under x <= 0 && y >= 0", P.Pos(in.Pos()), fmt.Sprintf("valuations: %v", statesStr(ps, in)))
						}
					}
				case *ssa.Call:
					if medianSortKind(CalleeName(x.Common())) != "" {
						bad := ps.Require(in, func(v map[string]bool) bool { return v["copied"] })
						arg := tm.Of(x.Call.Args[0])
						r.check(len(bad) == 0 && strings.HasPrefix(arg.Op, "makeslice:"), "MEDIAN-SHAPE", "lib.Median # sorts a copy, not the caller's slice", P.Pos(in.Pos()), "sorted value: "+arg.Brief())
					}
				}
			}
		}
		r.check(adds == 1, "MEDIAN-SHAPE", "lib.Median # one sum of two elements", P.Pos(med.Pos()), fmt.Sprintf("%d additions of two elements", adds))
		checkMedianArithmetic(r, med, tm)
	}
	// the serving layer above the cache (median server): the address of a range variable must not outlive its iteration.
	// The module is built with go 1.21 semantics (one variable per loop), so `m[k] = &v` makes every entry point at the
	// last element
	{
		n, scanned := 0, 0
		for _, fn := range P.RepoFuncs {
			if fn.Pkg == nil {
				continue
			}
			pp := fn.Pkg.Pkg.Path()
			if !strings.Contains(pp, "/daemons/server") && !strings.Contains(pp, "/daemons/pricefeed") && !strings.HasSuffix(pp, "/lib") {
				continue
			}
			scanned++
			for _, b := range fn.Blocks {
				if !inLoop(fn, b) {
					continue
				}
				for _, in := range b.Instrs {
					var stored ssa.Value
					switch x := in.(type) {
					case *ssa.MapUpdate:
						stored = x.Value
					case *ssa.Store:
						if _, isIdx := x.Addr.(*ssa.IndexAddr); isIdx {
							stored = x.Val
						}
						if _, isFld := x.Addr.(*ssa.FieldAddr); isFld {
							stored = x.Val
						}
					}
					al, ok := stored.(*ssa.Alloc)
					if !ok || !al.Heap {
						continue
					}
					// the cell is allocated outside the loop but written inside it: a loop variable whose address escapes
					if inLoop(fn, al.Block()) && innermostLoopHeader(fn, al.Block()) == innermostLoopHeader(fn, b) {
						continue
					}
					writtenInLoop := false
					for _, ref := range *al.Referrers() {
						if st, isSt := ref.(*ssa.Store); isSt && st.Addr == ssa.Value(al) && inLoop(fn, st.Block()) {
							writtenInLoop = true
						}
					}
					if writtenInLoop {
						n++
						r.bad("NO-ESCAPE", FuncName(TopFunc(fn))+" # the address of loop variable "+al.Comment+" is stored beyond its iteration", P.Pos(in.Pos()), "every stored pointer refers to the one variable of the loop (go 1.21 semantics): all entries end up equal to the last element")
					}
				}
			}
		}
		r.check(n == 0 && scanned > 10, "NO-ESCAPE", "no address of a loop variable is stored beyond its iteration in the price daemon's server and cache packages", "-", fmt.Sprintf("%d functions scanned", scanned))
	}
	r.minCount("LOCK-HELD", 4)
	r.minCount("LOCK-PAIRED", 2)
	r.minCount("FRESHNESS", 6)
	r.minCount("MEDIAN-SHAPE", 3)
}

// innermostLoopHeaderWithin: block b belongs to the loop headed by h (b can reach h again without leaving
// the region h dominates).
func innermostLoopHeaderWithin(fn *ssa.Function, b, h *ssa.BasicBlock) bool {
	if b == h {
		return true
	}
	seen := map[*ssa.BasicBlock]bool{}
	work := append([]*ssa.BasicBlock{}, b.Succs...)
	for len(work) > 0 {
		x := work[len(work)-1]
		work = work[:len(work)-1]
		if seen[x] {
			continue
		}
		seen[x] = true
		if x == h {
			return true
		}
		if h.Dominates(x) {
			work = append(work, x.Succs...)
		}
	}
	return false
}

// checkMedianArithmetic decides the value lib.Median returns, clause by clause: the copy is filled from the input (not
// the reverse), the comparator orders the copy ascending, the odd count returns the element at len/2, the even count
// reads the elements at len/2-1 and len/2, and every success return of the even count is one of the reviewed
// round-away-from-zero forms, reached only under the sign facts that make that form exact and free of overflow.
func checkMedianArithmetic(r *Result, med *ssa.Function, tm *termer) {
	P := r.P
	const rule = "MEDIAN-SHAPE"
	if len(med.Params) != 1 {
		r.broken("lib.Median no longer takes one slice")
		return
	}
	isLen := func(t *Term) bool {
		return t.Op == "call:builtin:len" && len(t.Args) == 1 && t.Args[0].V == ssa.Value(med.Params[0])
	}
	isConst := func(t *Term, c string) bool { return t.Op == "const:"+c }
	isMid := func(t *Term) bool { // len/2
		if len(t.Args) != 2 {
			return false
		}
		return (t.Op == "/" && isLen(t.Args[0]) && isConst(t.Args[1], "2")) || (t.Op == ">>" && isLen(t.Args[0]) && isConst(t.Args[1], "1"))
	}
	isLow := func(t *Term) bool { // len/2 - 1, which for an even length is (len-1)/2
		if len(t.Args) != 2 {
			return false
		}
		if t.Op == "-" && isMid(t.Args[0]) && isConst(t.Args[1], "1") {
			return true
		}
		a := t.Args[0]
		return t.Op == "/" && isConst(t.Args[1], "2") && a.Op == "-" && len(a.Args) == 2 && isLen(a.Args[0]) && isConst(a.Args[1], "1")
	}
	isCopy := func(t *Term) bool {
		for (t.Op == "load" || t.Op == "freevar" || t.Op == "ref") && len(t.Args) == 1 {
			t = t.Args[0]
		}
		return strings.HasPrefix(t.Op, "makeslice:")
	}
	var canon func(t *Term) string
	canon = func(t *Term) string {
		if t.Op == "index" && len(t.Args) == 2 && isCopy(t.Args[0]) {
			switch {
			case isMid(t.Args[1]):
				return "hi"
			case isLow(t.Args[1]):
				return "lo"
			}
			return "elem[" + t.Args[1].Brief() + "]"
		}
		if strings.HasPrefix(t.Op, "convert:") && len(t.Args) == 1 {
			return canon(t.Args[0])
		}
		if len(t.Args) == 2 {
			a, b := canon(t.Args[0]), canon(t.Args[1])
			if (t.Op == "+" || t.Op == "*") && b < a {
				a, b = b, a
			}
			return t.Op + "(" + a + "," + b + ")"
		}
		if len(t.Args) == 0 {
			return t.Op
		}
		return t.Brief()
	}
	const (
		formMixed = "+(%(+(hi,lo),const:2),/(+(hi,lo),const:2))" // sum/2 + sum%2, the remainder carrying the sum's sign
		formPos   = "-(hi,/(-(hi,lo),const:2))"                  // y - (y-x)/2
		formNeg   = "+(/(-(hi,lo),const:2),lo)"                  // x + (y-x)/2
	)
	signOf := func(what string) func(rel *Term) (bool, bool) {
		return func(rel *Term) (bool, bool) {
			if len(rel.Args) != 2 {
				return false, false
			}
			a, b := canon(rel.Args[0]), canon(rel.Args[1])
			switch what {
			case "loNonPos": // lo <= 0, or its negation 0 < lo
				if rel.Op == "<=" && a == "lo" && b == "const:0" {
					return true, true
				}
				if rel.Op == "<" && a == "const:0" && b == "lo" {
					return true, false
				}
			case "hiNonNeg": // 0 <= hi, or its negation hi < 0
				if rel.Op == "<=" && a == "const:0" && b == "hi" {
					return true, true
				}
				if rel.Op == "<" && a == "hi" && b == "const:0" {
					return true, false
				}
			case "hiPos": // 0 < hi, or its negation hi <= 0
				if rel.Op == "<" && a == "const:0" && b == "hi" {
					return true, true
				}
				if rel.Op == "<=" && a == "hi" && b == "const:0" {
					return true, false
				}
			case "odd": // len%2 == 1, or len%2 == 0
				if rel.Op == "==" && len(rel.Args[0].Args) == 2 && rel.Args[0].Op == "%" && isLen(rel.Args[0].Args[0]) && isConst(rel.Args[0].Args[1], "2") {
					if isConst(rel.Args[1], "1") {
						return true, true
					}
					if isConst(rel.Args[1], "0") {
						return true, false
					}
				}
			}
			return false, false
		}
	}
	ps := AnalyzePaths(med, []Atom{
		{Name: "odd", Cond: signOf("odd"), Stable: true},
		{Name: "loNonPos", Cond: signOf("loNonPos"), Stable: true},
		{Name: "hiNonNeg", Cond: signOf("hiNonNeg"), Stable: true},
		{Name: "hiPos", Cond: signOf("hiPos"), Stable: true},
	})
	// valuations that no pair of numbers has are not paths of the program
	feasible := func(v map[string]bool) bool { return !(v["hiPos"] && !v["hiNonNeg"]) }
	copies, success, sorts := 0, 0, 0
	for _, b := range med.Blocks {
		for _, in := range b.Instrs {
			switch x := in.(type) {
			case *ssa.Call:
				if bi, ok := x.Call.Value.(*ssa.Builtin); ok && bi.Name() == "copy" {
					copies++
					dst, src := tm.Of(x.Call.Args[0]), tm.Of(x.Call.Args[1])
					r.check(isCopy(dst) && src.V == ssa.Value(med.Params[0]) && len(dst.Args) == 1 && isLen(dst.Args[0]), rule,
						"lib.Median # the fresh slice of the input's length is filled from the input", P.Pos(x.Pos()), "copy("+dst.Brief()+", "+src.Brief()+")")
				}
				if kind := medianSortKind(CalleeName(x.Common())); kind != "" {
					sorts++
					ok, got := false, "comparator is not a closure of lib.Median"
					var cl *ssa.Function
					if len(x.Call.Args) == 2 {
						switch c := x.Call.Args[1].(type) {
						case *ssa.MakeClosure:
							cl, _ = c.Fn.(*ssa.Function)
						case *ssa.Function:
							cl = c
						}
					}
					switch {
					case kind == "natural":
						ok, got = len(x.Call.Args) == 1, "natural order"
					case kind == "less" && cl != nil && len(cl.Params) == 2:
						ctm := NewTermer()
						n := 0
						for _, ret := range allReturns(cl) {
							if len(ret.Results) != 1 {
								continue
							}
							n++
							t := ctm.Of(ret.Results[0])
							got = t.String()
							elem := func(e *Term, p *ssa.Parameter) bool {
								return e.Op == "index" && len(e.Args) == 2 && e.Args[1].V == ssa.Value(p) && (isCopy(e.Args[0]) || e.Args[0].Contains("free:"))
							}
							ok = n == 1 && (t.Op == "<" || t.Op == "<=") && len(t.Args) == 2 && elem(t.Args[0], cl.Params[0]) && elem(t.Args[1], cl.Params[1])
						}
					case kind == "threeway" && cl != nil && strings.HasPrefix(fnCanon(cl), "cmp.Compare"):
						ok, got = true, "cmp.Compare"
					case kind == "threeway" && cl != nil && len(cl.Params) == 2:
						// every return is cmp.Compare(a, b), or a constant whose sign the path's comparisons of a and b justify;
						// a value computed from the elements (a - b) has the right sign only while the difference fits
						ctm := NewTermer()
						a, b := ssa.Value(cl.Params[0]), ssa.Value(cl.Params[1])
						is := func(t *Term, v ssa.Value) bool { return t.V == v }
						cps := AnalyzePaths(cl, []Atom{
							{Name: "lt", Stable: true, Cond: func(rel *Term) (bool, bool) {
								if len(rel.Args) == 2 && rel.Op == "<" && is(rel.Args[0], a) && is(rel.Args[1], b) {
									return true, true
								}
								if len(rel.Args) == 2 && rel.Op == "<=" && is(rel.Args[0], b) && is(rel.Args[1], a) {
									return true, false
								}
								return false, false
							}},
							{Name: "gt", Stable: true, Cond: func(rel *Term) (bool, bool) {
								if len(rel.Args) == 2 && rel.Op == "<" && is(rel.Args[0], b) && is(rel.Args[1], a) {
									return true, true
								}
								if len(rel.Args) == 2 && rel.Op == "<=" && is(rel.Args[0], a) && is(rel.Args[1], b) {
									return true, false
								}
								return false, false
							}},
							{Name: "eq", Stable: true, Cond: func(rel *Term) (bool, bool) {
								if len(rel.Args) == 2 && rel.Op == "==" && ((is(rel.Args[0], a) && is(rel.Args[1], b)) || (is(rel.Args[0], b) && is(rel.Args[1], a))) {
									return true, true
								}
								return false, false
							}},
						})
						ok, got = true, ""
						for _, ret := range allReturns(cl) {
							if len(ret.Results) != 1 {
								continue
							}
							t := ctm.Of(ret.Results[0])
							var need func(v map[string]bool) bool
							switch c, isConst := ret.Results[0].(*ssa.Const); {
							case isConst && c.Value != nil && c.Int64() < 0:
								need = func(v map[string]bool) bool { return v["lt"] }
							case isConst && c.Value != nil && c.Int64() > 0:
								need = func(v map[string]bool) bool { return v["gt"] || (!v["lt"] && !v["eq"]) }
							case isConst && c.Value != nil:
								need = func(v map[string]bool) bool { return v["eq"] || (!v["lt"] && !v["gt"]) }
							case strings.HasPrefix(t.Op, "call:cmp.Compare") && len(t.Args) == 2 && is(t.Args[0], a) && is(t.Args[1], b):
								continue
							}
							if need == nil {
								ok, got = false, "returns "+clip(t.String(), 160)+": not cmp.Compare(a, b) and not a constant"
								break
							}
							if bad := cps.Require(ret, need); len(bad) > 0 {
								ok, got = false, fmt.Sprintf("returns %s under %v", t.Brief(), bad)
								break
							}
						}
					}
					r.check(ok, rule, "lib.Median # the comparator orders element i before element j when it is smaller", P.Pos(x.Pos()), got)
				}
			case *ssa.Return:
				if len(x.Results) != 2 || DefinitelyFails(x) {
					continue
				}
				success++
				form := canon(tm.Of(x.Results[0]))
				var need func(v map[string]bool) bool
				switch form {
				case "hi":
					need = func(v map[string]bool) bool { return v["odd"] }
				case formMixed:
					need = func(v map[string]bool) bool { return !v["odd"] && v["loNonPos"] && v["hiNonNeg"] }
				case formPos: // exact when both are positive: lo > 0 and the slice is sorted
					need = func(v map[string]bool) bool { return !v["odd"] && !v["loNonPos"] }
				case formNeg: // exact when both are at most zero: hi <= 0 and the slice is sorted
					need = func(v map[string]bool) bool { return !v["odd"] && (!v["hiPos"] || !v["hiNonNeg"]) }
				}
				if need == nil {
					r.check(false, rule, "lib.Median # every value returned is the middle element or a reviewed mean form", P.Pos(x.Pos()), "returned: "+form)
					continue
				}
				bad := ps.Require(x, func(v map[string]bool) bool { return !feasible(v) || need(v) })
				r.check(len(bad) == 0, rule, "lib.Median # every value returned is the middle element or a reviewed mean form", P.Pos(x.Pos()),
					fmt.Sprintf("returned %s under %v", form, bad))
			}
		}
	}
	r.check(sorts == 1, rule, "lib.Median # the copy is put in ascending order by one recognised sort", P.Pos(med.Pos()), fmt.Sprintf("%d recognised sort calls (sort.Slice / SliceStable, slices.Sort / SortFunc / SortStableFunc)", sorts))
	r.check(copies == 1 && success > 0, rule, "lib.Median # one copy, and value returns to decide", P.Pos(med.Pos()), fmt.Sprintf("%d copies, %d value returns", copies, success))
}

// medianSortKind classifies the sort routines lib.Median may use by the kind of ordering argument they take.
func medianSortKind(callee string) string {
	switch {
	case callee == "sort.Slice" || callee == "sort.SliceStable":
		return "less"
	case callee == "slices.Sort" || strings.HasPrefix(callee, "slices.Sort["):
		return "natural"
	case callee == "slices.SortFunc" || callee == "slices.SortStableFunc" || strings.HasPrefix(callee, "slices.SortFunc[") || strings.HasPrefix(callee, "slices.SortStableFunc["):
		return "threeway"
	}
	return ""
}
