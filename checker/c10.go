package main

// C10 — reporting power equals the bonded stake of active selectors, counted once.

import (
	"fmt"
	"go/token"
	"sort"
	"strings"

	"golang.org/x/tools/go/ssa"
)

func init() { register("C10", checkC10) }

func checkC10(r *Result) {
	P := r.P
	r.Explanation = "Structural rules of the selector / reporter bookkeeping that make 'counted once' possible, decided on SSA: the Selectors map (keyed by the selector's own address, hence one reporter per selector) is written only by CreateReporter, SelectReporter, SwitchReporter, RemoveSelector and the two staking hooks, and the hooks change nothing but the delegation count; joining is guarded by 'not already a selector', the reporter's cap (len >= MaxSelectors rejects) and the reporter's minimum bonded amount; switching is a read-modify-write of the stored selection (so an existing lock survives), sets the lock to block time + unbonding time whenever the reporter being left has a stake snapshot, and re-checks cap and minimum; the stake computation skips selectors whose lock is still in the future, counts only bonded validators in both of its counting strategies, adds to the total exactly the amounts it records as token origins, and stores that total and those origins as the snapshot; un-jailing requires the jailed flag and an elapsed jail time."
	r.NotDecided = "equality of the computed power with an independently recomputed bonded stake over staking histories (shares-to-tokens rounding, validator state changes inside a block)"
	r.Assumptions = []string{"x/staking reports delegations, validator status and share/token conversion correctly", "reporting windows are shorter than the unbonding period (the property's premise)"}
	r.rule("SELECTOR-WRITERS", "Selectors is written only by the four handlers and the two hooks; hooks change only the delegation count")
	r.rule("JOIN-GUARDS", "joining / creating / switching is guarded by uniqueness, cap and minimum bonded amount")
	r.rule("SWITCH-LOCK", "switching is a read-modify-write that locks the selector for the unbonding time when the reporter being left has reported")
	r.rule("STAKE-COUNT", "the stake computation skips locked selectors, counts bonded validators only, and totals exactly the recorded origins")
	r.rule("UNJAIL", "a reporter is released only when jailed and after the jail time")

	need := func(name string) *ssa.Function {
		f := P.Func(name)
		if f == nil {
			r.broken("anchor %s does not resolve", name)
		} else {
			r.fn(name)
		}
		return f
	}
	tm := NewTermer()
	// ---- SELECTOR-WRITERS
	{
		ws := map[string]bool{}
		for _, s := range P.Sites(func(c *CallSite) bool {
			return strings.HasPrefix(c.Desc(), "coll:x/reporter/keeper.Keeper.Selectors.") && (c.Method == "Set" || c.Method == "Remove")
		}) {
			ws[FuncName(TopFunc(s.Fn))+":"+s.Method] = true
		}
		want := []string{"(x/reporter/keeper.Hooks).BeforeDelegationCreated:Set", "(x/reporter/keeper.Hooks).BeforeDelegationRemoved:Set", "(x/reporter/keeper.msgServer).CreateReporter:Set", "(x/reporter/keeper.msgServer).RemoveSelector:Remove", "(x/reporter/keeper.msgServer).SelectReporter:Set", "(x/reporter/keeper.msgServer).SwitchReporter:Set"}
		got := keysOf(ws)
		var extra []string
		for _, g := range got {
			if !strings.Contains(g, "Genesis") {
				extra = append(extra, g)
			}
		}
		r.check(fmt.Sprint(extra) == fmt.Sprint(want), "SELECTOR-WRITERS", "writers of Selectors", "-", fmt.Sprint(extra))
	}
	for _, hn := range []string{"(x/reporter/keeper.Hooks).BeforeDelegationCreated", "(x/reporter/keeper.Hooks).BeforeDelegationRemoved"} {
		h := need(hn)
		if h == nil {
			continue
		}
		fields := map[string]string{}
		for _, b := range h.Blocks {
			for _, in := range b.Instrs {
				if st, ok := in.(*ssa.Store); ok {
					if fa, ok := st.Addr.(*ssa.FieldAddr); ok && strings.HasPrefix(fieldName(fa.X.Type(), fa.Field), "x/reporter/types.Selection.") {
						fields[strings.TrimPrefix(fieldName(fa.X.Type(), fa.Field), "x/reporter/types.Selection.")] = tm.Of(st.Val).Op
					}
				}
			}
		}
		wantOp := "+"
		if strings.HasSuffix(hn, "Removed") {
			wantOp = "-"
		}
		var getK, setK string
		for _, cs := range P.CallSitesIn(h) {
			if cs.Desc() == "coll:x/reporter/keeper.Keeper.Selectors.Get" {
				getK = tm.Of(Arg(cs.Instr, 1)).String()
			}
			if cs.Desc() == "coll:x/reporter/keeper.Keeper.Selectors.Set" {
				setK = tm.Of(Arg(cs.Instr, 1)).String()
			}
		}
		r.check(len(fields) == 1 && fields["DelegationsCount"] == wantOp && getK == setK && strings.Contains(getK, "param:2:"), "SELECTOR-WRITERS", hn+" # rewrites the delegator's own record, changing only DelegationsCount by one", P.Pos(h.Pos()), fmt.Sprintf("fields stored %v ; same key %v", fields, getK == setK))
	}
	// ---- JOIN-GUARDS
	alreadySel := func(rel *Term) (bool, bool) {
		if rel.Op == "ext:0" && len(rel.Args) == 1 && strings.HasSuffix(rel.Args[0].Op, ".Has") && rel.Has("field:x/reporter/keeper.Keeper.Selectors") {
			return true, true
		}
		return false, false
	}
	capped := func(rel *Term) (bool, bool) {
		// len(selectors) >= int(MaxSelectors)  ==  MaxSelectors <= len
		if rel.Op == "<=" && len(rel.Args) == 2 && rel.Args[0].Contains("Params.MaxSelectors") && rel.Args[1].Op == "call:builtin:len" {
			return true, true
		}
		return false, false
	}
	if sr := need("(x/reporter/keeper.msgServer).SelectReporter"); sr != nil {
		ps := AnalyzePaths(sr, []Atom{{Name: "already", Cond: alreadySel}, {Name: "capped", Cond: capped},
			{Name: "belowMin", Cond: func(rel *Term) (bool, bool) {
				if rel.Op == "<" && len(rel.Args) == 2 && rel.Args[0].Contains("CheckSelectorsDelegations") && rel.Args[1].Contains("OracleReporter.MinTokensRequired") {
					return true, true
				}
				return false, false
			}}})
		for _, cs := range P.CallSitesIn(sr) {
			if cs.Desc() == "coll:x/reporter/keeper.Keeper.Selectors.Set" {
				bad := ps.Require(cs.Instr, func(v map[string]bool) bool { return !v["already"] && !v["capped"] && !v["belowMin"] })
				ev := len(ps.Matched["already"]) > 0 && len(ps.Matched["capped"]) > 0 && len(ps.Matched["belowMin"]) > 0
				r.check(len(bad) == 0 && ev, "JOIN-GUARDS", "(x/reporter/keeper.msgServer).SelectReporter # join only if not yet a selector, reporter not at its cap, minimum met", P.Pos(cs.Pos()), fmt.Sprintf("valuations: %v", statesStr(ps, cs.Instr)))
				v := tm.Of(Arg(cs.Instr, 2))
				r.check(v.Op == "call:x/reporter/types.NewSelection" && v.Args[0].Contains("MsgSelectReporter.ReporterAddress"), "JOIN-GUARDS", "(x/reporter/keeper.msgServer).SelectReporter # new selection points to the chosen reporter", P.Pos(cs.Pos()), clip(v.String(), 120))
			}
			if strings.Contains(cs.Desc(), "ReporterSelectorsIndex.Reporter.MatchExact") {
				a := tm.Of(Arg(cs.Instr, 1))
				r.check(a.Contains("MsgSelectReporter.ReporterAddress"), "JOIN-GUARDS", "(x/reporter/keeper.msgServer).SelectReporter # cap counted over the chosen reporter's selectors", P.Pos(cs.Pos()), a.Brief())
			}
		}
	}
	if cr := need("(x/reporter/keeper.msgServer).CreateReporter"); cr != nil {
		ps := AnalyzePaths(cr, []Atom{{Name: "already", Cond: alreadySel},
			{Name: "belowMin", Cond: func(rel *Term) (bool, bool) {
				if rel.Op == "<" && len(rel.Args) == 2 && rel.Args[0].Contains("CheckSelectorsDelegations") && rel.Args[1].Contains("Params.MinTrb") {
					return true, true
				}
				return false, false
			}}})
		for _, cs := range P.CallSitesIn(cr) {
			if cs.Desc() == "coll:x/reporter/keeper.Keeper.Selectors.Set" || cs.Desc() == "coll:x/reporter/keeper.Keeper.Reporters.Set" {
				bad := ps.Require(cs.Instr, func(v map[string]bool) bool { return !v["already"] && !v["belowMin"] })
				ev := len(ps.Matched["already"]) > 0 && len(ps.Matched["belowMin"]) > 0
				r.check(len(bad) == 0 && ev, "JOIN-GUARDS", "(x/reporter/keeper.msgServer).CreateReporter # "+cs.Desc()[strings.Index(cs.Desc(), "Keeper.")+7:]+" only for a new address with the minimum bonded amount", P.Pos(cs.Pos()), fmt.Sprintf("valuations: %v", statesStr(ps, cs.Instr)))
			}
		}
	}
	// ---- SWITCH-LOCK
	if sw := need("(x/reporter/keeper.msgServer).SwitchReporter"); sw != nil {
		ps := AnalyzePaths(sw, []Atom{{Name: "capped", Cond: capped},
			{Name: "hasMin", Cond: func(rel *Term) (bool, bool) {
				if rel.Op == "ext:0" && len(rel.Args) == 1 && rel.Args[0].Op == "call:(x/reporter/keeper.Keeper).HasMin" {
					return true, true
				}
				return false, false
			}},
			{Name: "isReporter", Cond: func(rel *Term) (bool, bool) { return rel.Op == "call:bytes.Equal", true }},
			{Name: "prevReported", Cond: func(rel *Term) (bool, bool) {
				if rel.Op == "==" && len(rel.Args) == 2 && rel.Args[0].Contains("GetReporterTokensAtBlock") && rel.Args[1].Op == "const:0" {
					return true, false
				}
				return false, false
			}},
			{Name: "locked", Event: func(in ssa.Instruction) (bool, int8) {
				if st, ok := in.(*ssa.Store); ok {
					if fa, ok := st.Addr.(*ssa.FieldAddr); ok && fieldName(fa.X.Type(), fa.Field) == "x/reporter/types.Selection.LockedUntilTime" {
						t := tm.Of(st.Val)
						if t.Op == "call:(time.Time).Add" && t.Args[0].Has("call:(github.com/cosmos/cosmos-sdk/types.Context).BlockTime") && t.Args[1].Op == "ext:0" && len(t.Args[1].Args) == 1 && strings.HasSuffix(t.Args[1].Args[0].Op, "StakingKeeper.UnbondingTime") {
							return true, T
						}
						return true, F
					}
				}
				return false, U
			}}})
		for _, cs := range P.CallSitesIn(sw) {
			if cs.Desc() != "coll:x/reporter/keeper.Keeper.Selectors.Set" {
				continue
			}
			bad := ps.Require(cs.Instr, func(v map[string]bool) bool {
				return !v["capped"] && v["hasMin"] && !v["isReporter"] && (!v["prevReported"] || v["locked"])
			})
			ev := len(ps.Matched["capped"]) > 0 && len(ps.Matched["hasMin"]) > 0 && len(ps.Matched["prevReported"]) > 0
			r.check(len(bad) == 0 && ev, "SWITCH-LOCK", "(x/reporter/keeper.msgServer).SwitchReporter # switch only below the cap, with the minimum, not as a reporter, and locked if the reporter left has reported", P.Pos(cs.Pos()), fmt.Sprintf("valuations: %v", statesStr(ps, cs.Instr)))
			// read-modify-write: the stored value is the local that Selectors.Get filled
			rmw := false
			fields := map[string]bool{}
			if ld, ok := Arg(cs.Instr, 2).(*ssa.UnOp); ok {
				if al, ok := ld.X.(*ssa.Alloc); ok {
					for _, ref := range *al.Referrers() {
						switch x := ref.(type) {
						case *ssa.Store:
							if x.Addr == al {
								t := tm.Of(x.Val)
								if t.Op == "ext:0" && t.Has("field:x/reporter/keeper.Keeper.Selectors") && strings.HasSuffix(t.Args[0].Op, ".Get") {
									rmw = true
								} else {
									rmw = false
									fields["<whole struct from "+t.Brief()+">"] = true
								}
							}
						case *ssa.FieldAddr:
							for _, rr := range *x.Referrers() {
								if st, ok := rr.(*ssa.Store); ok && st.Addr == x {
									fields[strings.TrimPrefix(fieldName(x.X.Type(), x.Field), "x/reporter/types.Selection.")] = true
								}
							}
						}
					}
				}
			}
			okFields := fields["Reporter"] && len(fields) <= 2 && (len(fields) == 1 || fields["LockedUntilTime"])
			r.check(rmw && okFields, "SWITCH-LOCK", "(x/reporter/keeper.msgServer).SwitchReporter # writes back the selection it read, changing only Reporter and LockedUntilTime", P.Pos(cs.Pos()), fmt.Sprintf("read-modify-write: %v ; fields assigned: %v (a freshly constructed selection would erase an existing lock and the delegation count)", rmw, keysOf(fields)))
			var getK string
			for _, c2 := range P.CallSitesIn(sw) {
				if c2.Desc() == "coll:x/reporter/keeper.Keeper.Selectors.Get" {
					getK = tm.Of(Arg(c2.Instr, 1)).String()
				}
			}
			setK := tm.Of(Arg(cs.Instr, 1)).String()
			r.check(strings.Contains(getK, "MsgSwitchReporter.SelectorAddress") && strings.Contains(setK, "MsgSwitchReporter.SelectorAddress"), "SWITCH-LOCK", "(x/reporter/keeper.msgServer).SwitchReporter # the signer's own selection", P.Pos(cs.Pos()), "keys derive from msg.SelectorAddress")
		}
		for _, cs := range P.CallSitesIn(sw) {
			if cs.Callee == "(x/reporter/keeper.Keeper).GetReporterTokensAtBlock" {
				a := tm.Of(Arg(cs.Instr, 1))
				r.check(strings.HasPrefix(a.Op, "field:x/reporter/types.Selection.Reporter"), "SWITCH-LOCK", "(x/reporter/keeper.msgServer).SwitchReporter # 'has reported' is asked about the reporter being left", P.Pos(cs.Pos()), a.Brief())
			}
		}
	}
	// ---- STAKE-COUNT
	if rs := need("(x/reporter/keeper.Keeper).ReporterStake"); rs != nil {
		ps := AnalyzePaths(rs, []Atom{{Name: "lockedNow", Cond: func(rel *Term) (bool, bool) {
			// LockedUntilTime.After(BlockTime)  ==  BlockTime < LockedUntilTime
			if rel.Op == "<" && len(rel.Args) == 2 && rel.Args[0].Has("call:(github.com/cosmos/cosmos-sdk/types.Context).BlockTime") && rel.Args[1].Contains("Selection.LockedUntilTime") {
				return true, true
			}
			return false, false
		}}})
		n := 0
		for _, cs := range P.CallSitesIn(rs) {
			if strings.HasSuffix(cs.Callee, ".IterateBondedValidatorsByPower") || strings.HasSuffix(cs.Callee, "StakingKeeper.IterateDelegatorDelegations") {
				n++
				bad := ps.Require(cs.Instr, func(v map[string]bool) bool { return !v["lockedNow"] })
				r.check(len(bad) == 0 && len(ps.Matched["lockedNow"]) > 0, "STAKE-COUNT", "(x/reporter/keeper.Keeper).ReporterStake # "+cs.Method+" only for a selector whose lock has passed", P.Pos(cs.Pos()), fmt.Sprintf("valuations: %v", statesStr(ps, cs.Instr)))
			}
			if cs.Desc() == "coll:x/reporter/keeper.Keeper.Report.Set" {
				k := tm.Of(Arg(cs.Instr, 1))
				r.check(k.Contains("param:3:") && k.Contains("param:2:") && k.Has("call:(github.com/cosmos/cosmos-sdk/types.Context).BlockHeight"), "STAKE-COUNT", "(x/reporter/keeper.Keeper).ReporterStake # snapshot keyed by (query id, reporter, current height)", P.Pos(cs.Pos()), clip(k.String(), 160))
			}
		}
		r.check(n == 2, "STAKE-COUNT", "(x/reporter/keeper.Keeper).ReporterStake # two counting strategies", P.Pos(rs.Pos()), fmt.Sprintf("%d", n))
		// every selector that is not locked is counted; the snapshot is stored on every success; a jailed reporter has no stake
		{
			heads := map[ssa.Instruction]bool{}
			for _, h := range loopHeaders(rs) {
				if len(h.Instrs) > 0 {
					heads[h.Instrs[0]] = true
				}
			}
			pc := AnalyzePaths(rs, []Atom{
				{Name: "lockedNow", Cond: func(rel *Term) (bool, bool) {
					if rel.Op == "<" && len(rel.Args) == 2 && rel.Args[0].Has("call:(github.com/cosmos/cosmos-sdk/types.Context).BlockTime") && rel.Args[1].Contains("Selection.LockedUntilTime") {
						return true, true
					}
					return false, false
				}},
				{Name: "counted", Event: func(in ssa.Instruction) (bool, int8) {
					if heads[in] {
						return true, F
					}
					if c, ok := in.(ssa.CallInstruction); ok {
						if cs := P.siteOf(c); cs != nil && (strings.HasSuffix(cs.Callee, ".IterateBondedValidatorsByPower") || strings.HasSuffix(cs.Callee, "StakingKeeper.IterateDelegatorDelegations")) {
							return true, T
						}
					}
					return false, U
				}},
				{Name: "jailed", Stable: true, Cond: func(rel *Term) (bool, bool) {
					return strings.HasPrefix(rel.Op, "field:x/reporter/types.OracleReporter.Jailed"), true
				}},
				{Name: "stored", Event: P.CallEvent(descIs("coll:x/reporter/keeper.Keeper.Report.Set"), T)},
			})
			okIter, nBack, det := true, 0, ""
			countLoops := map[*ssa.BasicBlock]bool{}
			for _, cs := range P.CallSitesIn(rs) {
				if strings.HasSuffix(cs.Callee, ".IterateBondedValidatorsByPower") || strings.HasSuffix(cs.Callee, "StakingKeeper.IterateDelegatorDelegations") {
					if h := innermostLoopHeader(rs, cs.Instr.Block()); h != nil {
						countLoops[h] = true
					}
				}
			}
			for _, h := range loopHeaders(rs) {
				if !countLoops[h] {
					continue
				}
				for _, p := range h.Preds {
					if !h.Dominates(p) {
						continue
					}
					nBack++
					if bad := pc.RequireOnEdge(p, h, func(v map[string]bool) bool { return v["lockedNow"] || v["counted"] }); len(bad) > 0 {
						okIter, det = false, fmt.Sprint(bad)
					}
				}
			}
			r.check(okIter && nBack > 0, "STAKE-COUNT", "(x/reporter/keeper.Keeper).ReporterStake # every selector of the reporter is counted unless it is locked", P.Pos(rs.Pos()), fmt.Sprintf("%d back edges %s", nBack, det))
			okRet, nRet := true, 0
			for _, ret := range SuccessReturns(rs) {
				nRet++
				if bad := pc.Require(ret, func(v map[string]bool) bool { return v["stored"] && !v["jailed"] }); len(bad) > 0 {
					okRet, det = false, fmt.Sprint(bad)
				}
			}
			r.check(okRet && nRet > 0 && len(pc.Matched["jailed"]) > 0, "STAKE-COUNT", "(x/reporter/keeper.Keeper).ReporterStake # a stake is returned only for a reporter that is not jailed, with its snapshot stored", P.Pos(rs.Pos()), fmt.Sprintf("%d success returns %s", nRet, det))
		}
		// in each closure: the amount added to the total is the amount recorded; only bonded validators
		for _, cl := range rs.AnonFuncs {
			var added, recorded []string
			bondedGuard := false
			viaBondedIter := false
			psb := AnalyzePaths(cl, []Atom{{Name: "bonded", Cond: func(rel *Term) (bool, bool) {
				return rel.Op == "call:(github.com/cosmos/cosmos-sdk/x/staking/types.Validator).IsBonded", true
			}}})
			addUnderBonded := true
			for _, b := range cl.Blocks {
				for _, in := range b.Instrs {
					if c, ok := in.(*ssa.Call); ok && CalleeName(c.Common()) == "(cosmossdk.io/math.Int).Add" {
						added = append(added, tm.Of(c.Call.Args[1]).String())
						if len(psb.Matched["bonded"]) > 0 && len(psb.Require(in, func(v map[string]bool) bool { return v["bonded"] })) > 0 {
							addUnderBonded = false
						}
					}
					if st, ok := in.(*ssa.Store); ok {
						if fa, ok := st.Addr.(*ssa.FieldAddr); ok && fieldName(fa.X.Type(), fa.Field) == "x/reporter/types.TokenOriginInfo.Amount" {
							recorded = append(recorded, tm.Of(st.Val).String())
						}
					}
				}
				if iff, ok := b.Instrs[len(b.Instrs)-1].(*ssa.If); ok {
					rel, _ := Cond(tm.Of(iff.Cond))
					if rel.Op == "call:(github.com/cosmos/cosmos-sdk/x/staking/types.Validator).IsBonded" {
						bondedGuard = true
					}
				}
			}
			// which iterator is this closure passed to
			for _, cs := range P.CallSitesIn(rs) {
				for _, a := range cs.Instr.Common().Args {
					if mc, ok := a.(*ssa.MakeClosure); ok && mc.Fn == cl && strings.HasSuffix(cs.Callee, ".IterateBondedValidatorsByPower") {
						viaBondedIter = true
					}
				}
			}
			if len(added) == 0 && len(recorded) == 0 {
				continue
			}
			sort.Strings(added)
			sort.Strings(recorded)
			r.check(fmt.Sprint(added) == fmt.Sprint(recorded) && len(added) == 1 && ((bondedGuard && addUnderBonded) || viaBondedIter), "STAKE-COUNT", FuncName(cl)+" # adds to the total exactly what it records as origin, bonded validators only", P.Pos(cl.Pos()), fmt.Sprintf("added %d, recorded %d, equal: %v ; IsBonded guard: %v ; iterates bonded validators: %v", len(added), len(recorded), fmt.Sprint(added) == fmt.Sprint(recorded), bondedGuard, viaBondedIter))
		}
		// snapshot value: Total = the accumulator returned, TokenOrigins = the collected list
		okTot := false
		for _, b := range rs.Blocks {
			for _, in := range b.Instrs {
				if st, ok := in.(*ssa.Store); ok {
					if fa, ok := st.Addr.(*ssa.FieldAddr); ok && fieldName(fa.X.Type(), fa.Field) == "x/reporter/types.DelegationsAmounts.Total" {
						for _, ret := range SuccessReturns(rs) {
							if tm.Of(ResultOf(ret, 0)).String() == tm.Of(st.Val).String() {
								okTot = true
							}
						}
					}
				}
			}
		}
		r.check(okTot, "STAKE-COUNT", "(x/reporter/keeper.Keeper).ReporterStake # snapshot total = returned stake", P.Pos(rs.Pos()), "the stored Total and the returned value are the same accumulator")
	}
	// ---- UNJAIL
	if uj := need("(x/reporter/keeper.Keeper).UnjailReporter"); uj != nil {
		ps := AnalyzePaths(uj, []Atom{{Name: "jailed", Cond: func(rel *Term) (bool, bool) {
			return strings.HasPrefix(rel.Op, "field:x/reporter/types.OracleReporter.Jailed"), true
		}}, {Name: "early", Cond: func(rel *Term) (bool, bool) {
			if rel.Op == "<" && len(rel.Args) == 2 && rel.Args[0].Has("call:(github.com/cosmos/cosmos-sdk/types.Context).BlockTime") && rel.Args[1].Contains("OracleReporter.JailedUntil") {
				return true, true
			}
			return false, false
		}}})
		for _, cs := range P.CallSitesIn(uj) {
			if cs.Desc() == "coll:x/reporter/keeper.Keeper.Reporters.Set" {
				bad := ps.Require(cs.Instr, func(v map[string]bool) bool { return v["jailed"] && !v["early"] })
				ev := len(ps.Matched["jailed"]) > 0 && len(ps.Matched["early"]) > 0
				r.check(len(bad) == 0 && ev, "UNJAIL", "(x/reporter/keeper.Keeper).UnjailReporter # release only a jailed reporter whose jail time has passed", P.Pos(cs.Pos()), fmt.Sprintf("valuations: %v", statesStr(ps, cs.Instr)))
			}
		}
		clr := false
		for _, b := range uj.Blocks {
			for _, in := range b.Instrs {
				if storesConstToField(in, "x/reporter/types.OracleReporter.Jailed", "false") {
					clr = true
				}
			}
		}
		r.check(clr, "UNJAIL", "(x/reporter/keeper.Keeper).UnjailReporter # clears the jailed flag", P.Pos(uj.Pos()), "")
		// who writes Jailed
		ws := map[string]bool{}
		for _, fn := range P.RepoFuncs {
			for _, b := range fn.Blocks {
				for _, in := range b.Instrs {
					if st, ok := in.(*ssa.Store); ok {
						if fa, ok := st.Addr.(*ssa.FieldAddr); ok && fieldName(fa.X.Type(), fa.Field) == "x/reporter/types.OracleReporter.Jailed" {
							ws[FuncName(TopFunc(fn))] = true
						}
					}
				}
			}
		}
		okW := true
		for w := range ws {
			if w != "(x/reporter/keeper.Keeper).JailReporter" && w != "(x/reporter/keeper.Keeper).UnjailReporter" && !strings.Contains(w, "NewReporter") && !strings.Contains(w, "Genesis") {
				okW = false
			}
		}
		r.check(okW, "UNJAIL", "writers of OracleReporter.Jailed", "-", fmt.Sprint(keysOf(ws)))
	}
	// ---- SWITCH-LOCK, second door: removing a selection deletes its lock with it, so a removal followed by a new
	// selection must not be a way around the lock of SwitchReporter. Today the removal is only reachable for a
	// reporter with more selectors than the cap (which joining never produces); relaxing that comparison opens
	// "remove, select another reporter, report again in the same window".
	checkRemoveOnlyOverCap(r, "SWITCH-LOCK", "a selection (and its lock) is removed only from a reporter that holds more selectors than the cap")
	if cr := need("(x/reporter/keeper.msgServer).CreateReporter"); cr != nil {
		requireAtSuccess(r, "JOIN-GUARDS", cr, "a created reporter is stored together with its self-selection", []Atom{
			{Name: "reporter", Event: P.CallEvent(descIs("coll:x/reporter/keeper.Keeper.Reporters.Set"), T)},
			{Name: "selection", Event: P.CallEvent(descIs("coll:x/reporter/keeper.Keeper.Selectors.Set"), T)},
		}, func(v map[string]bool) bool { return v["reporter"] && v["selection"] })
	}
	checkHasMin(r, "JOIN-GUARDS")
	r.minCount("JOIN-GUARDS", 5)
	r.minCount("SWITCH-LOCK", 4)
	r.minCount("STAKE-COUNT", 6)
}

// checkHasMin: HasMin decides "the account's bonded delegations add up to at least the minimum". Structural part:
// one accumulator captured by the iteration callback; every update combines the accumulator's own previous value
// with the visited delegation's tokens (TokensFromShares of a validator read in that visit), only under IsBonded.
func checkHasMin(r *Result, rule string) {
	P := r.P
	hm := P.Func("(x/reporter/keeper.Keeper).HasMin")
	if hm == nil {
		r.broken("anchor HasMin does not resolve")
		return
	}
	r.fn(FuncName(hm))
	var cb *ssa.Function
	for _, cs := range P.CallSitesIn(hm) {
		if strings.HasSuffix(cs.Callee, "StakingKeeper.IterateDelegatorDelegations") {
			if mc, ok := Arg(cs.Instr, 2).(*ssa.MakeClosure); ok {
				cb, _ = mc.Fn.(*ssa.Function)
			}
		}
	}
	if cb == nil {
		r.bad(rule, "(x/reporter/keeper.Keeper).HasMin # visits the account's delegations with a literal callback", P.Pos(hm.Pos()), "no IterateDelegatorDelegations call with a closure literal")
		return
	}
	ps := AnalyzePaths(cb, []Atom{{Name: "bonded", Cond: func(rel *Term) (bool, bool) {
		return strings.HasSuffix(rel.Op, "Validator).IsBonded"), true
	}}})
	tm := NewTermer()
	n := 0
	direction := ""
	for _, b := range cb.Blocks {
		for _, in := range b.Instrs {
			st, ok := in.(*ssa.Store)
			if !ok {
				continue
			}
			fv, ok := st.Addr.(*ssa.FreeVar)
			if !ok || !strings.Contains(fv.Type().String(), "math.Int") {
				continue
			}
			n++
			call, _ := st.Val.(*ssa.Call)
			okShape, why := false, "the stored value is not accumulator.Add/Sub(delegation tokens)"
			if call != nil {
				name := CalleeName(call.Common())
				if name == "(cosmossdk.io/math.Int).Add" {
					direction = "up"
				} else if name == "(cosmossdk.io/math.Int).Sub" {
					direction = "down"
				}
				if (name == "(cosmossdk.io/math.Int).Add" || name == "(cosmossdk.io/math.Int).Sub") && len(call.Call.Args) == 2 {
					ld, isLoad := call.Call.Args[0].(*ssa.UnOp)
					own := isLoad && ld.X == ssa.Value(fv)
					amt := tm.Of(call.Call.Args[1])
					fromVisit := amt.Contains("Validator).TokensFromShares") && amt.Contains("Delegation.Shares") && amt.Contains("StakingKeeper.GetValidator")
					okShape = own && fromVisit
					why = fmt.Sprintf("combines the accumulator's own previous value: %v ; with the visited delegation's tokens: %v", own, fromVisit)
				}
			}
			bad := ps.Require(st, func(v map[string]bool) bool { return v["bonded"] })
			r.check(okShape && len(bad) == 0, rule, "(x/reporter/keeper.Keeper).HasMin # each bonded delegation is added to the running amount", P.Pos(st.Pos()), why+fmt.Sprintf(" ; under IsBonded: %v", len(bad) == 0))
		}
	}
	r.check(n == 1, rule, "(x/reporter/keeper.Keeper).HasMin # one accumulator update in the callback", P.Pos(cb.Pos()), fmt.Sprint(n))
	// the verdict compares the accumulator with the minimum handed in
	// counting up from zero the verdict is `minimum <= amount`; counting the missing amount down from the minimum it is
	// `missing <= 0` (i.e. not positive): an account holding exactly the minimum has it
	okRet, nRet, detRet := true, 0, ""
	// the accumulator cell as seen from the outer function (the captured alloc) and from the callback (the free variable)
	var accCell ssa.Value
	var accFree *ssa.FreeVar
	for _, b := range cb.Blocks {
		for _, in := range b.Instrs {
			if st, ok := in.(*ssa.Store); ok {
				if fv, ok := st.Addr.(*ssa.FreeVar); ok && strings.Contains(fv.Type().String(), "math.Int") {
					accFree = fv
				}
			}
		}
	}
	for _, b := range hm.Blocks {
		for _, in := range b.Instrs {
			if mc, ok := in.(*ssa.MakeClosure); ok && mc.Fn == ssa.Value(cb) && accFree != nil {
				for i, fv := range cb.FreeVars {
					if fv == accFree && i < len(mc.Bindings) {
						accCell = mc.Bindings[i]
					}
				}
			}
		}
	}
	isAccLoad := func(v ssa.Value) bool {
		ld, ok := v.(*ssa.UnOp)
		return ok && ld.Op == token.MUL && (ld.X == accCell || (accFree != nil && ld.X == ssa.Value(accFree)))
	}
	isMinVal := func(v ssa.Value) bool { return tm.Of(v).Contains("param:3:cosmossdk.io/math.Int") }
	verdictOK := func(v ssa.Value) bool {
		switch direction {
		case "up": // acc.GTE(min)
			c, ok := v.(*ssa.Call)
			if !ok || len(c.Call.Args) != 2 {
				return false
			}
			switch CalleeName(c.Common()) {
			case "(cosmossdk.io/math.Int).GTE":
				return isAccLoad(c.Call.Args[0]) && isMinVal(c.Call.Args[1])
			case "(cosmossdk.io/math.Int).LTE": // min.LTE(acc): the same relation written from the other side
				return isMinVal(c.Call.Args[0]) && isAccLoad(c.Call.Args[1])
			}
			return false
		case "down": // !missing.IsPositive()
			n, ok := v.(*ssa.UnOp)
			if !ok || n.Op != token.NOT {
				return false
			}
			c, ok := n.X.(*ssa.Call)
			return ok && CalleeName(c.Common()) == "(cosmossdk.io/math.Int).IsPositive" && len(c.Call.Args) == 1 && isAccLoad(c.Call.Args[0])
		}
		return false
	}
	for _, ret := range SuccessReturns(hm) {
		v := ResultOf(ret, 0)
		if c, isConst := v.(*ssa.Const); isConst && c.Value != nil && c.Value.String() == "false" {
			continue
		}
		nRet++
		if !verdictOK(v) {
			okRet, detRet = false, clip(tm.Of(v).String(), 120)
		}
	}
	for _, ret := range allReturns(cb) {
		// the callback's stop flag: a constant, or the same verdict (short circuit)
		if len(ret.Results) == 1 {
			if _, isConst := ret.Results[0].(*ssa.Const); !isConst && !verdictOK(ret.Results[0]) {
				okRet, detRet = false, "short circuit: "+clip(tm.Of(ret.Results[0]).String(), 120)
			}
		}
	}
	r.check(okRet && nRet >= 1, rule, "(x/reporter/keeper.Keeper).HasMin # the verdict is 'the bonded amount reaches the minimum' (holding exactly the minimum is enough)", P.Pos(hm.Pos()), fmt.Sprintf("%d verdict returns, counting %s %s", nRet, direction, detRet))
}

func allReturns(fn *ssa.Function) []*ssa.Return {
	var out []*ssa.Return
	for _, b := range fn.Blocks {
		if len(b.Instrs) == 0 {
			continue
		}
		if ret, ok := b.Instrs[len(b.Instrs)-1].(*ssa.Return); ok {
			out = append(out, ret)
		}
	}
	return out
}

// checkRemoveOnlyOverCap: Selectors.Remove in RemoveSelector happens only for a reporter that holds more selectors
// than the cap (which the join guards never allow: the removal is the exception for a lowered cap).
func checkRemoveOnlyOverCap(r *Result, rule, what string) {
	P := r.P
	if rs := P.Func("(x/reporter/keeper.msgServer).RemoveSelector"); rs == nil {
		r.broken("anchor RemoveSelector does not resolve")
	} else {
		r.fn("(x/reporter/keeper.msgServer).RemoveSelector")
		ps := AnalyzePaths(rs, []Atom{{Name: "hasMin", Stable: true, Cond: func(rel *Term) (bool, bool) {
			// the one HasMin result is tested twice (`if hasMin {return}` ... `if !hasMin {`): a stable atom, so
			// that the branch that skips the cap test is known to be infeasible
			return rel.Op == "ext:0" && len(rel.Args) == 1 && strings.HasSuffix(rel.Args[0].Op, "Keeper).HasMin"), true
		}}, {Name: "overCap", Cond: func(rel *Term) (bool, bool) {
			if len(rel.Args) != 2 {
				return false, true
			}
			isLen := func(t *Term) bool {
				return strings.HasPrefix(t.Op, "len") || t.Contains("len") && !t.Contains("MaxSelectors")
			}
			isCap := func(t *Term) bool { return t.Contains("Params.MaxSelectors") }
			a, b := rel.Args[0], rel.Args[1]
			switch {
			case rel.Op == "<=" && isLen(a) && isCap(b): // len <= cap : over the cap when false
				return true, false
			case rel.Op == "<" && isCap(a) && isLen(b): // cap < len : over the cap when true
				return true, true
			}
			return false, true
		}}})
		n := 0
		for _, cs := range P.Sites(descIs("coll:x/reporter/keeper.Keeper.Selectors.Remove")) {
			if TopFunc(cs.Fn) != rs {
				continue
			}
			n++
			bad := ps.Require(cs.Instr, func(v map[string]bool) bool { return v["overCap"] })
			r.check(len(bad) == 0 && len(ps.Matched["overCap"]) > 0, rule, "(x/reporter/keeper.msgServer).RemoveSelector # "+what, P.Pos(cs.Pos()), fmt.Sprintf("valuations: %v", statesStr(ps, cs.Instr)))
		}
		r.check(n == 1, rule, "(x/reporter/keeper.msgServer).RemoveSelector # one removal site", P.Pos(rs.Pos()), fmt.Sprint(n))
	}
}
