package main

// C06 — the aggregate is the weighted median / weighted mode of the reports
// (shape of the selection and of the assembly; not the numeric result for every multiset).

import (
	"fmt"
	"go/ast"
	"go/token"
	"go/types"
	"sort"
	"strings"

	"golang.org/x/tools/go/ssa"
)

func init() { register("C06", checkC06) }

// sumWebAny resolves a running sum built from phis and X.Add(web, addend) calls (Int or LegacyDec).
func sumWebAny(v ssa.Value) (adds []*ssa.Call, bases []ssa.Value) {
	seen := map[ssa.Value]bool{}
	var walk func(x ssa.Value)
	walk = func(x ssa.Value) {
		if seen[x] {
			return
		}
		seen[x] = true
		switch y := x.(type) {
		case *ssa.Phi:
			for _, e := range y.Edges {
				walk(e)
			}
			return
		case *ssa.Call:
			n := CalleeName(y.Common())
			if (n == "(cosmossdk.io/math.LegacyDec).Add" || n == "(cosmossdk.io/math.Int).Add") && len(y.Call.Args) == 2 {
				walk(y.Call.Args[0])
				adds = append(adds, y)
				return
			}
		}
		bases = append(bases, x)
	}
	walk(v)
	return
}

// peelBigInt strips .BigInt() from a LegacyDec / Int.
func peelBigInt(v ssa.Value) ssa.Value {
	if c, ok := v.(*ssa.Call); ok {
		n := CalleeName(c.Common())
		if (n == "(cosmossdk.io/math.LegacyDec).BigInt" || n == "(cosmossdk.io/math.Int).BigInt") && len(c.Call.Args) == 1 {
			return c.Call.Args[0]
		}
	}
	return v
}

// cmpOf recognises `x REL y` in the forms big.Int.Cmp(x,y) REL 0 and x.GTE/GT/LT/LTE(y); returns the relation with x on the left.
func cmpOf(cond ssa.Value) (x, y ssa.Value, rel string, ok bool) {
	switch c := cond.(type) {
	case *ssa.BinOp:
		call, isCall := c.X.(*ssa.Call)
		k, isConst := c.Y.(*ssa.Const)
		if isCall && isConst && CalleeName(call.Common()) == "(*math/big.Int).Cmp" && k.Value != nil && k.Value.ExactString() == "0" {
			rel := map[token.Token]string{token.GEQ: ">=", token.GTR: ">", token.LSS: "<", token.LEQ: "<=", token.EQL: "==", token.NEQ: "!="}[c.Op]
			return peelBigInt(call.Call.Args[0]), peelBigInt(call.Call.Args[1]), rel, rel != ""
		}
	case *ssa.Call:
		n := CalleeName(c.Common())
		for _, p := range []string{"(cosmossdk.io/math.LegacyDec).", "(cosmossdk.io/math.Int)."} {
			if strings.HasPrefix(n, p) && len(c.Call.Args) == 2 {
				rel := map[string]string{"GTE": ">=", "GT": ">", "LT": "<", "LTE": "<="}[strings.TrimPrefix(n, p)]
				if rel != "" {
					return c.Call.Args[0], c.Call.Args[1], rel, true
				}
			}
		}
	}
	return nil, nil, "", false
}

// firstPhi finds the (unique) phi below v through calls/conversions.
func firstPhi(v ssa.Value, d int) *ssa.Phi {
	if d > 6 || v == nil {
		return nil
	}
	switch x := v.(type) {
	case *ssa.Phi:
		return x
	case *ssa.Call:
		for _, a := range x.Call.Args {
			if p := firstPhi(a, d+1); p != nil {
				return p
			}
		}
	case *ssa.Convert:
		return firstPhi(x.X, d+1)
	case *ssa.ChangeType:
		return firstPhi(x.X, d+1)
	}
	return nil
}

// aggregateFieldStores: stores into fields of an x/oracle/types.Aggregate alloc in fn: field -> stored values.
func aggregateFieldStores(fn *ssa.Function) map[string][]ssa.Value {
	out := map[string][]ssa.Value{}
	for _, b := range fn.Blocks {
		for _, in := range b.Instrs {
			if st, ok := in.(*ssa.Store); ok {
				if fa, ok := st.Addr.(*ssa.FieldAddr); ok {
					fname := fieldName(fa.X.Type(), fa.Field)
					if strings.HasPrefix(fname, "x/oracle/types.Aggregate.") {
						f := strings.TrimPrefix(fname, "x/oracle/types.Aggregate.")
						out[f] = append(out[f], st.Val)
					}
				}
			}
		}
	}
	return out
}

// elementBase: for a Term field:MicroReport.F(base) returns base rendering; "" otherwise.
func elementBase(t *Term, field string) string {
	if strings.HasSuffix(t.Op, "MicroReport."+field) && len(t.Args) == 1 {
		return t.Args[0].String()
	}
	return ""
}

func checkC06(r *Result) {
	P := r.P
	r.Explanation = "Structural rules of the two aggregation functions and their dispatch, decided on SSA and the syntax tree: the median sorts the report slice it later walks, stably, by the numeric value of each report's own entry; the total is the sum of every report's power (added on every iteration) and the half is exactly total/2 without truncation; the cumulative sum adds the walked report's power before the comparison, the comparison is cumulative >= half, and the first report satisfying it is taken (the walk is left); value, reporter, query id, height and index of the aggregate all come from that one report and its loop index; every report is listed once with its own reporter, power and height, and the recorded power is the total. The mode counts each value with its reporters' power, takes the maximal count with a deterministic tie-break, names as reporter a report whose value equals the mode and whose power is maximal among those, takes all published fields from that one report, lists every report and records the power sum. The dispatch selects the median exactly for reports recorded as weighted-median."
	r.NotDecided = "that the selected value is the weighted median / mode for every multiset of reports (numeric behaviour of sort, big-int parsing, int64 narrowing of powers above 2^63, values compared as raw strings by the mode), independence from arrival order beyond the comparator rules of C01"
	r.Assumptions = []string{"sort.SliceStable sorts by the comparator", "at most one report per reporter per round (C07 keying)"}
	r.rule("MEDIAN-SORT", "the slice walked by the selection is the slice that was sorted ascending by numeric value, before the walk")
	r.rule("MEDIAN-HALF", "half = (sum of all reports' powers) / 2, exact; the recorded power is that sum")
	r.rule("MEDIAN-SELECT", "cumulative power includes the walked report, is compared with >= half, and the first hit ends the walk")
	r.rule("SAME-ORIGIN", "the published value and the named reporter come from one and the same report")
	r.rule("ALL-REPORTS", "every report is listed exactly once with its own reporter and power; the recorded power is the sum")
	r.rule("MODE-COUNT", "each report adds its power to the count of its own value; a value of maximal count is kept (determinism of ties is C01)")
	r.rule("MODE-REPORTER", "the named reporter reported the mode value")
	r.rule("DISPATCH", "weighted-median reports are aggregated by the median, all others by the mode")

	tm := NewTermer()
	pos := func(p token.Pos) string { return P.Pos(p) }
	need := func(name string) *ssa.Function {
		f := P.Func(name)
		if f == nil {
			r.broken("anchor %s does not resolve", name)
		} else {
			r.fn(name)
		}
		return f
	}
	isPowerDec := func(v ssa.Value) bool {
		t := tm.Of(v)
		return strings.Contains(t.String(), "MicroReport.Power") && (strings.HasPrefix(t.Op, "call:cosmossdk.io/math.LegacyNewDec") || strings.HasPrefix(t.Op, "call:cosmossdk.io/math.NewInt"))
	}

	// ---------------- median
	if wm := need("(x/oracle/keeper.Keeper).WeightedMedian"); wm != nil {
		// the selection comparison
		var selIf *ssa.If
		var cum, half ssa.Value
		var rel string
		for _, b := range wm.Blocks {
			if len(b.Instrs) == 0 {
				continue
			}
			if iff, ok := b.Instrs[len(b.Instrs)-1].(*ssa.If); ok && inLoop(wm, b) {
				if x, y, rl, ok := cmpOf(iff.Cond); ok {
					if strings.Contains(tm.Of(x).String(), "MicroReport.Power") || firstPhi(x, 0) != nil {
						if _, isSum := x.(*ssa.Call); isSum || firstPhi(x, 0) != nil {
							selIf, cum, half, rel = iff, x, y, rl
						}
					}
				}
			}
		}
		if selIf == nil {
			r.bad("MEDIAN-SELECT", "(x/oracle/keeper.Keeper).WeightedMedian # a comparison of cumulative power with half of the total exists", pos(wm.Pos()), "not found")
		} else {
			// half
			le := &linEval{Atomise: func(t *Term) string {
				if t.Op == "phi" {
					return "TOTAL"
				}
				return ""
			}}
			hp := le.Eval(tm.Of(half))
			r.check(hp.String() == "1/2 * TOTAL^1" && !hp.Trunc, "MEDIAN-HALF", "(x/oracle/keeper.Keeper).WeightedMedian # half is total/2 without truncation", pos(selIf.Cond.Pos()), fmt.Sprintf("%s (truncating: %v)", hp.String(), hp.Trunc))
			totalPhi := firstPhi(half, 0)
			if totalPhi == nil {
				r.bad("MEDIAN-HALF", "(x/oracle/keeper.Keeper).WeightedMedian # total is a running sum", pos(selIf.Cond.Pos()), "no loop-carried value under the half")
			} else {
				adds, bases := sumWebAny(totalPhi)
				ok := len(adds) == 1 && len(bases) == 1 && isPowerDec(adds[0].Call.Args[1])
				if ok {
					z := tm.Of(bases[0]).Op
					ok = z == "call:cosmossdk.io/math.LegacyZeroDec" || z == "call:cosmossdk.io/math.ZeroInt"
				}
				every, why := false, ""
				if len(adds) == 1 {
					every, why = iterationOfInnermostLoopPasses(wm, adds[0])
				}
				r.check(ok && every, "MEDIAN-HALF", "(x/oracle/keeper.Keeper).WeightedMedian # total = sum over every report of its power", pos(totalPhi.Pos()), fmt.Sprintf("addends %d, bases %d, every iteration: %v %s", len(adds), len(bases), every, why))
				// the recorded power is the total
				for _, v := range aggregateFieldStores(wm)["ReporterPower"] {
					r.check(firstPhi(v, 0) == totalPhi, "MEDIAN-HALF", "(x/oracle/keeper.Keeper).WeightedMedian # recorded reporter power is the total", pos(v.Pos()), tm.Of(v).Brief())
				}
			}
			// cumulative
			adds, bases := sumWebAny(cum)
			okCum := len(adds) == 1 && len(bases) == 1 && isPowerDec(adds[0].Call.Args[1]) && ssa.Value(adds[0]) == cum
			if okCum {
				z := tm.Of(bases[0]).Op
				okCum = z == "call:cosmossdk.io/math.LegacyZeroDec" || z == "call:cosmossdk.io/math.ZeroInt"
			}
			r.check(okCum, "MEDIAN-SELECT", "(x/oracle/keeper.Keeper).WeightedMedian # the compared quantity is the running sum including the walked report's power", pos(selIf.Cond.Pos()), fmt.Sprintf("addends %d, bases %d, compared value is the updated sum: %v", len(adds), len(bases), len(adds) == 1 && ssa.Value(adds[0]) == cum))
			// `if cum < half { continue }` is the same test with its branches exchanged
			hitIdx := 0
			if rel == "<" {
				rel, hitIdx = ">=", 1
			}
			r.check(rel == ">=", "MEDIAN-SELECT", "(x/oracle/keeper.Keeper).WeightedMedian # comparison is cumulative >= half", pos(selIf.Cond.Pos()), "cumulative "+rel+" half")
			hit := selIf.Block().Succs[hitIdx]
			r.check(!inLoop(wm, hit), "MEDIAN-SELECT", "(x/oracle/keeper.Keeper).WeightedMedian # the first report reaching half ends the walk", pos(selIf.Cond.Pos()), fmt.Sprintf("hit block %d in loop: %v", hit.Index, inLoop(wm, hit)))
			// SAME-ORIGIN: stores happen in blocks dominated by the hit block
			st := aggregateFieldStores(wm)
			bases2 := map[string]bool{}
			want := map[string]string{"AggregateReporter": "Reporter", "AggregateValue": "Value"}
			var fields []string
			for f := range want {
				fields = append(fields, f)
			}
			sort.Strings(fields)
			for _, f := range fields {
				vs := st[f]
				ok := len(vs) == 1
				det := fmt.Sprintf("%d stores", len(vs))
				if ok {
					t := tm.Of(vs[0])
					b := elementBase(t, want[f])
					in, _ := vs[0].(ssa.Instruction)
					ok = b != "" && in != nil && hit.Dominates(in.Block())
					bases2[b] = true
					det = t.Brief()
				}
				r.check(ok, "SAME-ORIGIN", "(x/oracle/keeper.Keeper).WeightedMedian # "+f+" is the "+want[f]+" of the selected report", pos(selIf.Cond.Pos()), det)
			}
			r.check(len(bases2) == 1, "SAME-ORIGIN", "(x/oracle/keeper.Keeper).WeightedMedian # all published fields come from one report", pos(selIf.Cond.Pos()), fmt.Sprintf("%d distinct source elements", len(bases2)))
			// MEDIAN-SORT: the walked slice is the sorted slice, sorted before
			var sortCall *ssa.Call
			for _, cs := range P.CallSitesIn(wm) {
				if cs.Callee == "sort.SliceStable" || cs.Callee == "sort.Slice" || cs.Callee == "sort.Stable" {
					if c, ok := cs.Instr.(*ssa.Call); ok && cs.Fn == wm {
						sortCall = c
					}
				}
			}
			if sortCall == nil {
				r.bad("MEDIAN-SORT", "(x/oracle/keeper.Keeper).WeightedMedian # the reports are sorted", pos(wm.Pos()), "no sort call")
			} else {
				sorted := tm.Of(stripIface(sortCall.Call.Args[0])).String()
				var base string
				for b := range bases2 {
					base = b
				}
				r.check(sorted != "" && strings.Contains(base, sorted) && strings.HasPrefix(sorted, "param:2:"), "MEDIAN-SORT", "(x/oracle/keeper.Keeper).WeightedMedian # the walk goes over the slice that was sorted", pos(sortCall.Pos()), "sorted "+clip(sorted, 80)+" ; walked element "+clip(base, 100))
				r.check(sortCall.Block().Dominates(selIf.Block()) && !inLoop(wm, sortCall.Block()), "MEDIAN-SORT", "(x/oracle/keeper.Keeper).WeightedMedian # sorted before the walk", pos(sortCall.Pos()), "")
				// comparator shape (syntax): values[reports[i].Reporter] ... Cmp ... values[reports[j].Reporter] < 0
				ok, det := medianComparatorShape(P, wm)
				r.check(ok, "MEDIAN-SORT", "(x/oracle/keeper.Keeper).WeightedMedian # comparator orders report i before j iff value(i) < value(j), each looked up under the report's own reporter", pos(sortCall.Pos()), det)
			}
		}
		// ALL-REPORTS
		allReportsRule(r, P, wm, tm)
		// value table: values[r.Reporter] = parsed r.Value of the same element
		n := 0
		for _, b := range wm.Blocks {
			for _, in := range b.Instrs {
				if mu, ok := in.(*ssa.MapUpdate); ok {
					n++
					k, v := tm.Of(mu.Key), tm.Of(mu.Value)
					kb := elementBase(k, "Reporter")
					val := v.Find(func(t *Term) bool { return strings.HasSuffix(t.Op, "MicroReport.Value") })
					r.check(kb != "" && val != nil && len(val.Args) == 1 && val.Args[0].String() == kb, "MEDIAN-SORT", "(x/oracle/keeper.Keeper).WeightedMedian # the value table maps a report's reporter to that report's parsed value", pos(mu.Pos()), k.Brief()+" -> "+clip(v.Brief(), 100))
				}
			}
		}
		r.check(n == 1, "MEDIAN-SORT", "(x/oracle/keeper.Keeper).WeightedMedian # one value-table write", pos(wm.Pos()), fmt.Sprint(n))
	}
	// ---------------- mode
	if md := need("(x/oracle/keeper.Keeper).WeightedMode"); md != nil {
		// MODE-COUNT: map update freq[r.Value] = freq[r.Value] + 1 inside a loop bounded by r.Power
		n := 0
		for _, b := range md.Blocks {
			for _, in := range b.Instrs {
				mu, ok := in.(*ssa.MapUpdate)
				if !ok {
					continue
				}
				n++
				k, v := tm.Of(mu.Key), tm.Of(mu.Value)
				kb := elementBase(k, "Value")
				okInc := v.Op == "+" && len(v.Args) == 2 && v.Args[1].Op == "const:1" && strings.Contains(v.Args[0].String(), k.String())
				// innermost loop bound
				var h *ssa.BasicBlock
				for _, c := range loopHeaders(md) {
					if c.Dominates(b) && (h == nil || h.Dominates(c)) && inLoop(md, b) {
						h = c
					}
				}
				okBound, bound := false, ""
				if h != nil {
					if iff, ok := h.Instrs[len(h.Instrs)-1].(*ssa.If); ok {
						c := tm.Of(iff.Cond)
						bound = c.Brief()
						pw := c.Find(func(t *Term) bool { return strings.HasSuffix(t.Op, "MicroReport.Power") })
						okBound = c.Op == "<" && pw != nil && len(pw.Args) == 1 && pw.Args[0].String() == kb
					}
				}
				r.check(kb != "" && okInc && okBound, "MODE-COUNT", "(x/oracle/keeper.Keeper).WeightedMode # a report adds one per unit of its own power to the count of its own value", pos(mu.Pos()), "key "+k.Brief()+" ; value "+clip(v.Brief(), 80)+" ; inner loop bound "+clip(bound, 100))
				if h != nil {
					ok, why := iterationOfInnermostLoopPasses(md, mu)
					r.check(ok, "MODE-COUNT", "(x/oracle/keeper.Keeper).WeightedMode # every unit of power is counted", pos(mu.Pos()), why)
				}
			}
		}
		r.check(n == 1, "MODE-COUNT", "(x/oracle/keeper.Keeper).WeightedMode # one count update", pos(md.Pos()), fmt.Sprint(n))
		// argmax over the map: syntax-level idiom of C01 (deterministic tie-break) + the winner's key is what is kept
		ok, det := modeArgmaxShape(P, md)
		r.check(ok, "MODE-COUNT", "(x/oracle/keeper.Keeper).WeightedMode # the kept value has maximal count; equal counts are resolved by comparing the values", pos(md.Pos()), det)
		// MODE-REPORTER
		st := aggregateFieldStores(md)
		want := map[string]string{"AggregateReporter": "Reporter", "AggregateValue": "Value"}
		srcs := map[string]bool{}
		var fields []string
		for f := range want {
			fields = append(fields, f)
		}
		sort.Strings(fields)
		var modeAlloc *ssa.Alloc
		for _, f := range fields {
			vs := st[f]
			ok := len(vs) == 1
			det := fmt.Sprintf("%d stores", len(vs))
			if ok {
				ok = false
				if ld, isLoad := vs[0].(*ssa.UnOp); isLoad {
					if fa, isFA := ld.X.(*ssa.FieldAddr); isFA {
						if al, isAl := fa.X.(*ssa.Alloc); isAl && strings.HasSuffix(fieldName(fa.X.Type(), fa.Field), "MicroReport."+want[f]) {
							ok = true
							modeAlloc = al
							srcs[al.Name()] = true
						}
					}
				}
				det = tm.Of(vs[0]).Brief()
			}
			r.check(ok, "SAME-ORIGIN", "(x/oracle/keeper.Keeper).WeightedMode # "+f+" is the "+want[f]+" of the chosen report", pos(md.Pos()), det)
		}
		r.check(len(srcs) == 1, "SAME-ORIGIN", "(x/oracle/keeper.Keeper).WeightedMode # all published fields come from one report", pos(md.Pos()), fmt.Sprintf("%d distinct source reports", len(srcs)))
		if modeAlloc != nil {
			// the stores into the chosen-report variable: under value == mode and power > best so far
			ps := AnalyzePaths(md, []Atom{
				{Name: "isMode", Cond: func(rel *Term) (bool, bool) {
					return rel.Op == "==" && len(rel.Args) == 2 && (strings.HasSuffix(rel.Args[1].Op, "MicroReport.Value") || strings.HasSuffix(rel.Args[0].Op, "MicroReport.Value")), true
				}},
				{Name: "stronger", Cond: func(rel *Term) (bool, bool) {
					return rel.Op == "<" && len(rel.Args) == 2 && strings.HasSuffix(rel.Args[1].Op, "MicroReport.Power") && rel.Args[0].Op == "phi", true
				}},
			})
			nst := 0
			for _, ref := range *modeAlloc.Referrers() {
				st, ok := ref.(*ssa.Store)
				if !ok || st.Addr != ssa.Value(modeAlloc) {
					continue
				}
				if _, isZero := st.Val.(*ssa.Const); isZero {
					continue
				}
				nst++
				bad := ps.Require(st, func(v map[string]bool) bool { return v["isMode"] })
				r.check(len(bad) == 0 && len(ps.Matched["isMode"]) > 0, "MODE-REPORTER", "(x/oracle/keeper.Keeper).WeightedMode # a report becomes the named one only if its value equals the mode", pos(st.Pos()), fmt.Sprint(statesStr(ps, st)))
			}
			r.check(nst == 1, "MODE-REPORTER", "(x/oracle/keeper.Keeper).WeightedMode # one assignment of the named report", pos(md.Pos()), fmt.Sprint(nst))
		}
		// power sum
		for _, v := range st["ReporterPower"] {
			adds, bases, other := uintSumWeb(v)
			ok := len(other) == 0 && len(bases) == 1 && bases[0] == "0:uint64" && len(adds) == 1 && strings.HasSuffix(adds[0].Op, "MicroReport.Power")
			r.check(ok, "ALL-REPORTS", "(x/oracle/keeper.Keeper).WeightedMode # recorded reporter power is the sum of every report's power", pos(v.Pos()), fmt.Sprintf("bases %v addends %d other %v", bases, len(adds), other))
			var addI ssa.Instruction
			for _, b := range md.Blocks {
				for _, in := range b.Instrs {
					if bo, ok := in.(*ssa.BinOp); ok && bo.Op == token.ADD && strings.HasSuffix(tm.Of(bo.Y).Op, "MicroReport.Power") {
						addI = bo
					}
				}
			}
			if addI != nil {
				ok, why := iterationOfInnermostLoopPasses(md, addI)
				r.check(ok, "ALL-REPORTS", "(x/oracle/keeper.Keeper).WeightedMode # every report adds its power", pos(addI.Pos()), why)
			}
		}
		allReportsRule(r, P, md, tm)
	}
	// ---------------- dispatch
	nDisp := 0
	for _, fn := range P.RepoFuncs {
		for _, b := range fn.Blocks {
			for _, in := range b.Instrs {
				ph, ok := in.(*ssa.Phi)
				if !ok || len(ph.Edges) != 2 {
					continue
				}
				names := map[string]int{}
				for i, e := range ph.Edges {
					if mc, ok := e.(*ssa.MakeClosure); ok {
						names[FuncName(mc.Fn.(*ssa.Function))] = i
					}
				}
				mi, okM := names["(x/oracle/keeper.Keeper).WeightedMedian$bound"]
				_, okD := names["(x/oracle/keeper.Keeper).WeightedMode$bound"]
				if !okM || !okD {
					continue
				}
				nDisp++
				r.fn(FuncName(TopFunc(fn)))
				// the edge carrying the median comes from the true branch of AggregateMethod == "weighted-median"
				pred := ph.Block().Preds[mi]
				okCond, det := false, ""
				dominatingCondsEdge(pred, ph.Block(), tm, func(rel *Term, truth bool) bool {
					if rel.Op == "==" && len(rel.Args) == 2 {
						a, c := rel.Args[0], rel.Args[1]
						if c.Op != "const:weighted-median" {
							a, c = c, a
						}
						if c.Op == "const:weighted-median" && strings.HasSuffix(a.Op, "MicroReport.AggregateMethod") {
							okCond = truth
							det = fmt.Sprintf("%s == weighted-median is %v on the median edge", a.Brief(), truth)
							return false
						}
					}
					return true
				})
				r.check(okCond, "DISPATCH", FuncName(TopFunc(fn))+" # the median is selected exactly under AggregateMethod == \"weighted-median\"", pos(ph.Pos()), det)
			}
		}
	}
	r.check(nDisp == 1, "DISPATCH", "one dispatch site between the two aggregation functions", "-", fmt.Sprint(nDisp))
	// the function that is called is chosen in the same iteration: the called value is not carried around the loop
	for _, fn := range P.RepoFuncs {
		for _, b := range fn.Blocks {
			for _, in := range b.Instrs {
				c, ok := in.(*ssa.Call)
				if !ok || c.Call.IsInvoke() || c.Call.StaticCallee() != nil {
					continue
				}
				callees := P.CalleesOfCall(c)
				isAgg := false
				for _, ce := range callees {
					n := FuncName(ce)
					if strings.Contains(n, "WeightedMedian") || strings.Contains(n, "WeightedMode") {
						isAgg = true
					}
				}
				if !isAgg {
					continue
				}
				carried := false
				seen := map[ssa.Value]bool{}
				var walk func(v ssa.Value)
				walk = func(v ssa.Value) {
					if seen[v] {
						return
					}
					seen[v] = true
					if ph, ok := v.(*ssa.Phi); ok {
						for _, h := range loopHeaders(fn) {
							if ph.Block() == h {
								carried = true
							}
						}
						for _, e := range ph.Edges {
							walk(e)
						}
					}
				}
				walk(c.Call.Value)
				r.check(!carried, "DISPATCH", FuncName(TopFunc(fn))+" # the aggregation function called for a query is selected for that query (not carried over from the previous one)", pos(c.Pos()), fmt.Sprintf("called value is loop-carried: %v", carried))
			}
		}
	}
	// the dispatch compares the method string exactly: the permissionless registration stores it in the dispatcher's
	// spelling (lower case) and admits it only if that spelling is one of the supported methods
	if rs := P.Func("(x/registry/keeper.msgServer).RegisterSpec"); rs == nil {
		r.broken("anchor RegisterSpec does not resolve")
	} else {
		r.fn(FuncName(rs))
		tmr := NewTermer()
		normalised := P.InstrEvent(func(in ssa.Instruction) bool {
			st, ok := in.(*ssa.Store)
			if !ok {
				return false
			}
			fa, ok := st.Addr.(*ssa.FieldAddr)
			if !ok || fieldName(fa.X.Type(), fa.Field) != "x/registry/types.DataSpec.AggregationMethod" {
				return false
			}
			v := tmr.Of(st.Val)
			return v.Op == "call:strings.ToLower" && v.Contains("DataSpec.AggregationMethod")
		}, T)
		ps := AnalyzePaths(rs, []Atom{
			{Name: "normalised", Event: normalised},
			{Name: "supported", Stable: true, Cond: func(rel *Term) (bool, bool) {
				// SupportedAggregationMethod[spec.AggregationMethod] (a map lookup used as condition)
				if rel.Op == "lookup" && rel.Contains("SupportedAggregationMethod") && rel.Contains("DataSpec.AggregationMethod") && !rel.Contains("strings.") {
					return true, true
				}
				return false, false
			}},
		})
		n := 0
		for _, cs := range P.CallSitesIn(rs) {
			if cs.Callee == "(x/registry/keeper.Keeper).SetDataSpec" {
				n++
				bad := ps.Require(cs.Instr, func(v map[string]bool) bool { return v["normalised"] && v["supported"] })
				r.check(len(bad) == 0 && len(ps.Matched["supported"]) > 0, "DISPATCH", "(x/registry/keeper.msgServer).RegisterSpec # a spec is stored with its aggregation method lower-cased and found, in that spelling, among the supported methods", pos(cs.Pos()), fmt.Sprintf("valuations: %v", statesStr(ps, cs.Instr)))
			}
		}
		r.check(n == 1, "DISPATCH", "(x/registry/keeper.msgServer).RegisterSpec # one SetDataSpec site", pos(rs.Pos()), fmt.Sprint(n))
	}
	r.minCount("MEDIAN-SORT", 5)
	r.minCount("MEDIAN-HALF", 3)
	r.minCount("MEDIAN-SELECT", 3)
	r.minCount("SAME-ORIGIN", 6)
	r.minCount("ALL-REPORTS", 4)
	r.minCount("MODE-COUNT", 4)
	r.minCount("MODE-REPORTER", 2)
	r.minCount("DISPATCH", 3)
}

// allReportsRule: one append of an AggregateReporter per iteration over the reports, fields from the same element.
func allReportsRule(r *Result, P *Prog, fn *ssa.Function, tm *termer) {
	n := 0
	name := FuncName(fn)
	for _, b := range fn.Blocks {
		for _, in := range b.Instrs {
			c, ok := in.(*ssa.Call)
			if !ok {
				continue
			}
			bi, ok := c.Call.Value.(*ssa.Builtin)
			if !ok || bi.Name() != "append" || !strings.Contains(c.Type().String(), "AggregateReporter") {
				continue
			}
			n++
			els := variadicElemValues(c.Call.Args[1])
			okEl, det := false, ""
			if len(els) == 1 {
				if al, ok := stripIface(els[0]).(*ssa.Alloc); ok {
					got := map[string]string{}
					for i, f := range []string{"Reporter", "Power", "BlockNumber"} {
						if v := singleFieldStore(al, i); v != nil {
							got[f] = elementBase(tm.Of(v), f)
						}
					}
					okEl = got["Reporter"] != "" && got["Reporter"] == got["Power"]
					det = fmt.Sprintf("element sources equal: %v", okEl)
				}
			}
			every, why := iterationOfInnermostLoopPasses(fn, c)
			r.check(okEl && every, "ALL-REPORTS", name+" # every report is appended once with its own reporter and power", P.Pos(c.Pos()), det+" ; "+why)
		}
	}
	r.check(n == 1, "ALL-REPORTS", name+" # one append site for the reporter list", P.Pos(fn.Pos()), fmt.Sprint(n))
}

// medianComparatorShape checks the comparator closure of the stable sort on SSA value descriptors:
// it returns value(i) < value(j) where value(x) is the value-table entry under the reporter of element x
// of the sorted slice, i and j being the comparator's two parameters in this order.
func medianComparatorShape(P *Prog, fn *ssa.Function) (bool, string) {
	tm := NewTermer()
	for _, cl := range fn.AnonFuncs {
		if len(cl.Params) != 2 || cl.Signature.Results().Len() != 1 || !usedAsSortLess(cl) {
			continue
		}
		okAll, det := true, ""
		n := 0
		for _, b := range cl.Blocks {
			for _, in := range b.Instrs {
				ret, ok := in.(*ssa.Return)
				if !ok {
					continue
				}
				n++
				t := tm.Of(ret.Results[0])
				det = clip(t.String(), 260)
				var A, B *Term
				if t.Op == "<" && len(t.Args) == 2 {
					if t.Args[0].Op == "call:(*math/big.Int).Cmp" && t.Args[1].Op == "const:0" && len(t.Args[0].Args) == 2 {
						A, B = t.Args[0].Args[0], t.Args[0].Args[1]
					} else {
						A, B = t.Args[0], t.Args[1]
					}
				}
				side := func(x *Term, param string) bool {
					if x == nil {
						return false
					}
					lk := x.Find(func(y *Term) bool { return y.Op == "lookup" })
					if lk == nil || len(lk.Args) != 2 {
						return false
					}
					key := lk.Args[1]
					if !strings.HasSuffix(key.Op, "MicroReport.Reporter") || len(key.Args) != 1 {
						return false
					}
					idx := key.Args[0]
					return idx.Op == "index" && len(idx.Args) == 2 && strings.HasPrefix(idx.Args[1].Op, param)
				}
				if !(side(A, "param:0:") && side(B, "param:1:")) {
					okAll = false
				}
			}
		}
		return okAll && n == 1, det
	}
	return false, "no comparator closure"
}

// modeArgmaxShape: the range over the count map keeps (count, key) of a strictly larger count, or of an
// equal count decided by comparing the keys; checked on the syntax tree by object identity (operand order
// and parentheses do not matter).
func modeArgmaxShape(P *Prog, fn *ssa.Function) (bool, string) {
	body := funcBody(fn)
	info := P.infoFor(fn)
	if body == nil || info == nil {
		return false, "no syntax"
	}
	obj := func(e ast.Expr) types.Object {
		if id, ok := stripParens(e).(*ast.Ident); ok {
			if o := info.Uses[id]; o != nil {
				return o
			}
			return info.Defs[id]
		}
		return nil
	}
	ok, det := false, "no range over a map with key and value found"
	ast.Inspect(body, func(n ast.Node) bool {
		rs, isR := n.(*ast.RangeStmt)
		if !isR || rs.Key == nil || rs.Value == nil {
			return true
		}
		if _, isMap := info.TypeOf(rs.X).Underlying().(*types.Map); !isMap {
			return true
		}
		k, v := obj(rs.Key), obj(rs.Value)
		if k == nil || v == nil || len(rs.Body.List) != 1 {
			det = "range body is not a single if"
			return false
		}
		ifs, isIf := rs.Body.List[0].(*ast.IfStmt)
		if !isIf || ifs.Else != nil || ifs.Init != nil {
			det = "range body is not a single if"
			return false
		}
		// updates: best := v ; bestKey := k
		var best, bestKey types.Object
		for _, s := range ifs.Body.List {
			as, isAs := s.(*ast.AssignStmt)
			if !isAs || len(as.Lhs) != 1 || as.Tok != token.ASSIGN {
				det = "unexpected statement in the update"
				return false
			}
			switch obj(as.Rhs[0]) {
			case v:
				best = obj(as.Lhs[0])
			case k:
				bestKey = obj(as.Lhs[0])
			default:
				det = "update assigns something other than the ranged count / key"
				return false
			}
		}
		if best == nil || bestKey == nil {
			det = "update does not keep both count and key"
			return false
		}
		// condition: (v > best) || (v == best && k <> bestKey)
		or, isOr := stripParens(ifs.Cond).(*ast.BinaryExpr)
		if !isOr || or.Op != token.LOR {
			// without a tie-break the rule of C01 reports the order dependence; here only "maximal" is decided
			be, isBe := stripParens(ifs.Cond).(*ast.BinaryExpr)
			ok = isBe && ((be.Op == token.GTR && obj(be.X) == v && obj(be.Y) == best) || (be.Op == token.LSS && obj(be.X) == best && obj(be.Y) == v))
			det = exprStr(P.Fset, ifs.Cond) + " ; keeps " + best.Name() + ", " + bestKey.Name()
			return false
		}
		larger := func(e ast.Expr) bool {
			be, ok := stripParens(e).(*ast.BinaryExpr)
			if !ok {
				return false
			}
			return (be.Op == token.GTR && obj(be.X) == v && obj(be.Y) == best) || (be.Op == token.LSS && obj(be.X) == best && obj(be.Y) == v)
		}
		tie := func(e ast.Expr) bool {
			be, ok := stripParens(e).(*ast.BinaryExpr)
			if !ok || be.Op != token.LAND {
				return false
			}
			eq, kc := false, false
			for _, side := range []ast.Expr{be.X, be.Y} {
				sb, ok := stripParens(side).(*ast.BinaryExpr)
				if !ok {
					return false
				}
				a, b := obj(sb.X), obj(sb.Y)
				switch sb.Op {
				case token.EQL:
					eq = (a == v && b == best) || (a == best && b == v)
				case token.LSS, token.GTR:
					kc = (a == k && b == bestKey) || (a == bestKey && b == k)
				}
			}
			return eq && kc
		}
		ok = (larger(or.X) && tie(or.Y)) || (larger(or.Y) && tie(or.X))
		det = exprStr(P.Fset, ifs.Cond) + " ; keeps " + best.Name() + ", " + bestKey.Name()
		return false
	})
	return ok, det
}
