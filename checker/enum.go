package main

// ENUM — exhaustiveness of switches over proto enums (AST + go/types).

import (
	"go/ast"
	"go/constant"
	"go/token"
	"go/types"
	"sort"

	"golang.org/x/tools/go/ssa"
)

type enumSwitch struct {
	TypeName   string
	Tag        string
	Covered    map[string]bool // constant names
	Missing    []string
	ErrDefault bool // has a default clause that returns a non-nil error / panics
	HasDefault bool
	Pos        token.Pos
}

// enumConsts lists the constants declared with the named type in its package.
func enumConsts(named *types.Named) map[string]constant.Value {
	out := map[string]constant.Value{}
	pkg := named.Obj().Pkg()
	if pkg == nil {
		return out
	}
	for _, n := range pkg.Scope().Names() {
		if c, ok := pkg.Scope().Lookup(n).(*types.Const); ok && types.Identical(c.Type(), named) {
			out[n] = c.Val()
		}
	}
	return out
}

// EnumSwitches finds the expression switches of fn whose tag has a named integer type with declared constants.
func (P *Prog) EnumSwitches(fn *ssa.Function) []*enumSwitch {
	body := funcBody(fn)
	info := P.infoFor(fn)
	if body == nil || info == nil {
		return nil
	}
	var out []*enumSwitch
	// an if / else-if chain that compares one expression of an enum type with constants is the same decision written
	// differently: it is read as a switch with the final else as default
	inChain := map[*ast.IfStmt]bool{}
	boolDefs := map[types.Object]ast.Expr{}
	ast.Inspect(body, func(n ast.Node) bool {
		if as, ok := n.(*ast.AssignStmt); ok && as.Tok == token.DEFINE && len(as.Lhs) == len(as.Rhs) {
			for k, l := range as.Lhs {
				if id, ok := l.(*ast.Ident); ok {
					if obj := info.Defs[id]; obj != nil {
						if b, ok := obj.Type().Underlying().(*types.Basic); ok && b.Kind() == types.Bool {
							boolDefs[obj] = as.Rhs[k]
						}
					}
				}
			}
		}
		return true
	})
	restAfter := map[*ast.IfStmt][]ast.Stmt{}
	ast.Inspect(body, func(n ast.Node) bool {
		var list []ast.Stmt
		switch x := n.(type) {
		case *ast.BlockStmt:
			list = x.List
		case *ast.CaseClause:
			list = x.Body
		}
		for i, st := range list {
			if ifs, ok := st.(*ast.IfStmt); ok {
				restAfter[ifs] = list[i+1:]
			}
		}
		return true
	})
	ast.Inspect(body, func(n ast.Node) bool {
		ifs, ok := n.(*ast.IfStmt)
		if !ok || inChain[ifs] {
			return true
		}
		var tag string
		var named *types.Named
		coveredVals := map[string]bool{}
		// cond is X == C (|| X == C ...) over one X of an integer-based named type
		var eat func(e ast.Expr) bool
		eat = func(e ast.Expr) bool {
			switch x := e.(type) {
			case *ast.ParenExpr:
				return eat(x.X)
			case *ast.Ident:
				// a boolean local defined once by a comparison: `isInvalid := r == A || r == B; if isInvalid {`
				if def, ok := boolDefs[info.Uses[x]]; ok {
					return eat(def)
				}
				return false
			case *ast.BinaryExpr:
				if x.Op == token.LOR {
					return eat(x.X) && eat(x.Y)
				}
				if x.Op != token.EQL {
					return false
				}
				for _, pr := range [][2]ast.Expr{{x.X, x.Y}, {x.Y, x.X}} {
					tv, isConst := info.Types[pr[1]]
					if !isConst || tv.Value == nil {
						continue
					}
					nt, isNamed := info.TypeOf(pr[0]).(*types.Named)
					if !isNamed {
						continue
					}
					if b, ok := nt.Underlying().(*types.Basic); !ok || b.Info()&types.IsInteger == 0 {
						continue
					}
					t := exprStr(P.Fset, pr[0])
					if tag != "" && t != tag {
						return false
					}
					tag, named = t, nt
					coveredVals[tv.Value.ExactString()] = true
					return true
				}
			}
			return false
		}
		es := &enumSwitch{Covered: map[string]bool{}, Pos: ifs.Pos()}
		arms := 0
		cur := ifs
		for cur != nil {
			if cur.Init != nil || !eat(cur.Cond) {
				return true
			}
			arms++
			inChain[cur] = true
			switch e := cur.Else.(type) {
			case *ast.IfStmt:
				cur = e
			case *ast.BlockStmt:
				es.HasDefault = true
				es.ErrDefault = clauseFails(e.List)
				cur = nil
			default:
				cur = nil
			}
		}
		if arms < 2 || named == nil {
			return true
		}
		if !es.HasDefault {
			// a chain of returning arms without an else: what follows the chain in its block is the default
			if rest, ok := restAfter[ifs]; ok {
				es.HasDefault = true
				es.ErrDefault = clauseFails(rest)
			}
		}
		all := enumConsts(named)
		if len(all) < 2 {
			return true
		}
		es.TypeName, es.Tag = typeShort(named), tag
		for name, v := range all {
			if coveredVals[v.ExactString()] {
				es.Covered[name] = true
			} else {
				es.Missing = append(es.Missing, name)
			}
		}
		sort.Strings(es.Missing)
		out = append(out, es)
		return true
	})
	ast.Inspect(body, func(n ast.Node) bool {
		sw, ok := n.(*ast.SwitchStmt)
		if !ok || sw.Tag == nil {
			return true
		}
		named, ok := info.TypeOf(sw.Tag).(*types.Named)
		if !ok {
			return true
		}
		if b, ok := named.Underlying().(*types.Basic); !ok || b.Info()&types.IsInteger == 0 {
			return true
		}
		all := enumConsts(named)
		if len(all) < 2 {
			return true
		}
		es := &enumSwitch{TypeName: typeShort(named), Tag: exprStr(P.Fset, sw.Tag), Covered: map[string]bool{}, Pos: sw.Pos()}
		coveredVals := map[string]bool{}
		for _, st := range sw.Body.List {
			cc := st.(*ast.CaseClause)
			if cc.List == nil {
				es.HasDefault = true
				es.ErrDefault = clauseFails(cc.Body)
				continue
			}
			for _, e := range cc.List {
				if tv, ok := info.Types[e]; ok && tv.Value != nil {
					coveredVals[tv.Value.ExactString()] = true
				}
			}
		}
		for name, v := range all {
			if coveredVals[v.ExactString()] {
				es.Covered[name] = true
			} else {
				// another constant with the same value covered?
				es.Missing = append(es.Missing, name)
			}
		}
		sort.Strings(es.Missing)
		out = append(out, es)
		return true
	})
	return out
}

// clauseFails: the clause body ends by returning a non-nil last result or panicking.
func clauseFails(body []ast.Stmt) bool {
	if len(body) == 0 {
		return false
	}
	switch last := body[len(body)-1].(type) {
	case *ast.ReturnStmt:
		if len(last.Results) == 0 {
			return false
		}
		if id, ok := last.Results[len(last.Results)-1].(*ast.Ident); ok && id.Name == "nil" {
			return false
		}
		return true
	case *ast.ExprStmt:
		if c, ok := last.X.(*ast.CallExpr); ok {
			if id, ok := c.Fun.(*ast.Ident); ok && id.Name == "panic" {
				return true
			}
		}
	}
	return false
}
