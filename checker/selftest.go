package main

// Thorough tier: both-ways self test. Each file under /verif/mutants/<ID>/ is a
// small source edit that still type-checks and breaks one rule instance. It is
// applied as a go/packages overlay (nothing is written to /repo), one process per
// variant, and the checker must fire on the named obligation.

import (
	"encoding/json"
	"fmt"
	"os"
	"os/exec"
	"path/filepath"
	"sort"
	"strings"
	"sync"
)

func runThorough(r *Result, id, repo, verif string) map[string]any {
	files, _ := filepath.Glob(filepath.Join(verif, "mutants", id, "*.json"))
	sort.Strings(files)
	// behaviour-preserving variants (expect SILENT): the check must not fire on them
	benign, _ := filepath.Glob(filepath.Join(verif, "benign", id, "*.json"))
	sort.Strings(benign)
	files = append(files, benign...)
	type res struct {
		Name, Outcome, Line string
	}
	results := make([]res, len(files))
	sem := make(chan struct{}, 5)
	var wg sync.WaitGroup
	for i, f := range files {
		wg.Add(1)
		go func(i int, f string) {
			defer wg.Done()
			sem <- struct{}{}
			defer func() { <-sem }()
			cmd := exec.Command(os.Args[0], id, "quick", "--repo", repo, "--verif", verif, "--overlay", f, "--mutant")
			out, err := cmd.CombinedOutput()
			line := ""
			for _, l := range strings.Split(string(out), "\n") {
				if strings.HasPrefix(l, "MUTANT-") {
					line = l
				}
			}
			oc := "error"
			switch {
			case strings.HasPrefix(line, "MUTANT-DETECTED"):
				oc = "detected"
			case strings.HasPrefix(line, "MUTANT-SKIPPED"):
				oc = "skipped"
			case strings.HasPrefix(line, "MUTANT-INVALID"):
				oc = "invalid"
			case strings.HasPrefix(line, "MUTANT-MISSED"):
				oc = "missed"
			case strings.HasPrefix(line, "MUTANT-SILENT"):
				oc = "silent"
			case strings.HasPrefix(line, "MUTANT-FALSE-ALARM"):
				oc = "false-alarm"
			default:
				if err != nil {
					line = fmt.Sprintf("%v: %s", err, lastLines(string(out), 3))
				}
			}
			results[i] = res{filepath.Base(f), oc, line}
		}(i, f)
	}
	wg.Wait()
	det, skipped, silent := 0, 0, 0
	var list []map[string]string
	for _, x := range results {
		list = append(list, map[string]string{"mutant": x.Name, "outcome": x.Outcome, "detail": x.Line})
		switch x.Outcome {
		case "detected":
			det++
		case "silent":
			silent++
		case "false-alarm":
			r.broken("self-test: the check fires on the behaviour-preserving variant %s: %s", x.Name, x.Line)
		case "skipped":
			skipped++ // the anchored text is no longer in /repo (the tree was changed): not a failure
		default:
			r.broken("self-test: seeded variant %s was not detected (%s): %s", x.Name, x.Outcome, x.Line)
		}
		fmt.Printf("self-test %s: %s\n", x.Name, x.Outcome)
	}
	b, _ := json.Marshal(list)
	_ = b
	return map[string]any{
		"selftest_variants": len(files),
		"selftest_detected": det,
		"selftest_skipped":  skipped,
		"selftest_silent_on_behaviour_preserving_variants": silent,
		"selftest_results":      list,
		"disagreements_checked": len(files),
		"selftest_rule":         "each variant is an overlay edit of /repo that still type-checks and breaks exactly one rule instance; the checker must report a violation whose key contains the expected rule instance",
	}
}

func lastLines(s string, n int) string {
	ls := strings.Split(strings.TrimSpace(s), "\n")
	if len(ls) > n {
		ls = ls[len(ls)-n:]
	}
	return strings.Join(ls, " | ")
}
