package main

// C01 — deterministic block execution.
//   DET-MAPRANGE  every range over a map in consensus code is order-insensitive
//   DET-API       no nondeterministic API / construct in consensus code
//   DET-SORT      every sort comparator in consensus code is a strict weak order
//                 (decided by evaluating the comparator over all orderings of its keys)

import (
	"bytes"
	"fmt"
	"go/ast"
	"go/printer"
	"go/token"
	"go/types"
	"sort"
	"strings"

	"golang.org/x/tools/go/ssa"
)

func exprStr(fset *token.FileSet, e ast.Node) string {
	var b bytes.Buffer
	printer.Fprint(&b, fset, e)
	return b.String()
}

// syntaxInfo returns the types.Info for the package declaring fn.
func (P *Prog) infoFor(fn *ssa.Function) *types.Info {
	root := TopFunc(fn)
	if root.Origin() != nil {
		root = root.Origin()
	}
	if root.Pkg == nil {
		return nil
	}
	if p := P.pkgOf[root.Pkg]; p != nil {
		return p.TypesInfo
	}
	return nil
}

func funcBody(fn *ssa.Function) *ast.BlockStmt {
	switch s := fn.Syntax().(type) {
	case *ast.FuncDecl:
		return s.Body
	case *ast.FuncLit:
		return s.Body
	}
	return nil
}

type detCtx struct {
	P    *Prog
	info *types.Info
	fn   *ssa.Function
}

// pure expression: reads only; calls only to conversions, builtins, numeric value
// methods and repository functions whose SSA body is side-effect free.
func (d *detCtx) pureExpr(e ast.Expr, forbidden map[types.Object]bool) (bool, string) {
	ok := true
	why := ""
	ast.Inspect(e, func(n ast.Node) bool {
		if !ok {
			return false
		}
		switch x := n.(type) {
		case *ast.Ident:
			if o := d.info.Uses[x]; o != nil && forbidden[o] {
				ok, why = false, "reads loop-carried variable "+x.Name
			}
		case *ast.FuncLit:
			ok, why = false, "function literal"
		case *ast.UnaryExpr:
			if x.Op == token.ARROW {
				ok, why = false, "channel receive"
			}
		case *ast.CallExpr:
			if tv, has := d.info.Types[x.Fun]; has && tv.IsType() {
				return true // conversion
			}
			var obj types.Object
			switch f := x.Fun.(type) {
			case *ast.Ident:
				obj = d.info.Uses[f]
			case *ast.SelectorExpr:
				obj = d.info.Uses[f.Sel]
			}
			switch o := obj.(type) {
			case *types.Builtin:
				switch o.Name() {
				case "len", "cap", "min", "max", "string", "new", "make", "append":
					return true
				}
				ok, why = false, "builtin "+o.Name()
			case *types.Func:
				if d.pureFunc(o) {
					return true
				}
				ok, why = false, "call to "+o.FullName()+" not known to be pure"
			default:
				ok, why = false, "dynamic call"
			}
		}
		return ok
	})
	return ok, why
}

var purePkgs = map[string]bool{"cosmossdk.io/math": true, "math/big": false, "strings": true, "bytes": true, "strconv": true, "encoding/hex": true, "math": true, "math/bits": true, "unicode": true, "unicode/utf8": true}
var pureMemo = map[*types.Func]int{}

func (d *detCtx) pureFunc(o *types.Func) bool {
	if v, ok := pureMemo[o]; ok {
		return v == 1
	}
	pureMemo[o] = 2 // assume impure while in progress (recursion)
	res := false
	if o.Pkg() != nil && purePkgs[o.Pkg().Path()] {
		res = true
	} else if o.Pkg() != nil && inRepoPath(o.Pkg().Path()) {
		if fn := d.P.SSA.FuncValue(o); fn != nil && fn.Blocks != nil {
			res = ssaPure(d.P, fn, 0)
		} else if strings.HasPrefix(o.Name(), "Get") && strings.HasSuffix(d.P.Fset.Position(o.Pos()).Filename, ".pb.go") {
			res = true // generated proto getters
		}
	}
	if res {
		pureMemo[o] = 1
	}
	return res
}

func ssaPure(P *Prog, fn *ssa.Function, depth int) bool {
	if depth > 3 {
		return false
	}
	for _, b := range fn.Blocks {
		for _, in := range b.Instrs {
			switch x := in.(type) {
			case *ssa.Store:
				if _, ok := x.Addr.(*ssa.Alloc); !ok {
					return false
				}
			case *ssa.MapUpdate, *ssa.Go, *ssa.Defer, *ssa.Send, *ssa.Select, *ssa.Panic:
				return false
			case ssa.CallInstruction:
				cc := x.Common()
				if _, ok := cc.Value.(*ssa.Builtin); ok {
					continue
				}
				cal := cc.StaticCallee()
				if cal == nil {
					return false
				}
				if cal.Pkg != nil && purePkgs[cal.Pkg.Pkg.Path()] {
					continue
				}
				if cal.Blocks != nil && P.isRepoFunc(cal) && ssaPure(P, cal, depth+1) {
					continue
				}
				return false
			}
		}
	}
	return true
}

// assignedInside collects objects declared outside `body` but assigned inside it.
func (d *detCtx) assignedInside(body *ast.BlockStmt) map[types.Object]bool {
	out := map[types.Object]bool{}
	declared := map[types.Object]bool{}
	ast.Inspect(body, func(n ast.Node) bool {
		switch x := n.(type) {
		case *ast.AssignStmt:
			for _, l := range x.Lhs {
				if id, ok := l.(*ast.Ident); ok {
					if o := d.info.Defs[id]; o != nil {
						declared[o] = true
					} else if o := d.info.Uses[id]; o != nil {
						out[o] = true
					}
				} else {
					// x.f = .., x[i] = ..: the root object is mutated
					if id := rootIdent(l); id != nil {
						if o := d.info.Uses[id]; o != nil {
							out[o] = true
						}
					}
				}
			}
		case *ast.IncDecStmt:
			if id := rootIdent(x.X); id != nil {
				if o := d.info.Uses[id]; o != nil {
					out[o] = true
				}
			}
		case *ast.ValueSpec:
			for _, id := range x.Names {
				if o := d.info.Defs[id]; o != nil {
					declared[o] = true
				}
			}
		}
		return true
	})
	for o := range declared {
		delete(out, o)
	}
	return out
}

func rootIdent(e ast.Expr) *ast.Ident {
	for {
		switch x := e.(type) {
		case *ast.Ident:
			return x
		case *ast.SelectorExpr:
			e = x.X
		case *ast.IndexExpr:
			e = x.X
		case *ast.StarExpr:
			e = x.X
		case *ast.ParenExpr:
			e = x.X
		default:
			return nil
		}
	}
}

func isFloat(t types.Type) bool {
	if t == nil {
		return false
	}
	b, ok := t.Underlying().(*types.Basic)
	return ok && b.Info()&(types.IsFloat|types.IsComplex) != 0
}

// classifyMapRange returns ("", reason) when order-insensitive, or (problem, "") when order-sensitive.
func (d *detCtx) classifyMapRange(encl []ast.Stmt, rs *ast.RangeStmt) (idiom string, problem string) {
	var keyObj, valObj types.Object
	if id, ok := rs.Key.(*ast.Ident); ok && id.Name != "_" {
		keyObj = d.info.Defs[id]
		if keyObj == nil {
			keyObj = d.info.Uses[id]
		}
	}
	if rs.Value != nil {
		if id, ok := rs.Value.(*ast.Ident); ok && id.Name != "_" {
			valObj = d.info.Defs[id]
			if valObj == nil {
				valObj = d.info.Uses[id]
			}
		}
	}
	_ = valObj
	outer := d.assignedInside(rs.Body)
	// no break / return / goto inside
	esc := ""
	ast.Inspect(rs.Body, func(n ast.Node) bool {
		switch x := n.(type) {
		case *ast.BranchStmt:
			if x.Tok == token.BREAK || x.Tok == token.GOTO {
				esc = x.Tok.String()
			}
		case *ast.ReturnStmt:
			esc = "return"
		case *ast.FuncLit:
			return false
		}
		return true
	})
	if esc != "" {
		return "", "loop body leaves the loop early (" + esc + "): which element is seen first depends on map order"
	}
	stmts := rs.Body.List
	if len(stmts) == 0 {
		return "empty", ""
	}
	// idiom (ii): collect-then-sort
	if len(stmts) == 1 {
		if as, ok := stmts[0].(*ast.AssignStmt); ok && len(as.Lhs) == 1 && len(as.Rhs) == 1 {
			if call, ok := as.Rhs[0].(*ast.CallExpr); ok {
				if id, ok := call.Fun.(*ast.Ident); ok && id.Name == "append" && len(call.Args) == 2 {
					if _, isB := d.info.Uses[id].(*types.Builtin); isB {
						lhs, ok1 := as.Lhs[0].(*ast.Ident)
						base, ok2 := call.Args[0].(*ast.Ident)
						if ok1 && ok2 && d.info.Uses[lhs] == d.info.Uses[base] && d.info.Uses[lhs] != nil {
							return d.collectThenSort(encl, rs, d.info.Uses[lhs], call.Args[1], keyObj, outer)
						}
					}
				}
			}
		}
	}
	// idiom (iv): arg-max with a total tie-break on the key
	if len(stmts) == 1 {
		if ifs, ok := stmts[0].(*ast.IfStmt); ok && ifs.Else == nil && ifs.Init == nil {
			if ok, why := d.argMaxTieBreak(ifs, keyObj, outer); ok {
				return "arg-max with key tie-break", ""
			} else if why != "" {
				_ = why
			}
		}
	}
	// idioms (i) and (iii): every statement is a commutative accumulation or a write keyed by the range key
	var check func(list []ast.Stmt) string
	check = func(list []ast.Stmt) string {
		for _, s := range list {
			switch x := s.(type) {
			case *ast.IncDecStmt:
				if id, ok := x.X.(*ast.Ident); ok {
					if isFloat(d.info.TypeOf(id)) {
						return "floating-point accumulator"
					}
					continue
				}
				return "inc/dec of a non-variable"
			case *ast.AssignStmt:
				if len(x.Lhs) != 1 || len(x.Rhs) != 1 {
					return "multi-assignment in loop body"
				}
				// keyed write m2[k] = pure
				if ix, ok := x.Lhs[0].(*ast.IndexExpr); ok && x.Tok == token.ASSIGN {
					if kid, ok := ix.Index.(*ast.Ident); ok && keyObj != nil && d.info.Uses[kid] == keyObj {
						if p, why := d.pureExpr(x.Rhs[0], outer); !p {
							return "keyed write of an impure value: " + why
						}
						continue
					}
					return "indexed write not keyed by the range key"
				}
				id, ok := x.Lhs[0].(*ast.Ident)
				if !ok {
					return "assignment to " + exprStr(d.P.Fset, x.Lhs[0]) + " inside a map range"
				}
				obj := d.info.Uses[id]
				if obj == nil { // := definition of a loop-local
					if p, why := d.pureExpr(x.Rhs[0], outer); !p {
						return "loop-local computed impurely: " + why
					}
					continue
				}
				if isFloat(obj.Type()) {
					return "floating-point accumulator " + id.Name
				}
				forb := map[types.Object]bool{}
				for o := range outer {
					forb[o] = true
				}
				switch x.Tok {
				case token.ADD_ASSIGN, token.OR_ASSIGN, token.AND_ASSIGN, token.XOR_ASSIGN, token.SUB_ASSIGN:
					if _, isStr := obj.Type().Underlying().(*types.Basic); isStr && obj.Type().Underlying().(*types.Basic).Info()&types.IsString != 0 {
						return "string concatenation in map order into " + id.Name
					}
					if p, why := d.pureExpr(x.Rhs[0], forb); !p {
						return "accumulation of an order-dependent value: " + why
					}
					continue
				case token.ASSIGN:
					// acc = acc.Add(pure) / acc = acc + pure
					delete(forb, obj)
					if call, ok := x.Rhs[0].(*ast.CallExpr); ok {
						if sel, ok := call.Fun.(*ast.SelectorExpr); ok && (sel.Sel.Name == "Add" || sel.Sel.Name == "Sub") && len(call.Args) == 1 {
							if rid, ok := sel.X.(*ast.Ident); ok && d.info.Uses[rid] == obj {
								ts := typeShort(obj.Type())
								if ts == "cosmossdk.io/math.Int" || ts == "cosmossdk.io/math.LegacyDec" || ts == "cosmossdk.io/math.Uint" {
									forb[obj] = true
									if p, why := d.pureExpr(call.Args[0], forb); !p {
										return "accumulation of an order-dependent value: " + why
									}
									continue
								}
							}
						}
					}
					if be, ok := x.Rhs[0].(*ast.BinaryExpr); ok && be.Op == token.ADD {
						if rid, ok := be.X.(*ast.Ident); ok && d.info.Uses[rid] == obj {
							if b, ok := obj.Type().Underlying().(*types.Basic); ok && b.Info()&types.IsInteger != 0 {
								forb[obj] = true
								if p, why := d.pureExpr(be.Y, forb); !p {
									return "accumulation of an order-dependent value: " + why
								}
								continue
							}
						}
					}
					return fmt.Sprintf("variable %s declared outside the loop is overwritten inside it (last map element wins)", id.Name)
				default:
					return "non-commutative update " + x.Tok.String() + " of " + id.Name
				}
			case *ast.ExprStmt:
				if call, ok := x.X.(*ast.CallExpr); ok {
					if id, ok := call.Fun.(*ast.Ident); ok && id.Name == "delete" && len(call.Args) == 2 {
						if kid, ok := call.Args[1].(*ast.Ident); ok && keyObj != nil && d.info.Uses[kid] == keyObj {
							continue
						}
					}
				}
				return "side-effecting call inside a map range: " + exprStr(d.P.Fset, x.X)
			case *ast.IfStmt:
				if x.Init != nil {
					return "if-with-init inside a map range"
				}
				if p, why := d.pureExpr(x.Cond, outer); !p {
					return "branch on an order-dependent condition: " + why
				}
				if w := check(x.Body.List); w != "" {
					return w
				}
				if x.Else != nil {
					if eb, ok := x.Else.(*ast.BlockStmt); ok {
						if w := check(eb.List); w != "" {
							return w
						}
					} else {
						return "else-if chain inside a map range"
					}
				}
			case *ast.BranchStmt:
				if x.Tok != token.CONTINUE {
					return "branch " + x.Tok.String()
				}
			case *ast.DeclStmt:
				continue
			default:
				return fmt.Sprintf("statement %T inside a map range", s)
			}
		}
		return ""
	}
	if w := check(stmts); w != "" {
		return "", w
	}
	return "commutative reduction / keyed write", ""
}

// argMaxTieBreak recognises  if v > best || (v == best && k < bestKey) { best = v; bestKey = k; ... }
func (d *detCtx) argMaxTieBreak(ifs *ast.IfStmt, keyObj types.Object, outer map[types.Object]bool) (bool, string) {
	if keyObj == nil {
		return false, "no key variable"
	}
	or, ok := stripParens(ifs.Cond).(*ast.BinaryExpr)
	if !ok || or.Op != token.LOR {
		return false, "condition has no tie-break"
	}
	var strict, tie *ast.BinaryExpr
	for _, side := range []ast.Expr{or.X, or.Y} {
		be, ok := stripParens(side).(*ast.BinaryExpr)
		if !ok {
			return false, ""
		}
		switch be.Op {
		case token.GTR, token.LSS:
			strict = be
		case token.LAND:
			tie = be
		}
	}
	if strict == nil || tie == nil {
		return false, ""
	}
	var eq, kcmp *ast.BinaryExpr
	for _, side := range []ast.Expr{tie.X, tie.Y} {
		be, ok := stripParens(side).(*ast.BinaryExpr)
		if !ok {
			return false, ""
		}
		if be.Op == token.EQL {
			eq = be
		} else if be.Op == token.LSS || be.Op == token.GTR {
			kcmp = be
		}
	}
	if eq == nil || kcmp == nil {
		return false, ""
	}
	// eq compares the same two operands as strict
	s1, s2 := exprStr(d.P.Fset, strict.X), exprStr(d.P.Fset, strict.Y)
	e1, e2 := exprStr(d.P.Fset, eq.X), exprStr(d.P.Fset, eq.Y)
	if !((s1 == e1 && s2 == e2) || (s1 == e2 && s2 == e1)) {
		return false, ""
	}
	// kcmp compares the range key with an outer variable that the body assigns from the key
	var bestKey types.Object
	for _, side := range []ast.Expr{kcmp.X, kcmp.Y} {
		if id, ok := stripParens(side).(*ast.Ident); ok {
			if o := d.info.Uses[id]; o != nil && o != keyObj && outer[o] {
				bestKey = o
			}
		}
	}
	usesKey := false
	for _, side := range []ast.Expr{kcmp.X, kcmp.Y} {
		if id, ok := stripParens(side).(*ast.Ident); ok && d.info.Uses[id] == keyObj {
			usesKey = true
		}
	}
	if bestKey == nil || !usesKey {
		return false, ""
	}
	assigned := false
	for _, s := range ifs.Body.List {
		as, ok := s.(*ast.AssignStmt)
		if !ok || len(as.Lhs) != len(as.Rhs) {
			return false, ""
		}
		for i := range as.Lhs {
			if p, _ := d.pureExpr(as.Rhs[i], nil); !p {
				return false, ""
			}
			if lid, ok := as.Lhs[i].(*ast.Ident); ok && d.info.Uses[lid] == bestKey {
				if rid, ok := as.Rhs[i].(*ast.Ident); ok && d.info.Uses[rid] == keyObj {
					assigned = true
				}
			}
		}
	}
	return assigned, ""
}

func stripParens(e ast.Expr) ast.Expr {
	for {
		p, ok := e.(*ast.ParenExpr)
		if !ok {
			return e
		}
		e = p.X
	}
}

// collectThenSort: the loop only appends an element carrying the key to `slice`;
// the first later use of `slice` must be a sort whose comparator is a strict
// total order on the key-carrying part.
func (d *detCtx) collectThenSort(encl []ast.Stmt, rs *ast.RangeStmt, slice types.Object, elem ast.Expr, keyObj types.Object, outer map[types.Object]bool) (string, string) {
	if keyObj == nil {
		return "", "elements are collected from a map without their key, so no later sort can restore a canonical order"
	}
	delete(outer, slice)
	if p, why := d.pureExpr(elem, outer); !p {
		return "", "collected element is impure: " + why
	}
	// which part of the element carries the key? "" = the element itself, ".field" otherwise
	keyPath := "?"
	switch e := stripParens(elem).(type) {
	case *ast.Ident:
		if d.info.Uses[e] == keyObj {
			keyPath = ""
		}
	case *ast.CompositeLit:
		for _, el := range e.Elts {
			if kv, ok := el.(*ast.KeyValueExpr); ok {
				if id, ok := stripParens(kv.Value).(*ast.Ident); ok && d.info.Uses[id] == keyObj {
					if fid, ok := kv.Key.(*ast.Ident); ok {
						keyPath = "." + fid.Name
					}
				}
			}
		}
	case *ast.UnaryExpr:
		if cl, ok := e.X.(*ast.CompositeLit); ok && e.Op == token.AND {
			for _, el := range cl.Elts {
				if kv, ok := el.(*ast.KeyValueExpr); ok {
					if id, ok := stripParens(kv.Value).(*ast.Ident); ok && d.info.Uses[id] == keyObj {
						if fid, ok := kv.Key.(*ast.Ident); ok {
							keyPath = "." + fid.Name
						}
					}
				}
			}
		}
	}
	if keyPath == "?" {
		return "", "collected element does not carry the map key"
	}
	// find the first statement after the loop that mentions the slice
	after := false
	for _, s := range encl {
		if s == ast.Stmt(rs) {
			after = true
			continue
		}
		if !after {
			continue
		}
		mentions := false
		ast.Inspect(s, func(n ast.Node) bool {
			if id, ok := n.(*ast.Ident); ok && d.info.Uses[id] == slice {
				mentions = true
			}
			return !mentions
		})
		if !mentions {
			continue
		}
		es, ok := s.(*ast.ExprStmt)
		if !ok {
			return "", "slice collected from a map is used before being sorted: " + exprStr(d.P.Fset, s)
		}
		call, ok := es.X.(*ast.CallExpr)
		if !ok {
			return "", "slice collected from a map is used before being sorted"
		}
		fname := ""
		if sel, ok := call.Fun.(*ast.SelectorExpr); ok {
			if f, ok := d.info.Uses[sel.Sel].(*types.Func); ok {
				fname = f.FullName()
			}
		}
		switch fname {
		case "sort.Slice", "sort.SliceStable", "slices.SortFunc", "slices.SortStableFunc":
			if len(call.Args) != 2 {
				return "", "unexpected sort call"
			}
			lit, ok := call.Args[1].(*ast.FuncLit)
			if !ok {
				return "", "sort comparator is not a literal; cannot show it orders by the key"
			}
			cmp, err := d.parseComparator(lit, fname)
			if err != "" {
				return "", "comparator not understood: " + err
			}
			verdict := cmp.evaluate()
			if verdict != "" {
				return "", "comparator " + verdict
			}
			// total on the key: the only key compared must be the key path (ties of all compared keys imply equal map keys)
			want := exprStr(d.P.Fset, call.Args[0]) + "[#]" + keyPath
			hasKey := false
			for _, k := range cmp.keys {
				if k == want {
					hasKey = true
				}
			}
			if !hasKey {
				return "", fmt.Sprintf("slice collected from a map is sorted by %v, which does not include the unique map key (%s): elements that tie keep their map-iteration order", cmp.keys, want)
			}
			return "collect-then-sort by key", ""
		case "sort.Sort", "sort.Stable", "sort.Strings", "slices.Sort", "sort.Ints":
			if keyPath == "" {
				return "collect keys then sort", ""
			}
			return "", "sorted through sort.Interface on a composite element; cannot show it orders by the key"
		}
		return "", "slice collected from a map is used before being sorted: " + exprStr(d.P.Fset, s)
	}
	return "", "slice collected from a map is never sorted in the enclosing block"
}

// ---------------------------------------------------------------------------
// Comparator model: a decision over relations between keys K(i) and K(j).

type cmpModel struct {
	d     *detCtx
	lit   *ast.FuncLit
	i, j  types.Object
	keys  []string // accessor strings with the index replaced by '#'
	three bool     // slices.SortFunc style (returns int): not supported
	// locals of the comparator defined once by `x := <expression over i / j>`: read as that expression
	locals map[types.Object]ast.Expr
}

// expand replaces the comparator's single-definition locals by their defining expressions (copying the nodes on the way).
func (c *cmpModel) expand(e ast.Expr, depth int) ast.Expr {
	if depth > 8 || len(c.locals) == 0 {
		return e
	}
	switch x := e.(type) {
	case *ast.Ident:
		if def, ok := c.locals[c.d.info.Uses[x]]; ok {
			d := c.expand(def, depth+1)
			switch d.(type) {
			case *ast.Ident, *ast.IndexExpr, *ast.SelectorExpr, *ast.CallExpr, *ast.ParenExpr, *ast.BasicLit:
				return d // binds as tightly as an identifier: no parentheses needed
			}
			return &ast.ParenExpr{X: d}
		}
	case *ast.ParenExpr:
		return &ast.ParenExpr{X: c.expand(x.X, depth+1)}
	case *ast.SelectorExpr:
		return &ast.SelectorExpr{X: c.expand(x.X, depth+1), Sel: x.Sel}
	case *ast.IndexExpr:
		return &ast.IndexExpr{X: c.expand(x.X, depth+1), Index: c.expand(x.Index, depth+1)}
	case *ast.StarExpr:
		return &ast.StarExpr{X: c.expand(x.X, depth+1)}
	case *ast.UnaryExpr:
		return &ast.UnaryExpr{Op: x.Op, X: c.expand(x.X, depth+1)}
	case *ast.BinaryExpr:
		return &ast.BinaryExpr{X: c.expand(x.X, depth+1), Op: x.Op, Y: c.expand(x.Y, depth+1)}
	case *ast.CallExpr:
		n := &ast.CallExpr{Fun: c.expand(x.Fun, depth+1)}
		for _, a := range x.Args {
			n.Args = append(n.Args, c.expand(a, depth+1))
		}
		return n
	}
	return e
}

// accessor renders e with index parameters replaced by '#', returning which index it uses (0 none, 1 i, 2 j, 3 both).
func (c *cmpModel) accessor(e ast.Expr) (string, int) {
	uses := 0
	var b bytes.Buffer
	e = stripParens(c.expand(e, 0))
	cp := e
	printer.Fprint(&b, c.d.P.Fset, cp)
	ast.Inspect(e, func(n ast.Node) bool {
		if id, ok := n.(*ast.Ident); ok {
			switch c.d.info.Uses[id] {
			case c.i:
				uses |= 1
			case c.j:
				uses |= 2
			}
		}
		return true
	})
	s := strings.Join(strings.Fields(b.String()), "") // nodes rebuilt by expand have no positions: the printer may break lines
	// replace identifier occurrences of the index names inside brackets
	in, jn := c.i.Name(), c.j.Name()
	s = replaceIdent(s, in, "#")
	s = replaceIdent(s, jn, "#")
	return s, uses
}

func replaceIdent(s, name, with string) string {
	var out strings.Builder
	isId := func(r byte) bool {
		return r == '_' || (r >= 'a' && r <= 'z') || (r >= 'A' && r <= 'Z') || (r >= '0' && r <= '9')
	}
	for k := 0; k < len(s); {
		if strings.HasPrefix(s[k:], name) && (k == 0 || !isId(s[k-1])) && (k+len(name) >= len(s) || !isId(s[k+len(name)])) && (k == 0 || s[k-1] != '.') {
			out.WriteString(with)
			k += len(name)
			continue
		}
		out.WriteByte(s[k])
		k++
	}
	return out.String()
}

func (d *detCtx) parseComparator(lit *ast.FuncLit, kind string) (*cmpModel, string) {
	if lit.Type.Params == nil {
		return nil, "no parameters"
	}
	var params []types.Object
	for _, f := range lit.Type.Params.List {
		for _, n := range f.Names {
			params = append(params, d.info.Defs[n])
		}
	}
	if len(params) != 2 {
		return nil, "comparator does not take two parameters"
	}
	c := &cmpModel{d: d, lit: lit, i: params[0], j: params[1]}
	if strings.HasPrefix(kind, "slices.") {
		return nil, "three-way comparators are not modelled"
	}
	// dry-run evaluation with all keys equal to discover keys / unsupported shapes
	if _, err := c.run(func(key string) int { return 0 }, false); err != "" {
		return nil, err
	}
	return c, ""
}

// run evaluates the comparator body given rel(key) = sign(K(i) - K(j)); swapped exchanges i and j.
func (c *cmpModel) run(rel func(key string) int, swapped bool) (bool, string) {
	for _, s := range c.lit.Body.List {
		done, val, err := c.stmt(s, rel, swapped)
		if err != "" {
			return false, err
		}
		if done {
			return val, ""
		}
	}
	return false, "comparator may fall off its end"
}

func (c *cmpModel) stmt(s ast.Stmt, rel func(string) int, swapped bool) (done, val bool, err string) {
	switch x := s.(type) {
	case *ast.ReturnStmt:
		if len(x.Results) != 1 {
			return false, false, "return without a single value"
		}
		v, e := c.boolExpr(x.Results[0], rel, swapped)
		return true, v, e
	case *ast.IfStmt:
		if x.Init != nil {
			return false, false, "if with init"
		}
		cv, e := c.boolExpr(x.Cond, rel, swapped)
		if e != "" {
			return false, false, e
		}
		if cv {
			for _, t := range x.Body.List {
				d, v, e := c.stmt(t, rel, swapped)
				if e != "" || d {
					return d, v, e
				}
			}
			return false, false, ""
		}
		if x.Else != nil {
			switch eb := x.Else.(type) {
			case *ast.BlockStmt:
				for _, t := range eb.List {
					d, v, e := c.stmt(t, rel, swapped)
					if e != "" || d {
						return d, v, e
					}
				}
			case *ast.IfStmt:
				return c.stmt(eb, rel, swapped)
			}
		}
		return false, false, ""
	case *ast.AssignStmt:
		// `a, b := x[i], x[j]`: single definitions of pure expressions
		if x.Tok == token.DEFINE && len(x.Lhs) == len(x.Rhs) {
			for k, l := range x.Lhs {
				id, ok := l.(*ast.Ident)
				if !ok {
					return false, false, "assignment to a non-identifier in comparator"
				}
				if obj := c.d.info.Defs[id]; obj != nil {
					if c.locals == nil {
						c.locals = map[types.Object]ast.Expr{}
					}
					c.locals[obj] = x.Rhs[k]
				}
			}
			return false, false, ""
		}
	}
	return false, false, fmt.Sprintf("unsupported statement %T in comparator", s)
}

func (c *cmpModel) key(k string) {
	for _, x := range c.keys {
		if x == k {
			return
		}
	}
	c.keys = append(c.keys, k)
	sort.Strings(c.keys)
}

// sign of (a ? b) where a and b are accessors of i / j
func (c *cmpModel) signOf(a, b ast.Expr, rel func(string) int, swapped bool) (int, string) {
	as, au := c.accessor(a)
	bs, bu := c.accessor(b)
	if as != bs {
		return 0, fmt.Sprintf("compares different keys %s and %s", as, bs)
	}
	if !((au == 1 && bu == 2) || (au == 2 && bu == 1)) {
		return 0, "operands do not pair element i with element j"
	}
	c.key(as)
	r := rel(as) // sign(K(i)-K(j))
	if swapped {
		r = -r
	}
	if au == 2 { // a is j-side: sign(K(j)-K(i))
		r = -r
	}
	return r, ""
}

func applyOp(op token.Token, sign int) (bool, bool) {
	switch op {
	case token.LSS:
		return sign < 0, true
	case token.LEQ:
		return sign <= 0, true
	case token.GTR:
		return sign > 0, true
	case token.GEQ:
		return sign >= 0, true
	case token.EQL:
		return sign == 0, true
	case token.NEQ:
		return sign != 0, true
	}
	return false, false
}

func (c *cmpModel) boolExpr(e ast.Expr, rel func(string) int, swapped bool) (bool, string) {
	e = stripParens(c.expand(stripParens(e), 0))
	switch x := e.(type) {
	case *ast.UnaryExpr:
		if x.Op == token.NOT {
			v, err := c.boolExpr(x.X, rel, swapped)
			return !v, err
		}
	case *ast.BinaryExpr:
		switch x.Op {
		case token.LAND:
			a, err := c.boolExpr(x.X, rel, swapped)
			if err != "" {
				return false, err
			}
			b, err := c.boolExpr(x.Y, rel, swapped)
			return a && b, err
		case token.LOR:
			a, err := c.boolExpr(x.X, rel, swapped)
			if err != "" {
				return false, err
			}
			b, err := c.boolExpr(x.Y, rel, swapped)
			return a || b, err
		case token.LSS, token.LEQ, token.GTR, token.GEQ, token.EQL, token.NEQ:
			// cmp(A(i),A(j)) op 0   or   A(i).Cmp(A(j)) op 0
			if lit, ok := stripParens(x.Y).(*ast.BasicLit); ok && lit.Value == "0" {
				if call, ok := stripParens(x.X).(*ast.CallExpr); ok {
					var a, b ast.Expr
					if sel, ok := call.Fun.(*ast.SelectorExpr); ok {
						switch {
						case (sel.Sel.Name == "Compare") && len(call.Args) == 2:
							a, b = call.Args[0], call.Args[1]
						case (sel.Sel.Name == "Cmp" || sel.Sel.Name == "Compare") && len(call.Args) == 1:
							a, b = sel.X, call.Args[0]
						}
					}
					if a != nil {
						sg, err := c.signOf(a, b, rel, swapped)
						if err != "" {
							return false, err
						}
						v, _ := applyOp(x.Op, sg)
						return v, ""
					}
				}
			}
			sg, err := c.signOf(x.X, x.Y, rel, swapped)
			if err != "" {
				return false, err
			}
			v, _ := applyOp(x.Op, sg)
			return v, ""
		}
	case *ast.CallExpr:
		if sel, ok := x.Fun.(*ast.SelectorExpr); ok && len(x.Args) == 1 {
			ops := map[string]token.Token{"LT": token.LSS, "GT": token.GTR, "LTE": token.LEQ, "GTE": token.GEQ, "Equal": token.EQL, "Before": token.LSS, "After": token.GTR}
			if op, ok := ops[sel.Sel.Name]; ok {
				sg, err := c.signOf(sel.X, x.Args[0], rel, swapped)
				if err != "" {
					return false, err
				}
				v, _ := applyOp(op, sg)
				return v, ""
			}
		}
	}
	return false, "unsupported expression " + exprStr(c.d.P.Fset, e)
}

// evaluate checks strict-weak-order laws over all orderings of three elements
// (each key independently ranks a,b,c — 13 weak orderings per key).
func (c *cmpModel) evaluate() string {
	keys := c.keys
	if len(keys) == 0 {
		return "compares nothing"
	}
	if len(keys) > 3 {
		return "has more than three keys (not enumerated)"
	}
	// ranks for 3 elements: all assignments in {0,1,2}^3 (27; includes all weak orderings)
	var ranks [][3]int
	for a := 0; a < 3; a++ {
		for b := 0; b < 3; b++ {
			for cc := 0; cc < 3; cc++ {
				ranks = append(ranks, [3]int{a, b, cc})
			}
		}
	}
	n := len(keys)
	idx := make([]int, n)
	sgn := func(x int) int {
		if x < 0 {
			return -1
		}
		if x > 0 {
			return 1
		}
		return 0
	}
	less := func(p, q int) bool {
		v, _ := c.run(func(key string) int {
			for k, name := range keys {
				if name == key {
					r := ranks[idx[k]]
					return sgn(r[p] - r[q])
				}
			}
			return 0
		}, false)
		return v
	}
	for {
		// laws
		for p := 0; p < 3; p++ {
			if less(p, p) {
				return "is not irreflexive (less(x,x) is true): not a strict order"
			}
			for q := 0; q < 3; q++ {
				if p != q && less(p, q) && less(q, p) {
					return "is not asymmetric (less(x,y) and less(y,x) both true, e.g. on ties): sort result undefined"
				}
				for s := 0; s < 3; s++ {
					if less(p, q) && less(q, s) && !less(p, s) {
						return "is not transitive"
					}
					incomp := func(x, y int) bool { return !less(x, y) && !less(y, x) }
					if incomp(p, q) && incomp(q, s) && !incomp(p, s) {
						return "has non-transitive ties"
					}
				}
			}
		}
		// next assignment
		k := 0
		for k < n {
			idx[k]++
			if idx[k] < len(ranks) {
				break
			}
			idx[k] = 0
			k++
		}
		if k == n {
			break
		}
	}
	return ""
}

// ---------------------------------------------------------------------------

var detDenyCalls = map[string]string{
	"time.Now": "wall-clock time", "time.Since": "wall-clock time", "time.Until": "wall-clock time", "time.After": "timer", "time.Sleep": "timer", "time.NewTimer": "timer", "time.NewTicker": "timer", "time.Tick": "timer", "time.AfterFunc": "timer",
	"os.Getenv": "process environment", "os.LookupEnv": "process environment", "os.Environ": "process environment", "os.Hostname": "host name", "os.Getpid": "process id", "os.ReadFile": "local file", "os.Open": "local file", "os.Getwd": "working directory", "os.UserHomeDir": "local configuration",
	"runtime.NumCPU": "machine property", "runtime.NumGoroutine": "scheduler state", "runtime.GOMAXPROCS": "machine property", "runtime.ReadMemStats": "runtime state",
	"(*sync.Map).Range": "sync.Map iteration order", "(reflect.Value).MapKeys": "map order via reflection", "(reflect.Value).MapRange": "map order via reflection",
}

// zoneMethods: methods of time.Time whose result depends on the time's location.
var zoneMethods = map[string]bool{"(time.Time).AddDate": true, "(time.Time).Date": true, "(time.Time).Day": true, "(time.Time).Month": true, "(time.Time).Year": true,
	"(time.Time).YearDay": true, "(time.Time).Weekday": true, "(time.Time).Hour": true, "(time.Time).Minute": true, "(time.Time).Clock": true, "(time.Time).ISOWeek": true,
	"(time.Time).Format": true, "(time.Time).AppendFormat": true, "(time.Time).String": true, "(time.Time).Zone": true, "(time.Time).ZoneBounds": true, "(time.Time).IsDST": true,
	"(time.Time).MarshalJSON": true, "(time.Time).MarshalText": true, "(time.Time).Truncate": false}

var detDenyPkgs = map[string]string{"math/rand": "pseudo-random source", "math/rand/v2": "pseudo-random source", "crypto/rand": "random source", "github.com/spf13/viper": "node-local configuration", "unsafe": "unsafe"}

func init() { register("C01", checkC01) }

func checkC01(r *Result) {
	P := r.P
	r.Explanation = "Static determinism lint over the type-checked program and SSA of every repository function reachable from the state-machine entry points (Begin/EndBlock, PreBlocker, all Msg handlers, ante decorators, staking/registry hooks, InitGenesis, ProcessProposal, VerifyVoteExtension): (1) every `range` over a Go map is classified against the order-insensitive idioms (commutative reduction, key-indexed write, collect-then-sort-by-key, arg-max with a total key tie-break); (2) denylist of nondeterministic APIs and constructs (wall clock, randomness, environment, viper, goroutines, select, channels, floats, reflection map order); (3) every sort comparator is evaluated over all orderings of its keys on three elements and must be a strict weak order, and total on the map key when the slice was collected from a map. Decides the structural necessary condition only; it does not execute anything."
	r.NotDecided = "determinism of the Cosmos SDK, CometBFT, go-ethereum and the store; equality of event contents"
	r.Assumptions = []string{"collections iterate in key order; sort.Slice is deterministic for a given input order; ExtendVote/PrepareProposal are allowed to be node-local and are outside this scope"}
	r.rule("DET-MAPRANGE", "a range over a map in consensus code must be order-insensitive (commutative reduction, keyed write, collect-then-sort by the map key, or arg-max with a total key tie-break)")
	r.rule("DET-API", "consensus code must not use wall-clock time, randomness, process environment, node-local configuration, goroutines, select/channels, floating point or reflection map order")
	r.rule("DET-SORT", "every sort comparator in consensus code is a strict weak order over all orderings of its keys")
	r.rule("DET-SCOPE", "the aggregation functions selected through a method value are inside the analysed scope")

	cons := P.Consensus()
	var fns []*ssa.Function
	for f := range cons {
		fns = append(fns, f)
	}
	// closures of consensus functions are part of them
	seen := map[*ssa.Function]bool{}
	var all []*ssa.Function
	var addAll func(f *ssa.Function)
	addAll = func(f *ssa.Function) {
		if seen[f] {
			return
		}
		seen[f] = true
		all = append(all, f)
		for _, a := range f.AnonFuncs {
			addAll(a)
		}
	}
	for _, f := range fns {
		addAll(f)
	}
	sort.Slice(all, func(i, j int) bool { return FuncName(all[i]) < FuncName(all[j]) })
	for _, f := range all {
		r.fn(FuncName(f))
	}
	// scope assertion: bound-method aggregation functions are reached
	for _, must := range []string{"(x/oracle/keeper.Keeper).WeightedMedian", "(x/oracle/keeper.Keeper).WeightedMode", "(x/oracle/keeper.Keeper).AllocateRewards", "(x/bridge/keeper.Keeper).PowerDiff", "(x/dispute/keeper.Keeper).TallyVote"} {
		f := P.Func(must)
		if f == nil {
			r.broken("anchor %s does not resolve", must)
			continue
		}
		if _, ok := cons[f]; !ok {
			r.broken("scope: %s is not reachable from the consensus entry points; the call graph lost it", must)
		} else {
			r.ok("DET-SCOPE", must, P.Pos(f.Pos()), "reachable: "+PathTo(cons, f))
		}
	}

	mapRanges := 0
	for _, f := range all {
		body := funcBody(f)
		info := P.infoFor(f)
		if body == nil || info == nil {
			continue
		}
		d := &detCtx{P: P, info: info, fn: f}
		// walk statements keeping the enclosing statement list; do not descend into nested FuncLits (handled as their own functions)
		var walk func(list []ast.Stmt)
		visitStmt := func(s ast.Stmt, list []ast.Stmt) {}
		_ = visitStmt
		ordinal := 0
		walk = func(list []ast.Stmt) {
			for _, s := range list {
				if rs, ok := s.(*ast.RangeStmt); ok {
					if _, isMap := info.TypeOf(rs.X).Underlying().(*types.Map); isMap {
						mapRanges++
						ordinal++
						idiom, problem := d.classifyMapRange(list, rs)
						cons := fmt.Sprintf("%s # range %s", FuncName(f), exprStr(P.Fset, rs.X))
						if problem != "" {
							r.bad("DET-MAPRANGE", cons, P.Pos(rs.Pos()), "ORDER-SENSITIVE: "+problem)
						} else {
							r.ok("DET-MAPRANGE", cons, P.Pos(rs.Pos()), "order-insensitive: "+idiom)
						}
					}
				}
				// recurse into nested blocks
				ast.Inspect(s, func(n ast.Node) bool {
					if n == ast.Node(s) {
						return true
					}
					switch x := n.(type) {
					case *ast.FuncLit:
						return false
					case *ast.BlockStmt:
						walk(x.List)
						return false
					case *ast.CaseClause:
						walk(x.Body)
						return false
					case *ast.CommClause:
						walk(x.Body)
						return false
					}
					return true
				})
			}
		}
		walk(body.List)

		// DET-SORT: comparators of sort.Slice / SliceStable anywhere in the function
		ast.Inspect(body, func(n ast.Node) bool {
			if _, ok := n.(*ast.FuncLit); ok && n != ast.Node(f.Syntax()) {
				return false
			}
			call, ok := n.(*ast.CallExpr)
			if !ok {
				return true
			}
			sel, ok := call.Fun.(*ast.SelectorExpr)
			if !ok {
				return true
			}
			fo, ok := info.Uses[sel.Sel].(*types.Func)
			if !ok {
				return true
			}
			switch fo.FullName() {
			case "sort.Slice", "sort.SliceStable":
				cons := fmt.Sprintf("%s # %s(%s)", FuncName(f), fo.FullName(), exprStr(P.Fset, call.Args[0]))
				lit, ok := call.Args[1].(*ast.FuncLit)
				if id, isId := call.Args[1].(*ast.Ident); !ok && isId {
					// `less := func(i, j int) bool {…}; sort.Slice(x, less)`: the literal the local was defined with
					ast.Inspect(body, func(m ast.Node) bool {
						if as, isAs := m.(*ast.AssignStmt); isAs && as.Tok == token.DEFINE && len(as.Lhs) == len(as.Rhs) {
							for k, l := range as.Lhs {
								if lid, isLid := l.(*ast.Ident); isLid && info.Defs[lid] != nil && info.Defs[lid] == info.Uses[id] {
									if fl, isFl := as.Rhs[k].(*ast.FuncLit); isFl {
										lit, ok = fl, true
									}
								}
							}
						}
						return true
					})
				}
				if !ok {
					r.broken("DET-SORT: comparator of %s at %s is not a function literal (undecided)", cons, P.Pos(call.Pos()))
					return true
				}
				cm, err := d.parseComparator(lit, fo.FullName())
				if err != "" {
					r.broken("DET-SORT: comparator at %s not understood: %s (undecided)", P.Pos(call.Pos()), err)
					return true
				}
				if v := cm.evaluate(); v != "" {
					r.bad("DET-SORT", cons, P.Pos(call.Pos()), "comparator "+v)
				} else {
					r.ok("DET-SORT", cons, P.Pos(call.Pos()), fmt.Sprintf("strict weak order over keys %v (27^%d orderings of three elements evaluated)", cm.keys, len(cm.keys)))
				}
			case "slices.SortFunc", "slices.SortStableFunc":
				r.broken("DET-SORT: %s at %s is not modelled (undecided)", fo.FullName(), P.Pos(call.Pos()))
			}
			return true
		})
	}
	r.Info["map_ranges_in_scope"] = mapRanges

	// DET-API over SSA
	apiSites := 0
	for _, f := range all {
		for _, b := range f.Blocks {
			for _, in := range b.Instrs {
				ck := func(what string) string { return fmt.Sprintf("%s # %s", FuncName(f), what) }
				switch x := in.(type) {
				case *ssa.Go:
					r.bad("DET-API", ck("go statement"), P.Pos(x.Pos()), "goroutine started in consensus code: scheduling-dependent")
				case *ssa.Select:
					r.bad("DET-API", ck("select"), P.Pos(x.Pos()), "select in consensus code")
				case *ssa.Send:
					r.bad("DET-API", ck("channel send"), P.Pos(x.Pos()), "channel operation in consensus code")
				case *ssa.UnOp:
					if x.Op == token.ARROW {
						r.bad("DET-API", ck("channel receive"), P.Pos(x.Pos()), "channel operation in consensus code")
					}
				case *ssa.BinOp:
					if isFloat(x.X.Type()) || isFloat(x.Y.Type()) {
						if _, c1 := x.X.(*ssa.Const); c1 {
							if _, c2 := x.Y.(*ssa.Const); c2 {
								continue
							}
						}
						r.bad("DET-API", ck("float "+x.Op.String()), P.Pos(x.Pos()), "floating-point arithmetic in consensus code")
					}
				case *ssa.Convert:
					if isFloat(x.Type()) != isFloat(x.X.Type()) {
						if _, c := x.X.(*ssa.Const); !c {
							r.bad("DET-API", ck("float conversion"), P.Pos(x.Pos()), "conversion to/from floating point in consensus code")
						}
					}
				}
				c, ok := in.(ssa.CallInstruction)
				if !ok {
					continue
				}
				name := CalleeName(c.Common())
				why := ""
				if w, ok := detDenyCalls[name]; ok {
					why = w
				} else if cal := c.Common().StaticCallee(); cal != nil && cal.Pkg != nil {
					if w, ok := detDenyPkgs[cal.Pkg.Pkg.Path()]; ok {
						why = w
					}
				}
				// zone-dependent readings of a time that was built in the process's local zone (time.Unix* return local
				// times; block times are UTC): calendar arithmetic, calendar fields and formatting differ between hosts
				if why == "" && zoneMethods[name] && len(c.Common().Args) > 0 {
					if t := NewTermer().Of(c.Common().Args[0]); (t.Contains("call:time.UnixMilli") || t.Contains("call:time.Unix") || t.Contains("call:time.UnixMicro") || t.Contains("global:time.Local")) && !t.Contains("call:(time.Time).UTC") && !t.Contains("call:(time.Time).In") {
						why = "calendar reading of a time in the host's local zone (time.Unix* builds local times; use .UTC())"
					}
				}
				if why == "" {
					continue
				}
				apiSites++
				// exception: time.Now() whose only uses are arguments of telemetry measurement calls
				if name == "time.Now" {
					if v, ok := in.(ssa.Value); ok && onlyTelemetryUses(v) {
						r.ok("DET-API", ck(name+" (telemetry)"), P.Pos(in.Pos()), "wall-clock value flows only into a telemetry measurement call")
						continue
					}
				}
				r.bad("DET-API", ck(name), P.Pos(in.Pos()), "nondeterministic source in consensus code: "+why+"; reached via "+PathTo(cons, TopFunc(f)))
			}
		}
	}
	r.Info["denylisted_api_sites_seen"] = apiSites
	r.minCount("DET-MAPRANGE", 3)
	r.minCount("DET-SORT", 3)
	r.minCount("DET-API", 1)
}

func onlyTelemetryUses(v ssa.Value) bool {
	refs := v.Referrers()
	if refs == nil || len(*refs) == 0 {
		return false
	}
	for _, ref := range *refs {
		c, ok := ref.(ssa.CallInstruction)
		if !ok {
			return false
		}
		name := CalleeName(c.Common())
		if !strings.Contains(name, "telemetry.") && !strings.Contains(name, "go-metrics.") {
			return false
		}
	}
	return true
}
