package keeper_test

import (
	"github.com/stretchr/testify/mock"
	"github.com/tellor-io/layer/x/dispute/types"

	"cosmossdk.io/math"

	stakingtypes "github.com/cosmos/cosmos-sdk/x/staking/types"
)

// D7 (dispute side): whatever the validators' status, the returned stake is sent to the bonded pool.
func (s *KeeperTestSuite) TestProbeD7bReturnAlwaysPaysBondedPool() {
	dispute := s.dispute()
	dispute.SlashAmount = math.NewInt(100)
	s.reporterKeeper.On("ReturnSlashedTokens", mock.Anything, math.NewInt(100), dispute.HashId).Return(nil)
	var pool string
	s.bankKeeper.On("SendCoinsFromModuleToModule", mock.Anything, types.ModuleName, mock.Anything, mock.Anything).Run(func(a mock.Arguments) { pool = a.String(2) }).Return(nil)
	s.NoError(s.disputeKeeper.ReturnSlashedTokens(s.ctx, dispute))
	s.Equal(stakingtypes.BondedPoolName, pool)
	s.T().Logf("dispute.ReturnSlashedTokens pays %s for every origin, also those the reporter keeper re-delegates with tokenSrc=Unbonded", pool)
}
