package keeper_test

import (
	"testing"
	"time"

	"github.com/stretchr/testify/mock"
	"github.com/stretchr/testify/require"
	"github.com/tellor-io/layer/testutil/sample"
	"github.com/tellor-io/layer/x/reporter/types"

	"cosmossdk.io/collections"
	"cosmossdk.io/math"

	sdk "github.com/cosmos/cosmos-sdk/types"
	stakingtypes "github.com/cosmos/cosmos-sdk/x/staking/types"
)

// D17: the only backer of a disputed report has since undelegated in two steps, so the stake
// that backed the report sits in two unbonding entries (5 and 10 tokens). A 12-token slash must
// follow the tokens into the unbonding entries: entry one is consumed, entry two reduced to 3,
// and 12 tokens leave the not-bonded pool. The walk over the entries removes from the slice it
// is ranging over and panics instead (index out of range), so the dispute cannot be opened.
func TestProbeD17SlashFollowsSeveralUnbondingEntries(t *testing.T) {
	k, sk, bk, _, ctx, _ := setupKeeper(t)
	reporter, selector := sample.AccAddressBytes(), sample.AccAddressBytes()
	val := sdk.ValAddress(sample.AccAddressBytes())
	queryId, hashId := []byte("query"), []byte("hash")
	require.NoError(t, k.Report.Set(ctx, collections.Join(queryId, collections.Join(reporter.Bytes(), uint64(10))), types.DelegationsAmounts{
		TokenOrigins: []*types.TokenOriginInfo{{DelegatorAddress: selector, ValidatorAddress: val, Amount: math.NewInt(15_000_000)}},
		Total:        math.NewInt(15_000_000),
	}))
	sk.On("GetDelegation", ctx, selector, val).Return(stakingtypes.Delegation{}, stakingtypes.ErrNoDelegation)
	ubd := stakingtypes.UnbondingDelegation{
		DelegatorAddress: selector.String(), ValidatorAddress: val.String(),
		Entries: []stakingtypes.UnbondingDelegationEntry{
			{CreationHeight: 11, CompletionTime: time.Unix(100, 0), InitialBalance: math.NewInt(5_000_000), Balance: math.NewInt(5_000_000)},
			{CreationHeight: 12, CompletionTime: time.Unix(200, 0), InitialBalance: math.NewInt(10_000_000), Balance: math.NewInt(10_000_000)},
		},
	}
	sk.On("GetUnbondingDelegation", ctx, selector, val).Return(ubd, nil)
	var stored stakingtypes.UnbondingDelegation
	sk.On("SetUnbondingDelegation", ctx, mock.Anything).Return(nil).Run(func(a mock.Arguments) { stored = a.Get(1).(stakingtypes.UnbondingDelegation) })
	moved := math.ZeroInt()
	bk.On("SendCoinsFromModuleToModule", ctx, stakingtypes.NotBondedPoolName, "dispute", mock.Anything).Return(nil).Run(func(a mock.Arguments) {
		moved = moved.Add(a.Get(3).(sdk.Coins).AmountOf("loya"))
	})
	slash := math.NewInt(12_000_000)
	require.NotPanics(t, func() {
		require.NoError(t, k.EscrowReporterStake(ctx, reporter, 15, 10, slash, queryId, hashId))
	})
	require.Equal(t, slash.String(), moved.String(), "12 tokens leave the not-bonded pool")
	require.Len(t, stored.Entries, 1)
	require.Equal(t, "3000000", stored.Entries[0].Balance.String(), "the second entry keeps 3 tokens")
	rec, err := k.DisputedDelegationAmounts.Get(ctx, hashId)
	require.NoError(t, err)
	require.Len(t, rec.TokenOrigins, 1)
	require.Equal(t, slash.String(), rec.TokenOrigins[0].Amount.String())
}
