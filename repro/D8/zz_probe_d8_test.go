package keeper_test

import (
	"testing"

	"github.com/stretchr/testify/mock"
	"github.com/stretchr/testify/require"
	"github.com/tellor-io/layer/testutil/sample"
	"github.com/tellor-io/layer/x/reporter/types"

	"cosmossdk.io/math"

	sdk "github.com/cosmos/cosmos-sdk/types"
	stakingtypes "github.com/cosmos/cosmos-sdk/x/staking/types"
)

// D8: a selector staked with two validators (30 and 200 tokens) pays a fee of 100 from stake.
// 30 are taken from the first validator and 70 from the second; the per-origin record must say so.
func TestProbeD8FeeTrackerRecordsWhatWasTaken(t *testing.T) {
	k, sk, bk, _, ctx, _ := setupKeeper(t)
	fee := math.NewInt(100)
	reporterAddr, selector := sample.AccAddressBytes(), sample.AccAddressBytes()
	require.NoError(t, k.Selectors.Set(ctx, selector, types.NewSelection(reporterAddr, 2)))
	val1, val2 := sdk.ValAddress(sample.AccAddressBytes()), sdk.ValAddress(sample.AccAddressBytes())
	dels := []stakingtypes.Delegation{
		{DelegatorAddress: selector.String(), ValidatorAddress: val1.String(), Shares: math.LegacyNewDec(30)},
		{DelegatorAddress: selector.String(), ValidatorAddress: val2.String(), Shares: math.LegacyNewDec(200)},
	}
	v1 := stakingtypes.Validator{Tokens: math.NewInt(30), DelegatorShares: math.LegacyNewDec(30), Status: stakingtypes.Bonded}
	v2 := stakingtypes.Validator{Tokens: math.NewInt(200), DelegatorShares: math.LegacyNewDec(200), Status: stakingtypes.Bonded}
	sk.On("GetValidator", ctx, val1).Return(v1, nil)
	sk.On("GetValidator", ctx, val2).Return(v2, nil)
	sk.On("IterateDelegatorDelegations", ctx, selector, mock.AnythingOfType("func(types.Delegation) bool")).Return(nil).Run(func(args mock.Arguments) {
		fn := args.Get(2).(func(stakingtypes.Delegation) bool)
		for _, d := range dels {
			fn(d)
		}
	})
	sk.On("Unbond", ctx, selector, val1, math.LegacyNewDec(30)).Return(math.NewInt(30), nil)
	sk.On("Unbond", ctx, selector, val2, math.LegacyNewDec(70)).Return(math.NewInt(70), nil)
	bk.On("SendCoinsFromModuleToModule", ctx, stakingtypes.BondedPoolName, "dispute", sdk.NewCoins(sdk.NewCoin("loya", fee))).Return(nil)
	require.NoError(t, k.FeefromReporterStake(ctx, reporterAddr, fee, []byte("hashId")))
	rec, err := k.FeePaidFromStake.Get(ctx, []byte("hashId"))
	require.NoError(t, err)
	require.Equal(t, "100", rec.Total.String())
	sum := math.ZeroInt()
	got := map[string]string{}
	for _, o := range rec.TokenOrigins {
		sum = sum.Add(o.Amount)
		got[sdk.ValAddress(o.ValidatorAddress).String()] = o.Amount.String()
	}
	require.Equal(t, "30", got[val1.String()], "30 tokens were taken from the first validator")
	require.Equal(t, "70", got[val2.String()], "70 tokens were taken from the second validator")
	require.Equal(t, "100", sum.String(), "the per-origin records must add up to the total taken")
}
