package keeper_test

import (
	"encoding/hex"
	"math/big"
	"testing"

	"github.com/ethereum/go-ethereum/accounts/abi"
	"github.com/ethereum/go-ethereum/common"
	"github.com/stretchr/testify/require"

	simtestutil "github.com/cosmos/cosmos-sdk/testutil/sims"
)

// D30: a deposit report of (2^64 + 5) x 10^12 wei. "Exactly the reported amount divided by 10^12 is minted": the decoder
// must hand back 2^64 + 5 loya -- or refuse the value -- and not its low 64 bits.
func TestProbeD30DecodedAmountIsNotTruncatedTo64Bits(t *testing.T) {
	k, _, _, _, _, _, ctx := setupKeeper(t)
	AddressType, _ := abi.NewType("address", "", nil)
	Uint256Type, _ := abi.NewType("uint256", "", nil)
	StringType, _ := abi.NewType("string", "", nil)
	args := abi.Arguments{{Type: AddressType}, {Type: StringType}, {Type: Uint256Type}, {Type: Uint256Type}}
	loya := new(big.Int).Add(new(big.Int).Lsh(big.NewInt(1), 64), big.NewInt(5))
	wei := new(big.Int).Mul(loya, big.NewInt(1e12))
	enc, err := args.Pack(common.HexToAddress("0x3386518F7ab3eb51591571adBE62CF94540EAd29"), simtestutil.CreateIncrementalAccounts(1)[0].String(), wei, big.NewInt(0))
	require.NoError(t, err)
	var amount string
	require.NotPanics(t, func() {
		_, coins, _, err := k.DecodeDepositReportValue(ctx, hex.EncodeToString(enc))
		if err == nil {
			amount = coins.AmountOf("loya").String()
		}
	})
	if amount != "" {
		require.Equal(t, loya.String(), amount, "decoded amount differs from reported amount / 10^12")
	}
}
