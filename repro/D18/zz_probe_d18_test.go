package keeper_test

import (
	"testing"

	"github.com/stretchr/testify/mock"
	"github.com/stretchr/testify/require"
	"github.com/tellor-io/layer/testutil/sample"
	"github.com/tellor-io/layer/x/reporter/types"

	"cosmossdk.io/collections"
	"cosmossdk.io/math"

	sdk "github.com/cosmos/cosmos-sdk/types"
	stakingtypes "github.com/cosmos/cosmos-sdk/x/staking/types"
)

// D18: the backer of a disputed report (10 tokens at validator A) has redelegated to validator B,
// and B has since been slashed by consensus so that the delegation is worth 4 tokens. A 10-token
// slash finds nothing at A, follows the redelegation to B and can take only 4 tokens there.
// The remainder returned by the second chase is discarded: the per-backer record says 10 tokens
// were taken from B (and Total 10) while only 4 tokens left the pool.
func TestProbeD18RecordEqualsWhatLeftThePool(t *testing.T) {
	k, sk, bk, _, ctx, _ := setupKeeper(t)
	reporter, selector := sample.AccAddressBytes(), sample.AccAddressBytes()
	valA, valB := sdk.ValAddress(sample.AccAddressBytes()), sdk.ValAddress(sample.AccAddressBytes())
	queryId, hashId := []byte("query"), []byte("hash")
	require.NoError(t, k.Report.Set(ctx, collections.Join(queryId, collections.Join(reporter.Bytes(), uint64(10))), types.DelegationsAmounts{
		TokenOrigins: []*types.TokenOriginInfo{{DelegatorAddress: selector, ValidatorAddress: valA, Amount: math.NewInt(10_000_000)}},
		Total:        math.NewInt(10_000_000),
	}))
	// nothing left at A
	sk.On("GetDelegation", ctx, selector, valA).Return(stakingtypes.Delegation{}, stakingtypes.ErrNoDelegation)
	sk.On("GetUnbondingDelegation", ctx, selector, valA).Return(stakingtypes.UnbondingDelegation{}, stakingtypes.ErrNoUnbondingDelegation)
	sk.On("GetRedelegationsFromSrcValidator", ctx, valA).Return([]stakingtypes.Redelegation{{DelegatorAddress: selector.String(), ValidatorSrcAddress: valA.String(), ValidatorDstAddress: valB.String()}}, nil)
	// 10 shares at B, worth 4 tokens after B was slashed
	vB := stakingtypes.Validator{OperatorAddress: valB.String(), Tokens: math.NewInt(4_000_000), DelegatorShares: math.LegacyNewDec(10_000_000), Status: stakingtypes.Bonded}
	sk.On("GetDelegation", ctx, selector, valB).Return(stakingtypes.Delegation{DelegatorAddress: selector.String(), ValidatorAddress: valB.String(), Shares: math.LegacyNewDec(10_000_000)}, nil)
	sk.On("GetValidator", ctx, valB).Return(vB, nil)
	sk.On("Unbond", ctx, selector, valB, math.LegacyNewDec(10_000_000)).Return(math.NewInt(4_000_000), nil)
	sk.On("GetUnbondingDelegation", ctx, selector, valB).Return(stakingtypes.UnbondingDelegation{}, stakingtypes.ErrNoUnbondingDelegation)
	moved := math.ZeroInt()
	bk.On("SendCoinsFromModuleToModule", ctx, mock.Anything, "dispute", mock.Anything).Return(nil).Run(func(a mock.Arguments) {
		moved = moved.Add(a.Get(3).(sdk.Coins).AmountOf("loya"))
	})
	require.NoError(t, k.EscrowReporterStake(ctx, reporter, 10, 10, math.NewInt(10_000_000), queryId, hashId))
	require.Equal(t, "4000000", moved.String(), "only 4 tokens could be taken")
	rec, err := k.DisputedDelegationAmounts.Get(ctx, hashId)
	require.NoError(t, err)
	sum := math.ZeroInt()
	for _, o := range rec.TokenOrigins {
		sum = sum.Add(o.Amount)
	}
	require.Equal(t, moved.String(), sum.String(), "the per-backer record must add up to what left the pool")
	require.Equal(t, moved.String(), rec.Total.String(), "the recorded total must be what left the pool")
}
