package integration_test

import (
	"encoding/hex"
	"time"

	"github.com/tellor-io/layer/x/dispute"
	"github.com/tellor-io/layer/x/dispute/keeper"
	"github.com/tellor-io/layer/x/dispute/types"
	oracletypes "github.com/tellor-io/layer/x/oracle/types"
	reportertypes "github.com/tellor-io/layer/x/reporter/types"

	"cosmossdk.io/math"

	sdk "github.com/cosmos/cosmos-sdk/types"
	authtypes "github.com/cosmos/cosmos-sdk/x/auth/types"
)

// D26 probe (C13): GetSumOfAllGroupVotesAllRounds counts the team's vote, so ExecuteVote sets half of the burn amount aside
// as voters' reward when only the team voted; CalculateReward knows three groups (users, reporters, token holders) and
// answers "no votes found" to the team: the pot can never be claimed and is never burned.
// Place in tests/integration/ and run:
//   go test -vet=off -count=1 ./tests/integration/ -run 'TestKeeperTestSuite/TestProbeD26'
func (s *IntegrationTestSuite) TestProbeD26OnlyTheTeamVotes() {
	require := s.Require()
	k := s.Setup.Disputekeeper
	bk := s.Setup.Bankkeeper
	denom := s.Setup.Denom
	msgServer := keeper.NewMsgServerImpl(k)

	repAccs, _, _ := s.createValidatorAccs([]uint64{100, 200})
	reporter1Acc := repAccs[0]
	require.NoError(s.Setup.Reporterkeeper.Reporters.Set(s.Setup.Ctx, reporter1Acc, reportertypes.NewReporter(reportertypes.DefaultMinCommissionRate, math.OneInt())))
	require.NoError(s.Setup.Reporterkeeper.Selectors.Set(s.Setup.Ctx, reporter1Acc, reportertypes.NewSelection(reporter1Acc, 1)))

	qId, _ := hex.DecodeString("83a7f3d48786ac2667503a61e8c415438ed2922eb86a2906e4ee66d9a2ce4992")
	stake, err := s.Setup.Reporterkeeper.ReporterStake(s.Setup.Ctx, reporter1Acc, qId)
	require.NoError(err)
	report := oracletypes.MicroReport{
		Reporter:    reporter1Acc.String(),
		Power:       stake.Quo(sdk.DefaultPowerReduction).Uint64(),
		QueryId:     qId,
		Value:       "000000000000000000000000000000000000000000000058528649cf80ee0000",
		Timestamp:   time.Unix(1696516597, 0),
		BlockNumber: uint64(s.Setup.Ctx.BlockHeight()),
	}
	disputeFee, err := k.GetDisputeFee(s.Setup.Ctx, report, types.Warning)
	require.NoError(err)
	disputer := s.newKeysWithTokens()
	s.Setup.MintTokens(disputer, math.NewInt(100_000_000))
	_, err = msgServer.ProposeDispute(s.Setup.Ctx, &types.MsgProposeDispute{Creator: disputer.String(), Report: &report, Fee: sdk.NewCoin(denom, disputeFee), DisputeCategory: types.Warning})
	require.NoError(err)

	team, err := k.GetTeamAddress(s.Setup.Ctx)
	require.NoError(err)
	_, err = msgServer.Vote(s.Setup.Ctx, &types.MsgVote{Voter: team.String(), Id: 1, Vote: types.VoteEnum_VOTE_SUPPORT})
	require.NoError(err)

	// the vote period ends without a quorum, then the dispute expires and is executed
	s.Setup.Ctx = s.Setup.Ctx.WithBlockTime(s.Setup.Ctx.BlockTime().Add(keeper.TWO_DAYS + 1))
	require.NoError(dispute.BeginBlocker(s.Setup.Ctx, k))
	s.Setup.Ctx = s.Setup.Ctx.WithBlockTime(s.Setup.Ctx.BlockTime().Add(keeper.ONE_DAY + 1))
	require.NoError(dispute.BeginBlocker(s.Setup.Ctx, k))
	v, err := k.Votes.Get(s.Setup.Ctx, 1)
	require.NoError(err)
	require.True(v.Executed)
	d, err := k.Disputes.Get(s.Setup.Ctx, 1)
	require.NoError(err)

	moduleAddr := authtypes.NewModuleAddress(types.ModuleName)
	before := bk.GetBalance(s.Setup.Ctx, team, denom).Amount
	_, claimErr := msgServer.ClaimReward(s.Setup.Ctx, &types.MsgClaimReward{CallerAddress: team.String(), DisputeId: 1})
	got := bk.GetBalance(s.Setup.Ctx, team, denom).Amount.Sub(before)
	_ = moduleAddr
	// a pot reserved for the voters must be claimable by the voters; otherwise nothing may be reserved
	if d.VoterReward.IsPositive() {
		require.NoErrorf(claimErr, "a voter reward of %s loya was set aside and the only voter cannot claim it", d.VoterReward)
		require.Equal(d.VoterReward.String(), got.String())
	}
}
