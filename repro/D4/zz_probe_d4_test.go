package keeper_test

import (
	"encoding/hex"

	"github.com/stretchr/testify/mock"
	"github.com/tellor-io/layer/x/oracle/types"
	regtypes "github.com/tellor-io/layer/x/registry/types"
)

// D4: governance replaces the cycle list by a shorter one while the stored rotation index
// points past its end: the oracle end blocker (RotateQueries) indexes out of range.
func (s *KeeperTestSuite) TestProbeD4ShorterCyclelistEndBlock() {
	k := s.oracleKeeper
	ctx := s.ctx.WithBlockHeight(10)
	matic, _ := hex.DecodeString("00000000000000000000000000000000000000000000000000000000000000400000000000000000000000000000000000000000000000000000000000000080000000000000000000000000000000000000000000000000000000000000000953706F745072696365000000000000000000000000000000000000000000000000000000000000000000000000000000000000000000000000000000000000C00000000000000000000000000000000000000000000000000000000000000040000000000000000000000000000000000000000000000000000000000000008000000000000000000000000000000000000000000000000000000000000000056D6174696300000000000000000000000000000000000000000000000000000000000000000000000000000000000000000000000000000000000000000000037573640000000000000000000000000000000000000000000000000000000000")
	s.registryKeeper.On("GetSpec", mock.Anything, "SpotPrice").Return(regtypes.DataSpec{ResponseValueType: "uint256", AggregationMethod: "weighted-median"}, nil).Maybe()
	// the chain had a three-entry list (genesis default) and the rotation index stands at its last entry
	s.Require().NoError(k.CyclelistSequencer.Set(ctx, 2))
	_, err := s.msgServer.UpdateCyclelist(ctx, &types.MsgUpdateCyclelist{Authority: k.GetAuthority(), Cyclelist: [][]byte{matic}})
	s.Require().NoError(err)
	s.Require().NotPanics(func() {
		s.Require().NoError(k.RotateQueries(ctx))
	}, "end blocker must survive a shorter cycle list")
	// an empty list must be rejected by the handler, not discovered in the end blocker
	_, err = s.msgServer.UpdateCyclelist(ctx, &types.MsgUpdateCyclelist{Authority: k.GetAuthority(), Cyclelist: nil})
	s.Require().Error(err)
}
