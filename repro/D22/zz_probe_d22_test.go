package integration_test

import (
	"encoding/hex"
	"time"

	"github.com/tellor-io/layer/x/dispute"
	"github.com/tellor-io/layer/x/dispute/keeper"
	"github.com/tellor-io/layer/x/dispute/types"
	oracletypes "github.com/tellor-io/layer/x/oracle/types"
	reportertypes "github.com/tellor-io/layer/x/reporter/types"

	"cosmossdk.io/math"

	sdk "github.com/cosmos/cosmos-sdk/types"
	authtypes "github.com/cosmos/cosmos-sdk/x/auth/types"
)

// D22 probe (C13): GetSumOfAllGroupVotesAllRounds treats an earlier round without vote counts as zeros, so a voter
// reward is set aside when only the last round has voters; CalculateReward returns the NotFound of that earlier
// round's VoteCountsByGroup to every claimant: the pot can never be claimed.
// History: nobody votes in round one, a second round is opened and gets votes, the dispute is executed.
// Place in tests/integration/ and run:
//   go test -vet=off -count=1 ./tests/integration/ -run 'TestKeeperTestSuite/TestProbeD22' 
func (s *IntegrationTestSuite) TestProbeD22FirstRoundWithoutVotes() {
	require := s.Require()
	k := s.Setup.Disputekeeper
	bk := s.Setup.Bankkeeper
	denom := s.Setup.Denom
	msgServer := keeper.NewMsgServerImpl(k)

	repAccs, _, _ := s.createValidatorAccs([]uint64{100, 200})
	reporter1Acc := repAccs[0]
	voter1 := repAccs[1]
	require.NoError(s.Setup.Reporterkeeper.Reporters.Set(s.Setup.Ctx, reporter1Acc, reportertypes.NewReporter(reportertypes.DefaultMinCommissionRate, math.OneInt())))
	require.NoError(s.Setup.Reporterkeeper.Selectors.Set(s.Setup.Ctx, reporter1Acc, reportertypes.NewSelection(reporter1Acc, 1)))

	qId, _ := hex.DecodeString("83a7f3d48786ac2667503a61e8c415438ed2922eb86a2906e4ee66d9a2ce4992")
	stake, err := s.Setup.Reporterkeeper.ReporterStake(s.Setup.Ctx, reporter1Acc, qId)
	require.NoError(err)

	report := oracletypes.MicroReport{
		Reporter:    reporter1Acc.String(),
		Power:       stake.Quo(sdk.DefaultPowerReduction).Uint64(),
		QueryId:     qId,
		Value:       "000000000000000000000000000000000000000000000058528649cf80ee0000",
		Timestamp:   time.Unix(1696516597, 0),
		BlockNumber: uint64(s.Setup.Ctx.BlockHeight()),
	}
	disputeFee, err := k.GetDisputeFee(s.Setup.Ctx, report, types.Warning)
	require.NoError(err)

	disputer := s.newKeysWithTokens()
	s.Setup.MintTokens(disputer, math.NewInt(100_000_000))
	voter2 := s.newKeysWithTokens()
	s.Setup.MintTokens(voter2, math.NewInt(33_333_333))

	disputeMsg := types.MsgProposeDispute{
		Creator:         disputer.String(),
		Report:          &report,
		Fee:             sdk.NewCoin(denom, disputeFee),
		DisputeCategory: types.Warning,
	}
	// round one
	_, err = msgServer.ProposeDispute(s.Setup.Ctx, &disputeMsg)
	require.NoError(err)

	voters := []sdk.AccAddress{voter1, voter2, disputer}
	// the vote period of round one ends without a quorum
	s.Setup.Ctx = s.Setup.Ctx.WithBlockTime(s.Setup.Ctx.BlockTime().Add(keeper.TWO_DAYS + 1))
	require.NoError(dispute.BeginBlocker(s.Setup.Ctx, k))
	d1, err := k.Disputes.Get(s.Setup.Ctx, 1)
	require.NoError(err)
	require.Equal(types.Unresolved, d1.DisputeStatus)

	// round two, everybody votes (no quorum)
	_, err = msgServer.ProposeDispute(s.Setup.Ctx, &disputeMsg)
	require.NoError(err)
	for _, v := range voters {
		_, err = msgServer.Vote(s.Setup.Ctx, &types.MsgVote{Voter: v.String(), Id: 2, Vote: types.VoteEnum_VOTE_SUPPORT})
		require.NoError(err)
	}
	s.Setup.Ctx = s.Setup.Ctx.WithBlockTime(s.Setup.Ctx.BlockTime().Add(keeper.TWO_DAYS + 1))
	require.NoError(dispute.BeginBlocker(s.Setup.Ctx, k))
	v2, err := k.Votes.Get(s.Setup.Ctx, 2)
	require.NoError(err)
	require.False(v2.Executed)

	// the dispute expires and is executed by the begin blocker
	supplyBefore := bk.GetSupply(s.Setup.Ctx, denom).Amount
	s.Setup.Ctx = s.Setup.Ctx.WithBlockTime(s.Setup.Ctx.BlockTime().Add(keeper.ONE_DAY + 1))
	require.NoError(dispute.BeginBlocker(s.Setup.Ctx, k))
	v2, err = k.Votes.Get(s.Setup.Ctx, 2)
	require.NoError(err)
	require.True(v2.Executed)
	burned := supplyBefore.Sub(bk.GetSupply(s.Setup.Ctx, denom).Amount)

	d2, err := k.Disputes.Get(s.Setup.Ctx, 2)
	require.NoError(err)
	// 5% of the fee plus the fee of the second round
	require.Equal(disputeFee.QuoRaw(20).MulRaw(3), d2.BurnAmount)

	// every voter tries to claim
	moduleAddr := authtypes.NewModuleAddress(types.ModuleName)
	escrowBeforeClaims := bk.GetBalance(s.Setup.Ctx, moduleAddr, denom).Amount
	claimed := math.ZeroInt()
	failedClaims := 0
	for _, v := range voters {
		before := bk.GetBalance(s.Setup.Ctx, v, denom).Amount
		_, err := msgServer.ClaimReward(s.Setup.Ctx, &types.MsgClaimReward{CallerAddress: v.String(), DisputeId: 2})
		if err != nil {
			failedClaims++
		}
		claimed = claimed.Add(bk.GetBalance(s.Setup.Ctx, v, denom).Amount.Sub(before))
	}
	require.Equal(escrowBeforeClaims.Sub(claimed), bk.GetBalance(s.Setup.Ctx, moduleAddr, denom).Amount)

	// a pot reserved for the voters must be claimable by the voters
	if d2.VoterReward.IsPositive() {
		require.Zerof(failedClaims, "a voter reward of %s loya was set aside but %d of %d voters cannot claim", d2.VoterReward, failedClaims, len(voters))
	}
	// the cut is burned or paid to the voters, at most one loya per voter is lost to truncation
	unaccounted := d2.BurnAmount.Sub(burned).Sub(claimed)
	require.Truef(unaccounted.LTE(math.NewInt(int64(len(voters)))),
		"cut %s loya: burned %s, claimed by voters %s, %s loya stay in escrow and nobody can claim them", d2.BurnAmount, burned, claimed, unaccounted)
}
