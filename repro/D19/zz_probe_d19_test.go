package integration_test

import (
	"time"

	"github.com/tellor-io/layer/x/mint"
)

// D19: consensus time may advance by as little as 1 ms (the engine's minimum increment after a
// validator clock step-back). The block provision for 1 ms is 1 loya; a quarter of it is 0, and
// SendInflationaryRewards hands x/bank an output with no coins, which InputOutputCoins rejects:
// the mint BeginBlocker returns "invalid coins" and block processing fails.
func (s *IntegrationTestSuite) TestProbeD19MintWithSmallBlockTimeGap() {
	k := s.Setup.Mintkeeper
	for _, gap := range []time.Duration{time.Millisecond, 2 * time.Millisecond, 3 * time.Millisecond, 5 * time.Millisecond} {
		minter, err := k.Minter.Get(s.Setup.Ctx)
		s.NoError(err)
		minter.Initialized = true
		prev := time.Unix(1_700_000_000, 0)
		minter.PreviousBlockTime = &prev
		s.NoError(k.Minter.Set(s.Setup.Ctx, minter))
		ctx := s.Setup.Ctx.WithBlockTime(prev.Add(gap))
		s.NoError(mint.BeginBlocker(ctx, k), "block time gap %s", gap)
	}
}
