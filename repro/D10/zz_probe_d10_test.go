package keeper_test

import (
	"github.com/stretchr/testify/mock"
	"github.com/tellor-io/layer/testutil/sample"
	"github.com/tellor-io/layer/x/dispute/types"

	"cosmossdk.io/collections"
	"cosmossdk.io/math"

	sdk "github.com/cosmos/cosmos-sdk/types"
)

// D10: a payer who pays towards the same dispute twice must be recorded with the sum.
func (k *KeeperTestSuite) TestProbeD10RepeatedPayment() {
	creator := sample.AccAddressBytes()
	dispute := k.dispute()
	dispute.FeeTotal = math.ZeroInt()
	dispute.InitialEvidence.QueryId = []byte("query")
	k.NoError(k.disputeKeeper.Disputes.Set(k.ctx, dispute.DisputeId, dispute))
	k.bankKeeper.On("HasBalance", mock.Anything, creator, mock.Anything).Return(true)
	k.bankKeeper.On("SendCoinsFromAccountToModule", mock.Anything, creator, types.ModuleName, mock.Anything).Return(nil)
	for _, amt := range []int64{3000, 2000} {
		_, err := k.msgServer.AddFeeToDispute(k.ctx, &types.MsgAddFeeToDispute{Creator: creator.String(), DisputeId: 1, Amount: sdk.NewCoin("loya", math.NewInt(amt))})
		k.NoError(err)
	}
	d, err := k.disputeKeeper.Disputes.Get(k.ctx, 1)
	k.NoError(err)
	k.Equal(math.NewInt(5000), d.FeeTotal)
	info, err := k.disputeKeeper.DisputeFeePayer.Get(k.ctx, collections.Join(uint64(1), creator.Bytes()))
	k.NoError(err)
	k.Equal("5000", info.Amount.String(), "the payer's record must equal what the payer paid (5000), it is the basis of the pro-rata refund")
}
