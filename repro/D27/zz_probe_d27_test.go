package integration_test

import (
	"encoding/hex"
	"time"

	"github.com/tellor-io/layer/x/dispute"
	"github.com/tellor-io/layer/x/dispute/keeper"
	"github.com/tellor-io/layer/x/dispute/types"
	oracletypes "github.com/tellor-io/layer/x/oracle/types"
	reportertypes "github.com/tellor-io/layer/x/reporter/types"

	"cosmossdk.io/math"

	sdk "github.com/cosmos/cosmos-sdk/types"
	authtypes "github.com/cosmos/cosmos-sdk/x/auth/types"
)

// D27 probe (C02): every later round adds its whole fee to BurnAmount (5 %, 15 %, 35 %, 75 %, 155 %, 255 % of the slash amount
// after one to six rounds). When the last round ends AGAINST the reporter, ExecuteVote hands the reporter
// SlashAmount + (SlashAmount - BurnAmount), which is negative from the sixth round on: sdk.NewCoin panics inside the dispute
// BeginBlocker, the dispute stays pending, and every following block panics again.
// Place in tests/integration/ and run:
//   go test -vet=off -count=1 ./tests/integration/ -run 'TestKeeperTestSuite/TestProbeD27'
func (s *IntegrationTestSuite) TestProbeD27SixRoundsAgainst() {
	require := s.Require()
	k := s.Setup.Disputekeeper
	denom := s.Setup.Denom
	msgServer := keeper.NewMsgServerImpl(k)

	repAccs, _, _ := s.createValidatorAccs([]uint64{100, 200})
	reporter1Acc := repAccs[0]
	require.NoError(s.Setup.Reporterkeeper.Reporters.Set(s.Setup.Ctx, reporter1Acc, reportertypes.NewReporter(reportertypes.DefaultMinCommissionRate, math.OneInt())))
	require.NoError(s.Setup.Reporterkeeper.Selectors.Set(s.Setup.Ctx, reporter1Acc, reportertypes.NewSelection(reporter1Acc, 1)))

	qId, _ := hex.DecodeString("83a7f3d48786ac2667503a61e8c415438ed2922eb86a2906e4ee66d9a2ce4992")
	stake, err := s.Setup.Reporterkeeper.ReporterStake(s.Setup.Ctx, reporter1Acc, qId)
	require.NoError(err)
	report := oracletypes.MicroReport{
		Reporter:    reporter1Acc.String(),
		Power:       stake.Quo(sdk.DefaultPowerReduction).Uint64(),
		QueryId:     qId,
		Value:       "000000000000000000000000000000000000000000000058528649cf80ee0000",
		Timestamp:   time.Unix(1696516597, 0),
		BlockNumber: uint64(s.Setup.Ctx.BlockHeight()),
	}
	disputeFee, err := k.GetDisputeFee(s.Setup.Ctx, report, types.Warning)
	require.NoError(err)
	disputer := s.newKeysWithTokens()
	s.Setup.MintTokens(disputer, disputeFee.MulRaw(10))
	holder := s.newKeysWithTokens()
	s.Setup.MintTokens(holder, math.NewInt(1_000_000))
	_ = authtypes.ModuleName

	disputeMsg := types.MsgProposeDispute{Creator: disputer.String(), Report: &report, Fee: sdk.NewCoin(denom, disputeFee), DisputeCategory: types.Warning}
	const rounds = 6
	last := uint64(0)
	for round := uint64(1); round <= rounds; round++ {
		_, err = msgServer.ProposeDispute(s.Setup.Ctx, &disputeMsg)
		if err != nil {
			// a round the chain refuses is not part of the history
			s.T().Logf("round %d refused: %v", round, err)
			break
		}
		last = round
		_, err = msgServer.Vote(s.Setup.Ctx, &types.MsgVote{Voter: holder.String(), Id: round, Vote: types.VoteEnum_VOTE_AGAINST})
		require.NoErrorf(err, "vote in round %d", round)
		// the vote period ends without a quorum
		s.Setup.Ctx = s.Setup.Ctx.WithBlockTime(s.Setup.Ctx.BlockTime().Add(keeper.TWO_DAYS + 1))
		require.NoError(dispute.BeginBlocker(s.Setup.Ctx, k))
	}
	d, err := k.Disputes.Get(s.Setup.Ctx, last)
	require.NoError(err)
	s.T().Logf("after %d rounds: slash %s burn %s", last, d.SlashAmount, d.BurnAmount)
	// the dispute expires: the begin blocker executes it
	s.Setup.Ctx = s.Setup.Ctx.WithBlockTime(s.Setup.Ctx.BlockTime().Add(keeper.ONE_DAY + 1))
	require.NotPanics(func() {
		require.NoError(dispute.BeginBlocker(s.Setup.Ctx, k))
	}, "the dispute begin blocker must not panic on a history of accepted transactions")
}
