package integration_test

import (
	"github.com/tellor-io/layer/testutil/sample"
	disputetypes "github.com/tellor-io/layer/x/dispute/types"

	"cosmossdk.io/math"

	sdk "github.com/cosmos/cosmos-sdk/types"
)

// D20: a fee payer whose share of the reporter's bond truncates to zero (paid 1 loya of a 10000 loya
// fee, bond 5000 loya) is "rewarded" with a delegation of zero tokens: x/staking creates a delegation
// record with zero shares, which its own positive-delegation invariant forbids.
func (s *IntegrationTestSuite) TestProbeD20NoZeroShareDelegation() {
	_, valAddrs, _ := s.Setup.CreateValidators(1)
	payer := sample.AccAddressBytes()
	ctx := s.Setup.Ctx
	_, err := s.Setup.Disputekeeper.RewardReporterBondToFeePayers(ctx, payer, disputetypes.PayerInfo{Amount: math.NewInt(1), FromBond: false}, math.NewInt(10_000), math.NewInt(5_000))
	s.NoError(err)
	del, err := s.Setup.Stakingkeeper.GetDelegation(ctx, payer, valAddrs[0])
	if err == nil {
		s.True(del.Shares.IsPositive(), "delegation of %s to %s has shares %s", sdk.AccAddress(payer), valAddrs[0], del.Shares)
	}
	dels, err := s.Setup.Stakingkeeper.GetAllDelegatorDelegations(ctx, payer)
	s.NoError(err)
	for _, d := range dels {
		s.True(d.Shares.IsPositive(), "delegation with shares %s", d.Shares)
	}
}
