package keeper_test

import (
	"time"

	"github.com/stretchr/testify/mock"
	"github.com/tellor-io/layer/x/dispute"
	"github.com/tellor-io/layer/x/dispute/types"

	"cosmossdk.io/math"

	sdk "github.com/cosmos/cosmos-sdk/types"
)

// D3: a tied tally after the voting period makes the dispute BeginBlocker return an error.
func (s *KeeperTestSuite) TestProbeD3TieFailsBeginBlocker() {
	k := s.disputeKeeper
	now := time.Unix(1_700_000_000, 0).UTC()
	ctx := s.ctx.WithBlockTime(now)
	id := uint64(1)
	hash := []byte("hash")
	s.Require().NoError(k.Disputes.Set(ctx, id, types.Dispute{
		DisputeId: id, HashId: hash, DisputeStatus: types.Voting, Open: true,
		DisputeEndTime: now.Add(24 * time.Hour), SlashAmount: math.NewInt(1000), FeeTotal: math.NewInt(1000), BurnAmount: math.NewInt(50),
	}))
	s.Require().NoError(k.Votes.Set(ctx, id, types.Vote{Id: id, VoteStart: now.Add(-49 * time.Hour), VoteEnd: now.Add(-time.Hour), VoteResult: types.VoteResult_NO_TALLY}))
	s.Require().NoError(k.BlockInfo.Set(ctx, hash, types.BlockInfo{TotalReporterPower: math.NewInt(1000), TotalUserTips: math.NewInt(1000)}))
	// two users voted with equal tip weight on opposite sides
	s.Require().NoError(k.VoteCountsByGroup.Set(ctx, id, types.StakeholderVoteCounts{Users: types.VoteCounts{Support: 10, Against: 10}}))
	a, b := sdk.AccAddress([]byte("voter-a-------------")), sdk.AccAddress([]byte("voter-b-------------"))
	s.Require().NoError(k.Voter.Set(ctx, collectionsJoin(id, a.Bytes()), types.Voter{Vote: types.VoteEnum_VOTE_SUPPORT, VoterPower: math.NewInt(10)}))
	s.Require().NoError(k.Voter.Set(ctx, collectionsJoin(id, b.Bytes()), types.Voter{Vote: types.VoteEnum_VOTE_AGAINST, VoterPower: math.NewInt(10)}))
	s.bankKeeper.On("GetSupply", mock.Anything, mock.Anything).Return(sdk.NewCoin("loya", math.NewInt(1_000_000))).Maybe()
	err := dispute.BeginBlocker(ctx, k)
	s.Require().NoError(err, "BeginBlocker must not fail on a tied vote")
	v, err := k.Votes.Get(ctx, id)
	s.Require().NoError(err)
	s.Require().NotEqual(types.VoteResult_NO_TALLY, v.VoteResult, "a tied vote must still be decided")
}
