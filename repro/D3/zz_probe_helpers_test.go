package keeper_test

import "cosmossdk.io/collections"

func collectionsJoin(id uint64, addr []byte) collections.Pair[uint64, []byte] {
	return collections.Join(id, addr)
}
