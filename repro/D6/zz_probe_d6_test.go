package keeper_test

import (
	"testing"

	"github.com/stretchr/testify/require"
	"github.com/tellor-io/layer/testutil/sample"
	"github.com/tellor-io/layer/x/reporter/types"

	"cosmossdk.io/collections"
	"cosmossdk.io/math"

	sdk "github.com/cosmos/cosmos-sdk/types"
)

// D6: a reporter with commission rate 1/2 is itself staked with two validators (500 + 500) and has
// one further selector (1000). A reward of 1000 must be credited as 1000 in total: commission 500 to
// the reporter once, and the net 500 split 250 (reporter's own stake) / 250 (selector).
// The commission is added once per token origin of the reporter, so 1500 is credited.
func TestProbeD6CommissionCreditedOnce(t *testing.T) {
	k, _, _, _, ctx, _ := setupKeeper(t)
	reporter, selector := sample.AccAddressBytes(), sample.AccAddressBytes()
	val1, val2 := sdk.ValAddress(sample.AccAddressBytes()), sdk.ValAddress(sample.AccAddressBytes())
	require.NoError(t, k.Reporters.Set(ctx, reporter, types.NewReporter(math.LegacyNewDecWithPrec(5, 1), math.OneInt())))
	origins := []*types.TokenOriginInfo{
		{DelegatorAddress: reporter, ValidatorAddress: val1, Amount: math.NewInt(500)},
		{DelegatorAddress: reporter, ValidatorAddress: val2, Amount: math.NewInt(500)},
		{DelegatorAddress: selector, ValidatorAddress: val1, Amount: math.NewInt(1000)},
	}
	require.NoError(t, k.Report.Set(ctx, collections.Join([]byte("q"), collections.Join(reporter.Bytes(), uint64(10))), types.DelegationsAmounts{TokenOrigins: origins, Total: math.NewInt(2000)}))
	require.NoError(t, k.DivvyingTips(ctx, reporter, math.LegacyNewDec(1000), []byte("q"), 10))
	rep, err := k.SelectorTips.Get(ctx, reporter.Bytes())
	require.NoError(t, err)
	sel, err := k.SelectorTips.Get(ctx, selector.Bytes())
	require.NoError(t, err)
	require.Equal(t, math.LegacyNewDec(250).String(), sel.String())
	require.Equal(t, math.LegacyNewDec(1000).String(), rep.Add(sel).String(), "credits must add up to the reward")
	require.Equal(t, math.LegacyNewDec(750).String(), rep.String(), "commission 500 once + own share 250")
}
