package keeper_test

import (
	"github.com/stretchr/testify/mock"
	"github.com/tellor-io/layer/testutil/sample"
	"github.com/tellor-io/layer/x/dispute/types"

	"cosmossdk.io/collections"
	"cosmossdk.io/math"

	sdk "github.com/cosmos/cosmos-sdk/types"
)

// D12: an under-funded dispute fails; its single payer withdraws the refund. Nothing was
// burned, yet the payer receives only 5% and the rest stays in the dispute escrow for ever.
func (k *KeeperTestSuite) TestProbeD12FailedDisputeRefund() {
	payer := sample.AccAddressBytes()
	dispute := k.dispute()
	dispute.DisputeStatus = types.Failed
	dispute.Open = false
	dispute.FeeTotal = math.NewInt(4000) // of a slash amount of 10000: under-funded
	k.NoError(k.disputeKeeper.Disputes.Set(k.ctx, dispute.DisputeId, dispute))
	k.NoError(k.disputeKeeper.DisputeFeePayer.Set(k.ctx, collections.Join(uint64(1), payer.Bytes()), types.PayerInfo{Amount: math.NewInt(4000)}))
	k.NoError(k.disputeKeeper.Dust.Set(k.ctx, math.ZeroInt()))
	var paid sdk.Coins
	k.bankKeeper.On("SendCoinsFromModuleToAccount", mock.Anything, types.ModuleName, payer, mock.Anything).Run(func(args mock.Arguments) {
		paid = args.Get(3).(sdk.Coins)
	}).Return(nil)
	_, err := k.msgServer.WithdrawFeeRefund(k.ctx, &types.MsgWithdrawFeeRefund{CallerAddress: payer.String(), PayerAddress: payer.String(), Id: 1})
	k.NoError(err)
	k.Equal("4000", paid.AmountOf("loya").String(), "the only payer of a failed dispute must get the escrowed fee back; nothing else can ever claim it")
}
