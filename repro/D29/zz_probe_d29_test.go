package keeper_test

import (
	"testing"

	"github.com/stretchr/testify/mock"
	"github.com/stretchr/testify/require"
	"github.com/tellor-io/layer/testutil/sample"
	"github.com/tellor-io/layer/x/reporter/types"

	"cosmossdk.io/collections"
	"cosmossdk.io/math"

	sdk "github.com/cosmos/cosmos-sdk/types"
	stakingtypes "github.com/cosmos/cosmos-sdk/x/staking/types"
)

// D29: the validator a backer's stake sits with left the bonded set after the report and has finished unbonding (status
// Unbonded; x/staking keeps such a validator's tokens in the not-bonded pool, and the delegation still exists). The dispute
// is funded: the backer's share must be taken from that delegation and moved out of the not-bonded pool.
func TestProbeD29SlashStakeWithUnbondedValidator(t *testing.T) {
	k, sk, bk, _, ctx, _ := setupKeeper(t)
	reporter := sample.AccAddressBytes()
	val := sdk.ValAddress(sample.AccAddressBytes())
	stake := math.NewInt(100_000_000)
	require.NoError(t, k.Report.Set(ctx, collections.Join([]byte{}, collections.Join(reporter.Bytes(), uint64(ctx.BlockHeight()))), types.DelegationsAmounts{
		TokenOrigins: []*types.TokenOriginInfo{{DelegatorAddress: reporter, ValidatorAddress: val, Amount: stake}},
		Total:        stake,
	}))
	validator := stakingtypes.Validator{Tokens: stake, DelegatorShares: stake.ToLegacyDec(), Status: stakingtypes.Unbonded}
	sk.On("GetValidator", ctx, val).Return(validator, nil)
	sk.On("GetDelegation", ctx, reporter, val).Return(stakingtypes.Delegation{DelegatorAddress: reporter.String(), ValidatorAddress: val.String(), Shares: stake.ToLegacyDec()}, nil)
	amt := math.NewInt(1_000_000)
	sk.On("Unbond", ctx, reporter, val, mock.Anything).Return(amt, nil)
	from := ""
	bk.On("SendCoinsFromModuleToModule", ctx, mock.Anything, "dispute", sdk.NewCoins(sdk.NewCoin("loya", amt))).Return(nil).Run(func(args mock.Arguments) {
		from = args.Get(1).(string)
	})
	require.NoError(t, k.EscrowReporterStake(ctx, reporter, 100, uint64(ctx.BlockHeight()), amt, []byte{}, []byte("hashId")), "stake with a validator that finished unbonding can be slashed")
	require.Equal(t, stakingtypes.NotBondedPoolName, from, "an unbonded validator's tokens are held by the not-bonded pool")
}
