package keeper_test

import (
	"testing"

	"github.com/stretchr/testify/mock"
	"github.com/stretchr/testify/require"
	"github.com/tellor-io/layer/testutil/sample"
	"github.com/tellor-io/layer/x/reporter/types"

	"cosmossdk.io/math"

	sdk "github.com/cosmos/cosmos-sdk/types"
	stakingtypes "github.com/cosmos/cosmos-sdk/x/staking/types"
)

// D7 (reporter side): slashed stake is returned to a backer whose validator has meanwhile left the
// active set. The reporter keeper re-delegates with tokenSrc = Unbonded, which tells x/staking that
// the coins already sit in the NOT-bonded pool (no pool transfer happens inside Delegate).
// The dispute keeper, however, moves the coins into the BONDED pool (see zz_probe_d7b in x/dispute/keeper).
func TestProbeD7aReturnToUnbondingValidatorUsesUnbondedSource(t *testing.T) {
	k, sk, _, _, ctx, _ := setupKeeper(t)
	del, val := sample.AccAddressBytes(), sdk.ValAddress(sample.AccAddressBytes())
	require.NoError(t, k.DisputedDelegationAmounts.Set(ctx, []byte("hash"), types.DelegationsAmounts{Total: math.NewInt(100),
		TokenOrigins: []*types.TokenOriginInfo{{DelegatorAddress: del, ValidatorAddress: val, Amount: math.NewInt(100)}}}))
	v := stakingtypes.Validator{OperatorAddress: val.String(), Status: stakingtypes.Unbonding, Tokens: math.NewInt(1000), DelegatorShares: math.LegacyNewDec(1000)}
	sk.On("GetValidator", ctx, val).Return(v, nil)
	var src stakingtypes.BondStatus
	sk.On("Delegate", ctx, del, math.NewInt(100), mock.Anything, v, false).Run(func(a mock.Arguments) { src = a.Get(3).(stakingtypes.BondStatus) }).Return(math.LegacyNewDec(100), nil)
	require.NoError(t, k.ReturnSlashedTokens(ctx, math.NewInt(100), []byte("hash")))
	require.Equal(t, stakingtypes.Bonded, src, "the coins for this delegation are moved into the bonded pool by the dispute module; declaring them as coming from the not-bonded pool leaves that pool short by 100")
}
