package integration_test

// D21 probe (C13): a voter's share of the user group is computed from the tips GetUserTotalTips finds
// "at block <dispute id>" (CalculateReward passes the round's dispute id where a block number is expected),
// while the group total it is divided by was recorded at the dispute's block. Two tippers who are the only
// voters of a single-round dispute are together entitled to the whole voter reward; before the repair they get 0
// and the pot stays in the dispute escrow for ever.
// Place in tests/integration/ and run:
//   go test -vet=off -count=1 ./tests/integration/ -run 'TestKeeperTestSuite/TestProbeD21'

import (
	"encoding/hex"
	"time"

	"github.com/tellor-io/layer/x/dispute/keeper"
	"github.com/tellor-io/layer/x/dispute/types"
	oraclekeeper "github.com/tellor-io/layer/x/oracle/keeper"
	oracletypes "github.com/tellor-io/layer/x/oracle/types"
	reportertypes "github.com/tellor-io/layer/x/reporter/types"

	"cosmossdk.io/math"

	sdk "github.com/cosmos/cosmos-sdk/types"
)

func (s *IntegrationTestSuite) TestProbeD21UserGroupShareIsPaid() {
	s.Setup.Ctx = s.Setup.Ctx.WithBlockHeight(10)
	repAccs, _, _ := s.createValidatorAccs([]uint64{100, 200})
	reporter1Acc := repAccs[0]
	msgServer := keeper.NewMsgServerImpl(s.Setup.Disputekeeper)
	oracleServer := oraclekeeper.NewMsgServerImpl(s.Setup.Oraclekeeper)
	s.NoError(s.Setup.Reporterkeeper.Reporters.Set(s.Setup.Ctx, reporter1Acc, reportertypes.NewReporter(reportertypes.DefaultMinCommissionRate, math.OneInt())))
	s.NoError(s.Setup.Reporterkeeper.Selectors.Set(s.Setup.Ctx, reporter1Acc, reportertypes.NewSelection(reporter1Acc, 1)))

	userA := s.newKeysWithTokens()
	userB := s.newKeysWithTokens()
	s.Setup.MintTokens(userA, math.NewInt(50_000_000))
	s.Setup.MintTokens(userB, math.NewInt(50_000_000))
	for _, u := range []sdk.AccAddress{userA, userB} {
		_, err := oracleServer.Tip(s.Setup.Ctx, &oracletypes.MsgTip{Tipper: u.String(), QueryData: ethQueryData, Amount: sdk.NewCoin(s.Setup.Denom, math.NewInt(1_000_000))})
		s.Require().NoError(err)
	}

	s.Setup.Ctx = s.Setup.Ctx.WithBlockHeight(20)
	qId, _ := hex.DecodeString("83a7f3d48786ac2667503a61e8c415438ed2922eb86a2906e4ee66d9a2ce4992")
	stake, err := s.Setup.Reporterkeeper.ReporterStake(s.Setup.Ctx, reporter1Acc, qId)
	s.Require().NoError(err)
	report := oracletypes.MicroReport{
		Reporter:    reporter1Acc.String(),
		Power:       stake.Quo(sdk.DefaultPowerReduction).Uint64(),
		QueryId:     qId,
		Value:       "000000000000000000000000000000000000000000000058528649cf80ee0000",
		Timestamp:   time.Unix(1696516597, 0),
		BlockNumber: uint64(s.Setup.Ctx.BlockHeight()),
	}
	disputeFee, err := s.Setup.Disputekeeper.GetDisputeFee(s.Setup.Ctx, report, types.Warning)
	s.Require().NoError(err)
	disputer := s.newKeysWithTokens()
	s.Setup.MintTokens(disputer, math.NewInt(100_000_000))
	_, err = msgServer.ProposeDispute(s.Setup.Ctx, &types.MsgProposeDispute{
		Creator:         disputer.String(),
		Report:          &report,
		Fee:             sdk.NewCoin(s.Setup.Denom, disputeFee),
		DisputeCategory: types.Warning,
	})
	s.Require().NoError(err)

	voters := []sdk.AccAddress{userA, userB}
	for _, v := range voters {
		_, err = msgServer.Vote(s.Setup.Ctx, &types.MsgVote{Voter: v.String(), Id: 1, Vote: types.VoteEnum_VOTE_INVALID})
		s.Require().NoError(err)
	}
	s.Setup.Ctx = s.Setup.Ctx.WithBlockHeight(30).WithBlockTime(s.Setup.Ctx.BlockTime().Add(keeper.THREE_DAYS + 1))
	s.Require().NoError(s.Setup.Disputekeeper.TallyVote(s.Setup.Ctx, 1))
	s.Require().NoError(s.Setup.Disputekeeper.ExecuteVote(s.Setup.Ctx, 1))

	dispute, err := s.Setup.Disputekeeper.Disputes.Get(s.Setup.Ctx, 1)
	s.Require().NoError(err)
	s.Require().True(dispute.VoterReward.IsPositive())

	sum := math.ZeroInt()
	for _, v := range voters {
		reward, err := s.Setup.Disputekeeper.CalculateReward(s.Setup.Ctx, v, 1)
		s.Require().NoError(err)
		sum = sum.Add(reward)
	}
	// the two tippers are the only voters: together they are entitled to the whole pot (up to rounding dust)
	s.True(dispute.VoterReward.Sub(sum).LTE(math.NewInt(2)),
		"D21: the only two voters are entitled to %s loya of a voter reward of %s loya", sum, dispute.VoterReward)
}
