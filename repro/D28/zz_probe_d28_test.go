package keeper_test

import (
	"context"
	"testing"

	"github.com/stretchr/testify/mock"
	"github.com/stretchr/testify/require"
	"github.com/tellor-io/layer/testutil/sample"
	"github.com/tellor-io/layer/x/reporter/types"

	"cosmossdk.io/collections"
	"cosmossdk.io/math"

	sdk "github.com/cosmos/cosmos-sdk/types"
	stakingtypes "github.com/cosmos/cosmos-sdk/x/staking/types"
)

// D28: a report backed by two selectors with 1 500 000 and 1 499 999 loya (2.999999 TRB, reporting power 2). A warning dispute
// takes 1 % of power x 10^6 = 20 000 loya. Both backers contributed (almost) the same, so each must lose 10 000 (to within one
// loya).
func TestProbeD28SlashInProportionToContribution(t *testing.T) {
	k, sk, bk, _, ctx, _ := setupKeeper(t)
	reporter, sel1, sel2 := sample.AccAddressBytes(), sample.AccAddressBytes(), sample.AccAddressBytes()
	val := sdk.ValAddress(sample.AccAddressBytes())
	a1, a2 := math.NewInt(1_500_000), math.NewInt(1_499_999)
	require.NoError(t, k.Report.Set(ctx, collections.Join([]byte{}, collections.Join(reporter.Bytes(), uint64(ctx.BlockHeight()))), types.DelegationsAmounts{
		TokenOrigins: []*types.TokenOriginInfo{
			{DelegatorAddress: sel1, ValidatorAddress: val, Amount: a1},
			{DelegatorAddress: sel2, ValidatorAddress: val, Amount: a2},
		},
		Total: a1.Add(a2),
	}))
	validator := stakingtypes.Validator{Tokens: math.NewInt(10_000_000), DelegatorShares: math.LegacyNewDec(10_000_000), Status: stakingtypes.Bonded}
	sk.On("GetValidator", ctx, val).Return(validator, nil)
	sk.On("GetDelegation", ctx, sel1, val).Return(stakingtypes.Delegation{DelegatorAddress: sel1.String(), ValidatorAddress: val.String(), Shares: a1.ToLegacyDec()}, nil)
	sk.On("GetDelegation", ctx, sel2, val).Return(stakingtypes.Delegation{DelegatorAddress: sel2.String(), ValidatorAddress: val.String(), Shares: a2.ToLegacyDec()}, nil)
	lost := map[string]math.Int{}
	sk.On("Unbond", ctx, mock.Anything, val, mock.Anything).Return(func(_ context.Context, who sdk.AccAddress, _ sdk.ValAddress, sh math.LegacyDec) math.Int {
		lost[who.String()] = sh.TruncateInt()
		return sh.TruncateInt()
	}, nil)
	bk.On("SendCoinsFromModuleToModule", ctx, stakingtypes.BondedPoolName, "dispute", mock.Anything).Return(nil)
	power := a1.Add(a2).Quo(sdk.DefaultPowerReduction).Uint64() // 2
	amt := math.NewInt(int64(power) * 1_000_000 / 100)         // warning: 1 %
	require.NoError(t, k.EscrowReporterStake(ctx, reporter, power, uint64(ctx.BlockHeight()), amt, []byte{}, []byte("hashId")))
	t.Logf("backer 1 lost %s, backer 2 lost %s of %s", lost[sel1.String()], lost[sel2.String()], amt)
	diff := lost[sel1.String()].Sub(lost[sel2.String()]).Abs()
	require.Truef(t, diff.LTE(math.NewInt(2)), "equal contributions, unequal losses: %s vs %s", lost[sel1.String()], lost[sel2.String()])
}
