package keeper_test

import (
	"time"

	"github.com/stretchr/testify/mock"
	"github.com/tellor-io/layer/testutil/sample"
	"github.com/tellor-io/layer/x/dispute/types"

	"cosmossdk.io/collections"
	"cosmossdk.io/math"

	sdk "github.com/cosmos/cosmos-sdk/types"
)

// D11: the fee of a later dispute round is taken from the payer but no payer record is written
// (neither under the old nor the new dispute id), and it is added to BurnAmount as well as FeeTotal.
func (k *KeeperTestSuite) TestProbeD11RoundFeeUnrecorded() {
	payer := sample.AccAddressBytes()
	now := time.Unix(1_700_000_000, 0).UTC()
	ctx := k.ctx.WithBlockTime(now).WithBlockHeight(20)
	dispute := k.dispute()
	dispute.DisputeStatus = types.Unresolved
	dispute.DisputeRound = 1
	dispute.FeeTotal = dispute.SlashAmount
	dispute.DisputeEndTime = now.Add(time.Hour)
	dispute.PrevDisputeIds = []uint64{1}
	k.NoError(k.disputeKeeper.Disputes.Set(ctx, dispute.DisputeId, dispute))
	var taken sdk.Coins
	k.bankKeeper.On("HasBalance", mock.Anything, payer, mock.Anything).Return(true)
	k.bankKeeper.On("SendCoinsFromAccountToModule", mock.Anything, payer, types.ModuleName, mock.Anything).Run(func(a mock.Arguments) { taken = a.Get(3).(sdk.Coins) }).Return(nil)
	msg := types.MsgProposeDispute{Creator: payer.String(), Report: &dispute.InitialEvidence, DisputeCategory: dispute.DisputeCategory, Fee: sdk.NewCoin("loya", math.NewInt(5000))}
	k.NoError(k.disputeKeeper.AddDisputeRound(ctx, payer, dispute, msg))
	k.Equal("1000", taken.AmountOf("loya").String(), "round fee = 5% of 10000 doubled once")
	newId := uint64(2)
	_, errNew := k.disputeKeeper.DisputeFeePayer.Get(ctx, collections.Join(newId, payer.Bytes()))
	_, errOld := k.disputeKeeper.DisputeFeePayer.Get(ctx, collections.Join(uint64(1), payer.Bytes()))
	k.True(errNew == nil || errOld == nil, "the payer of the round fee must be recorded, otherwise that payment can never be claimed back pro rata")
}
