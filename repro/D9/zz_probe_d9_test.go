package keeper_test

import (
	"encoding/hex"
	"time"

	"github.com/stretchr/testify/mock"
	"github.com/tellor-io/layer/testutil/sample"
	layer "github.com/tellor-io/layer/types"
	"github.com/tellor-io/layer/x/dispute/types"
	oracletypes "github.com/tellor-io/layer/x/oracle/types"

	"cosmossdk.io/math"

	sdk "github.com/cosmos/cosmos-sdk/types"
)

// D9: the disputed report in MsgProposeDispute is taken at face value. The oracle keeper mock is
// strict (any unexpected call fails the test), and no report getter is mocked: the handler accepts
// a report with an invented value and an understated power of 1, and sizes the fee, the slash and
// the escrow request from that claimed power.
func (s *KeeperTestSuite) TestProbeD9ReportNotCheckedAgainstStore() {
	disputer, reporter := sample.AccAddressBytes(), sample.AccAddressBytes()
	s.ctx = s.ctx.WithBlockTime(time.Now())
	qId, _ := hex.DecodeString("83a7f3d48786ac2667503a61e8c415438ed2922eb86a2906e4ee66d9a2ce4992")
	// the reporter really reported with power 1000 and another value; nothing in the message has to match that
	claimed := oracletypes.MicroReport{Reporter: reporter.String(), QueryId: qId, Value: "00000000000000000000000000000000000000000000000000000000deadbeef", Timestamp: time.Unix(1696516597, 0), Power: 1, BlockNumber: 7}
	fee := sdk.NewCoin(layer.BondDenom, math.NewInt(10000))
	var escrowReq math.Int
	s.reporterKeeper.On("EscrowReporterStake", mock.Anything, reporter, uint64(1), uint64(7), mock.Anything, qId, mock.Anything).Run(func(a mock.Arguments) { escrowReq = a.Get(4).(math.Int) }).Return(nil)
	s.reporterKeeper.On("TotalReporterPower", mock.Anything).Return(math.NewInt(1), nil)
	s.oracleKeeper.On("GetTotalTips", mock.Anything).Return(math.NewInt(1), nil)
	s.reporterKeeper.On("JailReporter", mock.Anything, reporter, uint64(0)).Return(nil)
	s.bankKeeper.On("HasBalance", mock.Anything, disputer, fee).Return(true)
	s.bankKeeper.On("SendCoinsFromAccountToModule", mock.Anything, disputer, mock.Anything, sdk.NewCoins(fee)).Return(nil)
	s.oracleKeeper.On("FlagAggregateReport", mock.Anything, claimed).Return(nil)
	_, err := s.msgServer.ProposeDispute(s.ctx, &types.MsgProposeDispute{Creator: disputer.String(), Report: &claimed, DisputeCategory: types.Warning, Fee: fee})
	s.Error(err, "a dispute about a report that is not the stored one (invented value, understated power) must be rejected; instead the reporter is slashed and jailed on the basis of the claimed power: escrow request %s loya", escrowReq)
}
