package keeper_test

import (
	"context"
	"testing"

	"github.com/stretchr/testify/mock"
	"github.com/stretchr/testify/require"
	"github.com/tellor-io/layer/testutil/sample"
	"github.com/tellor-io/layer/x/reporter/types"

	"cosmossdk.io/math"

	sdk "github.com/cosmos/cosmos-sdk/types"
	stakingtypes "github.com/cosmos/cosmos-sdk/x/staking/types"
)

// D24: a reporter with three selectors (100, 200 and 300 shares of one validator) pays a dispute fee of 100 000 000 loya
// from stake. The dispute module records the whole fee (PayerInfo, FeeTotal); what reaches its account must be that amount.
func TestProbeD24FeeFromStakeArrivesInFull(t *testing.T) {
	k, sk, bk, _, ctx, _ := setupKeeper(t)
	fee := math.NewIntWithDecimal(100, 6)
	reporterAddr := sample.AccAddressBytes()
	sels := []sdk.AccAddress{sample.AccAddressBytes(), sample.AccAddressBytes(), sample.AccAddressBytes()}
	val := sdk.ValAddress(reporterAddr)
	validator := stakingtypes.Validator{OperatorAddress: val.String(), Status: stakingtypes.Bonded, Tokens: math.NewIntWithDecimal(1000, 6), DelegatorShares: math.LegacyNewDecWithPrec(600, 6)}
	shares := []math.LegacyDec{math.LegacyNewDecWithPrec(100, 6), math.LegacyNewDecWithPrec(200, 6), math.LegacyNewDecWithPrec(300, 6)}
	sk.On("GetValidator", ctx, val).Return(validator, nil)
	for i, s := range sels {
		require.NoError(t, k.Selectors.Set(ctx, s, types.NewSelection(reporterAddr, 1)))
		d := stakingtypes.Delegation{DelegatorAddress: s.String(), ValidatorAddress: val.String(), Shares: shares[i]}
		sk.On("IterateDelegatorDelegations", ctx, s, mock.AnythingOfType("func(types.Delegation) bool")).Return(nil).Run(func(args mock.Arguments) {
			args.Get(2).(func(stakingtypes.Delegation) bool)(d)
		})
		// the staking keeper hands out the tokens the shares are worth
		sk.On("Unbond", ctx, s, val, mock.Anything).Return(func(_ context.Context, _ sdk.AccAddress, _ sdk.ValAddress, sh math.LegacyDec) math.Int {
			return validator.TokensFromShares(sh).TruncateInt()
		}, nil)
	}
	moved := math.ZeroInt()
	bk.On("SendCoinsFromModuleToModule", ctx, stakingtypes.BondedPoolName, "dispute", mock.Anything).Return(nil).Run(func(args mock.Arguments) {
		moved = moved.Add(args.Get(3).(sdk.Coins).AmountOf("loya"))
	})
	require.NoError(t, k.FeefromReporterStake(ctx, reporterAddr, fee, []byte("hashId")))
	require.Equal(t, fee.String(), moved.String(), "the dispute account received less than the fee the dispute module records as paid")
}
