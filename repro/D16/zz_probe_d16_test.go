package keeper_test

import (
	"testing"

	"github.com/stretchr/testify/mock"
	"github.com/stretchr/testify/require"
	"github.com/tellor-io/layer/testutil/sample"
	"github.com/tellor-io/layer/x/reporter/types"

	"cosmossdk.io/collections"
	"cosmossdk.io/math"

	sdk "github.com/cosmos/cosmos-sdk/types"
	stakingtypes "github.com/cosmos/cosmos-sdk/x/staking/types"
)

// D16: every commission rate that reporter creation accepts must give non-negative credits.
// Creation accepts any rate up to 100 ("100 percent") and any negative rate, the split multiplies
// the reward by the rate as a fraction: rate 2 gives commission 2R and a net reward of -R, so the
// reporter's selector is credited a negative amount; rate -3 debits the reporter.
func probeD16(t *testing.T, rate math.LegacyDec) (math.LegacyDec, math.LegacyDec) {
	k, sk, _, _, ms, ctx := setupMsgServer(t)
	reporter, selector := sample.AccAddressBytes(), sample.AccAddressBytes()
	ctx = ctx.WithBlockHeight(1)
	val := stakingtypes.Validator{OperatorAddress: sdk.ValAddress(reporter).String(), Status: stakingtypes.Bonded, Tokens: math.NewInt(1_000_000), DelegatorShares: math.LegacyNewDec(1_000)}
	sk.On("GetValidator", ctx, sdk.ValAddress(reporter)).Return(val, nil)
	sk.On("IterateDelegatorDelegations", ctx, reporter, mock.AnythingOfType("func(types.Delegation) bool")).Return(nil).Run(func(args mock.Arguments) {
		args.Get(2).(func(stakingtypes.Delegation) bool)(stakingtypes.Delegation{DelegatorAddress: reporter.String(), ValidatorAddress: sdk.ValAddress(reporter).String(), Shares: math.LegacyNewDec(1000)})
	})
	_, err := ms.CreateReporter(ctx, &types.MsgCreateReporter{ReporterAddress: reporter.String(), CommissionRate: rate, MinTokensRequired: types.DefaultMinTrb})
	if err != nil {
		t.Logf("rate %s rejected at creation: %v", rate, err)
		return math.LegacyZeroDec(), math.LegacyZeroDec()
	}
	origins := []*types.TokenOriginInfo{
		{DelegatorAddress: reporter, ValidatorAddress: sdk.ValAddress(reporter), Amount: math.NewInt(500)},
		{DelegatorAddress: selector, ValidatorAddress: sdk.ValAddress(reporter), Amount: math.NewInt(500)},
	}
	require.NoError(t, k.Report.Set(ctx, collections.Join([]byte("q"), collections.Join(reporter.Bytes(), uint64(10))), types.DelegationsAmounts{TokenOrigins: origins, Total: math.NewInt(1000)}))
	require.NoError(t, k.DivvyingTips(ctx, reporter, math.LegacyNewDec(1000), []byte("q"), 10))
	rep, err := k.SelectorTips.Get(ctx, reporter.Bytes())
	require.NoError(t, err)
	sel, err := k.SelectorTips.Get(ctx, selector.Bytes())
	require.NoError(t, err)
	return rep, sel
}

func TestProbeD16RateAboveOne(t *testing.T) {
	rep, sel := probeD16(t, math.LegacyNewDec(2))
	require.False(t, sel.IsNegative(), "selector credited %s for a reward of 1000", sel)
	require.False(t, rep.IsNegative(), "reporter credited %s", rep)
}

func TestProbeD16NegativeRate(t *testing.T) {
	rep, sel := probeD16(t, math.LegacyNewDec(-3))
	require.False(t, rep.IsNegative(), "reporter credited %s for a reward of 1000", rep)
	require.False(t, sel.IsNegative(), "selector credited %s", sel)
}
