package ante

import (
	"testing"

	"github.com/stretchr/testify/require"
	"github.com/tellor-io/layer/testutil/encoding"
	keepertest "github.com/tellor-io/layer/testutil/keeper"
	"github.com/tellor-io/layer/testutil/sample"
	"github.com/tellor-io/layer/x/reporter/types"

	"cosmossdk.io/math"

	"github.com/cosmos/cosmos-sdk/client"
	sdk "github.com/cosmos/cosmos-sdk/types"
	stakingtypes "github.com/cosmos/cosmos-sdk/x/staking/types"
)

// D14: one transaction with three delegations of 4% each (12% in total) of the bonded stake
// recorded at the start of the period must not pass the 5% limit.
func TestProbeD14ManySmallMessagesInOneTx(t *testing.T) {
	k, sk, _, _, ctx, _ := keepertest.ReporterKeeper(t)
	decorator := NewTrackStakeChangesDecorator(k, sk)
	sk.On("TotalBondedTokens", ctx).Return(math.NewInt(1000), nil)
	require.NoError(t, k.Tracker.Set(ctx, types.StakeTracker{Amount: math.NewInt(1000)}))
	var msgs []sdk.Msg
	for i := 0; i < 3; i++ {
		msgs = append(msgs, &stakingtypes.MsgDelegate{DelegatorAddress: sample.AccAddressBytes().String(), ValidatorAddress: sample.AccAddressBytes().String(),
			Amount: sdk.Coin{Denom: "loya", Amount: math.NewInt(40)}})
	}
	txBuilder := client.Context{}.WithTxConfig(encoding.GetTestEncodingCfg().TxConfig).TxConfig.NewTxBuilder()
	require.NoError(t, txBuilder.SetMsgs(msgs...))
	_, err := decorator.AnteHandle(ctx, txBuilder.GetTx(), false, func(ctx sdk.Context, tx sdk.Tx, simulate bool) (sdk.Context, error) { return ctx, nil })
	require.Error(t, err, "1000 + 3*40 = 1120 > 1050: the transaction as a whole exceeds the 5% limit")
}
