package bridge

import (
	"testing"

	"github.com/stretchr/testify/mock"
	"github.com/stretchr/testify/require"

	"cosmossdk.io/math"

	stakingtypes "github.com/cosmos/cosmos-sdk/x/staking/types"
)

// D5: at any height > 1, when no bonded validator has a registered EVM address with
// non-zero power (e.g. before registration, or after the registered ones left), the bridge
// end blocker returns "no validators found".
func TestProbeD5NoEVMValidatorsEndBlock(t *testing.T) {
	app, _, ctx, sk, _ := SetupBridgeApp(t)
	ctx = ctx.WithBlockHeight(5)
	// a bonded validator exists, but it never registered an EVM address
	val := stakingtypes.Validator{OperatorAddress: "tellorvaloper1qqqqqqqqqqqqqqqqqqqqqqqqqqqqqqqq9k7ce3", Tokens: math.NewInt(5_000_000), Status: stakingtypes.Bonded}
	sk.On("GetAllValidators", mock.Anything).Return([]stakingtypes.Validator{val}, nil)
	err := app.EndBlock(ctx)
	require.NoError(t, err, "bridge EndBlock must not fail when no validator has an EVM address")
}
