package keeper_test

import (
	"context"
	"testing"

	"github.com/stretchr/testify/mock"
	"github.com/stretchr/testify/require"
	"github.com/tellor-io/layer/testutil/sample"
	"github.com/tellor-io/layer/x/reporter/types"

	"cosmossdk.io/math"

	sdk "github.com/cosmos/cosmos-sdk/types"
	stakingtypes "github.com/cosmos/cosmos-sdk/x/staking/types"
)

// D25: two reporters each pay 1000 loya of one dispute's fee from their stake (MsgProposeDispute and MsgAddFeeToDispute with
// PayFromBond). The dispute module later refunds each payer separately: FeeRefund(hashId, that payer's refund).
// Every payer must get its own refund, once.
func TestProbeD25TwoPayersFromStake(t *testing.T) {
	k, sk, bk, _, ctx, _ := setupKeeper(t)
	hashId := []byte("dispute-hash")
	repA, repB := sample.AccAddressBytes(), sample.AccAddressBytes()
	val := sdk.ValAddress(sample.AccAddressBytes())
	validator := stakingtypes.Validator{OperatorAddress: val.String(), Status: stakingtypes.Bonded, Tokens: math.NewInt(1_000_000), DelegatorShares: math.LegacyNewDec(1_000_000)}
	sk.On("GetValidator", ctx, val).Return(validator, nil)
	for _, rep := range []sdk.AccAddress{repA, repB} {
		require.NoError(t, k.Selectors.Set(ctx, rep, types.NewSelection(rep, 1)))
		d := stakingtypes.Delegation{DelegatorAddress: rep.String(), ValidatorAddress: val.String(), Shares: math.LegacyNewDec(100_000)}
		sk.On("IterateDelegatorDelegations", ctx, rep, mock.AnythingOfType("func(types.Delegation) bool")).Return(nil).Run(func(args mock.Arguments) {
			args.Get(2).(func(stakingtypes.Delegation) bool)(d)
		})
		sk.On("Unbond", ctx, rep, val, mock.Anything).Return(func(_ context.Context, _ sdk.AccAddress, _ sdk.ValAddress, sh math.LegacyDec) math.Int {
			return validator.TokensFromShares(sh).TruncateInt()
		}, nil)
	}
	bk.On("SendCoinsFromModuleToModule", ctx, stakingtypes.BondedPoolName, "dispute", mock.Anything).Return(nil)
	require.NoError(t, k.FeefromReporterStake(ctx, repA, math.NewInt(1000), hashId))
	require.NoError(t, k.FeefromReporterStake(ctx, repB, math.NewInt(1000), hashId))

	got := map[string]math.Int{repA.String(): math.ZeroInt(), repB.String(): math.ZeroInt()}
	sk.On("Delegate", ctx, mock.Anything, mock.Anything, stakingtypes.Bonded, validator, false).Return(math.LegacyZeroDec(), nil).Run(func(args mock.Arguments) {
		who := args.Get(1).(sdk.AccAddress).String()
		got[who] = got[who].Add(args.Get(2).(math.Int))
	})
	// payer A claims its refund of 950 (fee minus 5 %)
	require.NoError(t, k.FeeRefund(ctx, hashId, math.NewInt(950)))
	require.Equal(t, "950", got[repA.String()].String(), "payer A's refund went to payer A")
	require.Equal(t, "0", got[repB.String()].String(), "payer A's refund did not go to payer B")
	// payer B claims its refund
	require.NoError(t, k.FeeRefund(ctx, hashId, math.NewInt(950)), "payer B can claim as well")
	require.Equal(t, "950", got[repB.String()].String())
}
