package integration_test

// D23 probe (C12, C11): ExecuteVote's AGAINST branch stores SlashAmount = 2 x SlashAmount - BurnAmount in the dispute
// record; AddFeeToDispute has no status test, only "time not over" and "FeeTotal < SlashAmount", which is now true again
// for a dispute that was resolved by quorum before its end time: a payment re-opens the executed dispute (slash, status
// Voting, fresh vote record).
// Place in tests/integration/ and run:
//   go test -vet=off -count=1 ./tests/integration/ -run 'TestKeeperTestSuite/TestProbeD23'

import (
	"encoding/hex"
	"fmt"
	"time"

	"github.com/tellor-io/layer/x/dispute/keeper"
	"github.com/tellor-io/layer/x/dispute/types"
	oraclekeeper "github.com/tellor-io/layer/x/oracle/keeper"
	oracletypes "github.com/tellor-io/layer/x/oracle/types"
	reportertypes "github.com/tellor-io/layer/x/reporter/types"

	"cosmossdk.io/math"

	sdk "github.com/cosmos/cosmos-sdk/types"
)

func (s *IntegrationTestSuite) TestProbeD23ExecutedDisputeCannotBeReopened() {
	msgServer := keeper.NewMsgServerImpl(s.Setup.Disputekeeper)

	_, valAddrs, _ := s.createValidatorAccs([]uint64{1000})

	repAccs := s.CreateAccountsWithTokens(3, 100*1e6)
	disputer := s.newKeysWithTokens()

	valAddr := valAddrs[0]
	repAddr := sdk.AccAddress(valAddr)
	delegators := repAccs
	s.NoError(s.Setup.Reporterkeeper.Reporters.Set(s.Setup.Ctx, repAddr, reportertypes.NewReporter(reportertypes.DefaultMinCommissionRate, math.OneInt())))
	s.NoError(s.Setup.Reporterkeeper.Selectors.Set(s.Setup.Ctx, repAddr, reportertypes.NewSelection(repAddr, 1)))

	qId, _ := hex.DecodeString("83a7f3d48786ac2667503a61e8c415438ed2922eb86a2906e4ee66d9a2ce4992")

	stake, err := s.Setup.Reporterkeeper.ReporterStake(s.Setup.Ctx, repAddr, qId)
	s.NoError(err)

	// tip to capture other group of voters 25% of the total power
	s.Setup.MintTokens(disputer, math.NewInt(100_000_000))
	oracleServer := oraclekeeper.NewMsgServerImpl(s.Setup.Oraclekeeper)
	msg := oracletypes.MsgTip{
		Tipper:    disputer.String(),
		QueryData: ethQueryData,
		Amount:    sdk.NewCoin(s.Setup.Denom, math.NewInt(1_000_000)),
	}
	_, err = oracleServer.Tip(s.Setup.Ctx, &msg)
	s.Nil(err)

	report := oracletypes.MicroReport{
		Reporter:  repAddr.String(),
		Power:     stake.Quo(sdk.DefaultPowerReduction).Uint64(),
		QueryId:   qId,
		Value:     "000000000000000000000000000000000000000000000058528649cf80ee0000",
		Timestamp: time.Unix(1696516597, 0),
	}
	disputeFee, err := s.Setup.Disputekeeper.GetDisputeFee(s.Setup.Ctx, report, types.Warning)
	s.NoError(err)

	fivePercentBurn := disputeFee.MulRaw(1).QuoRaw(20)
	_ = fivePercentBurn
	// disputeFeeMinusBurn := disputeFee.Sub(disputeFee.MulRaw(1).QuoRaw(20))

	// Propose dispute pay half of the fee from account
	_, err = msgServer.ProposeDispute(s.Setup.Ctx, &types.MsgProposeDispute{
		Creator:         disputer.String(),
		Report:          &report,
		Fee:             sdk.NewCoin(s.Setup.Denom, disputeFee),
		DisputeCategory: types.Warning,
	})
	s.NoError(err)
	_ = map[string]sdk.Coin{
		repAddr.String():       s.Setup.Bankkeeper.GetBalance(s.Setup.Ctx, repAddr, s.Setup.Denom),
		disputer.String():      s.Setup.Bankkeeper.GetBalance(s.Setup.Ctx, disputer, s.Setup.Denom),
		delegators[1].String(): s.Setup.Bankkeeper.GetBalance(s.Setup.Ctx, delegators[1], s.Setup.Denom),
		delegators[2].String(): s.Setup.Bankkeeper.GetBalance(s.Setup.Ctx, delegators[2], s.Setup.Denom),
	}
	votes := []types.MsgVote{
		{
			Voter: repAddr.String(),
			Id:    1,
			Vote:  types.VoteEnum_VOTE_AGAINST,
		},
		{
			Voter: disputer.String(),
			Id:    1,
			Vote:  types.VoteEnum_VOTE_AGAINST,
		},
		{
			Voter: delegators[1].String(),
			Id:    1,
			Vote:  types.VoteEnum_VOTE_AGAINST,
		},
		{
			Voter: delegators[2].String(),
			Id:    1,
			Vote:  types.VoteEnum_VOTE_AGAINST,
		},
	}
	for i := range votes {
		_, err = msgServer.Vote(s.Setup.Ctx, &votes[i])
		if err != nil {
			s.Error(err, "voter power is zero")
		}
	}
	val, err := s.Setup.Stakingkeeper.GetValidator(s.Setup.Ctx, valAddr)
	s.NoError(err)
	fmt.Println(val.Tokens)
	// tally vote
	_, err = s.Setup.App.BeginBlocker(s.Setup.Ctx)
	s.NoError(err)

	// s.Equal(stake.Add(disputeFeeMinusBurn), reporterAfterDispute.TotalTokens)
	_ = map[string]sdk.Coin{
		repAddr.String():       s.Setup.Bankkeeper.GetBalance(s.Setup.Ctx, repAddr, s.Setup.Denom),
		disputer.String():      s.Setup.Bankkeeper.GetBalance(s.Setup.Ctx, disputer, s.Setup.Denom),
		delegators[1].String(): s.Setup.Bankkeeper.GetBalance(s.Setup.Ctx, delegators[1], s.Setup.Denom),
		delegators[2].String(): s.Setup.Bankkeeper.GetBalance(s.Setup.Ctx, delegators[2], s.Setup.Denom),
	}

	dispute, err := s.Setup.Disputekeeper.Disputes.Get(s.Setup.Ctx, 1)
	s.NoError(err)
	s.Require().Equal(types.Resolved, dispute.DisputeStatus)
	voteInfo, err := s.Setup.Disputekeeper.Votes.Get(s.Setup.Ctx, 1)
	s.NoError(err)
	s.Require().True(voteInfo.Executed)
	s.Require().True(s.Setup.Ctx.BlockTime().Before(dispute.DisputeEndTime), "executed early, on quorum")

	// the reporter (warning category: no jail term) releases itself
	rep, err := s.Setup.Reporterkeeper.Reporters.Get(s.Setup.Ctx, repAddr)
	s.NoError(err)
	if rep.Jailed {
		s.NoError(s.Setup.Reporterkeeper.UnjailReporter(s.Setup.Ctx, repAddr, rep))
	}
	stakeBefore, err := s.Setup.Stakingkeeper.GetValidator(s.Setup.Ctx, valAddr)
	s.NoError(err)

	// anybody "adds fee" to the executed dispute
	payer := s.newKeysWithTokens()
	s.Setup.MintTokens(payer, math.NewInt(1_000_000_000))
	_, err = msgServer.AddFeeToDispute(s.Setup.Ctx, &types.MsgAddFeeToDispute{
		Creator:   payer.String(),
		DisputeId: 1,
		Amount:    sdk.NewCoin(s.Setup.Denom, dispute.SlashAmount),
	})
	after, err2 := s.Setup.Disputekeeper.Disputes.Get(s.Setup.Ctx, 1)
	s.NoError(err2)
	voteAfter, err2 := s.Setup.Disputekeeper.Votes.Get(s.Setup.Ctx, 1)
	s.NoError(err2)
	stakeAfter, err2 := s.Setup.Stakingkeeper.GetValidator(s.Setup.Ctx, valAddr)
	s.NoError(err2)
	s.Equal(types.Resolved, after.DisputeStatus, "D23: an executed dispute went back to %s (AddFeeToDispute returned %v)", after.DisputeStatus, err)
	s.True(voteAfter.Executed, "D23: the vote of an executed dispute was reset")
	s.Equal(stakeBefore.Tokens, stakeAfter.Tokens, "D23: the reporter was slashed a second time")
}
