package app_test

import (
	"context"
	"encoding/json"

	abcitypes "github.com/cometbft/cometbft/abci/types"
	cmtproto "github.com/cometbft/cometbft/proto/tendermint/types"
	"github.com/ethereum/go-ethereum/common"
	"github.com/stretchr/testify/mock"
	"github.com/tellor-io/layer/app"
	keepertest "github.com/tellor-io/layer/testutil/keeper"
	"github.com/tellor-io/layer/testutil/sample"

	sdk "github.com/cosmos/cosmos-sdk/types"
)

// D13a: a proposal without any transaction above the vote-extension enable height.
func (s *ProposalHandlerTestSuite) TestProbeD13EmptyProposal() {
	ctx := s.ctx.WithBlockHeight(3).WithConsensusParams(cmtproto.ConsensusParams{Abci: &cmtproto.ABCIParams{VoteExtensionsEnableHeight: 1}})
	s.Require().NotPanics(func() {
		res, err := s.proposalHandler.ProcessProposalHandler(ctx, &abcitypes.RequestProcessProposal{Height: 3})
		s.Require().NoError(err)
		s.Require().Equal(abcitypes.ResponseProcessProposal_REJECT, res.Status)
	})
}

// D13b: a commit vote whose extension carries a 10-byte initial signature (VerifyVoteExtension
// only bounds the size from above); address recovery is done by the real bridge keeper.
func (s *ProposalHandlerTestSuite) TestProbeD13ShortInitialSignature() {
	realBridge, _, _, _, _, _, _ := keepertest.BridgeKeeper(s.T())
	s.bridgeKeeper.On("EVMAddressFromSignatures", mock.Anything, mock.Anything, mock.Anything).Return(
		func(ctx context.Context, a, b []byte) (common.Address, error) { return realBridge.EVMAddressFromSignatures(ctx, a, b) }).Maybe()
	ve := app.BridgeVoteExtension{InitialSignature: app.InitialSignature{SignatureA: []byte("0123456789"), SignatureB: []byte("0123456789")}}
	bz, err := json.Marshal(ve)
	s.Require().NoError(err)
	commit := abcitypes.ExtendedCommitInfo{Votes: []abcitypes.ExtendedVoteInfo{{
		Validator: abcitypes.Validator{Address: sdk.ConsAddress(sample.AccAddressBytes()), Power: 10}, VoteExtension: bz, BlockIdFlag: cmtproto.BlockIDFlagCommit}}}
	s.Require().NotPanics(func() {
		ops, evms, err := s.proposalHandler.CheckInitialSignaturesFromLastCommit(s.ctx, commit)
		s.Require().NoError(err)
		s.Require().Empty(ops)
		s.Require().Empty(evms)
	})
}
